import ElaVerif.Model.Merkle
/-!
Helper lemmas for the merkle-root model (C07; reused by C08/C10).
-/
namespace ElaVerif.Merkle

variable {α : Type}

/-- the node hash is injective in both arguments (collision freedom of `ComputeParent`). -/
def Injective2 (H : α → α → α) : Prop := ∀ a b c d, H a b = H c d → a = c ∧ b = d

/-- leaf / inner-node domain separation: no value satisfying `L` is a node hash. -/
def LeafSep (H : α → α → α) (L : α → Prop) : Prop := ∀ l, L l → ∀ a b, H a b ≠ l

/-- The ideal-hash hypothesis of the C07/C08/C10 theorems. -/
structure MerkleIdeal (H : α → α → α) (L : α → Prop) : Prop where
  inj : Injective2 H
  sep : LeafSep H L

theorem levelUp_length (H : α → α → α) : ∀ xs : List α, (levelUp H xs).length = (xs.length + 1) / 2
  | [] => by simp [levelUp]
  | [_] => by simp [levelUp]
  | _ :: _ :: rest => by
      simp only [levelUp, List.length_cons, levelUp_length H rest]
      omega

theorem levelUp_ne_nil (H : α → α → α) {xs : List α} (h : xs ≠ []) : levelUp H xs ≠ [] := by
  intro e
  have := levelUp_length H xs
  rw [e] at this
  cases xs with
  | nil => exact h rfl
  | cons a t => simp only [List.length_cons, List.length_nil] at this; omega

/-- `k` rounds of `levelUp`. -/
def iter (H : α → α → α) : Nat → List α → List α
  | 0, xs => xs
  | k + 1, xs => iter H k (levelUp H xs)

/-- with enough fuel the loop ends in a single node which is some `iter`. -/
theorem treeLoop_spec (H : α → α → α) : ∀ (fuel : Nat) (xs : List α), xs ≠ [] → xs.length ≤ fuel + 1 →
    ∃ d r, treeLoop H fuel xs = [r] ∧ iter H d xs = [r]
  | 0, xs, hne, hlen => by
      match xs, hne, hlen with
      | [r], _, _ => exact ⟨0, r, rfl, rfl⟩
      | _ :: _ :: _, _, h => simp at h
  | fuel + 1, xs, hne, hlen => by
      unfold treeLoop
      by_cases h : xs.length > 1
      · simp only [h, if_true]
        have hl := levelUp_length H xs
        obtain ⟨d, r, h1, h2⟩ := treeLoop_spec H fuel (levelUp H xs) (levelUp_ne_nil H hne) (by omega)
        exact ⟨d + 1, r, h1, h2⟩
      · simp only [h, if_false]
        match xs, hne, h with
        | [r], _, _ => exact ⟨0, r, rfl, rfl⟩
        | _ :: _ :: _, _, h => simp at h

theorem treeLoop_fuel_irrel (H : α → α → α) : ∀ (f1 f2 : Nat) (xs : List α),
    xs.length ≤ f1 + 1 → xs.length ≤ f2 + 1 → treeLoop H f1 xs = treeLoop H f2 xs
  | 0, 0, _, _, _ => rfl
  | 0, f2 + 1, xs, h1, _ => by
      have : ¬ xs.length > 1 := by omega
      simp [treeLoop, this]
  | f1 + 1, 0, xs, _, h2 => by
      have : ¬ xs.length > 1 := by omega
      simp [treeLoop, this]
  | f1 + 1, f2 + 1, xs, h1, h2 => by
      unfold treeLoop
      by_cases h : xs.length > 1
      · simp only [h, if_true]
        have hl := levelUp_length H xs
        exact treeLoop_fuel_irrel H f1 f2 _ (by omega) (by omega)
      · simp only [h, if_false]

/-- `computeRoot` succeeds exactly on non-empty lists, and its result is a single
    node reached by iterating `levelUp`. -/
theorem computeRoot_spec (H : α → α → α) (xs : List α) (hne : xs ≠ []) :
    ∃ d r, computeRoot H xs = .ok r ∧ iter H d xs = [r] := by
  unfold computeRoot
  have hl : xs.length ≠ 0 := by
    cases xs with
    | nil => exact absurd rfl hne
    | cons _ _ => simp
  simp only [hl, if_false]
  match xs, hne, hl with
  | [h], _, _ => exact ⟨0, h, rfl, rfl⟩
  | a :: b :: t, hne, hl =>
    simp only [newTreeRoot, hl, if_false]
    obtain ⟨d, r, h1, h2⟩ := treeLoop_spec H (a :: b :: t).length (a :: b :: t) hne (by omega)
    rw [h1]
    exact ⟨d, r, rfl, h2⟩

theorem computeRoot_nil (H : α → α → α) : computeRoot H ([] : List α) = .err := rfl

/-! ### ranks -/

/-- `Ranked H L k x`: `x` is the hash of a perfect tree of height `k` over leaves satisfying `L`. -/
def Ranked (H : α → α → α) (L : α → Prop) : Nat → α → Prop
  | 0, x => L x
  | k + 1, x => ∃ a b, Ranked H L k a ∧ Ranked H L k b ∧ x = H a b

theorem ranked_unique {H : α → α → α} {L : α → Prop} (hI : MerkleIdeal H L) :
    ∀ (k j : Nat) (x : α), Ranked H L k x → Ranked H L j x → k = j
  | 0, 0, _, _, _ => rfl
  | 0, j + 1, x, h0, ⟨a, b, _, _, e⟩ => absurd e.symm (hI.sep x h0 a b)
  | k + 1, 0, x, ⟨a, b, _, _, e⟩, h0 => absurd e.symm (hI.sep x h0 a b)
  | k + 1, j + 1, x, ⟨a, b, ha, _, e⟩, ⟨a', b', ha', _, e'⟩ => by
      have := hI.inj a b a' b' (e ▸ e')
      have := ranked_unique hI k j a ha (this.1 ▸ ha')
      omega

theorem levelUp_ranked {H : α → α → α} {L : α → Prop} (k : Nat) : ∀ xs : List α,
    (∀ x ∈ xs, Ranked H L k x) → ∀ y ∈ levelUp H xs, Ranked H L (k + 1) y
  | [], _, y, hy => by simp [levelUp] at hy
  | [a], h, y, hy => by
      simp only [levelUp, List.mem_singleton] at hy
      exact ⟨a, a, h a (by simp), h a (by simp), hy⟩
  | a :: b :: t, h, y, hy => by
      simp only [levelUp, List.mem_cons] at hy
      rcases hy with hy | hy
      · exact ⟨a, b, h a (by simp), h b (by simp), hy⟩
      · exact levelUp_ranked k t (fun x hx => h x (by simp [hx])) y hy

theorem iter_ranked {H : α → α → α} {L : α → Prop} : ∀ (d k : Nat) (xs : List α),
    (∀ x ∈ xs, Ranked H L k x) → ∀ y ∈ iter H d xs, Ranked H L (k + d) y
  | 0, _, _, h, y, hy => h y hy
  | d + 1, k, xs, h, y, hy => by
      have := iter_ranked d (k + 1) (levelUp H xs) (levelUp_ranked k xs h) y hy
      rw [show k + (d + 1) = k + 1 + d by omega]
      exact this

/-! ### `levelUp` is injective on duplicate-free lists and keeps them duplicate-free -/

theorem mem_levelUp {H : α → α → α} : ∀ (xs : List α) (y : α), y ∈ levelUp H xs →
    ∃ a b, a ∈ xs ∧ b ∈ xs ∧ y = H a b
  | [], y, hy => by simp [levelUp] at hy
  | [a], y, hy => by
      simp only [levelUp, List.mem_singleton] at hy
      exact ⟨a, a, by simp, by simp, hy⟩
  | a :: b :: t, y, hy => by
      simp only [levelUp, List.mem_cons] at hy
      rcases hy with hy | hy
      · exact ⟨a, b, by simp, by simp, hy⟩
      · obtain ⟨c, d, hc, hd, e⟩ := mem_levelUp t y hy
        exact ⟨c, d, by simp [hc], by simp [hd], e⟩

theorem levelUp_nodup {H : α → α → α} (hinj : Injective2 H) : ∀ xs : List α,
    xs.Nodup → (levelUp H xs).Nodup
  | [], _ => by simp [levelUp]
  | [a], _ => by simp [levelUp]
  | a :: b :: t, h => by
      simp only [levelUp, List.nodup_cons]
      rw [List.nodup_cons, List.nodup_cons] at h
      refine ⟨?_, levelUp_nodup hinj t h.2.2⟩
      intro hm
      obtain ⟨c, d, hc, _, e⟩ := mem_levelUp t _ hm
      have := (hinj a b c d e).1
      exact h.1 (by simp [this, hc])

theorem levelUp_inj {H : α → α → α} (hinj : Injective2 H) : ∀ xs ys : List α,
    xs.Nodup → ys.Nodup → levelUp H xs = levelUp H ys → xs = ys
  | [], [], _, _, _ => rfl
  | [], _ :: _, _, _, e => by
      have := levelUp_ne_nil H (List.cons_ne_nil _ _) e.symm; exact this.elim
  | _ :: _, [], _, _, e => by
      have := levelUp_ne_nil H (List.cons_ne_nil _ _) e; exact this.elim
  | [a], [b], _, _, e => by
      simp only [levelUp, List.cons.injEq, and_true] at e
      rw [(hinj a a b b e).1]
  | [a], b :: c :: t, _, hy, e => by
      simp only [levelUp, List.cons.injEq] at e
      have := hinj a a b c e.1
      rw [List.nodup_cons] at hy
      exact absurd (by simp [← this.1, ← this.2]) hy.1
  | a :: b :: t, [c], hx, _, e => by
      simp only [levelUp, List.cons.injEq] at e
      have := hinj a b c c e.1
      rw [List.nodup_cons] at hx
      exact absurd (by simp [this.1, this.2]) hx.1
  | a :: b :: t, c :: d :: u, hx, hy, e => by
      simp only [levelUp, List.cons.injEq] at e
      have := hinj a b c d e.1
      rw [List.nodup_cons, List.nodup_cons] at hx hy
      rw [this.1, this.2, levelUp_inj hinj t u hx.2.2 hy.2.2 e.2]

theorem iter_nodup {H : α → α → α} (hinj : Injective2 H) : ∀ (d : Nat) (xs : List α),
    xs.Nodup → (iter H d xs).Nodup
  | 0, _, h => h
  | d + 1, xs, h => iter_nodup hinj d _ (levelUp_nodup hinj xs h)

theorem iter_inj {H : α → α → α} (hinj : Injective2 H) : ∀ (d : Nat) (xs ys : List α),
    xs.Nodup → ys.Nodup → iter H d xs = iter H d ys → xs = ys
  | 0, _, _, _, _, e => e
  | d + 1, xs, ys, hx, hy, e =>
      levelUp_inj hinj xs ys hx hy
        (iter_inj hinj d _ _ (levelUp_nodup hinj xs hx) (levelUp_nodup hinj ys hy) e)

/-- Root injectivity on duplicate-free leaf lists. -/
theorem computeRoot_inj {H : α → α → α} {L : α → Prop} (hI : MerkleIdeal H L)
    (xs ys : List α) (hxL : ∀ x ∈ xs, L x) (hyL : ∀ y ∈ ys, L y)
    (hx : xs.Nodup) (hy : ys.Nodup) (r : α)
    (ex : computeRoot H xs = .ok r) (ey : computeRoot H ys = .ok r) : xs = ys := by
  have hxne : xs ≠ [] := by intro e; rw [e, computeRoot_nil] at ex; cases ex
  have hyne : ys ≠ [] := by intro e; rw [e, computeRoot_nil] at ey; cases ey
  obtain ⟨d, r1, h1, h2⟩ := computeRoot_spec H xs hxne
  obtain ⟨d', r2, h1', h2'⟩ := computeRoot_spec H ys hyne
  rw [ex] at h1; rw [ey] at h1'
  cases h1; cases h1'
  have rk := iter_ranked (H := H) (L := L) d 0 xs hxL r (by simp [h2])
  have rk' := iter_ranked (H := H) (L := L) d' 0 ys hyL r (by simp [h2'])
  have := ranked_unique hI _ _ r rk rk'
  have hd : d = d' := by omega
  subst hd
  exact iter_inj hI.inj d xs ys hx hy (h2.trans h2'.symm)

/-! ### duplicated tail -/

theorem levelUp_dup_tail (H : α → α → α) (x : α) : ∀ xs : List α, xs.length % 2 = 0 →
    levelUp H (xs ++ [x]) = levelUp H (xs ++ [x, x])
  | [], _ => rfl
  | [_], h => by simp at h
  | a :: b :: t, h => by
      simp only [List.cons_append, levelUp, List.cons.injEq, true_and]
      exact levelUp_dup_tail H x t (by simp only [List.length_cons] at h; omega)

theorem treeLoop_step (H : α → α → α) (f : Nat) (xs : List α) (h : xs.length > 1) :
    treeLoop H (f + 1) xs = treeLoop H f (levelUp H xs) := by
  rw [treeLoop]; simp only [h, if_true]

/-- two lists of length ≥ 2 with the same first level have the same root. -/
theorem computeRoot_congr (H : α → α → α) (ys zs : List α) (hy : ys.length > 1) (hz : zs.length > 1)
    (e : levelUp H ys = levelUp H zs) : computeRoot H ys = computeRoot H zs := by
  have hy0 : ¬ ys.length = 0 := by omega
  have hz0 : ¬ zs.length = 0 := by omega
  have cy : computeRoot H ys = newTreeRoot H ys := by
    match ys, hy with
    | _ :: _ :: _, _ => simp [computeRoot]
  have cz : computeRoot H zs = newTreeRoot H zs := by
    match zs, hz with
    | _ :: _ :: _, _ => simp [computeRoot]
  rw [cy, cz]
  unfold newTreeRoot
  simp only [hy0, hz0, if_false]
  obtain ⟨n, hn⟩ : ∃ n, ys.length = n + 1 := ⟨ys.length - 1, by omega⟩
  obtain ⟨m, hm⟩ : ∃ m, zs.length = m + 1 := ⟨zs.length - 1, by omega⟩
  rw [hn, hm, treeLoop_step H n ys hy, treeLoop_step H m zs hz, e]
  have l1 := levelUp_length H ys
  have l2 := levelUp_length H zs
  rw [e] at l1
  rw [treeLoop_fuel_irrel H n m _ (by omega) (by omega)]

theorem computeRoot_dup_tail (H : α → α → α) (x : α) (xs : List α)
    (hne : xs ≠ []) (hev : xs.length % 2 = 0) :
    computeRoot H (xs ++ [x]) = computeRoot H (xs ++ [x, x]) := by
  have hl : xs.length ≥ 1 := by
    cases xs with
    | nil => exact absurd rfl hne
    | cons _ _ => simp
  exact computeRoot_congr H _ _ (by simp; omega) (by simp) (levelUp_dup_tail H x xs hev)

/-! ### the transaction loop of `CheckBlockSanity` -/

theorem nodup_reverse' {β : Type} (l : List β) (h : l.Nodup) : l.reverse.Nodup := by
  unfold List.Nodup at *
  rw [List.pairwise_reverse]
  exact h.imp (fun h => h.symm)

theorem inputLoop_spec {κ : Type} [DecidableEq κ] : ∀ (ks seen seen' : List κ),
    inputLoop ks seen = some seen' → seen' = ks.reverse ++ seen ∧ (seen.Nodup → seen'.Nodup)
  | [], seen, seen', h => by
      simp only [inputLoop, Option.some.injEq] at h
      subst h; simp
  | k :: ks, seen, seen', h => by
      unfold inputLoop at h
      by_cases hk : k ∈ seen
      · simp [hk] at h
      · simp only [hk, if_false] at h
        obtain ⟨e, nd⟩ := inputLoop_spec ks (k :: seen) seen' h
        refine ⟨by simp [e], fun hs => nd (List.nodup_cons.mpr ⟨hk, hs⟩)⟩

theorem txLoop_spec {κ : Type} [DecidableEq α] [DecidableEq κ] :
    ∀ (txs : List (Tx α κ)) (seen : List α) (sin : List κ) (ids : List α),
    txLoop txs seen sin = .ok ids →
      ids = seen.reverse ++ txs.map (·.id) ∧ (seen.Nodup → ids.Nodup) ∧ (∀ t ∈ txs, t.sane = true) ∧
      (sin.Nodup → ((txs.flatMap (·.inputs)).reverse ++ sin).Nodup)
  | [], seen, sin, ids, h => by
      simp only [txLoop, Except.ok.injEq] at h
      subst h
      simp only [List.map_nil, List.append_nil, List.not_mem_nil, false_imp_iff, implies_true,
        List.flatMap_nil, List.reverse_nil, List.nil_append, imp_self, and_true, true_and]
      exact fun h => nodup_reverse' _ h
  | t :: rest, seen, sin, ids, h => by
      unfold txLoop at h
      by_cases h1 : t.id ∈ seen
      · simp [h1] at h
      · simp only [h1, if_false] at h
        by_cases h2 : t.sane = true
        · simp only [h2, Bool.not_true, Bool.false_eq_true, if_false] at h
          cases h3 : inputLoop t.inputs sin with
          | none => simp [h3] at h
          | some sin' =>
            simp only [h3] at h
            obtain ⟨e, nd, sane, ndin⟩ := txLoop_spec rest (t.id :: seen) sin' ids h
            obtain ⟨e', nd'⟩ := inputLoop_spec _ _ _ h3
            refine ⟨by simp [e], fun hs => nd (List.nodup_cons.mpr ⟨h1, hs⟩), ?_, ?_⟩
            · intro u hu
              rcases List.mem_cons.mp hu with hu | hu
              · rw [hu]; exact h2
              · exact sane u hu
            · intro hs
              have := ndin (nd' hs)
              rw [e'] at this
              simpa [List.flatMap_cons, List.append_assoc] using this
        · simp [h2] at h

/-! ### `CheckDuplicateTx` -/

def SpTx.wellTyped : SpTx → Bool
  | .withdraw ok _ | .regProducer ok _ _ | .updProducer ok _ _ | .cancelProducer ok _
  | .regCR ok _ | .updCR ok _ | .unregCR ok _ => ok
  | _ => true

def sidesOf : List SpTx → List String
  | [] => []
  | .withdraw _ hs :: r => hs ++ sidesOf r
  | _ :: r => sidesOf r

def ownersOf : List SpTx → List String
  | [] => []
  | .regProducer _ o _ :: r | .updProducer _ o _ :: r | .cancelProducer _ o :: r => o :: ownersOf r
  | _ :: r => ownersOf r

def nodesOf : List SpTx → List String
  | [] => []
  | .regProducer _ _ n :: r | .updProducer _ _ n :: r => n :: nodesOf r
  | _ :: r => nodesOf r

def cidsOf : List SpTx → List String
  | [] => []
  | .regCR _ c :: r | .updCR _ c :: r | .unregCR _ c :: r => c :: cidsOf r
  | _ :: r => cidsOf r

def sponsorCount : List SpTx → Nat
  | [] => 0
  | .sponsor :: r => 1 + sponsorCount r
  | _ :: r => sponsorCount r

theorem checkDuplicateTx_spec : ∀ (txs : List SpTx) (st : DupSt), checkDuplicateTx txs st = none →
    (∀ t ∈ txs, t.wellTyped = true) ∧ (st.sponsors ≤ 1 → st.sponsors + sponsorCount txs ≤ 1) ∧
    (st.sides.Nodup → ((sidesOf txs).reverse ++ st.sides).Nodup) ∧
    (st.owners.Nodup → ((ownersOf txs).reverse ++ st.owners).Nodup) ∧
    (st.nodes.Nodup → ((nodesOf txs).reverse ++ st.nodes).Nodup) ∧
    (st.crs.Nodup → ((cidsOf txs).reverse ++ st.crs).Nodup)
  | [], st, _ => by simp [sidesOf, ownersOf, nodesOf, cidsOf, sponsorCount]
  | t :: rest, st, h => by
      cases t with
      | sponsor =>
        simp only [checkDuplicateTx] at h
        by_cases hs : st.sponsors + 1 > 1
        · simp [hs] at h
        · simp only [hs, if_false] at h
          obtain ⟨a, b, c, d, e, f⟩ := checkDuplicateTx_spec rest _ h
          refine ⟨?_, ?_, c, d, e, f⟩
          · intro t ht; rcases List.mem_cons.mp ht with h1 | h1
            · rw [h1]; rfl
            · exact a t h1
          · intro hle; have := b (by simp only; omega); simp only [sponsorCount] at this ⊢; omega
      | other =>
        simp only [checkDuplicateTx] at h
        obtain ⟨a, b, c, d, e, f⟩ := checkDuplicateTx_spec rest _ h
        refine ⟨?_, b, c, d, e, f⟩
        intro t ht; rcases List.mem_cons.mp ht with h1 | h1
        · rw [h1]; rfl
        · exact a t h1
      | withdraw ok hashes =>
        simp only [checkDuplicateTx] at h
        cases ok with
        | false => simp at h
        | true =>
          simp only [Bool.not_true, Bool.false_eq_true, if_false] at h
          cases hl : inputLoop hashes st.sides with
          | none => simp [hl] at h
          | some sides =>
            simp only [hl] at h
            obtain ⟨a, b, c, d, e, f⟩ := checkDuplicateTx_spec rest _ h
            obtain ⟨e1, nd1⟩ := inputLoop_spec _ _ _ hl
            refine ⟨?_, b, ?_, d, e, f⟩
            · intro t ht; rcases List.mem_cons.mp ht with h1 | h1
              · rw [h1]; rfl
              · exact a t h1
            · intro hs
              have := c (nd1 hs)
              simp only [e1] at this
              simpa [sidesOf, List.reverse_append, List.append_assoc] using this
      | regProducer ok owner node =>
        simp only [checkDuplicateTx] at h
        cases ok with
        | false => simp at h
        | true =>
          simp only [Bool.not_true, Bool.false_eq_true, if_false] at h
          by_cases h1 : owner ∈ st.owners
          · simp [h1] at h
          · by_cases h2 : node ∈ st.nodes
            · simp [h1, h2] at h
            · simp only [h1, h2, if_false] at h
              obtain ⟨a, b, c, d, e, f⟩ := checkDuplicateTx_spec rest _ h
              refine ⟨?_, b, c, ?_, ?_, f⟩
              · intro t ht; rcases List.mem_cons.mp ht with h3 | h3
                · rw [h3]; rfl
                · exact a t h3
              · intro hs
                have := d (List.nodup_cons.mpr ⟨h1, hs⟩)
                simpa [ownersOf, List.reverse_cons, List.append_assoc] using this
              · intro hs
                have := e (List.nodup_cons.mpr ⟨h2, hs⟩)
                simpa [nodesOf, List.reverse_cons, List.append_assoc] using this
      | updProducer ok owner node =>
        simp only [checkDuplicateTx] at h
        cases ok with
        | false => simp at h
        | true =>
          simp only [Bool.not_true, Bool.false_eq_true, if_false] at h
          by_cases h1 : owner ∈ st.owners
          · simp [h1] at h
          · by_cases h2 : node ∈ st.nodes
            · simp [h1, h2] at h
            · simp only [h1, h2, if_false] at h
              obtain ⟨a, b, c, d, e, f⟩ := checkDuplicateTx_spec rest _ h
              refine ⟨?_, b, c, ?_, ?_, f⟩
              · intro t ht; rcases List.mem_cons.mp ht with h3 | h3
                · rw [h3]; rfl
                · exact a t h3
              · intro hs
                have := d (List.nodup_cons.mpr ⟨h1, hs⟩)
                simpa [ownersOf, List.reverse_cons, List.append_assoc] using this
              · intro hs
                have := e (List.nodup_cons.mpr ⟨h2, hs⟩)
                simpa [nodesOf, List.reverse_cons, List.append_assoc] using this
      | cancelProducer ok owner =>
        simp only [checkDuplicateTx] at h
        cases ok with
        | false => simp at h
        | true =>
          simp only [Bool.not_true, Bool.false_eq_true, if_false] at h
          by_cases h1 : owner ∈ st.owners
          · simp [h1] at h
          · simp only [h1, if_false] at h
            obtain ⟨a, b, c, d, e, f⟩ := checkDuplicateTx_spec rest _ h
            refine ⟨?_, b, c, ?_, e, f⟩
            · intro t ht; rcases List.mem_cons.mp ht with h3 | h3
              · rw [h3]; rfl
              · exact a t h3
            · intro hs
              have := d (List.nodup_cons.mpr ⟨h1, hs⟩)
              simpa [ownersOf, List.reverse_cons, List.append_assoc] using this
      | regCR ok cid =>
        simp only [checkDuplicateTx] at h
        cases ok with
        | false => simp at h
        | true =>
          simp only [Bool.not_true, Bool.false_eq_true, if_false] at h
          by_cases h1 : cid ∈ st.crs
          · simp [h1] at h
          · simp only [h1, if_false] at h
            obtain ⟨a, b, c, d, e, f⟩ := checkDuplicateTx_spec rest _ h
            refine ⟨?_, b, c, d, e, ?_⟩
            · intro t ht; rcases List.mem_cons.mp ht with h3 | h3
              · rw [h3]; rfl
              · exact a t h3
            · intro hs
              have := f (List.nodup_cons.mpr ⟨h1, hs⟩)
              simpa [cidsOf, List.reverse_cons, List.append_assoc] using this
      | updCR ok cid =>
        simp only [checkDuplicateTx] at h
        cases ok with
        | false => simp at h
        | true =>
          simp only [Bool.not_true, Bool.false_eq_true, if_false] at h
          by_cases h1 : cid ∈ st.crs
          · simp [h1] at h
          · simp only [h1, if_false] at h
            obtain ⟨a, b, c, d, e, f⟩ := checkDuplicateTx_spec rest _ h
            refine ⟨?_, b, c, d, e, ?_⟩
            · intro t ht; rcases List.mem_cons.mp ht with h3 | h3
              · rw [h3]; rfl
              · exact a t h3
            · intro hs
              have := f (List.nodup_cons.mpr ⟨h1, hs⟩)
              simpa [cidsOf, List.reverse_cons, List.append_assoc] using this
      | unregCR ok cid =>
        simp only [checkDuplicateTx] at h
        cases ok with
        | false => simp at h
        | true =>
          simp only [Bool.not_true, Bool.false_eq_true, if_false] at h
          by_cases h1 : cid ∈ st.crs
          · simp [h1] at h
          · simp only [h1, if_false] at h
            obtain ⟨a, b, c, d, e, f⟩ := checkDuplicateTx_spec rest _ h
            refine ⟨?_, b, c, d, e, ?_⟩
            · intro t ht; rcases List.mem_cons.mp ht with h3 | h3
              · rw [h3]; rfl
              · exact a t h3
            · intro hs
              have := f (List.nodup_cons.mpr ⟨h1, hs⟩)
              simpa [cidsOf, List.reverse_cons, List.append_assoc] using this

end ElaVerif.Merkle
