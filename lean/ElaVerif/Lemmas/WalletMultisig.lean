import ElaVerif.Model.WalletCodec
import ElaVerif.Lemmas.RunPrograms
/-! Completeness of the m-of-n check for parameters the wallet builds, and acceptance of the wallet's
    m-of-n program by the RunPrograms model (property C37). Core Lean only. -/
namespace ElaVerif.WalletCodec
open ElaVerif.Script ElaVerif.RunPrograms

/-- the parameter the wallet accumulates: `64 ‖ sig` per signer -/
def sigChunks : List (Bytes × Bytes) → Bytes
  | [] => []
  | (_, s) :: rest => (64 :: s) ++ sigChunks rest

theorem sigChunks_length : ∀ (ss : List (Bytes × Bytes)), (∀ x ∈ ss, x.2.length = 64) → (sigChunks ss).length = 65 * ss.length
  | [], _ => rfl
  | (p, s) :: rest, h => by
    have h1 := h (p, s) (by simp)
    have ih := sigChunks_length rest (fun x hx => h x (by simp [hx]))
    simp only [sigChunks, List.length_append, List.length_cons, ih]
    simp at h1
    omega

theorem matchKey_finds {D : Type} (O : Oracles D) (d : D) (s pk : Bytes) : ∀ (pks : List Bytes),
    pk ∈ pks → (∀ q ∈ pks, 1 ≤ q.length) → (∀ q ∈ pks, O.decodeOk (q.drop 1) = true) →
    (∀ q ∈ pks, O.verify (q.drop 1) d s = true ↔ q = pk) →
    matchKey O d s pks = .val (.ok (some pk))
  | [], h, _, _, _ => by cases h
  | q :: rest, hmem, hlen, hdec, hver => by
    unfold matchKey
    rw [sliceFrom_val (hlen q (by simp))]
    simp only [R.bind_val]
    rw [hdec q (by simp)]
    simp only [Bool.not_true, Bool.false_eq_true, if_false]
    by_cases hq : O.verify (q.drop 1) d s = true
    · rw [if_pos hq]
      have := (hver q (by simp)).mp hq
      rw [this]
    · rw [if_neg hq]
      have hne : q ≠ pk := by
        intro he; apply hq; exact (hver q (by simp)).mpr he
      have hmem' : pk ∈ rest := by
        simp only [List.mem_cons] at hmem
        rcases hmem with h | h
        · exact absurd h.symm hne
        · exact h
      exact matchKey_finds O d s pk rest hmem' (fun x hx => hlen x (by simp [hx]))
        (fun x hx => hdec x (by simp [hx])) (fun x hx => hver x (by simp [hx]))

/-- the signature loop accepts every chunk the wallet produced -/
theorem sigLoop_complete {D : Type} (O : Oracles D) (d : D) (pks : List Bytes)
    (hlen : ∀ q ∈ pks, 1 ≤ q.length) (hdec : ∀ q ∈ pks, O.decodeOk (q.drop 1) = true) :
    ∀ (ss : List (Bytes × Bytes)) (pre : Bytes) (v : List Bytes) (fuel : Nat),
      (∀ x ∈ ss, x.2.length = 64) → (∀ x ∈ ss, x.1 ∈ pks) → (ss.map (·.1)).Nodup → (∀ x ∈ ss, x.1 ∉ v) →
      (∀ x ∈ ss, ∀ q ∈ pks, O.verify (q.drop 1) d x.2 = true ↔ q = x.1) →
      (sigChunks ss).length < fuel →
      ∃ w, sigLoop O d pks (pre ++ sigChunks ss) fuel pre.length v = .val (.ok w) ∧ w.length = ss.length + v.length
  | [], pre, v, fuel, _, _, _, _, _, hf => by
    match fuel, hf with
    | fuel + 1, _ =>
      unfold sigLoop
      simp [sigChunks]
  | (pk, s) :: rest, pre, v, fuel, hs, hm, hnd, hnv, hver, hf => by
    have hs1 : s.length = 64 := hs (pk, s) (by simp)
    match fuel, hf with
    | fuel + 1, hf =>
      unfold sigLoop
      have htot : (pre ++ sigChunks ((pk, s) :: rest)).length = pre.length + 65 + (sigChunks rest).length := by
        simp [sigChunks, hs1]; omega
      rw [if_pos (by rw [htot]; omega)]
      have hsl : ElaVerif.RunPrograms.slice (pre ++ sigChunks ((pk, s) :: rest)) pre.length (pre.length + 65) = .val (64 :: s) := by
        rw [slice_val (by omega) (by rw [htot]; omega)]
        congr 1
        rw [List.drop_left' rfl]
        simp only [sigChunks]
        rw [show pre.length + 65 - pre.length = (64 :: s).length by simp [hs1]]
        exact List.take_left' rfl
      rw [hsl]
      simp only [R.bind_val]
      rw [sliceFrom_val (by simp)]
      simp only [R.bind_val, List.drop_succ_cons, List.drop_zero]
      rw [matchKey_finds O d s pk pks (hm (pk, s) (by simp)) hlen hdec (hver (pk, s) (by simp))]
      simp only [R.bind_val]
      have hnc : v.contains pk = false := by
        have := hnv (pk, s) (by simp)
        simpa using this
      rw [hnc]
      simp only [Bool.false_eq_true, if_false]
      have hnd' := hnd
      simp only [List.map_cons, List.nodup_cons] at hnd'
      have key := sigLoop_complete O d pks hlen hdec rest (pre ++ (64 :: s)) (pk :: v) fuel
        (fun x hx => hs x (by simp [hx])) (fun x hx => hm x (by simp [hx])) hnd'.2
        (by
          intro x hx hc
          simp only [List.mem_cons] at hc
          rcases hc with hc | hc
          · apply hnd'.1
            simp only [List.mem_map]
            exact ⟨x, hx, hc⟩
          · exact hnv x (by simp [hx]) hc)
        (fun x hx => hver x (by simp [hx]))
        (by
          have : (sigChunks ((pk, s) :: rest)).length = 65 + (sigChunks rest).length := by
            simp [sigChunks, hs1]; omega
          omega)
      obtain ⟨w, hw, hwl⟩ := key
      have e1 : pre ++ sigChunks ((pk, s) :: rest) = (pre ++ (64 :: s)) ++ sigChunks rest := by
        simp [sigChunks]
      have e2 : pre.length + 65 = (pre ++ (64 :: s)).length := by simp [hs1]
      rw [e1, e2, hw]
      exact ⟨w, rfl, by simp at hwl ⊢; omega⟩

/-- **completeness of the m-of-n check** for wallet-produced parameters: `k` distinct keys of the
    script signed (m ≤ k ≤ n), in any order, every key decodes, and each signature verifies for its
    signer's key only ⇒ `VerifyMultisigSignatures` accepts. -/
theorem verifyMultisig_complete {D : Type} (O : Oracles D) (d : D) (m n : Int) (pks : List Bytes)
    (ss : List (Bytes × Bytes))
    (hn : (pks.length : Int) = n) (hm : m ≤ (ss.length : Int)) (hk : (ss.length : Int) ≤ n)
    (hlen : ∀ q ∈ pks, 1 ≤ q.length) (hdec : ∀ q ∈ pks, O.decodeOk (q.drop 1) = true)
    (hs : ∀ x ∈ ss, x.2.length = 64) (hmem : ∀ x ∈ ss, x.1 ∈ pks) (hnd : (ss.map (·.1)).Nodup)
    (hver : ∀ x ∈ ss, ∀ q ∈ pks, O.verify (q.drop 1) d x.2 = true ↔ q = x.1) :
    verifyMultisig O m n pks (sigChunks ss) d = ok := by
  have hl := sigChunks_length ss hs
  unfold verifyMultisig
  rw [if_neg (by omega), if_neg (by omega)]
  have hdiv : (sigChunks ss).length / 65 = ss.length := by rw [hl]; omega
  rw [hdiv, if_neg (by omega), if_neg (by omega)]
  obtain ⟨w, hw, hwl⟩ := sigLoop_complete O d pks hlen hdec ss [] [] ((sigChunks ss).length + 1) hs hmem hnd
    (by intro x _ h; cases h) hver (by omega)
  simp only [List.nil_append, List.length_nil] at hw
  rw [hw]
  simp only [R.bind_val]
  rw [if_neg (by simp at hwl; omega)]


theorem keyPushes_length : ∀ (ks : List Bytes), (∀ k ∈ ks, k.length = 33) → (keyPushes ks).length = 34 * ks.length
  | [], _ => rfl
  | k :: ks, h => by
    have := keyPushes_length ks (fun x hx => h x (by simp [hx]))
    have hk := h k (by simp)
    simp only [keyPushes, List.length_append, List.length_cons, this, hk]
    omega

theorem keysLoop_keyPushes : ∀ (ks : List Bytes) (pre : Bytes) (fuel : Nat), (∀ k ∈ ks, k.length = 33) →
    (keyPushes ks).length < fuel →
    keysLoop (pre ++ keyPushes ks) fuel pre.length = .val (ks.map (fun k => 33 :: k))
  | [], pre, fuel, _, hf => by
    match fuel, hf with
    | fuel + 1, _ => unfold keysLoop; simp [keyPushes]
  | k :: ks, pre, fuel, h, hf => by
    have hk := h k (by simp)
    have hl := keyPushes_length ks (fun x hx => h x (by simp [hx]))
    match fuel, hf with
    | fuel + 1, hf =>
      unfold keysLoop
      have htot : (pre ++ keyPushes (k :: ks)).length = pre.length + 34 + (keyPushes ks).length := by
        simp [keyPushes, hk]; omega
      rw [if_pos (by rw [htot]; omega)]
      have hsl : ElaVerif.RunPrograms.slice (pre ++ keyPushes (k :: ks)) pre.length (pre.length + 34) = .val (33 :: k) := by
        rw [slice_val (by omega) (by rw [htot]; omega)]
        congr 1
        rw [List.drop_left' rfl]
        simp only [keyPushes]
        rw [show pre.length + 34 - pre.length = (33 :: k).length by simp [hk]]
        exact List.take_left' rfl
      rw [hsl]
      simp only [R.bind_val]
      have e1 : pre ++ keyPushes (k :: ks) = (pre ++ (33 :: k)) ++ keyPushes ks := by simp [keyPushes]
      have e2 : pre.length + 34 = (pre ++ (33 :: k)).length := by simp [hk]
      rw [e1, e2, keysLoop_keyPushes ks (pre ++ (33 :: k)) fuel (fun x hx => h x (by simp [hx])) (by
        have : (keyPushes (k :: ks)).length = 34 + (keyPushes ks).length := by simp [keyPushes, hk]; omega
        omega)]
      rfl

/-- the script `hd ‖ key pushes ‖ nb ‖ CHECKMULTISIG` parses into its key scripts -/
theorem parseScript_wallet (hd nb : UInt8) (ks : List Bytes) (h33 : ∀ k ∈ ks, k.length = 33) (h2 : 2 ≤ ks.length) :
    parseScript MULTISIG (hd :: (keyPushes ks ++ [nb, 0xAE])) = .val (.ok (ks.map (fun k => 33 :: k))) := by
  have hl := keyPushes_length ks h33
  generalize hK : keyPushes ks = K at *
  have hlen : (hd :: (K ++ [nb, 0xAE])).length = K.length + 3 := by simp
  unfold parseScript
  rw [if_neg (by rw [hlen]; omega)]
  have hlast : idx (hd :: (K ++ [nb, 0xAE])) ((hd :: (K ++ [nb, 0xAE])).length - 1) = .val 0xAE := by
    rw [hlen]
    unfold idx
    have : (hd :: (K ++ [nb, 0xAE]))[K.length + 3 - 1]? = some 0xAE := by
      show (hd :: (K ++ [nb, 0xAE]))[(K.length + 1) + 1]? = some 0xAE
      rw [List.getElem?_cons_succ, List.getElem?_append_right (by omega)]
      simp
    rw [this]; rfl
  rw [hlast]
  simp only [R.bind_val]
  rw [if_neg (by decide)]
  unfold parsePublicKeys
  rw [if_neg (by rw [hlen]; omega)]
  have hc1 : ElaVerif.RunPrograms.slice (hd :: (K ++ [nb, 0xAE])) 0 ((hd :: (K ++ [nb, 0xAE])).length - 1) = .val (hd :: (K ++ [nb])) := by
    rw [slice_val (by omega) (by omega), hlen]
    congr 1
    simp only [List.drop_zero, Nat.sub_zero]
    rw [show hd :: (K ++ [nb, 0xAE]) = (hd :: (K ++ [nb])) ++ [0xAE] by simp]
    exact List.take_left' (by simp)
  rw [hc1]
  simp only [R.bind_val]
  rw [sliceFrom_val (by simp)]
  simp only [R.bind_val, List.drop_succ_cons, List.drop_zero]
  rw [if_neg (by simp)]
  have hc3 : ElaVerif.RunPrograms.slice (K ++ [nb]) 0 ((K ++ [nb]).length - 1) = .val K := by
    rw [slice_val (by omega) (by omega)]
    congr 1
    simp only [List.drop_zero, Nat.sub_zero]
    exact List.take_left' (by simp)
  rw [hc3]
  simp only [R.bind_val]
  rw [if_neg (by rw [hl]; omega)]
  have := keysLoop_keyPushes ks [] (K.length + 1) h33 (by rw [hK]; omega)
  simp only [List.nil_append, List.length_nil, hK] at this
  rw [this]
  rfl


theorem nodup_map_cons33 : ∀ (l : List Bytes), l.Nodup → (l.map (fun k => (33 : UInt8) :: k)).Nodup
  | [], _ => List.nodup_nil
  | a :: t, h => by
    rw [List.nodup_cons] at h
    simp only [List.map_cons, List.nodup_cons]
    refine ⟨?_, nodup_map_cons33 t h.2⟩
    intro hm
    simp only [List.mem_map] at hm
    obtain ⟨b, hb, he⟩ := hm
    have : b = a := by simpa using he
    subst this
    exact h.1 hb

theorem ofNat_toNat_small (k : Nat) (h : k < 256) : (UInt8.ofNat k).toNat = k := by
  simp [UInt8.toNat_ofNat', Nat.mod_eq_of_lt h]

theorem mnOf_wallet (hd nb : UInt8) (K : Bytes) :
    mnOf (hd :: (K ++ [nb, 0xAE])) = .val ((hd.toNat : Int) - PUSH1i + 1, (nb.toNat : Int) - PUSH1i + 1) := by
  have hlen : (hd :: (K ++ [nb, 0xAE])).length = K.length + 3 := by simp
  unfold mnOf
  rw [if_neg (by rw [hlen]; omega), hlen]
  have h1 : idx (hd :: (K ++ [nb, 0xAE])) (K.length + 3 - 2) = .val nb.toNat := by
    unfold idx
    have : (hd :: (K ++ [nb, 0xAE]))[K.length + 3 - 2]? = some nb := by
      show (hd :: (K ++ [nb, 0xAE]))[K.length + 1]? = some nb
      rw [List.getElem?_cons_succ, List.getElem?_append_right (by omega)]
      simp
    rw [this]
  have h0 : idx (hd :: (K ++ [nb, 0xAE])) 0 = .val hd.toNat := by simp [idx]
  rw [h1, h0]
  rfl

/-- **m-of-n account.** For a script built by the wallet from 2..16 keys, with `k` distinct members
    signing (m ≤ k ≤ n, any order), every key decoding and each signature verifying for its signer's
    key only, the program `(script, 64‖sig₁ ‖ … ‖ 64‖sig_k)` is accepted for the multisig address of
    the script. -/
theorem wallet_multisig_accepts {D : Type} (O : Oracles D) (d : D) (m : Nat) (pubs : List Bytes)
    (ss : List (Bytes × Bytes))
    (h33 : ∀ k ∈ pubs, k.length = 33) (hn2 : 2 ≤ pubs.length) (hn16 : pubs.length ≤ 16)
    (hm1 : 1 ≤ m) (hmn : m ≤ pubs.length) (hk1 : m ≤ ss.length) (hk2 : ss.length ≤ pubs.length)
    (hs : ∀ x ∈ ss, x.2.length = 64) (hmem : ∀ x ∈ ss, x.1 ∈ pubs) (hnd : (ss.map (·.1)).Nodup)
    (hdec : ∀ q ∈ pubs, O.decodeOk q = true)
    (hver : ∀ x ∈ ss, ∀ q ∈ pubs, O.verify q d x.2 = true ↔ q = x.1) :
    ∃ code, multiSigCode m pubs = some code ∧
      runPrograms Fix.all O d [⟨PrefixMultiSig, O.codeHash code⟩] [⟨code, sigChunks ss⟩] = ok := by
  have hne : pubs.isEmpty = false := by
    cases pubs with
    | nil => simp at hn2
    | cons a b => rfl
  have hcode : multiSigCode m pubs =
      some (UInt8.ofNat (0x50 + m) :: (keyPushes pubs ++ [UInt8.ofNat (0x50 + pubs.length), 0xAE])) := by
    unfold multiSigCode
    rw [hne]
    simp only [Bool.false_eq_true, if_false]
    rw [if_neg (by intro h; apply h; omega)]
    unfold pushNumber
    rw [if_neg (by omega), if_pos (by omega), if_neg (by omega), if_pos hn16]
    simp
  refine ⟨_, hcode, ?_⟩
  generalize hhd : UInt8.ofNat (0x50 + m) = hd
  generalize hnb : UInt8.ofNat (0x50 + pubs.length) = nb
  have hhdn : hd.toNat = 0x50 + m := by rw [← hhd]; exact ofNat_toNat_small _ (by omega)
  have hnbn : nb.toNat = 0x50 + pubs.length := by rw [← hnb]; exact ofNat_toNat_small _ (by omega)
  unfold runPrograms
  rw [if_neg (by simp)]
  unfold runLoop runOne
  simp only []
  rw [if_neg (by decide), if_neg (by simp), if_neg (by decide), if_pos trivial]
  have hcm : checkMultiSig Fix.all O ⟨hd :: (keyPushes pubs ++ [nb, 0xAE]), sigChunks ss⟩ d = ok := by
    unfold checkMultiSig
    simp only []
    rw [if_neg (by simp [Fix.all])]
    rw [mnOf_wallet]
    simp only [R.bind_val]
    rw [if_neg (by rw [hhdn, hnbn]; simp [PUSH1i]; omega)]
    rw [parseScript_wallet hd nb pubs h33 hn2]
    simp only [R.bind_val]
    -- the parameter does not depend on the first components; re-key it by the key scripts
    have hsc : ∀ (l : List (Bytes × Bytes)), sigChunks (l.map (fun x => ((33 : UInt8) :: x.1, x.2))) = sigChunks l := by
      intro l
      induction l with
      | nil => rfl
      | cons a t ih => cases a; simp [sigChunks, ih]
    rw [← hsc ss]
    apply verifyMultisig_complete
    · simp [hnbn, PUSH1i]; omega
    · simp [hhdn, PUSH1i]; omega
    · simp [hnbn, PUSH1i]; omega
    · intro q hq; simp only [List.mem_map] at hq; obtain ⟨k, _, rfl⟩ := hq; simp
    · intro q hq; simp only [List.mem_map] at hq; obtain ⟨k, hk, rfl⟩ := hq; simpa using hdec k hk
    · intro x hx; simp only [List.mem_map] at hx; obtain ⟨y, hy, rfl⟩ := hx; exact hs y hy
    · intro x hx; simp only [List.mem_map] at hx; obtain ⟨y, hy, rfl⟩ := hx
      simp only [List.mem_map]; exact ⟨y.1, hmem y hy, rfl⟩
    · rw [List.map_map]
      have : ((fun x : Bytes × Bytes => x.1) ∘ fun x : Bytes × Bytes => ((33 : UInt8) :: x.1, x.2)) = (fun k => (33 : UInt8) :: k) ∘ (·.1) := rfl
      rw [this, ← List.map_map]
      exact nodup_map_cons33 _ hnd
    · intro x hx q hq
      simp only [List.mem_map] at hx hq
      obtain ⟨y, hy, rfl⟩ := hx
      obtain ⟨k, hk, rfl⟩ := hq
      simp only [List.drop_succ_cons, List.drop_zero]
      rw [hver y hy k hk]
      simp
  rw [hcm]
  simp only [ok, R.bind_val]
  unfold runLoop
  rfl


end ElaVerif.WalletCodec

namespace ElaVerif.WalletCodec

theorem signByM_spec (m : Nat) : ∀ (held : List Bool) (j : Nat), j ≤ m →
    signByM m held j = min (j + held.count true) (m + 1)
  | [], j, h => by simp [signByM]; omega
  | b :: rest, j, h => by
    unfold signByM
    cases b
    · simp only [Bool.not_false, if_true]
      rw [signByM_spec m rest j h]; simp
    · simp only [Bool.not_true, Bool.false_eq_true, if_false]
      by_cases hj : j = m
      · rw [if_pos hj]; subst hj; simp [List.count_cons]
      · rw [if_neg hj, signByM_spec m rest (j + 1) (by omega)]
        simp [List.count_cons]; omega

end ElaVerif.WalletCodec
