import ElaVerif.Model.ConsensusMode
namespace ElaVerif.ConsensusMode

theorem rollback_add (a b : Nat) (s : St) : rollback (a + b) s = rollback b (rollback a s) := by
  induction a generalizing s with
  | zero => simp [rollback]
  | succ a ih =>
    have : a + 1 + b = (a + b) + 1 := by omega
    rw [this]
    simp only [rollback]
    exact ih _

theorem disconnect_connect (s : St) (b : Blk) (h : b = .revertToPow → s.pow = false) :
    disconnect (connect s b) = s := by
  cases b with
  | plain => simp [connect, disconnect]
  | revertToPow =>
    have := h rfl
    cases s; simp_all [connect, disconnect]

theorem rollback_connectAll (s : St) (bs : List Blk) (hv : Valid s bs) :
    rollback bs.length (connectAll s bs) = s := by
  induction bs generalizing s with
  | nil => rfl
  | cons b bs ih =>
    have hb : b = .revertToPow → s.pow = false := by
      intro e; subst e; exact hv.1
    have hv' : Valid (connect s b) bs := by
      cases b with
      | plain => exact hv
      | revertToPow => exact hv.2
    have : (b :: bs).length = bs.length + 1 := rfl
    rw [this, rollback_add]
    simp only [connectAll]
    rw [ih (connect s b) hv']
    simp only [rollback]
    exact disconnect_connect s b hb

end ElaVerif.ConsensusMode
