import ElaVerif.Lemmas.Deposit
/-!
C28 helper lemmas: the per-account and per-stake-address fold arguments behind `C28_inv_partial`.
-/
namespace ElaVerif.Deposit

/-- a transaction that lowers the available amount of owner `o`. -/
def isDebit (o : Nat) : Tx → Bool
  | .ret o' _ _ _ _ => o' == o
  | .pen o' _ => o' == o
  | _ => false

/-- a transaction that consumes free vote rights of stake address `k`. -/
def isConsumer (k : Nat) : Tx → Bool
  | .vote k' _ _ _ => k' == k
  | .retv k' _ => k' == k
  | .renew k' _ _ _ _ => k' == k
  | _ => false

/-- environment assumptions on one transaction (what the rest of the node guarantees):
    output values are non-negative, a registration pays at least the lock it creates,
    penalties are non-negative, the tracked part of the inputs is part of the inputs. -/
def envOK : Tx → Prop
  | .reg _ amount lock _ => lock ≤ amount
  | .dep _ v => 0 ≤ v
  | .ret _ inp tinp _ _ => tinp ≤ inp
  | .pen _ p => 0 ≤ p
  | .stake _ v => 0 ≤ v
  | _ => True

def AcctOK (a : Acct) : Prop :=
  0 ≤ a.penalty ∧ a.deposit ≤ a.total ∧ a.total = a.cin - a.cout

def StakeOK (t : Stake) : Prop :=
  0 ≤ t.used ∧ t.used ≤ t.rights ∧ t.used = sumV t.live ∧ ∀ v ∈ t.live, 0 < v.amount

def OKa : Option Acct → Prop
  | none => True
  | some a => AcctOK a

def OKs : Option Stake → Prop
  | none => True
  | some t => StakeOK t

/-- what an accepted context check says about the owner's PRE-BLOCK account. -/
def chkA (o : Nat) (a0? : Option Acct) : Tx → Prop
  | .ret o' inp _ change out => o' = o → ∃ a0, a0? = some a0 ∧ inp - change ≤ a0.available ∧ out < a0.available
  | _ => True

def chkS (retvFee : Int) (k : Nat) (t0? : Option Stake) : Tx → Prop
  | .vote k' _ vs _ => k' = k → ∃ t0, t0? = some t0 ∧ (∀ v ∈ vs, 0 < v) ∧ sumI vs ≤ t0.rights - t0.used
  | .retv k' v => k' = k → retvFee < v ∧ ∃ t0, t0? = some t0 ∧ v ≤ t0.rights - t0.used
  | .renew k' oldLock amount _ _ => k' = k → ∃ t0, t0? = some t0 ∧ (⟨oldLock, amount⟩ : Vote) ∈ t0.live
  | _ => True

theorem fold_acct_ok (P : Params) (h o : Nat) (a0? : Option Acct) :
    ∀ (txs : List Tx) (a? : Option Acct),
      (∀ tx ∈ txs, envOK tx) → (∀ tx ∈ txs, chkA o a0? tx) →
      (txs.filter (isDebit o)).length ≤ 1 → OKa a? →
      ((txs.filter (isDebit o)).length = 1 → ∀ a0, a0? = some a0 → ∃ a, a? = some a ∧ a0.available ≤ a.available) →
      OKa (txs.foldl (fun a? tx => projA P h o a0? tx a?) a?) := by
  intro txs
  induction txs with
  | nil => intro a? _ _ _ hok _; exact hok
  | cons tx rest ih =>
    intro a? henv hchk hcnt hok htrack
    simp only [List.foldl_cons]
    have henv' : ∀ t ∈ rest, envOK t := fun t ht => henv t (by simp [ht])
    have hchk' : ∀ t ∈ rest, chkA o a0? t := fun t ht => hchk t (by simp [ht])
    have he := henv tx (by simp)
    have hc := hchk tx (by simp)
    by_cases hd : isDebit o tx = true
    · -- the (only) debit of this owner in the block
      have hf : (tx :: rest).filter (isDebit o) = tx :: rest.filter (isDebit o) := List.filter_cons_of_pos hd
      have hrest0 : (rest.filter (isDebit o)).length = 0 := by
        rw [hf] at hcnt; simp only [List.length_cons] at hcnt; omega
      have hnow : ((tx :: rest).filter (isDebit o)).length = 1 := by
        rw [hf]; simp only [List.length_cons]; omega
      apply ih _ henv' hchk' (by omega)
      · cases tx with
        | ret o' inp tinp change out =>
          have ho : o' = o := by simpa [isDebit] using hd
          subst ho
          obtain ⟨a0, ha0, hw, _⟩ := hc rfl
          obtain ⟨a, ha, hav⟩ := htrack hnow a0 ha0
          subst ha; subst ha0
          simp only [projA, if_true, Option.map, OKa, AcctOK, acctStep] at hok ⊢
          simp only [envOK] at he
          simp only [Acct.available] at hw hav
          obtain ⟨h1, h2, h3⟩ := hok
          refine ⟨h1, ?_, ?_⟩ <;> omega
        | pen o' p =>
          have ho : o' = o := by simpa [isDebit] using hd
          subst ho
          simp only [envOK] at he
          cases a0? with
          | none => simpa [projA] using hok
          | some a0 =>
            cases a? with
            | none => simp [projA, OKa]
            | some a =>
              simp only [projA, if_true, Option.map, OKa, AcctOK, acctStep] at hok ⊢
              obtain ⟨h1, h2, h3⟩ := hok
              split
              · exact ⟨by simp; omega, h2, h3⟩
              · split
                · exact ⟨by simp; omega, h2, h3⟩
                · split
                  · exact ⟨by simp; omega, h2, h3⟩
                  · exact ⟨h1, h2, h3⟩
        | _ => simp [isDebit] at hd
      · intro hone; omega
    · -- not a debit of this owner
      have hd' : isDebit o tx = false := by simpa using hd
      have hf : (tx :: rest).filter (isDebit o) = rest.filter (isDebit o) := List.filter_cons_of_neg (by simp [hd'])
      have hcnt' : (rest.filter (isDebit o)).length ≤ 1 := by
        rw [hf] at hcnt; exact hcnt
      have hsame : ((tx :: rest).filter (isDebit o)).length = (rest.filter (isDebit o)).length := by
        rw [hf]
      apply ih _ henv' hchk' hcnt'
      · -- OK preserved
        cases tx with
        | reg o' amount lock v2 =>
          simp only [projA]
          split
          · cases a? with
            | some a => simpa using hok
            | none =>
              simp only [envOK] at he
              simp [OKa, AcctOK, newAcct]; omega
          · exact hok
        | dep o' v =>
          simp only [projA]
          split
          · cases a0? with
            | none => simpa using hok
            | some a0 =>
              cases a? with
              | none => simp [OKa]
              | some a =>
                simp only [envOK] at he
                simp only [Option.map, OKa, AcctOK, acctStep] at hok ⊢
                obtain ⟨h1, h2, h3⟩ := hok
                refine ⟨h1, ?_, ?_⟩ <;> omega
          · exact hok
        | cancel o' =>
          simp only [projA]
          split
          · cases a0? with
            | none => simpa using hok
            | some a0 =>
              cases a? with
              | none => simp [OKa]
              | some a => simpa [Option.map, OKa, AcctOK, acctStep] using hok
          · exact hok
        | ret o' inp tinp change out =>
          have ho : ¬ o' = o := by simpa [isDebit] using hd'
          simpa [projA, ho] using hok
        | pen o' p =>
          have ho : ¬ o' = o := by simpa [isDebit] using hd'
          simpa [projA, ho] using hok
        | stake k v => simpa [projA] using hok
        | vote k lock vs bad => simpa [projA] using hok
        | renew k ol am nl bo => simpa [projA] using hok
        | retv k v => simpa [projA] using hok
      · -- tracking preserved: available can only have grown
        intro hone a0 ha0
        obtain ⟨a, ha, hav⟩ := htrack (by omega) a0 ha0
        subst ha; subst ha0
        cases tx with
        | reg o' amount lock v2 =>
          simp only [projA]
          split
          · exact ⟨a, rfl, hav⟩
          · exact ⟨a, rfl, hav⟩
        | dep o' v =>
          simp only [projA]
          split
          · simp only [envOK] at he
            refine ⟨_, rfl, ?_⟩
            simp only [acctStep, Acct.available] at hav ⊢; omega
          · exact ⟨a, rfl, hav⟩
        | cancel o' =>
          simp only [projA]
          split
          · refine ⟨_, rfl, ?_⟩
            simpa [acctStep, Acct.available] using hav
          · exact ⟨a, rfl, hav⟩
        | ret o' inp tinp change out =>
          have ho : ¬ o' = o := by simpa [isDebit] using hd'
          exact ⟨a, by simp [projA, ho], hav⟩
        | pen o' p =>
          have ho : ¬ o' = o := by simpa [isDebit] using hd'
          exact ⟨a, by simp [projA, ho], hav⟩
        | stake k v => exact ⟨a, by simp [projA], hav⟩
        | vote k lock vs bad => exact ⟨a, by simp [projA], hav⟩
        | renew k ol am nl bo => exact ⟨a, by simp [projA], hav⟩
        | retv k v => exact ⟨a, by simp [projA], hav⟩


theorem sumI_nonneg (vs : List Int) (hpos : ∀ v ∈ vs, 0 < v) : 0 ≤ sumI vs := by
  induction vs with
  | nil => simp [sumI]
  | cons x t ih =>
    have h1 := hpos x (by simp)
    have h2 := ih (fun v hv => hpos v (by simp [hv]))
    simp [sumI]; omega

theorem fold_stake_ok (k : Nat) (retvFee : Int) (t0? : Option Stake) :
    ∀ (txs : List Tx) (t? : Option Stake),
      (∀ tx ∈ txs, envOK tx) → (∀ tx ∈ txs, chkS retvFee k t0? tx) →
      (txs.filter (isConsumer k)).length ≤ 1 → OKs t? →
      ((txs.filter (isConsumer k)).length = 1 → ∀ t0, t0? = some t0 →
          ∃ t, t? = some t ∧ t0.rights - t0.used ≤ t.rights - t.used ∧ t.live = t0.live) →
      OKs (txs.foldl (fun t? tx => projS k tx t?) t?) := by
  intro txs
  induction txs with
  | nil => intro t? _ _ _ hok _; exact hok
  | cons tx rest ih =>
    intro t? henv hchk hcnt hok htrack
    simp only [List.foldl_cons]
    have henv' : ∀ t ∈ rest, envOK t := fun t ht => henv t (by simp [ht])
    have hchk' : ∀ t ∈ rest, chkS retvFee k t0? t := fun t ht => hchk t (by simp [ht])
    have he := henv tx (by simp)
    have hc := hchk tx (by simp)
    by_cases hd : isConsumer k tx = true
    · have hf : (tx :: rest).filter (isConsumer k) = tx :: rest.filter (isConsumer k) := List.filter_cons_of_pos hd
      have hrest0 : (rest.filter (isConsumer k)).length = 0 := by
        rw [hf] at hcnt; simp only [List.length_cons] at hcnt; omega
      have hnow : ((tx :: rest).filter (isConsumer k)).length = 1 := by
        rw [hf]; simp only [List.length_cons]; omega
      apply ih _ henv' hchk' (by omega)
      · cases tx with
        | vote k' lock vs bad =>
          have hk : k' = k := by simpa [isConsumer] using hd
          subst hk
          obtain ⟨t0, ht0, hpos, hsum⟩ := hc rfl
          obtain ⟨t, ht, hfree, _⟩ := htrack hnow t0 ht0
          subst ht; subst ht0
          simp only [projS, if_true, Option.map, OKs, StakeOK, stakeStep] at hok ⊢
          obtain ⟨h1, h2, h3, h4⟩ := hok
          have hs := sumI_nonneg vs hpos
          refine ⟨by omega, by omega, ?_, ?_⟩
          · rw [sumV_append, sumV_map]; omega
          · intro v hv
            rcases List.mem_append.mp hv with hv | hv
            · exact h4 v hv
            · obtain ⟨x, hx, rfl⟩ := List.mem_map.mp hv
              exact hpos x hx
        | retv k' v =>
          have hk : k' = k := by simpa [isConsumer] using hd
          subst hk
          obtain ⟨hv, t0, ht0, hle⟩ := hc rfl
          obtain ⟨t, ht, hfree, _⟩ := htrack hnow t0 ht0
          subst ht; subst ht0
          simp only [projS, if_true, OKs, StakeOK, stakeStep] at hok ⊢
          obtain ⟨h1, h2, h3, h4⟩ := hok
          exact ⟨h1, by omega, h3, h4⟩
        | renew k' ol am nl bo =>
          have hk : k' = k := by simpa [isConsumer] using hd
          subst hk
          obtain ⟨t0, ht0, hmem0⟩ := hc rfl
          obtain ⟨t, ht, _, hlive⟩ := htrack hnow t0 ht0
          subst ht; subst ht0
          have hmem : (⟨ol, am⟩ : Vote) ∈ t.live := hlive ▸ hmem0
          simp only [projS, if_true, Option.map, OKs, StakeOK, stakeStep] at hok ⊢
          obtain ⟨h1, h2, h3, h4⟩ := hok
          have hs := sumV_erase ⟨ol, am⟩ t.live hmem
          refine ⟨h1, h2, ?_, ?_⟩
          · rw [sumV_append, hs]; simp [sumV]; omega
          · intro v hv
            rcases List.mem_append.mp hv with hv | hv
            · exact h4 v (List.mem_of_mem_erase hv)
            · have : v = ⟨nl, am⟩ := by simpa using hv
              subst this
              exact h4 ⟨ol, am⟩ hmem
        | _ => simp [isConsumer] at hd
      · intro hone; omega
    · have hd' : isConsumer k tx = false := by simpa using hd
      have hf : (tx :: rest).filter (isConsumer k) = rest.filter (isConsumer k) := List.filter_cons_of_neg (by simp [hd'])
      have hcnt' : (rest.filter (isConsumer k)).length ≤ 1 := by
        rw [hf] at hcnt; exact hcnt
      have hsame : ((tx :: rest).filter (isConsumer k)).length = (rest.filter (isConsumer k)).length := by
        rw [hf]
      apply ih _ henv' hchk' hcnt'
      · cases tx with
        | stake k' v =>
          simp only [projS]
          simp only [envOK] at he
          split
          · cases t? with
            | some t =>
              simp only [OKs, StakeOK, stakeStep] at hok ⊢
              obtain ⟨h1, h2, h3, h4⟩ := hok
              exact ⟨h1, by omega, h3, h4⟩
            | none => simp [OKs, StakeOK, sumV]; omega
          · exact hok
        | vote k' lock vs bad =>
          have hk : ¬ k' = k := by simpa [isConsumer] using hd'
          simpa [projS, hk] using hok
        | retv k' v =>
          have hk : ¬ k' = k := by simpa [isConsumer] using hd'
          simpa [projS, hk] using hok
        | renew k' ol am nl bo =>
          have hk : ¬ k' = k := by simpa [isConsumer] using hd'
          simpa [projS, hk] using hok
        | reg o amount lock v2 => simpa [projS] using hok
        | dep o v => simpa [projS] using hok
        | cancel o => simpa [projS] using hok
        | ret o inp tinp change out => simpa [projS] using hok
        | pen o p => simpa [projS] using hok
      · intro hone t0 ht0
        obtain ⟨t, ht, hfree, hlive⟩ := htrack (by omega) t0 ht0
        subst ht; subst ht0
        cases tx with
        | stake k' v =>
          simp only [projS]
          simp only [envOK] at he
          split
          · refine ⟨_, rfl, ?_, hlive⟩
            simp only [stakeStep]; omega
          · exact ⟨t, rfl, hfree, hlive⟩
        | vote k' lock vs bad =>
          have hk : ¬ k' = k := by simpa [isConsumer] using hd'
          exact ⟨t, by simp [projS, hk], hfree, hlive⟩
        | retv k' v =>
          have hk : ¬ k' = k := by simpa [isConsumer] using hd'
          exact ⟨t, by simp [projS, hk], hfree, hlive⟩
        | renew k' ol am nl bo =>
          have hk : ¬ k' = k := by simpa [isConsumer] using hd'
          exact ⟨t, by simp [projS, hk], hfree, hlive⟩
        | reg o amount lock v2 => exact ⟨t, by simp [projS], hfree, hlive⟩
        | dep o v => exact ⟨t, by simp [projS], hfree, hlive⟩
        | cancel o => exact ⟨t, by simp [projS], hfree, hlive⟩
        | ret o inp tinp change out => exact ⟨t, by simp [projS], hfree, hlive⟩
        | pen o p => exact ⟨t, by simp [projS], hfree, hlive⟩

/-! ### end of block -/

theorem endAcct_ok (P : Params) (h : Nat) (hmin : 0 ≤ P.minDeposit) (a0 a : Acct) (hok : AcctOK a) :
    AcctOK (endAcct P h a0 a) := by
  obtain ⟨h1, h2, h3⟩ := hok
  unfold endAcct
  simp only
  split <;> split <;> simp only [AcctOK] <;> refine ⟨h1, ?_, h3⟩ <;> omega

theorem expireStake_ok (h : Nat) (t : Stake) (hok : StakeOK t) : StakeOK (expireStake h t) := by
  obtain ⟨h1, h2, h3, h4⟩ := hok
  have hsplit := sumV_filter_split (fun v => decide (v.lock < h)) t.live
  have hexp : 0 ≤ sumV (t.live.filter (fun v => decide (v.lock < h))) :=
    sumV_nonneg _ (fun v hv => h4 v (List.mem_filter.mp hv).1)
  have hkeep : 0 ≤ sumV (t.live.filter (fun v => decide (¬ v.lock < h))) :=
    sumV_nonneg _ (fun v hv => h4 v (List.mem_filter.mp hv).1)
  have heq : (t.live.filter (fun v => ¬ (decide (v.lock < h)) = true)) = t.live.filter (fun v => decide (¬ v.lock < h)) := by
    congr 1; funext v; simp
  rw [heq] at hsplit
  simp only [expireStake, StakeOK]
  refine ⟨by omega, by omega, by omega, ?_⟩
  intro v hv
  exact h4 v (List.mem_filter.mp hv).1

end ElaVerif.Deposit
