import ElaVerif.Model.Distribute
import ElaVerif.Lemmas.Fixed64
/-!
  Helper lemmas for C27 (the accumulated `realDPOSReward` of the loops).
-/
namespace ElaVerif.Distribute
open ElaVerif.Fixed64

/-- the amount paid for one on-duty arbiter (does not depend on its position) -/
def amount (era : Nat) (ibc : Fixed64) (share : Fixed64 → Fixed64) (a : Arb) : Fixed64 :=
  (payArb era ibc share 0 a).2

theorem payArb_snd (era : Nat) (ibc : Fixed64) (share : Fixed64 → Fixed64) (i : Nat) (a : Arb) :
    (payArb era ibc share i a).2 = amount era ibc share a := by
  unfold amount payArb
  cases a.kind <;> simp only [] <;> (repeat' split) <;> rfl

theorem arbLoop_snd (era : Nat) (ibc : Fixed64) (share : Fixed64 → Fixed64)
    (i : Nat) (as : List Arb) (m : RMap) (real : Fixed64) :
    (arbLoop era ibc share i as m real).2 = sumFrom real (as.map (amount era ibc share)) := by
  induction as generalizing i m real with
  | nil => simp [arbLoop, sumFrom]
  | cons a as ih =>
    simp only [arbLoop, List.map, sumFrom]
    rw [ih, payArb_snd]

theorem candLoop_snd (share : Fixed64 → Fixed64) (i : Nat) (vs : List Fixed64) (m : RMap) (real : Fixed64) :
    (candLoop share i vs m real).2 = sumFrom real (vs.map share) := by
  induction vs generalizing i m real with
  | nil => simp [candLoop, sumFrom]
  | cons v vs ih =>
    simp only [candLoop, List.map, sumFrom]
    rw [ih]

theorem sumFrom_append (acc : Fixed64) (xs ys : List Fixed64) :
    sumFrom acc (xs ++ ys) = sumFrom (sumFrom acc xs) ys := by
  induction xs generalizing acc with
  | nil => rfl
  | cons x xs ih => simp only [List.cons_append, sumFrom]; exact ih _

/-- all amounts handed out in one distribution (arbiters, then candidates) -/
def payments (era : Nat) (ibc : Fixed64) (share : Fixed64 → Fixed64) (inp : Input) : List Fixed64 :=
  inp.arbs.map (amount era ibc share) ++ inp.cands.map share

/-- the early exits of the four eras -/
def earlyExit (inp : Input) : Bool :=
  inp.arbs.length == 0 || inp.cfgCRC == inp.arbs.length || (inp.era == 3 && inp.pow)

theorem real_is_sum (ibc : Fixed64) (share : Fixed64 → Fixed64) (inp : Input) (m : RMap) (real : Fixed64)
    (hne : earlyExit inp = false) (h : distributeEra ibc share inp = some (m, real)) :
    real = sumW (payments inp.era ibc share inp) := by
  unfold earlyExit at hne
  simp only [Bool.or_eq_false_iff, Bool.and_eq_false_iff, beq_eq_false_iff_ne, ne_eq] at hne
  obtain ⟨⟨h0, h1⟩, h3⟩ := hne
  have h3' : ¬ (inp.era = 3 ∧ inp.pow = true) := by
    rintro ⟨a, b⟩
    rcases h3 with h3 | h3
    · exact h3 a
    · simp [b] at h3
  unfold distributeEra at h
  simp only [h0, h1, h3', if_false, false_or] at h
  unfold payments sumW
  rw [sumFrom_append]
  split at h
  · simp only [Option.some.injEq] at h
    have := congrArg Prod.snd h
    simp only [] at this
    rw [← this, candLoop_snd, arbLoop_snd]
  · simp only [Option.some.injEq, Prod.mk.injEq] at h
    rw [← h.2, candLoop_snd, arbLoop_snd]

end ElaVerif.Distribute
