import ElaVerif.Lemmas.PartialMerkle
/-!
C08: the Go position numbers (`goOps`) are an encoding of tree positions (`treeOps`).

1. generic part: any encoding satisfying `EncLaws` makes the two machines run in lock step;
2. bit-level lemmas about `&&&`, `|||`, `^^^`, shifts on the numbers involved;
3. the concrete encoding `enc (h, i) = 2^(D+1) − 2^(D+1−h) + i` and its laws.
-/
namespace ElaVerif.PMT
variable {α : Type}

/-! ### 1. generic lock-step simulation -/

/-- what an encoding of tree positions as numbers must satisfy -/
structure EncLaws (n : Nat) (enc : TP → Nat) (Valid : TP → Prop) (special : TP) : Prop where
  root_valid : Valid (treeOps n).root
  enc_root : (goOps n).root = enc (treeOps n).root
  upper : ∀ p, Valid p → (goOps n).upper (enc p) = (treeOps n).upper p
  right : ∀ p, Valid p → (goOps n).right (enc p) = (treeOps n).right p
  leafOut : ∀ p, Valid p → (treeOps n).upper p = false → (goOps n).leafOut (enc p) = (treeOps n).leafOut p
  sib : ∀ p, Valid p → (goOps n).sib (enc p) = enc ((treeOps n).sib p)
  sib_ok : ∀ p, Valid p → Valid ((treeOps n).sib p) ∨ (treeOps n).sib p = special
  up : ∀ p, Valid p → (treeOps n).upper p = true → (treeOps n).right p = true →
        (goOps n).up (enc p) = enc ((treeOps n).up p) ∧ Valid ((treeOps n).up p)
  down : ∀ p, Valid p → (treeOps n).upper p = true →
        (goOps n).down (enc p) = enc ((treeOps n).down p) ∧ Valid ((treeOps n).down p)
  dead : ∀ p, Valid p → (goOps n).dead (enc p) = (treeOps n).dead p
  dead_special : (goOps n).dead (enc special) = true ∧ (treeOps n).dead special = true

def mapSt (enc : TP → Nat) (st : St TP α) : St Nat α :=
  { stack := st.stack.map (fun e => (enc e.1, e.2)), pos := enc st.pos, bits := st.bits,
    hashes := st.hashes, ids := st.ids, nodes := st.nodes.map (fun e => (enc e.1, e.2)) }

def mapRes (enc : TP → Nat) : PRes (List α × List (TP × α)) → PRes (List α × List (Nat × α))
  | .ok v => .ok (v.1, v.2.map (fun e => (enc e.1, e.2)))
  | .err e => .err e
  | .panic => .panic

def InvE (Valid : TP → Prop) (special : TP) (st : St TP α) : Prop :=
  (∀ e ∈ st.stack, Valid e.1) ∧ (Valid st.pos ∨ st.pos = special)

theorem pushStep_comm {n : Nat} {enc : TP → Nat} {Valid : TP → Prop} {special : TP}
    (L : EncLaws n enc Valid special) (st : St TP α) (hinv : InvE Valid special st)
    (hv : Valid st.pos) :
    match pushStep (treeOps n) st with
    | .done r => pushStep (goOps n) (mapSt enc st) = .done (mapRes enc r)
    | .next st' => pushStep (goOps n) (mapSt enc st) = .next (mapSt enc st') ∧ InvE Valid special st' := by
  obtain ⟨stack, pos, bits, hashes, ids, nodes⟩ := st
  simp only at hv
  cases hashes with
  | nil => simp [pushStep, mapSt, mapRes]
  | cons x hs =>
    cases bits with
    | nil => simp [pushStep, mapSt, mapRes]
    | cons b bs =>
      by_cases hu : (treeOps n).upper pos = true
      · have hu' := (L.upper pos hv).trans hu
        cases b with
        | false =>
          by_cases hr : (treeOps n).right pos = true
          · have hr' := (L.right pos hv).trans hr
            obtain ⟨e1, v1⟩ := L.up pos hv hu hr
            simp only [pushStep, mapSt, hu, hu', hr, hr', if_true, Bool.not_false]
            refine ⟨by simp [e1], ?_, Or.inl v1⟩
            intro e he
            rcases List.mem_cons.mp he with he | he
            · rw [he]; exact hv
            · exact hinv.1 e he
          · have hr0 : (treeOps n).right pos = false := by
              cases h : (treeOps n).right pos with
              | true => exact absurd h hr
              | false => rfl
            have hr' := (L.right pos hv).trans hr0
            simp only [pushStep, mapSt, hu, hu', hr0, hr', if_true, Bool.not_false, Bool.false_eq_true, if_false]
            refine ⟨by simp [L.sib pos hv], ?_, L.sib_ok pos hv⟩
            intro e he
            rcases List.mem_cons.mp he with he | he
            · rw [he]; exact hv
            · exact hinv.1 e he
        | true =>
          obtain ⟨e1, v1⟩ := L.down pos hv hu
          simp only [pushStep, mapSt, hu, hu', if_true, Bool.not_true, Bool.false_eq_true, if_false]
          refine ⟨by simp [e1], ?_, Or.inl v1⟩
          intro e he
          rcases List.mem_cons.mp he with he | he
          · rw [he]; exact hv
          · exact hinv.1 e he
      · have hu0 : (treeOps n).upper pos = false := by
          cases h : (treeOps n).upper pos with
          | true => exact absurd h hu
          | false => rfl
        have hu' := (L.upper pos hv).trans hu0
        have hlo := L.leafOut pos hv hu0
        by_cases hl : (treeOps n).leafOut pos = true
        · simp [pushStep, mapSt, hu0, hu', hl, hlo.trans hl, mapRes]
        · have hl0 : (treeOps n).leafOut pos = false := by
            cases h : (treeOps n).leafOut pos with
            | true => exact absurd h hl
            | false => rfl
          simp only [pushStep, mapSt, hu0, hu', hl0, hlo.trans hl0, Bool.false_eq_true, if_false]
          by_cases hr : (treeOps n).right pos = true
          · have hr' := (L.right pos hv).trans hr
            refine ⟨by simp [hr, hr'], ?_, ?_⟩
            · intro e he
              rcases List.mem_cons.mp he with he | he
              · rw [he]; exact hv
              · exact hinv.1 e he
            · simp [hr]; exact Or.inl hv
          · have hr0 : (treeOps n).right pos = false := by
              cases h : (treeOps n).right pos with
              | true => exact absurd h hr
              | false => rfl
            have hr' := (L.right pos hv).trans hr0
            refine ⟨by simp [hr0, hr', L.sib pos hv], ?_, ?_⟩
            · intro e he
              rcases List.mem_cons.mp he with he | he
              · rw [he]; exact hv
              · exact hinv.1 e he
            · simp [hr0]; exact L.sib_ok pos hv


theorem step_comm [DecidableEq α] {n : Nat} {enc : TP → Nat} {Valid : TP → Prop} {special : TP}
    (L : EncLaws n enc Valid special) (H : α → α → α) (root : α) (st : St TP α)
    (hinv : InvE Valid special st) :
    match step (treeOps n) H root st with
    | .done r => step (goOps n) H root (mapSt enc st) = .done (mapRes enc r)
    | .next st' => step (goOps n) H root (mapSt enc st) = .next (mapSt enc st') ∧ InvE Valid special st' := by
  obtain ⟨stack, pos, bits, hashes, ids, nodes⟩ := st
  have hdead : (goOps n).dead (enc pos) = (treeOps n).dead pos := by
    rcases hinv.2 with hv | hs
    · exact L.dead pos hv
    · simp only at hs; rw [hs, L.dead_special.1, L.dead_special.2]
  have hpush : (treeOps n).dead pos = false →
      match pushStep (treeOps n) ⟨stack, pos, bits, hashes, ids, nodes⟩ with
      | .done r => pushStep (goOps n) (mapSt enc ⟨stack, pos, bits, hashes, ids, nodes⟩) = .done (mapRes enc r)
      | .next st' => pushStep (goOps n) (mapSt enc ⟨stack, pos, bits, hashes, ids, nodes⟩) = .next (mapSt enc st') ∧
          InvE Valid special st' := by
    intro hd
    rcases hinv.2 with hv | hs
    · exact pushStep_comm L _ hinv hv
    · simp only at hs; rw [hs, L.dead_special.2] at hd; cases hd
  match stack, hinv with
  | [], hinv =>
    by_cases hd : (treeOps n).dead pos = true
    · simp [step, mapSt, hdead, hd, mapRes]
    · have hd0 : (treeOps n).dead pos = false := by
        cases h : (treeOps n).dead pos with
        | true => exact absurd h hd
        | false => rfl
      have := hpush hd0
      simp only [step, mapSt, hdead, hd0, List.map_nil, Bool.false_eq_true, if_false] at this ⊢
      exact this
  | [(p, some x)], hinv =>
    by_cases hr : x = root <;> simp [step, mapSt, hr, mapRes]
  | [(p, none)], hinv =>
    by_cases hd : (treeOps n).dead pos = true
    · simp [step, mapSt, hdead, hd, mapRes]
    · have hd0 : (treeOps n).dead pos = false := by
        cases h : (treeOps n).dead pos with
        | true => exact absurd h hd
        | false => rfl
      have := hpush hd0
      simp only [step, mapSt, hdead, hd0, List.map_cons, List.map_nil, Bool.false_eq_true, if_false] at this ⊢
      exact this
  | (p, none) :: e2 :: rest, hinv =>
    by_cases hd : (treeOps n).dead pos = true
    · simp [step, mapSt, hdead, hd, mapRes]
    · have hd0 : (treeOps n).dead pos = false := by
        cases h : (treeOps n).dead pos with
        | true => exact absurd h hd
        | false => rfl
      have := hpush hd0
      simp only [step, mapSt, hdead, hd0, List.map_cons, Bool.false_eq_true, if_false] at this ⊢
      exact this
  | (p, some b) :: (q, none) :: rest, hinv =>
    have hq : Valid q := hinv.1 (q, none) (by simp)
    by_cases hd : (treeOps n).dead pos = true
    · simp only [step, mapSt, hdead, hd, List.map_cons, if_true]
      refine ⟨by simp [L.sib q hq], ?_, L.sib_ok q hq⟩
      intro e he
      rcases List.mem_cons.mp he with he | he
      · rw [he]; exact hq
      · exact hinv.1 e (by simp [he])
    · have hd0 : (treeOps n).dead pos = false := by
        cases h : (treeOps n).dead pos with
        | true => exact absurd h hd
        | false => rfl
      have := hpush hd0
      simp only [step, mapSt, hdead, hd0, List.map_cons, Bool.false_eq_true, if_false] at this ⊢
      exact this
  | [(p, some b), (q, some a)], hinv =>
    have hq : Valid q := hinv.1 (q, some a) (by simp)
    by_cases hd : (treeOps n).dead pos = true
    · simp only [step, mapSt, hdead, hd, List.map_cons, List.map_nil, if_true]
      refine ⟨by simp [L.sib q hq], ?_, L.sib_ok q hq⟩
      intro e he
      rcases List.mem_cons.mp he with he | he
      · rw [he]; exact hq
      · simp at he
    · have hd0 : (treeOps n).dead pos = false := by
        cases h : (treeOps n).dead pos with
        | true => exact absurd h hd
        | false => rfl
      have := hpush hd0
      simp only [step, mapSt, hdead, hd0, List.map_cons, List.map_nil, Bool.false_eq_true, if_false] at this ⊢
      exact this
  | (p, some b) :: (q, some a) :: (r, c) :: rest, hinv =>
    have hq : Valid q := hinv.1 (q, some a) (by simp)
    have hrv : Valid r := hinv.1 (r, c) (by simp)
    by_cases hd : (treeOps n).dead pos = true
    · simp only [step, mapSt, hdead, hd, List.map_cons, if_true]
      refine ⟨by simp [L.sib q hq], ?_, L.sib_ok q hq⟩
      intro e he
      rcases List.mem_cons.mp he with he | he
      · rw [he]; exact hq
      · exact hinv.1 e (by simp [he])
    · have hd0 : (treeOps n).dead pos = false := by
        cases h : (treeOps n).dead pos with
        | true => exact absurd h hd
        | false => rfl
      by_cases hab : a = b
      · simp [step, mapSt, hdead, hd0, hab, mapRes]
      · simp only [step, mapSt, hdead, hd0, List.map_cons, Bool.false_eq_true, if_false, hab]
        refine ⟨by simp [L.sib r hrv], ?_, L.sib_ok r hrv⟩
        intro e he
        rcases List.mem_cons.mp he with he | he
        · rw [he]; exact hrv
        · exact hinv.1 e (by simp [he])


theorem run_comm [DecidableEq α] {n : Nat} {enc : TP → Nat} {Valid : TP → Prop} {special : TP}
    (L : EncLaws n enc Valid special) (H : α → α → α) (root : α) :
    ∀ (f : Nat) (st : St TP α), InvE Valid special st →
      run (goOps n) H root f (mapSt enc st) = mapRes enc (run (treeOps n) H root f st)
  | 0, _, _ => by simp [run, mapRes]
  | f + 1, st, hinv => by
      have := step_comm L H root st hinv
      cases hs : step (treeOps n) H root st with
      | done r =>
        rw [hs] at this
        simp [run, hs, this]
      | next st' =>
        rw [hs] at this
        simp only [run, hs, this.1]
        exact run_comm L H root f st' this.2

theorem mapRes_ids (enc : TP → Nat) (r : PRes (List α × List (TP × α))) : (mapRes enc r).ids = r.ids := by
  cases r <;> rfl

theorem machine_comm [DecidableEq α] {n : Nat} {enc : TP → Nat} {Valid : TP → Prop} {special : TP}
    (L : EncLaws n enc Valid special) (H : α → α → α) (maxTx : Nat) (root : α) (bits : List Bool) (hashes : List α)
    (f : Nat) :
    (machine (goOps n) H maxTx n root bits hashes f).ids = (machine (treeOps n) H maxTx n root bits hashes f).ids := by
  unfold machine
  by_cases hn : n = 0
  · simp only [hn, if_true]; rfl
  · by_cases hm : n > maxTx
    · simp only [hn, if_false, hm, if_true]; rfl
    · by_cases hb : bits.isEmpty = true
      · simp only [hn, if_false, hm, hb, if_true]; rfl
      · simp only [hn, if_false, hm, hb, Bool.false_eq_true]
        have := run_comm L H root f ⟨[], (treeOps n).root, bits, hashes, [], []⟩
          ⟨by intro e he; simp at he, Or.inl L.root_valid⟩
        simp only [mapSt, List.map_nil, ← L.enc_root] at this
        rw [this, mapRes_ids]

/-! ### 2. bit-level lemmas -/

theorem and_two_pow_ne_zero (x D : Nat) (hx : x < 2 ^ (D + 1)) : (x &&& 2 ^ D ≠ 0) ↔ 2 ^ D ≤ x := by
  have hp : 0 < 2 ^ D := Nat.two_pow_pos D
  constructor
  · intro h
    apply Classical.byContradiction
    intro hlt
    have hlt : x < 2 ^ D := by omega
    apply h
    apply Nat.eq_of_testBit_eq
    intro i
    simp only [Nat.testBit_and, Nat.zero_testBit, Nat.testBit_two_pow]
    by_cases hi : D = i
    · subst hi; simp [Nat.testBit_lt_two_pow hlt]
    · simp [hi]
  · intro h hz
    have : (x &&& 2 ^ D).testBit D = false := by rw [hz]; simp
    simp only [Nat.testBit_and, Nat.testBit_two_pow_self, Bool.and_true] at this
    have h2 : x.testBit D = true := by
      rw [Nat.testBit_eq_decide_div_mod_eq]
      have : x / 2 ^ D < 2 := by
        rw [Nat.div_lt_iff_lt_mul hp]; rw [Nat.pow_succ] at hx; omega
      have : 1 ≤ x / 2 ^ D := (Nat.le_div_iff_mul_le hp).mpr (by omega)
      simp; omega
    rw [h2] at this; cases this

theorem or_one (x : Nat) : x ||| 1 = if x % 2 = 0 then x + 1 else x := by
  apply Nat.eq_of_testBit_eq
  intro i
  cases i with
  | zero =>
    simp only [Nat.testBit_or, Nat.testBit_one_zero, Bool.or_true]
    by_cases h : x % 2 = 0
    · simp only [h, if_true]
      exact (Nat.mod_two_eq_one_iff_testBit_zero.mp (by omega)).symm
    · simp only [h, if_false]
      exact (Nat.mod_two_eq_one_iff_testBit_zero.mp (by omega)).symm
  | succ i =>
    simp only [Nat.testBit_succ]
    rw [Nat.or_div_two]
    have : (1 / 2 : Nat) = 0 := by decide
    rw [this, Nat.or_zero]
    by_cases h : x % 2 = 0
    · simp only [h, if_true]
      have : (x + 1) / 2 = x / 2 := by omega
      rw [this]
    · simp only [h, if_false]

theorem xor_two_pow_of_ge (x D : Nat) (h1 : 2 ^ D ≤ x) (h2 : x < 2 ^ (D + 1)) : x ^^^ 2 ^ D = x - 2 ^ D := by
  have hy : x - 2 ^ D < 2 ^ D := by rw [Nat.pow_succ] at h2; omega
  have e : x = 2 ^ D + (x - 2 ^ D) := by omega
  apply Nat.eq_of_testBit_eq
  intro i
  rw [Nat.testBit_xor]
  by_cases hi : D = i
  · subst hi
    rw [Nat.testBit_two_pow_self, Nat.testBit_lt_two_pow hy]
    conv => lhs; rw [e]
    rw [Nat.testBit_two_pow_add_eq, Nat.testBit_lt_two_pow hy]
    rfl
  · rw [Nat.testBit_two_pow_of_ne hi]
    simp only [Bool.xor_false]
    conv => lhs; rw [e]
    rcases Nat.lt_or_gt_of_ne hi with hlt | hgt
    · -- i > D: both sides false
      have hx : x.testBit i = false := Nat.testBit_lt_two_pow (Nat.lt_of_lt_of_le h2 (Nat.pow_le_pow_right (by omega) (by omega)))
      have hy' : (x - 2 ^ D).testBit i = false := Nat.testBit_lt_two_pow (Nat.lt_of_lt_of_le hy (Nat.pow_le_pow_right (by omega) (by omega)))
      rw [← e, hx, hy']
    · exact Nat.testBit_two_pow_add_gt hgt _

theorem shr_one_or_two_pow (x D : Nat) (h : x < 2 ^ (D + 1)) : x >>> 1 ||| 2 ^ D = x / 2 + 2 ^ D := by
  rw [Nat.shiftRight_eq_div_pow, Nat.pow_one]
  exact Nat.or_two_pow_eq_add_of_lt (by rw [Nat.pow_succ] at h; omega)



/-! ### 3. the concrete encoding -/

def encD (D : Nat) (p : TP) : Nat := 2 ^ (D + 1) - 2 ^ (D + 1 - p.1) + p.2
def ValidD (D : Nat) (p : TP) : Prop := p.1 ≤ D ∧ p.2 < 2 ^ (D - p.1)

theorem loops_eq (n : Nat) : ∀ (fuel h : Nat), heightLoop n fuel h = depthLoop n fuel h
  | 0, _ => rfl
  | fuel + 1, h => by
      unfold heightLoop depthLoop
      have := lt_width_iff n h 1
      simp only [Nat.one_mul] at this
      by_cases hw : width n h > 1
      · have h2 : 2 ^ h < n := this.mp hw
        simp only [hw, h2, if_true]
        exact loops_eq n fuel (h + 1)
      · have h2 : ¬ 2 ^ h < n := fun hh => hw (this.mpr hh)
        simp only [hw, h2, if_false]

theorem treeHeight_eq_depth (n : Nat) : treeHeight n = treeDepth n := loops_eq n n 0

/-- powers of two around level `h ≤ D`, as linear facts for `omega` -/
theorem pow_facts (D h : Nat) (hh : h ≤ D) :
    2 ^ (D + 1 - h) = 2 * 2 ^ (D - h) ∧ 2 ^ (D + 1) = 2 * 2 ^ D ∧ 2 ^ (D - h) ≤ 2 ^ D ∧ 0 < 2 ^ (D - h) ∧
    (1 ≤ h → 2 * 2 ^ (D - h) ≤ 2 ^ D) := by
  refine ⟨?_, ?_, ?_, Nat.two_pow_pos _, ?_⟩
  · rw [show D + 1 - h = (D - h) + 1 by omega, Nat.pow_succ]; omega
  · rw [Nat.pow_succ]; omega
  · exact Nat.pow_le_pow_right (by omega) (by omega)
  · intro h1
    have : 2 ^ (D - h + 1) ≤ 2 ^ D := Nat.pow_le_pow_right (by omega) (by omega)
    rw [Nat.pow_succ] at this; omega

theorem pow_half (D h : Nat) (hh : h < D) : 2 ^ (D - h) = 2 * 2 ^ (D - (h + 1)) := by
  rw [show D - h = (D - (h + 1)) + 1 by omega, Nat.pow_succ]; omega

theorem encD_lt (D : Nat) (p : TP) (hv : ValidD D p) : encD D p < 2 ^ (D + 1) ∧ encD D p + 2 ≤ 2 ^ (D + 1) := by
  obtain ⟨f1, f2, f3, f4, _⟩ := pow_facts D p.1 hv.1
  have := hv.2
  unfold encD
  omega


section laws
variable (n : Nat)

theorem law_upper (p : TP) (hv : ValidD (treeDepth n) p) :
    (goOps n).upper (encD (treeDepth n) p) = (treeOps n).upper p := by
  obtain ⟨f1, f2, f3, f4, f5⟩ := pow_facts (treeDepth n) p.1 hv.1
  have hlt := (encD_lt _ p hv).1
  have key : (encD (treeDepth n) p &&& 2 ^ treeDepth n ≠ 0) ↔ p.1 ≠ 0 := by
    rw [and_two_pow_ne_zero _ _ hlt]
    have := hv.2
    unfold encD
    constructor
    · intro h hz
      rw [hz] at this f1 h
      simp only [Nat.sub_zero] at this f1 h
      omega
    · intro h
      have := f5 (by omega)
      omega
  simp only [goOps, treeOps, nextPow2]
  exact decide_eq_decide.mpr key

theorem law_right (p : TP) (hv : ValidD (treeDepth n) p) :
    (goOps n).right (encD (treeDepth n) p) = (treeOps n).right p := by
  obtain ⟨f1, f2, f3, f4, f5⟩ := pow_facts (treeDepth n) p.1 hv.1
  simp only [goOps, treeOps]
  rw [decide_eq_decide, Nat.and_one_is_mod]
  unfold encD
  omega

theorem law_leafOut (p : TP) (_hv : ValidD (treeDepth n) p) (hu : (treeOps n).upper p = false) :
    (goOps n).leafOut (encD (treeDepth n) p) = (treeOps n).leafOut p := by
  have h0 : p.1 = 0 := by simpa [treeOps] using hu
  simp only [goOps, treeOps]
  unfold encD
  rw [h0]
  simp

theorem law_sib (p : TP) (hv : ValidD (treeDepth n) p) :
    (goOps n).sib (encD (treeDepth n) p) = encD (treeDepth n) ((treeOps n).sib p) := by
  obtain ⟨f1, f2, f3, f4, f5⟩ := pow_facts (treeDepth n) p.1 hv.1
  simp only [goOps, treeOps]
  rw [or_one]
  unfold encD
  simp only
  by_cases h : p.2 % 2 = 0
  · have : (2 ^ (treeDepth n + 1) - 2 ^ (treeDepth n + 1 - p.1) + p.2) % 2 = 0 := by omega
    simp only [h, this, if_true]; omega
  · have : ¬ (2 ^ (treeDepth n + 1) - 2 ^ (treeDepth n + 1 - p.1) + p.2) % 2 = 0 := by omega
    simp only [h, this, if_false]

theorem law_sib_ok (p : TP) (hv : ValidD (treeDepth n) p) :
    ValidD (treeDepth n) ((treeOps n).sib p) ∨ (treeOps n).sib p = (treeDepth n, 1) := by
  simp only [treeOps]
  by_cases hD : p.1 < treeDepth n
  · left
    have := pow_half (treeDepth n) p.1 hD
    have := hv.2
    refine ⟨hv.1, ?_⟩
    simp only
    by_cases h : p.2 % 2 = 0
    · simp only [h, if_true]; omega
    · simp only [h, if_false]; omega
  · right
    have hD' : p.1 = treeDepth n := by have := hv.1; omega
    have := hv.2
    rw [hD'] at this
    simp only [Nat.sub_self, Nat.pow_zero] at this
    have h0 : p.2 = 0 := by omega
    obtain ⟨a, b⟩ := p
    simp only at hD' h0
    subst hD' h0
    simp

theorem law_up (p : TP) (hv : ValidD (treeDepth n) p) (hu : (treeOps n).upper p = true)
    (hr : (treeOps n).right p = true) :
    (goOps n).up (encD (treeDepth n) p) = encD (treeDepth n) ((treeOps n).up p) ∧
    ValidD (treeDepth n) ((treeOps n).up p) := by
  obtain ⟨f1, f2, f3, f4, f5⟩ := pow_facts (treeDepth n) p.1 hv.1
  have h1 : p.1 ≠ 0 := by simpa [treeOps] using hu
  have hodd : p.2 % 2 = 1 := by simpa [treeOps] using hr
  have hi := hv.2
  have hD : p.1 < treeDepth n := by
    apply Classical.byContradiction
    intro hc
    have : p.1 = treeDepth n := by have := hv.1; omega
    rw [this] at hi
    simp only [Nat.sub_self, Nat.pow_zero] at hi
    omega
  have hh := pow_half (treeDepth n) p.1 hD
  obtain ⟨g1, _, _, _, _⟩ := pow_facts (treeDepth n) (p.1 + 1) (by omega)
  have hlt := (encD_lt _ p hv).1
  simp only [goOps, treeOps, nextPow2]
  rw [shr_one_or_two_pow _ _ hlt]
  refine ⟨?_, by omega, ?_⟩
  · unfold encD
    simp only
    have := f5 (by omega)
    omega
  · simp only; omega

theorem law_down (p : TP) (hv : ValidD (treeDepth n) p) (hu : (treeOps n).upper p = true) :
    (goOps n).down (encD (treeDepth n) p) = encD (treeDepth n) ((treeOps n).down p) ∧
    ValidD (treeDepth n) ((treeOps n).down p) := by
  obtain ⟨f1, f2, f3, f4, f5⟩ := pow_facts (treeDepth n) p.1 hv.1
  have h1 : p.1 ≠ 0 := by simpa [treeOps] using hu
  have hi := hv.2
  have hh := pow_half (treeDepth n) (p.1 - 1) (by have := hv.1; omega)
  rw [show p.1 - 1 + 1 = p.1 by omega] at hh
  obtain ⟨g1, _, _, _, _⟩ := pow_facts (treeDepth n) (p.1 - 1) (by have := hv.1; omega)
  have hlt := (encD_lt _ p hv).1
  have f5' := f5 (by omega)
  have hge : 2 ^ treeDepth n ≤ encD (treeDepth n) p := by unfold encD; omega
  simp only [goOps, treeOps, nextPow2]
  rw [xor_two_pow_of_ge _ _ hge hlt, Nat.shiftLeft_eq, Nat.pow_one]
  refine ⟨?_, by have := hv.1; omega, ?_⟩
  · unfold encD
    simp only
    omega
  · simp only; omega


theorem deadLoop_spec (D n h i : Nat) (hh : h ≤ D) (hi : i < 2 ^ (D - h)) (hn2 : n ≤ 2 ^ D) :
    ∀ (d k fuel : Nat), k + d = h → d < fuel →
      deadLoop (2 ^ D) (encD D (h, i)) fuel (2 ^ (D + 1) - 2 ^ (D + 1 - (k + 1)))
        (2 ^ (D + 1) - 2 ^ (D + 1 - k) + (n - 1) / 2 ^ k) = decide (i > (n - 1) / 2 ^ h)
  | 0, k, fuel, hk, hf => by
      have hk' : k = h := by omega
      subst hk'
      obtain ⟨f1, f2, f3, f4, _⟩ := pow_facts D k hh
      obtain ⟨fuel', rfl⟩ : ∃ f', fuel = f' + 1 := ⟨fuel - 1, by omega⟩
      have e : D + 1 - (k + 1) = D - k := by omega
      unfold deadLoop
      rw [e]
      unfold encD
      simp only
      have hnot : ¬ (2 ^ (D + 1) - 2 ^ (D + 1 - k) + i ≥ 2 ^ (D + 1) - 2 ^ (D - k)) := by omega
      simp only [hnot, if_false]
      exact decide_eq_decide.mpr (by omega)
  | d + 1, k, fuel, hk, hf => by
      have hkD : k < D := by omega
      obtain ⟨fuel', rfl⟩ : ∃ f', fuel = f' + 1 := ⟨fuel - 1, by omega⟩
      obtain ⟨f1, f2, f3, f4, _⟩ := pow_facts D h hh
      obtain ⟨g1, _, g3, g4, _⟩ := pow_facts D k (by omega)
      have hhalf := pow_half D k hkD
      have e1 : D + 1 - (k + 1) = D - k := by omega
      have e2 : D + 1 - (k + 1 + 1) = D - (k + 1) := by omega
      have hmono : 2 ^ (D + 1 - h) ≤ 2 ^ (D - k) := Nat.pow_le_pow_right (by omega) (by omega)
      have hw : (n - 1) / 2 ^ k < 2 ^ (D - k) := by
        rw [Nat.div_lt_iff_lt_mul (Nat.two_pow_pos k), ← Nat.pow_add]
        rw [show D - k + k = D by omega]
        have := Nat.two_pow_pos D
        omega
      have hw2 : (n - 1) / 2 ^ k / 2 = (n - 1) / 2 ^ (k + 1) := by
        rw [Nat.div_div_eq_div_mul, Nat.pow_succ]
      have ih := deadLoop_spec D n h i hh hi hn2 d (k + 1) fuel' (by omega) (by omega)
      unfold deadLoop
      have hge : encD D (h, i) ≥ 2 ^ (D + 1) - 2 ^ (D + 1 - (k + 1)) := by
        rw [e1]; unfold encD; simp only; omega
      simp only [hge, if_true]
      rw [shr_one_or_two_pow _ D (by rw [e1]; omega), shr_one_or_two_pow _ D (by omega)]
      rw [e2] at ih
      rw [e1] at ih
      have a1 : (2 ^ (D + 1) - 2 ^ (D + 1 - (k + 1))) / 2 + 2 ^ D = 2 ^ (D + 1) - 2 ^ (D - (k + 1)) := by
        rw [e1]; omega
      have a2 : (2 ^ (D + 1) - 2 ^ (D + 1 - k) + (n - 1) / 2 ^ k) / 2 + 2 ^ D =
          2 ^ (D + 1) - 2 ^ (D - k) + (n - 1) / 2 ^ (k + 1) := by
        rw [← hw2]; omega
      rw [a1, a2]
      exact ih

theorem law_dead (p : TP) (hv : ValidD (treeDepth n) p) (hn : 0 < n) (hn2 : n ≤ 2 ^ treeDepth n) :
    (goOps n).dead (encD (treeDepth n) p) = (treeOps n).dead p := by
  obtain ⟨h, i⟩ := p
  have hle := (encD_lt _ (h, i) hv).2
  simp only [goOps, treeOps, inDeadZone, nextPow2, Nat.shiftLeft_eq, Nat.pow_one]
  have hnot : ¬ (encD (treeDepth n) (h, i) > 2 ^ treeDepth n * 2 - 2) := by
    have := (pow_facts (treeDepth n) h hv.1).2.1
    omega
  simp only [hnot, if_false]
  have := deadLoop_spec (treeDepth n) n h i hv.1 hv.2 hn2 h 0 (treeDepth n + 2) (by omega) (by have := hv.1; omega)
  simp only [Nat.zero_add, Nat.sub_zero, Nat.pow_zero, Nat.div_one] at this
  have e : 2 ^ (treeDepth n + 1) - 2 ^ (treeDepth n + 1) + (n - 1) = n - 1 := by omega
  rw [e, show treeDepth n + 1 - 1 = treeDepth n by omega] at this
  have e2 : 2 ^ (treeDepth n + 1) - 2 ^ treeDepth n = 2 ^ treeDepth n := by
    rw [Nat.pow_succ]; omega
  rw [e2] at this
  rw [this]
  have hwd : width n h = (n - 1) / 2 ^ h + 1 := by
    rw [width_eq]
    have hp := Nat.two_pow_pos h
    rw [show n + 2 ^ h - 1 = (n - 1) + 2 ^ h by omega, Nat.add_div_right _ hp]
  rw [hwd]
  by_cases hc : i > (n - 1) / 2 ^ h
  · have : ¬ i < (n - 1) / 2 ^ h + 1 := by omega
    simp [hc, this]
  · have : i < (n - 1) / 2 ^ h + 1 := by omega
    simp [hc, this]

end laws


theorem encLaws (n : Nat) (hn : 0 < n) :
    EncLaws n (encD (treeDepth n)) (ValidD (treeDepth n)) (treeDepth n, 1) where
  root_valid := by
    simp only [treeOps, treeHeight_eq_depth]
    exact ⟨Nat.le_refl _, by simp⟩
  enc_root := by
    simp only [goOps, treeOps, treeHeight_eq_depth, nextPow2, encD, Nat.shiftLeft_eq, Nat.pow_one]
    rw [show treeDepth n + 1 - treeDepth n = 1 by omega, Nat.pow_succ]
    omega
  upper := law_upper n
  right := law_right n
  leafOut := law_leafOut n
  sib := law_sib n
  sib_ok := law_sib_ok n
  up := law_up n
  down := law_down n
  dead := fun p hv => law_dead n p hv hn (by rw [← treeHeight_eq_depth]; exact treeHeight_spec n)
  dead_special := by
    have hn2 : n ≤ 2 ^ treeDepth n := by rw [← treeHeight_eq_depth]; exact treeHeight_spec n
    constructor
    · simp only [goOps, inDeadZone, nextPow2, encD, Nat.shiftLeft_eq, Nat.pow_one]
      rw [show treeDepth n + 1 - treeDepth n = 1 by omega]
      have : 2 ^ (treeDepth n + 1) = 2 ^ treeDepth n * 2 := Nat.pow_succ ..
      have hp := Nat.two_pow_pos (treeDepth n)
      have hgt : 2 ^ (treeDepth n + 1) - 2 ^ 1 + 1 > 2 ^ treeDepth n * 2 - 2 := by omega
      simp only [hgt, if_true]
    · have := width_le_one n (treeDepth n) hn2
      simp only [treeOps]
      have : ¬ 1 < width n (treeDepth n) := by omega
      simp [this]

/-- **the Go stack machine computes the recursive specification** (all messages, enough fuel). -/
theorem go_machine_refines [DecidableEq α] (H : α → α → α) (maxTx n : Nat) (root : α) (bits : List Bool)
    (hashes : List α) :
    ∃ k, ∀ f, (machine (goOps n) H maxTx n root bits hashes (k + f)).ids =
      (extractTop H maxTx n root bits hashes).ids := by
  by_cases hn : n = 0
  · refine ⟨0, fun f => ?_⟩
    unfold machine extractTop
    simp only [hn, if_true]
    rfl
  · obtain ⟨k, hk⟩ := machine_refines H maxTx n root bits hashes
    exact ⟨k, fun f => (machine_comm (encLaws n (by omega)) H maxTx root bits hashes (k + f)).trans (hk f)⟩

open ElaVerif.Merkle

/-! ### the merkle branch of one leaf, computed on the full tree -/

/-- the bit `GetMerkleBranch` sets in `Index` at this level (route node number even) -/
def routeBit (n k j : Nat) : Nat := if routeIdx n k j % 2 = 0 then 1 else 0

def idealSibs (H : α → α → α) (txs : List α) : Nat → Nat → Nat → List (Option α)
  | 0, _, _ => []
  | c + 1, k, j => calcHash H txs k (routeIdx txs.length k j) :: idealSibs H txs c (k + 1) (j / 2)

def idealIndex (n : Nat) : Nat → Nat → Nat → Nat
  | 0, _, _ => 0
  | c + 1, k, j => routeBit n k j + 2 * idealIndex n c (k + 1) (j / 2)

theorem int_shr_one (m : Nat) : ((m : Int) >>> 1) = ((m / 2 : Nat) : Int) := by
  rw [Int.shiftRight_eq_div_pow]
  simp

theorem branch_fold_ideal (H : α → α → α) (txs : List α) :
    ∀ (c k j : Nat) (x : α), j < width txs.length k → calcHash H txs k j = some x →
      ∃ sibs y, idealSibs H txs c k j = sibs.map some ∧ calcHash H txs (k + c) (j / 2 ^ c) = some y ∧
        branchFold H x sibs (idealIndex txs.length c k j : Int) = y
  | 0, k, j, x, _, hx => ⟨[], x, rfl, by simpa using hx, rfl⟩
  | c + 1, k, j, x, hj, hx => by
      have hw := width_succ txs.length k
      have hj2 : j / 2 < width txs.length (k + 1) := by omega
      -- the parent
      obtain ⟨xp, hxp⟩ := calcHash_some H txs (k + 1) (j / 2) hj2
      obtain ⟨sibs, y, hs, hy, hf⟩ := branch_fold_ideal H txs c (k + 1) (j / 2) xp hj2 hxp
      have hdiv : j / 2 / 2 ^ c = j / 2 ^ (c + 1) := by
        rw [Nat.div_div_eq_div_mul, Nat.pow_succ, Nat.mul_comm]
      have hkc : k + 1 + c = k + (c + 1) := by omega
      rw [hdiv, hkc] at hy
      have hcp := hxp
      simp only [calcHash] at hcp
      by_cases hodd : j % 2 = 1
      · -- right child: sibling j-1 on the left
        have e1 : 2 * (j / 2) = j - 1 := by omega
        have e2 : 2 * (j / 2) + 1 = j := by omega
        obtain ⟨s, hs'⟩ := calcHash_some H txs k (j - 1) (by omega)
        rw [e1, hs'] at hcp
        simp only at hcp
        rw [show j - 1 + 1 = j by omega] at hcp
        simp only [hj, if_true, hx, Option.some.injEq] at hcp
        have hri : routeIdx txs.length k j = j - 1 := by
          unfold routeIdx
          (repeat' split) <;> omega
        refine ⟨s :: sibs, y, by simp [idealSibs, hri, hs', hs], hy, ?_⟩
        have hb : routeBit txs.length k j = 1 := by unfold routeBit; rw [hri]; have : (j - 1) % 2 = 0 := by omega
                                                    simp [this]
        simp only [idealIndex, hb, branchFold]
        have hm : ((1 + 2 * idealIndex txs.length c (k + 1) (j / 2) : Nat) : Int) % 2 = 1 := by omega
        rw [if_pos hm, int_shr_one]
        rw [show (1 + 2 * idealIndex txs.length c (k + 1) (j / 2)) / 2 = idealIndex txs.length c (k + 1) (j / 2) by omega]
        rw [hcp]; exact hf
      · have heven : j % 2 = 0 := by omega
        have e1 : 2 * (j / 2) = j := by omega
        rw [e1, hx] at hcp
        simp only at hcp
        by_cases hlast : j + 1 < width txs.length k
        · -- left child with a right sibling
          obtain ⟨s, hs'⟩ := calcHash_some H txs k (j + 1) hlast
          simp only [hlast, if_true, hs', Option.some.injEq] at hcp
          have hri : routeIdx txs.length k j = j + 1 := by
            unfold routeIdx
            (repeat' split) <;> omega
          refine ⟨s :: sibs, y, by simp [idealSibs, hri, hs', hs], hy, ?_⟩
          have hb : routeBit txs.length k j = 0 := by
            unfold routeBit; rw [hri]
            have : ¬ (j + 1) % 2 = 0 := by omega
            simp [this]
          simp only [idealIndex, hb, branchFold]
          have hm : ¬ ((0 + 2 * idealIndex txs.length c (k + 1) (j / 2) : Nat) : Int) % 2 = 1 := by omega
          rw [if_neg hm, int_shr_one]
          rw [show (0 + 2 * idealIndex txs.length c (k + 1) (j / 2)) / 2 = idealIndex txs.length c (k + 1) (j / 2) by omega]
          rw [hcp]; exact hf
        · -- dead zone: the node is paired with itself
          simp only [hlast, if_false, Option.some.injEq] at hcp
          have hri : routeIdx txs.length k j = j := by
            unfold routeIdx
            (repeat' split) <;> omega
          refine ⟨x :: sibs, y, by simp [idealSibs, hri, hx, hs], hy, ?_⟩
          have hb : routeBit txs.length k j = 1 := by
            unfold routeBit; rw [hri]; simp [heven]
          simp only [idealIndex, hb, branchFold]
          have hm : ((1 + 2 * idealIndex txs.length c (k + 1) (j / 2) : Nat) : Int) % 2 = 1 := by omega
          rw [if_pos hm, int_shr_one]
          rw [show (1 + 2 * idealIndex txs.length c (k + 1) (j / 2)) / 2 = idealIndex txs.length c (k + 1) (j / 2) by omega]
          rw [hcp]; exact hf


/-! ### `calcNodeIndex` is the encoding; `calcBranchRoute` walks the ideal route -/

theorem subLoop_eq : ∀ (c i m : Nat), subLoop i c m = m - (2 ^ (i + c) - 2 ^ i)
  | 0, i, m => by simp [subLoop]
  | c + 1, i, m => by
      rw [subLoop, subLoop_eq c (i + 1) (m - 2 ^ i)]
      have h1 : 2 ^ i ≤ 2 ^ (i + 1) := Nat.pow_le_pow_right (by omega) (by omega)
      have h2 : 2 ^ (i + 1) ≤ 2 ^ (i + 1 + c) := Nat.pow_le_pow_right (by omega) (by omega)
      rw [show i + (c + 1) = i + 1 + c by omega]
      omega

theorem nodeIndex_eq_enc (n h p : Nat) (hh : h ≤ treeDepth n) :
    nodeIndex n h p = encD (treeDepth n) (h, p) := by
  unfold nodeIndex encD nextPow2
  rw [subLoop_eq, Nat.shiftLeft_eq, Nat.pow_one]
  simp only
  have e : 1 + (treeDepth n - h) = treeDepth n + 1 - h := by omega
  rw [e]
  have h1 : 2 ^ 1 ≤ 2 ^ (treeDepth n + 1 - h) := Nat.pow_le_pow_right (by omega) (by omega)
  have h2 : 2 ^ (treeDepth n + 1 - h) ≤ 2 ^ (treeDepth n + 1) := Nat.pow_le_pow_right (by omega) (by omega)
  have h3 : 2 ^ (treeDepth n + 1) = 2 ^ treeDepth n * 2 := Nat.pow_succ ..
  omega

theorem route_eq (n ti : Nat) : ∀ (c k : Nat),
    route n ti c k = (List.range c).map (fun t => nodeIndex n (k + t) (routeIdx n (k + t) (ti >>> (k + t))))
  | 0, _ => rfl
  | c + 1, k => by
      rw [route, route_eq n ti c (k + 1), List.range_succ_eq_map, List.map_cons, List.map_map]
      congr 1
      · unfold routeIdx
        simp only [Nat.add_zero]
        (repeat' split) <;> rfl
      · apply List.map_congr_left
        intro t _
        simp only [Function.comp, show k + 1 + t = k + (t + 1) by omega]

/-! ### flag bytes -/

theorem unpack_pack8 : ∀ a b c d e f g h : Bool,
    unpackByte (UInt8.ofNat (packByte [a, b, c, d, e, f, g, h])) = [a, b, c, d, e, f, g, h] := by decide

theorem unpack_pack_short : ∀ (chunk : List Bool), chunk.length ≤ 8 →
    unpackByte (UInt8.ofNat (packByte chunk)) = chunk ++ List.replicate (8 - chunk.length) false
  | [], _ => by decide
  | [a], _ => by revert a; decide
  | [a, b], _ => by revert a b; decide
  | [a, b, c], _ => by revert a b c; decide
  | [a, b, c, d], _ => by revert a b c d; decide
  | [a, b, c, d, e], _ => by revert a b c d e; decide
  | [a, b, c, d, e, f], _ => by revert a b c d e f; decide
  | [a, b, c, d, e, f, g], _ => by revert a b c d e f g; decide
  | [a, b, c, d, e, f, g, h], _ => by simpa using unpack_pack8 a b c d e f g h
  | _ :: _ :: _ :: _ :: _ :: _ :: _ :: _ :: _ :: _, hl => by simp at hl

theorem unpack_pack : ∀ (fuel : Nat) (bs : List Bool), bs.length < fuel →
    ∃ pad, unpackFlags (packFlags fuel bs) = bs ++ pad
  | 0, _, h => by omega
  | fuel + 1, [], _ => ⟨[], by simp [packFlags, unpackFlags]⟩
  | fuel + 1, b :: bs, h => by
      simp only [packFlags, unpackFlags, List.flatMap_cons]
      by_cases hl : (b :: bs).length ≤ 8
      · have e1 : (b :: bs).take 8 = b :: bs := List.take_of_length_le hl
        have e2 : (b :: bs).drop 8 = [] := List.drop_eq_nil_of_le hl
        rw [e1, e2, unpack_pack_short _ hl]
        refine ⟨List.replicate (8 - (b :: bs).length) false, ?_⟩
        cases fuel <;> simp [packFlags]
      · have hlen : ((b :: bs).take 8).length = 8 := by simp only [List.length_take]; omega
        have hdl : ((b :: bs).drop 8).length < fuel := by simp only [List.length_drop]; simp at h ⊢; omega
        obtain ⟨pad, hp⟩ := unpack_pack fuel ((b :: bs).drop 8) hdl
        rw [unpack_pack_short _ (by omega), hlen]
        refine ⟨pad, ?_⟩
        simp only [unpackFlags] at hp
        rw [hp]
        simp only [Nat.sub_self, List.replicate_zero, List.append_nil]
        rw [← List.append_assoc, List.take_append_drop]

/-! ### the node table of `getNodes` and the real `GetTxMerkleBranch` -/

theorem machine_comm_full [DecidableEq α] {n : Nat} {enc : TP → Nat} {Valid : TP → Prop} {special : TP}
    (L : EncLaws n enc Valid special) (H : α → α → α) (maxTx : Nat) (root : α) (bits : List Bool) (hashes : List α)
    (f : Nat) :
    machine (goOps n) H maxTx n root bits hashes f = mapRes enc (machine (treeOps n) H maxTx n root bits hashes f) := by
  unfold machine
  by_cases hn : n = 0
  · simp only [hn, if_true]; rfl
  · by_cases hm : n > maxTx
    · simp only [hn, if_false, hm, if_true]; rfl
    · by_cases hb : bits.isEmpty = true
      · simp only [hn, if_false, hm, hb, if_true]; rfl
      · simp only [hn, if_false, hm, hb, Bool.false_eq_true]
        have := run_comm L H root f ⟨[], (treeOps n).root, bits, hashes, [], []⟩
          ⟨by intro e he; simp at he, Or.inl L.root_valid⟩
        simp only [mapSt, List.map_nil, ← L.enc_root] at this
        exact this

theorem width_le_pow (n D k : Nat) (hn : n ≤ 2 ^ D) (hk : k ≤ D) (q : Nat) (hq : q < width n k) :
    q < 2 ^ (D - k) := by
  rw [lt_width_iff] at hq
  have : 2 ^ D = 2 ^ (D - k) * 2 ^ k := by rw [← Nat.pow_add]; congr 1; omega
  rw [this] at hn
  exact Nat.lt_of_mul_lt_mul_right (Nat.lt_of_lt_of_le hq hn)

theorem encD_inj (D : Nat) (p q : TP) (hp : ValidD D p) (hq : ValidD D q) (h : encD D p = encD D q) : p = q := by
  obtain ⟨h1, i1⟩ := p
  obtain ⟨h2, i2⟩ := q
  obtain ⟨f1, f2, f3, f4, _⟩ := pow_facts D h1 hp.1
  obtain ⟨g1, _, g3, g4, _⟩ := pow_facts D h2 hq.1
  have hi1 := hp.2
  have hi2 := hq.2
  simp only at hi1 hi2 f1 g1 f3 g3 f4 g4
  unfold encD at h
  simp only at h
  rcases Nat.lt_trichotomy h1 h2 with hlt | heq | hgt
  · exfalso
    have : 2 ^ (D + 1 - h2) ≤ 2 ^ (D - h1) := Nat.pow_le_pow_right (by omega) (by omega)
    omega
  · subst heq
    have : i1 = i2 := by omega
    rw [this]
  · exfalso
    have : 2 ^ (D + 1 - h1) ≤ 2 ^ (D - h2) := Nat.pow_le_pow_right (by omega) (by omega)
    omega

theorem calcHash_succ_is_node (H : α → α → α) (txs : List α) (k q : Nat) (x : α)
    (h : calcHash H txs (k + 1) q = some x) : ∃ a b, x = H a b := by
  simp only [calcHash] at h
  cases hl : calcHash H txs k (2 * q) with
  | none => simp [hl] at h
  | some l =>
    simp only [hl] at h
    split at h
    · cases hr : calcHash H txs k (2 * q + 1) with
      | none => simp [hr] at h
      | some r => simp only [hr, Option.some.injEq] at h; exact ⟨l, r, h.symm⟩
    · simp only [Option.some.injEq] at h; exact ⟨l, l, h.symm⟩

theorem find_map_fst {β : Type} (l : List (Nat × β)) (p : Nat × β → Bool) (i : Nat)
    (hex : ∃ a ∈ l, p a = true) (hall : ∀ a ∈ l, p a = true → a.1 = i) :
    (l.find? p).map (·.1) = some i := by
  cases hf : l.find? p with
  | none =>
    obtain ⟨a, ha, hpa⟩ := hex
    have := List.find?_eq_none.mp hf a ha
    simp [hpa] at this
  | some e =>
    have hm := List.mem_of_find?_eq_some hf
    have hp := List.find?_some hf
    simp [hall e hm hp]


theorem route_cons (n ti c k : Nat) :
    route n ti (c + 1) k = nodeIndex n k (routeIdx n k (ti / 2 ^ k)) :: route n ti c (k + 1) := by
  rw [route, Nat.shiftRight_eq_div_pow]
  congr 1
  unfold routeIdx
  (repeat' split) <;> rfl

/-- `GetMerkleBranch`'s collection loop over a table that holds correct hashes at the route positions -/
theorem collect_route [DecidableEq α] (H : α → α → α) (txs : List α) (i : Nat)
    (tnodes : List (TP × α))
    (hn2 : txs.length ≤ 2 ^ treeDepth txs.length)
    (hpres : ∀ k < treeDepth txs.length, ∃ x, ((k, routeIdx txs.length k (i / 2 ^ k)), x) ∈ tnodes)
    (hcorr : ∀ e ∈ tnodes, calcHash H txs e.1.1 e.1.2 = some e.2)
    (hlev : ∀ e ∈ tnodes, e.1.1 ≤ treeDepth txs.length) :
    ∀ (c k w : Nat), k + c = treeDepth txs.length →
      ∃ sibs, idealSibs H txs c k (i / 2 ^ k) = sibs.map some ∧
        collect (tnodes.map (fun e => (encD (treeDepth txs.length) e.1, e.2))) (route txs.length i c k) w =
          some (sibs, 2 ^ w * idealIndex txs.length c k (i / 2 ^ k))
  | 0, k, w, _ => ⟨[], rfl, by simp [route, collect, idealIndex]⟩
  | c + 1, k, w, hk => by
      have hkD : k < treeDepth txs.length := by omega
      obtain ⟨sibs, hs, hc⟩ := collect_route H txs i tnodes hn2 hpres hcorr hlev c (k + 1) (w + 1) (by omega)
      have hdiv : i / 2 ^ k / 2 = i / 2 ^ (k + 1) := by rw [Nat.div_div_eq_div_mul, ← Nat.pow_succ]
      obtain ⟨x, hx⟩ := hpres k hkD
      have hxc := hcorr _ hx
      simp only at hxc
      -- validity of table positions
      have valid : ∀ e ∈ tnodes, ValidD (treeDepth txs.length) e.1 := by
        intro e he
        exact ⟨hlev e he, width_le_pow _ _ _ hn2 (hlev e he) _ (calcHash_alive H txs _ _ _ (hcorr e he))⟩
      -- the lookup
      have hlook : ∃ e, ((tnodes.map (fun e => (encD (treeDepth txs.length) e.1, e.2))).reverse.find?
          (fun e => e.1 = encD (treeDepth txs.length) (k, routeIdx txs.length k (i / 2 ^ k)))) = some e ∧ e.2 = x := by
        cases hf : ((tnodes.map (fun e => (encD (treeDepth txs.length) e.1, e.2))).reverse.find?
            (fun e => e.1 = encD (treeDepth txs.length) (k, routeIdx txs.length k (i / 2 ^ k)))) with
        | none =>
          have := List.find?_eq_none.mp hf (encD (treeDepth txs.length) (k, routeIdx txs.length k (i / 2 ^ k)), x)
            (by
              rw [List.mem_reverse, List.mem_map]
              exact ⟨_, hx, rfl⟩)
          simp at this
        | some e =>
          refine ⟨e, rfl, ?_⟩
          have hm := List.mem_of_find?_eq_some hf
          have hp := List.find?_some hf
          rw [List.mem_reverse, List.mem_map] at hm
          obtain ⟨e0, he0, rfl⟩ := hm
          simp only [decide_eq_true_eq] at hp
          have := encD_inj _ _ _ (valid e0 he0) (valid _ hx) hp
          have h2 := hcorr e0 he0
          rw [this] at h2
          simp only at h2
          rw [hxc] at h2
          exact (Option.some.inj h2).symm
      obtain ⟨e, hfe, hex⟩ := hlook
      refine ⟨x :: sibs, ?_, ?_⟩
      · simp only [idealSibs, List.map_cons, hxc, hdiv, hs]
      · rw [route_cons, nodeIndex_eq_enc _ _ _ (by omega)]
        simp only [collect, hfe, hc, hex]
        congr 2
        -- the Index arithmetic
        obtain ⟨f1, f2, f3, f4, _⟩ := pow_facts (treeDepth txs.length) k (by omega)
        have hh := pow_half (treeDepth txs.length) k hkD
        simp only [idealIndex, routeBit, hdiv]
        have hpar : encD (treeDepth txs.length) (k, routeIdx txs.length k (i / 2 ^ k)) % 2 =
            routeIdx txs.length k (i / 2 ^ k) % 2 := by
          unfold encD; simp only; omega
        rw [hpar, Nat.pow_succ]
        by_cases hb : routeIdx txs.length k (i / 2 ^ k) % 2 = 0
        · simp only [hb, if_true]
          rw [Nat.mul_add, Nat.mul_one]
          have : 2 ^ w * (2 * idealIndex txs.length c (k + 1) (i / 2 ^ (k + 1))) =
              2 ^ w * 2 * idealIndex txs.length c (k + 1) (i / 2 ^ (k + 1)) := by rw [Nat.mul_assoc]
          rw [this]
        · simp only [hb, if_false, Nat.zero_add]
          rw [Nat.mul_assoc]


theorem build_bits_ne_nil' (H : α → α → α) (txs : List α) (matched : List Bool) (h pos : Nat) :
    (build H txs matched h pos).1 ≠ [] := by
  cases h with
  | zero => simp [build]
  | succ h =>
    simp only [build]
    split
    · simp
    · split <;> simp

/-- **`GetTxMerkleBranch` on what the node built**: for a matched transaction `i` the real algorithm
    (stack machine with Go positions, node table, `calcTxIndex`, `calcBranchRoute`, the collection loop)
    answers the ideal branch and index. -/
theorem branchOf_build [DecidableEq α] {H : α → α → α} (hinj : Injective2 H) (maxTx : Nat) (txs : List α)
    (matched : List Bool) (hnd : txs.Nodup) (hne : txs ≠ []) (hmax : txs.length ≤ maxTx)
    (hsep : ∀ a b, H a b ∉ txs) (i : Nat) (hi : i < txs.length) (hm : matched[i]?.getD false = true)
    (pad : List Bool) :
    ∃ root hs sibs k, calcHash H txs (treeDepth txs.length) 0 = some root ∧
      (build H txs matched (treeHeight txs.length) 0).2 = hs.map some ∧
      idealSibs H txs (treeDepth txs.length) 0 i = sibs.map some ∧
      ∀ f, branchOf H maxTx txs.length root ((build H txs matched (treeHeight txs.length) 0).1 ++ pad) hs txs[i] (k + f) =
        .ok (sibs, idealIndex txs.length (treeDepth txs.length) 0 i) := by
  have hn : 0 < txs.length := List.length_pos_iff.mpr hne
  have hD := treeHeight_eq_depth txs.length
  have hn2 : txs.length ≤ 2 ^ treeDepth txs.length := by rw [← hD]; exact treeHeight_spec _
  obtain ⟨root, hs, hc, hb, he⟩ := extract_build hinj txs matched hnd (treeHeight txs.length) 0 (root_alive _ _ hn)
  obtain ⟨s, hes, h1, _, _, _, h5⟩ := he pad []
  rw [List.append_nil] at hes
  -- the recursive parser's answer
  have hbits : ((build H txs matched (treeHeight txs.length) 0).1 ++ pad).isEmpty = false := by
    cases hb' : (build H txs matched (treeHeight txs.length) 0).1 with
    | nil => exact absurd hb' (build_bits_ne_nil' H txs matched _ 0)
    | cons _ _ => simp
  have hext : extractTop H maxTx txs.length root ((build H txs matched (treeHeight txs.length) 0).1 ++ pad) hs =
      .ok (s.ids, s.nodes) := by
    unfold extractTop
    have a : ¬ txs.length = 0 := by omega
    have b : ¬ txs.length > maxTx := by omega
    simp only [a, b, if_false, hbits, hes, h1, if_true, Bool.false_eq_true]
  -- the Go machine
  obtain ⟨k, hk⟩ := machine_refines_full H maxTx txs.length root ((build H txs matched (treeHeight txs.length) 0).1 ++ pad) hs
  have hgo : ∀ f, machine (goOps txs.length) H maxTx txs.length root
      ((build H txs matched (treeHeight txs.length) 0).1 ++ pad) hs (k + f) =
      .ok (s.ids, s.nodes.map (fun e => (encD (treeDepth txs.length) e.1, e.2))) := by
    intro f
    rw [machine_comm_full (encLaws txs.length hn) H maxTx root _ hs (k + f), hk f, hext]
    rfl
  -- facts about the table
  have hxi : txs[i]? = some txs[i] := List.getElem?_eq_getElem hi
  have hleaf : ((0, i), txs[i]) ∈ s.nodes := h5 i txs[i] (by simp [Nat.div_eq_of_lt (Nat.lt_of_lt_of_le hi (hD ▸ hn2))]) hm hxi
  have hcorr := extract_nodes_correct hinj txs _ 0 _ _ s root hes (hD ▸ hc) h1
  have hlev : ∀ e ∈ s.nodes, e.1.1 ≤ treeDepth txs.length := by
    intro e he'; rw [← hD]; exact (extract_subtree H txs.length _ 0 _ _ s hes e he').1
  have hpres : ∀ k < treeDepth txs.length, ∃ x, ((k, routeIdx txs.length k (i / 2 ^ k)), x) ∈ s.nodes := by
    intro k hk'
    exact extract_route_present H txs.length _ 0 _ _ s i txs[i] (root_alive _ _ hn) hes hleaf k (hD ▸ hk')
  obtain ⟨sibs, hsibs, hcol⟩ := collect_route H txs i s.nodes hn2 hpres hcorr hlev (treeDepth txs.length) 0 0 (by omega)
  simp only [Nat.pow_zero, Nat.div_one, Nat.one_mul] at hsibs hcol
  refine ⟨root, hs, sibs, k, hD ▸ hc, hb, hsibs, ?_⟩
  intro f
  unfold branchOf
  rw [hgo f]
  simp only
  -- calcTxIndex finds position i
  have hti : txIndex txs.length (s.nodes.map (fun e => (encD (treeDepth txs.length) e.1, e.2))) txs[i] = some i := by
    unfold txIndex
    apply find_map_fst
    · refine ⟨(encD (treeDepth txs.length) (0, i), txs[i]), List.mem_map.mpr ⟨_, hleaf, rfl⟩, ?_⟩
      have : encD (treeDepth txs.length) (0, i) = i := by unfold encD; simp
      simp only [this, width_zero]
      have : ¬ i > txs.length := by omega
      simp [this]
    · intro a ha hp
      obtain ⟨e0, he0, rfl⟩ := List.mem_map.mp ha
      simp only [Bool.and_eq_true, decide_eq_true_eq] at hp
      have hc0 := hcorr e0 he0
      rw [hp.2] at hc0
      obtain ⟨⟨k0, q0⟩, x0⟩ := e0
      simp only at hc0 ⊢
      cases k0 with
      | zero =>
        have hci : calcHash H txs 0 i = some txs[i] := by simp [calcHash, hxi]
        have := calcHash_pos_inj hinj txs hnd 0 q0 i txs[i] hc0 hci
        subst this
        unfold encD; simp
      | succ k0 =>
        obtain ⟨a, b, hab⟩ := calcHash_succ_is_node H txs k0 q0 _ hc0
        exact absurd (hab ▸ List.getElem_mem hi) (hsep a b)
  rw [hti]
  simp only [hcol]

end ElaVerif.PMT
