import ElaVerif.Model.Compact
/-!
Helper lemmas for C09 (compact target codec, retarget arithmetic).
Core Lean only (`omega`, `simp`); the property theorems are in `Props/C09.lean`.
-/
namespace ElaVerif.Compact

/-! ### byte length -/

theorem byteLen_spec {a : Nat} (h : 0 < a) :
    1 ≤ byteLen a ∧ 2 ^ (8 * (byteLen a - 1)) ≤ a ∧ a < 2 ^ (8 * byteLen a) := by
  have hne : a ≠ 0 := by omega
  unfold byteLen
  rw [if_neg hne]
  refine ⟨by omega, ?_, ?_⟩
  · have h1 : 8 * (a.log2 / 8 + 1 - 1) ≤ a.log2 := by omega
    exact (Nat.le_log2 hne).1 h1
  · have h1 : a.log2 < 8 * (a.log2 / 8 + 1) := by omega
    exact (Nat.log2_lt hne).1 h1

theorem byteLen_eq {a k : Nat} (h1 : 2 ^ (8 * k) ≤ a) (h2 : a < 2 ^ (8 * (k + 1))) :
    byteLen a = k + 1 := by
  have hp : 0 < 2 ^ (8 * k) := Nat.pow_pos (by omega)
  have hne : a ≠ 0 := by omega
  unfold byteLen
  rw [if_neg hne]
  have := (Nat.le_log2 hne).2 h1
  have := (Nat.log2_lt hne).2 h2
  omega

theorem byteLen_zero : byteLen 0 = 0 := by simp [byteLen]

/-- a number below `2^(8k)` has at most `k` bytes. -/
theorem byteLen_le {a k : Nat} (h : a < 2 ^ (8 * k)) : byteLen a ≤ k := by
  by_cases h0 : a = 0
  · subst h0; simp [byteLen]
  · unfold byteLen
    rw [if_neg h0]
    have := (Nat.log2_lt h0).2 h
    omega

/-! ### packing a (exponent, mantissa) pair into a `uint32` -/

theorem pack_eq (e : Nat) {m : Nat} (hm : m < 2 ^ 24) :
    (e * 2 ^ 24) % 2 ^ 32 ||| m = (e % 256) * 2 ^ 24 + m := by
  have h1 : (e * 2 ^ 24) % 2 ^ 32 = (e % 256) * 2 ^ 24 := by omega
  rw [h1, ← Nat.shiftLeft_eq, ← Nat.shiftLeft_add_eq_or_of_lt hm]

/-- the unsigned magnitude a (exponent, mantissa) pair denotes. -/
def magOf (e m : Nat) : Nat := if e ≤ 3 then m / 2 ^ (8 * (3 - e)) else m * 2 ^ (8 * (e - 3))

theorem compactToBig_pack {e m : Nat} (hm : m < 2 ^ 23) :
    compactToBig (e * 2 ^ 24 + m) = (magOf e m : Int) := by
  unfold compactToBig magOf
  have h1 : (e * 2 ^ 24 + m) % 2 ^ 23 = m := by omega
  have h2 : (e * 2 ^ 24 + m) / 2 ^ 23 % 2 = 0 := by omega
  have h3 : (e * 2 ^ 24 + m) / 2 ^ 24 = e := by omega
  simp only [h1, h2, h3]
  simp

/-- decomposition of an arbitrary compact value -/
theorem compact_decomp (c : Nat) :
    c = (c / 2 ^ 24) * 2 ^ 24 + (c / 2 ^ 23 % 2) * 2 ^ 23 + c % 2 ^ 23 := by omega

/-! ### the encoder on positive numbers -/

/-- mantissa before the sign-bit bump (no `uint32` truncation: see `mant0_lt`). -/
def mant0Of (e a : Nat) : Nat := if e ≤ 3 then a * 2 ^ (8 * (3 - e)) else a / 2 ^ (8 * (e - 3))

theorem two_pow_split {e : Nat} (he : 3 < e) : 2 ^ (8 * e) = 2 ^ 24 * 2 ^ (8 * (e - 3)) := by
  rw [← Nat.pow_add]; congr 1; omega

theorem two_pow_split1 {e : Nat} (he : 3 < e) : 2 ^ (8 * (e - 1)) = 2 ^ 16 * 2 ^ (8 * (e - 3)) := by
  rw [← Nat.pow_add]; congr 1; omega

theorem mant0_bounds {e a : Nat} (he : 1 ≤ e) (lo : 2 ^ (8 * (e - 1)) ≤ a) (hi : a < 2 ^ (8 * e)) :
    2 ^ 16 ≤ mant0Of e a ∧ mant0Of e a < 2 ^ 24 := by
  unfold mant0Of
  by_cases h3 : e ≤ 3
  · rw [if_pos h3]
    have : e = 1 ∨ e = 2 ∨ e = 3 := by omega
    rcases this with rfl | rfl | rfl <;> simp at lo hi ⊢ <;> omega
  · rw [if_neg h3]
    have h3' : 3 < e := by omega
    rw [two_pow_split h3'] at hi
    rw [two_pow_split1 h3'] at lo
    have hp : 0 < 2 ^ (8 * (e - 3)) := Nat.pow_pos (by omega)
    constructor
    · exact (Nat.le_div_iff_mul_le hp).2 lo
    · exact (Nat.div_lt_iff_lt_mul hp).2 hi

/-- `bigToCompact` on a positive number, with the `uint32` truncations of the
    mantissa removed; the exponent keeps its truncation to 8 bits. -/
theorem bigToCompact_pos {a : Nat} (h : 0 < a) :
    bigToCompact (a : Int) =
      if 2 ^ 23 ≤ mant0Of (byteLen a) a
      then ((byteLen a + 1) % 256) * 2 ^ 24 + mant0Of (byteLen a) a / 2 ^ 8
      else (byteLen a % 256) * 2 ^ 24 + mant0Of (byteLen a) a := by
  obtain ⟨h1, h2, h3⟩ := byteLen_spec h
  obtain ⟨_, hm⟩ := mant0_bounds h1 h2 h3
  unfold bigToCompact
  have hn0 : ¬ ((a : Int) = 0) := by omega
  have hneg : ¬ ((a : Int) < 0) := by omega
  rw [if_neg hn0]
  simp only [Int.natAbs_natCast, hneg, decide_false, rshAbs, if_false]
  have hm0 : (if byteLen a ≤ 3 then a * 2 ^ (8 * (3 - byteLen a)) % 2 ^ 32
      else a / 2 ^ (8 * (byteLen a - 3)) % 2 ^ 32) = mant0Of (byteLen a) a := by
    unfold mant0Of at hm ⊢
    split
    · rename_i hh; rw [if_pos hh] at hm; exact Nat.mod_eq_of_lt (by omega)
    · rename_i hh; rw [if_neg hh] at hm; exact Nat.mod_eq_of_lt (by omega)
  simp only [Bool.false_eq_true, if_false] at *
  rw [hm0]
  generalize mant0Of (byteLen a) a = m at *
  by_cases hb : 2 ^ 23 ≤ m
  · have hb' : m / 2 ^ 23 % 2 = 1 := by omega
    simp only [hb', if_true, hb]
    exact pack_eq _ (by omega)
  · have hb' : ¬ (m / 2 ^ 23 % 2 = 1) := by omega
    simp only [hb', if_false, hb]
    exact pack_eq _ (by omega)

/-! ### magnitude of the re-decoded value -/

theorem magOf_mono_exp {e1 e2 : Nat} (m : Nat) (h : e1 ≤ e2) : magOf e1 m ≤ magOf e2 m := by
  unfold magOf
  by_cases h1 : e1 ≤ 3 <;> by_cases h2 : e2 ≤ 3
  · rw [if_pos h1, if_pos h2]
    exact Nat.div_le_div_left (Nat.pow_le_pow_right (by omega) (by omega)) (Nat.pow_pos (by omega))
  · rw [if_pos h1, if_neg h2]
    calc m / 2 ^ (8 * (3 - e1)) ≤ m := Nat.div_le_self _ _
      _ ≤ m * 2 ^ (8 * (e2 - 3)) := Nat.le_mul_of_pos_right _ (Nat.pow_pos (by omega))
  · omega
  · rw [if_neg h1, if_neg h2]
    exact Nat.mul_le_mul_left _ (Nat.pow_le_pow_right (by omega) (by omega))

/-- value denoted by the encoder's (exponent, mantissa) before the exponent is cut to 8 bits. -/
def encMag (a : Nat) : Nat :=
  if 2 ^ 23 ≤ mant0Of (byteLen a) a then magOf (byteLen a + 1) (mant0Of (byteLen a) a / 2 ^ 8)
  else magOf (byteLen a) (mant0Of (byteLen a) a)

theorem two_pow_split2 {e : Nat} (he : 3 < e) : 2 ^ (8 * (e + 1 - 3)) = 2 ^ 8 * 2 ^ (8 * (e - 3)) := by
  rw [← Nat.pow_add]; congr 1; omega

/-- the encoder rounds down, and loses less than 2⁻¹⁵ of the value. -/
theorem encMag_bounds {a : Nat} (h : 0 < a) : encMag a ≤ a ∧ a ≤ encMag a + encMag a / 2 ^ 15 := by
  obtain ⟨h1, h2, h3⟩ := byteLen_spec h
  obtain ⟨hlo, hhi⟩ := mant0_bounds h1 h2 h3
  unfold encMag
  generalize byteLen a = e at *
  by_cases h3e : e ≤ 3
  · have : e = 1 ∨ e = 2 ∨ e = 3 := by omega
    rcases this with rfl | rfl | rfl <;> simp [mant0Of, magOf] at h2 h3 hlo hhi ⊢ <;> split <;> omega
  · have h3' : 3 < e := by omega
    have hP : 0 < 2 ^ (8 * (e - 3)) := Nat.pow_pos (by omega)
    have e1 : ¬ (e + 1 ≤ 3) := by omega
    simp only [mant0Of, magOf, if_neg h3e, if_neg e1] at hlo hhi ⊢
    rw [two_pow_split2 h3']
    generalize 2 ^ (8 * (e - 3)) = P at *
    have hx1 : a / P * P ≤ a := Nat.div_mul_le_self _ _
    have hx2 : a < (a / P + 1) * P := by
      have := Nat.lt_succ_iff.2 (Nat.le_refl (a / P))
      exact (Nat.div_lt_iff_lt_mul hP).1 this
    generalize a / P = x at *
    split
    · -- bump
      have hy : x / 2 ^ 8 * 2 ^ 8 ≤ x := Nat.div_mul_le_self _ _
      have hy2 : x < (x / 2 ^ 8 + 1) * 2 ^ 8 := by omega
      have hy3 : 2 ^ 15 ≤ x / 2 ^ 8 := by omega
      generalize x / 2 ^ 8 = y at *
      have r1 : y * (2 ^ 8 * P) = (y * 2 ^ 8) * P := by rw [Nat.mul_assoc]
      have r2 : (y * 2 ^ 8) * P ≤ x * P := Nat.mul_le_mul_right _ hy
      have r3 : (x + 1) * P ≤ ((y + 1) * 2 ^ 8) * P := Nat.mul_le_mul_right _ (by omega)
      have r4 : ((y + 1) * 2 ^ 8) * P = y * (2 ^ 8 * P) + 2 ^ 8 * P := by
        rw [Nat.add_mul, Nat.add_mul, Nat.mul_assoc]
      have r5 : 2 ^ 8 * P ≤ y * (2 ^ 8 * P) / 2 ^ 15 := by
        apply (Nat.le_div_iff_mul_le (by omega)).2
        calc 2 ^ 8 * P * 2 ^ 15 = 2 ^ 15 * (2 ^ 8 * P) := Nat.mul_comm _ _
          _ ≤ y * (2 ^ 8 * P) := Nat.mul_le_mul_right _ hy3
      omega
    · have r5 : P ≤ x * P / 2 ^ 15 := by
        apply (Nat.le_div_iff_mul_le (by omega)).2
        calc P * 2 ^ 15 = 2 ^ 15 * P := Nat.mul_comm _ _
          _ ≤ x * P := Nat.mul_le_mul_right _ (by omega)
      have r6 : (x + 1) * P = x * P + P := by rw [Nat.add_mul]; simp
      omega

/-- decoding what the encoder produced for a positive number. -/
theorem compactToBig_bigToCompact_pos {a : Nat} (h : 0 < a) :
    ∃ r : Nat, compactToBig (bigToCompact (a : Int)) = (r : Int) ∧ r ≤ encMag a ∧
      (byteLen a < 255 → r = encMag a) := by
  obtain ⟨h1, h2, h3⟩ := byteLen_spec h
  obtain ⟨hlo, hhi⟩ := mant0_bounds h1 h2 h3
  rw [bigToCompact_pos h]
  unfold encMag
  split
  · rw [compactToBig_pack (by omega)]
    refine ⟨_, rfl, magOf_mono_exp _ (Nat.mod_le _ _), ?_⟩
    intro hl; rw [Nat.mod_eq_of_lt (by omega)]
  · rw [compactToBig_pack (by omega)]
    refine ⟨_, rfl, magOf_mono_exp _ (Nat.mod_le _ _), ?_⟩
    intro hl; rw [Nat.mod_eq_of_lt (by omega)]

/-! ### negative numbers: the sign bit survives -/

theorem compactToBig_signbit {c : Nat} (h : c / 2 ^ 23 % 2 = 1) : compactToBig c ≤ 0 := by
  unfold compactToBig
  simp only [h, if_true]
  omega

theorem or_signbit (c : Nat) : (c ||| 2 ^ 23) / 2 ^ 23 % 2 = 1 := by
  have h := @Nat.testBit_eq_decide_div_mod_eq 23 (c ||| 2 ^ 23)
  rw [Nat.testBit_or, Nat.testBit_two_pow_self, Bool.or_true] at h
  exact of_decide_eq_true h.symm

theorem compactToBig_bigToCompact_neg {n : Int} (h : n < 0) : compactToBig (bigToCompact n) ≤ 0 := by
  unfold bigToCompact
  have hn0 : ¬ (n = 0) := by omega
  rw [if_neg hn0]
  simp only [h, if_true]
  exact compactToBig_signbit (or_signbit _)

theorem bigToCompact_zero : bigToCompact 0 = 0 := by simp [bigToCompact]
theorem compactToBig_zero : compactToBig 0 = 0 := by decide


/-! ### round trip on canonical (exponent, mantissa) pairs -/

theorem enc_of_len {v k m0 : Nat} (hv : 0 < v) (hlen : byteLen v = k) (hm : mant0Of k v = m0) :
    bigToCompact (v : Int) =
      if 2 ^ 23 ≤ m0 then ((k + 1) % 256) * 2 ^ 24 + m0 / 2 ^ 8 else (k % 256) * 2 ^ 24 + m0 := by
  rw [bigToCompact_pos hv, hlen, hm]

theorem roundtrip_core {e m : Nat} (he1 : 1 ≤ e) (he : e ≤ 255) (hm1 : 2 ^ 15 ≤ m) (hm2 : m < 2 ^ 23)
    (h1 : e = 1 → m % 2 ^ 16 = 0) (h2 : e = 2 → m % 2 ^ 8 = 0) :
    bigToCompact (magOf e m : Int) = e * 2 ^ 24 + m := by
  by_cases h3e : e ≤ 3
  · have : e = 1 ∨ e = 2 ∨ e = 3 := by omega
    rcases this with rfl | rfl | rfl
    · have hm0 := h1 rfl
      have hv : magOf 1 m = m / 2 ^ 16 := by simp [magOf]
      rw [hv]
      have hl : byteLen (m / 2 ^ 16) = 0 + 1 := byteLen_eq (by omega) (by omega)
      rw [enc_of_len (by omega) hl (m0 := m) (by simp [mant0Of]; omega)]
      rw [if_neg (by omega)]
    · have hm0 := h2 rfl
      have hv : magOf 2 m = m / 2 ^ 8 := by simp [magOf]
      rw [hv]
      by_cases hs : m / 2 ^ 8 < 2 ^ 8
      · have hl : byteLen (m / 2 ^ 8) = 0 + 1 := byteLen_eq (by omega) (by omega)
        rw [enc_of_len (by omega) hl (m0 := m * 2 ^ 8) (by simp [mant0Of]; omega)]
        rw [if_pos (by omega)]; omega
      · have hl : byteLen (m / 2 ^ 8) = 1 + 1 := byteLen_eq (by omega) (by omega)
        rw [enc_of_len (by omega) hl (m0 := m) (by simp [mant0Of]; omega)]
        rw [if_neg (by omega)]
    · have hv : magOf 3 m = m := by simp [magOf]
      rw [hv]
      by_cases hs : m < 2 ^ 16
      · have hl : byteLen m = 1 + 1 := byteLen_eq (by omega) (by omega)
        rw [enc_of_len (by omega) hl (m0 := m * 2 ^ 8) (by simp [mant0Of])]
        rw [if_pos (by omega)]; omega
      · have hl : byteLen m = 2 + 1 := byteLen_eq (by omega) (by omega)
        rw [enc_of_len (by omega) hl (m0 := m) (by simp [mant0Of])]
        rw [if_neg (by omega)]
  · have h3' : 3 < e := by omega
    have hv : magOf e m = m * 2 ^ (8 * (e - 3)) := by simp [magOf, h3e]
    rw [hv]
    have hP : 0 < 2 ^ (8 * (e - 3)) := Nat.pow_pos (by omega)
    have hvpos : 0 < m * 2 ^ (8 * (e - 3)) := Nat.mul_pos (by omega) hP
    by_cases hs : m < 2 ^ 16
    · -- one byte shorter, the encoder bumps back
      have hPP : 2 ^ (8 * (e - 3)) = 2 ^ 8 * 2 ^ (8 * (e - 4)) := by
        rw [← Nat.pow_add]; congr 1; omega
      have hQ : 0 < 2 ^ (8 * (e - 4)) := Nat.pow_pos (by omega)
      have hlo : 2 ^ (8 * (e - 2)) = 2 ^ 16 * 2 ^ (8 * (e - 4)) := by
        rw [← Nat.pow_add]; congr 1; omega
      have hhi : 2 ^ (8 * (e - 2 + 1)) = 2 ^ 24 * 2 ^ (8 * (e - 4)) := by
        rw [← Nat.pow_add]; congr 1; omega
      have hveq : m * 2 ^ (8 * (e - 3)) = (m * 2 ^ 8) * 2 ^ (8 * (e - 4)) := by
        rw [hPP, Nat.mul_assoc]
      have hl : byteLen (m * 2 ^ (8 * (e - 3))) = e - 2 + 1 := by
        apply byteLen_eq
        · rw [hlo, hveq]; exact Nat.mul_le_mul_right _ (by omega)
        · rw [hhi, hveq]; exact Nat.mul_lt_mul_of_pos_right (by omega) hQ
      have hmant : mant0Of (e - 2 + 1) (m * 2 ^ (8 * (e - 3))) = m * 2 ^ 8 := by
        unfold mant0Of
        by_cases h4 : e = 4
        · subst h4; simp
        · rw [if_neg (by omega)]
          have : e - 2 + 1 - 3 = e - 4 := by omega
          rw [this, hveq, Nat.mul_div_cancel _ hQ]
      rw [enc_of_len hvpos hl hmant, if_pos (by omega)]
      omega
    · have hlo : 2 ^ (8 * (e - 1)) = 2 ^ 16 * 2 ^ (8 * (e - 3)) := two_pow_split1 h3'
      have hhi : 2 ^ (8 * (e - 1 + 1)) = 2 ^ 24 * 2 ^ (8 * (e - 3)) := by
        rw [← Nat.pow_add]; congr 1; omega
      have hl : byteLen (m * 2 ^ (8 * (e - 3))) = e - 1 + 1 := by
        apply byteLen_eq
        · rw [hlo]; exact Nat.mul_le_mul_right _ (by omega)
        · rw [hhi]; exact Nat.mul_lt_mul_of_pos_right (by omega) hP
      have hmant : mant0Of (e - 1 + 1) (m * 2 ^ (8 * (e - 3))) = m := by
        unfold mant0Of
        rw [if_neg (by omega)]
        have : e - 1 + 1 - 3 = e - 3 := by omega
        rw [this, Nat.mul_div_cancel _ hP]
      rw [enc_of_len hvpos hl hmant, if_neg (by omega)]
      omega

end ElaVerif.Compact
