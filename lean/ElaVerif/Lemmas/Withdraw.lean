import ElaVerif.Model.Withdraw
/-!
  C33 — helper lemmas for the withdrawal check model.
-/
namespace ElaVerif.Withdraw

theorem firstErr_none {α : Type} {f : α → Option Err} {l : List α} (h : firstErr f l = none) :
    ∀ x ∈ l, f x = none := by
  induction l with
  | nil => intro x hx; cases hx
  | cons a l ih =>
    unfold firstErr at h
    intro x hx
    cases hfa : f a with
    | some e => rw [hfa] at h; cases h
    | none =>
      rw [hfa] at h
      rcases List.mem_cons.1 hx with rfl | hx
      · exact hfa
      · exact ih h x hx

theorem firstErr_some_of_mem {α : Type} {f : α → Option Err} {l : List α} {x : α} (hx : x ∈ l)
    (hf : f x ≠ none) : firstErr f l ≠ none := by
  intro h
  exact hf (firstErr_none h x hx)

/-- the sum of the keys the signer indexes name -/
def keySum (cross : List Arb) (signers : List Nat) : Nat :=
  (signers.map (fun i => (cross[i]?.map (·.key)).getD 0)).sum

theorem aggregate_ok {cross : List Arb} {validate : Bool} {signers seen : List Nat} {acc sum : Nat}
    (h : aggregate cross validate signers seen acc = .ok sum) :
    (∀ i ∈ signers, i < cross.length) ∧
    (validate = true → signers.Nodup ∧ ∀ i ∈ signers, i ∉ seen) ∧
    sum = acc + keySum cross signers := by
  induction signers generalizing seen acc with
  | nil =>
    unfold aggregate at h
    cases h
    exact ⟨(by intro i hi; cases hi), fun _ => ⟨List.nodup_nil, (by intro i hi; cases hi)⟩, (by simp [keySum])⟩
  | cons i rest ih =>
    unfold aggregate at h
    split at h
    · cases h
    · rename_i a ha
      have hlt : i < cross.length := by
        apply Classical.byContradiction
        intro hn
        have : cross[i]? = none := List.getElem?_eq_none (by omega)
        rw [this] at ha; cases ha
      split at h
      · cases h
      · rename_i hcond
        obtain ⟨h1, h2, h3⟩ := ih h
        refine ⟨?_, ?_, ?_⟩
        · intro j hj
          rcases List.mem_cons.1 hj with rfl | hj
          · exact hlt
          · exact h1 j hj
        · intro hv
          obtain ⟨g1, g2⟩ := h2 hv
          have hseen : i ∉ seen := by
            intro hin
            apply hcond
            simp [hv, hin]
          refine ⟨List.nodup_cons.2 ⟨?_, g1⟩, ?_⟩
          · intro hin; exact g2 i hin List.mem_cons_self
          · intro j hj
            rcases List.mem_cons.1 hj with rfl | hj
            · exact hseen
            · intro hin; exact g2 j hj (List.mem_cons_of_mem _ hin)
        · rw [h3]
          simp only [keySum, List.map_cons, List.sum_cons, ha, Option.map_some, Option.getD_some]
          omega

end ElaVerif.Withdraw
