import ElaVerif.Model.Bloom
/-!
Helper lemmas for C39 (bloom filter).  Everything is for an arbitrary hash `mm`.
-/
namespace ElaVerif.Bloom

/-! ### bytes and bits -/

theorem and7 (a : UInt32) : (a &&& 7).toNat = a.toNat % 8 := by
  simp [UInt32.toNat_and]
  exact Nat.and_two_pow_sub_one_eq_mod a.toNat 3

theorem mask_toNat (idx : UInt32) : (mask idx).toNat = 2 ^ (idx.toNat % 8) := by
  unfold mask
  rw [UInt8.toNat_shiftLeft, UInt32.toNat_toUInt8, and7]
  have h : idx.toNat % 8 < 8 := Nat.mod_lt _ (by decide)
  have h1 : idx.toNat % 8 % 2 ^ 8 % 8 = idx.toNat % 8 := by omega
  rw [h1]
  simp [Nat.one_shiftLeft]
  calc 2 ^ (idx.toNat % 8) < 2 ^ 8 := Nat.pow_lt_pow_right (by decide) h
    _ = 256 := by decide

theorem and_two_pow_eq_zero (x k : Nat) : x &&& 2 ^ k = 0 ↔ x.testBit k = false := by
  constructor
  · intro h
    have := congrArg (fun n => n.testBit k) h
    simpa [Nat.testBit_and, Nat.testBit_two_pow] using this
  · intro h
    apply Nat.eq_of_testBit_eq
    intro j
    simp [Nat.testBit_and, Nat.testBit_two_pow]
    intro hj hk; subst hk; simp [h] at hj

/-- the Go test `b & (1<<(idx&7)) != 0` is "bit `idx mod 8` of `b`". -/
theorem test_eq (b : UInt8) (idx : UInt32) :
    (b &&& mask idx != 0) = b.toNat.testBit (idx.toNat % 8) := by
  have : (b &&& mask idx = 0) ↔ (b &&& mask idx).toNat = 0 := by
    rw [← UInt8.toNat_inj]; simp
  rw [UInt8.toNat_and, mask_toNat, and_two_pow_eq_zero] at this
  cases hb : b.toNat.testBit (idx.toNat % 8) <;> simp [hb] at this ⊢ <;> simp [this]

theorem set_testBit (b : UInt8) (idx : UInt32) (j : Nat) :
    (b ||| mask idx).toNat.testBit j = (b.toNat.testBit j || decide (idx.toNat % 8 = j)) := by
  rw [UInt8.toNat_or, mask_toNat, Nat.testBit_or, Nat.testBit_two_pow]

theorem shr3 (a : UInt32) : (a >>> 3).toNat = a.toNat / 8 := by
  simp [UInt32.toNat_shiftRight, Nat.shiftRight_eq_div_pow]

/-! ### testBit / setBit on the byte array -/

theorem setBit_length {bits bits' : Bytes} {k : UInt32} (h : setBit bits k = some bits') :
    bits'.length = bits.length := by
  unfold setBit at h
  split at h
  · cases h
  · cases h; simp

/-- the bit just set tests true -/
theorem testBit_setBit_self {bits bits' : Bytes} {k : UInt32} (h : setBit bits k = some bits') :
    testBit bits' k = some true := by
  unfold setBit at h
  split at h
  · cases h
  · rename_i b hb
    cases h
    have hlt : (k >>> 3).toNat < bits.length := by
      rcases List.getElem?_eq_some_iff.mp hb with ⟨hl, _⟩; exact hl
    unfold testBit
    simp only [List.getElem?_set_self hlt, test_eq, set_testBit, decide_true, Bool.or_true]

/-- a set bit stays set when another bit is set -/
theorem testBit_setBit_mono {bits bits' : Bytes} {j k : UInt32} (h : setBit bits k = some bits')
    (hj : testBit bits j = some true) : testBit bits' j = some true := by
  unfold setBit at h
  split at h
  · cases h
  · rename_i b hb
    cases h
    have hlt : (k >>> 3).toNat < bits.length := by
      rcases List.getElem?_eq_some_iff.mp hb with ⟨hl, _⟩; exact hl
    unfold testBit at hj ⊢
    by_cases hjk : (k >>> 3).toNat = (j >>> 3).toNat
    · rw [← hjk] at hj ⊢
      rw [hb] at hj
      simp only [List.getElem?_set_self hlt]
      simp only [test_eq, Option.some.injEq] at hj ⊢
      rw [set_testBit, hj, Bool.true_or]
    · rw [List.getElem?_set_ne hjk]; exact hj

/-- `g` has every bit of `f` (same geometry). -/
def BitsLe (bits bits' : Bytes) : Prop :=
  bits'.length = bits.length ∧ ∀ j, testBit bits j = some true → testBit bits' j = some true

theorem BitsLe.refl (b : Bytes) : BitsLe b b := ⟨rfl, fun _ h => h⟩
theorem BitsLe.trans {a b c : Bytes} (h1 : BitsLe a b) (h2 : BitsLe b c) : BitsLe a c :=
  ⟨h2.1.trans h1.1, fun j h => h2.2 j (h1.2 j h)⟩

theorem setBit_le {bits bits' : Bytes} {k : UInt32} (h : setBit bits k = some bits') : BitsLe bits bits' :=
  ⟨setBit_length h, fun _ hj => testBit_setBit_mono h hj⟩

/-! ### the loops -/

theorem addLoop_le (mm : Murmur) (tw : UInt32) (d : Bytes) :
    ∀ (n : Nat) (bits bits' : Bytes) (i : UInt32), addLoop mm tw d bits n i = some bits' → BitsLe bits bits' := by
  intro n
  induction n with
  | zero => intro bits bits' i h; simp [addLoop] at h; subst h; exact BitsLe.refl _
  | succ n ih =>
    intro bits bits' i h
    unfold addLoop at h
    split at h
    · cases h
    · rename_i idx hidx
      split at h
      · cases h
      · rename_i b1 hb1
        exact (setBit_le hb1).trans (ih _ _ _ h)

theorem matchesLoop_mono (mm : Murmur) (tw : UInt32) (d : Bytes) {bits bits' : Bytes} (hle : BitsLe bits bits') :
    ∀ (n : Nat) (i : UInt32), matchesLoop mm tw d bits n i = some true → matchesLoop mm tw d bits' n i = some true := by
  intro n
  induction n with
  | zero => intro i _; simp [matchesLoop]
  | succ n ih =>
    intro i h
    unfold matchesLoop at h ⊢
    rw [hle.1]
    split at h
    · cases h
    · rename_i idx hidx
      split at h
      · cases h
      · cases h
      · rename_i ht
        rw [hle.2 idx ht]
        exact ih _ h

/-- after the add loop for `d` the match loop for `d` succeeds (same counter range). -/
theorem matchesLoop_addLoop (mm : Murmur) (tw : UInt32) (d : Bytes) :
    ∀ (n : Nat) (bits bits' : Bytes) (i : UInt32), addLoop mm tw d bits n i = some bits' →
      matchesLoop mm tw d bits' n i = some true := by
  intro n
  induction n with
  | zero => intro _ _ _ _; simp [matchesLoop]
  | succ n ih =>
    intro bits bits' i h
    unfold addLoop at h
    split at h
    · cases h
    · rename_i idx hidx
      split at h
      · cases h
      · rename_i b1 hb1
        have hle := addLoop_le mm tw d n b1 bits' (i + 1) h
        have hlen : bits'.length = bits.length := hle.1.trans (setBit_length hb1)
        unfold matchesLoop
        rw [hlen, hidx]
        simp only []
        rw [hle.2 idx (testBit_setBit_self hb1)]
        exact ih b1 bits' (i + 1) h

/-! ### no panic when the bit count is a non-zero uint32 -/

theorem modulus_toNat {len : Nat} (h : len < 2 ^ 29) : (modulus len).toNat = len * 8 := by
  unfold modulus
  rw [UInt32.toNat_shiftLeft, UInt32.toNat_ofNat']
  simp [Nat.shiftLeft_eq]
  omega

theorem hash_some (mm : Murmur) {len : Nat} (h0 : 0 < len) (h : len < 2 ^ 29) (tw i : UInt32) (d : Bytes) :
    ∃ idx, hash mm len tw i d = some idx ∧ (idx >>> 3).toNat < len := by
  have hm := modulus_toNat h
  have hne : modulus len ≠ 0 := by
    intro hz
    have := congrArg UInt32.toNat hz
    rw [hm] at this
    simp at this
    omega
  refine ⟨mm (i * 0xfba4c795 + tw) d % modulus len, by simp [hash, hne], ?_⟩
  rw [shr3, UInt32.toNat_mod, hm]
  have : (mm (i * 0xfba4c795 + tw) d).toNat % (len * 8) < len * 8 := Nat.mod_lt _ (by omega)
  omega

theorem matchesLoop_total (mm : Murmur) (tw : UInt32) (d : Bytes) {bits : Bytes} (h0 : 0 < bits.length)
    (h : bits.length < 2 ^ 29) : ∀ (n : Nat) (i : UInt32), ∃ r, matchesLoop mm tw d bits n i = some r := by
  intro n
  induction n with
  | zero => intro i; exact ⟨true, rfl⟩
  | succ n ih =>
    intro i
    obtain ⟨idx, hidx, hlt⟩ := hash_some mm h0 h tw i d
    unfold matchesLoop
    rw [hidx]
    simp only []
    have : ∃ b, bits[(idx >>> 3).toNat]? = some b := ⟨bits[(idx >>> 3).toNat], List.getElem?_eq_getElem hlt⟩
    obtain ⟨b, hb⟩ := this
    simp only [testBit, hb]
    cases (b &&& mask idx != 0)
    · exact ⟨false, rfl⟩
    · exact ih (i + 1)

theorem addLoop_total (mm : Murmur) (tw : UInt32) (d : Bytes) :
    ∀ (n : Nat) (bits : Bytes) (i : UInt32), 0 < bits.length → bits.length < 2 ^ 29 →
      ∃ bits', addLoop mm tw d bits n i = some bits' := by
  intro n
  induction n with
  | zero => intro bits i _ _; exact ⟨bits, rfl⟩
  | succ n ih =>
    intro bits i h0 h
    obtain ⟨idx, hidx, hlt⟩ := hash_some mm h0 h tw i d
    unfold addLoop
    rw [hidx]
    simp only []
    have hb : bits[(idx >>> 3).toNat]? = some bits[(idx >>> 3).toNat] := List.getElem?_eq_getElem hlt
    simp only [setBit, hb]
    apply ih
    · simpa using h0
    · simpa using h

/-! ### filter level -/

/-- `g` is `f` with possibly more bits set. -/
def Le (f g : Filter) : Prop :=
  g.hashFuncs = f.hashFuncs ∧ g.tweak = f.tweak ∧ g.txTypes = f.txTypes ∧ BitsLe f.bits g.bits

theorem Le.refl (f : Filter) : Le f f := ⟨rfl, rfl, rfl, BitsLe.refl _⟩
theorem Le.trans {a b c : Filter} (h1 : Le a b) (h2 : Le b c) : Le a c :=
  ⟨h2.1.trans h1.1, h2.2.1.trans h1.2.1, h2.2.2.1.trans h1.2.2.1, h1.2.2.2.trans h2.2.2.2⟩
theorem Le.length {f g : Filter} (h : Le f g) : g.bits.length = f.bits.length := h.2.2.2.1

theorem matches_mono (mm : Murmur) {f g : Filter} (hle : Le f g) {d : Bytes}
    (h : «matches» mm f d = some true) : «matches» mm g d = some true := by
  unfold «matches» at h ⊢
  rw [hle.length, hle.1, hle.2.1]
  split
  · rfl
  · rename_i hne
    rw [if_neg hne] at h
    exact matchesLoop_mono mm f.tweak d hle.2.2.2 _ _ h

theorem add_le (mm : Murmur) {f g : Filter} {d : Bytes} (h : add mm f d = some g) : Le f g := by
  unfold add at h
  split at h
  · cases h; exact Le.refl _
  · split at h
    · cases h
    · rename_i bits' hb
      cases h
      exact ⟨rfl, rfl, rfl, addLoop_le mm _ _ _ _ _ _ hb⟩

theorem add_matches (mm : Murmur) {f g : Filter} {d : Bytes} (h : add mm f d = some g) :
    «matches» mm g d = some true := by
  unfold add at h
  split at h
  · rename_i h0
    cases h
    simp [«matches», h0]
  · split at h
    · cases h
    · rename_i bits' hb
      cases h
      unfold «matches»
      split
      · rfl
      · exact matchesLoop_addLoop mm _ _ _ _ _ _ hb

theorem matches_total (mm : Murmur) (f : Filter) (d : Bytes) (h : f.bits.length < 2 ^ 29) :
    ∃ r, «matches» mm f d = some r := by
  unfold «matches»
  split
  · exact ⟨true, rfl⟩
  · exact matchesLoop_total mm _ _ (by omega) h _ _

theorem add_total (mm : Murmur) (f : Filter) (d : Bytes) (h : f.bits.length < 2 ^ 29) :
    ∃ g, add mm f d = some g := by
  unfold add
  split
  · exact ⟨f, rfl⟩
  · obtain ⟨b, hb⟩ := addLoop_total mm f.tweak d f.hashFuncs.toNat f.bits 0 (by omega) h
    rw [hb]; exact ⟨_, rfl⟩

theorem addAll_le (mm : Murmur) : ∀ (ds : List Bytes) (f g : Filter), addAll mm f ds = some g → Le f g := by
  intro ds
  induction ds with
  | nil => intro f g h; simp [addAll] at h; subst h; exact Le.refl _
  | cons d ds ih =>
    intro f g h
    unfold addAll at h
    split at h
    · cases h
    · rename_i f' hf'
      exact (add_le mm hf').trans (ih _ _ h)

theorem addAll_total (mm : Murmur) : ∀ (ds : List Bytes) (f : Filter), f.bits.length < 2 ^ 29 →
    ∃ g, addAll mm f ds = some g := by
  intro ds
  induction ds with
  | nil => intro f _; exact ⟨f, rfl⟩
  | cons d ds ih =>
    intro f h
    obtain ⟨f', hf'⟩ := add_total mm f d h
    unfold addAll
    rw [hf']
    exact ih f' (by rw [(add_le mm hf').length]; exact h)

/-! ### the transaction loops -/

theorem anyOutput_true_iff (mm : Murmur) (f : Filter) : ∀ (outs : List Bytes),
    (∀ ph ∈ outs, ∃ r, «matches» mm f ph = some r) →
    ∃ r, anyOutput mm f outs = some r ∧ (r = true ↔ ∃ ph ∈ outs, «matches» mm f ph = some true) := by
  intro outs
  induction outs with
  | nil => intro _; exact ⟨false, rfl, by simp⟩
  | cons ph rest ih =>
    intro htot
    obtain ⟨r0, hr0⟩ := htot ph (by simp)
    obtain ⟨r, hr, hiff⟩ := ih (fun p hp => htot p (by simp [hp]))
    unfold anyOutput
    rw [hr0]
    cases r0
    · refine ⟨r, hr, ?_⟩
      rw [hiff]
      constructor
      · rintro ⟨p, hp, hm⟩; exact ⟨p, by simp [hp], hm⟩
      · rintro ⟨p, hp, hm⟩
        rcases List.mem_cons.mp hp with rfl | hp
        · rw [hr0] at hm; cases hm
        · exact ⟨p, hp, hm⟩
    · exact ⟨true, rfl, by simp; exact Or.inl hr0⟩

theorem anyInput_true_iff (mm : Murmur) (f : Filter) : ∀ (ins : List OutPoint),
    (∀ op ∈ ins, ∃ r, matchesOutPoint mm f op = some r) →
    ∃ r, anyInput mm f ins = some r ∧ (r = true ↔ ∃ op ∈ ins, matchesOutPoint mm f op = some true) := by
  intro ins
  induction ins with
  | nil => intro _; exact ⟨false, rfl, by simp⟩
  | cons op rest ih =>
    intro htot
    obtain ⟨r0, hr0⟩ := htot op (by simp)
    obtain ⟨r, hr, hiff⟩ := ih (fun p hp => htot p (by simp [hp]))
    unfold anyInput
    rw [hr0]
    cases r0
    · refine ⟨r, hr, ?_⟩
      rw [hiff]
      constructor
      · rintro ⟨p, hp, hm⟩; exact ⟨p, by simp [hp], hm⟩
      · rintro ⟨p, hp, hm⟩
        rcases List.mem_cons.mp hp with rfl | hp
        · rw [hr0] at hm; cases hm
        · exact ⟨p, hp, hm⟩
    · exact ⟨true, rfl, by simp; exact Or.inl hr0⟩

/-- Everything the output loop guarantees, in one induction:
    it does not panic, the filter only grows, `matched` only goes up, the
    outpoint of every output whose script hash matched the filter *at entry*
    is in the filter afterwards (and then the result is `true`), and if nothing
    matched the filter is untouched. -/
theorem outLoop_spec (mm : Murmur) (h : Bytes) : ∀ (outs : List Bytes) (i : Nat) (m : Bool) (f : Filter),
    f.bits.length < 2 ^ 29 →
    ∃ r g, outLoop mm h outs i m f = some (r, g) ∧ Le f g ∧ (m = true → r = true) ∧
      (∀ k ph, outs[k]? = some ph → «matches» mm f ph = some true →
          r = true ∧ «matches» mm g (opBytes h ((i + k) % 65536)) = some true) ∧
      ((∀ ph ∈ outs, «matches» mm f ph = some false) → r = m ∧ g = f) := by
  intro outs
  induction outs with
  | nil =>
    intro i m f _
    exact ⟨m, f, rfl, Le.refl _, id, by intro k ph hk; simp at hk, fun _ => ⟨rfl, rfl⟩⟩
  | cons ph rest ih =>
    intro i m f hlen
    obtain ⟨r0, hr0⟩ := matches_total mm f ph hlen
    cases r0
    · -- this output does not match: continue
      obtain ⟨r, g, hrun, hle, hm, hops, hnone⟩ := ih (i + 1) m f hlen
      refine ⟨r, g, by unfold outLoop; rw [hr0]; exact hrun, hle, hm, ?_, ?_⟩
      · intro k p hk hmp
        cases k with
        | zero => simp at hk; subst hk; rw [hr0] at hmp; cases hmp
        | succ k =>
          have := hops k p (by simpa using hk) hmp
          rw [show i + (k + 1) = i + 1 + k by omega]; exact this
      · intro hall
        exact hnone (fun p hp => hall p (by simp [hp]))
    · -- this output matches: matched = true, add its outpoint
      obtain ⟨f', hf'⟩ := add_total mm f (opBytes h (i % 65536)) hlen
      have hle' := add_le mm hf'
      obtain ⟨r, g, hrun, hle, hm, hops, _⟩ := ih (i + 1) true f' (by rw [hle'.length]; exact hlen)
      have hr : r = true := hm rfl
      refine ⟨r, g, by unfold outLoop; rw [hr0]; simp only []; rw [hf']; exact hrun, hle'.trans hle,
        fun _ => hr, ?_, ?_⟩
      · intro k p hk hmp
        cases k with
        | zero =>
          refine ⟨hr, ?_⟩
          have := add_matches mm hf'
          exact matches_mono mm hle (by simpa using this)
        | succ k =>
          have := hops k p (by simpa using hk) (matches_mono mm hle' hmp)
          rw [show i + (k + 1) = i + 1 + k by omega]; exact this
      · intro hall
        have := hall ph (by simp)
        rw [hr0] at this; cases this

theorem addAll_matches (mm : Murmur) : ∀ (ds : List Bytes) (f g : Filter), addAll mm f ds = some g →
    ∀ d ∈ ds, «matches» mm g d = some true := by
  intro ds
  induction ds with
  | nil => intro _ _ _ d hd; simp at hd
  | cons d0 ds ih =>
    intro f g h d hd
    unfold addAll at h
    split at h
    · cases h
    · rename_i f' hf'
      rcases List.mem_cons.mp hd with rfl | hd
      · exact matches_mono mm (addAll_le mm ds f' g h) (add_matches mm hf')
      · exact ih f' g h d hd

/-- `matchTxAndUpdate`, every branch: no panic, the filter only grows, and the
    return value is characterised against the filter *at entry*. -/
theorem matchTx_spec (mm : Murmur) (f : Filter) (tx : Tx) (hlen : f.bits.length < 2 ^ 29) :
    ∃ r g, matchTxAndUpdate mm f tx = some (r, g) ∧ Le f g ∧
      (f.tweak = 0xffffffff →
        g = f ∧ (r = true ↔ (tx.txType ∈ f.txTypes ∨
                  (f.bits.length ≠ 0 ∧ ∃ ph ∈ tx.outputs, «matches» mm f ph = some true)))) ∧
      (f.tweak ≠ 0xffffffff →
        (r = true ↔ («matches» mm f tx.hash = some true ∨
                     (∃ ph ∈ tx.outputs, «matches» mm f ph = some true) ∨
                     (∃ op ∈ tx.inputs, matchesOutPoint mm f op = some true))) ∧
        (∀ k ph, tx.outputs[k]? = some ph → «matches» mm f ph = some true →
            matchesOutPoint mm g ⟨tx.hash, k % 65536⟩ = some true)) := by
  obtain ⟨m, hm⟩ := matches_total mm f tx.hash hlen
  by_cases hside : f.tweak = 0xffffffff
  · -- side chain SPV filter
    by_cases htt : f.txTypes.length ≠ 0 ∧ f.txTypes.contains tx.txType = true
    · refine ⟨true, f, by unfold matchTxAndUpdate; rw [hm]; simp only [hside, if_true]; rw [if_pos htt],
        Le.refl _, fun _ => ⟨rfl, ?_⟩, fun h => absurd hside h⟩
      have : tx.txType ∈ f.txTypes := by simpa using htt.2
      simp [this]
    · have hnotmem : tx.txType ∉ f.txTypes := by
        intro hmem
        apply htt
        refine ⟨?_, by simpa using hmem⟩
        intro h0
        have : f.txTypes = [] := List.eq_nil_of_length_eq_zero h0
        rw [this] at hmem; simp at hmem
      by_cases hb : f.bits.length ≠ 0
      · obtain ⟨r, hr, hiff⟩ := anyOutput_true_iff mm f tx.outputs (fun ph _ => matches_total mm f ph hlen)
        refine ⟨r, f, by unfold matchTxAndUpdate; rw [hm]; simp only [hside, if_true]; rw [if_neg htt, if_pos hb, hr],
          Le.refl _, fun _ => ⟨rfl, ?_⟩, fun h => absurd hside h⟩
        rw [hiff]; simp [hnotmem, hb]
      · refine ⟨false, f, by unfold matchTxAndUpdate; rw [hm]; simp only [hside, if_true]; rw [if_neg htt, if_neg hb],
          Le.refl _, fun _ => ⟨rfl, ?_⟩, fun h => absurd hside h⟩
        simp [hnotmem, hb]
  · -- ordinary bloom filter
    obtain ⟨r1, g, hrun, hle, hmr, hops, hnone⟩ := outLoop_spec mm tx.hash tx.outputs 0 m f hlen
    have hglen : g.bits.length < 2 ^ 29 := by rw [hle.length]; exact hlen
    have hopsg : ∀ k ph, tx.outputs[k]? = some ph → «matches» mm f ph = some true →
        matchesOutPoint mm g ⟨tx.hash, k % 65536⟩ = some true := by
      intro k ph hk hmp
      have := (hops k ph hk hmp).2
      simpa [matchesOutPoint, OutPoint.bytes] using this
    cases r1
    · -- nothing matched so far: the filter is unchanged and the inputs decide
      have hmf : m = false := by cases m <;> simp_all
      have hno : ∀ ph ∈ tx.outputs, «matches» mm f ph = some false := by
        intro ph hph
        obtain ⟨k, hk, hkk⟩ := List.getElem_of_mem hph
        obtain ⟨r, hr⟩ := matches_total mm f ph hlen
        cases r
        · exact hr
        · have := (hops k ph (by rw [List.getElem?_eq_getElem hk, hkk]) hr).1
          cases this
      have hgf : g = f := (hnone hno).2
      subst hgf
      obtain ⟨r, hr, hiff⟩ := anyInput_true_iff mm g tx.inputs
        (fun op _ => matches_total mm g op.bytes hlen)
      refine ⟨r, g, by unfold matchTxAndUpdate; rw [hm]; simp only [hside, if_false]; rw [hrun]; simp only []; rw [hr],
        Le.refl _, fun h => absurd h hside, fun _ => ⟨?_, hopsg⟩⟩
      rw [hiff, hm, hmf]
      constructor
      · intro h; exact Or.inr (Or.inr h)
      · rintro (h | ⟨ph, hph, h⟩ | h)
        · cases h
        · rw [hno ph hph] at h; cases h
        · exact h
    · refine ⟨true, g, by unfold matchTxAndUpdate; rw [hm]; simp only [hside, if_false]; rw [hrun],
        hle, fun h => absurd h hside, fun _ => ⟨?_, hopsg⟩⟩
      simp only [true_iff]
      by_cases hall : ∀ ph ∈ tx.outputs, «matches» mm f ph = some false
      · have := (hnone hall).1
        left; rw [hm, ← this]
      · right; left
        have : ∃ ph ∈ tx.outputs, ¬ «matches» mm f ph = some false := by
          apply Classical.byContradiction
          intro hcon
          apply hall
          intro ph hph
          apply Classical.byContradiction
          intro hne
          exact hcon ⟨ph, hph, hne⟩
        obtain ⟨ph, hph, hne⟩ := this
        obtain ⟨r, hr⟩ := matches_total mm f ph hlen
        cases r
        · exact absurd hr hne
        · exact ⟨ph, hph, hr⟩

/-- the filters a peer's filter can evolve into: `filteradd` and matched transactions. -/
inductive Evolves (mm : Murmur) : Filter → Filter → Prop
  | refl (f : Filter) : Evolves mm f f
  | add {f g h : Filter} (d : Bytes) : Evolves mm f g → add mm g d = some h → Evolves mm f h
  | tx {f g h : Filter} (t : Tx) (r : Bool) : Evolves mm f g → matchTxAndUpdate mm g t = some (r, h) → Evolves mm f h

theorem Evolves.le {mm : Murmur} {f g : Filter} (hlen : f.bits.length < 2 ^ 29) (h : Evolves mm f g) : Le f g := by
  induction h with
  | refl => exact Le.refl _
  | add d _ hadd ih => exact ih.trans (add_le mm hadd)
  | @tx g' h' t r _ htx ih =>
    obtain ⟨r', g'', hrun, hle, _⟩ := matchTx_spec mm g' t (by rw [ih.length]; exact hlen)
    rw [htx] at hrun
    cases hrun
    exact ih.trans hle

/-! ### filters loaded from the wire -/

theorem loadFilter_bounds (b : Bytes) (f : Filter) (h : loadFilter b = some f) :
    f.bits.length ≤ maxFilterLoadFilterSize ∧ f.hashFuncs.toNat ≤ maxFilterLoadHashFuncs := by
  unfold loadFilter at h
  split at h
  · cases h
  · rename_i count r _
    split at h
    · cases h
    · rename_i hc
      split at h
      · cases h
      · rename_i hlen
        simp only [] at h
        split at h
        · cases h
        · rename_i hf r1 _
          split at h
          · cases h
          · rename_i tw r2 _
            split at h
            · cases h
            · rename_i hhf
              have hb : (r.take count).length ≤ maxFilterLoadFilterSize := by
                rw [List.length_take]; omega
              have hh : (UInt32.ofNat hf).toNat ≤ maxFilterLoadHashFuncs := by
                rw [UInt32.toNat_ofNat']
                have : hf % 2 ^ 32 ≤ hf := Nat.mod_le _ _
                omega
              split at h
              · cases h
              · split at h
                · cases h; exact ⟨hb, hh⟩
                · cases h
                · cases h; exact ⟨hb, hh⟩

/-! ### encoder / decoder of `filterload` -/

theorem leBytes_length (k n : Nat) : (leBytes k n).length = k := by
  induction k generalizing n with
  | zero => rfl
  | succ k ih => simp [leBytes, ih]

theorem readLE_leBytes (k : Nat) : ∀ (n : Nat) (r : Bytes), n < 256 ^ k → readLE k (leBytes k n ++ r) = some (n, r) := by
  induction k with
  | zero => intro n r h; simp at h; subst h; rfl
  | succ k ih =>
    intro n r h
    have h' : n / 256 < 256 ^ k := by
      rw [Nat.pow_succ] at h
      exact Nat.div_lt_of_lt_mul (by rw [Nat.mul_comm]; exact h)
    simp only [leBytes, List.cons_append, readLE, ih (n / 256) r h', UInt8.toNat_ofNat']
    congr 2
    omega

theorem readVarUint_write (n : Nat) (r : Bytes) (h : n < 2 ^ 64) :
    readVarUint (writeVarUint n ++ r) = .ok (n, r) := by
  unfold writeVarUint
  split
  · rename_i h1
    have hb : (UInt8.ofNat n).toNat = n := by rw [UInt8.toNat_ofNat']; omega
    have e1 : UInt8.ofNat n ≠ 0xff := by intro he; have := congrArg UInt8.toNat he; rw [hb] at this; simp at this; omega
    have e2 : UInt8.ofNat n ≠ 0xfe := by intro he; have := congrArg UInt8.toNat he; rw [hb] at this; simp at this; omega
    have e3 : UInt8.ofNat n ≠ 0xfd := by intro he; have := congrArg UInt8.toNat he; rw [hb] at this; simp at this; omega
    simp only [List.cons_append, List.nil_append, readVarUint, if_neg e1, if_neg e2, if_neg e3, hb]
  · rename_i h1
    split
    · rename_i h2
      have : readLE 2 (leBytes 2 n ++ r) = some (n, r) := readLE_leBytes 2 n r (by omega)
      simp only [List.cons_append, readVarUint, readVarWide, this]
      simp
      omega
    · rename_i h2
      split
      · rename_i h3
        have : readLE 4 (leBytes 4 n ++ r) = some (n, r) := readLE_leBytes 4 n r (by omega)
        simp only [List.cons_append, readVarUint, readVarWide, this]
        simp
        omega
      · rename_i h3
        have : readLE 8 (leBytes 8 n ++ r) = some (n, r) := readLE_leBytes 8 n r (by omega)
        simp only [List.cons_append, readVarUint, readVarWide, this]
        simp
        omega

theorem loadFilter_encode (f : Filter) (flags : UInt8) (hb : f.bits.length ≤ maxFilterLoadFilterSize)
    (hh : f.hashFuncs.toNat ≤ maxFilterLoadHashFuncs) (ht : f.txTypes.length < 2 ^ 64) :
    loadFilter (encodeFilterLoad f flags) = some f := by
  have hb64 : f.bits.length < 2 ^ 64 := by simp only [maxFilterLoadFilterSize] at hb; omega
  have h32a : f.hashFuncs.toNat < 256 ^ 4 := f.hashFuncs.toNat_lt
  have h32b : f.tweak.toNat < 256 ^ 4 := f.tweak.toNat_lt
  unfold encodeFilterLoad loadFilter
  simp only [List.append_assoc]
  rw [readVarUint_write _ _ hb64]
  simp only []
  rw [if_neg (by omega), if_neg (by simp)]
  have e1 : (f.bits ++ (leBytes 4 f.hashFuncs.toNat ++ (leBytes 4 f.tweak.toNat ++ ([flags] ++
      (writeVarUint f.txTypes.length ++ f.txTypes))))).take f.bits.length = f.bits := by simp
  have e2 : (f.bits ++ (leBytes 4 f.hashFuncs.toNat ++ (leBytes 4 f.tweak.toNat ++ ([flags] ++
      (writeVarUint f.txTypes.length ++ f.txTypes))))).drop f.bits.length =
      leBytes 4 f.hashFuncs.toNat ++ (leBytes 4 f.tweak.toNat ++ ([flags] ++
      (writeVarUint f.txTypes.length ++ f.txTypes))) := by simp
  rw [e1, e2, readLE_leBytes 4 _ _ h32a]
  simp only []
  rw [readLE_leBytes 4 _ _ h32b]
  simp only []
  rw [if_neg (by omega)]
  simp only [List.singleton_append]
  have e3 : readVarUint (writeVarUint f.txTypes.length ++ f.txTypes) = .ok (f.txTypes.length, f.txTypes) :=
    readVarUint_write _ _ ht
  rw [e3]
  simp only [List.take_length, UInt32.ofNat_toNat]

theorem writeVarUint_length (n : Nat) :
    (writeVarUint n).length = if n < 0xfd then 1 else if n ≤ 0xffff then 3 else if n ≤ 0xffffffff then 5 else 9 := by
  unfold writeVarUint
  repeat' split
  all_goals simp [leBytes_length]

theorem encodeFilterLoad_length (f : Filter) (flags : UInt8) :
    (encodeFilterLoad f flags).length =
      (writeVarUint f.bits.length).length + f.bits.length + 9 + (writeVarUint f.txTypes.length).length + f.txTypes.length := by
  simp only [encodeFilterLoad, List.length_append, leBytes_length, List.length_singleton]

end ElaVerif.Bloom
