import ElaVerif.Model.Fee
/-!
  Helper lemmas about `Fixed64` (wrapping `int64`) sums and the output total check.
  No property theorem lives here (those are in Props/C01.lean).
-/
namespace ElaVerif.Fixed64

theorem toInt_lo (x : Fixed64) : -9223372036854775808 ≤ toInt x := by
  have := BitVec.le_toInt x
  simp only [toInt]; omega

theorem toInt_hi (x : Fixed64) : toInt x < 9223372036854775808 := by
  have := @BitVec.toInt_lt 64 x
  simp only [toInt]; omega

/-- an integer already inside the int64 range is unchanged by the 64-bit wrap -/
theorem bmod_exact (z : Int) (h1 : -9223372036854775808 ≤ z) (h2 : z < 9223372036854775808) :
    z.bmod (2 ^ 64) = z := by
  rw [Int.bmod_def]
  have : ((2 ^ 64 : Nat) : Int) = 18446744073709551616 := by decide
  rw [this]
  split <;> omega

theorem bmod_cases (z : Int) :
    ∃ k : Int, z.bmod (2 ^ 64) = z + k * 18446744073709551616 := by
  rw [Int.bmod_def]
  have h : ((2 ^ 64 : Nat) : Int) = 18446744073709551616 := by decide
  rw [h]
  split
  · exact ⟨-(z / 18446744073709551616), by omega⟩
  · exact ⟨-(z / 18446744073709551616) - 1, by omega⟩

theorem toInt_ofInt (z : Int) : toInt (ofInt z) = z.bmod (2 ^ 64) := by
  simp [toInt, ofInt, BitVec.toInt_ofInt]

theorem ofInt_toInt (x : Fixed64) : ofInt (toInt x) = x := by
  simp [toInt, ofInt]

/-- the wrapping running total is the exact total reduced to 64 bits -/
theorem sumFrom_eq (acc : Fixed64) (xs : List Fixed64) :
    sumFrom acc xs = ofInt (toInt acc + sumZ xs) := by
  induction xs generalizing acc with
  | nil => simp [sumFrom, sumZ, ofInt_toInt]
  | cons x xs ih =>
    rw [sumFrom, ih, sumZ]
    unfold ofInt toInt
    rw [BitVec.ofInt_add, BitVec.ofInt_add, BitVec.ofInt_add, BitVec.ofInt_toInt, BitVec.ofInt_toInt,
      BitVec.ofInt_toInt, BitVec.add_assoc]

theorem sumW_eq (xs : List Fixed64) : sumW xs = ofInt (sumZ xs) := by
  unfold sumW
  rw [sumFrom_eq]
  simp [toInt]

theorem txFee_eq (outs refs : List Fixed64) :
    Fee.txFee outs refs = ofInt (sumZ refs - sumZ outs) := by
  unfold Fee.txFee
  rw [sumW_eq, sumW_eq]
  unfold ofInt
  rw [BitVec.sub_eq_iff_eq_add, ← BitVec.ofInt_add]
  congr 1
  omega

/-- the fee is exact as soon as both totals fit in the non-negative int64 range -/
theorem txFee_exact (outs refs : List Fixed64)
    (ho1 : 0 ≤ sumZ outs) (ho2 : sumZ outs < 9223372036854775808)
    (hr1 : 0 ≤ sumZ refs) (hr2 : sumZ refs < 9223372036854775808) :
    toInt (Fee.txFee outs refs) = sumZ refs - sumZ outs := by
  rw [txFee_eq, toInt_ofInt]
  apply bmod_exact <;> omega

theorem sumZ_nonneg (xs : List Fixed64) (h : ∀ x ∈ xs, 0 ≤ toInt x) : 0 ≤ sumZ xs := by
  induction xs with
  | nil => simp [sumZ]
  | cons x xs ih =>
    simp only [sumZ]
    have h1 := h x (by simp)
    have h2 := ih (fun y hy => h y (by simp [hy]))
    omega

/-- equal wrapped totals of two in-range exact totals are equal exact totals -/
theorem sumW_inj (as bs : List Fixed64)
    (ha1 : 0 ≤ sumZ as) (ha2 : sumZ as < 9223372036854775808)
    (hb1 : 0 ≤ sumZ bs) (hb2 : sumZ bs < 9223372036854775808)
    (h : sumW as = sumW bs) : sumZ as = sumZ bs := by
  have h' := congrArg toInt h
  rw [sumW_eq, sumW_eq, toInt_ofInt, toInt_ofInt] at h'
  rw [bmod_exact _ (by omega) (by omega), bmod_exact _ (by omega) (by omega)] at h'
  exact h'

theorem lt_iff (a b : Fixed64) : lt a b = true ↔ toInt a < toInt b := by
  simp [lt, toInt, BitVec.slt_iff_toInt_lt]

theorem lt_false_iff (a b : Fixed64) : lt a b = false ↔ toInt b ≤ toInt a := by
  have := lt_iff a b
  cases h : lt a b
  · simp [h] at this; simp; omega
  · simp [h] at this; simp; omega

theorem toInt_zero : toInt (0 : Fixed64) = 0 := by decide

theorem lt_zero_false (v : Fixed64) : lt v 0 = false ↔ 0 ≤ toInt v := by
  have h := lt_false_iff v 0
  have h0 : toInt (0 : Fixed64) = 0 := by decide
  rw [h0] at h
  exact h

theorem add_toInt_cases (a b : Fixed64) :
    toInt (a + b) = toInt a + toInt b ∨
    toInt (a + b) = toInt a + toInt b - 18446744073709551616 ∨
    toInt (a + b) = toInt a + toInt b + 18446744073709551616 := by
  have h := BitVec.toInt_add a b
  have ha1 := toInt_lo a; have ha2 := toInt_hi a
  have hb1 := toInt_lo b; have hb2 := toInt_hi b
  have hs1 := toInt_lo (a + b); have hs2 := toInt_hi (a + b)
  obtain ⟨k, hk⟩ := bmod_cases (a.toInt + b.toInt)
  simp only [toInt] at *
  rw [hk] at h
  omega

end ElaVerif.Fixed64

namespace ElaVerif.Fee
open ElaVerif.Fixed64

/-- soundness of the output total check: it accepts only vectors of non-negative
    amounts whose exact total (on top of a non-negative start) stays below 2^63 -/
theorem totalFrom_sound (acc : Fixed64) (outs : List Fixed64) (hacc : 0 ≤ toInt acc)
    (h : totalFrom acc outs = true) :
    (∀ o ∈ outs, 0 ≤ toInt o) ∧ toInt acc + sumZ outs < 9223372036854775808 := by
  induction outs generalizing acc with
  | nil =>
    have := toInt_hi acc
    simp [sumZ]; omega
  | cons v vs ih =>
    unfold totalFrom at h
    split at h
    · cases h
    · rename_i hv
      simp only [] at h
      split at h
      · cases h
      · rename_i hs
        have hv' : 0 ≤ toInt v := (lt_zero_false v).mp (by simpa using hv)
        have hs' : toInt acc ≤ toInt (acc + v) := (lt_false_iff (acc + v) acc).mp (by simpa using hs)
        have hv2 := toInt_hi v
        have ha2 := toInt_hi acc
        have hs2 := toInt_lo (acc + v)
        have hs3 := toInt_hi (acc + v)
        have hex : toInt (acc + v) = toInt acc + toInt v := by
          rcases add_toInt_cases acc v with h1 | h1 | h1 <;> omega
        have ⟨h1, h2⟩ := ih (acc + v) (by omega) h
        constructor
        · intro o ho
          simp only [List.mem_cons] at ho
          rcases ho with rfl | ho
          · exact hv'
          · exact h1 o ho
        · simp only [sumZ]; omega

/-- completeness: an honest output vector is never rejected by the total check -/
theorem totalFrom_complete (acc : Fixed64) (outs : List Fixed64) (hacc : 0 ≤ toInt acc)
    (hn : ∀ o ∈ outs, 0 ≤ toInt o) (hs : toInt acc + sumZ outs < 9223372036854775808) :
    totalFrom acc outs = true := by
  induction outs generalizing acc with
  | nil => simp [totalFrom]
  | cons v vs ih =>
    have hv := hn v (by simp)
    have hrest := sumZ_nonneg vs (fun y hy => hn y (by simp [hy]))
    simp only [sumZ] at hs
    have hex : toInt (acc + v) = toInt acc + toInt v := by
      have hv2 := toInt_hi v
      have ha2 := toInt_hi acc
      have hs2 := toInt_lo (acc + v)
      have hs3 := toInt_hi (acc + v)
      rcases add_toInt_cases acc v with h1 | h1 | h1 <;> omega
    unfold totalFrom
    have h1 : lt v 0 = false := (lt_zero_false v).mpr hv
    have h2 : lt (acc + v) acc = false := (lt_false_iff (acc + v) acc).mpr (by omega)
    simp only [h1, h2]
    simp
    exact ih (acc + v) (by omega) (fun y hy => hn y (by simp [hy])) (by omega)

theorem allNonneg_sound (outs : List Fixed64) (h : allNonneg outs = true) :
    ∀ o ∈ outs, 0 ≤ toInt o := by
  intro o ho
  unfold allNonneg at h
  rw [List.all_eq_true] at h
  have := h o ho
  exact (lt_zero_false o).mp (by simpa using this)

end ElaVerif.Fee
