import ElaVerif.Model.Ffldb
import ElaVerif.Lemmas.Treap
import ElaVerif.Lemmas.Ffldb
/-!
Forward walks of the ffldb cursor: if its two sources walk sorted lists, the
cursor walks their ordered merge with the transaction's pending changes
shadowing the snapshot side.
-/
namespace ElaVerif.Ffldb
open ElaVerif.OrdMap

abbrev E := Bytes × Bytes

/-- the iterator stands on the head of `l`, and `Next` walks the rest of `l` and then reports exhaustion -/
def Stream {α : Type} [ItOps α] : α → List E → Prop
  | it, [] => ItOps.key it = none
  | it, e :: l => ItOps.key it = some e.1 ∧ ItOps.value it = some e.2 ∧ Stream (ItOps.next it).1 l

/-- ordered merge of the snapshot side `ld` (entries shadowed by the transaction dropped) with the
    pending side `lp`; on equal keys the snapshot entry goes first (as `chooseIterator` does) -/
def mergeF (sh : Bytes → Bool) : List E → List E → List E
  | [], lp => lp
  | d :: ld, lp =>
    if sh d.1 then mergeF sh ld lp else
    match lp with
    | [] => d :: mergeF sh ld []
    | p :: lp' => if compare d.1 p.1 == Ordering.gt then p :: mergeF sh (d :: ld) lp' else d :: mergeF sh ld (p :: lp')
termination_by ld lp => ld.length + lp.length

theorem mergeF_cons (sh : Bytes → Bool) (d : E) (ld lp : List E) :
    mergeF sh (d :: ld) lp =
      if sh d.1 then mergeF sh ld lp else
      match lp with
      | [] => d :: mergeF sh ld []
      | p :: lp' => if compare d.1 p.1 == Ordering.gt then p :: mergeF sh (d :: ld) lp' else d :: mergeF sh ld (p :: lp') := by
  conv => lhs; unfold mergeF

theorem dropWhile_length_le {α : Type} (p : α → Bool) (l : List α) : (l.dropWhile p).length ≤ l.length := by
  induction l with
  | nil => simp
  | cons a l ih => simp only [List.dropWhile_cons]; split <;> simp <;> omega

theorem dropWhile_head_false {α : Type} (p : α → Bool) : ∀ (l : List α) (d : α) (rest : List α),
    l.dropWhile p = d :: rest → p d = false := by
  intro l
  induction l with
  | nil => intro d rest h; simp at h
  | cons a l ih =>
    intro d rest h
    simp only [List.dropWhile_cons] at h
    split at h
    · exact ih d rest h
    · rename_i hp
      simp only [List.cons.injEq] at h
      rw [← h.1]; simpa using hp

variable {δ π : Type} [ItOps δ] [ItOps π]

/-- the cursor stands on the head of `l` and `Next` walks the rest -/
def CStream (t : Tx) (fuel : Nat) : Cursor δ π → List E → Prop
  | c, [] => c.rawKey = none
  | c, e :: l => c.rawKey = some e.1 ∧ c.rawValue = some e.2 ∧ CStream t fuel (c.next t fuel).1 l

def shadow (t : Tx) (k : Bytes) : Bool := has t.premoves k || has t.pkeys k

theorem skip_go_spec (t : Tx) : ∀ (ld : List E) (d : δ) (fuel : Nat), Stream d ld → ld.length < fuel →
    Stream (Cursor.skip.go t true fuel d) (ld.dropWhile fun e => shadow t e.1) := by
  intro ld
  induction ld with
  | nil =>
    intro d fuel hs _
    cases fuel with
    | zero => simpa [Cursor.skip.go] using hs
    | succ f =>
      simp only [Stream] at hs
      simp [Cursor.skip.go, hs, Stream]
  | cons e ld ih =>
    intro d fuel hs hf
    cases fuel with
    | zero => simp at hf
    | succ f =>
      obtain ⟨h1, h2, h3⟩ := hs
      simp only [Cursor.skip.go, h1, List.dropWhile_cons]
      by_cases hsh : shadow t e.1 = true
      · have : (has t.premoves e.1 || has t.pkeys e.1) = true := hsh
        simp only [this, if_true, hsh]
        exact ih _ f h3 (by simp at hf; omega)
      · have : (has t.premoves e.1 || has t.pkeys e.1) = false := by simpa [shadow] using hsh
        simp only [this, Bool.false_eq_true, if_false, hsh]
        exact ⟨h1, h2, h3⟩

theorem mergeF_dropWhile (sh : Bytes → Bool) (ld lp : List E) :
    mergeF sh ld lp = mergeF sh (ld.dropWhile fun e => sh e.1) lp := by
  induction ld with
  | nil => rfl
  | cons d ld ih =>
    by_cases h : sh d.1 = true
    · rw [mergeF_cons]; simp only [h, if_true, List.dropWhile_cons]; exact ih
    · simp [List.dropWhile_cons, h]

/-- **forward walk.**  With the transaction unchanged during the walk: if the snapshot-side iterator
    walks `ld`, the pending-side iterator walks `lp`, and the cursor is in forward mode, then after
    `chooseIterator(true)` the cursor walks `mergeF (shadow t) ld lp`. -/
theorem choose_stream (t : Tx) (fuel : Nat) : ∀ (n : Nat) (ld lp : List E) (c : Cursor δ π),
    ld.length + lp.length ≤ n → ld.length < fuel → c.fwd = true →
    Stream c.db ld → Stream c.pend lp →
    CStream t fuel (c.choose t true fuel).1 (mergeF (shadow t) ld lp) := by
  intro n
  induction n with
  | zero =>
    intro ld lp c hn hf hfw hd hp
    have h1 : ld = [] := by cases ld <;> simp_all
    have h2 : lp = [] := by cases lp <;> simp_all
    subst h1 h2
    simp only [Stream] at hd hp
    have hsk : ItOps.key (c.skip t true fuel).db = none := by
      have := skip_go_spec t [] c.db fuel (by simpa [Stream] using hd) hf
      simpa [Stream, Cursor.skip] using this
    simp only [mergeF, CStream, Cursor.choose, hsk]
    have hp' : ItOps.key (c.skip t true fuel).pend = none := by simpa [Cursor.skip] using hp
    simp [hp', Cursor.rawKey]
  | succ n ih =>
    intro ld lp c hn hf hfw hd hp
    -- position of the snapshot side after skipping shadowed entries
    have hsk := skip_go_spec t ld c.db fuel hd hf
    rw [mergeF_dropWhile]
    generalize hld' : (ld.dropWhile fun e => shadow t e.1) = ld' at hsk ⊢
    have hlen : ld'.length ≤ ld.length := by
      rw [← hld']; exact dropWhile_length_le _ _
    have hhead : ∀ d rest, ld' = d :: rest → shadow t d.1 = false := by
      intro d rest he
      exact dropWhile_head_false (fun e : E => shadow t e.1) ld d rest (by rw [hld', he])
    -- the cursor after skipping
    have hdb : (c.skip t true fuel).db = Cursor.skip.go t true fuel c.db := rfl
    have hpend : (c.skip t true fuel).pend = c.pend := rfl
    have hfw' : (c.skip t true fuel).fwd = true := hfw
    generalize hc' : c.skip t true fuel = c' at hdb hpend hfw'
    rw [← hdb] at hsk
    unfold Cursor.choose
    simp only [hc']
    cases ld' with
    | nil =>
      simp only [Stream] at hsk
      cases lp with
      | nil =>
        simp only [Stream] at hp
        rw [← hpend] at hp
        simp [hsk, hp, mergeF, CStream, Cursor.rawKey]
      | cons p lp' =>
        obtain ⟨p1, p2, p3⟩ := hp
        rw [← hpend] at p1 p2 p3
        simp only [hsk, p1, mergeF, CStream]
        refine ⟨by simp [Cursor.rawKey, p1], by simp [Cursor.rawValue, p2], ?_⟩
        -- next: the pending side steps
        have hnext : ({ c' with cur := some false } : Cursor δ π).next t fuel =
            ({ c' with cur := some false, pend := (ItOps.next c'.pend).1 } : Cursor δ π).choose t true fuel := by
          simp [Cursor.next, hfw']
        rw [hnext]
        have := ih [] lp' ({ c' with cur := some false, pend := (ItOps.next c'.pend).1 } : Cursor δ π)
          (by simp at hn ⊢; omega) (by omega) hfw' (by simpa [Stream] using hsk) p3
        simpa [mergeF] using this
    | cons d rest =>
      have hnsh := hhead d rest rfl
      obtain ⟨d1, d2, d3⟩ := hsk
      cases lp with
      | nil =>
        simp only [Stream] at hp
        rw [← hpend] at hp
        rw [mergeF_cons]
        simp only [hnsh, Bool.false_eq_true, if_false, d1, hp, CStream]
        refine ⟨by simp [Cursor.rawKey, d1], by simp [Cursor.rawValue, d2], ?_⟩
        have hnext : ({ c' with cur := some true } : Cursor δ π).next t fuel =
            ({ c' with cur := some true, db := (ItOps.next c'.db).1 } : Cursor δ π).choose t true fuel := by
          simp [Cursor.next, hfw']
        rw [hnext]
        exact ih rest [] _ (by simp at hn hlen ⊢; omega) (by simp at hlen; omega) hfw' d3 (by simpa [Stream] using hp)
      | cons p lp' =>
        obtain ⟨p1, p2, p3⟩ := hp
        rw [← hpend] at p1 p2 p3
        rw [mergeF_cons]
        simp only [hnsh, Bool.false_eq_true, if_false, d1, p1, Bool.true_and, Bool.not_true, Bool.false_and, Bool.or_false]
        by_cases hgt : (compare d.1 p.1 == Ordering.gt) = true
        · simp only [hgt, if_true, CStream]
          refine ⟨by simp [Cursor.rawKey, p1], by simp [Cursor.rawValue, p2], ?_⟩
          have hnext : ({ c' with cur := some false } : Cursor δ π).next t fuel =
              ({ c' with cur := some false, pend := (ItOps.next c'.pend).1 } : Cursor δ π).choose t true fuel := by
            simp [Cursor.next, hfw']
          rw [hnext]
          have := ih (d :: rest) lp' ({ c' with cur := some false, pend := (ItOps.next c'.pend).1 } : Cursor δ π)
            (by simp at hn hlen ⊢; omega) (by simp at hlen ⊢; omega) hfw' ⟨d1, d2, d3⟩ p3
          exact this
        · simp only [hgt, Bool.false_eq_true, if_false, CStream]
          refine ⟨by simp [Cursor.rawKey, d1], by simp [Cursor.rawValue, d2], ?_⟩
          have hnext : ({ c' with cur := some true } : Cursor δ π).next t fuel =
              ({ c' with cur := some true, db := (ItOps.next c'.db).1 } : Cursor δ π).choose t true fuel := by
            simp [Cursor.next, hfw']
          rw [hnext]
          exact ih rest (p :: lp') _ (by simp at hn hlen ⊢; omega) (by simp at hlen; omega) hfw' d3 ⟨p1, p2, p3⟩


/-! ### backward walks (mirror image: `Prev`, descending lists) -/

/-- the iterator stands on the head of the DESCENDING list `l`, and `Prev` walks the rest -/
def BStream {α : Type} [ItOps α] : α → List E → Prop
  | it, [] => ItOps.key it = none
  | it, e :: l => ItOps.key it = some e.1 ∧ ItOps.value it = some e.2 ∧ BStream (ItOps.prev it).1 l

/-- ordered merge of the snapshot side `ld` (entries shadowed by the transaction dropped) with the
    pending side `lp`; lists in DESCENDING key order (a backward walk) -/
def mergeB (sh : Bytes → Bool) : List E → List E → List E
  | [], lp => lp
  | d :: ld, lp =>
    if sh d.1 then mergeB sh ld lp else
    match lp with
    | [] => d :: mergeB sh ld []
    | p :: lp' => if compare d.1 p.1 == Ordering.lt then p :: mergeB sh (d :: ld) lp' else d :: mergeB sh ld (p :: lp')
termination_by ld lp => ld.length + lp.length

theorem mergeB_cons (sh : Bytes → Bool) (d : E) (ld lp : List E) :
    mergeB sh (d :: ld) lp =
      if sh d.1 then mergeB sh ld lp else
      match lp with
      | [] => d :: mergeB sh ld []
      | p :: lp' => if compare d.1 p.1 == Ordering.lt then p :: mergeB sh (d :: ld) lp' else d :: mergeB sh ld (p :: lp') := by
  conv => lhs; unfold mergeB


/-- the cursor stands on the head of `l` and `Prev` walks the rest -/
def CBStream (t : Tx) (fuel : Nat) : Cursor δ π → List E → Prop
  | c, [] => c.rawKey = none
  | c, e :: l => c.rawKey = some e.1 ∧ c.rawValue = some e.2 ∧ CBStream t fuel (c.prev t fuel).1 l


theorem skip_go_spec_back (t : Tx) : ∀ (ld : List E) (d : δ) (fuel : Nat), BStream d ld → ld.length < fuel →
    BStream (Cursor.skip.go t false fuel d) (ld.dropWhile fun e => shadow t e.1) := by
  intro ld
  induction ld with
  | nil =>
    intro d fuel hs _
    cases fuel with
    | zero => simpa [Cursor.skip.go] using hs
    | succ f =>
      simp only [BStream] at hs
      simp [Cursor.skip.go, hs, BStream]
  | cons e ld ih =>
    intro d fuel hs hf
    cases fuel with
    | zero => simp at hf
    | succ f =>
      obtain ⟨h1, h2, h3⟩ := hs
      simp only [Cursor.skip.go, h1, List.dropWhile_cons]
      by_cases hsh : shadow t e.1 = true
      · have : (has t.premoves e.1 || has t.pkeys e.1) = true := hsh
        simp only [this, if_true, hsh]
        exact ih _ f h3 (by simp at hf; omega)
      · have : (has t.premoves e.1 || has t.pkeys e.1) = false := by simpa [shadow] using hsh
        simp only [this, Bool.false_eq_true, if_false, hsh]
        exact ⟨h1, h2, h3⟩

theorem mergeB_dropWhile (sh : Bytes → Bool) (ld lp : List E) :
    mergeB sh ld lp = mergeB sh (ld.dropWhile fun e => sh e.1) lp := by
  induction ld with
  | nil => rfl
  | cons d ld ih =>
    by_cases h : sh d.1 = true
    · rw [mergeB_cons]; simp only [h, if_true, List.dropWhile_cons]; exact ih
    · simp [List.dropWhile_cons, h]

/-- **forward walk.**  With the transaction unchanged during the walk: if the snapshot-side iterator
    walks `ld`, the pending-side iterator walks `lp`, and the cursor is in forward mode, then after
    `chooseIterator(true)` the cursor walks `mergeB (shadow t) ld lp`. -/
theorem choose_stream_back (t : Tx) (fuel : Nat) : ∀ (n : Nat) (ld lp : List E) (c : Cursor δ π),
    ld.length + lp.length ≤ n → ld.length < fuel → c.fwd = false →
    BStream c.db ld → BStream c.pend lp →
    CBStream t fuel (c.choose t false fuel).1 (mergeB (shadow t) ld lp) := by
  intro n
  induction n with
  | zero =>
    intro ld lp c hn hf hfw hd hp
    have h1 : ld = [] := by cases ld <;> simp_all
    have h2 : lp = [] := by cases lp <;> simp_all
    subst h1 h2
    simp only [BStream] at hd hp
    have hsk : ItOps.key (c.skip t false fuel).db = none := by
      have := skip_go_spec_back t [] c.db fuel (by simpa [BStream] using hd) hf
      simpa [BStream, Cursor.skip] using this
    simp only [mergeB, CBStream, Cursor.choose, hsk]
    have hp' : ItOps.key (c.skip t false fuel).pend = none := by simpa [Cursor.skip] using hp
    simp [hp', Cursor.rawKey]
  | succ n ih =>
    intro ld lp c hn hf hfw hd hp
    -- position of the snapshot side after skipping shadowed entries
    have hsk := skip_go_spec_back t ld c.db fuel hd hf
    rw [mergeB_dropWhile]
    generalize hld' : (ld.dropWhile fun e => shadow t e.1) = ld' at hsk ⊢
    have hlen : ld'.length ≤ ld.length := by
      rw [← hld']; exact dropWhile_length_le _ _
    have hhead : ∀ d rest, ld' = d :: rest → shadow t d.1 = false := by
      intro d rest he
      exact dropWhile_head_false (fun e : E => shadow t e.1) ld d rest (by rw [hld', he])
    -- the cursor after skipping
    have hdb : (c.skip t false fuel).db = Cursor.skip.go t false fuel c.db := rfl
    have hpend : (c.skip t false fuel).pend = c.pend := rfl
    have hfw' : (c.skip t false fuel).fwd = false := hfw
    generalize hc' : c.skip t false fuel = c' at hdb hpend hfw'
    rw [← hdb] at hsk
    unfold Cursor.choose
    simp only [hc']
    cases ld' with
    | nil =>
      simp only [BStream] at hsk
      cases lp with
      | nil =>
        simp only [BStream] at hp
        rw [← hpend] at hp
        simp [hsk, hp, mergeB, CBStream, Cursor.rawKey]
      | cons p lp' =>
        obtain ⟨p1, p2, p3⟩ := hp
        rw [← hpend] at p1 p2 p3
        simp only [hsk, p1, mergeB, CBStream]
        refine ⟨by simp [Cursor.rawKey, p1], by simp [Cursor.rawValue, p2], ?_⟩
        -- next: the pending side steps
        have hnext : ({ c' with cur := some false } : Cursor δ π).prev t fuel =
            ({ c' with cur := some false, pend := (ItOps.prev c'.pend).1 } : Cursor δ π).choose t false fuel := by
          simp [Cursor.prev, hfw']
        rw [hnext]
        have := ih [] lp' ({ c' with cur := some false, pend := (ItOps.prev c'.pend).1 } : Cursor δ π)
          (by simp at hn ⊢; omega) (by omega) hfw' (by simpa [BStream] using hsk) p3
        simpa [mergeB] using this
    | cons d rest =>
      have hnsh := hhead d rest rfl
      obtain ⟨d1, d2, d3⟩ := hsk
      cases lp with
      | nil =>
        simp only [BStream] at hp
        rw [← hpend] at hp
        rw [mergeB_cons]
        simp only [hnsh, Bool.false_eq_true, if_false, d1, hp, CBStream]
        refine ⟨by simp [Cursor.rawKey, d1], by simp [Cursor.rawValue, d2], ?_⟩
        have hnext : ({ c' with cur := some true } : Cursor δ π).prev t fuel =
            ({ c' with cur := some true, db := (ItOps.prev c'.db).1 } : Cursor δ π).choose t false fuel := by
          simp [Cursor.prev, hfw']
        rw [hnext]
        exact ih rest [] _ (by simp at hn hlen ⊢; omega) (by simp at hlen; omega) hfw' d3 (by simpa [BStream] using hp)
      | cons p lp' =>
        obtain ⟨p1, p2, p3⟩ := hp
        rw [← hpend] at p1 p2 p3
        rw [mergeB_cons]
        simp only [hnsh, Bool.false_eq_true, if_false, d1, p1, Bool.true_and, Bool.not_true, Bool.false_and, Bool.or_false, Bool.false_or, Bool.not_false]
        by_cases hgt : (compare d.1 p.1 == Ordering.lt) = true
        · simp only [hgt, if_true, CBStream]
          refine ⟨by simp [Cursor.rawKey, p1], by simp [Cursor.rawValue, p2], ?_⟩
          have hnext : ({ c' with cur := some false } : Cursor δ π).prev t fuel =
              ({ c' with cur := some false, pend := (ItOps.prev c'.pend).1 } : Cursor δ π).choose t false fuel := by
            simp [Cursor.prev, hfw']
          rw [hnext]
          have := ih (d :: rest) lp' ({ c' with cur := some false, pend := (ItOps.prev c'.pend).1 } : Cursor δ π)
            (by simp at hn hlen ⊢; omega) (by simp at hlen ⊢; omega) hfw' ⟨d1, d2, d3⟩ p3
          exact this
        · simp only [hgt, Bool.false_eq_true, if_false, CBStream]
          refine ⟨by simp [Cursor.rawKey, d1], by simp [Cursor.rawValue, d2], ?_⟩
          have hnext : ({ c' with cur := some true } : Cursor δ π).prev t fuel =
              ({ c' with cur := some true, db := (ItOps.prev c'.db).1 } : Cursor δ π).choose t false fuel := by
            simp [Cursor.prev, hfw']
          rw [hnext]
          exact ih rest (p :: lp') _ (by simp at hn hlen ⊢; omega) (by simp at hlen; omega) hfw' d3 ⟨p1, p2, p3⟩


/-! ### the same for `dbCacheIterator` (leveldb snapshot merged with the cache treap) -/

def shadowC (it : CacheIt) (k : Bytes) : Bool := has it.sr k || has it.sk k

theorem cur_of_stream_ldb {d : LdbIt} {e : E} {l : List E} (h : Stream d (e :: l)) : d.cur = some e := by
  obtain ⟨h1, h2, _⟩ := h
  have h1' : d.cur.map (·.1) = some e.1 := h1
  have h2' : d.cur.map (·.2) = some e.2 := h2
  cases hc : d.cur with
  | none => simp [hc] at h1'
  | some x => simp [hc] at h1' h2'; cases x; cases e; simp_all

theorem cur_of_stream_treap {d : TreapIt} {e : E} {l : List E} (h : Stream d (e :: l)) : d.cur = some e := by
  obtain ⟨h1, h2, _⟩ := h
  have h1' : d.cur.map (·.1) = some e.1 := h1
  have h2' : d.cur.map (·.2) = some e.2 := h2
  cases hc : d.cur with
  | none => simp [hc] at h1'
  | some x => simp [hc] at h1' h2'; cases x; cases e; simp_all

theorem cur_none_ldb {d : LdbIt} (h : Stream d []) : d.cur = none := by
  have h' : d.cur.map (·.1) = none := h
  cases hc : d.cur <;> simp_all

theorem cur_none_treap {d : TreapIt} (h : Stream d []) : d.cur = none := by
  have h' : d.cur.map (·.1) = none := h
  cases hc : d.cur <;> simp_all

theorem cskip_go_spec (it : CacheIt) : ∀ (ld : List E) (d : LdbIt) (fuel : Nat), Stream d ld → ld.length < fuel →
    Stream (CacheIt.skip.go it true fuel d) (ld.dropWhile fun e => shadowC it e.1) := by
  intro ld
  induction ld with
  | nil =>
    intro d fuel hs _
    have hc := cur_none_ldb hs
    cases fuel with
    | zero => simpa [CacheIt.skip.go] using hs
    | succ f => simpa [CacheIt.skip.go, hc] using hs
  | cons e ld ih =>
    intro d fuel hs hf
    cases fuel with
    | zero => simp at hf
    | succ f =>
      have hc := cur_of_stream_ldb hs
      obtain ⟨h1, h2, h3⟩ := hs
      simp only [CacheIt.skip.go, hc, List.dropWhile_cons]
      by_cases hsh : shadowC it e.1 = true
      · have : (has it.sr e.1 || has it.sk e.1) = true := hsh
        simp only [this, if_true, hsh]
        exact ih _ f h3 (by simp at hf; omega)
      · have : (has it.sr e.1 || has it.sk e.1) = false := by simpa [shadowC] using hsh
        simp only [this, Bool.false_eq_true, if_false, hsh]
        exact ⟨h1, h2, h3⟩

theorem shadowC_congr (a b : CacheIt) (h1 : a.sr = b.sr) (h2 : a.sk = b.sk) : shadowC a = shadowC b := by
  funext k; simp [shadowC, h1, h2]

theorem ldb_next_items (d : LdbIt) : (d.next).1.items = d.items := by
  unfold LdbIt.next
  cases d.pos with
  | soi => simp [LdbIt.first]; split <;> rfl
  | eoi => rfl
  | «at» i => simp only []; split <;> rfl

theorem cacheit_choose_stream : ∀ (n : Nat) (ld lc : List E) (it : CacheIt),
    ld.length + lc.length ≤ n → ld.length ≤ it.db.items.length → it.fwd = true →
    Stream it.db ld → Stream it.ci lc →
    Stream (it.choose true).1 (mergeF (shadowC it) ld lc) := by
  intro n
  induction n with
  | zero =>
    intro ld lc it hn hf hfw hd hp
    have h1 : ld = [] := by cases ld <;> simp_all
    have h2 : lc = [] := by cases lc <;> simp_all
    subst h1 h2
    have hsk := cskip_go_spec it [] it.db (it.db.items.length + 1) hd (by simp)
    have hsk' : (it.skip true).db.cur = none := cur_none_ldb (by simpa [CacheIt.skip] using hsk)
    have hp' : (it.skip true).ci.cur = none := cur_none_treap (by simpa [CacheIt.skip] using hp)
    simp only [mergeF, Stream, CacheIt.choose, hsk', hp']
    rfl
  | succ n ih =>
    intro ld lc it hn hf hfw hd hp
    have hsk := cskip_go_spec it ld it.db (it.db.items.length + 1) hd (by omega)
    rw [mergeF_dropWhile]
    generalize hld' : (ld.dropWhile fun e => shadowC it e.1) = ld' at hsk ⊢
    have hlen : ld'.length ≤ ld.length := by rw [← hld']; exact dropWhile_length_le _ _
    have hhead : ∀ d rest, ld' = d :: rest → shadowC it d.1 = false := by
      intro d rest he
      exact dropWhile_head_false (fun e : E => shadowC it e.1) ld d rest (by rw [hld', he])
    have hdb : (it.skip true).db = CacheIt.skip.go it true (it.db.items.length + 1) it.db := rfl
    have hci : (it.skip true).ci = it.ci := rfl
    have hfw' : (it.skip true).fwd = true := hfw
    have hsr : (it.skip true).sr = it.sr := rfl
    have hsk2 : (it.skip true).sk = it.sk := rfl
    -- the skipped leveldb iterator still iterates the same item list
    have hitems : (it.skip true).db.items = it.db.items := by
      rw [hdb]
      generalize it.db.items.length + 1 = fu
      generalize it.db = d0
      induction fu generalizing d0 with
      | zero => rfl
      | succ f ihf =>
        simp only [CacheIt.skip.go]
        cases d0.cur with
        | none => rfl
        | some x =>
          obtain ⟨k, v⟩ := x
          simp only []
          split
          · rw [ihf]; simp only [if_true]; exact ldb_next_items d0
          · rfl
    generalize hc' : it.skip true = it' at hdb hci hfw' hsr hsk2 hitems
    rw [← hdb] at hsk
    have hfun : ∀ (x : CacheIt), x.sr = it'.sr → x.sk = it'.sk → shadowC x = shadowC it :=
      fun x h1 h2 => shadowC_congr x it (h1.trans hsr) (h2.trans hsk2)
    unfold CacheIt.choose
    simp only [hc']
    cases ld' with
    | nil =>
      have hdn := cur_none_ldb hsk
      cases lc with
      | nil =>
        have hcn := cur_none_treap (d := it'.ci) (by rw [hci]; exact hp)
        simp only [hdn, hcn, mergeF, Stream]
        rfl
      | cons p lc' =>
        have hcc := cur_of_stream_treap (d := it'.ci) (by rw [hci]; exact hp)
        obtain ⟨p1, p2, p3⟩ := hp
        rw [← hci] at p1 p2 p3
        simp only [hdn, hcc, mergeF, Stream]
        refine ⟨by show (it'.ci.cur).map (·.1) = _; rw [hcc]; rfl, by show (it'.ci.cur).map (·.2) = _; rw [hcc]; rfl, ?_⟩
        have hnext : (ItOps.next ({ it' with cur := some false } : CacheIt)).1 =
            (({ it' with cur := some false, ci := it'.ci.next.1 } : CacheIt).choose true).1 := by
          simp [ItOps.next, hfw']
        rw [hnext]
        have := ih [] lc' ({ it' with cur := some false, ci := it'.ci.next.1 } : CacheIt)
          (by simp at hn ⊢; omega) (by simp) hfw' (by simpa [Stream] using hsk) p3
        rw [hfun ({ it' with cur := some false, ci := it'.ci.next.1 } : CacheIt) rfl rfl] at this
        simpa [mergeF] using this
    | cons d rest =>
      have hnsh := hhead d rest rfl
      have hdc := cur_of_stream_ldb hsk
      obtain ⟨d1, d2, d3⟩ := hsk
      have hrest : rest.length + 1 ≤ it.db.items.length := by simp at hlen; omega
      cases lc with
      | nil =>
        have hcn := cur_none_treap (d := it'.ci) (by rw [hci]; exact hp)
        rw [mergeF_cons]
        simp only [hnsh, Bool.false_eq_true, if_false, hdc, hcn, Stream]
        refine ⟨by show (it'.db.cur).map (·.1) = _; rw [hdc]; rfl, by show (it'.db.cur).map (·.2) = _; rw [hdc]; rfl, ?_⟩
        have hnext : (ItOps.next ({ it' with cur := some true } : CacheIt)).1 =
            (({ it' with cur := some true, db := it'.db.next.1 } : CacheIt).choose true).1 := by
          simp [ItOps.next, hfw']
        rw [hnext]
        have := ih rest [] ({ it' with cur := some true, db := it'.db.next.1 } : CacheIt)
          (by simp at hn hlen ⊢; omega) (by simp only [ldb_next_items, hitems]; omega) hfw' d3
          (by show Stream it'.ci []; rw [hci]; exact hp)
        rw [hfun ({ it' with cur := some true, db := it'.db.next.1 } : CacheIt) rfl rfl] at this
        exact this
      | cons p lc' =>
        have hcc := cur_of_stream_treap (d := it'.ci) (by rw [hci]; exact hp)
        obtain ⟨p1, p2, p3⟩ := hp
        rw [← hci] at p1 p2 p3
        rw [mergeF_cons]
        simp only [hnsh, Bool.false_eq_true, if_false, hdc, hcc, Bool.true_and, Bool.not_true, Bool.false_and, Bool.or_false]
        by_cases hgt : (compare d.1 p.1 == Ordering.gt) = true
        · simp only [hgt, if_true, Stream]
          refine ⟨by show (it'.ci.cur).map (·.1) = _; rw [hcc]; rfl, by show (it'.ci.cur).map (·.2) = _; rw [hcc]; rfl, ?_⟩
          have hnext : (ItOps.next ({ it' with cur := some false } : CacheIt)).1 =
              (({ it' with cur := some false, ci := it'.ci.next.1 } : CacheIt).choose true).1 := by
            simp [ItOps.next, hfw']
          rw [hnext]
          have := ih (d :: rest) lc' ({ it' with cur := some false, ci := it'.ci.next.1 } : CacheIt)
            (by simp at hn hlen ⊢; omega) (by simp only [hitems]; simpa using hrest) hfw' ⟨d1, d2, d3⟩ p3
          rw [hfun ({ it' with cur := some false, ci := it'.ci.next.1 } : CacheIt) rfl rfl] at this
          exact this
        · simp only [hgt, Bool.false_eq_true, if_false, Stream]
          refine ⟨by show (it'.db.cur).map (·.1) = _; rw [hdc]; rfl, by show (it'.db.cur).map (·.2) = _; rw [hdc]; rfl, ?_⟩
          have hnext : (ItOps.next ({ it' with cur := some true } : CacheIt)).1 =
              (({ it' with cur := some true, db := it'.db.next.1 } : CacheIt).choose true).1 := by
            simp [ItOps.next, hfw']
          rw [hnext]
          have := ih rest (p :: lc') ({ it' with cur := some true, db := it'.db.next.1 } : CacheIt)
            (by simp at hn hlen ⊢; omega) (by simp only [ldb_next_items, hitems]; omega) hfw' d3
            ⟨p1, p2, p3⟩
          rw [hfun ({ it' with cur := some true, db := it'.db.next.1 } : CacheIt) rfl rfl] at this
          exact this

/-! ### … and backwards -/

theorem cur_of_stream_ldb_b {d : LdbIt} {e : E} {l : List E} (h : BStream d (e :: l)) : d.cur = some e := by
  obtain ⟨h1, h2, _⟩ := h
  have h1' : d.cur.map (·.1) = some e.1 := h1
  have h2' : d.cur.map (·.2) = some e.2 := h2
  cases hc : d.cur with
  | none => simp [hc] at h1'
  | some x => simp [hc] at h1' h2'; cases x; cases e; simp_all

theorem cur_of_stream_treap_b {d : TreapIt} {e : E} {l : List E} (h : BStream d (e :: l)) : d.cur = some e := by
  obtain ⟨h1, h2, _⟩ := h
  have h1' : d.cur.map (·.1) = some e.1 := h1
  have h2' : d.cur.map (·.2) = some e.2 := h2
  cases hc : d.cur with
  | none => simp [hc] at h1'
  | some x => simp [hc] at h1' h2'; cases x; cases e; simp_all

theorem cur_none_ldb_b {d : LdbIt} (h : BStream d []) : d.cur = none := by
  have h' : d.cur.map (·.1) = none := h
  cases hc : d.cur <;> simp_all

theorem cur_none_treap_b {d : TreapIt} (h : BStream d []) : d.cur = none := by
  have h' : d.cur.map (·.1) = none := h
  cases hc : d.cur <;> simp_all

theorem cskip_go_spec_b (it : CacheIt) : ∀ (ld : List E) (d : LdbIt) (fuel : Nat), BStream d ld → ld.length < fuel →
    BStream (CacheIt.skip.go it false fuel d) (ld.dropWhile fun e => shadowC it e.1) := by
  intro ld
  induction ld with
  | nil =>
    intro d fuel hs _
    have hc := cur_none_ldb_b hs
    cases fuel with
    | zero => simpa [CacheIt.skip.go] using hs
    | succ f => simpa [CacheIt.skip.go, hc] using hs
  | cons e ld ih =>
    intro d fuel hs hf
    cases fuel with
    | zero => simp at hf
    | succ f =>
      have hc := cur_of_stream_ldb_b hs
      obtain ⟨h1, h2, h3⟩ := hs
      simp only [CacheIt.skip.go, hc, List.dropWhile_cons]
      by_cases hsh : shadowC it e.1 = true
      · have : (has it.sr e.1 || has it.sk e.1) = true := hsh
        simp only [this, if_true, hsh]
        exact ih _ f h3 (by simp at hf; omega)
      · have : (has it.sr e.1 || has it.sk e.1) = false := by simpa [shadowC] using hsh
        simp only [this, Bool.false_eq_true, if_false, hsh]
        exact ⟨h1, h2, h3⟩

theorem ldb_next_items_b (d : LdbIt) : (d.prev).1.items = d.items := by
  unfold LdbIt.prev
  cases d.pos with
  | soi => rfl
  | eoi => simp [LdbIt.last]; split <;> rfl
  | «at» i => simp only []; split <;> rfl

theorem cacheit_choose_stream_b : ∀ (n : Nat) (ld lc : List E) (it : CacheIt),
    ld.length + lc.length ≤ n → ld.length ≤ it.db.items.length → it.fwd = false →
    BStream it.db ld → BStream it.ci lc →
    BStream (it.choose false).1 (mergeB (shadowC it) ld lc) := by
  intro n
  induction n with
  | zero =>
    intro ld lc it hn hf hfw hd hp
    have h1 : ld = [] := by cases ld <;> simp_all
    have h2 : lc = [] := by cases lc <;> simp_all
    subst h1 h2
    have hsk := cskip_go_spec_b it [] it.db (it.db.items.length + 1) hd (by simp)
    have hsk' : (it.skip false).db.cur = none := cur_none_ldb_b (by simpa [CacheIt.skip] using hsk)
    have hp' : (it.skip false).ci.cur = none := cur_none_treap_b (by simpa [CacheIt.skip] using hp)
    simp only [mergeB, BStream, CacheIt.choose, hsk', hp']
    rfl
  | succ n ih =>
    intro ld lc it hn hf hfw hd hp
    have hsk := cskip_go_spec_b it ld it.db (it.db.items.length + 1) hd (by omega)
    rw [mergeB_dropWhile]
    generalize hld' : (ld.dropWhile fun e => shadowC it e.1) = ld' at hsk ⊢
    have hlen : ld'.length ≤ ld.length := by rw [← hld']; exact dropWhile_length_le _ _
    have hhead : ∀ d rest, ld' = d :: rest → shadowC it d.1 = false := by
      intro d rest he
      exact dropWhile_head_false (fun e : E => shadowC it e.1) ld d rest (by rw [hld', he])
    have hdb : (it.skip false).db = CacheIt.skip.go it false (it.db.items.length + 1) it.db := rfl
    have hci : (it.skip false).ci = it.ci := rfl
    have hfw' : (it.skip false).fwd = false := hfw
    have hsr : (it.skip false).sr = it.sr := rfl
    have hsk2 : (it.skip false).sk = it.sk := rfl
    -- the skipped leveldb iterator still iterates the same item list
    have hitems : (it.skip false).db.items = it.db.items := by
      rw [hdb]
      generalize it.db.items.length + 1 = fu
      generalize it.db = d0
      induction fu generalizing d0 with
      | zero => rfl
      | succ f ihf =>
        simp only [CacheIt.skip.go]
        cases d0.cur with
        | none => rfl
        | some x =>
          obtain ⟨k, v⟩ := x
          simp only []
          split
          · rw [ihf]; simp only [Bool.false_eq_true, if_false]; exact ldb_next_items_b d0
          · rfl
    generalize hc' : it.skip false = it' at hdb hci hfw' hsr hsk2 hitems
    rw [← hdb] at hsk
    have hfun : ∀ (x : CacheIt), x.sr = it'.sr → x.sk = it'.sk → shadowC x = shadowC it :=
      fun x h1 h2 => shadowC_congr x it (h1.trans hsr) (h2.trans hsk2)
    unfold CacheIt.choose
    simp only [hc']
    cases ld' with
    | nil =>
      have hdn := cur_none_ldb_b hsk
      cases lc with
      | nil =>
        have hcn := cur_none_treap_b (d := it'.ci) (by rw [hci]; exact hp)
        simp only [hdn, hcn, mergeB, BStream]
        rfl
      | cons p lc' =>
        have hcc := cur_of_stream_treap_b (d := it'.ci) (by rw [hci]; exact hp)
        obtain ⟨p1, p2, p3⟩ := hp
        rw [← hci] at p1 p2 p3
        simp only [hdn, hcc, mergeB, BStream]
        refine ⟨by show (it'.ci.cur).map (·.1) = _; rw [hcc]; rfl, by show (it'.ci.cur).map (·.2) = _; rw [hcc]; rfl, ?_⟩
        have hnext : (ItOps.prev ({ it' with cur := some false } : CacheIt)).1 =
            (({ it' with cur := some false, ci := it'.ci.prev.1 } : CacheIt).choose false).1 := by
          simp [ItOps.prev, hfw']
        rw [hnext]
        have := ih [] lc' ({ it' with cur := some false, ci := it'.ci.prev.1 } : CacheIt)
          (by simp at hn ⊢; omega) (by simp) hfw' (by simpa [BStream] using hsk) p3
        rw [hfun ({ it' with cur := some false, ci := it'.ci.prev.1 } : CacheIt) rfl rfl] at this
        simpa [mergeB] using this
    | cons d rest =>
      have hnsh := hhead d rest rfl
      have hdc := cur_of_stream_ldb_b hsk
      obtain ⟨d1, d2, d3⟩ := hsk
      have hrest : rest.length + 1 ≤ it.db.items.length := by simp at hlen; omega
      cases lc with
      | nil =>
        have hcn := cur_none_treap_b (d := it'.ci) (by rw [hci]; exact hp)
        rw [mergeB_cons]
        simp only [hnsh, Bool.false_eq_true, if_false, hdc, hcn, BStream]
        refine ⟨by show (it'.db.cur).map (·.1) = _; rw [hdc]; rfl, by show (it'.db.cur).map (·.2) = _; rw [hdc]; rfl, ?_⟩
        have hnext : (ItOps.prev ({ it' with cur := some true } : CacheIt)).1 =
            (({ it' with cur := some true, db := it'.db.prev.1 } : CacheIt).choose false).1 := by
          simp [ItOps.prev, hfw']
        rw [hnext]
        have := ih rest [] ({ it' with cur := some true, db := it'.db.prev.1 } : CacheIt)
          (by simp at hn hlen ⊢; omega) (by simp only [ldb_next_items_b, hitems]; omega) hfw' d3
          (by show BStream it'.ci []; rw [hci]; exact hp)
        rw [hfun ({ it' with cur := some true, db := it'.db.prev.1 } : CacheIt) rfl rfl] at this
        exact this
      | cons p lc' =>
        have hcc := cur_of_stream_treap_b (d := it'.ci) (by rw [hci]; exact hp)
        obtain ⟨p1, p2, p3⟩ := hp
        rw [← hci] at p1 p2 p3
        rw [mergeB_cons]
        simp only [hnsh, Bool.false_eq_true, if_false, hdc, hcc, Bool.true_and, Bool.not_true, Bool.false_and, Bool.or_false, Bool.false_or, Bool.not_false]
        by_cases hgt : (compare d.1 p.1 == Ordering.lt) = true
        · simp only [hgt, if_true, BStream]
          refine ⟨by show (it'.ci.cur).map (·.1) = _; rw [hcc]; rfl, by show (it'.ci.cur).map (·.2) = _; rw [hcc]; rfl, ?_⟩
          have hnext : (ItOps.prev ({ it' with cur := some false } : CacheIt)).1 =
              (({ it' with cur := some false, ci := it'.ci.prev.1 } : CacheIt).choose false).1 := by
            simp [ItOps.prev, hfw']
          rw [hnext]
          have := ih (d :: rest) lc' ({ it' with cur := some false, ci := it'.ci.prev.1 } : CacheIt)
            (by simp at hn hlen ⊢; omega) (by simp only [hitems]; simpa using hrest) hfw' ⟨d1, d2, d3⟩ p3
          rw [hfun ({ it' with cur := some false, ci := it'.ci.prev.1 } : CacheIt) rfl rfl] at this
          exact this
        · simp only [hgt, Bool.false_eq_true, if_false, BStream]
          refine ⟨by show (it'.db.cur).map (·.1) = _; rw [hdc]; rfl, by show (it'.db.cur).map (·.2) = _; rw [hdc]; rfl, ?_⟩
          have hnext : (ItOps.prev ({ it' with cur := some true } : CacheIt)).1 =
              (({ it' with cur := some true, db := it'.db.prev.1 } : CacheIt).choose false).1 := by
            simp [ItOps.prev, hfw']
          rw [hnext]
          have := ih rest (p :: lc') ({ it' with cur := some true, db := it'.db.prev.1 } : CacheIt)
            (by simp at hn hlen ⊢; omega) (by simp only [ldb_next_items_b, hitems]; omega) hfw' d3
            ⟨p1, p2, p3⟩
          rw [hfun ({ it' with cur := some true, db := it'.db.prev.1 } : CacheIt) rfl rfl] at this
          exact this


/-! ### the leaf iterators walk their lists -/

theorem ldbit_stream_from : ∀ (l pre : List E),
    Stream ({ items := pre ++ l, pos := if l.isEmpty then Pos.eoi else Pos.at pre.length } : LdbIt) l := by
  intro l
  induction l with
  | nil => intro pre; simp [Stream, ItOps.key, LdbIt.cur]
  | cons e l ih =>
    intro pre
    have hcur : ({ items := pre ++ e :: l, pos := Pos.at pre.length } : LdbIt).cur = some e := by
      simp [LdbIt.cur]
    refine ⟨by simp [ItOps.key, hcur], by simp [ItOps.value, hcur], ?_⟩
    have := ih (pre ++ [e])
    simp only [List.append_assoc, List.singleton_append, List.length_append, List.length_singleton] at this
    show Stream (LdbIt.next _).1 l
    simp only [List.isEmpty_cons, Bool.false_eq_true, if_false, LdbIt.next, List.length_append, List.length_cons]
    cases l with
    | nil => simpa using this
    | cons b l' =>
      have hlt : pre.length + 1 < pre.length + (l'.length + 1 + 1) := by omega
      simpa [hlt] using this

theorem ldbit_first_stream (it : LdbIt) : Stream (ItOps.first it).1 it.items := by
  show Stream (LdbIt.first it).1 it.items
  have := ldbit_stream_from it.items []
  unfold LdbIt.first
  cases h : it.items with
  | nil => simp [Stream, ItOps.key, LdbIt.cur]
  | cons e l =>
    rw [h] at this
    simpa [h] using this

theorem ceil_eq_dropWhile (k : Bytes) (m : Map) :
    ceil k false m = (m.dropWhile fun x => compare x.1 k == Ordering.lt).head? := by
  induction m with
  | nil => rfl
  | cons a m ih =>
    obtain ⟨ak, av⟩ := a
    rcases ElaVerif.Treap.cmp_cases k ak with hc | hc | hc
    · have : compare ak k = .gt := ElaVerif.Treap.cmp_gt_of_lt hc
      simp [ceil, hc, List.dropWhile_cons, this]
    · have := ElaVerif.Treap.cmp_eq hc; subst this
      simp [ceil, hc, List.dropWhile_cons]
    · have : compare ak k = .lt := ElaVerif.Treap.cmp_lt_of_gt hc
      simp [ceil, hc, List.dropWhile_cons, this, ih]

/-- a treap iterator standing on `e` walks the rest of the sorted contents while they are in range -/
theorem treapit_stream_from : ∀ (B A : Map) (e : E) (it : TreapIt),
    Sorted (A ++ e :: B) → it.items = A ++ e :: B → it.cur = some e → it.isNew = false →
    Stream it (e :: B.takeWhile fun x => inRange it.start it.limit x.1) := by
  intro B
  induction B with
  | nil =>
    intro A e it hs hi hc hn
    refine ⟨by simp [ItOps.key, hc], by simp [ItOps.value, hc], ?_⟩
    show Stream (TreapIt.next it).1 []
    have hA : ∀ a ∈ A, compare e.1 a.1 = .gt := by
      intro a ha
      exact ElaVerif.Treap.cmp_gt_of_lt ((ElaVerif.Treap.sorted_append_cons.mp hs).2.2.1 a ha)
    have hceil := ElaVerif.Treap.ceil_append_eq e.1 true A [] e hA (ElaVerif.Treap.cmp_self _)
    simp [TreapIt.next, hn, hc, hi, hceil, TreapIt.land, Stream, ItOps.key]
  | cons b B ih =>
    intro A e it hs hi hc hn
    refine ⟨by simp [ItOps.key, hc], by simp [ItOps.value, hc], ?_⟩
    show Stream (TreapIt.next it).1 _
    have hA : ∀ a ∈ A, compare e.1 a.1 = .gt := by
      intro a ha
      exact ElaVerif.Treap.cmp_gt_of_lt ((ElaVerif.Treap.sorted_append_cons.mp hs).2.2.1 a ha)
    have hceil := ElaVerif.Treap.ceil_append_eq e.1 true A (b :: B) e hA (ElaVerif.Treap.cmp_self _)
    simp only [TreapIt.next, hn, Bool.false_eq_true, if_false, hc, hi, hceil, if_true, List.head?_cons, TreapIt.land,
      List.takeWhile_cons]
    by_cases hr : inRange it.start it.limit b.1 = true
    · simp only [hr, if_true]
      have hs' : Sorted ((A ++ [e]) ++ b :: B) := by simpa using hs
      let it2 : TreapIt := { items := A ++ e :: b :: B, start := it.start, limit := it.limit, cur := some b, isNew := false, live := it.live }
      have := ih (A ++ [e]) b it2 hs' (by simp [it2]) rfl rfl
      simpa using this
    · simp [hr, Stream, ItOps.key]

/-- the contents of a sorted map from `s` on, as long as they stay in `[s, limit)` -/
def rangeList (s : Bytes) (limit : Option Bytes) (m : Map) : Map :=
  (m.dropWhile fun x => compare x.1 s == Ordering.lt).takeWhile fun x => inRange (some s) limit x.1

theorem treapit_first_stream (it : TreapIt) (s : Bytes) (hstart : it.start = some s) (hs : Sorted it.items) :
    Stream (ItOps.first it).1 (rangeList s it.limit it.items) := by
  show Stream (TreapIt.first it).1 _
  unfold TreapIt.first rangeList
  simp only [hstart, ceil_eq_dropWhile]
  have hsplit := List.takeWhile_append_dropWhile (p := fun x : E => compare x.1 s == Ordering.lt) (l := it.items)
  generalize hA : (it.items.takeWhile fun x => compare x.1 s == Ordering.lt) = A at hsplit
  generalize hD : (it.items.dropWhile fun x => compare x.1 s == Ordering.lt) = D at hsplit
  cases D with
  | nil => simp [TreapIt.land, Stream, ItOps.key]
  | cons e B =>
    simp only [List.head?_cons, TreapIt.land, List.takeWhile_cons, hstart]
    by_cases hr : inRange (some s) it.limit e.1 = true
    · simp only [hr, if_true]
      have := treapit_stream_from B A e { it with isNew := false, cur := some e }
        (by rw [hsplit]; exact hs) (by simp [hsplit]) rfl rfl
      simpa [hstart] using this
    · simp [hr, Stream, ItOps.key]

theorem mergeF_length_le (sh : Bytes → Bool) : ∀ (n : Nat) (ld lp : List E), ld.length + lp.length ≤ n →
    (mergeF sh ld lp).length ≤ ld.length + lp.length := by
  intro n
  induction n with
  | zero =>
    intro ld lp h
    have h1 : ld = [] := by cases ld <;> simp_all
    subst h1; simp [mergeF]
  | succ n ih =>
    intro ld lp h
    cases ld with
    | nil => simp [mergeF]
    | cons d ld =>
      rw [mergeF_cons]
      split
      · have := ih ld lp (by simp at h; omega); simp; omega
      · cases lp with
        | nil => have := ih ld [] (by simp at h; omega); simp at this ⊢; omega
        | cons p lp' =>
          simp only []
          split
          · have := ih (d :: ld) lp' (by simp at h ⊢; omega); simp at this ⊢; omega
          · have := ih ld (p :: lp') (by simp at h ⊢; omega); simp at this ⊢; omega

theorem mergeB_length_le (sh : Bytes → Bool) : ∀ (n : Nat) (ld lp : List E), ld.length + lp.length ≤ n →
    (mergeB sh ld lp).length ≤ ld.length + lp.length := by
  intro n
  induction n with
  | zero =>
    intro ld lp h
    have h1 : ld = [] := by cases ld <;> simp_all
    subst h1; simp [mergeB]
  | succ n ih =>
    intro ld lp h
    cases ld with
    | nil => simp [mergeB]
    | cons d ld =>
      rw [mergeB_cons]
      split
      · have := ih ld lp (by simp at h; omega); simp; omega
      · cases lp with
        | nil => have := ih ld [] (by simp at h; omega); simp at this ⊢; omega
        | cons p lp' =>
          simp only []
          split
          · have := ih (d :: ld) lp' (by simp at h ⊢; omega); simp at this ⊢; omega
          · have := ih ld (p :: lp') (by simp at h ⊢; omega); simp at this ⊢; omega

/-! ### `Seek` of the leaf iterators -/

theorem findIdx_spec {α : Type} (p : α → Bool) : ∀ (l : List α),
    l.findIdx? p = if (l.dropWhile fun x => !p x).isEmpty then none else some (l.takeWhile fun x => !p x).length := by
  intro l
  induction l with
  | nil => rfl
  | cons a l ih =>
    rw [List.findIdx?_cons]
    by_cases h : p a = true
    · simp [h, List.dropWhile_cons, List.takeWhile_cons]
    · have h' : p a = false := by simpa using h
      simp only [h', Bool.false_eq_true, if_false, ih, List.dropWhile_cons, List.takeWhile_cons, Bool.not_false, if_true]
      split <;> simp

theorem ldbit_seek_stream (it : LdbIt) (k : Bytes) :
    Stream (ItOps.seek it k).1 (it.items.dropWhile fun e => compare e.1 k == Ordering.lt) := by
  show Stream (LdbIt.seek it k).1 _
  unfold LdbIt.seek
  have hp : (fun e : E => !(compare e.1 k != Ordering.lt)) = fun e => compare e.1 k == Ordering.lt := by
    funext e; cases compare e.1 k <;> rfl
  rw [findIdx_spec, hp]
  have hsplit := List.takeWhile_append_dropWhile (p := fun e : E => compare e.1 k == Ordering.lt) (l := it.items)
  generalize hA : (it.items.takeWhile fun e => compare e.1 k == Ordering.lt) = A at hsplit ⊢
  generalize hD : (it.items.dropWhile fun e => compare e.1 k == Ordering.lt) = D at hsplit ⊢
  have := ldbit_stream_from D A
  rw [hsplit] at this
  cases D with
  | nil => simpa [Stream, ItOps.key, LdbIt.cur] using this
  | cons d D' => simpa using this

/-- the contents of a sorted map from `k'` on, as long as they stay in `[s, limit)` -/
def rangeListFrom (k' s : Bytes) (limit : Option Bytes) (m : Map) : Map :=
  (m.dropWhile fun x => compare x.1 k' == Ordering.lt).takeWhile fun x => inRange (some s) limit x.1

/-- `Seek` of the treap-backed leveldb-iterator wrappers (`ldbTreapIter`, `ldbCacheIter`): a key before
    the range is clamped to its start -/
theorem treapit_seek_stream (it : TreapIt) (s k : Bytes) (hstart : it.start = some s) (hs : Sorted it.items) :
    Stream (ItOps.seek it k).1
      (rangeListFrom (if compare k s == Ordering.lt then s else k) s it.limit it.items) := by
  show Stream (TreapIt.seek it k).1 _
  unfold TreapIt.seek rangeListFrom
  simp only [hstart, ceil_eq_dropWhile]
  generalize (if compare k s == Ordering.lt then s else k) = k'
  have hsplit := List.takeWhile_append_dropWhile (p := fun x : E => compare x.1 k' == Ordering.lt) (l := it.items)
  generalize hA : (it.items.takeWhile fun x => compare x.1 k' == Ordering.lt) = A at hsplit
  generalize hD : (it.items.dropWhile fun x => compare x.1 k' == Ordering.lt) = D at hsplit
  cases D with
  | nil => simp [TreapIt.land, Stream, ItOps.key]
  | cons e B =>
    simp only [List.head?_cons, TreapIt.land, List.takeWhile_cons, hstart]
    by_cases hr : inRange (some s) it.limit e.1 = true
    · simp only [hr, if_true]
      have := treapit_stream_from B A e { it with isNew := false, cur := some e }
        (by rw [hsplit]; exact hs) (by simp [hsplit]) rfl rfl
      simpa [hstart] using this
    · simp [hr, Stream, ItOps.key]

/-! ### `Last` / `Prev` of the leaf iterators -/

theorem ldbit_bstream_from : ∀ (r post : List E),
    BStream ({ items := r.reverse ++ post, pos := if r.isEmpty then Pos.soi else Pos.at (r.length - 1) } : LdbIt) r := by
  intro r
  induction r with
  | nil => intro post; simp [BStream, ItOps.key, LdbIt.cur]
  | cons e r ih =>
    intro post
    have hitems : (e :: r).reverse ++ post = r.reverse ++ e :: post := by simp
    simp only [hitems, List.isEmpty_cons, Bool.false_eq_true, if_false, List.length_cons, Nat.add_sub_cancel]
    have hcur : ({ items := r.reverse ++ e :: post, pos := Pos.at r.length } : LdbIt).cur = some e := by
      simp [LdbIt.cur]
    refine ⟨by simp [ItOps.key, hcur], by simp [ItOps.value, hcur], ?_⟩
    have := ih (e :: post)
    show BStream (LdbIt.prev _).1 r
    simp only [LdbIt.prev]
    cases r with
    | nil => simpa using this
    | cons b r' => simpa using this

theorem ldbit_last_bstream (it : LdbIt) : BStream (ItOps.last it).1 it.items.reverse := by
  show BStream (LdbIt.last it).1 _
  have := ldbit_bstream_from it.items.reverse []
  unfold LdbIt.last
  cases h : it.items with
  | nil => simp [BStream, ItOps.key, LdbIt.cur]
  | cons e l =>
    rw [h] at this
    simpa [h] using this

theorem floor_eq_takeWhile (k : Bytes) (m : Map) :
    floor k true m = (m.takeWhile fun x => compare x.1 k == Ordering.lt).getLast? := by
  induction m with
  | nil => rfl
  | cons a m ih =>
    obtain ⟨ak, av⟩ := a
    rcases ElaVerif.Treap.cmp_cases k ak with hc | hc | hc
    · have : compare ak k = .gt := ElaVerif.Treap.cmp_gt_of_lt hc
      simp [floor, hc, List.takeWhile_cons, this]
    · have := ElaVerif.Treap.cmp_eq hc; subst this
      simp [floor, hc, List.takeWhile_cons, ElaVerif.Treap.cmp_self]
    · have h2 : compare ak k = .lt := ElaVerif.Treap.cmp_lt_of_gt hc
      simp only [floor, hc, List.takeWhile_cons, h2, beq_self_eq_true, if_true, ih]
      cases h : (m.takeWhile fun x => compare x.1 k == Ordering.lt) with
      | nil => simp
      | cons b l =>
        cases hg : (b :: l).getLast? with
        | none => simp at hg
        | some x => simp [List.getLast?_cons_cons, hg]

/-- a treap iterator standing on `e` walks the sorted contents before it, downwards, while in range -/
theorem treapit_bstream_from : ∀ (Ar B : Map) (e : E) (it : TreapIt),
    Sorted (Ar.reverse ++ e :: B) → it.items = Ar.reverse ++ e :: B → it.cur = some e → it.isNew = false →
    BStream it (e :: Ar.takeWhile fun x => inRange it.start it.limit x.1) := by
  intro Ar
  induction Ar with
  | nil =>
    intro B e it hs hi hc hn
    refine ⟨by simp [ItOps.key, hc], by simp [ItOps.value, hc], ?_⟩
    show BStream (TreapIt.prev it).1 []
    have hfl := ElaVerif.Treap.floor_append_eq e.1 true [] B e (by simp) (ElaVerif.Treap.cmp_self _)
    simp only [List.nil_append] at hfl
    simp [TreapIt.prev, hn, hc, hi, hfl, TreapIt.land, BStream, ItOps.key]
  | cons a Ar ih =>
    intro B e it hs hi hc hn
    refine ⟨by simp [ItOps.key, hc], by simp [ItOps.value, hc], ?_⟩
    show BStream (TreapIt.prev it).1 _
    have hA : ∀ x ∈ (a :: Ar).reverse, compare e.1 x.1 = .gt := by
      intro x hx
      exact ElaVerif.Treap.cmp_gt_of_lt ((ElaVerif.Treap.sorted_append_cons.mp hs).2.2.1 x hx)
    have hfl := ElaVerif.Treap.floor_append_eq e.1 true (a :: Ar).reverse B e hA (ElaVerif.Treap.cmp_self _)
    have hlast : ((a :: Ar).reverse).getLast? = some a := by simp
    simp only [TreapIt.prev, hn, Bool.false_eq_true, if_false, hc, hi, hfl, if_true, hlast, TreapIt.land,
      List.takeWhile_cons]
    by_cases hr : inRange it.start it.limit a.1 = true
    · simp only [hr, if_true]
      have hs' : Sorted (Ar.reverse ++ a :: (e :: B)) := by simpa using hs
      let it2 : TreapIt := { items := (a :: Ar).reverse ++ e :: B, start := it.start, limit := it.limit, cur := some a, isNew := false, live := it.live }
      have := ih (e :: B) a it2 hs' (by simp [it2]) rfl rfl
      simpa [it2] using this
    · simp [hr, BStream, ItOps.key]

/-- the contents of a sorted map below `l`, downwards, as long as they stay in the range -/
def rangeListRev (s : Option Bytes) (l : Bytes) (m : Map) : Map :=
  ((m.takeWhile fun x => compare x.1 l == Ordering.lt).reverse).takeWhile fun x => inRange s (some l) x.1

theorem treapit_last_bstream (it : TreapIt) (l : Bytes) (hlim : it.limit = some l) (hs : Sorted it.items) :
    BStream (ItOps.last it).1 (rangeListRev it.start l it.items) := by
  show BStream (TreapIt.last it).1 _
  unfold TreapIt.last rangeListRev
  simp only [hlim, floor_eq_takeWhile]
  have hsplit := List.takeWhile_append_dropWhile (p := fun x : E => compare x.1 l == Ordering.lt) (l := it.items)
  generalize hA : (it.items.takeWhile fun x => compare x.1 l == Ordering.lt) = A at hsplit ⊢
  generalize hD : (it.items.dropWhile fun x => compare x.1 l == Ordering.lt) = D at hsplit
  -- split A at its last element
  rcases List.eq_nil_or_concat A with hnil | ⟨A', e, hA'⟩
  · subst hnil; simp [TreapIt.land, BStream, ItOps.key]
  · subst hA'
    simp only [List.concat_eq_append, List.getLast?_append, List.getLast?_singleton, Option.some_or, List.reverse_append,
      List.reverse_cons, List.reverse_nil, List.nil_append, List.singleton_append, List.takeWhile_cons, TreapIt.land, hlim]
    by_cases hr : inRange it.start (some l) e.1 = true
    · simp only [hr, if_true]
      have hitems : it.items = A'.reverse.reverse ++ e :: D := by rw [← hsplit]; simp
      have := treapit_bstream_from A'.reverse D e { it with isNew := false, cur := some e }
        (by rw [← hitems]; exact hs) hitems rfl rfl
      simpa [hlim] using this
    · simp [hr, BStream, ItOps.key]

/-! ### what the merged list is, point-wise -/

open ElaVerif.Treap (cmp_cases cmp_eq cmp_trans cmp_gt_of_lt cmp_lt_of_gt cmp_self) in
theorem find_none_lt_head {k : Bytes} {a : E} {m : Map} (h : Sorted (a :: m)) (hk : compare k a.1 = .lt) :
    find k (a :: m) = none := by
  obtain ⟨ak, av⟩ := a
  simp [find, show compare k ak = .lt from hk]

theorem mem_mergeF (sh : Bytes → Bool) : ∀ (n : Nat) (ld lp : List E), ld.length + lp.length ≤ n →
    ∀ x ∈ mergeF sh ld lp, x ∈ ld ∨ x ∈ lp := by
  intro n
  induction n with
  | zero =>
    intro ld lp h x hx
    have h1 : ld = [] := by cases ld <;> simp_all
    subst h1; simp [mergeF] at hx; exact Or.inr hx
  | succ n ih =>
    intro ld lp h x hx
    cases ld with
    | nil => simp [mergeF] at hx; exact Or.inr hx
    | cons d ld =>
      rw [mergeF_cons] at hx
      split at hx
      · rcases ih ld lp (by simp at h; omega) x hx with h1 | h1
        · exact Or.inl (by simp [h1])
        · exact Or.inr h1
      · cases lp with
        | nil =>
          simp only [List.mem_cons] at hx
          rcases hx with rfl | hx
          · exact Or.inl (by simp)
          · rcases ih ld [] (by simp at h; omega) x hx with h1 | h1
            · exact Or.inl (by simp [h1])
            · exact Or.inr h1
        | cons p lp' =>
          simp only [] at hx
          split at hx
          · simp only [List.mem_cons] at hx
            rcases hx with rfl | hx
            · exact Or.inr (by simp)
            · rcases ih (d :: ld) lp' (by simp at h ⊢; omega) x hx with h1 | h1
              · exact Or.inl h1
              · exact Or.inr (by simp [h1])
          · simp only [List.mem_cons] at hx
            rcases hx with rfl | hx
            · exact Or.inl (by simp)
            · rcases ih ld (p :: lp') (by simp at h ⊢; omega) x hx with h1 | h1
              · exact Or.inl (by simp [h1])
              · exact Or.inr h1

/-- **the merged list is the overlay, point-wise**: for sorted sides where every pending entry's key is
    shadowing (it is in `pkeys`), the merge is sorted and looking a key up in it gives the pending
    value, else nothing if the key is shadowed, else the snapshot-side value. -/
theorem mergeF_spec (sh : Bytes → Bool) : ∀ (n : Nat) (ld lp : List E), ld.length + lp.length ≤ n →
    Sorted ld → Sorted lp → (∀ e ∈ lp, sh e.1 = true) →
    Sorted (mergeF sh ld lp) ∧
    ∀ k, find k (mergeF sh ld lp) =
      match find k lp with
      | some v => some v
      | none => if sh k then none else find k ld := by
  intro n
  induction n with
  | zero =>
    intro ld lp h hsd hsp hsh
    have h1 : ld = [] := by cases ld <;> simp_all
    have h2 : lp = [] := by cases lp <;> simp_all
    subst h1 h2
    refine ⟨by simp [mergeF, Sorted], fun k => by simp [mergeF, find]⟩
  | succ n ih =>
    intro ld lp h hsd hsp hsh
    cases ld with
    | nil =>
      refine ⟨by simpa [mergeF] using hsp, fun k => ?_⟩
      simp only [mergeF, find]
      cases find k lp <;> simp
    | cons d ld =>
      have hsd' : Sorted ld := sorted_tail hsd
      have hdlt : ∀ x ∈ ld, compare d.1 x.1 = .lt := by
        unfold Sorted at hsd; exact (List.pairwise_cons.mp hsd).1
      rw [mergeF_cons]
      by_cases hshd : sh d.1 = true
      · -- the snapshot entry is shadowed: dropped
        simp only [hshd, if_true]
        obtain ⟨i1, i2⟩ := ih ld lp (by simp at h; omega) hsd' hsp hsh
        refine ⟨i1, fun k => ?_⟩
        rw [i2 k]
        cases find k lp with
        | some v => rfl
        | none =>
          simp only []
          by_cases hk : sh k = true
          · simp [hk]
          · simp only [hk, Bool.false_eq_true, if_false]
            obtain ⟨dk, dv⟩ := d
            rcases ElaVerif.Treap.cmp_cases k dk with hc | hc | hc
            · rw [find_none_of_le_head hsd (Or.inl hc)]; simp [find, hc]
            · exact absurd (by rw [ElaVerif.Treap.cmp_eq hc]; exact hshd) hk
            · simp [find, hc]
      · simp only [hshd, Bool.false_eq_true, if_false]
        cases lp with
        | nil =>
          obtain ⟨i1, i2⟩ := ih ld [] (by simp at h; omega) hsd' (by simp [Sorted]) (by simp)
          refine ⟨?_, fun k => ?_⟩
          · unfold Sorted at i1 ⊢
            rw [List.pairwise_cons]
            refine ⟨fun x hx => ?_, i1⟩
            rcases mem_mergeF sh _ ld [] (Nat.le_refl _) x hx with h1 | h1
            · exact hdlt x h1
            · simp at h1
          · obtain ⟨dk, dv⟩ := d
            simp only [find]
            have := i2 k
            simp only [find] at this
            rcases ElaVerif.Treap.cmp_cases k dk with hc | hc | hc <;> simp only [hc]
            · by_cases hk : sh k = true <;> simp [hk]
            · have hkd := ElaVerif.Treap.cmp_eq hc
              subst hkd
              simp [show sh k = false by simpa using hshd]
            · rw [this]
        | cons p lp' =>
          have hsp' : Sorted lp' := sorted_tail hsp
          have hplt : ∀ x ∈ lp', compare p.1 x.1 = .lt := by
            unfold Sorted at hsp; exact (List.pairwise_cons.mp hsp).1
          have hshp : sh p.1 = true := hsh p (by simp)
          have hne : d.1 ≠ p.1 := by intro e; rw [e] at hshd; exact hshd hshp
          simp only []
          by_cases hgt : (compare d.1 p.1 == Ordering.gt) = true
          · -- the pending entry comes first
            simp only [hgt, if_true]
            have hpd : compare p.1 d.1 = .lt := ElaVerif.Treap.cmp_lt_of_gt (by simpa using hgt)
            obtain ⟨i1, i2⟩ := ih (d :: ld) lp' (by simp at h ⊢; omega) hsd hsp' (fun e he => hsh e (by simp [he]))
            refine ⟨?_, fun k => ?_⟩
            · unfold Sorted at i1 ⊢
              rw [List.pairwise_cons]
              refine ⟨fun x hx => ?_, i1⟩
              rcases mem_mergeF sh _ (d :: ld) lp' (Nat.le_refl _) x hx with h1 | h1
              · rcases List.mem_cons.mp h1 with rfl | h1
                · exact hpd
                · exact ElaVerif.Treap.cmp_trans hpd (hdlt x h1)
              · exact hplt x h1
            · obtain ⟨pk, pv⟩ := p
              have := i2 k
              rcases ElaVerif.Treap.cmp_cases k pk with hc | hc | hc
              · have hkd : compare k d.1 = .lt := ElaVerif.Treap.cmp_trans hc hpd
                simp only [find, hc]
                by_cases hk : sh k = true
                · simp [hk]
                · simp only [hk, Bool.false_eq_true, if_false]
                  exact (find_none_lt_head hsd hkd).symm
              · simp [find, hc]
              · simp only [find, hc]; exact this
          · -- the snapshot entry comes first
            simp only [hgt, Bool.false_eq_true, if_false]
            have hdp : compare d.1 p.1 = .lt := by
              rcases ElaVerif.Treap.cmp_cases d.1 p.1 with hc | hc | hc
              · exact hc
              · exact absurd (ElaVerif.Treap.cmp_eq hc) hne
              · simp [hc] at hgt
            obtain ⟨i1, i2⟩ := ih ld (p :: lp') (by simp at h ⊢; omega) hsd' hsp hsh
            refine ⟨?_, fun k => ?_⟩
            · unfold Sorted at i1 ⊢
              rw [List.pairwise_cons]
              refine ⟨fun x hx => ?_, i1⟩
              rcases mem_mergeF sh _ ld (p :: lp') (Nat.le_refl _) x hx with h1 | h1
              · exact hdlt x h1
              · rcases List.mem_cons.mp h1 with rfl | h1
                · exact hdp
                · exact ElaVerif.Treap.cmp_trans hdp (hplt x h1)
            · obtain ⟨dk, dv⟩ := d
              have := i2 k
              rcases ElaVerif.Treap.cmp_cases k dk with hc | hc | hc
              · have hkp : compare k p.1 = .lt := ElaVerif.Treap.cmp_trans hc hdp
                rw [find_none_lt_head hsp hkp]
                simp only [find, hc]
                by_cases hk : sh k = true <;> simp [hk]
              · have hkd := ElaVerif.Treap.cmp_eq hc
                subst hkd
                rw [find_none_lt_head hsp hdp]
                simp [find, hc, show sh k = false by simpa using hshd]
              · obtain ⟨pk, pv⟩ := p
                simp only [find, hc] at this ⊢
                rw [this]

/-! ### range restriction of a sorted map -/

theorem mem_of_find {k v : Bytes} : ∀ {m : Map}, find k m = some v → (k, v) ∈ m := by
  intro m
  induction m with
  | nil => intro h; simp [find] at h
  | cons a m ih =>
    obtain ⟨ak, av⟩ := a
    intro h
    rcases ElaVerif.Treap.cmp_cases k ak with hc | hc | hc <;> simp only [find, hc] at h
    · cases h
    · have := ElaVerif.Treap.cmp_eq hc; subst this; cases h; simp
    · simp [ih h]

theorem find_of_mem {k v : Bytes} : ∀ {m : Map}, Sorted m → (k, v) ∈ m → find k m = some v := by
  intro m
  induction m with
  | nil => intro _ h; simp at h
  | cons a m ih =>
    obtain ⟨ak, av⟩ := a
    intro hs h
    have hlt : ∀ x ∈ m, compare ak x.1 = .lt := by unfold Sorted at hs; exact (List.pairwise_cons.mp hs).1
    rcases List.mem_cons.mp h with he | he
    · cases he; simp [find, ElaVerif.Treap.cmp_self]
    · have h1 : compare ak k = .lt := hlt (k, v) he
      have h2 : compare k ak = .gt := ElaVerif.Treap.cmp_gt_of_lt h1
      simp only [find, h2]
      exact ih (sorted_tail hs) he

/-- lookups in a sorted part of a sorted map that is cut out by a predicate on keys -/
theorem find_sub (m m' : Map) (q : Bytes → Bool) (hs : Sorted m) (hs' : Sorted m')
    (hmem : ∀ e, e ∈ m' ↔ e ∈ m ∧ q e.1 = true) (k : Bytes) :
    find k m' = if q k then find k m else none := by
  cases h' : find k m' with
  | some v =>
    have := (hmem (k, v)).mp (mem_of_find h')
    simp only [] at this
    rw [this.2, if_pos rfl, find_of_mem hs this.1]
  | none =>
    by_cases hq : q k = true
    · rw [if_pos hq]
      cases h : find k m with
      | none => rfl
      | some v =>
        have := (hmem (k, v)).mpr ⟨mem_of_find h, hq⟩
        rw [find_of_mem hs' this] at h'; cases h'
    · simp [hq]

theorem sorted_sublist {m m' : Map} (h : m'.Sublist m) (hs : Sorted m) : Sorted m' := by
  unfold Sorted at hs ⊢; exact List.Pairwise.sublist h hs

def ltS (s : Bytes) (x : E) : Bool := compare x.1 s == Ordering.lt

theorem mem_dropWhile_sorted (s : Bytes) : ∀ (m : Map), Sorted m →
    ∀ e, e ∈ m.dropWhile (ltS s) ↔ e ∈ m ∧ ltS s e = false := by
  intro m
  induction m with
  | nil => intro _ e; simp
  | cons a m ih =>
    intro hs e
    have hlt : ∀ x ∈ m, compare a.1 x.1 = .lt := by unfold Sorted at hs; exact (List.pairwise_cons.mp hs).1
    simp only [List.dropWhile_cons]
    by_cases ha : ltS s a = true
    · simp only [ha, if_true, ih (sorted_tail hs) e, List.mem_cons]
      constructor
      · intro ⟨h1, h2⟩; exact ⟨Or.inr h1, h2⟩
      · intro ⟨h1, h2⟩
        rcases h1 with rfl | h1
        · rw [ha] at h2; cases h2
        · exact ⟨h1, h2⟩
    · simp only [ha, Bool.false_eq_true, if_false]
      constructor
      · intro h
        refine ⟨h, ?_⟩
        rcases List.mem_cons.mp h with rfl | h1
        · simpa using ha
        · -- e is above a, and a is not below s
          cases hc : ltS s e with
          | false => rfl
          | true =>
            exfalso
            have hes : compare e.1 s = .lt := by simpa [ltS] using hc
            have := ElaVerif.Treap.cmp_trans (hlt e h1) hes
            exact ha (by simp [ltS, this])
      · intro h; exact h.1

theorem mem_takeWhile_range (s : Bytes) (lim : Option Bytes) : ∀ (D : Map), Sorted D →
    (∀ x ∈ D, ltS s x = false) →
    ∀ e, e ∈ D.takeWhile (fun x => inRange (some s) lim x.1) ↔ e ∈ D ∧ inRange (some s) lim e.1 = true := by
  intro D
  induction D with
  | nil => intro _ _ e; simp
  | cons a D ih =>
    intro hs hge e
    have hlt : ∀ x ∈ D, compare a.1 x.1 = .lt := by unfold Sorted at hs; exact (List.pairwise_cons.mp hs).1
    simp only [List.takeWhile_cons]
    by_cases ha : inRange (some s) lim a.1 = true
    · simp only [ha, if_true, List.mem_cons, ih (sorted_tail hs) (fun x hx => hge x (by simp [hx])) e]
      constructor
      · rintro (rfl | ⟨h1, h2⟩)
        · exact ⟨Or.inl rfl, ha⟩
        · exact ⟨Or.inr h1, h2⟩
      · rintro ⟨rfl | h1, h2⟩
        · exact Or.inl rfl
        · exact Or.inr ⟨h1, h2⟩
    · simp only [ha, Bool.false_eq_true, if_false, List.not_mem_nil, false_iff, not_and]
      intro hmem hin
      -- a is not below s, so it is at or above the limit; everything after it is too
      have hage : ltS s a = false := hge a (by simp)
      rcases List.mem_cons.mp hmem with rfl | h1
      · exact ha hin
      · cases lim with
        | none =>
          apply ha
          simp only [inRange, Bool.and_true]
          simpa [ltS] using hage
        | some l =>
          simp only [inRange, Bool.and_eq_true, bne_iff_ne, ne_eq, beq_iff_eq] at hin ha
          apply ha
          refine ⟨by simpa [ltS] using hage, ?_⟩
          exact ElaVerif.Treap.cmp_trans (hlt e h1) hin.2

theorem mem_rangeList (s : Bytes) (lim : Option Bytes) (m : Map) (hs : Sorted m) (e : E) :
    e ∈ rangeList s lim m ↔ e ∈ m ∧ inRange (some s) lim e.1 = true := by
  unfold rangeList
  have hD : Sorted (m.dropWhile (ltS s)) := sorted_sublist (List.dropWhile_sublist _) hs
  have hge : ∀ x ∈ m.dropWhile (ltS s), ltS s x = false := fun x hx => ((mem_dropWhile_sorted s m hs x).mp hx).2
  rw [show (fun x : E => compare x.1 s == Ordering.lt) = ltS s from rfl]
  rw [mem_takeWhile_range s lim _ hD hge e, mem_dropWhile_sorted s m hs e]
  constructor
  · intro ⟨⟨h1, _⟩, h3⟩; exact ⟨h1, h3⟩
  · intro ⟨h1, h2⟩
    refine ⟨⟨h1, ?_⟩, h2⟩
    simp only [inRange, Bool.and_eq_true, bne_iff_ne, ne_eq] at h2
    simpa [ltS] using h2.1

theorem sorted_rangeList (s : Bytes) (lim : Option Bytes) {m : Map} (hs : Sorted m) : Sorted (rangeList s lim m) :=
  sorted_sublist (List.Sublist.trans (List.takeWhile_sublist _) (List.dropWhile_sublist _)) hs

theorem find_rangeList (s : Bytes) (lim : Option Bytes) (m : Map) (hs : Sorted m) (k : Bytes) :
    find k (rangeList s lim m) = if inRange (some s) lim k then find k m else none :=
  find_sub m _ (inRange (some s) lim) hs (sorted_rangeList s lim hs) (mem_rangeList s lim m hs) k

theorem find_filterRange (s : Bytes) (lim : Option Bytes) (m : Map) (hs : Sorted m) (k : Bytes) :
    find k (m.filter fun e => inRange (some s) lim e.1) = if inRange (some s) lim k then find k m else none :=
  find_sub m _ (inRange (some s) lim) hs (sorted_sublist List.filter_sublist hs)
    (fun e => by simp [List.mem_filter]) k


/-! ## `syncMergedIter`: where a source stands after a direction change -/

/-- what is left of a forward stream positioned at the first key ≥ `k` once `k` itself is stepped over -/
def dropKey (k : Bytes) : List E → List E
  | [] => []
  | e :: l => if e.1 == k then l else e :: l

/-- backward → forward: a source whose `Seek(k)` walks `l` (and reports success exactly when it
    stands on a key) is left walking `l` without `k` by `syncMergedIter` -/
theorem syncOther_fwd {α : Type} [ItOps α] (o : α) (k : Bytes) (l : List E)
    (hs : Stream (ItOps.seek o k).1 l)
    (hok : (ItOps.seek o k).2 = (ItOps.key (ItOps.seek o k).1).isSome) :
    Stream (syncOther o k true) (dropKey k l) := by
  unfold syncOther
  rcases hsk : ItOps.seek o k with ⟨o1, ok⟩
  rw [hsk] at hs hok
  simp only at hs hok
  simp only [if_true]
  cases l with
  | nil =>
    have hk : ItOps.key o1 = none := hs
    simp only [hk, dropKey]
    rw [if_neg (by simp)]
    exact hs
  | cons e l' =>
    obtain ⟨hk, hv, hn⟩ := hs
    simp only [hk, Option.isSome_some] at hok
    subst hok
    simp only [hk, Bool.true_and, dropKey]
    by_cases he : e.1 = k
    · subst he
      simp only [beq_self_eq_true, if_true]
      exact hn
    · have h1 : (some e.1 == some k) = false := by simp [he]
      have h2 : (e.1 == k) = false := by simp [he]
      simp only [h1, h2, Bool.false_eq_true, if_false]
      exact ⟨hk, hv, hn⟩

theorem ldbit_seek_ok (it : LdbIt) (k : Bytes) :
    (ItOps.seek it k).2 = (ItOps.key (ItOps.seek it k).1).isSome := by
  show (LdbIt.seek it k).2 = ((LdbIt.seek it k).1.cur.map (·.1)).isSome
  unfold LdbIt.seek
  split
  · rename_i i hi
    have hlt : i < it.items.length := by
      have := List.findIdx?_eq_some_iff_getElem.mp hi
      exact this.1
    simp [LdbIt.cur, hlt]
  · simp [LdbIt.cur]

theorem treapit_seek_ok (it : TreapIt) (k : Bytes) :
    (ItOps.seek it k).2 = (ItOps.key (ItOps.seek it k).1).isSome := by
  show (TreapIt.seek it k).2 = ((TreapIt.seek it k).1.cur.map (·.1)).isSome
  unfold TreapIt.seek TreapIt.land
  simp only []
  split
  · split <;> simp
  · simp

theorem cacheit_choose_ok (it : CacheIt) (f : Bool) :
    (it.choose f).2 = (ItOps.key (it.choose f).1).isSome := by
  show (it.choose f).2 = ((it.choose f).1.curKey).isSome
  unfold CacheIt.choose
  simp only []
  split
  · simp [CacheIt.curKey]
  · rename_i h1 h2; simp [CacheIt.curKey, h1]
  · rename_i h1 h2; simp [CacheIt.curKey, h2]
  · rename_i h1 h2
    split <;> simp [CacheIt.curKey, h1, h2]

theorem cacheit_seek_ok (it : CacheIt) (k : Bytes) :
    (ItOps.seek it k).2 = (ItOps.key (ItOps.seek it k).1).isSome :=
  cacheit_choose_ok _ true

end ElaVerif.Ffldb
