import ElaVerif.Model.WalletCont
/-
  Restore-then-continue = straight run, for the manager / wallet-checkpoint model of
  `Model/WalletCont.lean`: a process that is stopped after any number of blocks, restarted from the
  default checkpoint file (or from nothing) and fed the whole block sequence again ends in the state of
  the uninterrupted process.
-/
namespace ElaVerif.WalletCont

/-- heights strictly increasing -/
def Sorted (bs : List Block) : Prop := bs.Pairwise (fun a b => a.h < b.h)

def applyAll (s : WSt) (bs : List Block) : WSt := bs.foldl applyBlock s

theorem applyAll_append (s : WSt) (xs ys : List Block) :
    applyAll s (xs ++ ys) = applyAll (applyAll s xs) ys := by
  simp [applyAll, List.foldl_append]

/-! ### one step -/

theorem mstep_skip (m : Mgr) (b : Block) (h : b.h ≤ m.ck) : mstep m b = m := by
  simp [mstep, h]

theorem mstep_live (m : Mgr) (b : Block) (h : m.ck < b.h) :
    (mstep m b).live = applyBlock m.live b := by
  have : ¬ b.h ≤ m.ck := by omega
  unfold mstep
  simp only [this, if_false]
  split <;> rfl

theorem mstep_ck (m : Mgr) (b : Block) (h : m.ck < b.h) :
    (mstep m b).ck = m.ck ∨ (mstep m b).ck = b.h := by
  have : ¬ b.h ≤ m.ck := by omega
  unfold mstep
  simp only [this, if_false]
  split
  · exact Or.inr rfl
  · exact Or.inl rfl

/-! ### the live state of a run -/

theorem filter_all {α} (p : α → Bool) (xs : List α) (h : ∀ x ∈ xs, p x = true) : xs.filter p = xs := by
  induction xs with
  | nil => rfl
  | cons x xs ih =>
    have hx := h x (List.mem_cons_self ..)
    simp only [List.filter_cons, hx, if_true]
    rw [ih (fun y hy => h y (List.mem_cons_of_mem _ hy))]

theorem filter_none {α} (p : α → Bool) (xs : List α) (h : ∀ x ∈ xs, p x = false) : xs.filter p = [] := by
  induction xs with
  | nil => rfl
  | cons x xs ih =>
    have hx := h x (List.mem_cons_self ..)
    simp only [List.filter_cons, hx]
    exact ih (fun y hy => h y (List.mem_cons_of_mem _ hy))

/-- Lemma A: what a run over an increasing block sequence does to the live state: exactly the blocks
    above the starting checkpoint height are applied, in order. -/
theorem run_live (bs : List Block) : ∀ (m : Mgr), Sorted bs →
    (run m bs).live = applyAll m.live (bs.filter (fun b => decide (m.ck < b.h))) := by
  induction bs with
  | nil => intro m _; rfl
  | cons b rest ih =>
    intro m hs
    have hs' : Sorted rest := (List.pairwise_cons.1 hs).2
    have hlt : ∀ b' ∈ rest, b.h < b'.h := (List.pairwise_cons.1 hs).1
    by_cases hb : b.h ≤ m.ck
    · have : decide (m.ck < b.h) = false := by simp; omega
      simp only [run, List.foldl_cons, mstep_skip m b hb, List.filter_cons, this]
      exact ih m hs'
    · have hb' : m.ck < b.h := by omega
      have hd : decide (m.ck < b.h) = true := by simp [hb']
      simp only [run, List.foldl_cons, List.filter_cons, hd, if_true]
      have := ih (mstep m b) hs'
      simp only [run] at this
      rw [this, mstep_live m b hb']
      have hck := mstep_ck m b hb'
      have e1 : rest.filter (fun b' => decide ((mstep m b).ck < b'.h)) = rest :=
        filter_all _ _ (fun b' hb'' => by
          have := hlt b' hb''
          rcases hck with h | h <;> simp [h] <;> omega)
      have e2 : rest.filter (fun b' => decide (m.ck < b'.h)) = rest :=
        filter_all _ _ (fun b' hb'' => by have := hlt b' hb''; simp; omega)
      rw [e1, e2]
      simp [applyAll]

/-- Lemma C: an increasing sequence splits at any height -/
theorem split_at (h : Nat) (bs : List Block) (hs : Sorted bs) :
    bs.filter (fun b => decide (b.h ≤ h)) ++ bs.filter (fun b => decide (h < b.h)) = bs := by
  induction bs with
  | nil => rfl
  | cons b rest ih =>
    have hs' : Sorted rest := (List.pairwise_cons.1 hs).2
    have hlt : ∀ b' ∈ rest, b.h < b'.h := (List.pairwise_cons.1 hs).1
    by_cases hb : b.h ≤ h
    · have d1 : decide (b.h ≤ h) = true := by simp [hb]
      have d2 : decide (h < b.h) = false := by simp; omega
      simp [d1, d2, ih hs']
    · have d1 : decide (b.h ≤ h) = false := by simp; omega
      have d2 : decide (h < b.h) = true := by simp; omega
      have e1 : rest.filter (fun b' => decide (b'.h ≤ h)) = [] :=
        filter_none _ _ (fun b' hb' => by have := hlt b' hb'; simp; omega)
      have e2 : rest.filter (fun b' => decide (h < b'.h)) = rest :=
        filter_all _ _ (fun b' hb' => by have := hlt b' hb'; simp; omega)
      simp [d1, d2, e1, e2]

/-- Lemma D: in an increasing sequence the blocks up to the height of `b` are those before `b`, and `b` -/
theorem filter_upto (pre post : List Block) (b : Block) (hs : Sorted (pre ++ b :: post)) :
    (pre ++ b :: post).filter (fun x => decide (x.h ≤ b.h)) = pre ++ [b] := by
  have h := List.pairwise_append.1 hs
  have hpre : ∀ a ∈ pre, a.h < b.h := fun a ha => h.2.2 a ha b (List.mem_cons_self ..)
  have hpost : ∀ c ∈ post, b.h < c.h := (List.pairwise_cons.1 h.2.1).1
  rw [List.filter_append, List.filter_cons]
  have e1 : pre.filter (fun x => decide (x.h ≤ b.h)) = pre :=
    filter_all _ _ (fun a ha => by have := hpre a ha; simp; omega)
  have e2 : post.filter (fun x => decide (x.h ≤ b.h)) = [] :=
    filter_none _ _ (fun c hc => by have := hpost c hc; simp; omega)
  simp [e1, e2]

/-! ### what the files hold -/

/-- a snapshot labelled `h` holds the state after the blocks up to height `h` of the full sequence -/
def OK (bs : List Block) (f : Nat × WSt) : Prop :=
  f.2 = applyAll .init (bs.filter (fun b => decide (b.h ≤ f.1)))

structure Inv (bs : List Block) (m : Mgr) (pre : List Block) : Prop where
  live : m.live = applyAll .init pre
  files : ∀ f ∈ m.files, OK bs f
  dflt : ∀ f, m.dflt = some f → OK bs f

theorem promote_ok (bs : List Block) (m : Mgr) (b : Block)
    (hf : ∀ f ∈ m.files, OK bs f) (hd : ∀ f, m.dflt = some f → OK bs f) :
    (∀ f ∈ (promote m b).1, OK bs f) ∧ (∀ f, (promote m b).2 = some f → OK bs f) := by
  unfold promote
  split
  · split
    · rename_i f hfind
      have hmem : f ∈ m.files := List.mem_of_find?_eq_some hfind
      refine ⟨fun g hg => hf g (List.mem_filter.1 hg).1, fun g hg => ?_⟩
      simp only [Option.some.injEq] at hg
      exact hg ▸ hf f hmem
    · exact ⟨hf, hd⟩
  · exact ⟨hf, hd⟩

theorem saveFiles_ok (bs : List Block) (files : List (Nat × WSt)) (h : Nat) (live : WSt)
    (hf : ∀ f ∈ files, OK bs f) (hl : OK bs (h, live)) : ∀ f ∈ saveFiles files h live, OK bs f := by
  intro f hfm
  have := (List.mem_filter.1 hfm).1
  rcases List.mem_cons.1 this with e | e
  · exact e ▸ hl
  · exact hf f (List.mem_filter.1 e).1

/-- Lemma B: the invariant is kept along a run over a middle part of the sequence -/
theorem run_inv (bs : List Block) : ∀ (mid pre post : List Block) (m : Mgr),
    bs = pre ++ mid ++ post → Sorted bs → Inv bs m pre → (∀ b ∈ mid ++ post, m.ck < b.h) →
    Inv bs (run m mid) (pre ++ mid) := by
  intro mid
  induction mid with
  | nil => intro pre post m _ _ hi _; simpa [run] using hi
  | cons b mid ih =>
    intro pre post m hbs hs hi hck
    have hb : m.ck < b.h := hck b (by simp)
    have hbs' : bs = (pre ++ [b]) ++ mid ++ post := by simp [hbs]
    have hsplit : bs = pre ++ b :: (mid ++ post) := by simp [hbs]
    have hsorted : Sorted (pre ++ b :: (mid ++ post)) := hsplit ▸ hs
    have hlt : ∀ c ∈ mid ++ post, b.h < c.h :=
      (List.pairwise_cons.1 (List.pairwise_append.1 hsorted).2.1).1
    -- the state after `b` is the snapshot labelled `b.h`
    have hlive : applyBlock m.live b = applyAll .init (pre ++ [b]) := by
      rw [hi.live, applyAll_append]; rfl
    have hok : OK bs (b.h, applyBlock m.live b) := by
      show applyBlock m.live b = applyAll .init (bs.filter (fun x => decide (x.h ≤ b.h)))
      rw [hsplit, filter_upto pre (mid ++ post) b hsorted, hlive]
    have hp := promote_ok bs m b hi.files hi.dflt
    have hinv : Inv bs (mstep m b) (pre ++ [b]) := by
      have hnot : ¬ b.h ≤ m.ck := by omega
      unfold mstep
      simp only [hnot, if_false]
      split
      · exact ⟨hlive, saveFiles_ok bs _ _ _ hp.1 hok, hp.2⟩
      · exact ⟨hlive, hp.1, hp.2⟩
    have hck' : ∀ c ∈ mid ++ post, (mstep m b).ck < c.h := by
      intro c hc
      have h1 := hlt c hc
      have h2 := hck c (by simp at hc ⊢; rcases hc with h | h <;> simp [h])
      rcases mstep_ck m b hb with h | h <;> rw [h] <;> omega
    have := ih (pre ++ [b]) post (mstep m b) hbs' hs hinv hck'
    simpa [run, List.append_assoc] using this

/-! ### the theorem -/

/-- the uninterrupted run applies every block -/
theorem straight_live (bs : List Block) (hs : Sorted bs) (hpos : ∀ b ∈ bs, 0 < b.h) :
    (run .fresh bs).live = applyAll .init bs := by
  rw [run_live bs .fresh hs]
  have : bs.filter (fun b => decide (Mgr.fresh.ck < b.h)) = bs :=
    filter_all _ _ (fun b hb => by
      show decide (0 < b.h) = true
      exact decide_eq_true (hpos b hb))
  rw [this]; rfl

/-- Restore-then-continue equals the straight run: stop after any `k` blocks, start a new process from the
    default checkpoint file (or from nothing when none has been promoted yet), feed the whole sequence
    again — the final wallet state is that of the process that was never stopped. -/
theorem restore_then_continue (bs : List Block) (k : Nat) (hs : Sorted bs) (hpos : ∀ b ∈ bs, 0 < b.h) :
    (interrupted bs k).live = (run .fresh bs).live := by
  rw [straight_live bs hs hpos]
  have hbs : bs = [] ++ bs.take k ++ bs.drop k := by simp
  have hinv0 : Inv bs .fresh [] := ⟨rfl, by simp [Mgr.fresh], by simp [Mgr.fresh]⟩
  have hck0 : ∀ b ∈ bs.take k ++ bs.drop k, Mgr.fresh.ck < b.h := by
    intro b hb
    rw [List.take_append_drop] at hb
    exact hpos b hb
  have hinv := run_inv bs (bs.take k) [] (bs.drop k) .fresh hbs hs hinv0 hck0
  unfold interrupted
  rw [run_live bs _ hs]
  unfold restart
  split
  · rename_i h s hd
    have hok : OK bs (h, s) := hinv.dflt (h, s) hd
    show applyAll s (bs.filter (fun b => decide (h < b.h))) = applyAll .init bs
    rw [show s = applyAll .init (bs.filter (fun b => decide (b.h ≤ h))) from hok, ← applyAll_append,
      split_at h bs hs]
  · show applyAll .init (bs.filter (fun b => decide (0 < b.h))) = applyAll .init bs
    rw [filter_all _ _ (fun b hb => decide_eq_true (hpos b hb))]

end ElaVerif.WalletCont

namespace ElaVerif.WalletCont

/-- the block sequences of the `wcont` op are increasing with positive heights, so the theorem covers
    every op of the stream -/
theorem blocksOf_sorted (n : Nat) (es : List (Nat × WTx)) :
    Sorted (blocksOf n es) ∧ ∀ b ∈ blocksOf n es, 0 < b.h := by
  constructor
  · unfold Sorted blocksOf
    rw [List.pairwise_map]
    exact List.Pairwise.imp (fun h => by simp; omega) List.pairwise_lt_range
  · intro b hb
    unfold blocksOf at hb
    obtain ⟨i, _, rfl⟩ := List.mem_map.1 hb
    simp

theorem wcont_ops_agree (n k : Nat) (es : List (Nat × WTx)) :
    (interrupted (blocksOf n es) k).live = (run .fresh (blocksOf n es)).live :=
  restore_then_continue _ k (blocksOf_sorted n es).1 (blocksOf_sorted n es).2

end ElaVerif.WalletCont

namespace ElaVerif.WalletCont

/-- What the data directory holds when a process is stopped after any `k` blocks: the default file — the
    one a restart loads — labelled `h` holds exactly the state after the blocks up to height `h`
    (not the state of some later moment). -/
theorem default_file_state (bs : List Block) (k : Nat) (hs : Sorted bs) (hpos : ∀ b ∈ bs, 0 < b.h)
    (h : Nat) (s : WSt) (hd : (run .fresh (bs.take k)).dflt = some (h, s)) :
    s = applyAll .init (bs.filter (fun b => decide (b.h ≤ h))) := by
  have hbs : bs = [] ++ bs.take k ++ bs.drop k := by simp
  have hinv0 : Inv bs .fresh [] := ⟨rfl, by simp [Mgr.fresh], by simp [Mgr.fresh]⟩
  have hck0 : ∀ b ∈ bs.take k ++ bs.drop k, Mgr.fresh.ck < b.h := by
    intro b hb
    rw [List.take_append_drop] at hb
    exact hpos b hb
  exact (run_inv bs (bs.take k) [] (bs.drop k) .fresh hbs hs hinv0 hck0).dflt (h, s) hd

end ElaVerif.WalletCont
