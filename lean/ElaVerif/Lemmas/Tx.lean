import ElaVerif.Model.Tx
import ElaVerif.Lemmas.Wire
/-
  Lemmas about the transaction / block envelope (`Model/Tx.lean`): round trip, soundness of the
  reader (accepted ⇒ well-formed, and the consumed bytes are the writer's output), allocation
  bound.  They compose the generic schema theorems of `Lemmas/Wire.lean`.
-/
namespace ElaVerif.Tx
open ElaVerif.Bytes ElaVerif.Wire ElaVerif.WireSchemas

theorem readTxHead_prefix (tx : Tx) (rest : Bytes) (hv : tx.version < 256) (ht : tx.txType < 256)
    (hc : txVersion09 ≤ tx.version ∨ (tx.version = 0 ∧ tx.txType < txVersion09)) :
    readTxHead (txPrefix tx ++ rest) = some ((tx.version, tx.txType), rest) := by
  unfold txPrefix readTxHead
  by_cases h9 : txVersion09 ≤ tx.version
  · simp only [h9, if_true, List.append_assoc]
    rw [readLE_enc 1 tx.version _ (by simpa using hv)]
    simp only [h9, if_true]
    rw [readLE_enc 1 tx.txType _ (by simpa using ht)]
  · rcases hc with h | ⟨h0, hlt⟩
    · exact absurd h h9
    · simp only [h9, if_false, List.nil_append]
      rw [readLE_enc 1 tx.txType _ (by simpa using ht)]
      have : ¬ txVersion09 ≤ tx.txType := by omega
      simp only [this, if_false, h0]

theorem wfTx_iff (tx : Tx) : wfTx tx = true ↔
    tx.version < 256 ∧ tx.txType < 256 ∧
    (txVersion09 ≤ tx.version ∨ (tx.version = 0 ∧ tx.txType < txVersion09)) ∧
    (∃ fs, bodyTy? tx.txType tx.version = some fs ∧ wfFields fs tx.body = true) ∧
    wf programs tx.programs = true := by
  unfold wfTx
  simp only [Bool.and_eq_true, decide_eq_true_eq]
  constructor
  · rintro ⟨⟨⟨⟨h1, h2⟩, h3⟩, h4⟩, h5⟩
    refine ⟨h1, h2, ?_, ?_, h5⟩
    · by_cases h9 : txVersion09 ≤ tx.version
      · exact Or.inl h9
      · simp only [h9, if_false, Bool.and_eq_true, decide_eq_true_eq] at h3
        exact Or.inr h3
    · cases hb : bodyTy? tx.txType tx.version with
      | none => simp [hb] at h4
      | some fs => simp only [hb] at h4; exact ⟨fs, rfl, h4⟩
  · rintro ⟨h1, h2, h3, ⟨fs, hb, hw⟩, h5⟩
    refine ⟨⟨⟨⟨h1, h2⟩, ?_⟩, ?_⟩, h5⟩
    · by_cases h9 : txVersion09 ≤ tx.version
      · simp [h9]
      · rcases h3 with h | h
        · exact absurd h h9
        · simp [h9, h.1, h.2]
    · simp [hb, hw]

/-- `Deserialize(Serialize(tx)) = tx` for well-formed transactions, with anything following. -/
theorem decodeTx_encodeTx (tx : Tx) (rest : Bytes) (h : wfTx tx = true) :
    decodeTx (encodeTx tx ++ rest) = some (tx, rest) := by
  obtain ⟨hv, ht, hc, ⟨fs, hb, hw⟩, hp⟩ := (wfTx_iff tx).1 h
  unfold decodeTx decodeTxA encodeTx encodeUnsigned
  simp only [hb, List.append_assoc]
  rw [readTxHead_prefix tx _ hv ht hc]
  simp only [hb]
  rw [decodeFields_encode fs tx.body _ hw]
  simp only
  rw [decode_encode programs tx.programs rest hp]

theorem readTxHead_some {bs r : Bytes} {ver ty : Nat} (h : readTxHead bs = some ((ver, ty), r)) :
    ver < 256 ∧ ty < 256 ∧ (txVersion09 ≤ ver ∨ (ver = 0 ∧ ty < txVersion09)) ∧
    bs = (if txVersion09 ≤ ver then leEnc 1 ver else []) ++ leEnc 1 ty ++ r := by
  unfold readTxHead at h
  cases h1 : readLE 1 bs with
  | none => simp [h1] at h
  | some p =>
    obtain ⟨flag, r1⟩ := p
    obtain ⟨e1, e2⟩ := readLE_some h1
    simp only [h1] at h
    by_cases h9 : txVersion09 ≤ flag
    · simp only [h9, if_true] at h
      cases h2 : readLE 1 r1 with
      | none => simp [h2] at h
      | some q =>
        obtain ⟨ty', r2⟩ := q
        obtain ⟨e3, e4⟩ := readLE_some h2
        simp only [h2, Option.some.injEq, Prod.mk.injEq] at h
        obtain ⟨⟨rfl, rfl⟩, rfl⟩ := h
        refine ⟨by simpa using e2, by simpa using e4, Or.inl h9, ?_⟩
        simp only [h9, if_true, e1, e3, List.append_assoc]
    · simp only [h9, if_false, Option.some.injEq, Prod.mk.injEq] at h
      obtain ⟨⟨rfl, rfl⟩, rfl⟩ := h
      refine ⟨by decide, by simpa using e2, Or.inr ⟨rfl, by omega⟩, ?_⟩
      have : ¬ txVersion09 ≤ 0 := by decide
      simp only [this, if_false, List.nil_append, e1]

/-- Everything `GetTransactionByBytes`+`Deserialize` accepts is a well-formed transaction; if the
    payload schema is canonical the consumed bytes are exactly `Serialize` of the result. -/
theorem decodeTx_sound (bs : Bytes) (tx : Tx) (rest : Bytes) (h : decodeTx bs = some (tx, rest)) :
    wfTx tx = true ∧
    ((∀ fs, bodyTy? tx.txType tx.version = some fs → canonFields fs = true) →
      bs = encodeTx tx ++ rest) := by
  unfold decodeTx decodeTxA at h
  cases h1 : readTxHead bs with
  | none => simp [h1, R.fail] at h
  | some p =>
    obtain ⟨⟨ver, ty⟩, r⟩ := p
    obtain ⟨a1, a2, a3, a4⟩ := readTxHead_some h1
    simp only [h1] at h
    cases hb : bodyTy? ty ver with
    | none => simp [hb, R.fail] at h
    | some fs =>
      simp only [hb] at h
      cases h2 : (decodeFields fs r).res with
      | none => simp [h2, R.fail] at h
      | some q =>
        obtain ⟨body, r2⟩ := q
        simp only [h2] at h
        cases h3 : (decodeA programs r2).res with
        | none => simp [h3] at h
        | some q3 =>
          obtain ⟨ps, rest'⟩ := q3
          simp only [h3, Option.some.injEq, Prod.mk.injEq] at h
          obtain ⟨rfl, rfl⟩ := h
          obtain ⟨b1, b2⟩ := decodeFields_sound fs r body r2 h2
          obtain ⟨c1, c2⟩ := decode_sound programs r2 ps rest' h3
          refine ⟨(wfTx_iff _).2 ⟨a1, a2, a3, ⟨fs, hb, b1⟩, c1⟩, fun hcan => ?_⟩
          have hcf := hcan fs hb
          have hcp : canon programs = true := by decide
          unfold encodeTx encodeUnsigned txPrefix
          simp only [hb]
          rw [a4, b2 hcf, c2 hcp]
          simp only [List.append_assoc]

/-! ### allocation -/

theorem readTxHead_length {bs r : Bytes} {ver ty : Nat} (h : readTxHead bs = some ((ver, ty), r)) :
    ∃ c, bs.length = c + r.length ∧ 1 ≤ c := by
  obtain ⟨_, _, _, e⟩ := readTxHead_some h
  refine ⟨bs.length - r.length, ?_, ?_⟩
  · rw [e]; simp only [List.length_append]; omega
  · rw [e]; simp only [List.length_append, leEnc_length]; omega

/-- bound for the transaction reader, given a bound `D`/`S` on every payload of the table -/
theorem decodeTxA_good (D S : Nat)
    (hall : ∀ ty ver fs, bodyTy? ty ver = some fs →
      boundedFields fs = true ∧ densFields fs ≤ D ∧ slackFields fs ≤ S)
    (hpD : dens programs ≤ D) (hpS : slack programs ≤ S) (bs : Bytes) :
    Good D 1 S bs (decodeTxA bs) := by
  unfold decodeTxA
  cases h1 : readTxHead bs with
  | none => exact Good.fail _ _ _ _
  | some p =>
    obtain ⟨⟨ver, ty⟩, r⟩ := p
    obtain ⟨c0, l1, l2⟩ := readTxHead_length h1
    simp only
    cases hb : bodyTy? ty ver with
    | none => exact Good.fail _ _ _ _
    | some fs =>
      obtain ⟨g1, g2, g3⟩ := hall ty ver fs hb
      simp only
      have hf := allocFields_good fs D r g1 g2
      cases h2 : (decodeFields fs r).res with
      | none =>
        simp only
        refine ⟨fun v rest hr => by simp [R.fail] at hr, fun _ => ?_⟩
        have := hf.2 h2
        have e : D * r.length ≤ D * bs.length := Nat.mul_le_mul_left _ (by omega)
        simp only [R.fail]; omega
      | some q =>
        obtain ⟨body, r2⟩ := q
        simp only
        obtain ⟨c1, b1, _, b3⟩ := hf.1 body r2 h2
        have hp := alloc_good programs D r2 (by decide) hpD
        refine ⟨fun v rest hr => ?_, fun hn => ?_⟩
        · simp only at hr
          cases h3 : (decodeA programs r2).res with
          | none => simp [h3] at hr
          | some q3 =>
            obtain ⟨ps, rest'⟩ := q3
            simp only [h3, Option.some.injEq, Prod.mk.injEq] at hr
            obtain ⟨_, rfl⟩ := hr
            obtain ⟨c2, d1, _, d3⟩ := hp.1 ps rest' h3
            refine ⟨c0 + c1 + c2, by omega, by omega, ?_⟩
            simp only [Nat.mul_add]; omega
        · simp only at hn
          have hn2 : (decodeA programs r2).res = none := by
            cases hrr : (decodeA programs r2).res with
            | none => rfl
            | some q => simp [hrr] at hn
          have := hp.2 hn2
          have e : D * (c1 + r2.length) ≤ D * bs.length := Nat.mul_le_mul_left _ (by omega)
          simp only [Nat.mul_add] at e
          simp only; omega

/-! ### blocks -/

theorem repeatTx_encodeTxs (ovh : Nat) : ∀ (txs : List Tx) (rest : Bytes), allTx wfTx txs = true →
    (repeatTx ovh txs.length (encodeTxs txs ++ rest)).res = some (txs, rest) := by
  intro txs
  induction txs with
  | nil => intro rest _; simp [repeatTx, repeatDec, encodeTxs, R.ok]
  | cons t ts ih =>
    intro rest h
    simp only [allTx, Bool.and_eq_true] at h
    have h1 : (decodeTxA (encodeTx t ++ (encodeTxs ts ++ rest))).res = some (t, encodeTxs ts ++ rest) :=
      decodeTx_encodeTx t _ h.1
    have ih' := ih rest h.2
    simp only [repeatTx] at ih' ⊢
    simp only [List.length_cons, repeatDec, encodeTxs, List.append_assoc, h1, ih']

/-- `Block.Deserialize(Block.Serialize(b)) = b` -/
theorem decodeBlock_encodeBlock (b : Block) (rest : Bytes) (h : wfBlock b = true) :
    (decodeBlockA (encodeBlock b ++ rest)).res = some (b, rest) := by
  unfold wfBlock at h
  simp only [Bool.and_eq_true, decide_eq_true_eq] at h
  obtain ⟨⟨h1, h2⟩, h3⟩ := h
  unfold decodeBlockA encodeBlock
  simp only [List.append_assoc]
  rw [decode_encode header b.header _ h1]
  simp only
  rw [readLE_enc 4 b.txs.length _ (by omega)]
  simp only
  rw [repeatTx_encodeTxs 512 b.txs rest h3]

/-- allocation bound of the block reader (header, `uint32` count, transactions read one by one) -/
theorem decodeBlockA_good (D S : Nat)
    (hall : ∀ ty ver fs, bodyTy? ty ver = some fs →
      boundedFields fs = true ∧ densFields fs ≤ D ∧ slackFields fs ≤ S)
    (hpD : dens programs ≤ D) (hpS : slack programs ≤ S)
    (hhD : dens header ≤ D) (hhS : slack header ≤ S) (bs : Bytes) :
    Good (512 + D) 0 S bs (decodeBlockA bs) := by
  unfold decodeBlockA
  have hh := alloc_good header (512 + D) bs (by decide) (by omega)
  cases h1 : (decodeA header bs).res with
  | none =>
    simp only [h1]
    refine ⟨fun v rest hr => by simp [R.fail] at hr, fun _ => ?_⟩
    have := hh.2 h1
    simp only [R.fail]; omega
  | some p =>
    obtain ⟨h, r⟩ := p
    simp only [h1]
    obtain ⟨c1, a1, _, a3⟩ := hh.1 h r h1
    cases h2 : readLE 4 r with
    | none =>
      simp only [h2]
      refine ⟨fun v rest hr => by simp [R.fail] at hr, fun _ => ?_⟩
      have e : (512 + D) * c1 ≤ (512 + D) * bs.length := Nat.mul_le_mul_left _ (by omega)
      simp only [R.fail]; omega
    | some q =>
      obtain ⟨n, r2⟩ := q
      simp only [h2]
      have hl := readLE_length h2
      have htx : ∀ bs, Good D 1 S bs (decodeTxA bs) := decodeTxA_good D S hall hpD hpS
      have hrep := repeatDec_good decodeTxA 512 D 1 S (512 + D) (Nat.le_refl _) (Nat.le_refl _) htx n r2
      refine ⟨fun v rest hr => ?_, fun hn => ?_⟩
      · simp only [repeatTx] at hr
        cases h3 : (repeatDec decodeTxA 512 n r2).res with
        | none => simp [h3] at hr
        | some q3 =>
          obtain ⟨txs, rest'⟩ := q3
          simp only [h3, Option.some.injEq, Prod.mk.injEq] at hr
          obtain ⟨_, rfl⟩ := hr
          obtain ⟨c2, d1, _, d3⟩ := hrep.1 txs rest' h3
          refine ⟨c1 + 4 + c2, by omega, Nat.zero_le _, ?_⟩
          simp only [repeatTx, Nat.mul_add]; omega
      · simp only [repeatTx] at hn
        have hn2 : (repeatDec decodeTxA 512 n r2).res = none := by
          cases hrr : (repeatDec decodeTxA 512 n r2).res with
          | none => rfl
          | some q => simp [hrr] at hn
        have := hrep.2 hn2
        have e : (512 + D) * (c1 + r2.length) ≤ (512 + D) * bs.length := Nat.mul_le_mul_left _ (by omega)
        simp only [Nat.mul_add] at e
        simp only [repeatTx]; omega

end ElaVerif.Tx
