import ElaVerif.Model.Pool
/-!
  C34 — invariants of the pool machine and the lemmas showing every primitive preserves them.
  (Helper lemmas only; the property theorems are in `Props/C34.lean`.)
-/
namespace ElaVerif.Pool

/-- what the proofs need of the fee-rate comparison (true of `<` on float64, NaN included) -/
structure RateOrder (lt : Rate → Rate → Bool) : Prop where
  irrefl : ∀ a, lt a a = false
  trans : ∀ a b c, lt a b = true → lt b c = true → lt a c = true

section
variable (lt : Rate → Rate → Bool)

/-- the fee list is ordered by non-increasing rate -/
def Sorted (l : List FeeItem) : Prop := l.Pairwise (fun a b => lt a.rate b.rate = false)

/-- the fee list agrees exactly with the held transactions -/
structure FeeInv (txs : List Tx) (fl : FeeList) : Prop where
  nodup : (fl.list.map (·.id)).Nodup
  item : ∀ it ∈ fl.list, ∃ t ∈ txs, t.id = it.id ∧ it.rate = t.rate ∧ it.size = t.size
  mem : ∀ t ∈ txs, t.id ∈ fl.list.map (·.id)
  sorted : Sorted lt fl.list
  total : fl.total = (fl.list.map (·.size)).sum
  bound : fl.total ≤ fl.max
  max64 : fl.max < 2 ^ 63

/-- weak slot invariant: the index is a partial map whose entries are backed by held
    transactions, and a key of a held transaction is never indexed under another owner -/
structure SlotW (txs : List Tx) (slots : List (SKey × Nat)) : Prop where
  nodup : (slots.map (·.1)).Nodup
  owned : ∀ e ∈ slots, ∃ t ∈ txs, t.id = e.2 ∧ e.1 ∈ keysOf t
  uniq : ∀ t ∈ txs, ∀ k ∈ keysOf t, ∀ id, (k, id) ∈ slots → id = t.id

/-- every key of a held transaction that is absent from the index lies in `M` -/
def Missing (txs : List Tx) (slots : List (SKey × Nat)) (M : SKey → Prop) : Prop :=
  ∀ t ∈ txs, ∀ k ∈ keysOf t, k ∉ slots.map (·.1) → M k

structure Base (p : Pool) : Prop where
  ids : (p.txs.map (·.id)).Nodup
  fee : FeeInv lt p.txs p.fl
  slotw : SlotW p.txs p.slots
  used : p.used = (p.txs.map Tx.budget).sum
  noerr : ∀ t ∈ p.txs, keyErr t = none

/-- the pool invariant: `Base` and the index misses nothing -/
def Inv (p : Pool) : Prop := Base lt p ∧ Missing p.txs p.slots (fun _ => False)

/-! ### small list facts -/

theorem mem_ids_of_mem {l : List Tx} {t : Tx} (h : t ∈ l) : t.id ∈ l.map (·.id) :=
  List.mem_map.2 ⟨t, h, rfl⟩

theorem eq_of_id_eq {l : List Tx} (hn : (l.map (·.id)).Nodup) {a b : Tx} (ha : a ∈ l) (hb : b ∈ l)
    (h : a.id = b.id) : a = b := by
  induction l with
  | nil => cases ha
  | cons x xs ih =>
    simp only [List.map_cons, List.nodup_cons, List.mem_map, not_exists, not_and] at hn
    rcases List.mem_cons.1 ha with rfl | ha' <;> rcases List.mem_cons.1 hb with rfl | hb'
    · rfl
    · exact absurd h.symm (hn.1 b hb')
    · exact absurd h (hn.1 a ha')
    · exact ih hn.2 ha' hb'

theorem has_iff (p : Pool) (id : Nat) : p.has id = true ↔ id ∈ p.txs.map (·.id) := by
  unfold Pool.has
  simp only [List.any_eq_true, beq_iff_eq, List.mem_map]

theorem sum_filter_ne {l : List Tx} (f : Tx → Int) (hn : (l.map (·.id)).Nodup) {t : Tx} (ht : t ∈ l) :
    ((l.filter (fun x => x.id != t.id)).map f).sum = (l.map f).sum - f t := by
  induction l with
  | nil => cases ht
  | cons a l ih =>
    simp only [List.map_cons, List.nodup_cons] at hn
    by_cases h : a.id = t.id
    · have hat : a = t := by
        rcases List.mem_cons.1 ht with rfl | ht'
        · rfl
        · exact absurd (h ▸ mem_ids_of_mem ht') hn.1
      subst hat
      have hfil : l.filter (fun x => x.id != a.id) = l := by
        apply List.filter_eq_self.2
        intro x hx
        simp only [bne_iff_ne, ne_eq]
        intro hxa
        exact hn.1 (hxa ▸ mem_ids_of_mem hx)
      simp only [List.filter_cons, bne_self_eq_false, Bool.false_eq_true, ↓reduceIte, hfil,
        List.map_cons, List.sum_cons]
      omega
    · have ht' : t ∈ l := by
        rcases List.mem_cons.1 ht with rfl | ht'
        · exact absurd rfl h
        · exact ht'
      have : (a.id != t.id) = true := by simp [h]
      simp only [List.filter_cons, this, ↓reduceIte, List.map_cons, List.sum_cons, ih hn.2 ht']
      omega

/-! ### fee list -/

theorem sub64_eq {a b : Nat} (hb : b ≤ a) (ha : a < 2 ^ 64) : sub64 a b = a - b := by
  unfold sub64
  have : b % 2 ^ 64 = b := Nat.mod_eq_of_lt (by omega)
  rw [this]
  omega

theorem scanDown_found (l : List FeeItem) (id j : Nat) (hj : j < l.length) (hid : l[j].id = id)
    (huniq : ∀ i (hi : i < l.length), l[i].id = id → i = j) :
    ∀ g, j ≤ g → scanDown l id g = some j := by
  intro g
  induction g with
  | zero =>
    intro h
    have : j = 0 := by omega
    subst this
    simp [scanDown, hid, List.getElem?_eq_getElem hj]
  | succ g ih =>
    intro h
    unfold scanDown
    by_cases hg : g + 1 < l.length
    · by_cases he : l[g + 1].id = id
      · have := huniq (g + 1) hg he
        subst this
        have e : (l[g + 1]?.map (·.id)) = some id := by
          rw [List.getElem?_eq_getElem hg]; simp [he]
        rw [if_pos e]
      · have hne : j ≠ g + 1 := by
          intro hh; subst hh; exact he hid
        simp only [List.getElem?_eq_getElem hg, Option.map_some, Option.some.injEq, he, ↓reduceIte]
        exact ih (by omega)
    · have hnone : l[g + 1]? = none := List.getElem?_eq_none (by omega)
      simp only [hnone, Option.map_none]
      have : ¬ (none : Option Nat) = some id := by simp
      simp only [this, ↓reduceIte]
      exact ih (by omega)

theorem nodup_ids_index {l : List FeeItem} (hn : (l.map (·.id)).Nodup) {i j : Nat}
    (hi : i < l.length) (hj : j < l.length) (h : l[i].id = l[j].id) : i = j := by
  have hi' : i < (l.map (·.id)).length := by simpa using hi
  have hj' : j < (l.map (·.id)).length := by simpa using hj
  have hp := List.pairwise_iff_getElem.1 hn
  rcases Nat.lt_trichotomy i j with h1 | h1 | h1
  · have := hp i j hi' hj' h1
    simp only [List.getElem_map, ne_eq] at this
    exact absurd h this
  · exact h1
  · have := hp j i hj' hi' h1
    simp only [List.getElem_map, ne_eq] at this
    exact absurd h.symm this

/-- under the fee invariant `RemoveTx` finds the entry of a held transaction -/
theorem locate_found {l : List FeeItem} (hn : (l.map (·.id)).Nodup) (hs : Sorted lt l)
    {j : Nat} (hj : j < l.length) :
    locate l (searchIdx lt l l[j].rate) l[j].id = some j := by
  unfold locate
  have hne : l.isEmpty = false := by
    cases l with
    | nil => simp at hj
    | cons _ _ => rfl
  simp only [hne, Bool.false_eq_true, ↓reduceIte]
  apply scanDown_found l l[j].id j hj rfl
  · intro i hi h; exact nodup_ids_index hn hi hj h
  · unfold searchIdx
    split
    · omega
    · rename_i hlen
      have hlt : List.findIdx (fun it => lt it.rate l[j].rate) l < l.length := by
        have := @List.findIdx_le_length _ (fun it => lt it.rate l[j].rate) l
        omega
      -- if j were beyond the found index, sortedness is contradicted
      apply Nat.le_of_not_lt
      intro hgt
      have htrue := @List.findIdx_getElem _ (fun it => lt it.rate l[j].rate) l hlt
      have := (List.pairwise_iff_getElem.1 hs) _ j hlt hj hgt
      rw [this] at htrue
      cases htrue

theorem sum_eraseIdx (l : List FeeItem) (j : Nat) (hj : j < l.length) :
    ((l.eraseIdx j).map (·.size)).sum + l[j].size = (l.map (·.size)).sum := by
  induction l generalizing j with
  | nil => simp at hj
  | cons a l ih =>
    cases j with
    | zero => simp; omega
    | succ j =>
      simp only [List.eraseIdx_cons_succ, List.map_cons, List.sum_cons, List.getElem_cons_succ]
      have := ih j (by simpa using hj)
      omega

theorem mem_eraseIdx_ne {l : List FeeItem} (hn : (l.map (·.id)).Nodup) {j : Nat} (hj : j < l.length)
    {it : FeeItem} (h : it ∈ l.eraseIdx j) : it ∈ l ∧ it.id ≠ l[j].id := by
  have hsub := List.eraseIdx_sublist l j
  have hmem := hsub.subset h
  refine ⟨hmem, ?_⟩
  intro heq
  rw [List.eraseIdx_eq_take_drop_succ] at h
  obtain ⟨i, hi, rfl⟩ := List.mem_iff_getElem.1 hmem
  have hij := nodup_ids_index hn hi hj heq
  subst hij
  rcases List.mem_append.1 h with h1 | h2
  · obtain ⟨k, hk, hk2⟩ := List.mem_take_iff_getElem.1 h1
    have hkl : k < l.length := by omega
    have := nodup_ids_index hn hkl hi (by rw [hk2])
    omega
  · obtain ⟨k, hk, hk2⟩ := List.mem_iff_getElem.1 h2
    simp only [List.getElem_drop] at hk2
    have hkl : i + 1 + k < l.length := by simp at hk; omega
    have := nodup_ids_index hn hkl hi (by rw [hk2])
    omega

theorem mem_eraseIdx_of_ne {l : List FeeItem} {j : Nat} (hj : j < l.length)
    {it : FeeItem} (h : it ∈ l) (hne : it.id ≠ l[j].id) : it ∈ l.eraseIdx j := by
  obtain ⟨i, hi, rfl⟩ := List.mem_iff_getElem.1 h
  have hij : i ≠ j := by intro hh; subst hh; exact hne rfl
  rw [List.eraseIdx_eq_take_drop_succ]
  apply List.mem_append.2
  by_cases hlt : i < j
  · left; exact List.mem_take_iff_getElem.2 ⟨i, by omega, rfl⟩
  · right
    apply List.mem_iff_getElem.2
    refine ⟨i - (j + 1), by simp; omega, ?_⟩
    simp only [List.getElem_drop]
    congr 1
    omega

/-- `RemoveTx` of a held transaction keeps the fee invariant for the remaining ones -/
theorem feeRemove_inv {txs : List Tx} {fl : FeeList} (hids : (txs.map (·.id)).Nodup)
    (h : FeeInv lt txs fl) {t : Tx} (ht : t ∈ txs) :
    FeeInv lt (txs.filter (fun x => x.id != t.id)) (feeRemove lt fl t.id t.size t.rate).2 := by
  obtain ⟨j, hj, hjid⟩ : ∃ j, ∃ hj : j < fl.list.length, fl.list[j].id = t.id := by
    have := h.mem t ht
    obtain ⟨it, hit, hid⟩ := List.mem_map.1 this
    obtain ⟨j, hj, rfl⟩ := List.mem_iff_getElem.1 hit
    exact ⟨j, hj, hid⟩
  obtain ⟨t', ht', hid', hrate, hsize⟩ := h.item fl.list[j] (List.getElem_mem hj)
  have htt : t' = t := eq_of_id_eq hids ht' ht (by rw [hid', hjid])
  subst htt
  have hloc := locate_found lt h.nodup h.sorted hj
  rw [hrate, hjid] at hloc
  unfold feeRemove
  rw [hloc]
  simp only
  have hsum := sum_eraseIdx fl.list j hj
  have hle : t'.size ≤ fl.total := by rw [h.total, ← hsum, hsize]; omega
  have h64 : fl.total < 2 ^ 64 := by have := h.bound; have := h.max64; omega
  refine ⟨?_, ?_, ?_, ?_, ?_, ?_, h.max64⟩
  · exact List.Nodup.sublist ((List.eraseIdx_sublist fl.list j).map _) h.nodup
  · intro it hit
    obtain ⟨hmem, hne⟩ := mem_eraseIdx_ne h.nodup hj hit
    obtain ⟨u, hu, hu1, hu2, hu3⟩ := h.item it hmem
    refine ⟨u, List.mem_filter.2 ⟨hu, ?_⟩, hu1, hu2, hu3⟩
    simp only [bne_iff_ne, ne_eq]
    rw [hu1, ← hjid]; exact hne
  · intro u hu
    obtain ⟨hu1, hu2⟩ := List.mem_filter.1 hu
    simp only [bne_iff_ne, ne_eq] at hu2
    obtain ⟨it, hit, hid⟩ := List.mem_map.1 (h.mem u hu1)
    exact List.mem_map.2 ⟨it, mem_eraseIdx_of_ne hj hit (by rw [hid, hjid]; exact hu2), hid⟩
  · exact List.Pairwise.sublist (List.eraseIdx_sublist fl.list j) h.sorted
  · show sub64 fl.total t'.size = ((fl.list.eraseIdx j).map (·.size)).sum
    rw [sub64_eq hle h64]; have := h.total; omega
  · show sub64 fl.total t'.size ≤ fl.max
    rw [sub64_eq hle h64]; have := h.bound; omega

/-- without the over-size condition `AddTx` is a plain ordered insert -/
theorem feeAdd_plain (fl : FeeList) (id : Nat) (r : Rate) (size : Nat) (hs : size ≠ 0)
    (hover : overSize fl.total fl.max size = false) :
    feeAdd lt fl id r size =
      (.ok, ⟨fl.list.take (searchIdx lt fl.list r) ++ [⟨id, r, size⟩] ++ fl.list.drop (searchIdx lt fl.list r),
             (fl.total + size) % 2 ^ 64, fl.max⟩, []) := by
  unfold feeAdd
  simp [hs, hover]

theorem searchIdx_before (l : List FeeItem) (r : Rate) (i : Nat) (hi : i < l.length)
    (h : i < searchIdx lt l r) : lt l[i].rate r = false := by
  unfold searchIdx at h
  exact List.not_of_lt_findIdx (p := fun (it : FeeItem) => lt it.rate r) h

theorem searchIdx_at (l : List FeeItem) (r : Rate) (h : searchIdx lt l r < l.length) :
    lt l[searchIdx lt l r].rate r = true := by
  have h' : List.findIdx (fun (it : FeeItem) => lt it.rate r) l < l.length := h
  exact List.findIdx_getElem (p := fun (it : FeeItem) => lt it.rate r) (w := h')

theorem sorted_insert_at (ho : RateOrder lt) {l : List FeeItem} (hs : Sorted lt l) (x : FeeItem) (n : Nat)
    (hbefore : ∀ i (hi : i < l.length), i < n → lt l[i].rate x.rate = false)
    (hat : ∀ (hn : n < l.length), lt l[n].rate x.rate = true) :
    Sorted lt (l.take n ++ [x] ++ l.drop n) := by
  unfold Sorted at *
  have hs0 := hs
  rw [← List.take_append_drop n l] at hs
  obtain ⟨h1, h2, h12⟩ := List.pairwise_append.1 hs
  rw [List.append_assoc]
  apply List.pairwise_append.2
  refine ⟨h1, ?_, ?_⟩
  · simp only [List.singleton_append, List.pairwise_cons]
    refine ⟨?_, h2⟩
    intro b hb
    obtain ⟨k, hk, rfl⟩ := List.mem_iff_getElem.1 hb
    simp only [List.length_drop] at hk
    have hidx : n < l.length := by omega
    have htrue := hat hidx
    simp only [List.getElem_drop]
    cases hlt : lt x.rate l[n + k].rate with
    | false => rfl
    | true =>
      exfalso
      have ht := ho.trans _ _ _ htrue hlt
      by_cases hk0 : k = 0
      · subst hk0
        have e := ho.irrefl l[n].rate
        simp only [Nat.add_zero] at ht
        rw [e] at ht; cases ht
      · have := (List.pairwise_iff_getElem.1 hs0) n (n + k) hidx (by omega) (by omega)
        rw [this] at ht; cases ht
  · intro a ha b hb
    rcases List.mem_append.1 hb with hb | hb
    · simp only [List.mem_singleton] at hb
      subst hb
      obtain ⟨k, hk, rfl⟩ := List.mem_take_iff_getElem.1 ha
      exact hbefore k (by omega) (by omega)
    · exact h12 a ha b hb

theorem sorted_insert (ho : RateOrder lt) {l : List FeeItem} (hs : Sorted lt l) (x : FeeItem) :
    Sorted lt (l.take (searchIdx lt l x.rate) ++ [x] ++ l.drop (searchIdx lt l x.rate)) :=
  sorted_insert_at lt ho hs x _ (fun i hi h => searchIdx_before lt l x.rate i hi h)
    (fun h => searchIdx_at lt l x.rate h)

/-- an accepted `AddTx` below capacity keeps the fee invariant for the enlarged set -/
theorem feeAdd_inv (ho : RateOrder lt) {txs : List Tx} {fl : FeeList} (h : FeeInv lt txs fl) {t : Tx}
    (hfresh : t.id ∉ txs.map (·.id)) (hs : t.size ≠ 0) (hsz : t.size < 2 ^ 63)
    (hover : overSize fl.total fl.max t.size = false) :
    FeeInv lt (txs ++ [t]) (feeAdd lt fl t.id t.rate t.size).2.1 := by
  rw [feeAdd_plain lt fl t.id t.rate t.size hs hover]
  simp only
  have hnew : t.id ∉ fl.list.map (·.id) := by
    intro hmem
    obtain ⟨it, hit, hid⟩ := List.mem_map.1 hmem
    obtain ⟨u, hu, hu1, _, _⟩ := h.item it hit
    exact hfresh (List.mem_map.2 ⟨u, hu, by rw [hu1, hid]⟩)
  have hnowrap : fl.total + t.size ≤ fl.max := by
    unfold overSize at hover
    have h64 := h.max64
    have hb := h.bound
    simp only [decide_eq_false_iff_not, Nat.not_lt] at hover
    have hw : fl.total + t.size < 2 ^ 64 := by omega
    rwa [Nat.mod_eq_of_lt hw] at hover
  have hmod : (fl.total + t.size) % 2 ^ 64 = fl.total + t.size :=
    Nat.mod_eq_of_lt (by have := h.max64; omega)
  have hperm : ∀ it, it ∈ (fl.list.take (searchIdx lt fl.list t.rate) ++ [⟨t.id, t.rate, t.size⟩] ++
        fl.list.drop (searchIdx lt fl.list t.rate)) ↔ it ∈ fl.list ∨ it = ⟨t.id, t.rate, t.size⟩ := by
    intro it
    simp only [List.mem_append, List.mem_singleton]
    constructor
    · rintro ((h1 | h1) | h1)
      · exact Or.inl (List.mem_of_mem_take h1)
      · exact Or.inr h1
      · exact Or.inl (List.mem_of_mem_drop h1)
    · rintro (h1 | h1)
      · have := List.take_append_drop (searchIdx lt fl.list t.rate) fl.list ▸ h1
        rcases List.mem_append.1 this with h2 | h2
        · exact Or.inl (Or.inl h2)
        · exact Or.inr h2
      · exact Or.inl (Or.inr h1)
  refine ⟨?_, ?_, ?_, ?_, ?_, ?_, h.max64⟩
  · have hn := h.nodup
    rw [← List.take_append_drop (searchIdx lt fl.list t.rate) fl.list, List.map_append] at hn
    obtain ⟨n1, n2, n12⟩ := List.nodup_append.1 hn
    simp only [List.map_append, List.map_cons, List.map_nil]
    rw [List.append_assoc]
    apply List.nodup_append.2
    refine ⟨n1, ?_, ?_⟩
    · simp only [List.singleton_append, List.nodup_cons]
      refine ⟨?_, n2⟩
      intro hm
      apply hnew
      obtain ⟨it, hit, hid⟩ := List.mem_map.1 hm
      exact List.mem_map.2 ⟨it, List.mem_of_mem_drop hit, hid⟩
    · intro a ha b hb
      rcases List.mem_append.1 hb with hb | hb
      · simp only [List.mem_singleton] at hb
        subst hb
        intro heq
        apply hnew
        obtain ⟨it, hit, hid⟩ := List.mem_map.1 ha
        exact List.mem_map.2 ⟨it, List.mem_of_mem_take hit, by rw [hid, heq]⟩
      · exact n12 a ha b hb
  · intro it hit
    rcases (hperm it).1 hit with h1 | h1
    · obtain ⟨u, hu, hu'⟩ := h.item it h1
      exact ⟨u, List.mem_append.2 (Or.inl hu), hu'⟩
    · subst h1
      exact ⟨t, List.mem_append.2 (Or.inr (List.mem_singleton.2 rfl)), rfl, rfl, rfl⟩
  · intro u hu
    rcases List.mem_append.1 hu with h1 | h1
    · obtain ⟨it, hit, hid⟩ := List.mem_map.1 (h.mem u h1)
      exact List.mem_map.2 ⟨it, (hperm it).2 (Or.inl hit), hid⟩
    · simp only [List.mem_singleton] at h1
      subst h1
      exact List.mem_map.2 ⟨⟨u.id, u.rate, u.size⟩, (hperm _).2 (Or.inr rfl), rfl⟩
  · exact sorted_insert lt ho h.sorted ⟨t.id, t.rate, t.size⟩
  · rw [hmod]
    have hsum : (fl.list.map (·.size)).sum =
        ((fl.list.take (searchIdx lt fl.list t.rate)).map (·.size)).sum +
        ((fl.list.drop (searchIdx lt fl.list t.rate)).map (·.size)).sum := by
      rw [← List.sum_append, ← List.map_append, List.take_append_drop]
    simp only [List.map_append, List.sum_append, List.map_cons, List.map_nil, List.sum_cons, List.sum_nil]
    rw [h.total, hsum]; omega
  · rw [hmod]; exact hnowrap

/-! ### conflict slots -/

theorem mem_slotErase {s : List (SKey × Nat)} {k : SKey} {e : SKey × Nat} :
    e ∈ slotErase s k ↔ e ∈ s ∧ e.1 ≠ k := by
  unfold slotErase
  simp [List.mem_filter]

theorem mem_eraseAll {ks : List SKey} {s : List (SKey × Nat)} {e : SKey × Nat} :
    e ∈ ks.foldl slotErase s ↔ e ∈ s ∧ e.1 ∉ ks := by
  induction ks generalizing s with
  | nil => simp
  | cons k ks ih =>
    simp only [List.foldl_cons, ih, mem_slotErase, List.mem_cons, not_or]
    constructor
    · rintro ⟨⟨h1, h2⟩, h3⟩; exact ⟨h1, h2, h3⟩
    · rintro ⟨h1, h2, h3⟩; exact ⟨⟨h1, h2⟩, h3⟩

theorem eraseAll_sublist (ks : List SKey) (s : List (SKey × Nat)) : (ks.foldl slotErase s).Sublist s := by
  induction ks generalizing s with
  | nil => exact List.Sublist.refl _
  | cons k ks ih => exact (ih _).trans List.filter_sublist

theorem keys_nodup_sublist {s s' : List (SKey × Nat)} (h : s'.Sublist s) (hn : (s.map (·.1)).Nodup) :
    (s'.map (·.1)).Nodup := List.Nodup.sublist (h.map _) hn

theorem mem_keys {s : List (SKey × Nat)} {k : SKey} : k ∈ s.map (·.1) ↔ ∃ id, (k, id) ∈ s := by
  simp only [List.mem_map]
  constructor
  · rintro ⟨⟨k', id⟩, h, rfl⟩; exact ⟨id, h⟩
  · rintro ⟨id, h⟩; exact ⟨(k, id), h, rfl⟩

/-- erasing keys never breaks the weak slot invariant -/
theorem slotW_eraseAll {txs : List Tx} {s : List (SKey × Nat)} (h : SlotW txs s) (ks : List SKey) :
    SlotW txs (ks.foldl slotErase s) := by
  refine ⟨keys_nodup_sublist (eraseAll_sublist ks s) h.nodup, ?_, ?_⟩
  · intro e he; exact h.owned e (mem_eraseAll.1 he).1
  · intro t ht k hk id hid; exact h.uniq t ht k hk id (mem_eraseAll.1 hid).1

/-- … and the newly missing keys are among the erased ones -/
theorem missing_eraseAll {txs : List Tx} {s : List (SKey × Nat)} {M : SKey → Prop}
    (h : Missing txs s M) (ks : List SKey) :
    Missing txs (ks.foldl slotErase s) (fun k => M k ∨ k ∈ ks) := by
  intro t ht k hk hnot
  by_cases hin : k ∈ s.map (·.1)
  · right
    obtain ⟨id, hid⟩ := mem_keys.1 hin
    apply Classical.byContradiction
    intro hks
    exact hnot (mem_keys.2 ⟨id, mem_eraseAll.2 ⟨hid, hks⟩⟩)
  · exact Or.inl (h t ht k hk hin)

theorem missing_mono {txs : List Tx} {s : List (SKey × Nat)} {M M' : SKey → Prop}
    (h : Missing txs s M) (hm : ∀ k, M k → M' k) : Missing txs s M' :=
  fun t ht k hk hn => hm k (h t ht k hk hn)

/-- removing a held transaction together with its keys -/
theorem slotW_remove {txs : List Tx} {s : List (SKey × Nat)} (hids : (txs.map (·.id)).Nodup)
    (h : SlotW txs s) {t : Tx} (ht : t ∈ txs) :
    SlotW (txs.filter (fun x => x.id != t.id)) (removeKeys s t) := by
  unfold removeKeys
  refine ⟨keys_nodup_sublist (eraseAll_sublist _ s) h.nodup, ?_, ?_⟩
  · intro e he
    obtain ⟨he1, he2⟩ := mem_eraseAll.1 he
    obtain ⟨u, hu, hu1, hu2⟩ := h.owned e he1
    refine ⟨u, List.mem_filter.2 ⟨hu, ?_⟩, hu1, hu2⟩
    simp only [bne_iff_ne, ne_eq]
    intro hid
    have : u = t := eq_of_id_eq hids hu ht hid
    subst this
    exact he2 hu2
  · intro u hu k hk id hid
    exact h.uniq u (List.mem_filter.1 hu).1 k hk id (mem_eraseAll.1 hid).1

theorem missing_remove {txs : List Tx} {s : List (SKey × Nat)} {M : SKey → Prop}
    (h : SlotW txs s) (hm : Missing txs s M) {t : Tx} (ht : t ∈ txs) :
    Missing (txs.filter (fun x => x.id != t.id)) (removeKeys s t) M := by
  unfold removeKeys
  intro u hu k hk hnot
  obtain ⟨hu1, hu2⟩ := List.mem_filter.1 hu
  simp only [bne_iff_ne, ne_eq] at hu2
  by_cases hin : k ∈ s.map (·.1)
  · exfalso
    obtain ⟨id, hid⟩ := mem_keys.1 hin
    by_cases hkt : k ∈ keysOf t
    · have e1 := h.uniq u hu1 k hk id hid
      have e2 := h.uniq t ht k hkt id hid
      exact hu2 (by rw [← e1, e2])
    · exact hnot (mem_keys.2 ⟨id, mem_eraseAll.2 ⟨hid, hkt⟩⟩)
  · exact hm u hu1 k hk hin

theorem mem_slotSet {s : List (SKey × Nat)} {k : SKey} {id : Nat} {e : SKey × Nat} :
    e ∈ slotSet s k id ↔ e = (k, id) ∨ (e ∈ s ∧ e.1 ≠ k) := by
  unfold slotSet
  simp [mem_slotErase]

theorem mem_setAll {ks : List SKey} {s : List (SKey × Nat)} {id : Nat} {e : SKey × Nat} :
    e ∈ ks.foldl (fun s k => slotSet s k id) s ↔ (e ∈ s ∧ e.1 ∉ ks) ∨ (e.1 ∈ ks ∧ e.2 = id) := by
  induction ks generalizing s with
  | nil => simp
  | cons k ks ih =>
    simp only [List.foldl_cons, ih, mem_slotSet, List.mem_cons, not_or]
    constructor
    · rintro (⟨h1 | ⟨h1, h2⟩, h3⟩ | ⟨h1, h2⟩)
      · subst h1; exact Or.inr ⟨Or.inl rfl, rfl⟩
      · exact Or.inl ⟨h1, h2, h3⟩
      · exact Or.inr ⟨Or.inr h1, h2⟩
    · rintro (⟨h1, h2, h3⟩ | ⟨h1 | h1, h2⟩)
      · exact Or.inl ⟨Or.inr ⟨h1, h2⟩, h3⟩
      · by_cases hk : e.1 ∈ ks
        · exact Or.inr ⟨hk, h2⟩
        · refine Or.inl ⟨Or.inl ?_, hk⟩
          cases e; simp_all
      · exact Or.inr ⟨h1, h2⟩

theorem setAll_nodup {ks : List SKey} {s : List (SKey × Nat)} {id : Nat} (hn : (s.map (·.1)).Nodup) :
    ((ks.foldl (fun s k => slotSet s k id) s).map (·.1)).Nodup := by
  induction ks generalizing s with
  | nil => exact hn
  | cons k ks ih =>
    apply ih
    unfold slotSet
    simp only [List.map_cons, List.nodup_cons]
    refine ⟨?_, keys_nodup_sublist (by unfold slotErase; exact List.filter_sublist) hn⟩
    intro hm
    obtain ⟨id', hid'⟩ := mem_keys.1 hm
    exact (mem_slotErase.1 hid').2 rfl

theorem lookup_none_iff {s : List (SKey × Nat)} {k : SKey} :
    s.lookup k = none ↔ k ∉ s.map (·.1) := by
  rw [List.lookup_eq_none_iff]
  simp only [List.mem_map, not_exists, not_and, bne_iff_ne, ne_eq]
  constructor
  · intro h e he heq; exact h e he heq.symm
  · intro h e he heq; exact h e he heq.symm

/-- what a successful `VerifyTx` establishes -/
theorem verify_none {s : List (SKey × Nat)} {t : Tx} (h : verify s t = none) :
    keyErr t = none ∧ ∀ k ∈ keysOf t, k ∉ s.map (·.1) := by
  unfold verify at h
  split at h
  · cases h
  · rename_i hfind
    split at h
    · cases h
    · rename_i herr
      refine ⟨herr, ?_⟩
      intro k hk
      have := List.find?_eq_none.1 hfind k hk
      simp only [Option.isSome_iff_ne_none, ne_eq, Decidable.not_not] at this
      exact lookup_none_iff.1 this

/-- adding a verified transaction with its keys keeps the slot invariant, exactly -/
theorem slotW_append {txs : List Tx} {s : List (SKey × Nat)} (h : SlotW txs s)
    (hm : Missing txs s (fun _ => False)) {t : Tx}
    (hfree : ∀ k ∈ keysOf t, k ∉ s.map (·.1)) :
    SlotW (txs ++ [t]) (appendKeys s t) ∧ Missing (txs ++ [t]) (appendKeys s t) (fun _ => False) := by
  unfold appendKeys
  refine ⟨⟨setAll_nodup h.nodup, ?_, ?_⟩, ?_⟩
  · intro e he
    rcases mem_setAll.1 he with ⟨h1, _⟩ | ⟨h1, h2⟩
    · obtain ⟨u, hu, hu'⟩ := h.owned e h1
      exact ⟨u, List.mem_append.2 (Or.inl hu), hu'⟩
    · exact ⟨t, List.mem_append.2 (Or.inr (List.mem_singleton.2 rfl)), h2.symm, h1⟩
  · intro u hu k hk id hid
    rcases List.mem_append.1 hu with hu | hu
    · rcases mem_setAll.1 hid with ⟨h1, _⟩ | ⟨h1, _⟩
      · exact h.uniq u hu k hk id h1
      · exfalso
        by_cases hin : k ∈ s.map (·.1)
        · exact hfree k h1 hin
        · exact hm u hu k hk hin
    · simp only [List.mem_singleton] at hu
      subst hu
      rcases mem_setAll.1 hid with ⟨h1, h2⟩ | ⟨_, h2⟩
      · exact absurd hk h2
      · exact h2
  · intro u hu k hk hnot
    apply hnot
    rcases List.mem_append.1 hu with hu | hu
    · by_cases hin : k ∈ s.map (·.1)
      · obtain ⟨id, hid⟩ := mem_keys.1 hin
        by_cases hkt : k ∈ keysOf t
        · exact mem_keys.2 ⟨t.id, mem_setAll.2 (Or.inr ⟨hkt, rfl⟩)⟩
        · exact mem_keys.2 ⟨id, mem_setAll.2 (Or.inl ⟨hid, hkt⟩)⟩
      · exact (hm u hu k hk hin).elim
    · simp only [List.mem_singleton] at hu
      subst hu
      exact mem_keys.2 ⟨u.id, mem_setAll.2 (Or.inr ⟨hk, rfl⟩)⟩

/-- the slot invariants only depend on the entries as a set (given the map property) -/
theorem slotW_congr {txs : List Tx} {s s' : List (SKey × Nat)} (h : SlotW txs s)
    (hn : (s'.map (·.1)).Nodup) (heq : ∀ e, e ∈ s' ↔ e ∈ s) : SlotW txs s' :=
  ⟨hn, fun e he => h.owned e ((heq e).1 he), fun t ht k hk id hid => h.uniq t ht k hk id ((heq _).1 hid)⟩

theorem missing_congr {txs : List Tx} {s s' : List (SKey × Nat)} {M : SKey → Prop} (h : Missing txs s M)
    (heq : ∀ e, e ∈ s' ↔ e ∈ s) : Missing txs s' M := by
  intro t ht k hk hnot
  apply h t ht k hk
  intro hin
  obtain ⟨id, hid⟩ := mem_keys.1 hin
  exact hnot (mem_keys.2 ⟨id, (heq _).2 hid⟩)

/-! ### pool primitives -/

theorem doRemove_of_not_has {p : Pool} {t : Tx} (h : p.has t.id = false) : doRemove lt p t = p := by
  unfold doRemove; simp [h]

theorem doRemove_txs (p : Pool) (t : Tx) :
    (doRemove lt p t).txs = p.txs.filter (fun x => x.id != t.id) := by
  unfold doRemove
  split
  · rfl
  · rename_i h
    have hf : p.has t.id = false := by simpa using h
    symm
    apply List.filter_eq_self.2
    intro x hx
    simp only [bne_iff_ne, ne_eq]
    intro hid
    have : p.has t.id = true := (has_iff p t.id).2 (hid ▸ mem_ids_of_mem hx)
    rw [hf] at this; cases this

/-- `doRemoveTransaction` of a held transaction -/
theorem doRemove_base {p : Pool} (h : Base lt p) {t : Tx} (ht : t ∈ p.txs) :
    Base lt (doRemove lt p t) := by
  have hhas : p.has t.id = true := (has_iff p t.id).2 (mem_ids_of_mem ht)
  unfold doRemove
  simp only [hhas, ↓reduceIte]
  refine ⟨?_, feeRemove_inv lt h.ids h.fee ht, slotW_remove h.ids h.slotw ht, ?_, ?_⟩
  · exact List.Nodup.sublist (List.filter_sublist.map _) h.ids
  · show p.used - t.budget = _
    rw [sum_filter_ne Tx.budget h.ids ht, h.used]
  · intro u hu; exact h.noerr u (List.mem_filter.1 hu).1

theorem doRemove_missing {p : Pool} (h : Base lt p) {t : Tx} (ht : t ∈ p.txs) {M : SKey → Prop}
    (hm : Missing p.txs p.slots M) : Missing (doRemove lt p t).txs (doRemove lt p t).slots M := by
  have hhas : p.has t.id = true := (has_iff p t.id).2 (mem_ids_of_mem ht)
  unfold doRemove
  simp only [hhas, ↓reduceIte]
  exact missing_remove h.slotw hm ht

/-- the state reached during a cleanup: `q` is a sub-pool of the pool `p0` the cleanup
    started from, satisfies `Base`, and misses only keys in `M` -/
structure Good (p0 q : Pool) (M : SKey → Prop) : Prop where
  base : Base lt q
  sub : ∀ t ∈ q.txs, t ∈ p0.txs
  miss : Missing q.txs q.slots M

theorem Good.mono {p0 q : Pool} {M M' : SKey → Prop} (h : Good lt p0 q M) (hm : ∀ k, M k → M' k) :
    Good lt p0 q M' := ⟨h.base, h.sub, missing_mono h.miss hm⟩

/-- removing (if still held) a transaction of the original pool -/
theorem Good.remove {p0 q : Pool} {M : SKey → Prop} (hp0 : (p0.txs.map (·.id)).Nodup)
    (h : Good lt p0 q M) {t : Tx} (ht : t ∈ p0.txs) : Good lt p0 (doRemove lt q t) M := by
  by_cases hhas : q.has t.id = true
  · obtain ⟨u, hu, hid⟩ := List.mem_map.1 ((has_iff q t.id).1 hhas)
    have : u = t := eq_of_id_eq hp0 (h.sub u hu) ht hid
    subst this
    refine ⟨doRemove_base lt h.base hu, ?_, doRemove_missing lt h.base hu h.miss⟩
    intro x hx
    rw [doRemove_txs] at hx
    exact h.sub x (List.mem_filter.1 hx).1
  · have : q.has t.id = false := by simpa using hhas
    rw [doRemove_of_not_has lt this]; exact h

theorem Good.foldl_doRemove {p0 : Pool} {M : SKey → Prop} (hp0 : (p0.txs.map (·.id)).Nodup)
    (L : List Tx) (hL : ∀ t ∈ L, t ∈ p0.txs) {q : Pool} (h : Good lt p0 q M) :
    Good lt p0 (L.foldl (doRemove lt) q) M := by
  induction L generalizing q with
  | nil => exact h
  | cons a L ih =>
    simp only [List.foldl_cons]
    exact ih (fun t ht => hL t (List.mem_cons_of_mem _ ht)) (h.remove lt hp0 (hL a List.mem_cons_self))

theorem Good.self {p : Pool} (h : Inv lt p) : Good lt p p (fun _ => False) := ⟨h.1, fun _ ht => ht, h.2⟩

theorem Good.inv {p0 q : Pool} (h : Good lt p0 q (fun _ => False)) : Inv lt q := ⟨h.base, h.miss⟩

/-- erasing arbitrary keys from the index (`conflictManager.removeTx` of a block transaction,
    `RemoveKey`) -/
theorem Good.eraseAll {p0 q : Pool} {M : SKey → Prop} (h : Good lt p0 q M) (ks : List SKey) :
    Good lt p0 { q with slots := ks.foldl slotErase q.slots } (fun k => M k ∨ k ∈ ks) :=
  ⟨⟨h.base.ids, h.base.fee, slotW_eraseAll h.base.slotw ks, h.base.used, h.base.noerr⟩, h.sub,
    missing_eraseAll h.miss ks⟩

theorem find_some {p : Pool} {id : Nat} {t : Tx} (h : p.find id = some t) : t ∈ p.txs ∧ t.id = id := by
  unfold Pool.find at h
  have := List.find?_some h
  exact ⟨List.mem_of_find?_eq_some h, by simpa using this⟩

/-! ### append -/

theorem pre_inv {p : Pool} (h : Inv lt p) (f : Tx → Bool) :
    Inv lt ((p.txs.filter f).foldl (doRemove lt) p) ∧
    ∀ x ∈ ((p.txs.filter f).foldl (doRemove lt) p).txs, x ∈ p.txs := by
  have g := Good.foldl_doRemove lt h.1.ids (p.txs.filter f) (fun t ht => (List.mem_filter.1 ht).1) (Good.self lt h)
  exact ⟨g.inv, g.sub⟩

theorem not_has_of_sub {p q : Pool} {id : Nat} (hsub : ∀ x ∈ q.txs, x ∈ p.txs) (h : p.has id = false) :
    q.has id = false := by
  cases hq : q.has id with
  | false => rfl
  | true =>
    obtain ⟨u, hu, hid⟩ := List.mem_map.1 ((has_iff q id).1 hq)
    have : p.has id = true := (has_iff p id).2 (List.mem_map.2 ⟨u, hsub u hu, hid⟩)
    rw [h] at this; cases this

theorem addVerified_inv (ho : RateOrder lt) (p : Pool) (t : Tx) (hsz : t.size < 2 ^ 63)
    (h : Inv lt p) (hnew : p.has t.id = false) : Inv lt (addVerified lt p t).2 := by
  unfold addVerified
  -- the side-chain-pow replacement
  have hp1 : ∀ p1 : Pool, p1 = (if t.ty = tySideChainPow then replaceDuplicateSideChainPow lt p t else p) →
      Inv lt p1 ∧ p1.has t.id = false := by
    intro p1 hp1
    subst hp1
    split
    · unfold replaceDuplicateSideChainPow
      have := pre_inv lt h (fun v => v.ty == tySideChainPow && v.get "powgen" == t.get "powgen")
      exact ⟨this.1, not_has_of_sub this.2 hnew⟩
    · exact ⟨h, hnew⟩
  generalize hq : (if t.ty = tySideChainPow then replaceDuplicateSideChainPow lt p t else p) = q
  obtain ⟨hqi, hqn⟩ := hp1 q hq.symm
  simp only []
  split
  · exact hqi
  · rename_i hver
    obtain ⟨herr, hfree⟩ := verify_none hver
    split
    · exact hqi
    · rename_i hover
      have hover' : overSize q.fl.total q.fl.max t.size = false := by simpa using hover
      simp only [herr]
      by_cases hs0 : t.size = 0
      · -- `AddTx` rejects a zero size; the keys just appended are removed again
        have hadd : doAdd lt { q with slots := appendKeys q.slots t } t =
            (.illegalSize, { q with slots := appendKeys q.slots t }) := by
          unfold doAdd feeAdd; simp [hs0]
        rw [hadd]
        simp only []
        have hmem : ∀ e, e ∈ removeKeys (appendKeys q.slots t) t ↔ e ∈ q.slots := by
          intro e
          unfold removeKeys appendKeys
          rw [mem_eraseAll, mem_setAll]
          constructor
          · rintro ⟨⟨h1, _⟩ | ⟨h1, _⟩, h2⟩
            · exact h1
            · exact absurd h1 h2
          · intro he
            have : e.1 ∉ keysOf t := fun hk => hfree e.1 hk (List.mem_map.2 ⟨e, he, rfl⟩)
            exact ⟨Or.inl ⟨he, this⟩, this⟩
        have hnd : ((removeKeys (appendKeys q.slots t) t).map (·.1)).Nodup := by
          unfold removeKeys appendKeys
          exact keys_nodup_sublist (eraseAll_sublist _ _) (setAll_nodup hqi.1.slotw.nodup)
        exact ⟨⟨hqi.1.ids, hqi.1.fee, slotW_congr hqi.1.slotw hnd hmem, hqi.1.used, hqi.1.noerr⟩,
          missing_congr hqi.2 hmem⟩
      · have hadd : doAdd lt { q with slots := appendKeys q.slots t } t =
            (.ok, { q with slots := appendKeys q.slots t,
                           fl := (feeAdd lt q.fl t.id t.rate t.size).2.1,
                           txs := q.txs ++ [t], used := q.used + t.budget }) := by
          unfold doAdd
          rw [feeAdd_plain lt q.fl t.id t.rate t.size hs0 hover']
          simp
        rw [hadd]
        simp only []
        have hfresh : t.id ∉ q.txs.map (·.id) := by
          intro hm
          have := (has_iff q t.id).2 hm
          rw [hqn] at this; cases this
        obtain ⟨hsw, hmiss⟩ := slotW_append hqi.1.slotw hqi.2 hfree
        refine ⟨⟨?_, feeAdd_inv lt ho hqi.1.fee hfresh hs0 hsz hover', hsw, ?_, ?_⟩, hmiss⟩
        · simp only [List.map_append, List.map_cons, List.map_nil]
          apply List.nodup_append.2
          refine ⟨hqi.1.ids, by simp, ?_⟩
          intro a ha b hb
          simp only [List.mem_singleton] at hb
          subst hb
          intro hab; subst hab; exact hfresh ha
        · show q.used + t.budget = _
          simp only [List.map_append, List.map_cons, List.map_nil, List.sum_append, List.sum_cons, List.sum_nil]
          rw [hqi.1.used]; omega
        · intro u hu
          rcases List.mem_append.1 hu with hu | hu
          · exact hqi.1.noerr u hu
          · simp only [List.mem_singleton] at hu; subst hu; exact herr

theorem append_inv (ho : RateOrder lt) (p : Pool) (t : Tx) (sa cx : Bool) (hsz : t.size < 2 ^ 63)
    (h : Inv lt p) : Inv lt (append lt p t sa cx).2.1 := by
  unfold append
  split
  · exact h
  · have hp1 : ∀ p1 : Pool, p1 = (if t.ty = tyCRCAppropriation then removeCRAppropriationConflicts lt p else p) →
        Inv lt p1 := by
      intro p1 hp1
      subst hp1
      split
      · unfold removeCRAppropriationConflicts
        exact (pre_inv lt h _).1
      · exact h
    generalize hq : (if t.ty = tyCRCAppropriation then removeCRAppropriationConflicts lt p else p) = q
    have hqi := hp1 q hq.symm
    simp only []
    split
    · exact hqi
    · rename_i hnh
      split
      · exact hqi
      · split
        · exact hqi
        · split
          · exact hqi
          · exact addVerified_inv lt ho q t hsz hqi (by simpa using hnh)

/-! ### cleanup -/

theorem foldl_doRemove_txs (L : List Tx) (q : Pool) :
    ∀ x ∈ (L.foldl (doRemove lt) q).txs, x ∈ q.txs ∧ ∀ t ∈ L, x.id ≠ t.id := by
  induction L generalizing q with
  | nil => intro x hx; exact ⟨hx, by simp⟩
  | cons a L ih =>
    intro x hx
    simp only [List.foldl_cons] at hx
    obtain ⟨h1, h2⟩ := ih _ x hx
    rw [doRemove_txs] at h1
    obtain ⟨h3, h4⟩ := List.mem_filter.1 h1
    simp only [bne_iff_ne, ne_eq] at h4
    refine ⟨h3, ?_⟩
    intro t ht
    rcases List.mem_cons.1 ht with rfl | ht
    · exact h4
    · exact h2 t ht

/-- block transactions are identified by their hash: a held transaction with the id of a block
    transaction *is* that transaction -/
def IdsAgree (p : Pool) (block : List Tx) : Prop := ∀ b ∈ block, ∀ t ∈ p.txs, t.id = b.id → t = b

theorem Good.find_remove {p0 q : Pool} {M : SKey → Prop} (hp0 : (p0.txs.map (·.id)).Nodup)
    (h : Good lt p0 q M) (k : SKey) :
    Good lt p0 (match q.slots.lookup k with
      | some owner => (match q.find owner with
          | some t => ElaVerif.Pool.doRemove lt q t
          | none => q)
      | none => q) M := by
  split
  · split
    · rename_i hf
      exact h.remove lt hp0 (h.sub _ (find_some hf).1)
    · exact h
  · exact h

theorem mem_removeOwned {s : List (SKey × Nat)} {b : Tx} {e : SKey × Nat} :
    e ∈ removeOwned s b ↔ e ∈ s ∧ ¬ (e.1 ∈ keysOf b ∧ e.2 = b.id) := by
  unfold removeOwned
  simp only [List.mem_filter, Bool.not_eq_true', Bool.and_eq_false_imp, List.contains_eq_mem, decide_eq_true_eq,
    beq_eq_false_iff_ne, ne_eq, not_and]

/-- clearing the entries the block transaction itself holds, when no held transaction has its id:
    nothing a held transaction needs is lost -/
theorem Good.removeOwned {p0 q : Pool} {M : SKey → Prop} (h : Good lt p0 q M) (b : Tx)
    (hno : ∀ u ∈ q.txs, u.id ≠ b.id) :
    Good lt p0 { q with slots := ElaVerif.Pool.removeOwned q.slots b } M := by
  have hsub : (ElaVerif.Pool.removeOwned q.slots b).Sublist q.slots := by
    unfold ElaVerif.Pool.removeOwned; exact List.filter_sublist
  refine ⟨⟨h.base.ids, h.base.fee, ⟨keys_nodup_sublist hsub h.base.slotw.nodup, ?_, ?_⟩, h.base.used, h.base.noerr⟩,
    h.sub, ?_⟩
  · intro e he; exact h.base.slotw.owned e (mem_removeOwned.1 he).1
  · intro t ht k hk id hid; exact h.base.slotw.uniq t ht k hk id (mem_removeOwned.1 hid).1
  · intro u hu k hk hnot
    apply h.miss u hu k hk
    intro hin
    obtain ⟨id, hid⟩ := mem_keys.1 hin
    apply hnot
    apply mem_keys.2
    refine ⟨id, mem_removeOwned.2 ⟨hid, ?_⟩⟩
    rintro ⟨_, hidb⟩
    simp only at hidb
    have := h.base.slotw.uniq u hu k hk id hid
    exact hno u hu (by rw [← this, hidb])

theorem Good.cleanOne {p0 q : Pool} {M : SKey → Prop} (hp0 : (p0.txs.map (·.id)).Nodup)
    (h : Good lt p0 q M) {b : Tx} (hb : ∀ t ∈ p0.txs, t.id = b.id → t = b) :
    Good lt p0 (ElaVerif.Pool.cleanOne lt q b) M := by
  unfold ElaVerif.Pool.cleanOne
  split
  · exact h
  · split
    · split
      · rename_i hhas
        obtain ⟨u, hu, hid⟩ := List.mem_map.1 ((has_iff q b.id).1 hhas)
        have : u = b := hb u (h.sub u hu) hid
        subst this
        exact h.remove lt hp0 (h.sub u hu)
      · exact h
    · split
      · exact h
      · have hfold : ∀ (ins : List Key) (q : Pool), Good lt p0 q M →
            Good lt p0 (ins.foldl (fun p k =>
              match p.slots.lookup (slotInputs, k) with
              | some owner => (match p.find owner with
                  | some t => ElaVerif.Pool.doRemove lt p t
                  | none => p)
              | none => p) q) M := by
          intro ins
          induction ins with
          | nil => intro q hq; exact hq
          | cons k ins ih =>
            intro q hq
            simp only [List.foldl_cons]
            exact ih _ (hq.find_remove lt hp0 (slotInputs, k))
        have h1 := hfold (b.get "in") q h
        generalize (List.foldl (fun p k =>
              match p.slots.lookup (slotInputs, k) with
              | some owner => (match p.find owner with
                  | some t => ElaVerif.Pool.doRemove lt p t
                  | none => p)
              | none => p) q (b.get "in")) = q1 at h1
        -- the pooled copy, if any, goes
        have h2 : ∃ q2, q2 = (match q1.find b.id with
              | some t => ElaVerif.Pool.doRemove lt q1 t
              | none => q1) ∧ Good lt p0 q2 M ∧ ∀ u ∈ q2.txs, u.id ≠ b.id := by
          refine ⟨_, rfl, ?_⟩
          split
          · rename_i t hf
            obtain ⟨ht, hid⟩ := find_some hf
            refine ⟨h1.remove lt hp0 (h1.sub t ht), ?_⟩
            intro u hu
            rw [doRemove_txs] at hu
            have := (List.mem_filter.1 hu).2
            simp only [bne_iff_ne, ne_eq] at this
            rw [← hid]; exact this
          · rename_i hf
            refine ⟨h1, ?_⟩
            intro u hu hid
            unfold Pool.find at hf
            have := List.find?_eq_none.1 hf u hu
            simp [hid] at this
        obtain ⟨q2, hq2, hg2, hno⟩ := h2
        show Good lt p0 { txs := (match q1.find b.id with
              | some t => ElaVerif.Pool.doRemove lt q1 t
              | none => q1).txs, fl := (match q1.find b.id with
              | some t => ElaVerif.Pool.doRemove lt q1 t
              | none => q1).fl, slots := ElaVerif.Pool.removeOwned (match q1.find b.id with
              | some t => ElaVerif.Pool.doRemove lt q1 t
              | none => q1).slots b, used := (match q1.find b.id with
              | some t => ElaVerif.Pool.doRemove lt q1 t
              | none => q1).used } M
        rw [← hq2]
        exact hg2.removeOwned lt b hno

theorem Good.foldl_cleanOne {p0 : Pool} (hp0 : (p0.txs.map (·.id)).Nodup) (block : List Tx)
    (hb : IdsAgree p0 block) {q : Pool} {M : SKey → Prop} (h : Good lt p0 q M) :
    Good lt p0 (block.foldl (ElaVerif.Pool.cleanOne lt) q) M := by
  induction block generalizing q with
  | nil => exact h
  | cons a block ih =>
    simp only [List.foldl_cons]
    exact ih (fun b hbm => hb b (List.mem_cons_of_mem _ hbm)) (h.cleanOne lt hp0 (hb a List.mem_cons_self))

theorem Good.cleanPow {p0 q : Pool} {M : SKey → Prop} (hp0 : (p0.txs.map (·.id)).Nodup)
    (h : Good lt p0 q M) : Good lt p0 (ElaVerif.Pool.cleanPow lt q) M := by
  unfold ElaVerif.Pool.cleanPow
  exact Good.foldl_doRemove lt hp0 _ (fun t ht => h.sub t (List.mem_filter.1 ht).1) h

/-! ### keys of the slot table, cancel sweep, whole cleanup -/

theorem keysGo_mem (tbl : List SlotDef) (i0 : Nat) (t : Tx) (herr : (keysGo tbl i0 t).2 = none)
    (j : Nat) (sd : SlotDef) (hsd : tbl[j]? = some sd) :
    ∃ ks, slotKeys sd t = .ok ks ∧ ∀ k ∈ ks, (i0 + j, k) ∈ (keysGo tbl i0 t).1 := by
  induction tbl generalizing i0 j with
  | nil => simp at hsd
  | cons sd0 rest ih =>
    unfold keysGo at herr ⊢
    cases hk : slotKeys sd0 t with
    | error e => rw [hk] at herr; simp at herr
    | ok ks0 =>
      rw [hk] at herr
      simp only at herr ⊢
      cases j with
      | zero =>
        simp only [List.getElem?_cons_zero, Option.some.injEq] at hsd
        subst hsd
        refine ⟨ks0, hk, ?_⟩
        intro k hk'
        simp only [Nat.add_zero]
        exact List.mem_append.2 (Or.inl (List.mem_map.2 ⟨k, hk', rfl⟩))
      | succ j =>
        simp only [List.getElem?_cons_succ] at hsd
        obtain ⟨ks, h1, h2⟩ := ih (i0 + 1) herr j hsd
        refine ⟨ks, h1, ?_⟩
        intro k hk'
        have := h2 k hk'
        rw [show i0 + (j + 1) = i0 + 1 + j by omega]
        exact List.mem_append.2 (Or.inr this)

theorem evalKey_ok {fn : KeyFn} {t : Tx} {ks : List Key} (h : evalKey fn t = .ok ks) :
    (t.get "keyerr").contains fn.name = false := by
  unfold evalKey at h
  split at h
  · cases h
  · rename_i hc; simpa using hc

theorem slot_key_mem {t : Tx} (herr : keyErr t = none) (j : Nat) (sd : SlotDef) (fn : KeyFn)
    (hsd : table[j]? = some sd) (hfn : sd.fn t = some fn) {ks : List Key}
    (hks : ∀ ks', evalKey fn t = .ok ks' → ks' = ks) : ∀ k ∈ ks, (j, k) ∈ keysOf t := by
  obtain ⟨ks', h1, h2⟩ := keysGo_mem table 0 t herr j sd hsd
  unfold slotKeys at h1
  rw [hfn] at h1
  have := hks ks' h1
  subst this
  intro k hk
  have := h2 k hk
  simpa [keysOf] using this

theorem evalKey_ok_eq {fn : KeyFn} {t : Tx} {ks : List Key} (h : evalKey fn t = .ok ks) :
    evalKey fn t = .ok ks ∧ (t.get "keyerr").contains fn.name = false := by
  refine ⟨h, ?_⟩
  unfold evalKey at h
  split at h
  · cases h
  · rename_i hc; simpa using hc

/-- an UpdateProducer transaction without key errors indexes its owner key in the owner slot -/
theorem updateProducer_owner_key {t : Tx} (hty : t.ty = tyUpdateProducer) (herr : keyErr t = none) :
    ∀ o ∈ t.one "own", (slotOwner, o) ∈ keysOf t := by
  apply slot_key_mem herr slotOwner _ .strProducerInfoOwnerPublicKey (by rfl)
  · unfold SlotDef.fn; rw [hty]; rfl
  · intro ks' h
    have hc := (evalKey_ok_eq h).2
    unfold evalKey at h
    simp only [hc, Bool.false_eq_true, ↓reduceIte, Except.ok.injEq] at h
    exact h.symm

theorem updateProducer_node_key {t : Tx} (hty : t.ty = tyUpdateProducer) (herr : keyErr t = none) :
    ∀ o ∈ t.one "node", (slotNode, o) ∈ keysOf t := by
  apply slot_key_mem herr slotNode _ .strProducerInfoNodePublicKey (by rfl)
  · unfold SlotDef.fn; rw [hty]; rfl
  · intro ks' h
    have hc := (evalKey_ok_eq h).2
    unfold evalKey at h
    simp only [hc, Bool.false_eq_true, ↓reduceIte, Except.ok.injEq] at h
    exact h.symm

theorem updateCR_cid_key {t : Tx} (hty : t.ty = tyUpdateCR) (herr : keyErr t = none) :
    ∀ o ∈ t.one "cid", (slotCRDID, o) ∈ keysOf t := by
  apply slot_key_mem herr slotCRDID _ .addrCRInfoCRCID (by rfl)
  · unfold SlotDef.fn; rw [hty]; rfl
  · intro ks' h
    have hc := (evalKey_ok_eq h).2
    unfold evalKey at h
    simp only [hc, Bool.false_eq_true, ↓reduceIte, Except.ok.injEq] at h
    exact h.symm

theorem slotErase_noop {s : List (SKey × Nat)} {k : SKey} (h : k ∉ s.map (·.1)) : slotErase s k = s := by
  unfold slotErase
  apply List.filter_eq_self.2
  intro e he
  simp only [ne_eq, decide_eq_true_eq]
  intro hk
  exact h (List.mem_map.2 ⟨e, he, hk⟩)

theorem keys_absent_after_remove {p : Pool} {t : Tx} (ht : t ∈ p.txs) :
    ∀ k ∈ keysOf t, k ∉ (doRemove lt p t).slots.map (·.1) := by
  have hhas : p.has t.id = true := (has_iff p t.id).2 (mem_ids_of_mem ht)
  intro k hk hin
  unfold doRemove at hin
  simp only [hhas, ↓reduceIte] at hin
  obtain ⟨id, hid⟩ := mem_keys.1 hin
  unfold removeKeys at hid
  exact (mem_eraseAll.1 hid).2 hk

theorem foldl_good {p0 : Pool} {M : SKey → Prop} (f : Pool → Tx → Pool)
    (hf : ∀ p t, Good lt p0 p M → t ∈ p0.txs → Good lt p0 (f p t) M)
    (L : List Tx) (hL : ∀ t ∈ L, t ∈ p0.txs) {q : Pool} (h : Good lt p0 q M) :
    Good lt p0 (L.foldl f q) M := by
  induction L generalizing q with
  | nil => exact h
  | cons a L ih =>
    simp only [List.foldl_cons]
    exact ih (fun t ht => hL t (List.mem_cons_of_mem _ ht)) (hf q a h (hL a List.mem_cons_self))

theorem held_of_has {p0 q : Pool} {M : SKey → Prop} (hp0 : (p0.txs.map (·.id)).Nodup)
    (h : Good lt p0 q M) {t : Tx} (ht : t ∈ p0.txs) (hhas : q.has t.id = true) : t ∈ q.txs := by
  obtain ⟨u, hu, hid⟩ := List.mem_map.1 ((has_iff q t.id).1 hhas)
  have : u = t := eq_of_id_eq hp0 (h.sub u hu) ht hid
  subst this; exact hu

theorem Good.cleanProducer {p0 q : Pool} {M : SKey → Prop} (hp0 : (p0.txs.map (·.id)).Nodup)
    (h : Good lt p0 q M) (owner : Key) : Good lt p0 (ElaVerif.Pool.cleanProducer lt q owner) M := by
  unfold ElaVerif.Pool.cleanProducer
  apply foldl_good lt _ _ q.txs h.sub h
  intro p t hp ht
  split
  · exact hp
  · rename_i hhas
    have hhas' : p.has t.id = true := by simpa using hhas
    have htp := held_of_has lt hp0 hp ht hhas'
    split
    · split
      · exact hp.remove lt hp0 ht
      · exact hp
    · split
      · rename_i hcond
        unfold removeTransaction
        have hg := hp.remove lt hp0 ht
        have hne := hp.base.noerr t htp
        have habs := keys_absent_after_remove lt htp (p := p)
        have e1 : slotErase (doRemove lt p t).slots (slotOwner, owner) = (doRemove lt p t).slots :=
          slotErase_noop (habs _ (updateProducer_owner_key hcond.1 hne owner (by rw [hcond.2]; simp)))
        have e2 : ∀ (ns : List Key), (∀ n ∈ ns, n ∈ t.one "node") →
            ns.foldl (fun s k => slotErase s (slotNode, k)) (doRemove lt p t).slots = (doRemove lt p t).slots := by
          intro ns
          induction ns with
          | nil => intro _; rfl
          | cons n ns ih =>
            intro hns
            simp only [List.foldl_cons]
            rw [slotErase_noop (habs _ (updateProducer_node_key hcond.1 hne n (hns n List.mem_cons_self)))]
            exact ih (fun m hm => hns m (List.mem_cons_of_mem _ hm))
        simp only [e1, e2 (t.one "node") (fun _ hn => hn)]
        exact hg
      · exact hp

theorem Good.cleanCR {p0 q : Pool} {M : SKey → Prop} (hp0 : (p0.txs.map (·.id)).Nodup)
    (h : Good lt p0 q M) (cid : Key) : Good lt p0 (ElaVerif.Pool.cleanCR lt q cid) M := by
  unfold ElaVerif.Pool.cleanCR
  apply foldl_good lt _ _ q.txs h.sub h
  intro p t hp ht
  split
  · exact hp
  · rename_i hhas
    have hhas' : p.has t.id = true := by simpa using hhas
    have htp := held_of_has lt hp0 hp ht hhas'
    split
    · split
      · exact hp.remove lt hp0 ht
      · exact hp
    · split
      · rename_i hcond
        unfold removeTransaction
        have hg := hp.remove lt hp0 ht
        have hne := hp.base.noerr t htp
        have habs := keys_absent_after_remove lt htp (p := p)
        have e1 : slotErase (doRemove lt p t).slots (slotCRDID, cid) = (doRemove lt p t).slots :=
          slotErase_noop (habs _ (updateCR_cid_key hcond.1 hne cid (by rw [hcond.2]; simp)))
        simp only [e1]
        exact hg
      · exact hp

theorem foldl_good_keys {p0 : Pool} {M : SKey → Prop} (f : Pool → Key → Pool)
    (hf : ∀ p k, Good lt p0 p M → Good lt p0 (f p k) M)
    (L : List Key) {q : Pool} (h : Good lt p0 q M) : Good lt p0 (L.foldl f q) M := by
  induction L generalizing q with
  | nil => exact h
  | cons a L ih => simp only [List.foldl_cons]; exact ih (hf q a h)

theorem Good.cleanCanceled {p0 q : Pool} {M : SKey → Prop} (hp0 : (p0.txs.map (·.id)).Nodup)
    (h : Good lt p0 q M) (block : List Tx) : Good lt p0 (ElaVerif.Pool.cleanCanceled lt q block) M := by
  unfold ElaVerif.Pool.cleanCanceled
  induction block generalizing q with
  | nil => exact h
  | cons b block ih =>
    simp only [List.foldl_cons]
    apply ih
    have h1 : Good lt p0 (if b.ty = tyCancelProducer then (b.one "own").foldl (ElaVerif.Pool.cleanProducer lt) q else q) M := by
      split
      · exact foldl_good_keys lt _ (fun p k hp => hp.cleanProducer lt hp0 k) _ h
      · exact h
    split
    · exact foldl_good_keys lt _ (fun p k hp => hp.cleanCR lt hp0 k) _ h1
    · exact h1

/-- `CleanSubmittedTransactions` keeps the whole invariant (after the `fix:` bf24ffb2: the index entries
    of held transactions that share a key with a block transaction stay) -/
theorem Good.cleanSubmitted {p : Pool} (h : Inv lt p) (block : List Tx) (hb : IdsAgree p block) :
    Good lt p (ElaVerif.Pool.cleanSubmitted lt p block) (fun _ => False) := by
  unfold ElaVerif.Pool.cleanSubmitted
  have h1 := Good.foldl_cleanOne lt h.1.ids block hb (Good.self lt h)
  exact (h1.cleanPow lt h.1.ids).cleanCanceled lt h.1.ids block

/-- the post-block cleanup keeps the invariant, whatever the re-check rejects -/
theorem postBlock_inv {p : Pool} (h : Inv lt p) (block : List Tx) (rej : List Nat)
    (hb : IdsAgree p block) : Inv lt (postBlock lt p block rej) := by
  unfold postBlock checkAndClean
  have hg := Good.cleanSubmitted lt h block hb
  generalize ElaVerif.Pool.cleanSubmitted lt p block = q at hg
  exact (Good.foldl_doRemove lt h.1.ids (q.txs.filter (fun t => rej.contains t.id))
    (fun t ht => hg.sub t (List.mem_filter.1 ht).1) hg).inv

theorem removeSpenders_inv {p : Pool} (h : Inv lt p) (t : Tx) : Inv lt (removeSpenders lt p t) := by
  unfold removeSpenders
  have hfold : ∀ (L : List Nat) (q : Pool), Good lt p q (fun _ => False) →
      Good lt p (L.foldl (fun p i =>
        match p.slots.lookup (slotInputs, referKey t.id i) with
        | some owner => (match p.find owner with
            | some x => removeTransaction lt p x
            | none => p)
        | none => p) q) (fun _ => False) := by
    intro L
    induction L with
    | nil => intro q hq; exact hq
    | cons i L ih =>
      intro q hq
      simp only [List.foldl_cons]
      exact ih _ (hq.find_remove lt h.1.ids (slotInputs, referKey t.id i))
  exact (hfold _ p (Good.self lt h)).inv


/-! ### which transactions an operation can leave in the pool -/

theorem pre_sub (p : Pool) (f : Tx → Bool) :
    ∀ x ∈ ((p.txs.filter f).foldl (doRemove lt) p).txs, x ∈ p.txs :=
  fun x hx => (foldl_doRemove_txs lt _ p x hx).1

theorem onPopBack_sub (p : Pool) (id : Nat) : ∀ x ∈ (onPopBack p id).txs, x ∈ p.txs := by
  intro x hx
  unfold onPopBack at hx
  split at hx
  · exact hx
  · split at hx
    · exact hx
    · exact (List.mem_filter.1 hx).1

theorem foldl_onPopBack_sub {L : List Nat} {p : Pool} {x : Tx} (hx : x ∈ (L.foldl onPopBack p).txs) :
    x ∈ p.txs := by
  induction L generalizing p with
  | nil => exact hx
  | cons a L ih =>
    simp only [List.foldl_cons] at hx
    exact onPopBack_sub p a x (ih hx)

theorem doAdd_sub (p : Pool) (t : Tx) : ∀ x ∈ (doAdd lt p t).2.txs, x ∈ p.txs ∨ x = t := by
  intro x hx
  unfold doAdd at hx
  split at hx
  · simp only at hx
    rcases List.mem_append.1 hx with h | h
    · have h' := foldl_onPopBack_sub h
      exact Or.inl h'
    · exact Or.inr (List.mem_singleton.1 h)
  · exact Or.inl hx

theorem addVerified_sub (p : Pool) (t : Tx) : ∀ x ∈ (addVerified lt p t).2.txs, x ∈ p.txs ∨ x = t := by
  intro x hx
  unfold addVerified at hx
  have hq : ∀ y ∈ (if t.ty = tySideChainPow then replaceDuplicateSideChainPow lt p t else p).txs, y ∈ p.txs := by
    intro y hy
    split at hy
    · unfold replaceDuplicateSideChainPow at hy; exact pre_sub lt p _ y hy
    · exact hy
  generalize (if t.ty = tySideChainPow then replaceDuplicateSideChainPow lt p t else p) = q at hx hq
  simp only [] at hx
  split at hx
  · exact Or.inl (hq x hx)
  · split at hx
    · exact Or.inl (hq x hx)
    · split at hx
      · exact Or.inl (hq x hx)
      · split at hx
        · rename_i p' heq
          have := doAdd_sub lt { q with slots := appendKeys q.slots t } t x (by rw [heq]; exact hx)
          rcases this with h | h
          · exact Or.inl (hq x h)
          · exact Or.inr h
        · rename_i r p' _ heq
          have := doAdd_sub lt { q with slots := appendKeys q.slots t } t x (by rw [heq]; exact hx)
          rcases this with h | h
          · exact Or.inl (hq x h)
          · exact Or.inr h

theorem append_sub (p : Pool) (t : Tx) (sa cx : Bool) :
    ∀ x ∈ (append lt p t sa cx).2.1.txs, x ∈ p.txs ∨ x = t := by
  intro x hx
  unfold append at hx
  split at hx
  · exact Or.inl hx
  · have hq : ∀ y ∈ (if t.ty = tyCRCAppropriation then removeCRAppropriationConflicts lt p else p).txs, y ∈ p.txs := by
      intro y hy
      split at hy
      · unfold removeCRAppropriationConflicts at hy; exact pre_sub lt p _ y hy
      · exact hy
    generalize (if t.ty = tyCRCAppropriation then removeCRAppropriationConflicts lt p else p) = q at hx hq
    simp only [] at hx
    split at hx
    · exact Or.inl (hq x hx)
    · split at hx
      · exact Or.inl (hq x hx)
      · split at hx
        · exact Or.inl (hq x hx)
        · split at hx
          · exact Or.inl (hq x hx)
          · rcases addVerified_sub lt q t x hx with h | h
            · exact Or.inl (hq x h)
            · exact Or.inr h

theorem postBlock_sub (p : Pool) (block : List Tx) (rej : List Nat) (h : Inv lt p) (hb : IdsAgree p block) :
    ∀ x ∈ (postBlock lt p block rej).txs, x ∈ p.txs := by
  intro x hx
  unfold postBlock checkAndClean at hx
  exact (Good.cleanSubmitted lt h block hb).sub x (foldl_doRemove_txs lt _ _ x hx).1

theorem removeSpenders_sub (p : Pool) (t : Tx) : ∀ x ∈ (removeSpenders lt p t).txs, x ∈ p.txs := by
  unfold removeSpenders
  have hfold : ∀ (L : List Nat) (q : Pool), (∀ x ∈ q.txs, x ∈ p.txs) →
      ∀ x ∈ (L.foldl (fun p i =>
        match p.slots.lookup (slotInputs, referKey t.id i) with
        | some owner => (match p.find owner with
            | some x => removeTransaction lt p x
            | none => p)
        | none => p) q).txs, x ∈ p.txs := by
    intro L
    induction L with
    | nil => intro q hq; exact hq
    | cons i L ih =>
      intro q hq
      simp only [List.foldl_cons]
      apply ih
      intro x hx
      split at hx
      · split at hx
        · unfold removeTransaction at hx
          rw [doRemove_txs] at hx
          exact hq x (List.mem_filter.1 hx).1
        · exact hq x hx
      · exact hq x hx
  exact hfold _ p (fun _ h => h)

end
end ElaVerif.Pool
