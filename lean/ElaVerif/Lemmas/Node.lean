import ElaVerif.Model.Node
/-!
  Invariants of the node model (`Model/Node.lean`) over every operation:
  the ledger kept with each active block is the replay of the chain below it, and the pool never
  holds two transactions with a common input.
-/
namespace ElaVerif.Node
open ElaVerif.Index

def ledgerBelow (gl : Ledger) : List (Block × Ledger) → Ledger
  | [] => gl
  | (_, L) :: _ => L

/-- every stored ledger is `applyBlock` of the one below -/
def StackOk (gl : Ledger) : List (Block × Ledger) → Prop
  | [] => True
  | (b, L) :: rest => L = applyBlock (ledgerBelow gl rest) b ∧ StackOk gl rest

/-- no two pool transactions share an input -/
def PoolInv (pool : List Tx) : Prop := (poolIns pool).Nodup

structure Good (s : NState) : Prop where
  stack : StackOk s.gledger s.active
  pool : PoolInv s.pool

/-- the active chain, genesis first -/
def chainOf (s : NState) : List Block := s.genesis :: (s.active.reverse.map (·.1))

theorem ledger_eq_below (s : NState) : s.ledger = ledgerBelow s.gledger s.active := by
  unfold NState.ledger ledgerBelow
  cases s.active with
  | nil => rfl
  | cons a r => rfl

theorem ledgerBelow_eq_replay (g : Block) (gl : Ledger) (hg : gl = applyBlock {} g)
    (st : List (Block × Ledger)) (h : StackOk gl st) :
    ledgerBelow gl st = replay (g :: (st.reverse.map (·.1))) := by
  induction st with
  | nil => simp [ledgerBelow, replay, hg]
  | cons a r ih =>
    obtain ⟨b, L⟩ := a
    obtain ⟨h1, h2⟩ := h
    have := ih h2
    simp only [ledgerBelow, List.reverse_cons, List.map_append, List.map_cons, List.map_nil]
    rw [h1, this]
    simp [replay, List.foldl_append]

/-! pool -/

theorem poolInv_filter (pool : List Tx) (p : Tx → Bool) (h : PoolInv pool) : PoolInv (pool.filter p) := by
  unfold PoolInv poolIns at *
  induction pool with
  | nil => simp
  | cons t r ih =>
    simp only [List.flatMap_cons] at h
    have h' := List.nodup_append.mp h
    by_cases hp : p t
    · simp only [List.filter_cons, hp, if_true, List.flatMap_cons]
      refine List.nodup_append.mpr ⟨h'.1, ih h'.2.1, ?_⟩
      intro a ha b hb
      apply h'.2.2 a ha b
      obtain ⟨x, hx, hbx⟩ := List.mem_flatMap.mp hb
      exact List.mem_flatMap.mpr ⟨x, (List.mem_filter.mp hx).1, hbx⟩
    · simp only [List.filter_cons, hp, Bool.false_eq_true, if_false]
      exact ih h'.2.1

theorem nodupB_nodup {α : Type} [BEq α] [LawfulBEq α] (l : List α) (h : nodupB l = true) : l.Nodup := by
  induction l with
  | nil => simp
  | cons a r ih =>
    simp only [nodupB, Bool.and_eq_true, Bool.not_eq_true', List.contains_eq_mem, decide_eq_false_iff_not] at h
    exact List.nodup_cons.mpr ⟨h.1, ih h.2⟩

theorem poolInv_append (pool : List Tx) (tx : Tx) (h : PoolInv pool)
    (hs : nodupB tx.ins = true)
    (hc : ∀ p ∈ tx.ins, p ∉ poolIns pool) : PoolInv (pool ++ [tx]) := by
  unfold PoolInv poolIns at *
  rw [List.flatMap_append]
  simp only [List.flatMap_cons, List.flatMap_nil, List.append_nil]
  refine List.nodup_append.mpr ⟨h, nodupB_nodup _ hs, ?_⟩
  intro a ha b hb e
  exact hc b hb (e ▸ ha)

theorem poolInv_poolAdd (P : Params) (L : Ledger) (th : Nat) (pool : List Tx) (tx : Tx)
    (h : PoolInv pool) : PoolInv (poolAdd P L th pool tx).1 := by
  unfold poolAdd
  have hr : PoolInv (poolReplace pool tx) := by
    unfold poolReplace
    split
    · exact poolInv_filter _ _ h
    · exact h
  split
  · next hpre =>
    split
    · next hconf =>
      unfold poolPre at hpre
      simp only [Bool.and_eq_true] at hpre
      have hsane := hpre.1.2
      unfold txSane at hsane
      simp only [Bool.and_eq_true] at hsane
      apply poolInv_append _ tx hr hsane.1.2
      intro p hp hin
      have := (List.all_eq_true.mp hconf) p hp
      simp [hin] at this
    · exact hr
  · exact h

theorem poolInv_onDisconnect (P : Params) (L : Ledger) (th : Nat) (pool : List Tx) (b : Block)
    (h : PoolInv pool) : PoolInv (poolOnDisconnect P L th pool b) := by
  unfold poolOnDisconnect
  generalize b.txs.drop 1 = txs
  induction txs generalizing pool with
  | nil => exact h
  | cons tx r ih =>
    simp only [List.foldl_cons]
    apply ih
    split
    · exact poolInv_poolAdd P L th pool tx h
    · exact poolInv_filter _ _ (poolInv_poolAdd P L th pool tx h)

/-! every operation keeps `Good` -/

theorem good_connectTip (s s' : NState) (b : Block) (h : Good s) (hc : connectTip s b = some s') : Good s' := by
  unfold connectTip at hc
  split at hc
  · cases hc
    refine ⟨?_, poolInv_filter _ _ h.pool⟩
    exact ⟨by rw [ledger_eq_below], h.stack⟩
  · cases hc

theorem good_disconnectTip (s : NState) (h : Good s) : Good (disconnectTip s) := by
  unfold disconnectTip
  cases ha : s.active with
  | nil => simpa [ha] using h
  | cons a r =>
    obtain ⟨b, L⟩ := a
    have hst := h.stack
    rw [ha] at hst
    exact ⟨hst.2, poolInv_onDisconnect _ _ _ _ _ h.pool⟩

theorem good_iterate_disconnect (n : List Nat) (s : NState) (h : Good s) :
    Good (n.foldl (fun s _ => disconnectTip s) s) := by
  induction n generalizing s with
  | nil => exact h
  | cons a r ih => exact ih _ (good_disconnectTip s h)

theorem good_attachStep (acc : NState × Bool) (b : Block) (h : Good acc.1) : Good (attachStep acc b).1 := by
  unfold attachStep
  split
  · cases hc : connectTip acc.1 b with
    | some s' => exact good_connectTip _ _ _ h hc
    | none => exact h
  · exact h

theorem good_reorganize (s : NState) (d : Nat) (attach : List Block) (h : Good s) :
    Good (reorganize s d attach).1 := by
  unfold reorganize
  have h1 := good_iterate_disconnect (List.range d) s h
  generalize (List.range d).foldl (fun s _ => disconnectTip s) s = s1 at h1
  have : ∀ (acc : NState × Bool), Good acc.1 → Good (attach.foldl attachStep acc).1 := by
    induction attach with
    | nil => intro acc ha; exact ha
    | cons b r ih =>
      intro acc ha
      simp only [List.foldl_cons]
      exact ih _ (good_attachStep acc b ha)
  exact this (s1, true) h1

theorem good_setPool (s : NState) (p : Tx → Bool) (h : Good s) : Good { s with pool := s.pool.filter p } :=
  ⟨h.stack, poolInv_filter _ _ h.pool⟩

theorem good_known (s : NState) (b : Block) (h : Good s) : Good (addKnown s b) := ⟨h.stack, h.pool⟩
theorem good_orphans (s : NState) (k : List Block) (h : Good s) : Good { s with orphans := k } := ⟨h.stack, h.pool⟩

theorem good_cleanPool (s : NState) (h : Good s) : Good (cleanPool s) :=
  ⟨h.stack, poolInv_filter _ _ h.pool⟩

theorem good_sideOrReorg (s : NState) (b : Block) (h : Good s) : Good (sideOrReorg s b).1 := by
  unfold sideOrReorg
  split
  · exact good_cleanPool s h
  · split
    · exact good_cleanPool s h
    · have hg := good_reorganize s (reorgPlan s b).1 (reorgPlan s b).2 h
      simp only
      split
      · exact good_cleanPool _ hg
      · exact hg

theorem good_extendTip (s : NState) (b : Block) (h : Good s) : Good (extendTip s b).1 := by
  unfold extendTip
  cases hc : connectTip s b with
  | some s' =>
    have := good_connectTip s s' b h hc
    exact good_cleanPool _ (good_known s' _ this)
  | none => exact h

theorem good_acceptBlock (s : NState) (b : Block) (h : Good s) : Good (acceptBlock s b).1 := by
  unfold acceptBlock
  split
  · exact h
  · split
    · exact h
    · split
      · exact good_extendTip s b h
      · exact good_sideOrReorg _ b (good_known s _ h)

theorem good_orphanStep (acc : NState × Bool × List Nat) (o : Block) (h : Good acc.1) :
    Good (orphanStep acc o).1 := by
  unfold orphanStep
  split
  · have := good_acceptBlock acc.1 o h
    simp only
    split
    · exact this
    · exact good_orphans _ _ this
  · exact h

theorem good_processOrphans (fuel : Nat) (s : NState) (q : List Nat) (h : Good s) :
    Good (processOrphans fuel s q).1 := by
  induction fuel generalizing s q with
  | zero => unfold processOrphans; exact h
  | succ n ih =>
    cases q with
    | nil => unfold processOrphans; exact h
    | cons id queue =>
      unfold processOrphans
      simp only
      have hstep : ∀ (kids : List Block) (acc : NState × Bool × List Nat), Good acc.1 →
          Good (kids.foldl orphanStep acc).1 := by
        intro kids
        induction kids with
        | nil => intro acc ha; exact ha
        | cons o r ihk =>
          intro acc ha
          simp only [List.foldl_cons]
          exact ihk _ (good_orphanStep acc o ha)
      have hg := hstep (s.orphans.filter (·.prev == id)) (s, true, queue) h
      split
      · exact ih _ _ hg
      · exact hg

theorem good_processBlock (s : NState) (b : Block) (h : Good s) : Good (processBlock s b).1 := by
  unfold processBlock
  split
  · exact h
  · split
    · exact h
    · split
      · exact h
      · split
        · exact good_orphans s _ h
        · have h1 := good_acceptBlock s b h
          simp only
          split
          · exact h1
          · have h2 := good_processOrphans ((acceptBlock s b).1.orphans.length + 1) (acceptBlock s b).1 [b.id] h1
            split <;> exact h2

theorem good_submit (s : NState) (tx : Tx) (h : Good s) : Good (submit s tx).1 := by
  unfold submit
  exact ⟨h.stack, poolInv_poolAdd _ _ _ _ _ h.pool⟩

/-! genesis and its ledger never change -/

theorem fixed_connectTip (s s' : NState) (b : Block) (hc : connectTip s b = some s') :
    s'.genesis = s.genesis ∧ s'.gledger = s.gledger := by
  unfold connectTip at hc
  split at hc
  · cases hc; exact ⟨rfl, rfl⟩
  · cases hc

theorem fixed_disconnectTip (s : NState) :
    (disconnectTip s).genesis = s.genesis ∧ (disconnectTip s).gledger = s.gledger := by
  unfold disconnectTip
  cases s.active with
  | nil => exact ⟨rfl, rfl⟩
  | cons a r => exact ⟨rfl, rfl⟩

/-- `genesis` and `gledger` are the same in both states -/
def SameG (a b : NState) : Prop := a.genesis = b.genesis ∧ a.gledger = b.gledger

theorem SameG.trans {a b c : NState} (h1 : SameG a b) (h2 : SameG b c) : SameG a c :=
  ⟨h1.1.trans h2.1, h1.2.trans h2.2⟩

theorem sameG_reorganize (s : NState) (d : Nat) (attach : List Block) : SameG (reorganize s d attach).1 s := by
  unfold reorganize
  have h1 : ∀ (n : List Nat) (s : NState), SameG (n.foldl (fun s _ => disconnectTip s) s) s := by
    intro n
    induction n with
    | nil => intro s; exact ⟨rfl, rfl⟩
    | cons a r ih => intro s; exact (ih _).trans (fixed_disconnectTip s)
  have h2 : ∀ (acc : NState × Bool), SameG (attach.foldl attachStep acc).1 acc.1 := by
    induction attach with
    | nil => intro acc; exact ⟨rfl, rfl⟩
    | cons b r ih =>
      intro acc
      simp only [List.foldl_cons]
      refine (ih _).trans ?_
      unfold attachStep
      split
      · cases hc : connectTip acc.1 b with
        | some s' => exact fixed_connectTip _ _ _ hc
        | none => exact ⟨rfl, rfl⟩
      · exact ⟨rfl, rfl⟩
  exact (h2 _).trans (h1 _ s)

theorem sameG_acceptBlock (s : NState) (b : Block) : SameG (acceptBlock s b).1 s := by
  unfold acceptBlock
  split
  · exact ⟨rfl, rfl⟩
  · split
    · exact ⟨rfl, rfl⟩
    · split
      · unfold extendTip
        cases hc : connectTip s b with
        | some s' =>
          have := fixed_connectTip s s' b hc
          exact ⟨this.1, this.2⟩
        | none => exact ⟨rfl, rfl⟩
      · unfold sideOrReorg
        split
        · exact ⟨rfl, rfl⟩
        · split
          · exact ⟨rfl, rfl⟩
          · simp only
            split
            · exact sameG_reorganize _ _ _
            · exact sameG_reorganize _ _ _

theorem sameG_processOrphans (fuel : Nat) (s : NState) (q : List Nat) : SameG (processOrphans fuel s q).1 s := by
  induction fuel generalizing s q with
  | zero => unfold processOrphans; exact ⟨rfl, rfl⟩
  | succ n ih =>
    cases q with
    | nil => unfold processOrphans; exact ⟨rfl, rfl⟩
    | cons id queue =>
      unfold processOrphans
      simp only
      have hstep : ∀ (kids : List Block) (acc : NState × Bool × List Nat),
          SameG (kids.foldl orphanStep acc).1 acc.1 := by
        intro kids
        induction kids with
        | nil => intro acc; exact ⟨rfl, rfl⟩
        | cons o r ihk =>
          intro acc
          simp only [List.foldl_cons]
          refine (ihk _).trans ?_
          unfold orphanStep
          split
          · have := sameG_acceptBlock acc.1 o
            simp only
            split
            · exact this
            · exact ⟨this.1, this.2⟩
          · exact ⟨rfl, rfl⟩
      have hg := hstep (s.orphans.filter (·.prev == id)) (s, true, queue)
      split
      · exact (ih _ _).trans hg
      · exact hg

theorem sameG_processBlock (s : NState) (b : Block) : SameG (processBlock s b).1 s := by
  unfold processBlock
  split
  · exact ⟨rfl, rfl⟩
  · split
    · exact ⟨rfl, rfl⟩
    · split
      · exact ⟨rfl, rfl⟩
      · split
        · exact ⟨rfl, rfl⟩
        · have h1 := sameG_acceptBlock s b
          simp only
          split
          · exact h1
          · have h2 := sameG_processOrphans ((acceptBlock s b).1.orphans.length + 1) (acceptBlock s b).1 [b.id]
            split <;> exact h2.trans h1

theorem genesis_processBlock (s : NState) (b : Block) : (processBlock s b).1.genesis = s.genesis :=
  (sameG_processBlock s b).1
theorem gledger_processBlock (s : NState) (b : Block) : (processBlock s b).1.gledger = s.gledger :=
  (sameG_processBlock s b).2
theorem genesis_submit (s : NState) (tx : Tx) : (submit s tx).1.genesis = s.genesis := rfl
theorem gledger_submit (s : NState) (tx : Tx) : (submit s tx).1.gledger = s.gledger := rfl

theorem good_init (P : Params) (g : Block) : Good (initState P g) := ⟨trivial, by simp [initState, PoolInv, poolIns]⟩

/-- a history: block deliveries and transaction submissions in any order -/
inductive Op | deliver (b : Block) | submit (tx : Tx)

def run (s : NState) : List Op → NState
  | [] => s
  | .deliver b :: r => run (processBlock s b).1 r
  | .submit tx :: r => run (submit s tx).1 r

theorem good_run (s : NState) (ops : List Op) (h : Good s) : Good (run s ops) := by
  induction ops generalizing s with
  | nil => exact h
  | cons op r ih =>
    cases op with
    | deliver b => exact ih _ (good_processBlock s b h)
    | submit tx => exact ih _ (good_submit s tx h)


end ElaVerif.Node
