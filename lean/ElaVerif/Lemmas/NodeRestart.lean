import ElaVerif.Model.Node
import ElaVerif.Lemmas.NodeBest
namespace ElaVerif.Node
open ElaVerif.Index

def onDisk (s : NState) : List Block :=
  s.active.map (·.1) ++ s.stored.filter fun b => !(s.active.any (·.1.id == b.id))

theorem restart_known (s : NState) : (restart s).known = onDisk s := rfl

theorem workOf_restart (s : NState) (id : Nat) (h : (onDisk s).any (·.id == id) = true) :
    workOf (restart s) id = workOf s id := by
  unfold workOf
  have : (restart s).works = s.works.filter fun w => (onDisk s).any (·.id == w.1) := rfl
  rw [this, List.find?_filter]
  have hf : (fun (a : Nat × Int) => decide (((onDisk s).any fun x => x.id == a.fst) = true ∧ (a.fst == id) = true)) =
      fun w => w.1 == id := by
    funext w
    by_cases hq : (w.1 == id) = true
    · have : w.1 = id := by simpa using hq
      rw [this]; simp [h]
    · simp [hq]
  rw [hf]

/-- the most-work invariant survives a restart -/
theorem winv_restart (s : NState) (hi : WInv s) (hst : ∀ b ∈ s.stored, b ∈ s.known) (hne : s.active ≠ []) :
    WInv (restart s) := by
  have htip : (restart s).tip = s.tip := rfl
  have hk : ∀ k ∈ onDisk s, k ∈ s.known := by
    intro k hk
    rcases List.mem_append.mp hk with h | h
    · obtain ⟨p, hp, rfl⟩ := List.mem_map.mp h
      exact hi.actKnown p hp
    · exact hst k (List.mem_filter.mp h).1
  have htd : (onDisk s).any (·.id == s.tip.id) = true := by
    cases ha : s.active with
    | nil => exact absurd ha hne
    | cons p r =>
      have : s.tip = p.1 := by unfold NState.tip; rw [ha]
      rw [this]
      apply List.any_eq_true.mpr
      refine ⟨p.1, ?_, by simp⟩
      unfold onDisk
      rw [ha]
      simp
  constructor
  · intro k hk'
    rw [restart_known] at hk'
    rw [htip, workOf_restart s s.tip.id htd,
      workOf_restart s k.id (List.any_eq_true.mpr ⟨k, hk', by simp⟩)]
    exact hi.best k (hk k hk')
  · intro p hp
    rw [restart_known]
    have : p ∈ s.active := hp
    exact List.mem_append.mpr (Or.inl (List.mem_map.mpr ⟨p, this, rfl⟩))

end ElaVerif.Node
