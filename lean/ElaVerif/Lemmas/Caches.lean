import ElaVerif.Model.Caches
/-!
  C15 — helper lemmas about association lists and the cache invariants.
-/
namespace ElaVerif.Caches

section assoc
variable {κ : Type} [DecidableEq κ] {α : Type}

theorem lookup_dropKey (l : List (κ × α)) (e k : κ) :
    (dropKey l e).lookup k = if k = e then none else l.lookup k := by
  unfold dropKey
  induction l with
  | nil => simp
  | cons a l ih =>
    by_cases hae : a.1 = e
    · have : (a.1 != e) = false := by simp [hae]
      simp only [List.filter, this, ih]
      by_cases hk : k = e
      · simp [hk]
      · have hb : (k == a.1) = false := by simp [hae, hk]
        simp [hk, List.lookup, hb]
    · have : (a.1 != e) = true := by simp [hae]
      simp only [List.filter, this, List.lookup]
      by_cases hka : k = a.1
      · subst hka; simp [hae]
      · have hb : (k == a.1) = false := by simp [hka]
        simp only [hb, ih]

theorem lookup_setKey (l : List (κ × α)) (k k' : κ) (v : α) :
    (setKey l k v).lookup k' = if k' = k then some v else l.lookup k' := by
  unfold setKey
  by_cases h : k' = k
  · subst h; simp [List.lookup]
  · have hb : (k' == k) = false := by simp [h]
    simp only [List.lookup, hb, lookup_dropKey, h, ↓reduceIte]

theorem length_dropKey_le (l : List (κ × α)) (e : κ) : (dropKey l e).length ≤ l.length := by
  unfold dropKey; exact List.length_filter_le _ _

theorem length_dropKey_lt (l : List (κ × α)) (v : κ) (h : (l.lookup v).isSome) :
    (dropKey l v).length < l.length := by
  induction l with
  | nil => simp at h
  | cons a l ih =>
    by_cases ha : a.1 = v
    · have hb : (a.1 != v) = false := by simp [ha]
      have : (dropKey (a :: l) v).length ≤ l.length := by
        unfold dropKey
        simp only [List.filter, hb]
        exact List.length_filter_le _ _
      simp only [List.length_cons]; omega
    · have hb : (v == a.1) = false := by simp [Ne.symm ha]
      simp only [List.lookup, hb] at h
      have := ih h
      have hb2 : (a.1 != v) = true := by simp [ha]
      unfold dropKey at this ⊢
      simp only [List.filter, hb2, List.length_cons]
      omega

theorem lookup_of_dropKey {l : List (κ × α)} {e k : κ} {v : α} (h : (dropKey l e).lookup k = some v) :
    l.lookup k = some v ∧ k ≠ e := by
  rw [lookup_dropKey] at h
  by_cases hk : k = e
  · simp [hk] at h
  · simp only [hk, ↓reduceIte] at h; exact ⟨h, hk⟩

end assoc

/-- eviction only removes entries -/
theorem evictTo_lookup {α : Type} (n fuel : Nat) (vs : List Nat) (l : List (Nat × α)) (k : Nat) (v : α)
    (h : (evictTo n fuel vs l).lookup k = some v) : l.lookup k = some v := by
  induction fuel generalizing vs l with
  | zero => exact h
  | succ fuel ih =>
    unfold evictTo at h
    split at h
    · exact h
    · cases l with
      | nil => exact h
      | cons a rest =>
        simp only at h
        exact (lookup_of_dropKey (ih _ _ h)).1

/-- … and gets down to the target, given fuel for every entry -/
theorem evictTo_length {α : Type} (n fuel : Nat) (vs : List Nat) (l : List (Nat × α))
    (hf : l.length ≤ n + fuel) : (evictTo n fuel vs l).length ≤ n := by
  induction fuel generalizing vs l with
  | zero => simpa [evictTo] using hf
  | succ fuel ih =>
    unfold evictTo
    split
    · assumption
    · rename_i hlen
      cases l with
      | nil => simp
      | cons a rest =>
        simp only
        apply ih
        have hk0 : (((a :: rest).lookup a.1)).isSome := by simp [List.lookup]
        cases vs with
        | nil =>
          have := length_dropKey_lt (a :: rest) a.1 hk0
          simp only at this ⊢; omega
        | cons v vs' =>
          simp only
          split
          · rename_i hv
            have := length_dropKey_lt (a :: rest) v hv
            omega
          · have := length_dropKey_lt (a :: rest) a.1 hk0
            omega

/-! ### A. UTXOCache -/

structure UtxoInv (db : TxDb) (s : Utxo) : Prop where
  ref : ∀ k v, s.ref.lookup k = some v → ∃ outs, db.lookup k.tx = some outs ∧ outs[k.idx]? = some v
  txc : ∀ id tx, s.txc.lookup id = some tx → db.lookup id = some tx

/-- the FIFO is within the limit and reaches every cached reference -/
structure UtxoBound (s : Utxo) : Prop where
  fifo : s.inputs.length ≤ s.max ∨ s.inputs.length ≤ 1
  sync : ∀ k v, s.ref.lookup k = some v → k ∈ s.inputs

theorem evictFront_spec (s : Utxo) :
    (evictFront s).max = s.max ∧ (evictFront s).txc = s.txc ∧
    (evictFront s).inputs.length = s.inputs.length - 1 ∧
    (∀ k v, (evictFront s).ref.lookup k = some v → s.ref.lookup k = some v) ∧
    ((∀ k v, s.ref.lookup k = some v → k ∈ s.inputs) →
      ∀ k v, (evictFront s).ref.lookup k = some v → k ∈ (evictFront s).inputs) := by
  unfold evictFront
  cases hin : s.inputs with
  | nil =>
    simp only
    exact ⟨trivial, trivial, by simp [hin], fun _ _ h => h, fun h k v hk => hin ▸ h k v hk⟩
  | cons e rest =>
    simp only
    refine ⟨trivial, trivial, by simp, fun k v h => (lookup_of_dropKey h).1, ?_⟩
    intro hs k v h
    obtain ⟨h1, h2⟩ := lookup_of_dropKey h
    have := hs k v h1
    rcases List.mem_cons.1 this with h3 | h3
    · exact absurd h3 h2
    · exact h3

theorem insertReference_inv {db : TxDb} {s : Utxo} (h : UtxoInv db s) (k : In) (v : Nat)
    (hv : ∃ outs, db.lookup k.tx = some outs ∧ outs[k.idx]? = some v) :
    UtxoInv db (insertReference s k v) := by
  unfold insertReference
  have h1 : UtxoInv db (if s.inputs.length ≥ s.max then evictFront s else s) := by
    split
    · obtain ⟨_, e2, _, e4, _⟩ := evictFront_spec s
      exact ⟨fun k v hl => h.ref k v (e4 k v hl), fun id tx hl => h.txc id tx (by rw [e2] at hl; exact hl)⟩
    · exact h
  generalize (if s.inputs.length ≥ s.max then evictFront s else s) = s1 at h1
  refine ⟨?_, h1.txc⟩
  intro k' v' hl
  simp only at hl
  rw [lookup_setKey] at hl
  split at hl
  · rename_i hk; subst hk; cases hl; exact hv
  · exact h1.ref k' v' hl

theorem insertReference_max (s : Utxo) (k : In) (v : Nat) : (insertReference s k v).max = s.max := by
  unfold insertReference
  simp only
  split
  · exact (evictFront_spec s).1
  · rfl

theorem insertReference_bound {s : Utxo} (h : UtxoBound s) (k : In) (v : Nat) :
    UtxoBound (insertReference s k v) := by
  unfold insertReference
  have h1 : (if s.inputs.length ≥ s.max then evictFront s else s).max = s.max ∧
      ((if s.inputs.length ≥ s.max then evictFront s else s).inputs.length + 1 ≤ s.max ∨
       (if s.inputs.length ≥ s.max then evictFront s else s).inputs.length + 1 ≤ 1) ∧
      (∀ k v, (if s.inputs.length ≥ s.max then evictFront s else s).ref.lookup k = some v →
        k ∈ (if s.inputs.length ≥ s.max then evictFront s else s).inputs) := by
    obtain ⟨e1, _, e3, _, e5⟩ := evictFront_spec s
    have hf := h.fifo
    split
    · refine ⟨e1, ?_, e5 h.sync⟩
      rw [e3]
      omega
    · refine ⟨rfl, ?_, h.sync⟩
      omega
  generalize (if s.inputs.length ≥ s.max then evictFront s else s) = s1 at h1
  obtain ⟨hm, hlen, hsync⟩ := h1
  refine ⟨?_, ?_⟩
  · simp only [List.length_append, List.length_singleton, hm]; exact hlen
  · intro k' v' hl
    simp only at hl ⊢
    rw [lookup_setKey] at hl
    split at hl
    · rename_i hk; subst hk; simp
    · exact List.mem_append.2 (Or.inl (hsync k' v' hl))

theorem getTransaction_spec {db : TxDb} {s : Utxo} (h : UtxoInv db s) (victims : List Nat) (id : Nat) :
    (getTransaction db s victims id).1 = db.lookup id ∧ UtxoInv db (getTransaction db s victims id).2 ∧
    (getTransaction db s victims id).2.inputs = s.inputs ∧ (getTransaction db s victims id).2.ref = s.ref ∧
    (getTransaction db s victims id).2.max = s.max := by
  unfold getTransaction
  split
  · rename_i tx hl
    exact ⟨(h.txc id tx hl).symm, h, rfl, rfl, rfl⟩
  · split
    · rename_i hdb; exact ⟨hdb.symm, h, rfl, rfl, rfl⟩
    · rename_i tx hdb
      refine ⟨hdb.symm, ⟨h.ref, ?_⟩, rfl, rfl, rfl⟩
      intro id' tx' hl
      unfold insertTransaction at hl
      simp only at hl
      rw [lookup_setKey] at hl
      split at hl
      · rename_i hid; subst hid; cases hl; exact hdb
      · exact h.txc id' tx' (evictTo_lookup _ _ _ _ _ _ hl)

/-- the tx cache holds at most `max + 1` transactions after an insertion -/
theorem insertTransaction_bound (s : Utxo) (victims : List Nat) (id : Nat) (tx : List Nat) :
    (insertTransaction s victims id tx).txc.length ≤ s.max + 1 := by
  unfold insertTransaction
  simp only [setKey, List.length_cons]
  have h1 := evictTo_length s.max s.txc.length victims s.txc (by omega)
  have h2 := length_dropKey_le (evictTo s.max s.txc.length victims s.txc) id
  omega

/-! ### B. indexed transaction cache -/

/-- every cached entry is what the index says; with `MemoryFirst` the cache holds nothing -/
def IdxInv (db : IdxDb) (s : Idx) : Prop :=
  (∀ h v, s.txns.lookup h = some v → db.lookup h = some v) ∧ (s.memoryFirst = true → s.txns = [])

/-! ### C. decoded block cache -/

structure BlockInv (db : BlockDb) (s : BlockCache) : Prop where
  val : ∀ h b, s.map.lookup h = some b → db.lookup h = some b
  fifo : s.fifo.length ≤ cacheSize
  sync : ∀ h b, s.map.lookup h = some b → h ∈ s.fifo

/-! ### D. send cache -/

/-- the three shapes the send cache can have: empty, one block, two different blocks; every cached
    hash has exactly one serialized variant -/
def SendShape (s : SendCache) : Prop :=
  s = ⟨[], [], []⟩ ∨
  (∃ a ca x, s = ⟨[a], [ca], [(a, [(ca, x)])]⟩) ∨
  (∃ a b ca cb x y, a ≠ b ∧ s = ⟨[a, b], [ca, cb], [(b, [(cb, y)]), (a, [(ca, x)])]⟩)

/-- cached bytes are the serialization of the block they are filed under -/
def SendInv (ser : Nat → Bool → Nat) (s : SendCache) : Prop :=
  ∀ h inner c b, s.outer.lookup h = some inner → inner.lookup c = some b → b = ser h c

end ElaVerif.Caches
