import ElaVerif.Model.Caches
/-!
  C15 — helper lemmas about association lists and the cache invariants.
-/
namespace ElaVerif.Caches

section assoc
variable {κ : Type} [DecidableEq κ] {α : Type}

theorem lookup_cons_filter (l : List (κ × α)) (k k' : κ) (v : α) :
    ((k, v) :: l.filter (fun p => p.1 ≠ k)).lookup k' = if k' = k then some v else l.lookup k' := by
  by_cases h : k' = k
  · subst h; simp [List.lookup]
  · have hb : (k' == k) = false := by simp [h]
    simp only [List.lookup, hb, h, ↓reduceIte]
    induction l with
    | nil => rfl
    | cons a l ih =>
      by_cases ha : a.1 = k
      · have : (k' == a.1) = false := by simp [ha, h]
        simp [List.filter, ha, List.lookup, this, ih]
      · simp only [List.filter, ha, ne_eq, not_false_eq_true, decide_true, List.lookup]
        split <;> simp_all

theorem lookup_filter_key (l : List (κ × α)) (f : κ → Bool) (k : κ) :
    (l.filter (fun p => f p.1)).lookup k = if f k then l.lookup k else none := by
  induction l with
  | nil => simp
  | cons a l ih =>
    by_cases hk : k = a.1
    · subst hk
      by_cases hf : f a.1 <;> simp [List.filter, hf, List.lookup, ih]
    · have hb : (k == a.1) = false := by simp [hk]
      by_cases hf : f a.1 <;> simp [List.filter, hf, List.lookup, hb, ih]

theorem lookup_filter_ne (l : List (κ × α)) (e k : κ) :
    (l.filter (fun p => p.1 ≠ e)).lookup k = if k = e then none else l.lookup k := by
  have := lookup_filter_key l (fun x => decide (x ≠ e)) k
  simp only [ne_eq, decide_not, Bool.not_eq_true', decide_eq_false_iff_not] at this
  rw [this]
  by_cases h : k = e <;> simp [h]

theorem lookup_some_of_filter {l : List (κ × α)} {f : κ × α → Bool} {k : κ} {v : α}
    (h : (l.filter f).lookup k = some v) (hf : ∀ p q : κ × α, p.1 = q.1 → f p = f q) :
    l.lookup k = some v := by
  induction l with
  | nil => simp at h
  | cons a l ih =>
    by_cases hk : k = a.1
    · subst hk
      by_cases hfa : f a
      · simpa [List.filter, hfa, List.lookup] using h
      · -- every entry with this key is filtered out
        exfalso
        have : (List.filter f (a :: l)).lookup a.1 = none := by
          rw [List.lookup_eq_none_iff]
          intro p hp
          obtain ⟨_, hp2⟩ := List.mem_filter.1 hp
          simp only [bne_iff_ne, ne_eq]
          intro heq
          have := hf p a heq.symm
          rw [this] at hp2
          exact hfa hp2
        rw [this] at h; cases h
    · have hb : (k == a.1) = false := by simp [hk]
      by_cases hfa : f a
      · simp only [List.filter, hfa, List.lookup, hb] at h ⊢
        exact ih h
      · simp only [List.filter, hfa, List.lookup, hb] at h ⊢
        exact ih h

end assoc

/-- eviction only removes entries -/
theorem evictTo_lookup {α : Type} (n fuel : Nat) (vs : List Nat) (l : List (Nat × α)) (k : Nat) (v : α)
    (h : (evictTo n fuel vs l).lookup k = some v) : l.lookup k = some v := by
  induction fuel generalizing vs l with
  | zero => exact h
  | succ fuel ih =>
    unfold evictTo at h
    split at h
    · exact h
    · split at h
      · exact h
      · have := ih _ _ h
        rw [lookup_filter_ne] at this
        split at this
        · cases this
        · exact this

theorem filter_ne_length_lt {α : Type} (l : List (Nat × α)) (v : Nat) (h : (l.lookup v).isSome) :
    (l.filter (fun p => p.1 ≠ v)).length < l.length := by
  induction l with
  | nil => simp at h
  | cons a l ih =>
    by_cases ha : a.1 = v
    · have : (List.filter (fun p => decide (p.1 ≠ v)) (a :: l)).length ≤ l.length := by
        simp only [List.filter, ha, ne_eq, not_true_eq_false, decide_false]
        exact List.length_filter_le _ _
      simp only [List.length_cons]; omega
    · have hb : (v == a.1) = false := by simp [Ne.symm ha]
      simp only [List.lookup, hb] at h
      have := ih h
      simp only [List.filter, ha, ne_eq, not_false_eq_true, decide_true, List.length_cons]
      omega

/-- … and gets down to the target, given fuel for every entry -/
theorem evictTo_length {α : Type} (n fuel : Nat) (vs : List Nat) (l : List (Nat × α))
    (hf : l.length ≤ n + fuel) : (evictTo n fuel vs l).length ≤ n := by
  induction fuel generalizing vs l with
  | zero => simpa [evictTo] using hf
  | succ fuel ih =>
    unfold evictTo
    split
    · assumption
    · rename_i hlen
      split
      · simp
      · rename_i k0 v0 rest
        apply ih
        have hk0 : ((((k0, v0) :: rest).lookup k0)).isSome := by simp [List.lookup]
        have hdec : ∀ v, ((((k0, v0) :: rest).lookup v)).isSome →
            (((k0, v0) :: rest).filter (fun p => p.1 ≠ v)).length < ((k0, v0) :: rest).length :=
          fun v hv => filter_ne_length_lt _ v hv
        cases vs with
        | nil => have := hdec k0 hk0; simp only at this ⊢; omega
        | cons v vs' =>
          simp only
          split
          · rename_i hv; have := hdec v hv; omega
          · have := hdec k0 hk0; omega

/-! ### A. UTXOCache -/

structure UtxoInv (db : TxDb) (s : Utxo) : Prop where
  ref : ∀ k v, s.ref.lookup k = some v → ∃ outs, db.lookup k.tx = some outs ∧ outs[k.idx]? = some v
  txc : ∀ id tx, s.txc.lookup id = some tx → db.lookup id = some tx

/-- the FIFO is within the limit and reaches every cached reference -/
structure UtxoBound (s : Utxo) : Prop where
  fifo : s.inputs.length ≤ Nat.max s.max 1
  sync : ∀ k v, s.ref.lookup k = some v → k ∈ s.inputs

theorem insertReference_inv {db : TxDb} {s : Utxo} (h : UtxoInv db s) (k : In) (v : Nat)
    (hv : ∃ outs, db.lookup k.tx = some outs ∧ outs[k.idx]? = some v) :
    UtxoInv db (insertReference s k v) := by
  unfold insertReference
  refine ⟨?_, ?_⟩
  · intro k' v' hl
    simp only at hl
    rw [lookup_cons_filter] at hl
    split at hl
    · rename_i hk; subst hk; cases hl; exact hv
    · split at hl
      · split at hl
        · exact h.ref k' v' hl
        · simp only at hl
          rw [lookup_filter_ne] at hl
          split at hl
          · cases hl
          · exact h.ref k' v' hl
      · exact h.ref k' v' hl
  · intro id tx hl
    simp only at hl
    split at hl
    · split at hl
      · exact h.txc id tx hl
      · exact h.txc id tx hl
    · exact h.txc id tx hl

theorem insertReference_max (s : Utxo) (k : In) (v : Nat) : (insertReference s k v).max = s.max := by
  unfold insertReference
  simp only
  split
  · split <;> rfl
  · rfl

theorem insertReference_bound {s : Utxo} (h : UtxoBound s) (k : In) (v : Nat) :
    UtxoBound (insertReference s k v) := by
  have hmax := insertReference_max s k v
  unfold insertReference at hmax ⊢
  by_cases hge : s.inputs.length ≥ s.max
  · cases hin : s.inputs with
    | nil =>
      simp only [hge, hin, ↓reduceIte] at hmax ⊢
      refine ⟨?_, ?_⟩
      · simp only [List.nil_append, List.length_singleton]
        exact Nat.le_max_right _ _
      · intro k' v' hl
        rw [lookup_cons_filter] at hl
        split at hl
        · rename_i hk; subst hk; simp
        · have := h.sync k' v' hl
          rw [hin] at this; cases this
    | cons e rest =>
      simp only [hge, hin, ↓reduceIte] at hmax ⊢
      have hf := h.fifo
      rw [hin] at hf
      refine ⟨?_, ?_⟩
      · simp only [List.length_append, List.length_cons, List.length_nil] at hf ⊢
        omega
      · intro k' v' hl
        rw [lookup_cons_filter] at hl
        split at hl
        · rename_i hk; subst hk; simp
        · rw [lookup_filter_ne] at hl
          split at hl
          · cases hl
          · rename_i hne
            have := h.sync k' v' hl
            rw [hin] at this
            rcases List.mem_cons.1 this with h1 | h1
            · exact absurd h1 hne
            · exact List.mem_append.2 (Or.inl h1)
  · simp only [hge, ↓reduceIte] at hmax ⊢
    refine ⟨?_, ?_⟩
    · have : s.inputs.length < s.max := by omega
      simp only [List.length_append, List.length_singleton]
      have := Nat.le_max_left s.max 1
      omega
    · intro k' v' hl
      rw [lookup_cons_filter] at hl
      split at hl
      · rename_i hk; subst hk; simp
      · exact List.mem_append.2 (Or.inl (h.sync k' v' hl))

theorem getTransaction_spec {db : TxDb} {s : Utxo} (h : UtxoInv db s) (victims : List Nat) (id : Nat) :
    (getTransaction db s victims id).1 = db.lookup id ∧ UtxoInv db (getTransaction db s victims id).2 ∧
    (getTransaction db s victims id).2.inputs = s.inputs ∧ (getTransaction db s victims id).2.ref = s.ref ∧
    (getTransaction db s victims id).2.max = s.max := by
  unfold getTransaction
  split
  · rename_i tx hl
    exact ⟨(h.txc id tx hl).symm, h, rfl, rfl, rfl⟩
  · split
    · rename_i hdb; exact ⟨hdb.symm, h, rfl, rfl, rfl⟩
    · rename_i tx hdb
      refine ⟨hdb.symm, ⟨h.ref, ?_⟩, rfl, rfl, rfl⟩
      intro id' tx' hl
      unfold insertTransaction at hl
      simp only at hl
      rw [lookup_cons_filter] at hl
      split at hl
      · rename_i hid; subst hid; cases hl; exact hdb
      · exact h.txc id' tx' (evictTo_lookup _ _ _ _ _ _ hl)

/-- the tx cache holds at most `max + 1` transactions after an insertion -/
theorem insertTransaction_bound (s : Utxo) (victims : List Nat) (id : Nat) (tx : List Nat) :
    (insertTransaction s victims id tx).txc.length ≤ s.max + 1 := by
  unfold insertTransaction
  simp only [List.length_cons]
  have h1 := evictTo_length s.max s.txc.length victims s.txc (by omega)
  have h2 := List.length_filter_le (fun p : Nat × List Nat => decide (p.1 ≠ id)) (evictTo s.max s.txc.length victims s.txc)
  omega

/-! ### B. indexed transaction cache -/

def IdxInv (db : IdxDb) (s : Idx) : Prop := ∀ h v, s.txns.lookup h = some v → db.lookup h = some v

/-! ### C. decoded block cache -/

structure BlockInv (db : BlockDb) (s : BlockCache) : Prop where
  val : ∀ h b, s.map.lookup h = some b → db.lookup h = some b
  fifo : s.fifo.length ≤ cacheSize
  sync : ∀ h b, s.map.lookup h = some b → h ∈ s.fifo

/-! ### D. send cache -/

/-- the three shapes the send cache can have: empty, one block, two different blocks; every cached
    hash has exactly one serialized variant -/
def SendShape (s : SendCache) : Prop :=
  s = ⟨[], [], []⟩ ∨
  (∃ a ca x, s = ⟨[a], [ca], [(a, [(ca, x)])]⟩) ∨
  (∃ a b ca cb x y, a ≠ b ∧ s = ⟨[a, b], [ca, cb], [(b, [(cb, y)]), (a, [(ca, x)])]⟩)

/-- cached bytes are the serialization of the block they are filed under -/
def SendInv (ser : Nat → Bool → Nat) (s : SendCache) : Prop :=
  ∀ h inner c b, s.outer.lookup h = some inner → inner.lookup c = some b → b = ser h c

end ElaVerif.Caches
