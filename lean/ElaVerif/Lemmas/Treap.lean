import ElaVerif.Model.OrdMap
import ElaVerif.Model.Treap
/-!
Helper lemmas for C19: sorted association lists, and the treap operations
seen through `toList`.
-/
namespace ElaVerif.Treap
open ElaVerif.OrdMap Tree

/-! ### order facts on byte strings (all from core's lawful `Ord (List UInt8)`) -/

theorem cmp_gt_of_lt {a b : Bytes} (h : compare a b = .lt) : compare b a = .gt :=
  Std.OrientedCmp.gt_iff_lt.mpr h
theorem cmp_lt_of_gt {a b : Bytes} (h : compare a b = .gt) : compare b a = .lt :=
  Std.OrientedCmp.gt_iff_lt.mp h
theorem cmp_eq {a b : Bytes} (h : compare a b = .eq) : a = b :=
  Std.LawfulEqCmp.eq_of_compare h
theorem cmp_trans {a b c : Bytes} (h1 : compare a b = .lt) (h2 : compare b c = .lt) :
    compare a c = .lt := Std.TransCmp.lt_trans h1 h2
theorem cmp_self (a : Bytes) : compare a a = .eq := Std.ReflCmp.compare_self

/-! ### sorted association lists -/

theorem sorted_append_cons {A B : Map} {x : Bytes × Bytes} :
    Sorted (A ++ x :: B) ↔
      Sorted A ∧ Sorted B ∧ (∀ a ∈ A, compare a.1 x.1 = .lt) ∧ (∀ b ∈ B, compare x.1 b.1 = .lt) ∧
      (∀ a ∈ A, ∀ b ∈ B, compare a.1 b.1 = .lt) := by
  unfold Sorted
  rw [List.pairwise_append, List.pairwise_cons]
  constructor
  · rintro ⟨hA, ⟨hx, hB⟩, hAB⟩
    exact ⟨hA, hB, fun a ha => hAB a ha x (by simp), hx,
      fun a ha b hb => hAB a ha b (by simp [hb])⟩
  · rintro ⟨hA, hB, hAx, hxB, hAB⟩
    refine ⟨hA, ⟨hxB, hB⟩, ?_⟩
    intro a ha b hb
    rcases List.mem_cons.mp hb with rfl | hb
    · exact hAx a ha
    · exact hAB a ha b hb

theorem ins_append_lt (k v : Bytes) (A B : Map) (x : Bytes × Bytes) (h : compare k x.1 = .lt) :
    ins k v (A ++ x :: B) = ins k v A ++ x :: B := by
  induction A with
  | nil => obtain ⟨xk, xv⟩ := x; simp only [List.nil_append, ins]; rw [show compare k xk = _ from h]; rfl
  | cons a A ih =>
    obtain ⟨ak, av⟩ := a
    simp only [List.cons_append, ins]
    split <;> simp [ih]

theorem ins_append_gt (k v : Bytes) (A B : Map) (x : Bytes × Bytes)
    (hA : ∀ a ∈ A, compare k a.1 = .gt) (h : compare k x.1 = .gt) :
    ins k v (A ++ x :: B) = A ++ x :: ins k v B := by
  induction A with
  | nil => obtain ⟨xk, xv⟩ := x; simp only [List.nil_append, ins]; rw [show compare k xk = _ from h]
  | cons a A ih =>
    obtain ⟨ak, av⟩ := a
    have h1 : compare k ak = .gt := hA (ak, av) (by simp)
    simp only [List.cons_append, ins, h1]
    rw [ih (fun a ha => hA a (by simp [ha]))]

theorem ins_append_eq (k v : Bytes) (A B : Map) (x : Bytes × Bytes)
    (hA : ∀ a ∈ A, compare k a.1 = .gt) (h : compare k x.1 = .eq) :
    ins k v (A ++ x :: B) = A ++ (x.1, v) :: B := by
  induction A with
  | nil => obtain ⟨xk, xv⟩ := x; simp only [List.nil_append, ins]; rw [show compare k xk = _ from h]
  | cons a A ih =>
    obtain ⟨ak, av⟩ := a
    have h1 : compare k ak = .gt := hA (ak, av) (by simp)
    simp only [List.cons_append, ins, h1]
    rw [ih (fun a ha => hA a (by simp [ha]))]

theorem del_append_lt (k : Bytes) (A B : Map) (x : Bytes × Bytes) (h : compare k x.1 = .lt) :
    del k (A ++ x :: B) = del k A ++ x :: B := by
  induction A with
  | nil => obtain ⟨xk, xv⟩ := x; simp only [List.nil_append, del]; rw [show compare k xk = _ from h]
  | cons a A ih =>
    obtain ⟨ak, av⟩ := a
    simp only [List.cons_append, del]
    split <;> simp [ih]

theorem del_append_gt (k : Bytes) (A B : Map) (x : Bytes × Bytes)
    (hA : ∀ a ∈ A, compare k a.1 = .gt) (h : compare k x.1 = .gt) :
    del k (A ++ x :: B) = A ++ x :: del k B := by
  induction A with
  | nil => obtain ⟨xk, xv⟩ := x; simp only [List.nil_append, del]; rw [show compare k xk = _ from h]
  | cons a A ih =>
    obtain ⟨ak, av⟩ := a
    have h1 : compare k ak = .gt := hA (ak, av) (by simp)
    simp only [List.cons_append, del, h1]
    rw [ih (fun a ha => hA a (by simp [ha]))]

theorem del_append_eq (k : Bytes) (A B : Map) (x : Bytes × Bytes)
    (hA : ∀ a ∈ A, compare k a.1 = .gt) (h : compare k x.1 = .eq) :
    del k (A ++ x :: B) = A ++ B := by
  induction A with
  | nil => obtain ⟨xk, xv⟩ := x; simp only [List.nil_append, del]; rw [show compare k xk = _ from h]
  | cons a A ih =>
    obtain ⟨ak, av⟩ := a
    have h1 : compare k ak = .gt := hA (ak, av) (by simp)
    simp only [List.cons_append, del, h1]
    rw [ih (fun a ha => hA a (by simp [ha]))]

theorem find_append_lt (k : Bytes) (A B : Map) (x : Bytes × Bytes) (h : compare k x.1 = .lt) :
    find k (A ++ x :: B) = find k A := by
  induction A with
  | nil => obtain ⟨xk, xv⟩ := x; simp only [List.nil_append, find]; rw [show compare k xk = _ from h]
  | cons a A ih =>
    obtain ⟨ak, av⟩ := a
    simp only [List.cons_append, find]
    split <;> simp [ih]

theorem find_append_gt (k : Bytes) (A B : Map) (x : Bytes × Bytes)
    (hA : ∀ a ∈ A, compare k a.1 = .gt) (h : compare k x.1 = .gt) :
    find k (A ++ x :: B) = find k B := by
  induction A with
  | nil => obtain ⟨xk, xv⟩ := x; simp only [List.nil_append, find]; rw [show compare k xk = _ from h]
  | cons a A ih =>
    obtain ⟨ak, av⟩ := a
    have h1 : compare k ak = .gt := hA (ak, av) (by simp)
    simp only [List.cons_append, find, h1]
    rw [ih (fun a ha => hA a (by simp [ha]))]

theorem find_append_eq (k : Bytes) (A B : Map) (x : Bytes × Bytes)
    (hA : ∀ a ∈ A, compare k a.1 = .gt) (h : compare k x.1 = .eq) :
    find k (A ++ x :: B) = some x.2 := by
  induction A with
  | nil => obtain ⟨xk, xv⟩ := x; simp only [List.nil_append, find]; rw [show compare k xk = _ from h]
  | cons a A ih =>
    obtain ⟨ak, av⟩ := a
    have h1 : compare k ak = .gt := hA (ak, av) (by simp)
    simp only [List.cons_append, find, h1]
    rw [ih (fun a ha => hA a (by simp [ha]))]

theorem mem_ins {k v : Bytes} {m : Map} {e : Bytes × Bytes} (h : e ∈ ins k v m) :
    e.1 = k ∨ e ∈ m := by
  induction m with
  | nil => simp [ins] at h; left; rw [h]
  | cons a m ih =>
    obtain ⟨ak, av⟩ := a
    simp only [ins] at h
    split at h
    · rcases List.mem_cons.mp h with rfl | h
      · left; rfl
      · right; exact h
    · rename_i heq
      rcases List.mem_cons.mp h with rfl | h
      · left; exact (cmp_eq heq).symm
      · right; simp [h]
    · rcases List.mem_cons.mp h with rfl | h
      · right; simp
      · rcases ih h with h | h
        · left; exact h
        · right; simp [h]

theorem sorted_ins {k v : Bytes} {m : Map} (h : Sorted m) : Sorted (ins k v m) := by
  induction m with
  | nil => simp [ins, Sorted]
  | cons a m ih =>
    obtain ⟨ak, av⟩ := a
    unfold Sorted at h ih ⊢
    rw [List.pairwise_cons] at h
    simp only [ins]
    split
    · rename_i hlt
      rw [List.pairwise_cons, List.pairwise_cons]
      refine ⟨?_, h.1, h.2⟩
      intro b hb
      rcases List.mem_cons.mp hb with rfl | hb
      · exact hlt
      · exact cmp_trans hlt (h.1 b hb)
    · rw [List.pairwise_cons]; exact ⟨h.1, h.2⟩
    · rename_i hgt
      rw [List.pairwise_cons]
      refine ⟨?_, ih h.2⟩
      intro b hb
      rcases mem_ins hb with hb | hb
      · rw [hb]; exact cmp_lt_of_gt hgt
      · exact h.1 b hb

theorem mem_del {k : Bytes} {m : Map} {e : Bytes × Bytes} (h : e ∈ del k m) : e ∈ m := by
  induction m with
  | nil => simp [del] at h
  | cons a m ih =>
    obtain ⟨ak, av⟩ := a
    simp only [del] at h
    split at h
    · exact h
    · simp [h]
    · rcases List.mem_cons.mp h with rfl | h
      · simp
      · simp [ih h]

theorem sorted_del {k : Bytes} {m : Map} (h : Sorted m) : Sorted (del k m) := by
  induction m with
  | nil => simp [del, Sorted]
  | cons a m ih =>
    obtain ⟨ak, av⟩ := a
    unfold Sorted at h ih ⊢
    rw [List.pairwise_cons] at h
    simp only [del]
    split
    · rw [List.pairwise_cons]; exact h
    · exact h.2
    · rw [List.pairwise_cons]
      exact ⟨fun b hb => h.1 b (mem_del hb), ih h.2⟩

/-! ### the map laws of the specification itself (so that "equals `ins`/`del`/`find`" means
    "behaves as a finite map") -/

theorem find_ins_same (k v : Bytes) (m : Map) : find k (ins k v m) = some v := by
  induction m with
  | nil => simp [ins, find, cmp_self]
  | cons a m ih =>
    obtain ⟨ak, av⟩ := a
    simp only [ins]
    split
    · simp [find, cmp_self]
    · rename_i h; simp [find, h]
    · rename_i h; simp [find, h, ih]

theorem find_ins_other {k k' : Bytes} (v : Bytes) {m : Map} (hs : Sorted m) (hne : k' ≠ k) :
    find k' (ins k v m) = find k' m := by
  induction m with
  | nil =>
    simp only [ins, find]
    split
    · rfl
    · rename_i h; exact absurd (cmp_eq h) hne
    · rfl
  | cons a m ih =>
    obtain ⟨ak, av⟩ := a
    unfold Sorted at hs
    rw [List.pairwise_cons] at hs
    simp only [ins]
    split
    · rename_i hlt
      rw [show find k' ((k, v) :: (ak, av) :: m) = (match compare k' k with
            | .lt => none | .eq => some v | .gt => find k' ((ak, av) :: m)) from rfl]
      split
      · rename_i h2; simp only [find]; rw [cmp_trans h2 hlt]
      · rename_i h2; exact absurd (cmp_eq h2) hne
      · rfl
    · rename_i heq
      have := cmp_eq heq; subst this
      simp only [find]
      split
      · rfl
      · rename_i h2; exact absurd (cmp_eq h2) hne
      · rfl
    · simp only [find]
      split
      · rfl
      · rfl
      · exact ih hs.2

theorem find_del_same {k : Bytes} {m : Map} (hs : Sorted m) : find k (del k m) = none := by
  induction m with
  | nil => simp [del, find]
  | cons a m ih =>
    obtain ⟨ak, av⟩ := a
    unfold Sorted at hs
    rw [List.pairwise_cons] at hs
    simp only [del]
    split
    · rename_i h; simp [find, h]
    · rename_i h
      have := cmp_eq h; subst this
      cases m with
      | nil => simp [find]
      | cons b m =>
        obtain ⟨bk, bv⟩ := b
        simp [find, hs.1 (bk, bv) (by simp)]
    · rename_i h; simp [find, h, ih hs.2]

theorem find_del_other {k k' : Bytes} {m : Map} (hs : Sorted m) (hne : k' ≠ k) :
    find k' (del k m) = find k' m := by
  induction m with
  | nil => simp [del]
  | cons a m ih =>
    obtain ⟨ak, av⟩ := a
    unfold Sorted at hs
    rw [List.pairwise_cons] at hs
    simp only [del]
    split
    · rfl
    · rename_i heq
      have := cmp_eq heq; subst this
      simp only [find]
      split
      · rename_i h2
        cases m with
        | nil => simp [find]
        | cons b m =>
          obtain ⟨bk, bv⟩ := b
          simp [find, cmp_trans h2 (hs.1 (bk, bv) (by simp))]
      · rename_i h2; exact absurd (cmp_eq h2) hne
      · rfl
    · simp only [find]
      split
      · rfl
      · rfl
      · exact ih hs.2

/-! ### sizes -/

def sumSize (m : Map) : Nat := (m.map fun e => nodeSize e.1 e.2).sum

theorem cmp_cases (a b : Bytes) : compare a b = .lt ∨ compare a b = .eq ∨ compare a b = .gt := by
  cases compare a b <;> simp

theorem sumSize_cons (a b : Bytes) (m : Map) : sumSize ((a, b) :: m) = nodeSize a b + sumSize m := by
  simp [sumSize]

theorem find_size_le {k old : Bytes} {m : Map} (h : find k m = some old) : nodeSize k old ≤ sumSize m := by
  induction m with
  | nil => simp [find] at h
  | cons b m ih =>
    obtain ⟨bk, bv⟩ := b
    rw [sumSize_cons]
    rcases cmp_cases k bk with hc | hc | hc <;> simp only [find, hc] at h
    · cases h
    · have := cmp_eq hc; subst this
      cases h
      simp
    · have := ih h
      omega

theorem find_pos {k old : Bytes} {m : Map} (h : find k m = some old) : 0 < m.length := by
  cases m with
  | nil => simp [find] at h
  | cons b m => simp

theorem length_ins (k v : Bytes) (m : Map) :
    (ins k v m).length = match find k m with
      | some _ => m.length
      | none => m.length + 1 := by
  induction m with
  | nil => simp [ins, find]
  | cons a m ih =>
    obtain ⟨ak, av⟩ := a
    rcases cmp_cases k ak with hc | hc | hc <;> simp only [ins, find, hc, List.length_cons]
    rw [ih]
    cases find k m <;> simp

theorem sumSize_ins (k v : Bytes) (m : Map) :
    sumSize (ins k v m) = match find k m with
      | some old => sumSize m - old.length + v.length
      | none => sumSize m + nodeSize k v := by
  induction m with
  | nil => simp [ins, find, sumSize]
  | cons a m ih =>
    obtain ⟨ak, av⟩ := a
    rcases cmp_cases k ak with hc | hc | hc <;> simp only [ins, find, hc, sumSize_cons]
    · show nodeSize k v + (nodeSize ak av + sumSize m) = nodeSize ak av + sumSize m + nodeSize k v
      omega
    · show nodeSize ak v + sumSize m = nodeSize ak av + sumSize m - List.length av + List.length v
      simp only [nodeSize]; omega
    · rw [ih]
      cases hf : find k m with
      | none => clear ih; generalize sumSize m = S; simp only []; omega
      | some old =>
        have := find_size_le hf
        clear ih; generalize sumSize m = S at *
        simp only [nodeSize] at this ⊢
        omega

theorem length_del (k : Bytes) (m : Map) :
    (del k m).length = match find k m with
      | some _ => m.length - 1
      | none => m.length := by
  induction m with
  | nil => simp [del, find]
  | cons a m ih =>
    obtain ⟨ak, av⟩ := a
    rcases cmp_cases k ak with hc | hc | hc <;> simp only [del, find, hc, List.length_cons]
    · simp
    · rw [ih]
      cases hf : find k m with
      | none => rfl
      | some old => have := find_pos hf; simp only []; omega

theorem sumSize_del (k : Bytes) (m : Map) :
    sumSize (del k m) = match find k m with
      | some old => sumSize m - nodeSize k old
      | none => sumSize m := by
  induction m with
  | nil => simp [del, find, sumSize]
  | cons a m ih =>
    obtain ⟨ak, av⟩ := a
    rcases cmp_cases k ak with hc | hc | hc <;> simp only [del, find, hc, sumSize_cons]
    · have := cmp_eq hc; subst this
      show sumSize m = nodeSize k av + sumSize m - nodeSize k av
      omega
    · rw [ih]
      cases hf : find k m with
      | none => rfl
      | some old => have := find_size_le hf; clear ih; generalize sumSize m = S at *; simp only []; omega

/-! ### the tree operations through `toList` -/

theorem toList_merge (l r : Tree) : toList (merge l r) = toList l ++ toList r := by
  fun_induction merge l r with
  | case1 r => simp [toList]
  | case2 l _ => simp [toList]
  | case3 ll lk lv lp lr rl rk rv rp rr h ih => simp [toList, ih]
  | case4 ll lk lv lp lr rl rk rv rp rr h ih => simp [toList, ih]

theorem toList_putAux (t : Tree) (k v : Bytes) (p : Int) (hs : Sorted (toList t)) :
    toList (putAux t k v p).1 = ins k v (toList t) := by
  induction t with
  | nil => simp [putAux, toList, ins]
  | node l k' v' p' r ihl ihr =>
    simp only [toList] at hs
    obtain ⟨hl, hr, hlx, hxr, hlr⟩ := sorted_append_cons.mp hs
    simp only [putAux]
    split
    · -- eq
      rename_i heq
      simp only [toList]
      rw [ins_append_eq k v _ _ (k', v') _ heq]
      intro a ha
      have := cmp_eq heq; subst this
      exact cmp_gt_of_lt (hlx a ha)
    · -- lt
      rename_i hlt
      have ih := ihl hl
      simp only [toList]
      rw [ins_append_lt k v _ _ (k', v') hlt, ← ih]
      rcases hq : putAux l k v p with ⟨t', b⟩
      cases t' with
      | nil => simp [toList]
      | node ll lk lv lp lr =>
        cases b with
        | false => simp [toList]
        | true => simp only []; split <;> simp [toList]
    · -- gt
      rename_i hgt
      have ih := ihr hr
      simp only [toList]
      rw [ins_append_gt k v _ _ (k', v') (fun a ha => cmp_gt_of_lt (cmp_trans (hlx a ha) (cmp_lt_of_gt hgt))) hgt,
        ← ih]
      rcases hq : putAux r k v p with ⟨t', b⟩
      cases t' with
      | nil => simp [toList]
      | node rl rk rv rp rr =>
        cases b with
        | false => simp [toList]
        | true => simp only []; split <;> simp [toList]

theorem toList_delete (t : Tree) (k : Bytes) (hs : Sorted (toList t)) :
    toList (delete t k) = del k (toList t) := by
  induction t with
  | nil => simp [delete, toList, del]
  | node l k' v' p' r ihl ihr =>
    simp only [toList] at hs
    obtain ⟨hl, hr, hlx, hxr, hlr⟩ := sorted_append_cons.mp hs
    simp only [delete]
    split
    · rename_i hlt
      simp only [toList]
      rw [del_append_lt k _ _ (k', v') hlt, ihl hl]
    · rename_i hgt
      simp only [toList]
      rw [del_append_gt k _ _ (k', v') (fun a ha => cmp_gt_of_lt (cmp_trans (hlx a ha) (cmp_lt_of_gt hgt))) hgt,
        ihr hr]
    · rename_i heq
      simp only [toList, toList_merge]
      rw [del_append_eq k _ _ (k', v') _ heq]
      intro a ha
      have := cmp_eq heq; subst this
      exact cmp_gt_of_lt (hlx a ha)

theorem get_eq_find (t : Tree) (k : Bytes) (hs : Sorted (toList t)) :
    get t k = find k (toList t) := by
  induction t with
  | nil => simp [get, toList, find]
  | node l k' v' p' r ihl ihr =>
    simp only [toList] at hs
    obtain ⟨hl, hr, hlx, hxr, hlr⟩ := sorted_append_cons.mp hs
    simp only [get]
    split
    · rename_i hlt
      simp only [toList]
      rw [find_append_lt k _ _ (k', v') hlt, ihl hl]
    · rename_i hgt
      simp only [toList]
      rw [find_append_gt k _ _ (k', v') (fun a ha => cmp_gt_of_lt (cmp_trans (hlx a ha) (cmp_lt_of_gt hgt))) hgt,
        ihr hr]
    · rename_i heq
      simp only [toList]
      rw [find_append_eq k _ _ (k', v') _ heq]
      intro a ha
      have := cmp_eq heq; subst this
      exact cmp_gt_of_lt (hlx a ha)

theorem getKey_eq (t : Tree) (k : Bytes) : getKey t k = (get t k).map fun _ => k := by
  induction t with
  | nil => simp [getKey, get]
  | node l k' v' p' r ihl ihr =>
    simp only [getKey, get]
    split
    · exact ihl
    · exact ihr
    · rename_i heq; simp [cmp_eq heq]

/-! ### iterator: zipper facts

`above path` = the entries the ancestors contribute before / after the subtree
the path leads to. -/

def Tree.ent : Tree → Map
  | nil => []
  | node _ k v _ _ => [(k, v)]

theorem toList_split (t : Tree) : toList t = toList t.left ++ t.ent ++ toList t.right := by
  cases t <;> simp [toList, Tree.left, Tree.right, Tree.ent]

def above : List Frame → Map × Map
  | [] => ([], [])
  | (false, p) :: rest => ((above rest).1, p.ent ++ toList p.right ++ (above rest).2)
  | (true, p) :: rest => ((above rest).1 ++ toList p.left ++ p.ent, (above rest).2)

/-- `path` really is the ancestor chain of the subtree `n` inside `root`. -/
def PathOK (root : Tree) : Tree → List Frame → Prop
  | n, [] => n = root
  | n, (false, p) :: rest => p.left = n ∧ p.isNil = false ∧ PathOK root p rest
  | n, (true, p) :: rest => p.right = n ∧ p.isNil = false ∧ PathOK root p rest

theorem zip_toList {root : Tree} : ∀ {path : List Frame} {n : Tree}, PathOK root n path →
    toList root = (above path).1 ++ toList n ++ (above path).2
  | [], n, h => by simp only [PathOK] at h; subst h; simp [above]
  | (false, p) :: rest, n, h => by
    simp only [PathOK] at h
    obtain ⟨h1, _, h3⟩ := h
    rw [zip_toList h3, toList_split p, h1]
    simp [above]
  | (true, p) :: rest, n, h => by
    simp only [PathOK] at h
    obtain ⟨h1, _, h3⟩ := h
    rw [zip_toList h3, toList_split p, h1]
    simp [above]

def posBefore (n : Tree) (path : List Frame) : Map := (above path).1 ++ toList n.left
def posAfter (n : Tree) (path : List Frame) : Map := toList n.right ++ (above path).2

theorem pos_toList {root n : Tree} {path : List Frame} (h : PathOK root n path) :
    toList root = posBefore n path ++ n.ent ++ posAfter n path := by
  rw [zip_toList h, toList_split n]; simp [posBefore, posAfter]

theorem climbNext_spec {root : Tree} : ∀ {path : List Frame} {c : Tree}, PathOK root c path →
    match climbNext path with
    | none => (above path).2 = []
    | some (p, rest) => PathOK root p rest ∧ p.isNil = false ∧
        (above rest).1 ++ toList p.left = (above path).1 ++ toList c ∧
        p.ent ++ toList p.right ++ (above rest).2 = (above path).2
  | [], c, _ => by simp [climbNext, above]
  | (true, p) :: rest, c, h => by
    simp only [PathOK] at h
    obtain ⟨h1, h2, h3⟩ := h
    have ih := climbNext_spec h3
    simp only [climbNext]
    split
    · rename_i heq; rw [heq] at ih; simpa [above] using ih
    · rename_i q rest' heq
      rw [heq] at ih
      obtain ⟨i1, i2, i3, i4⟩ := ih
      refine ⟨i1, i2, ?_, ?_⟩
      · rw [i3, toList_split p, h1]; simp [above]
      · simpa [above] using i4
  | (false, p) :: rest, c, h => by
    simp only [PathOK] at h
    obtain ⟨h1, h2, h3⟩ := h
    simp only [climbNext]
    exact ⟨h3, h2, by rw [h1]; simp [above], by simp [above]⟩

theorem climbPrev_spec {root : Tree} : ∀ {path : List Frame} {c : Tree}, PathOK root c path →
    match climbPrev path with
    | none => (above path).1 = []
    | some (p, rest) => PathOK root p rest ∧ p.isNil = false ∧
        toList p.right ++ (above rest).2 = toList c ++ (above path).2 ∧
        (above rest).1 ++ toList p.left ++ p.ent = (above path).1
  | [], c, _ => by simp [climbPrev, above]
  | (false, p) :: rest, c, h => by
    simp only [PathOK] at h
    obtain ⟨h1, h2, h3⟩ := h
    have ih := climbPrev_spec h3
    simp only [climbPrev]
    split
    · rename_i heq; rw [heq] at ih; simpa [above] using ih
    · rename_i q rest' heq
      rw [heq] at ih
      obtain ⟨i1, i2, i3, i4⟩ := ih
      refine ⟨i1, i2, ?_, ?_⟩
      · rw [i3, toList_split p, h1]; simp [above]
      · simpa [above] using i4
  | (true, p) :: rest, c, h => by
    simp only [PathOK] at h
    obtain ⟨h1, h2, h3⟩ := h
    simp only [climbPrev]
    exact ⟨h3, h2, by rw [h1]; simp [above], by simp [above]⟩

theorem leftmost_spec {root : Tree} (t : Tree) (path : List Frame) (ht : t.isNil = false)
    (h : PathOK root t path) :
    ∃ m path', leftmost t path = some (m, path') ∧ PathOK root m path' ∧ m.isNil = false ∧
      m.left = nil ∧ (above path').1 = (above path).1 ∧
      m.ent ++ toList m.right ++ (above path').2 = toList t ++ (above path).2 := by
  fun_induction leftmost t path with
  | case1 path => simp [Tree.isNil] at ht
  | case2 k v p r path =>
    exact ⟨_, _, rfl, h, rfl, rfl, rfl, by simp [Tree.ent, Tree.right, toList]⟩
  | case3 a b c d e k v p r path ih =>
    have h' : PathOK root (node a b c d e) ((false, node (node a b c d e) k v p r) :: path) := by
      simp only [PathOK]; exact ⟨rfl, rfl, h⟩
    obtain ⟨m, path', e1, e2, e3, e4, e5, e6⟩ := ih rfl h'
    refine ⟨m, path', e1, e2, e3, e4, ?_, ?_⟩
    · rw [e5]; simp [above]
    · rw [e6]; simp [above, Tree.ent, Tree.right, toList]

theorem rightmost_spec {root : Tree} (t : Tree) (path : List Frame) (ht : t.isNil = false)
    (h : PathOK root t path) :
    ∃ m path', rightmost t path = some (m, path') ∧ PathOK root m path' ∧ m.isNil = false ∧
      m.right = nil ∧ (above path').2 = (above path).2 ∧
      (above path').1 ++ toList m.left ++ m.ent = (above path).1 ++ toList t := by
  fun_induction rightmost t path with
  | case1 path => simp [Tree.isNil] at ht
  | case2 l k v p path =>
    exact ⟨_, _, rfl, h, rfl, rfl, rfl, by simp [Tree.ent, Tree.left, toList]⟩
  | case3 l k v p a b c d e path ih =>
    have h' : PathOK root (node a b c d e) ((true, node l k v p (node a b c d e)) :: path) := by
      simp only [PathOK]; exact ⟨rfl, rfl, h⟩
    obtain ⟨m, path', e1, e2, e3, e4, e5, e6⟩ := ih rfl h'
    refine ⟨m, path', e1, e2, e3, e4, ?_, ?_⟩
    · rw [e5]; simp [above]
    · rw [e6]; simp [above, Tree.ent, Tree.left, toList]

/-- the successor step of `Iterator.Next` (no pending reseek, range limits applied afterwards). -/
def stepNext (n : Tree) (path : List Frame) : Option (Tree × List Frame) :=
  if n.right.isNil then climbNext path else leftmost n.right ((true, n) :: path)

def stepPrev (n : Tree) (path : List Frame) : Option (Tree × List Frame) :=
  if n.left.isNil then climbPrev path else rightmost n.left ((false, n) :: path)

theorem isNil_eq_true {t : Tree} (h : t.isNil = true) : t = nil := by
  cases t <;> simp_all [Tree.isNil]

theorem stepNext_spec {root n : Tree} {path : List Frame} (hn : n.isNil = false)
    (h : PathOK root n path) :
    match stepNext n path with
    | none => posAfter n path = []
    | some (n', path') => PathOK root n' path' ∧ n'.isNil = false ∧
        posBefore n' path' = posBefore n path ++ n.ent ∧
        n'.ent ++ posAfter n' path' = posAfter n path := by
  unfold stepNext
  by_cases hr : n.right.isNil = true
  · rw [if_pos hr]
    have hnil := isNil_eq_true hr
    have := climbNext_spec h
    split
    · rename_i heq; rw [heq] at this
      simp [posAfter, hnil, toList, this]
    · rename_i n' path' heq
      rw [heq] at this
      obtain ⟨i1, i2, i3, i4⟩ := this
      refine ⟨i1, i2, ?_, ?_⟩
      · simp only [posBefore]; rw [i3, toList_split n, hnil]; simp [toList]
      · simp only [posAfter]; rw [hnil]; simpa [toList] using i4
  · rw [if_neg hr]
    have hr' : n.right.isNil = false := by simpa using hr
    have h' : PathOK root n.right ((true, n) :: path) := by
      simp only [PathOK]; simp [hn, h]
    obtain ⟨m, path', e1, e2, e3, e4, e5, e6⟩ := leftmost_spec n.right _ hr' h'
    rw [e1]
    refine ⟨e2, e3, ?_, ?_⟩
    · simp only [posBefore]; rw [e5, e4]; simp [above, toList]
    · simp only [posAfter]; simpa [above] using e6

theorem stepPrev_spec {root n : Tree} {path : List Frame} (hn : n.isNil = false)
    (h : PathOK root n path) :
    match stepPrev n path with
    | none => posBefore n path = []
    | some (n', path') => PathOK root n' path' ∧ n'.isNil = false ∧
        posAfter n' path' = n.ent ++ posAfter n path ∧
        posBefore n' path' ++ n'.ent = posBefore n path := by
  unfold stepPrev
  by_cases hr : n.left.isNil = true
  · rw [if_pos hr]
    have hnil := isNil_eq_true hr
    have := climbPrev_spec h
    split
    · rename_i heq; rw [heq] at this
      simp [posBefore, hnil, toList, this]
    · rename_i n' path' heq
      rw [heq] at this
      obtain ⟨i1, i2, i3, i4⟩ := this
      refine ⟨i1, i2, ?_, ?_⟩
      · simp only [posAfter]; rw [i3, toList_split n, hnil]; simp [toList]
      · simp only [posBefore]; rw [hnil]; simpa [toList] using i4
  · rw [if_neg hr]
    have hr' : n.left.isNil = false := by simpa using hr
    have h' : PathOK root n.left ((false, n) :: path) := by
      simp only [PathOK]; simp [hn, h]
    obtain ⟨m, path', e1, e2, e3, e4, e5, e6⟩ := rightmost_spec n.left _ hr' h'
    rw [e1]
    refine ⟨e2, e3, ?_, ?_⟩
    · simp only [posAfter]; rw [e5, e4]; simp [above, toList]
    · simp only [posBefore]; simpa [above] using e6

/-! ### `ceil` / `floor` on sorted lists split at a pivot -/

def orElse' {α : Type} (a b : Option α) : Option α := match a with | some x => some x | none => b

theorem ceil_append_lt (key : Bytes) (s : Bool) (A B : Map) (x : Bytes × Bytes)
    (h : compare key x.1 = .lt) :
    ceil key s (A ++ x :: B) = orElse' (ceil key s A) (some x) := by
  induction A with
  | nil => obtain ⟨xk, xv⟩ := x; simp only [List.nil_append, ceil, orElse']; rw [show compare key xk = _ from h]
  | cons a A ih =>
    obtain ⟨ak, av⟩ := a
    rcases cmp_cases key ak with hc | hc | hc <;> simp only [List.cons_append, ceil, hc]
    · rfl
    · cases s
      · rfl
      · cases A <;> simp [orElse']
    · exact ih

theorem ceil_append_gt (key : Bytes) (s : Bool) (A B : Map) (x : Bytes × Bytes)
    (hA : ∀ a ∈ A, compare key a.1 = .gt) (h : compare key x.1 = .gt) :
    ceil key s (A ++ x :: B) = ceil key s B := by
  induction A with
  | nil => obtain ⟨xk, xv⟩ := x; simp only [List.nil_append, ceil]; rw [show compare key xk = _ from h]
  | cons a A ih =>
    obtain ⟨ak, av⟩ := a
    have h1 : compare key ak = .gt := hA (ak, av) (by simp)
    simp only [List.cons_append, ceil, h1]
    exact ih (fun a ha => hA a (by simp [ha]))

theorem ceil_append_eq (key : Bytes) (s : Bool) (A B : Map) (x : Bytes × Bytes)
    (hA : ∀ a ∈ A, compare key a.1 = .gt) (h : compare key x.1 = .eq) :
    ceil key s (A ++ x :: B) = if s then B.head? else some x := by
  induction A with
  | nil => obtain ⟨xk, xv⟩ := x; simp only [List.nil_append, ceil]; rw [show compare key xk = _ from h]
  | cons a A ih =>
    obtain ⟨ak, av⟩ := a
    have h1 : compare key ak = .gt := hA (ak, av) (by simp)
    simp only [List.cons_append, ceil, h1]
    exact ih (fun a ha => hA a (by simp [ha]))

theorem ceil_all_lt (key : Bytes) (s : Bool) (B : Map) (hB : ∀ b ∈ B, compare key b.1 = .lt) :
    ceil key s B = B.head? := by
  cases B with
  | nil => rfl
  | cons b B => obtain ⟨bk, bv⟩ := b; simp only [ceil, hB (bk, bv) (by simp)]; rfl

theorem floor_append_lt (key : Bytes) (s : Bool) (A B : Map) (x : Bytes × Bytes)
    (h : compare key x.1 = .lt) :
    floor key s (A ++ x :: B) = floor key s A := by
  induction A with
  | nil => obtain ⟨xk, xv⟩ := x; simp only [List.nil_append, floor]; rw [show compare key xk = _ from h]
  | cons a A ih =>
    obtain ⟨ak, av⟩ := a
    rcases cmp_cases key ak with hc | hc | hc <;> simp only [List.cons_append, floor, hc]
    rw [ih]

theorem floor_append_gt (key : Bytes) (s : Bool) (A B : Map) (x : Bytes × Bytes)
    (hA : ∀ a ∈ A, compare key a.1 = .gt) (h : compare key x.1 = .gt) :
    floor key s (A ++ x :: B) = orElse' (floor key s B) (some x) := by
  induction A with
  | nil => obtain ⟨xk, xv⟩ := x; simp only [List.nil_append, floor, orElse']; rw [show compare key xk = _ from h]; cases floor key s B <;> rfl
  | cons a A ih =>
    obtain ⟨ak, av⟩ := a
    have h1 : compare key ak = .gt := hA (ak, av) (by simp)
    simp only [List.cons_append, floor, h1]
    rw [ih (fun a ha => hA a (by simp [ha]))]
    cases floor key s B <;> simp [orElse']

theorem floor_all_gt (key : Bytes) (s : Bool) (A : Map) (hA : ∀ a ∈ A, compare key a.1 = .gt) :
    floor key s A = A.getLast? := by
  induction A with
  | nil => rfl
  | cons a A ih =>
    obtain ⟨ak, av⟩ := a
    have h1 : compare key ak = .gt := hA (ak, av) (by simp)
    simp only [floor, h1]
    rw [ih (fun a ha => hA a (by simp [ha]))]
    cases A with
    | nil => rfl
    | cons b A => simp [List.getLast?_cons_cons]; cases h : (b :: A).getLast? <;> simp_all

theorem floor_append_eq (key : Bytes) (s : Bool) (A B : Map) (x : Bytes × Bytes)
    (hA : ∀ a ∈ A, compare key a.1 = .gt) (h : compare key x.1 = .eq) :
    floor key s (A ++ x :: B) = if s then A.getLast? else some x := by
  induction A with
  | nil =>
    obtain ⟨xk, xv⟩ := x; simp only [List.nil_append, floor]; rw [show compare key xk = _ from h]
    cases s <;> rfl
  | cons a A ih =>
    obtain ⟨ak, av⟩ := a
    have h1 : compare key ak = .gt := hA (ak, av) (by simp)
    simp only [List.cons_append, floor, h1]
    rw [ih (fun a ha => hA a (by simp [ha]))]
    cases s
    · simp
    · cases A with
      | nil => rfl
      | cons b A => simp [List.getLast?_cons_cons]; cases h : (b :: A).getLast? <;> simp_all

/-! ### the descent loop of `seek` -/

def entOf (r : Option (Tree × List Frame)) : Option (Bytes × Bytes) := r.bind fun x => x.1.entry?

def PosOK (root : Tree) (r : Option (Tree × List Frame)) : Prop :=
  ∀ n p, r = some (n, p) → PathOK root n p ∧ n.isNil = false

theorem seekGo_ge {root : Tree} (key : Bytes) (exact : Bool) (t : Tree) :
    ∀ (path : List Frame) (sel : Option (Tree × List Frame)),
    Sorted (toList t) → PathOK root t path → PosOK root sel →
    PosOK root (seekGo key exact true t path sel) ∧
    entOf (seekGo key exact true t path sel) = orElse' (ceil key (!exact) (toList t)) (entOf sel) := by
  induction t with
  | nil => intro path sel _ _ hsel; simp [seekGo, toList, ceil, orElse', hsel]
  | node l k v p r ihl ihr =>
    intro path sel hs hp hsel
    simp only [toList] at hs
    obtain ⟨hl, hr, hlx, hxr, hlr⟩ := sorted_append_cons.mp hs
    have hpl : PathOK root l ((false, node l k v p r) :: path) := by
      simp only [PathOK]; simp [Tree.left, Tree.isNil, hp]
    have hpr : PathOK root r ((true, node l k v p r) :: path) := by
      simp only [PathOK]; simp [Tree.right, Tree.isNil, hp]
    have hme : PosOK root (some (node l k v p r, path)) := by
      intro n q h; cases h; exact ⟨hp, rfl⟩
    rcases cmp_cases key k with hc | hc | hc <;> simp only [seekGo, hc, toList]
    · have := ihl _ (some (node l k v p r, path)) hl hpl (by simpa using hme)
      simp only [if_true] at this ⊢
      refine ⟨this.1, ?_⟩
      rw [this.2, ceil_append_lt key _ _ _ (k, v) hc]
      cases ceil key (!exact) (toList l) <;> simp [orElse', entOf, Tree.entry?]
    · have hA : ∀ a ∈ toList l, compare key a.1 = .gt := by
        intro a ha; have := cmp_eq hc; subst this; exact cmp_gt_of_lt (hlx a ha)
      cases exact
      · have := ihr _ sel hr hpr hsel
        simp only [Bool.false_eq_true, if_false, if_true] at this ⊢
        refine ⟨this.1, ?_⟩
        rw [this.2, ceil_append_eq key _ _ _ (k, v) hA hc]
        have hB : ∀ b ∈ toList r, compare key b.1 = .lt := by
          intro b hb; have := cmp_eq hc; subst this; exact hxr b hb
        simp [ceil_all_lt key _ _ hB]
      · simp only [if_true]
        refine ⟨hme, ?_⟩
        rw [ceil_append_eq key _ _ _ (k, v) hA hc]
        simp [entOf, Tree.entry?, orElse']
    · have hA : ∀ a ∈ toList l, compare key a.1 = .gt :=
        fun a ha => cmp_gt_of_lt (cmp_trans (hlx a ha) (cmp_lt_of_gt hc))
      have := ihr _ sel hr hpr hsel
      simp only [if_true] at this ⊢
      refine ⟨this.1, ?_⟩
      rw [this.2, ceil_append_gt key _ _ _ (k, v) hA hc]

theorem seekGo_le {root : Tree} (key : Bytes) (exact : Bool) (t : Tree) :
    ∀ (path : List Frame) (sel : Option (Tree × List Frame)),
    Sorted (toList t) → PathOK root t path → PosOK root sel →
    PosOK root (seekGo key exact false t path sel) ∧
    entOf (seekGo key exact false t path sel) = orElse' (floor key (!exact) (toList t)) (entOf sel) := by
  induction t with
  | nil => intro path sel _ _ hsel; simp [seekGo, toList, floor, orElse', hsel]
  | node l k v p r ihl ihr =>
    intro path sel hs hp hsel
    simp only [toList] at hs
    obtain ⟨hl, hr, hlx, hxr, hlr⟩ := sorted_append_cons.mp hs
    have hpl : PathOK root l ((false, node l k v p r) :: path) := by
      simp only [PathOK]; simp [Tree.left, Tree.isNil, hp]
    have hpr : PathOK root r ((true, node l k v p r) :: path) := by
      simp only [PathOK]; simp [Tree.right, Tree.isNil, hp]
    have hme : PosOK root (some (node l k v p r, path)) := by
      intro n q h; cases h; exact ⟨hp, rfl⟩
    rcases cmp_cases key k with hc | hc | hc <;> simp only [seekGo, hc, toList]
    · have := ihl _ sel hl hpl hsel
      simp only [Bool.false_eq_true, if_false] at this ⊢
      refine ⟨this.1, ?_⟩
      rw [this.2, floor_append_lt key _ _ _ (k, v) hc]
    · have hA : ∀ a ∈ toList l, compare key a.1 = .gt := by
        intro a ha; have := cmp_eq hc; subst this; exact cmp_gt_of_lt (hlx a ha)
      cases exact
      · have := ihl _ sel hl hpl hsel
        simp only [Bool.false_eq_true, if_false] at this ⊢
        refine ⟨this.1, ?_⟩
        rw [this.2, floor_append_eq key _ _ _ (k, v) hA hc]
        simp [floor_all_gt key _ _ hA]
      · simp only [if_true]
        refine ⟨hme, ?_⟩
        rw [floor_append_eq key _ _ _ (k, v) hA hc]
        simp [entOf, Tree.entry?, orElse']
    · have hA : ∀ a ∈ toList l, compare key a.1 = .gt :=
        fun a ha => cmp_gt_of_lt (cmp_trans (hlx a ha) (cmp_lt_of_gt hc))
      have := ihr _ (some (node l k v p r, path)) hr hpr (by simpa using hme)
      simp only [Bool.false_eq_true, if_false] at this ⊢
      refine ⟨this.1, ?_⟩
      rw [this.2, floor_append_gt key _ _ _ (k, v) hA hc]
      cases floor key (!exact) (toList r) <;> simp [orElse', entOf, Tree.entry?]

/-! ### heap order (min-heap on priorities) -/

def AllGe (q : Int) : Tree → Prop
  | nil => True
  | node l _ _ p r => q ≤ p ∧ AllGe q l ∧ AllGe q r

def Heap : Tree → Prop
  | nil => True
  | node l _ _ p r => Heap l ∧ Heap r ∧ AllGe p l ∧ AllGe p r

theorem allGe_mono {q q' : Int} (hq : q' ≤ q) : ∀ {t : Tree}, AllGe q t → AllGe q' t
  | nil, _ => trivial
  | node l _ _ p r, h => ⟨Int.le_trans hq h.1, allGe_mono hq h.2.1, allGe_mono hq h.2.2⟩

theorem putAux_heap (t : Tree) (k v : Bytes) (pr : Int) (h : Heap t) :
    Heap (putAux t k v pr).1 ∧
    ((putAux t k v pr).2 = false → ∀ q, AllGe q t → AllGe q (putAux t k v pr).1) ∧
    (∀ q, AllGe q t → q ≤ pr → AllGe q (putAux t k v pr).1) ∧
    ((putAux t k v pr).2 = true → ∃ a kk vv c, (putAux t k v pr).1 = node a kk vv pr c ∧
        ∀ q, AllGe q t → AllGe q a ∧ AllGe q c) := by
  induction t with
  | nil =>
    refine ⟨by simp [putAux, Heap, AllGe], by simp [putAux], ?_, ?_⟩
    · intro q _ hq; simp [putAux, AllGe, hq]
    · intro _; exact ⟨nil, k, v, nil, rfl, fun q _ => ⟨trivial, trivial⟩⟩
  | node l k' v' p' r ihl ihr =>
    obtain ⟨hl, hr, hal, har⟩ := h
    rcases cmp_cases k k' with hc | hc | hc
    · -- lt
      obtain ⟨i1, i2, i3, i4⟩ := ihl hl
      simp only [putAux, hc]
      rcases hq : putAux l k v pr with ⟨t', b⟩
      rw [hq] at i1 i2 i3 i4
      simp only [] at i1 i2 i3 i4
      cases b with
      | false =>
        cases t' <;> simp only []
        all_goals exact ⟨⟨i1, hr, i2 rfl _ hal, har⟩, fun _ q hq => ⟨hq.1, i2 rfl _ hq.2.1, hq.2.2⟩,
          fun q hq _ => ⟨hq.1, i2 rfl _ hq.2.1, hq.2.2⟩, by simp⟩
      | true =>
        obtain ⟨a, kk, vv, c, he, i5⟩ := i4 rfl
        subst he
        simp only []
        by_cases hge : pr ≥ p'
        · rw [if_pos hge]
          refine ⟨⟨i1, hr, i3 _ hal hge, har⟩, ?_, ?_, by simp⟩
          · intro _ q hq
            exact ⟨hq.1, ⟨Int.le_trans hq.1 hge, (i5 q hq.2.1).1, (i5 q hq.2.1).2⟩, hq.2.2⟩
          · intro q hq hqp; exact ⟨hq.1, i3 q hq.2.1 hqp, hq.2.2⟩
        · rw [if_neg hge]
          have hlt : pr ≤ p' := by omega
          obtain ⟨ha, hcc, haa, hac⟩ := i1
          refine ⟨⟨ha, ⟨hcc, hr, (i5 p' hal).2, har⟩, haa, ⟨hlt, hac, allGe_mono hlt har⟩⟩, by simp, ?_, ?_⟩
          · intro q hq hqp
            exact ⟨hqp, (i5 q hq.2.1).1, ⟨hq.1, (i5 q hq.2.1).2, hq.2.2⟩⟩
          · intro _
            exact ⟨a, kk, vv, node c k' v' p' r, rfl, fun q hq =>
              ⟨(i5 q hq.2.1).1, ⟨hq.1, (i5 q hq.2.1).2, hq.2.2⟩⟩⟩
    · -- eq
      simp only [putAux, hc]
      refine ⟨⟨hl, hr, hal, har⟩, fun _ q hq => hq, fun q hq _ => hq, by simp⟩
    · -- gt
      obtain ⟨i1, i2, i3, i4⟩ := ihr hr
      simp only [putAux, hc]
      rcases hq : putAux r k v pr with ⟨t', b⟩
      rw [hq] at i1 i2 i3 i4
      simp only [] at i1 i2 i3 i4
      cases b with
      | false =>
        cases t' <;> simp only []
        all_goals exact ⟨⟨hl, i1, hal, i2 rfl _ har⟩, fun _ q hq => ⟨hq.1, hq.2.1, i2 rfl _ hq.2.2⟩,
          fun q hq _ => ⟨hq.1, hq.2.1, i2 rfl _ hq.2.2⟩, by simp⟩
      | true =>
        obtain ⟨a, kk, vv, c, he, i5⟩ := i4 rfl
        subst he
        simp only []
        by_cases hge : pr ≥ p'
        · rw [if_pos hge]
          refine ⟨⟨hl, i1, hal, i3 _ har hge⟩, ?_, ?_, by simp⟩
          · intro _ q hq
            exact ⟨hq.1, hq.2.1, ⟨Int.le_trans hq.1 hge, (i5 q hq.2.2).1, (i5 q hq.2.2).2⟩⟩
          · intro q hq hqp; exact ⟨hq.1, hq.2.1, i3 q hq.2.2 hqp⟩
        · rw [if_neg hge]
          have hlt : pr ≤ p' := by omega
          obtain ⟨ha, hcc, haa, hac⟩ := i1
          refine ⟨⟨⟨hl, ha, hal, (i5 p' har).1⟩, hcc, ⟨hlt, allGe_mono hlt hal, haa⟩, hac⟩, by simp, ?_, ?_⟩
          · intro q hq hqp
            exact ⟨hqp, ⟨hq.1, hq.2.1, (i5 q hq.2.2).1⟩, (i5 q hq.2.2).2⟩
          · intro _
            exact ⟨node l k' v' p' a, kk, vv, c, rfl, fun q hq =>
              ⟨⟨hq.1, hq.2.1, (i5 q hq.2.2).1⟩, (i5 q hq.2.2).2⟩⟩

/-! ### Delete keeps the heap order (with the child choice `left.priority <= right.priority`) -/

theorem allGe_merge (q : Int) (l r : Tree) (hl : AllGe q l) (hr : AllGe q r) : AllGe q (merge l r) := by
  fun_induction merge l r with
  | case1 r => exact hr
  | case2 l _ => exact hl
  | case3 ll lk lv lp lr rl rk rv rp rr h ih =>
    exact ⟨hl.1, hl.2.1, ih hl.2.2 hr⟩
  | case4 ll lk lv lp lr rl rk rv rp rr h ih =>
    exact ⟨hr.1, ih hl hr.2.1, hr.2.2⟩

theorem heap_allGe_root {l : Tree} {k v : Bytes} {p : Int} {r : Tree} (h : Heap (node l k v p r)) :
    AllGe p (node l k v p r) := ⟨Int.le_refl _, h.2.2.1, h.2.2.2⟩

theorem heap_merge (l r : Tree) (hl : Heap l) (hr : Heap r) : Heap (merge l r) := by
  fun_induction merge l r with
  | case1 r => exact hr
  | case2 l _ => exact hl
  | case3 ll lk lv lp lr rl rk rv rp rr h ih =>
    -- left root has the lower (or equal) priority: it stays on top
    refine ⟨hl.1, ih hl.2.1 hr, hl.2.2.1, ?_⟩
    exact allGe_merge lp lr _ hl.2.2.2 (allGe_mono h (heap_allGe_root hr))
  | case4 ll lk lv lp lr rl rk rv rp rr h ih =>
    have hlt : rp ≤ lp := by omega
    refine ⟨ih hl hr.1, hr.2.1, ?_, hr.2.2.2⟩
    exact allGe_merge rp _ rl (allGe_mono hlt (heap_allGe_root hl)) hr.2.2.1

theorem allGe_delete (q : Int) (t : Tree) (k : Bytes) (h : AllGe q t) : AllGe q (delete t k) := by
  induction t with
  | nil => exact h
  | node l k' v' p' r ihl ihr =>
    simp only [delete]
    split
    · exact ⟨h.1, ihl h.2.1, h.2.2⟩
    · exact ⟨h.1, h.2.1, ihr h.2.2⟩
    · exact allGe_merge q l r h.2.1 h.2.2

theorem heap_delete (t : Tree) (k : Bytes) (h : Heap t) : Heap (delete t k) := by
  induction t with
  | nil => exact h
  | node l k' v' p' r ihl ihr =>
    simp only [delete]
    split
    · exact ⟨ihl h.1, h.2.1, allGe_delete p' l k h.2.2.1, h.2.2.2⟩
    · exact ⟨h.1, ihr h.2.1, h.2.2.1, allGe_delete p' r k h.2.2.2⟩
    · exact heap_merge l r h.1 h.2.1

end ElaVerif.Treap
