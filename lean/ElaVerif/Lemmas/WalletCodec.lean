import ElaVerif.Model.WalletCodec
import ElaVerif.Lemmas.Digits
/-! Lemmas about the amount and address codecs (`Model/WalletCodec.lean`, property C37). Core Lean only. -/
namespace ElaVerif.WalletCodec
open ElaVerif.Digits

theorem charDigit_digitChar : ∀ d, d < 10 → charDigit? (digitChar d) = some d
  | 0, _ => by decide | 1, _ => by decide | 2, _ => by decide | 3, _ => by decide | 4, _ => by decide
  | 5, _ => by decide | 6, _ => by decide | 7, _ => by decide | 8, _ => by decide | 9, _ => by decide
  | n + 10, h => by omega

theorem digitChar_ne : ∀ d, d < 10 → digitChar d ≠ '.' ∧ digitChar d ≠ '-' ∧ digitChar d ≠ '+'
  | 0, _ => by decide | 1, _ => by decide | 2, _ => by decide | 3, _ => by decide | 4, _ => by decide
  | 5, _ => by decide | 6, _ => by decide | 7, _ => by decide | 8, _ => by decide | 9, _ => by decide
  | n + 10, h => by omega

theorem decDigits_map : ∀ (ds : List Nat), (∀ d ∈ ds, d < 10) → decDigits? (ds.map digitChar) = some ds
  | [], _ => rfl
  | d :: ds, h => by
    simp only [List.map_cons, decDigits?]
    rw [charDigit_digitChar d (h d (by simp)), decDigits_map ds (fun x hx => h x (by simp [hx]))]

theorem decDigits_append : ∀ (a b : List Char) (x y : List Nat), decDigits? a = some x → decDigits? b = some y →
    decDigits? (a ++ b) = some (x ++ y)
  | [], b, x, y, ha, hb => by simp [decDigits?] at ha; subst ha; simpa using hb
  | c :: a, b, x, y, ha, hb => by
    simp only [decDigits?, List.cons_append] at ha ⊢
    cases hc : charDigit? c with
    | none => rw [hc] at ha; simp at ha
    | some d =>
      rw [hc] at ha
      cases hr : decDigits? a with
      | none => rw [hr] at ha; simp at ha
      | some r =>
        rw [hr] at ha
        simp at ha
        subst ha
        rw [decDigits_append a b r y hr hb]
        rfl

theorem dotIndex_none : ∀ (s : List Char), (∀ c ∈ s, c ≠ '.') → dotIndex s = none
  | [], _ => rfl
  | c :: cs, h => by
    simp only [dotIndex]
    rw [if_neg (h c (by simp)), dotIndex_none cs (fun x hx => h x (by simp [hx]))]
    rfl

theorem dotIndex_at : ∀ (a b : List Char), (∀ c ∈ a, c ≠ '.') → dotIndex (a ++ '.' :: b) = some a.length
  | [], b, _ => by simp [dotIndex]
  | c :: a, b, h => by
    simp only [List.cons_append, dotIndex]
    rw [if_neg (h c (by simp)), dotIndex_at a b (fun x hx => h x (by simp [hx]))]
    simp

/-- everything `natToDec` prints is a decimal digit, and it reads back as `n` -/
theorem natToDec_spec (n : Nat) : ∃ ds, natToDec n = ds.map digitChar ∧ (∀ d ∈ ds, d < 10) ∧ ds ≠ [] ∧ ofDigits 10 ds = n := by
  unfold natToDec
  split
  · rename_i h; subst h
    exact ⟨[0], by decide, by simp, by simp, by decide⟩
  · rename_i h
    refine ⟨digits 10 n, rfl, digits_lt 10 (by omega) n, ?_, ofDigits_digits 10 (by omega) n⟩
    intro he
    have := ofDigits_digits 10 (by omega) n
    rw [he] at this
    simp [ofDigits, ofDigitsLE] at this
    omega

theorem ofDigitsLE_zeros (b k : Nat) : ofDigitsLE b (List.replicate k 0) = 0 := by
  induction k with
  | zero => rfl
  | succ k ih => simp [List.replicate_succ, ofDigitsLE, ih]

theorem ofDigits_zeros (b k : Nat) : ofDigits b (List.replicate k 0) = 0 := by
  simp [ofDigits, ofDigitsLE_zeros]

theorem natToDec_length_le (n k : Nat) (hk : 1 ≤ k) (h : n < 10 ^ k) : (natToDec n).length ≤ k := by
  unfold natToDec
  split
  · simp; omega
  · rename_i hn
    simp only [List.length_map]
    -- digits are canonical: 10^(len-1) ≤ n
    have hv := ofDigitsLE_digitsLE 10 (by omega) (n + 1) n (by omega)
    have hlast := digitsLE_last 10 (by omega) (n + 1) n (by omega)
    have hne : digitsLE 10 (n + 1) n ≠ [] := by unfold digitsLE; rw [if_neg hn]; simp
    have hlow := ofDigitsLE_lower 10 _ hne hlast
    rw [hv] at hlow
    simp only [digits, List.length_reverse]
    generalize (digitsLE 10 (n + 1) n).length = L at *
    have : L - 1 < k := (Nat.pow_lt_pow_iff_right (by omega)).mp (Nat.lt_of_le_of_lt hlow h)
    omega


/-- parsing `digits ++ more digits` (no sign) -/
theorem parseBody_digits (neg : Bool) (ds : List Nat) (hlt : ∀ d ∈ ds, d < 10) (hne : ds ≠ []) :
    parseBody neg (ds.map digitChar) =
      (let v := ofDigits 10 ds
       if neg then (if v ≤ 2 ^ 63 then some (-(v : Int)) else none)
       else (if v < 2 ^ 63 then some (v : Int) else none)) := by
  unfold parseBody
  have : (ds.map digitChar).isEmpty = false := by
    cases ds with
    | nil => exact absurd rfl hne
    | cons a b => rfl
  rw [this, decDigits_map ds hlt]
  simp

theorem parseInt64_neg (ds : List Nat) (hlt : ∀ d ∈ ds, d < 10) (hne : ds ≠ []) (hv : ofDigits 10 ds ≤ 2 ^ 63) :
    parseInt64 ('-' :: ds.map digitChar) = some (-(ofDigits 10 ds : Int)) := by
  unfold parseInt64
  simp only [if_true]
  rw [parseBody_digits true ds hlt hne]
  simp [hv]

theorem parseInt64_pos (ds : List Nat) (hlt : ∀ d ∈ ds, d < 10) (hne : ds ≠ []) (hv : ofDigits 10 ds < 2 ^ 63) :
    parseInt64 (ds.map digitChar) = some (ofDigits 10 ds : Int) := by
  match ds, hne with
  | d :: rest, _ =>
    have hd := digitChar_ne d (hlt d (by simp))
    simp only [List.map_cons, parseInt64]
    rw [if_neg hd.2.1, if_neg hd.2.2]
    have := parseBody_digits false (d :: rest) hlt (by simp)
    simp only [List.map_cons] at this
    rw [this]
    simp [hv]

/-- the digit list the parser sees for `Fixed64.String()`: integer digits, then 8 fractional digits -/
theorem amount_digits (ip fp : Nat) (hfp : fp < 10 ^ 8) :
    ∃ ds, (∀ d ∈ ds, d < 10) ∧ ds ≠ [] ∧ ofDigits 10 ds = ip * 10 ^ 8 + fp ∧
      (fp = 0 → natToDec ip ++ List.replicate 8 '0' = ds.map digitChar) ∧
      (natToDec ip ++ (List.replicate (8 - (natToDec fp).length) '0' ++ natToDec fp) ++ List.replicate (8 - 8) '0'
          = ds.map digitChar) := by
  obtain ⟨di, hdi, hdl, hdn, hdv⟩ := natToDec_spec ip
  obtain ⟨df, hdf, hfl, hfn, hfv⟩ := natToDec_spec fp
  have hlen : (natToDec fp).length ≤ 8 := natToDec_length_le fp 8 (by omega) hfp
  have hdflen : df.length ≤ 8 := by rw [hdf] at hlen; simpa using hlen
  refine ⟨di ++ (List.replicate (8 - df.length) 0 ++ df), ?_, by simp [hdn], ?_, ?_, ?_⟩
  · intro d hd
    simp only [List.mem_append, List.mem_replicate] at hd
    rcases hd with hd | ⟨_, hd⟩ | hd
    · exact hdl d hd
    · omega
    · exact hfl d hd
  · rw [ofDigits_append, ofDigits_append, ofDigits_zeros, hdv, hfv]
    simp only [List.length_append, List.length_replicate]
    rw [show 8 - df.length + df.length = 8 by omega]
    omega
  · intro h0
    subst h0
    have : df = [0] := by
      have h0' : natToDec 0 = ['0'] := rfl
      rw [h0'] at hdf
      have hl1 : df.length = 1 := by
        have := congrArg List.length hdf
        simpa using this.symm
      match df, hl1, hdf with
      | [d], _, h =>
        simp at h
        have hd := hfl d (by simp)
        have : charDigit? (digitChar d) = charDigit? '0' := by rw [← h]
        rw [charDigit_digitChar d hd] at this
        have h0 : charDigit? '0' = some 0 := by decide
        rw [h0] at this
        simp at this; subst this; rfl
    subst this
    rw [hdi]
    simp only [List.map_append, List.map_replicate, List.length_singleton]
    have : digitChar 0 = '0' := by decide
    simp [this, List.replicate_succ]
  · rw [hdi, hdf]
    simp only [List.map_append, List.map_replicate, List.length_map, Nat.sub_self, List.replicate_zero, List.append_nil]
    have : digitChar 0 = '0' := by decide
    rw [this]


theorem natToDec_no_dot (n : Nat) : ∀ c ∈ natToDec n, c ≠ '.' := by
  obtain ⟨ds, hds, hlt, _, _⟩ := natToDec_spec n
  intro c hc
  rw [hds] at hc
  simp only [List.mem_map] at hc
  obtain ⟨d, hd, rfl⟩ := hc
  exact (digitChar_ne d (hlt d hd)).1

theorem frac_length (fp : Nat) (hfp : fp < 10 ^ 8) :
    (List.replicate (8 - (natToDec fp).length) '0' ++ natToDec fp).length = 8 := by
  have := natToDec_length_le fp 8 (by omega) hfp
  simp; omega

/-- **Amount round trip** on the repaired parser: every int64 value printed by `Fixed64.String()`
    parses back to itself. -/
theorem amount_roundtrip (f : Int) (hlo : -(2 ^ 63 : Int) ≤ f) (hhi : f < 2 ^ 63) :
    stringToAmount true (amountToString f) = some f := by
  have hfp : f.natAbs % 10 ^ 8 < 10 ^ 8 := Nat.mod_lt _ (by decide)
  obtain ⟨ds, hlt, hne, hval, hz, hfr⟩ := amount_digits (f.natAbs / 10 ^ 8) (f.natAbs % 10 ^ 8) hfp
  have hv : ofDigits 10 ds = f.natAbs := by
    rw [hval]; have := Nat.div_add_mod f.natAbs (10 ^ 8); rw [Nat.mul_comm]; omega
  unfold amountToString
  simp only []
  by_cases hneg : f < 0
  · -- negative
    rw [if_pos hneg]
    have hbound : ofDigits 10 ds ≤ 2 ^ 63 := by rw [hv]; omega
    have hres : -(ofDigits 10 ds : Int) = f := by rw [hv]; omega
    by_cases h0 : f.natAbs % 10 ^ 8 > 0
    · rw [if_pos h0]
      unfold stringToAmount
      have hnd : ∀ c ∈ ['-'] ++ natToDec (f.natAbs / 10 ^ 8), c ≠ '.' := by
        intro c hc
        simp only [List.mem_append, List.mem_singleton] at hc
        rcases hc with hc | hc
        · subst hc; decide
        · exact natToDec_no_dot _ c hc
      rw [show ['-'] ++ natToDec (f.natAbs / 10 ^ 8) ++ '.' :: (List.replicate (8 - (natToDec (f.natAbs % 10 ^ 8)).length) '0' ++ natToDec (f.natAbs % 10 ^ 8))
            = (['-'] ++ natToDec (f.natAbs / 10 ^ 8)) ++ '.' :: (List.replicate (8 - (natToDec (f.natAbs % 10 ^ 8)).length) '0' ++ natToDec (f.natAbs % 10 ^ 8)) by simp]
      rw [dotIndex_at _ _ hnd]
      simp only []
      have hF := frac_length (f.natAbs % 10 ^ 8) hfp
      generalize hFd : (List.replicate (8 - (natToDec (f.natAbs % 10 ^ 8)).length) '0' ++ natToDec (f.natAbs % 10 ^ 8)) = F at *
      generalize hAd : (['-'] ++ natToDec (f.natAbs / 10 ^ 8)) = A at *
      have hlenS : (A ++ '.' :: F).length = A.length + 9 := by simp [hF]
      rw [if_neg (by rw [hlenS]; omega)]
      rw [List.take_left' rfl]
      rw [show (A ++ '.' :: F).drop (A.length + 1) = F by
        rw [show A ++ '.' :: F = (A ++ ['.']) ++ F by simp]
        exact List.drop_left' (by simp)]
      rw [hlenS, show A.length + 9 - A.length - 1 = 8 by omega]
      rw [← hAd]
      have := hfr
      simp only [List.append_assoc] at this ⊢
      rw [show ['-'] ++ (natToDec (f.natAbs / 10 ^ 8) ++ (F ++ List.replicate (8 - 8) '0'))
            = '-' :: ds.map digitChar by rw [← this]; rfl]
      rw [parseInt64_neg ds hlt hne hbound, hres]
    · rw [if_neg h0]
      have h0' : f.natAbs % 10 ^ 8 = 0 := by omega
      unfold stringToAmount
      simp only [List.append_nil]
      rw [dotIndex_none _ (by
        intro c hc
        simp only [List.mem_append, List.mem_singleton] at hc
        rcases hc with hc | hc
        · subst hc; decide
        · exact natToDec_no_dot _ c hc)]
      simp only []
      rw [if_neg (by simp)]
      rw [show ['-'] ++ natToDec (f.natAbs / 10 ^ 8) ++ List.replicate 8 '0' = '-' :: ds.map digitChar by
        rw [← hz h0']; rfl]
      rw [parseInt64_neg ds hlt hne hbound, hres]
  · -- non-negative
    rw [if_neg hneg]
    have hbound : ofDigits 10 ds < 2 ^ 63 := by rw [hv]; omega
    have hres : (ofDigits 10 ds : Int) = f := by rw [hv]; omega
    by_cases h0 : f.natAbs % 10 ^ 8 > 0
    · rw [if_pos h0]
      unfold stringToAmount
      simp only [List.nil_append]
      rw [dotIndex_at _ _ (natToDec_no_dot _)]
      simp only []
      have hF := frac_length (f.natAbs % 10 ^ 8) hfp
      generalize hFd : (List.replicate (8 - (natToDec (f.natAbs % 10 ^ 8)).length) '0' ++ natToDec (f.natAbs % 10 ^ 8)) = F at *
      generalize hAd : natToDec (f.natAbs / 10 ^ 8) = A at *
      have hlenS : (A ++ '.' :: F).length = A.length + 9 := by simp [hF]
      rw [if_neg (by rw [hlenS]; omega)]
      rw [List.take_left' rfl]
      rw [show (A ++ '.' :: F).drop (A.length + 1) = F by
        rw [show A ++ '.' :: F = (A ++ ['.']) ++ F by simp]
        exact List.drop_left' (by simp)]
      rw [hlenS, show A.length + 9 - A.length - 1 = 8 by omega]
      have := hfr
      simp only [List.append_assoc] at this ⊢
      rw [this, parseInt64_pos ds hlt hne hbound, hres]
    · rw [if_neg h0]
      have h0' : f.natAbs % 10 ^ 8 = 0 := by omega
      unfold stringToAmount
      simp only [List.nil_append, List.append_nil]
      rw [dotIndex_none _ (natToDec_no_dot _)]
      simp only []
      rw [if_neg (by simp)]
      rw [hz h0', parseInt64_pos ds hlt hne hbound, hres]


end ElaVerif.WalletCodec
