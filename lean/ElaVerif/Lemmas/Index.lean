import ElaVerif.Model.Index
/-!
  Lemmas about the index model (`Model/Index.lean`) used by C13, C06, C14.
-/
namespace ElaVerif.Index

namespace Map
variable {K V : Type} [DecidableEq K]

@[simp] theorem find?_nil (k : K) : find? ([] : Map K V) k = none := rfl

@[simp] theorem find?_put (m : Map K V) (k : K) (v : V) (k' : K) :
    (m.put k v).find? k' = if k = k' then some (some v) else m.find? k' := by
  simp [put, find?]

@[simp] theorem find?_del (m : Map K V) (k k' : K) :
    (m.del k).find? k' = if k = k' then some none else m.find? k' := by
  simp [del, find?]

@[simp] theorem get_nil (k : K) : get ([] : Map K V) k = none := rfl

@[simp] theorem get_put (m : Map K V) (k : K) (v : V) (k' : K) :
    (m.put k v).get k' = if k = k' then some v else m.get k' := by
  unfold get; rw [find?_put]; by_cases h : k = k' <;> simp [h]

@[simp] theorem get_del (m : Map K V) (k k' : K) :
    (m.del k).get k' = if k = k' then none else m.get k' := by
  unfold get; rw [find?_del]; by_cases h : k = k' <;> simp [h]

theorem get_eq_of_find? {m : Map K V} {k : K} {v : Option V} (h : m.find? k = some v) : m.get k = v := by
  unfold get; rw [h]

theorem get_of_find?_none {m : Map K V} {k : K} (h : m.find? k = none) : m.get k = none := by
  unfold get; rw [h]

theorem mem_keys (m : Map K V) (k : K) : k ∈ m.keys ↔ m.find? k ≠ none := by
  induction m with
  | nil => simp [keys]
  | cons e r ih =>
    obtain ⟨k', v⟩ := e
    simp only [keys, find?, List.mem_cons, List.mem_filter]
    by_cases h : k' = k
    · subst h; simp
    · simp [h, ih, Ne.symm h]

/-- folding single-key writes over a key list: every listed key gets its value -/
theorem get_foldl_put_keys (ks : List K) (m : Map K V) (k : K) :
    (ks.foldl (fun m h => m.put h v) m).get k = if k ∈ ks then some v else m.get k := by
  induction ks generalizing m with
  | nil => simp
  | cons a r ih =>
    simp only [List.foldl_cons, ih, get_put, List.mem_cons]
    by_cases h2 : a = k
    · subst h2; simp
    · have h3 : ¬ k = a := fun e => h2 e.symm
      simp [h2, h3]

theorem get_foldl_del_keys (ks : List K) (m : Map K V) (k : K) :
    (ks.foldl (fun m h => m.del h) m).get k = if k ∈ ks then none else m.get k := by
  induction ks generalizing m with
  | nil => simp
  | cons a r ih =>
    simp only [List.foldl_cons, ih, get_del, List.mem_cons]
    by_cases h2 : a = k
    · subst h2; simp
    · have h3 : ¬ k = a := fun e => h2 e.symm
      simp [h2, h3]

theorem get_foldl_put_pairs_of_not_mem (ps : List (K × V)) (m : Map K V) (k : K)
    (h : k ∉ ps.map (·.1)) : (ps.foldl (fun m p => m.put p.1 p.2) m).get k = m.get k := by
  induction ps generalizing m with
  | nil => simp
  | cons a r ih =>
    simp only [List.map_cons, List.mem_cons, not_or] at h
    simp only [List.foldl_cons]
    rw [ih _ h.2, get_put, if_neg (Ne.symm h.1)]

theorem get_foldl_del_pairs (ps : List (K × V)) (m : Map K V) (k : K) :
    (ps.foldl (fun m p => m.del p.1) m).get k = if k ∈ ps.map (·.1) then none else m.get k := by
  induction ps generalizing m with
  | nil => simp
  | cons a r ih =>
    simp only [List.foldl_cons, ih, get_del, List.map_cons, List.mem_cons]
    by_cases h2 : a.1 = k
    · subst h2; simp
    · have h3 : ¬ k = a.1 := fun e => h2 e.symm
      simp only [h2, h3, if_false, false_or]

end Map

/-! ### swap-and-pop is `eraseP` up to a permutation -/

theorem swapRemoveP_perm {α : Type} (p : α → Bool) (l : List α) :
    (swapRemoveP p l).Perm (l.eraseP p) := by
  induction l with
  | nil => simp [swapRemoveP]
  | cons a r ih =>
    by_cases h : p a
    · simp only [swapRemoveP, h, if_true, List.eraseP_cons_of_pos]
      cases hz : r.getLast? with
      | none =>
        have : r = [] := List.getLast?_eq_none_iff.mp hz
        simp [this]
      | some z =>
        obtain ⟨ys, rfl⟩ := List.getLast?_eq_some_iff.mp hz
        simpa using (List.perm_append_singleton z ys).symm
    · simp only [swapRemoveP, h, Bool.false_eq_true, if_false]
      rw [List.eraseP_cons_of_neg (by simpa using h)]
      exact ih.cons a

theorem swapRemove_perm (l : List Nat) (x : Nat) : (swapRemove l x).Perm (l.erase x) := by
  unfold swapRemove
  have := swapRemoveP_perm (fun y => y == x) l
  rwa [List.erase_eq_eraseP'] at *

theorem foldl_swapRemove_perm (I : List Nat) (l l' : List Nat) (h : l.Perm l') :
    (I.foldl swapRemove l).Perm (I.foldl (fun l i => l.erase i) l') := by
  induction I generalizing l l' with
  | nil => simpa
  | cons i r ih =>
    simp only [List.foldl_cons]
    exact ih _ _ ((swapRemove_perm l i).trans (h.erase i))

/-- erasing distinct members and appending them again is a permutation -/
theorem foldl_erase_append_perm (I l : List Nat) (hn : I.Nodup) (hs : ∀ i ∈ I, i ∈ l) :
    ((I.foldl (fun l i => l.erase i) l) ++ I).Perm l := by
  induction I generalizing l with
  | nil => simp
  | cons i r ih =>
    simp only [List.foldl_cons]
    have hn' := List.nodup_cons.mp hn
    have h1 : ∀ j ∈ r, j ∈ l.erase i := by
      intro j hj
      have hne : j ≠ i := fun e => hn'.1 (e ▸ hj)
      exact (List.mem_erase_of_ne hne).mpr (hs j (List.mem_cons_of_mem _ hj))
    have h2 := ih (l.erase i) hn'.2 h1
    have h3 : (List.foldl (fun l i => l.erase i) (l.erase i) r ++ i :: r).Perm
        (i :: (List.foldl (fun l i => l.erase i) (l.erase i) r ++ r)) := List.perm_middle
    exact h3.trans ((h2.cons i).trans (List.perm_cons_erase (hs i (List.mem_cons_self ..))).symm)

theorem foldl_swapRemove_append_perm (I l : List Nat) (hn : I.Nodup) (hs : ∀ i ∈ I, i ∈ l) :
    ((I.foldl swapRemove l) ++ I).Perm l :=
  ((foldl_swapRemove_perm I l l (List.Perm.refl _)).append_right I).trans (foldl_erase_append_perm I l hn hs)

/-! ### the batch map, one key at a time -/

section batch
variable {K E : Type} [DecidableEq K]

/-- value a batch entry stands for: the entry, else the database value -/
def cval (c : Option (Option (List E))) (dbk : List E) : List E :=
  match c with
  | some v => v.getD []
  | none => dbk

/-- one batch step seen from key `k` (`dbk` = database value of `k`) -/
def kstep (dbk : List E) (k : K) (c : Option (Option (List E))) (op : BOp K E) : Option (Option (List E)) :=
  if op.key = k then some (some (op.f (cval c (if op.readDb then dbk else [])))) else c

theorem find?_bstep (db u : Map K (List E)) (op : BOp K E) (k : K) :
    (bstep db u op).find? k = kstep ((db.get k).getD []) k (u.find? k) op := by
  unfold bstep kstep
  rw [Map.find?_put]
  by_cases h : op.key = k
  · subst h
    simp only [if_true, bcur, cval]
    cases u.find? op.key <;> rfl
  · simp [h]

theorem find?_foldl_bstep (db : Map K (List E)) (ops : List (BOp K E)) (u : Map K (List E)) (k : K) :
    (ops.foldl (bstep db) u).find? k = ops.foldl (kstep ((db.get k).getD []) k) (u.find? k) := by
  induction ops generalizing u with
  | nil => rfl
  | cons op r ih => simp only [List.foldl_cons, ih, find?_bstep]

theorem foldl_kstep_filter (dbk : List E) (k : K) (ops : List (BOp K E)) (c : Option (Option (List E))) :
    ops.foldl (kstep dbk k) c = (ops.filter (fun op => op.key = k)).foldl (kstep dbk k) c := by
  induction ops generalizing c with
  | nil => rfl
  | cons op r ih =>
    by_cases h : op.key = k
    · simp only [List.foldl_cons, List.filter_cons, h, decide_true, if_true, ih]
    · simp only [List.foldl_cons, List.filter_cons, h, decide_false, ih]
      simp [kstep, h]

def applyOps (ops : List (BOp K E)) (l : List E) : List E := ops.foldl (fun l op => op.f l) l

/-- all steps on the key itself: the functions are applied, in order, to the value the first
    touch loads -/
theorem foldl_kstep_same (dbk : List E) (k : K) (ops : List (BOp K E)) (c : Option (Option (List E)))
    (hk : ∀ op ∈ ops, op.key = k) (hr : (∀ op ∈ ops, op.readDb = true) ∨ dbk = []) :
    cval (ops.foldl (kstep dbk k) c) dbk = applyOps ops (cval c dbk) := by
  induction ops generalizing c with
  | nil => rfl
  | cons op r ih =>
    have hk' : ∀ op ∈ r, op.key = k := fun o ho => hk o (List.mem_cons_of_mem _ ho)
    have hr' : (∀ op ∈ r, op.readDb = true) ∨ dbk = [] :=
      hr.imp (fun h o ho => h o (List.mem_cons_of_mem _ ho)) id
    simp only [List.foldl_cons, applyOps]
    rw [ih _ hk' hr']
    have h1 : op.key = k := hk op (List.mem_cons_self ..)
    have h2 : cval c (if op.readDb then dbk else []) = cval c dbk := by
      cases c with
      | some v => rfl
      | none =>
        simp only [cval]
        rcases hr with h | h
        · simp [h op (List.mem_cons_self ..)]
        · simp [h]
    simp only [kstep, h1, if_true, h2, applyOps]
    rfl

/-- what a key reads as after a batch has been flushed onto the database -/
theorem cval_batch (db : Map K (List E)) (ops : List (BOp K E)) (k : K)
    (hr : (∀ op ∈ ops, op.key = k → op.readDb = true) ∨ (db.get k).getD [] = []) :
    cval ((batch db ops).find? k) ((db.get k).getD []) =
      applyOps (ops.filter fun op => op.key = k) ((db.get k).getD []) := by
  unfold batch
  rw [find?_foldl_bstep, foldl_kstep_filter]
  have := foldl_kstep_same ((db.get k).getD []) k (ops.filter fun op => op.key = k) none
    (fun op ho => by simpa using (List.mem_filter.mp ho).2)
    (hr.imp (fun h op ho => h op (List.mem_filter.mp ho).1 (by simpa using (List.mem_filter.mp ho).2)) id)
  simpa [cval] using this

theorem get_flush (de : Bool) (db u : Map K (List E)) (k : K) :
    (flush de db u).get k =
      match u.get k with
      | some l => if de && l.isEmpty then none else some l
      | none => db.get k := by
  have key : ∀ (ks : List K) (m : Map K (List E)),
      (ks.foldl (flushStep de u) m).get k =
      if k ∈ ks then
        (match u.get k with
          | some l => if de && l.isEmpty then none else some l
          | none => m.get k)
      else m.get k := by
    intro ks
    induction ks with
    | nil => intro m; simp
    | cons a r ih =>
      intro m
      simp only [List.foldl_cons, ih, List.mem_cons]
      by_cases ha : a = k
      · subst ha
        unfold flushStep
        cases hu : u.get a with
        | none => simp
        | some l => by_cases hd : (de && l.isEmpty) = true <;> simp [hd]
      · have ha' : ¬ k = a := fun e => ha e.symm
        have hget : (flushStep de u m a).get k = m.get k := by
          unfold flushStep
          cases u.get a with
          | none => rfl
          | some l => by_cases hd : (de && l.isEmpty) = true <;> simp [hd, ha]
        simp only [hget, ha', false_or]
  unfold flush
  rw [key]
  by_cases hk : k ∈ u.keys
  · simp [hk]
  · have : u.find? k = none := by
      cases hf : u.find? k with
      | none => rfl
      | some v => exact absurd ((Map.mem_keys u k).mpr (by simp [hf])) hk
    rw [if_neg hk, Map.get_of_find?_none this]

/-- observationally (`getD []`) the flush does not depend on whether empty lists are deleted -/
theorem getD_flush (de : Bool) (db u : Map K (List E)) (k : K) (hu : u.find? k ≠ some none) :
    ((flush de db u).get k).getD [] = cval (u.find? k) ((db.get k).getD []) := by
  rw [get_flush]
  unfold Map.get cval
  cases hf : u.find? k with
  | none => simp
  | some v =>
    cases v with
    | none => exact absurd hf hu
    | some l =>
      by_cases hd : (de && l.isEmpty) = true
      · have h2 : de = true ∧ l.isEmpty = true := by simpa using hd
        have : l = [] := by simpa using h2.2
        subst this
        simp [h2.1]
      · simp [hd]

theorem foldl_kstep_ne_tomb (dbk : List E) (k : K) (ops : List (BOp K E)) (c : Option (Option (List E)))
    (hc : c ≠ some none) : ops.foldl (kstep dbk k) c ≠ some none := by
  induction ops generalizing c with
  | nil => exact hc
  | cons op r ih =>
    simp only [List.foldl_cons]
    apply ih
    unfold kstep
    split
    · simp
    · exact hc

theorem find?_foldl_bstep_ne_tomb (db : Map K (List E)) (ops : List (BOp K E)) (u : Map K (List E)) (k : K)
    (hu : u.find? k ≠ some none) : (ops.foldl (bstep db) u).find? k ≠ some none := by
  rw [find?_foldl_bstep]; exact foldl_kstep_ne_tomb _ _ _ _ hu

theorem foldl_kstep_no_key (dbk : List E) (k : K) (ops : List (BOp K E)) (c : Option (Option (List E)))
    (h : ∀ op ∈ ops, op.key ≠ k) : ops.foldl (kstep dbk k) c = c := by
  induction ops generalizing c with
  | nil => rfl
  | cons op r ih =>
    simp only [List.foldl_cons]
    rw [ih _ (fun o ho => h o (List.mem_cons_of_mem _ ho))]
    simp [kstep, h op (List.mem_cons_self ..)]

end batch

/-! ### unspent index -/

def creates (tx : Tx) : Bool := tx.kind != .registerAsset && !tx.outs.isEmpty
def createIds (b : Block) : List Nat := (b.txs.filter creates).map (·.id)
def allIns (b : Block) : List (Nat × Nat) := b.txs.flatMap txIns
def insAt (b : Block) (k : Nat) : List Nat := ((allIns b).filter (fun p => p.1 = k)).map (·.2)

theorem filter_txUOps (tx : Tx) (k : Nat) (hreg : tx.kind = .registerAsset → tx.ins = [])
    (hk : creates tx = true → tx.id ≠ k) :
    (txUOps tx).filter (fun op => op.key = k) = ((txIns tx).filter (fun p => p.1 = k)).map uSpend := by
  unfold txUOps
  by_cases hr : tx.kind = .registerAsset
  · have : txIns tx = [] := by simp [txIns, hr, hreg hr]
    simp [hr, this]
  · simp only [hr, if_false, List.filter_append]
    have h1 : (if tx.outs.isEmpty then [] else [uCreate tx.id tx.outs.length]).filter (fun op => op.key = k) = [] := by
      by_cases ho : tx.outs.isEmpty
      · simp [ho]
      · have : tx.id ≠ k := hk (by simp [creates, hr, ho])
        simp [ho, uCreate, this]
    rw [h1, List.nil_append, List.filter_map]
    rfl

theorem filter_blockUOps (txs : List Tx) (k : Nat)
    (hreg : ∀ tx ∈ txs, tx.kind = .registerAsset → tx.ins = [])
    (hk : ∀ tx ∈ txs, creates tx = true → tx.id ≠ k) :
    (txs.flatMap txUOps).filter (fun op => op.key = k) =
      ((txs.flatMap txIns).filter (fun p => p.1 = k)).map uSpend := by
  induction txs with
  | nil => rfl
  | cons tx r ih =>
    simp only [List.flatMap_cons, List.filter_append, List.map_append]
    rw [filter_txUOps tx k (hreg tx (List.mem_cons_self ..)) (hk tx (List.mem_cons_self ..)),
      ih (fun t ht => hreg t (List.mem_cons_of_mem _ ht)) (fun t ht => hk t (List.mem_cons_of_mem _ ht))]

theorem applyOps_uSpend (ps : List (Nat × Nat)) (l : List Nat) :
    applyOps (ps.map uSpend) l = (ps.map (·.2)).foldl swapRemove l := by
  unfold applyOps
  rw [List.foldl_map, List.foldl_map]
  rfl

theorem applyOps_uRestore (ps : List (Nat × Nat)) (l : List Nat) :
    applyOps (ps.map uRestore) l = l ++ ps.map (·.2) := by
  induction ps generalizing l with
  | nil => simp [applyOps]
  | cons p r ih =>
    have : applyOps ((p :: r).map uRestore) l = applyOps (r.map uRestore) (l ++ [p.2]) := rfl
    rw [this, ih]; simp

/-- the unspent index after connecting a block, read at a key the block does not create -/
theorem getD_unspentConnect (b : Block) (db un : Map Nat (List Nat)) (k : Nat)
    (h : unspentConnect b db = .ok un)
    (hreg : ∀ tx ∈ b.txs, tx.kind = .registerAsset → tx.ins = [])
    (hk : ∀ tx ∈ b.txs, creates tx = true → tx.id ≠ k) :
    (un.get k).getD [] = (insAt b k).foldl swapRemove ((db.get k).getD []) := by
  unfold unspentConnect at h
  simp only at h
  split at h
  · cases h
  · cases h
    rw [getD_flush _ _ _ _ (by unfold batch; exact find?_foldl_bstep_ne_tomb _ _ _ _ (by simp))]
    rw [cval_batch]
    · unfold blockUOps
      rw [filter_blockUOps _ _ hreg hk, applyOps_uSpend]
      rfl
    · left
      intro op ho hkey
      unfold blockUOps at ho
      obtain ⟨tx, htx, hop⟩ := List.mem_flatMap.mp ho
      unfold txUOps at hop
      by_cases hr : tx.kind = .registerAsset
      · simp [hr] at hop
      · simp only [hr, if_false, List.mem_append, List.mem_map] at hop
        rcases hop with hop | ⟨p, _, rfl⟩
        · by_cases ho' : tx.outs.isEmpty
          · simp [ho'] at hop
          · simp only [ho', Bool.false_eq_true, if_false, List.mem_singleton] at hop
            subst hop
            exact absurd hkey (hk tx htx (by simp [creates, hr, ho']))
        · rfl

/-- at the id of a transaction of the block (ids distinct, not referenced, nothing stored before)
    the connected index holds all output indexes -/
theorem batch_created (b : Block) (db : Map Nat (List Nat)) (tx0 : Tx)
    (hreg : ∀ tx ∈ b.txs, tx.kind = .registerAsset → tx.ins = [])
    (hmem : tx0 ∈ b.txs) (hc : creates tx0 = true)
    (hnd : (b.txs.map (·.id)).Nodup)
    (hnoref : ∀ p ∈ allIns b, p.1 ≠ tx0.id)
    (hfresh : (db.get tx0.id).getD [] = []) :
    cval ((batch db (blockUOps b)).find? tx0.id) ((db.get tx0.id).getD []) = List.range tx0.outs.length := by
  · rw [cval_batch _ _ _ (Or.inr hfresh), hfresh]
    obtain ⟨pre, post, hsplit⟩ := List.append_of_mem hmem
    have hids : ∀ tx ∈ pre ++ post, tx.id ≠ tx0.id := by
      rw [hsplit] at hnd
      simp only [List.map_append, List.map_cons] at hnd
      have h1 := List.nodup_append.mp hnd
      have h2 := List.nodup_cons.mp h1.2.1
      intro tx htx e
      rcases List.mem_append.mp htx with hp | hp
      · exact h1.2.2 tx.id (List.mem_map.mpr ⟨tx, hp, rfl⟩) tx0.id (List.mem_cons_self ..) e
      · exact h2.1 (e ▸ List.mem_map.mpr ⟨tx, hp, rfl⟩)
    have hnone : ∀ txs : List Tx, (∀ tx ∈ txs, tx ∈ b.txs) → (∀ tx ∈ txs, tx.id ≠ tx0.id) →
        (txs.flatMap txUOps).filter (fun op => op.key = tx0.id) = [] := by
      intro txs hsub hne
      rw [filter_blockUOps txs _ (fun t ht => hreg t (hsub t ht)) (fun t ht _ => hne t ht)]
      have : (txs.flatMap txIns).filter (fun p => p.1 = tx0.id) = [] := by
        apply List.filter_eq_nil_iff.mpr
        intro p hp
        have : p ∈ allIns b := by
          obtain ⟨t, ht, hpt⟩ := List.mem_flatMap.mp hp
          exact List.mem_flatMap.mpr ⟨t, hsub t ht, hpt⟩
        simp [hnoref p this]
      rw [this]; rfl
    have hsubpre : ∀ tx ∈ pre, tx ∈ b.txs := fun t ht => hsplit ▸ List.mem_append_left _ ht
    have hsubpost : ∀ tx ∈ post, tx ∈ b.txs := fun t ht => hsplit ▸ List.mem_append_right _ (List.mem_cons_of_mem _ ht)
    have h0 : (txUOps tx0).filter (fun op => op.key = tx0.id) = [uCreate tx0.id tx0.outs.length] := by
      have hr : tx0.kind ≠ .registerAsset := by
        intro e; simp [creates, e] at hc
      have ho : tx0.outs.isEmpty = false := by
        cases hh : tx0.outs.isEmpty
        · rfl
        · simp [creates, hh] at hc
      unfold txUOps
      simp only [hr, if_false, ho, Bool.false_eq_true, List.filter_append]
      have : ((txIns tx0).map uSpend).filter (fun op => op.key = tx0.id) = [] := by
        apply List.filter_eq_nil_iff.mpr
        intro op hop
        obtain ⟨p, hp, rfl⟩ := List.mem_map.mp hop
        have : p ∈ allIns b := List.mem_flatMap.mpr ⟨tx0, hmem, hp⟩
        simp [uSpend, hnoref p this]
      rw [this]
      simp [uCreate]
    unfold blockUOps
    rw [hsplit, List.flatMap_append, List.flatMap_cons, List.filter_append, List.filter_append,
      hnone pre hsubpre (fun t ht => hids t (List.mem_append_left _ ht)),
      hnone post hsubpost (fun t ht => hids t (List.mem_append_right _ ht)), h0]
    simp [applyOps, uCreate]

theorem getD_unspentConnect_created (b : Block) (db un : Map Nat (List Nat)) (tx0 : Tx)
    (h : unspentConnect b db = .ok un)
    (hreg : ∀ tx ∈ b.txs, tx.kind = .registerAsset → tx.ins = [])
    (hmem : tx0 ∈ b.txs) (hc : creates tx0 = true)
    (hnd : (b.txs.map (·.id)).Nodup)
    (hnoref : ∀ p ∈ allIns b, p.1 ≠ tx0.id)
    (hfresh : (db.get tx0.id).getD [] = []) :
    (un.get tx0.id).getD [] = List.range tx0.outs.length := by
  unfold unspentConnect at h
  simp only at h
  split at h
  · cases h
  · cases h
    rw [getD_flush _ _ _ _ (by unfold batch; exact find?_foldl_bstep_ne_tomb _ _ _ _ (by simp))]
    exact batch_created b db tx0 hreg hmem hc hnd hnoref hfresh

/-! #### disconnect -/

def dRemoves (dops : List DOp) : List Nat :=
  dops.filterMap fun op => match op with | .remove id => some id | .restore _ => none
def dRestores (dops : List DOp) : List (Nat × Nat) :=
  dops.filterMap fun op => match op with | .restore p => some p | .remove _ => none

theorem dfold_ok (dops : List DOp) (db u : Map Nat (List Nat))
    (h1 : (dRemoves dops).Nodup)
    (h2 : ∀ id ∈ dRemoves dops, (db.get id).getD [] ≠ [])
    (h3 : ∀ p ∈ dRestores dops, p.1 ∉ dRemoves dops) :
    ∃ db' u', dops.foldl uDiscStep (.ok (db, u)) = .ok (db', u') ∧
      (∀ k, db'.get k = if k ∈ dRemoves dops then none else db.get k) ∧
      (∀ k, u'.find? k = ((dRestores dops).map uRestore).foldl (kstep ((db.get k).getD []) k) (u.find? k)) := by
  induction dops generalizing db u with
  | nil => exact ⟨db, u, rfl, fun k => by simp [dRemoves], fun k => by simp [dRestores]⟩
  | cons op r ih =>
    cases op with
    | remove id =>
      have hrem : dRemoves (DOp.remove id :: r) = id :: dRemoves r := by simp [dRemoves]
      have hres : dRestores (DOp.remove id :: r) = dRestores r := by simp [dRestores]
      rw [hrem] at h1 h2 h3
      rw [hres] at h3
      have hnd := List.nodup_cons.mp h1
      have hne : (db.get id).getD [] ≠ [] := h2 id (List.mem_cons_self ..)
      have hstep : uDiscStep (.ok (db, u)) (.remove id) = .ok (db.del id, u) := by
        simp [uDiscStep, Res.bind, hne]
      obtain ⟨db', u', hf, hdb, hu⟩ := ih (db.del id) u hnd.2
        (fun j hj => by
          have : id ≠ j := fun e => hnd.1 (e ▸ hj)
          rw [Map.get_del, if_neg this]; exact h2 j (List.mem_cons_of_mem _ hj))
        (fun p hp hin => h3 p hp (List.mem_cons_of_mem _ hin))
      refine ⟨db', u', by rw [List.foldl_cons, hstep]; exact hf, ?_, ?_⟩
      · intro k
        rw [hdb, hrem, Map.get_del]
        by_cases hk : id = k
        · subst hk; simp
        · have : ¬ k = id := fun e => hk e.symm
          simp [hk, this]
      · intro k
        rw [hu, hres]
        by_cases hk : id = k
        · subst hk
          have hno : ∀ op ∈ (dRestores r).map uRestore, op.key ≠ id := by
            intro op hop
            obtain ⟨p, hp, rfl⟩ := List.mem_map.mp hop
            exact fun e => h3 p hp (e ▸ List.mem_cons_self ..)
          rw [foldl_kstep_no_key _ _ _ _ hno, foldl_kstep_no_key _ _ _ _ hno]
        · rw [Map.get_del, if_neg hk]
    | restore p =>
      have hrem : dRemoves (DOp.restore p :: r) = dRemoves r := by simp [dRemoves]
      have hres : dRestores (DOp.restore p :: r) = p :: dRestores r := by simp [dRestores]
      rw [hrem] at h1 h2 h3
      rw [hres] at h3
      have hstep : uDiscStep (.ok (db, u)) (.restore p) = .ok (db, bstep db u (uRestore p)) := by
        simp [uDiscStep, Res.bind]
      obtain ⟨db', u', hf, hdb, hu⟩ := ih db (bstep db u (uRestore p)) h1 h2
        (fun q hq => h3 q (List.mem_cons_of_mem _ hq))
      refine ⟨db', u', by rw [List.foldl_cons, hstep]; exact hf, ?_, ?_⟩
      · intro k; rw [hdb, hrem]
      · intro k; rw [hu, hres, find?_bstep]; rfl

/-! #### connect then disconnect -/

structure UValid (db : Map Nat (List Nat)) (b : Block) : Prop where
  reg : ∀ tx ∈ b.txs, tx.kind = .registerAsset → tx.ins = []
  ids_nodup : (b.txs.map (·.id)).Nodup
  ids_fresh : ∀ tx ∈ b.txs, (db.get tx.id).getD [] = []
  ins_nodup : (allIns b).Nodup
  ins_not_own : ∀ p ∈ allIns b, ∀ tx ∈ b.txs, p.1 ≠ tx.id
  ins_unspent : ∀ p ∈ allIns b, p.2 ∈ (db.get p.1).getD []

theorem dRemoves_blockDOps (b : Block) : dRemoves (blockDOps b) = createIds b := by
  unfold blockDOps createIds
  induction b.txs with
  | nil => rfl
  | cons tx r ih =>
    have hd : ∀ l : List (Nat × Nat), dRemoves (l.map DOp.restore) = [] := by
      intro l; induction l with
      | nil => rfl
      | cons a t iht => simpa [dRemoves] using iht
    have happ : ∀ x y, dRemoves (x ++ y) = dRemoves x ++ dRemoves y := by
      intro x y; simp [dRemoves, List.filterMap_append]
    rw [List.flatMap_cons, happ, ih]
    unfold txDOps
    by_cases hr : tx.kind = .registerAsset
    · simp [hr, creates, dRemoves]
    · by_cases ho : tx.outs.isEmpty
      · simp [hr, ho, creates, happ, hd, dRemoves]
      · simp [hr, ho, creates, happ, hd, dRemoves]

theorem dRestores_flatMap (txs : List Tx) (hreg : ∀ tx ∈ txs, tx.kind = .registerAsset → tx.ins = []) :
    dRestores (txs.flatMap txDOps) = txs.flatMap txIns := by
  induction txs with
  | nil => rfl
  | cons tx r ih =>
    have hd : ∀ l : List (Nat × Nat), dRestores (l.map DOp.restore) = l := by
      intro l; induction l with
      | nil => rfl
      | cons a t iht => simp [dRestores] at iht ⊢; exact iht
    have happ : ∀ x y, dRestores (x ++ y) = dRestores x ++ dRestores y := by
      intro x y; simp [dRestores, List.filterMap_append]
    rw [List.flatMap_cons, List.flatMap_cons, happ, ih (fun t ht => hreg t (List.mem_cons_of_mem _ ht))]
    congr 1
    unfold txDOps
    by_cases hr : tx.kind = .registerAsset
    · have : txIns tx = [] := by simp [txIns, hr, hreg tx (List.mem_cons_self ..) hr]
      simp [hr, this, dRestores]
    · by_cases ho : tx.outs.isEmpty
      · simp only [hr, ho, if_false, if_true, List.nil_append, hd]
      · simp only [hr, ho, if_false, Bool.false_eq_true, happ, hd]
        simp [dRestores]

theorem dRestores_blockDOps (b : Block) (hreg : ∀ tx ∈ b.txs, tx.kind = .registerAsset → tx.ins = []) :
    dRestores (blockDOps b) = allIns b := dRestores_flatMap b.txs hreg

theorem mem_createIds {b : Block} {k : Nat} : k ∈ createIds b ↔ ∃ tx ∈ b.txs, creates tx = true ∧ tx.id = k := by
  simp [createIds, List.mem_map, List.mem_filter, and_assoc]

theorem insAt_nodup (b : Block) (k : Nat) (h : (allIns b).Nodup) : (insAt b k).Nodup := by
  unfold insAt
  have h1 : ((allIns b).filter (fun p => p.1 = k)).Pairwise (fun x y => x.2 ≠ y.2) := by
    refine List.Pairwise.imp_of_mem ?_ (List.Pairwise.filter _ h)
    intro x y hx hy hne e
    have hx1 : x.1 = k := by simpa using (List.mem_filter.mp hx).2
    have hy1 : y.1 = k := by simpa using (List.mem_filter.mp hy).2
    exact hne (Prod.ext (hx1.trans hy1.symm) e)
  exact List.pairwise_map.mpr h1

theorem mem_insAt {b : Block} {k i : Nat} : i ∈ insAt b k ↔ (k, i) ∈ allIns b := by
  unfold insAt
  constructor
  · intro h
    obtain ⟨p, hp, rfl⟩ := List.mem_map.mp h
    have h1 : p.1 = k := by simpa using (List.mem_filter.mp hp).2
    have : p = (k, p.2) := Prod.ext h1 rfl
    rw [← this]; exact (List.mem_filter.mp hp).1
  · intro h
    exact List.mem_map.mpr ⟨(k, i), List.mem_filter.mpr ⟨h, by simp⟩, rfl⟩

theorem unspent_inverse (b : Block) (db : Map Nat (List Nat)) (hv : UValid db b) :
    ∃ un1 un2, unspentConnect b db = .ok un1 ∧ unspentDisconnect b un1 = .ok un2 ∧
      ∀ k, ((un2.get k).getD []).Perm ((db.get k).getD []) := by
  -- 1. connect does not fail
  have hnt : ∀ k, (batch db (blockUOps b)).find? k ≠ some none := fun k => by
    unfold batch; exact find?_foldl_bstep_ne_tomb _ _ _ _ (by simp)
  have hconn : uFlushErr db (batch db (blockUOps b)) = false := by
    unfold uFlushErr
    rw [List.any_eq_false]
    intro k hk
    have hk' := (Map.mem_keys _ k).mp hk
    intro hboth
    have hb : (((batch db (blockUOps b)).get k).getD [] = []) ∧ ((db.get k).getD [] = []) := by simpa using hboth
    -- some op has key k
    have hop : ∃ op ∈ blockUOps b, op.key = k := by
      apply Classical.byContradiction
      intro hno
      have hno' : ∀ op ∈ blockUOps b, op.key ≠ k := fun op ho e => hno ⟨op, ho, e⟩
      apply hk'
      unfold batch
      rw [find?_foldl_bstep, foldl_kstep_no_key _ _ _ _ hno']
      rfl
    obtain ⟨op, ho, hkey⟩ := hop
    unfold blockUOps at ho
    obtain ⟨tx, htx, hop⟩ := List.mem_flatMap.mp ho
    unfold txUOps at hop
    by_cases hr : tx.kind = .registerAsset
    · simp [hr] at hop
    · simp only [hr, if_false, List.mem_append, List.mem_map] at hop
      rcases hop with hop | ⟨p, hp, rfl⟩
      · by_cases ho' : tx.outs.isEmpty
        · simp [ho'] at hop
        · simp only [ho', Bool.false_eq_true, if_false, List.mem_singleton] at hop
          subst hop
          have hkid : tx.id = k := hkey
          have hcr : creates tx = true := by simp [creates, hr, ho']
          -- the batch value at tx.id is range n
          have hval := batch_created b db tx hv.reg htx hcr hv.ids_nodup
            (fun p hp => hv.ins_not_own p hp tx htx) (hv.ids_fresh tx htx)
          subst hkid
          have hne : tx.outs.length ≠ 0 := by
            intro e; have : tx.outs = [] := List.length_eq_zero_iff.mp e; simp [this] at ho'
          have h1 := hb.1
          unfold Map.get at h1
          unfold cval at hval
          cases hf : (batch db (blockUOps b)).find? tx.id with
          | none => exact hk' hf
          | some v =>
            rw [hf] at h1 hval
            simp only at h1 hval
            rw [h1] at hval
            cases hl : tx.outs.length with
            | zero => exact hne hl
            | succ n => rw [hl] at hval; simp [List.range_succ] at hval
      · have hp' : p ∈ allIns b := List.mem_flatMap.mpr ⟨tx, htx, hp⟩
        have := hv.ins_unspent p hp'
        have hk2 : p.1 = k := hkey
        rw [hk2, hb.2] at this
        simp at this
  have hc1 : unspentConnect b db = .ok (flush true db (batch db (blockUOps b))) := by
    unfold unspentConnect; simp [hconn]
  generalize hun1 : flush true db (batch db (blockUOps b)) = un1 at hc1
  -- 2. disconnect does not fail
  have hrm : dRemoves (blockDOps b) = createIds b := dRemoves_blockDOps b
  have hrs : dRestores (blockDOps b) = allIns b := dRestores_blockDOps b hv.reg
  have hcnd : (createIds b).Nodup := by
    unfold createIds
    exact List.Nodup.sublist ((List.filter_sublist (l := b.txs)).map _) hv.ids_nodup
  have hcval : ∀ id ∈ createIds b, (un1.get id).getD [] ≠ [] := by
    intro id hid
    obtain ⟨tx, htx, hcr, rfl⟩ := mem_createIds.mp hid
    rw [getD_unspentConnect_created b db un1 tx hc1 hv.reg htx hcr hv.ids_nodup
      (fun p hp => hv.ins_not_own p hp tx htx) (hv.ids_fresh tx htx)]
    have : tx.outs ≠ [] := by
      intro e; simp [creates, e] at hcr
    cases hl : tx.outs with
    | nil => exact absurd hl this
    | cons a r => simp [List.range_succ]
  have hdisj : ∀ p ∈ allIns b, p.1 ∉ createIds b := by
    intro p hp hin
    obtain ⟨tx, htx, _, e⟩ := mem_createIds.mp hin
    exact hv.ins_not_own p hp tx htx e.symm
  obtain ⟨db', u', hf, hdb, hu⟩ := dfold_ok (blockDOps b) un1 []
    (hrm ▸ hcnd) (by rw [hrm]; exact hcval) (by rw [hrs, hrm]; exact hdisj)
  rw [hrm] at hdb
  rw [hrs] at hu
  have hnt' : ∀ k, u'.find? k ≠ some none := by
    intro k; rw [hu]; exact foldl_kstep_ne_tomb _ _ _ _ (by simp)
  have hfilt : ∀ k, ((allIns b).map uRestore).filter (fun op => op.key = k) =
      ((allIns b).filter (fun p => p.1 = k)).map uRestore := by
    intro k; rw [List.filter_map]; rfl
  have hval' : ∀ k, cval (u'.find? k) ((un1.get k).getD []) = (un1.get k).getD [] ++ insAt b k := by
    intro k
    rw [hu, foldl_kstep_filter]
    have := foldl_kstep_same ((un1.get k).getD []) k
      (((allIns b).map uRestore).filter (fun op => op.key = k)) (Map.find? [] k)
      (fun op ho => by simpa using (List.mem_filter.mp ho).2)
      (Or.inl (fun op ho => by
        obtain ⟨p, _, rfl⟩ := List.mem_map.mp (List.mem_filter.mp ho).1
        rfl))
    rw [this, hfilt, applyOps_uRestore]
    rfl
  have hnokey : ∀ k, insAt b k = [] → u'.find? k = none := by
    intro k hk
    rw [hu]
    rw [foldl_kstep_no_key]
    · rfl
    · intro op hop e
      obtain ⟨p, hp, rfl⟩ := List.mem_map.mp hop
      have : p.2 ∈ insAt b k := mem_insAt.mpr (by
        have h1 : p.1 = k := e
        have : p = (k, p.2) := Prod.ext h1 rfl
        rw [← this]; exact hp)
      rw [hk] at this
      cases this
  have hdisc : uFlushErr db' u' = false := by
    unfold uFlushErr
    rw [List.any_eq_false]
    intro k hk hboth
    have hk' := (Map.mem_keys _ k).mp hk
    have hb : ((u'.get k).getD [] = []) ∧ ((db'.get k).getD [] = []) := by simpa using hboth
    have h1 : (u'.get k).getD [] = cval (u'.find? k) ((un1.get k).getD []) := by
      unfold Map.get cval
      cases hfk : u'.find? k with
      | none => exact absurd hfk hk'
      | some v => rfl
    rw [h1, hval'] at hb
    have : insAt b k = [] := (List.append_eq_nil_iff.mp hb.1).2
    exact hk' (hnokey k this)
  have hd1 : unspentDisconnect b un1 = .ok (flush true db' u') := by
    unfold unspentDisconnect
    rw [hf]
    simp [Res.bind, hdisc]
  refine ⟨un1, flush true db' u', hc1, hd1, ?_⟩
  intro k
  rw [getD_flush _ _ _ _ (hnt' k), hdb]
  by_cases hk : k ∈ createIds b
  · rw [if_pos hk]
    obtain ⟨tx, htx, _, rfl⟩ := mem_createIds.mp hk
    have : insAt b tx.id = [] := by
      apply List.eq_nil_iff_forall_not_mem.mpr
      intro i hi
      exact hv.ins_not_own _ (mem_insAt.mp hi) tx htx rfl
    rw [hnokey _ this, hv.ids_fresh tx htx]
    exact List.Perm.refl _
  · rw [if_neg hk, hval']
    have hkk : ∀ tx ∈ b.txs, creates tx = true → tx.id ≠ k := by
      intro tx htx hcr e
      exact hk (mem_createIds.mpr ⟨tx, htx, hcr, e⟩)
    rw [getD_unspentConnect b db un1 k hc1 hv.reg hkk]
    exact foldl_swapRemove_append_perm (insAt b k) _ (insAt_nodup b k hv.ins_nodup)
      (fun i hi => hv.ins_unspent (k, i) (mem_insAt.mp hi))

/-! ### per-address index: list level -/

def ukey (u : Utxo) : Nat × Nat := (u.1, u.2.1)

/-- the predicate `UtxoIndex.ConnectBlock` searches with -/
def matchIn (p : Nat × Nat) : Utxo → Bool := fun x => x.1 == p.1 && x.2.1 == p.2

theorem matchIn_iff (p : Nat × Nat) (u : Utxo) : matchIn p u = true ↔ ukey u = p := by
  obtain ⟨a, b⟩ := p
  obtain ⟨x, y, z⟩ := u
  simp [matchIn, ukey]

theorem perm_cons_eraseP_key (l : List Utxo) (e : Utxo) (hn : (l.map ukey).Nodup) (he : e ∈ l) :
    l.Perm (e :: l.eraseP (matchIn (ukey e))) := by
  induction l with
  | nil => cases he
  | cons a t ih =>
    simp only [List.map_cons, List.nodup_cons] at hn
    by_cases ha : matchIn (ukey e) a = true
    · have hk : ukey a = ukey e := (matchIn_iff _ _).mp ha
      have : a = e := by
        rcases List.mem_cons.mp he with h | h
        · exact h.symm
        · exact absurd (hk ▸ List.mem_map.mpr ⟨e, h, rfl⟩) hn.1
      subst this
      rw [List.eraseP_cons_of_pos ha]
    · have hne : e ≠ a := by
        intro h; subst h
        exact ha ((matchIn_iff _ _).mpr rfl)
      have het : e ∈ t := by
        rcases List.mem_cons.mp he with h | h
        · exact absurd h hne
        · exact h
      rw [List.eraseP_cons_of_neg ha]
      exact ((ih hn.2 het).cons a).trans (List.Perm.swap e a _)

theorem nodup_keys_eraseP (l : List Utxo) (p : Utxo → Bool) (hn : (l.map ukey).Nodup) :
    ((l.eraseP p).map ukey).Nodup :=
  List.Nodup.sublist ((List.eraseP_sublist (l := l)).map ukey) hn

theorem pairwise_match_of_nodup (l : List Utxo) (q : Nat × Nat) (hn : (l.map ukey).Nodup) :
    l.Pairwise (fun a b => matchIn q a = true → matchIn q b = true → False) := by
  have h1 : l.Pairwise (fun a b => ukey a ≠ ukey b) := List.pairwise_map.mp hn
  exact h1.imp (fun {a b} hab ha hb => hab (((matchIn_iff q a).mp ha).trans ((matchIn_iff q b).mp hb).symm))

/-- one resolved input: outpoint and value of the output it spends -/
abbrev RIn := (Nat × Nat) × Int

def rEntry (j : RIn) : Utxo := (j.1.1, j.1.2, j.2)

/-- `J` are the inputs resolved to this bucket: an input of non-zero value has its entry in the
    list, an input of value zero has none -/
structure JOk (l : List Utxo) (J : List RIn) : Prop where
  nodup : (J.map (·.1)).Nodup
  present : ∀ j ∈ J, j.2 ≠ 0 → rEntry j ∈ l
  absent : ∀ j ∈ J, j.2 = 0 → ∀ u ∈ l, ukey u ≠ j.1

theorem foldl_eraseP_restore_perm (J : List RIn) (l : List Utxo) (hn : (l.map ukey).Nodup) (hj : JOk l J) :
    ((J.foldl (fun l j => l.eraseP (matchIn j.1)) l) ++ (J.filter (fun j => j.2 ≠ 0)).map rEntry).Perm l := by
  induction J generalizing l with
  | nil => simp
  | cons j r ih =>
    have hnd : j.1 ∉ r.map (·.1) ∧ (r.map (·.1)).Nodup := List.nodup_cons.mp hj.nodup
    have hj' : JOk (l.eraseP (matchIn j.1)) r := by
      refine ⟨hnd.2, ?_, ?_⟩
      · intro q hq hv
        have hne : q.1 ≠ j.1 := fun e => hnd.1 (e ▸ List.mem_map.mpr ⟨q, hq, rfl⟩)
        have hmem := hj.present q (List.mem_cons_of_mem _ hq) hv
        have hnm : ¬ matchIn j.1 (rEntry q) = true := by
          intro hm
          have := (matchIn_iff _ _).mp hm
          exact hne (by simpa [ukey, rEntry] using this)
        exact (List.mem_eraseP_of_neg hnm).mpr hmem
      · intro q hq hv u hu
        exact hj.absent q (List.mem_cons_of_mem _ hq) hv u ((List.eraseP_sublist).subset hu)
    have h2 := ih _ (nodup_keys_eraseP l _ hn) hj'
    simp only [List.foldl_cons]
    by_cases hv : j.2 = 0
    · have hid : l.eraseP (matchIn j.1) = l := by
        apply List.eraseP_of_forall_not
        intro u hu hm
        exact hj.absent j (List.mem_cons_self ..) hv u hu ((matchIn_iff _ _).mp hm)
      have hf : (j :: r).filter (fun j => j.2 ≠ 0) = r.filter (fun j => j.2 ≠ 0) := by
        simp [List.filter_cons, hv]
      rw [hf]
      rw [hid] at h2 ⊢
      exact h2
    · have hf : (j :: r).filter (fun j => j.2 ≠ 0) = j :: r.filter (fun j => j.2 ≠ 0) := by
        simp [List.filter_cons, hv]
      rw [hf, List.map_cons]
      have he := hj.present j (List.mem_cons_self ..) hv
      have h3 := perm_cons_eraseP_key l (rEntry j) hn he
      have hk : ukey (rEntry j) = j.1 := rfl
      rw [hk] at h3
      exact (List.perm_middle.trans (h2.cons _)).trans h3.symm

theorem foldl_swapRemoveP_perm (J : List RIn) (l l' : List Utxo) (h : l.Perm l') (hn : (l.map ukey).Nodup) :
    (J.foldl (fun l j => swapRemoveP (matchIn j.1) l) l).Perm (J.foldl (fun l j => l.eraseP (matchIn j.1)) l') := by
  induction J generalizing l l' with
  | nil => simpa
  | cons j r ih =>
    simp only [List.foldl_cons]
    have h1 : (swapRemoveP (matchIn j.1) l).Perm (l'.eraseP (matchIn j.1)) :=
      (swapRemoveP_perm _ l).trans (List.Perm.eraseP _ (pairwise_match_of_nodup l j.1 hn) h)
    have h2 : ((swapRemoveP (matchIn j.1) l).map ukey).Nodup := by
      have := (swapRemoveP_perm (matchIn j.1) l).map ukey
      exact (this.nodup_iff).mpr (nodup_keys_eraseP l _ hn)
    exact ih _ _ h1 h2

theorem foldl_swapRemoveP_restore_perm (J : List RIn) (l : List Utxo) (hn : (l.map ukey).Nodup) (hj : JOk l J) :
    ((J.foldl (fun l j => swapRemoveP (matchIn j.1) l) l) ++ (J.filter (fun j => j.2 ≠ 0)).map rEntry).Perm l :=
  ((foldl_swapRemoveP_perm J l l (List.Perm.refl _) hn).append_right _).trans (foldl_eraseP_restore_perm J l hn hj)

/-! ### per-address index: block level -/

theorem Res.mapM_ok {α β : Type} {f : α → Res β} (g : α → β) (l : List α)
    (h : ∀ a ∈ l, f a = .ok (g a)) : Res.mapM f l = .ok (l.map g) := by
  induction l with
  | nil => rfl
  | cons a r ih =>
    simp only [Res.mapM, h a (List.mem_cons_self ..), Res.bind,
      ih (fun x hx => h x (List.mem_cons_of_mem _ hx)), List.map_cons]

theorem applyOps_append {K E : Type} (a b : List (BOp K E)) (l : List E) :
    applyOps (a ++ b) l = applyOps b (applyOps a l) := by
  simp [applyOps, List.foldl_append]

section refs
variable (ref : Nat × Nat → Nat × Out) (bh : Nat)

def refKey (p : Nat × Nat) : Nat × Nat := ((ref p).2.addr, (ref p).1)
def toRIn (p : Nat × Nat) : RIn := (p, (ref p).2.value)

def pureConnOps (tx : Tx) : List AOp :=
  ((outsIdx tx.outs).filter fun p => p.2.value ≠ 0).map (aAdd bh tx.id) ++
    (txIns tx).map fun p => aRemove (ref p).2.addr (ref p).1 p

def pureDiscOps (tx : Tx) : List AOp :=
  tx.outs.map (aClear bh) ++
    ((txIns tx).map fun p => if (ref p).2.value = 0 then [] else [aRestore (ref p).2.addr (ref p).1 p (ref p).2.value]).flatten

theorem txAConnOps_ok (fetch : Nat → Option (Nat × List Out)) (tx : Tx)
    (h : ∀ p ∈ txIns tx, resolve fetch p = .ok (ref p)) :
    txAConnOps fetch bh tx = .ok (pureConnOps ref bh tx) := by
  unfold txAConnOps pureConnOps
  rw [Res.mapM_ok (fun p => aRemove (ref p).2.addr (ref p).1 p) _ (fun p hp => by simp [h p hp, Res.bind])]
  rfl

theorem txADiscOps_ok (fetch : Nat → Option (Nat × List Out)) (tx : Tx)
    (h : ∀ p ∈ txIns tx, resolve fetch p = .ok (ref p)) :
    txADiscOps fetch bh tx = .ok (pureDiscOps ref bh tx) := by
  unfold txADiscOps pureDiscOps
  rw [Res.mapM_ok (fun p => if (ref p).2.value = 0 then [] else [aRestore (ref p).2.addr (ref p).1 p (ref p).2.value]) _
    (fun p hp => by simp [h p hp, Res.bind])]
  rfl

/-- connect, bucket of an earlier height: only the removals of the inputs resolved to it -/
theorem applyOps_conn_filter (txs : List Tx) (κ : Nat × Nat) (hκ : κ.2 ≠ bh) (l : List Utxo) :
    applyOps ((txs.flatMap (pureConnOps ref bh)).filter fun op => op.key = κ) l =
      (((txs.flatMap txIns).filter fun p => refKey ref p = κ).map (toRIn ref)).foldl
        (fun l j => swapRemoveP (matchIn j.1) l) l := by
  induction txs generalizing l with
  | nil => rfl
  | cons tx r ih =>
    simp only [List.flatMap_cons, List.filter_append, List.map_append, List.foldl_append, applyOps_append]
    rw [ih]
    congr 1
    unfold pureConnOps
    rw [List.filter_append, applyOps_append]
    have hadds : (((outsIdx tx.outs).filter fun p => p.2.value ≠ 0).map (aAdd bh tx.id)).filter (fun op => op.key = κ) = [] := by
      apply List.filter_eq_nil_iff.mpr
      intro op hop
      obtain ⟨p, _, rfl⟩ := List.mem_map.mp hop
      have : (aAdd bh tx.id p).key ≠ κ := fun e => hκ (by rw [← e]; rfl)
      simp [this]
    rw [hadds]
    have : ∀ (ps : List (Nat × Nat)) (l : List Utxo),
        applyOps ((ps.map fun p => aRemove (ref p).2.addr (ref p).1 p).filter fun op => op.key = κ) l =
        ((ps.filter fun p => refKey ref p = κ).map (toRIn ref)).foldl (fun l j => swapRemoveP (matchIn j.1) l) l := by
      intro ps
      induction ps with
      | nil => intro l; rfl
      | cons p t iht =>
        intro l
        by_cases hp : refKey ref p = κ
        · have hk : (aRemove (ref p).2.addr (ref p).1 p).key = κ := hp
          simp only [List.map_cons, List.filter_cons, hk, hp, decide_true, if_true, List.foldl_cons]
          rw [← iht]
          rfl
        · have hk : ¬ (aRemove (ref p).2.addr (ref p).1 p).key = κ := hp
          simp only [List.map_cons, List.filter_cons, hk, hp, decide_false, Bool.false_eq_true, if_false]
          exact iht l
    exact this (txIns tx) (applyOps [] l)

/-- disconnect, bucket of an earlier height: the spent entries of non-zero value come back -/
theorem applyOps_disc_filter (txs : List Tx) (κ : Nat × Nat) (hκ : κ.2 ≠ bh) (l : List Utxo) :
    applyOps ((txs.flatMap (pureDiscOps ref bh)).filter fun op => op.key = κ) l =
      l ++ ((((txs.flatMap txIns).filter fun p => refKey ref p = κ).map (toRIn ref)).filter
        fun j => j.2 ≠ 0).map rEntry := by
  induction txs generalizing l with
  | nil => simp [applyOps]
  | cons tx r ih =>
    simp only [List.flatMap_cons, List.filter_append, List.map_append, applyOps_append]
    rw [ih, ← List.append_assoc]
    congr 1
    unfold pureDiscOps
    rw [List.filter_append, applyOps_append]
    have hcl : (tx.outs.map (aClear bh)).filter (fun op => op.key = κ) = [] := by
      apply List.filter_eq_nil_iff.mpr
      intro op hop
      obtain ⟨o, _, rfl⟩ := List.mem_map.mp hop
      have : (aClear bh o).key ≠ κ := fun e => hκ (by rw [← e]; rfl)
      simp [this]
    rw [hcl]
    have : ∀ (ps : List (Nat × Nat)) (l : List Utxo),
        applyOps ((ps.map fun p => if (ref p).2.value = 0 then [] else
            [aRestore (ref p).2.addr (ref p).1 p (ref p).2.value]).flatten.filter fun op => op.key = κ) l =
        l ++ (((ps.filter fun p => refKey ref p = κ).map (toRIn ref)).filter fun j => j.2 ≠ 0).map rEntry := by
      intro ps
      induction ps with
      | nil => intro l; simp [applyOps]
      | cons p t iht =>
        intro l
        simp only [List.map_cons, List.flatten_cons, List.filter_append, applyOps_append]
        rw [iht]
        by_cases hv : (ref p).2.value = 0
        · by_cases hp : refKey ref p = κ
          · simp [hv, hp, List.filter_cons, toRIn, applyOps]
          · simp [hv, hp, List.filter_cons, applyOps]
        · by_cases hp : refKey ref p = κ
          · have hk : ((ref p).2.addr, (ref p).1) = κ := hp
            simp [hv, hp, hk, List.filter_cons, toRIn, applyOps, aRestore, rEntry]
          · have hk : ¬ (aRestore (ref p).2.addr (ref p).1 p (ref p).2.value).key = κ := hp
            simp [hv, hp, hk, List.filter_cons, applyOps]
    exact this (txIns tx) (applyOps [] l)

end refs

section batch2
variable {K E : Type} [DecidableEq K]

theorem cval_foldl_kstep_const (dbk : List E) (k : K) (ops : List (BOp K E)) (c : Option (Option (List E)))
    (hne : ops ≠ []) (hk : ∀ op ∈ ops, op.key = k) (hf : ∀ op ∈ ops, ∀ x, op.f x = []) :
    cval (ops.foldl (kstep dbk k) c) dbk = [] := by
  induction ops generalizing c with
  | nil => exact absurd rfl hne
  | cons op r ih =>
    simp only [List.foldl_cons]
    by_cases hr : r = []
    · subst hr
      simp [kstep, hk op (List.mem_cons_self ..), hf op (List.mem_cons_self ..), cval]
    · exact ih _ hr (fun o ho => hk o (List.mem_cons_of_mem _ ho)) (fun o ho => hf o (List.mem_cons_of_mem _ ho))

end batch2

structure AValid (s : State) (b : Block) (ref : Nat × Nat → Nat × Out) : Prop where
  conn_refs : ∀ p ∈ allIns b, resolve (fetchTxConn s b) p = .ok (ref p)
  disc_refs : ∀ p ∈ allIns b, resolve (txConnect b s.txs).get p = .ok (ref p)
  ref_height : ∀ p ∈ allIns b, (ref p).1 ≠ b.height
  ins_nodup : (allIns b).Nodup
  keys_nodup : ∀ κ, (((s.utxo.get κ).getD []).map ukey).Nodup
  present : ∀ p ∈ allIns b, (ref p).2.value ≠ 0 →
    (p.1, p.2, (ref p).2.value) ∈ (s.utxo.get (refKey ref p)).getD []
  absent : ∀ p ∈ allIns b, (ref p).2.value = 0 → ∀ u ∈ (s.utxo.get (refKey ref p)).getD [], ukey u ≠ p
  empty_at_height : ∀ a, (s.utxo.get (a, b.height)).getD [] = []

theorem mem_allIns_of_txIns {b : Block} {tx : Tx} (htx : tx ∈ b.txs) {p : Nat × Nat} (hp : p ∈ txIns tx) :
    p ∈ allIns b := List.mem_flatMap.mpr ⟨tx, htx, hp⟩

theorem readDb_pureConnOps (ref : Nat × Nat → Nat × Out) (bh : Nat) (txs : List Tx) :
    ∀ op ∈ txs.flatMap (pureConnOps ref bh), op.readDb = true := by
  intro op hop
  obtain ⟨tx, _, h⟩ := List.mem_flatMap.mp hop
  unfold pureConnOps at h
  rcases List.mem_append.mp h with h | h
  · obtain ⟨p, _, rfl⟩ := List.mem_map.mp h; rfl
  · obtain ⟨p, _, rfl⟩ := List.mem_map.mp h; rfl

theorem utxo_inverse (s : State) (b : Block) (ref : Nat × Nat → Nat × Out) (hv : AValid s b ref) :
    ∃ ut1 ut2, utxoConnect s b = .ok ut1 ∧
      (∀ s1 : State, s1.txs = txConnect b s.txs → s1.utxo = ut1 → utxoDisconnect s1 b = .ok ut2) ∧
      ∀ κ, ((ut2.get κ).getD []).Perm ((s.utxo.get κ).getD []) := by
  have hc : utxoConnect s b =
      .ok (flush false s.utxo (batch s.utxo (b.txs.flatMap (pureConnOps ref b.height)))) := by
    unfold utxoConnect
    rw [Res.mapM_ok (pureConnOps ref b.height) _ (fun tx htx =>
      txAConnOps_ok ref b.height _ tx (fun p hp => hv.conn_refs p (mem_allIns_of_txIns htx hp)))]
    simp [Res.bind, List.flatMap_def]
  generalize hut1 : flush false s.utxo (batch s.utxo (b.txs.flatMap (pureConnOps ref b.height))) = ut1 at hc
  have hd : ∀ s1 : State, s1.txs = txConnect b s.txs → s1.utxo = ut1 →
      utxoDisconnect s1 b = .ok (flush false ut1 (batch ut1 (b.txs.flatMap (pureDiscOps ref b.height)))) := by
    intro s1 h1 h2
    unfold utxoDisconnect
    rw [Res.mapM_ok (pureDiscOps ref b.height) _ (fun tx htx =>
      txADiscOps_ok ref b.height _ tx (fun p hp => by rw [h1]; exact hv.disc_refs p (mem_allIns_of_txIns htx hp)))]
    simp [Res.bind, List.flatMap_def, h2]
  refine ⟨ut1, _, hc, hd, ?_⟩
  intro κ
  have hnt1 : (batch s.utxo (b.txs.flatMap (pureConnOps ref b.height))).find? κ ≠ some none := by
    unfold batch; exact find?_foldl_bstep_ne_tomb _ _ _ _ (by simp)
  have hnt2 : (batch ut1 (b.txs.flatMap (pureDiscOps ref b.height))).find? κ ≠ some none := by
    unfold batch; exact find?_foldl_bstep_ne_tomb _ _ _ _ (by simp)
  have hv1 : (ut1.get κ).getD [] = applyOps ((b.txs.flatMap (pureConnOps ref b.height)).filter fun op => op.key = κ)
      ((s.utxo.get κ).getD []) := by
    rw [← hut1, getD_flush _ _ _ _ hnt1]
    exact cval_batch _ _ _ (Or.inl (fun op ho _ => readDb_pureConnOps ref b.height b.txs op ho))
  rw [getD_flush _ _ _ _ hnt2]
  by_cases hκ : κ.2 = b.height
  · -- bucket of the block's own height: empty before, empty after
    have hs : (s.utxo.get κ).getD [] = [] := by
      have := hv.empty_at_height κ.1
      rwa [← hκ] at this
    rw [hs]
    unfold batch
    rw [find?_foldl_bstep, foldl_kstep_filter]
    by_cases hcl : ((b.txs.flatMap (pureDiscOps ref b.height)).filter fun op => op.key = κ) = []
    · -- no output of the block pays this address
      rw [hcl]
      simp only [List.foldl_nil, Map.find?_nil, cval]
      rw [hv1, hs]
      have hno : ((b.txs.flatMap (pureConnOps ref b.height)).filter fun op => op.key = κ) = [] := by
        apply List.filter_eq_nil_iff.mpr
        intro op hop hk
        have hk' : op.key = κ := by simpa using hk
        obtain ⟨tx, htx, h⟩ := List.mem_flatMap.mp hop
        unfold pureConnOps at h
        rcases List.mem_append.mp h with h | h
        · obtain ⟨p, hp, rfl⟩ := List.mem_map.mp h
          have hpo : p.2 ∈ tx.outs := (List.of_mem_zip (List.mem_filter.mp hp).1).2
          have : aClear b.height p.2 ∈ (b.txs.flatMap (pureDiscOps ref b.height)).filter fun op => op.key = κ := by
            apply List.mem_filter.mpr
            refine ⟨List.mem_flatMap.mpr ⟨tx, htx, ?_⟩, ?_⟩
            · unfold pureDiscOps
              exact List.mem_append_left _ (List.mem_map.mpr ⟨p.2, hpo, rfl⟩)
            · have : (aClear b.height p.2).key = κ := hk'
              simp [this]
          rw [hcl] at this
          cases this
        · obtain ⟨p, hp, rfl⟩ := List.mem_map.mp h
          have h1 : (ref p).1 = κ.2 := by rw [← hk']; rfl
          exact hv.ref_height p (mem_allIns_of_txIns htx hp) (h1.trans hκ)
      rw [hno]
      exact List.Perm.refl _
    · have hall : ∀ op ∈ ((b.txs.flatMap (pureDiscOps ref b.height)).filter fun op => op.key = κ), ∀ x, op.f x = [] := by
        intro op hop x
        have hk' : op.key = κ := by simpa using (List.mem_filter.mp hop).2
        obtain ⟨tx, htx, h⟩ := List.mem_flatMap.mp (List.mem_filter.mp hop).1
        unfold pureDiscOps at h
        rcases List.mem_append.mp h with h | h
        · obtain ⟨o, _, rfl⟩ := List.mem_map.mp h; rfl
        · obtain ⟨l, hl, hol⟩ := List.mem_flatten.mp h
          obtain ⟨p, hp, rfl⟩ := List.mem_map.mp hl
          by_cases hz : (ref p).2.value = 0
          · simp [hz] at hol
          · simp only [hz, if_false, List.mem_singleton] at hol
            subst hol
            have h1 : (ref p).1 = κ.2 := by rw [← hk']; rfl
            exact absurd (h1.trans hκ) (hv.ref_height p (mem_allIns_of_txIns htx hp))
      rw [cval_foldl_kstep_const _ _ _ _ hcl (fun op ho => by simpa using (List.mem_filter.mp ho).2) hall]
  · -- bucket of an earlier height
    have hro : ∀ op ∈ b.txs.flatMap (pureDiscOps ref b.height), op.key = κ → op.readDb = true := by
      intro op hop hk
      obtain ⟨tx, _, h⟩ := List.mem_flatMap.mp hop
      unfold pureDiscOps at h
      rcases List.mem_append.mp h with h | h
      · obtain ⟨o, _, rfl⟩ := List.mem_map.mp h
        exact absurd (by rw [← hk]; rfl) hκ
      · obtain ⟨l, hl, hol⟩ := List.mem_flatten.mp h
        obtain ⟨p, _, rfl⟩ := List.mem_map.mp hl
        by_cases hz : (ref p).2.value = 0
        · simp [hz] at hol
        · simp only [hz, if_false, List.mem_singleton] at hol
          subst hol; rfl
    rw [cval_batch _ _ _ (Or.inl hro), applyOps_disc_filter ref b.height b.txs κ hκ, hv1,
      applyOps_conn_filter ref b.height b.txs κ hκ]
    apply foldl_swapRemoveP_restore_perm _ _ (hv.keys_nodup κ)
    have hmem : ∀ j ∈ ((b.txs.flatMap txIns).filter fun p => refKey ref p = κ).map (toRIn ref),
        ∃ p ∈ allIns b, refKey ref p = κ ∧ j = toRIn ref p := by
      intro j hj
      obtain ⟨p, hp, rfl⟩ := List.mem_map.mp hj
      exact ⟨p, (List.mem_filter.mp hp).1, by simpa using (List.mem_filter.mp hp).2, rfl⟩
    refine ⟨?_, ?_, ?_⟩
    · rw [List.map_map]
      have : ((fun x : RIn => x.1) ∘ toRIn ref) = id := by funext p; rfl
      rw [this, List.map_id]
      exact hv.ins_nodup.filter _
    · intro j hj hnz
      obtain ⟨p, hp, hk, rfl⟩ := hmem j hj
      have := hv.present p hp hnz
      rwa [hk] at this
    · intro j hj hz u hu
      obtain ⟨p, hp, hk, rfl⟩ := hmem j hj
      have := hv.absent p hp hz u (by rw [hk]; exact hu)
      exact this

/-! ### tx index, processors, whole state -/

theorem get_txConnect_not_mem (txs : List Tx) (bh : Nat) (m : Map Nat (Nat × List Out)) (k : Nat)
    (hk : k ∉ txs.map (·.id)) :
    (txs.foldl (fun m tx => m.put tx.id (bh, tx.outs)) m).get k = m.get k := by
  induction txs generalizing m with
  | nil => rfl
  | cons tx r ih =>
    simp only [List.map_cons, List.mem_cons, not_or] at hk
    simp only [List.foldl_cons]
    rw [ih _ hk.2, Map.get_put, if_neg (Ne.symm hk.1)]

theorem get_txConnect_mem (txs : List Tx) (bh : Nat) (m : Map Nat (Nat × List Out)) (k : Nat)
    (hk : k ∈ txs.map (·.id)) :
    (txs.foldl (fun m tx => m.put tx.id (bh, tx.outs)) m).get k ≠ none := by
  induction txs generalizing m with
  | nil => cases hk
  | cons tx r ih =>
    simp only [List.foldl_cons]
    by_cases hr : k ∈ r.map (·.id)
    · exact ih _ hr
    · rw [get_txConnect_not_mem r bh _ k hr, Map.get_put]
      have : tx.id = k := by
        simp only [List.map_cons, List.mem_cons] at hk
        rcases hk with h | h
        · exact h.symm
        · exact absurd h hr
      simp [this]

theorem txDisconnect_ok (txs : List Tx) (m : Map Nat (Nat × List Out))
    (hnd : (txs.map (·.id)).Nodup) (hp : ∀ tx ∈ txs, m.get tx.id ≠ none) :
    ∃ m', txs.foldl (fun r tx => r.bind fun m =>
        match m.get tx.id with
        | none => Res.err
        | some _ => Res.ok (m.del tx.id)) (Res.ok m) = .ok m' ∧
      ∀ k, m'.get k = if k ∈ txs.map (·.id) then none else m.get k := by
  induction txs generalizing m with
  | nil => exact ⟨m, rfl, fun k => by simp⟩
  | cons tx r ih =>
    simp only [List.map_cons, List.nodup_cons] at hnd
    have h0 := hp tx (List.mem_cons_self ..)
    have hstep : (Res.ok m : Res _).bind (fun m =>
        match m.get tx.id with
        | none => Res.err
        | some _ => Res.ok (m.del tx.id)) = .ok (m.del tx.id) := by
      simp only [Res.bind]
      cases hg : m.get tx.id with
      | none => exact absurd hg h0
      | some v => rfl
    obtain ⟨m', hf, hg⟩ := ih (m.del tx.id) hnd.2 (fun t ht => by
      have : tx.id ≠ t.id := fun e => hnd.1 (e ▸ List.mem_map.mpr ⟨t, ht, rfl⟩)
      rw [Map.get_del, if_neg this]
      exact hp t (List.mem_cons_of_mem _ ht))
    refine ⟨m', by rw [List.foldl_cons, hstep]; exact hf, ?_⟩
    intro k
    rw [hg, Map.get_del]
    by_cases h1 : tx.id = k
    · subst h1; simp
    · have : ¬ k = tx.id := fun e => h1 e.symm
      simp [h1, this]

/-- hashes a transaction's save processor records in the Tx3 bucket -/
def savedTx3 (tx : Tx) : List Nat :=
  if tx.kind = .withdraw ∧ hasSave .withdraw tx.pver = true then wdHashes tx else []
def rolledTx3 (tx : Tx) : List Nat :=
  if tx.kind = .withdraw ∧ hasRollback .withdraw tx.pver = true then wdHashes tx else []

theorem foldl_saveTx (txs : List Tx) (s : State) :
    (txs.foldl saveTx s).tx3 = (txs.flatMap savedTx3).foldl (fun m h => m.put h ()) s.tx3 ∧
    (txs.foldl saveTx s).drafts = (txs.flatMap draftPairs).foldl (fun m p => m.put p.1 p.2) s.drafts ∧
    (txs.foldl saveTx s).retdep = s.retdep := by
  induction txs generalizing s with
  | nil => exact ⟨rfl, rfl, rfl⟩
  | cons tx r ih =>
    simp only [List.foldl_cons, List.flatMap_cons, List.foldl_append]
    obtain ⟨h1, h2, h3⟩ := ih (saveTx s tx)
    rw [h1, h2, h3]
    unfold saveTx savedTx3 draftPairs
    cases hk : tx.kind <;> simp [hk] <;> split <;> simp_all

theorem foldl_rollbackTx (txs : List Tx) (s : State) :
    (txs.foldl rollbackTx s).tx3 = (txs.flatMap rolledTx3).foldl (fun m h => m.del h) s.tx3 ∧
    (txs.foldl rollbackTx s).drafts = (txs.flatMap draftPairs).foldl (fun m p => m.del p.1) s.drafts := by
  induction txs generalizing s with
  | nil => exact ⟨rfl, rfl⟩
  | cons tx r ih =>
    simp only [List.foldl_cons, List.flatMap_cons, List.foldl_append]
    obtain ⟨h1, h2⟩ := ih (rollbackTx s tx)
    rw [h1, h2]
    unfold rollbackTx rolledTx3 draftPairs
    cases hk : tx.kind <;> simp [hk] <;> split <;> simp_all

end ElaVerif.Index
