import ElaVerif.Model.BlockStore
/-!
Helper lemmas for C18: 32-bit codecs, files, and what `writeBlock` does to
the records that are already in the files.
-/
namespace ElaVerif.BlockStore

/-! ### 32-bit little/big endian round trips -/

theorem le32_length (n : Nat) : (le32 n).length = 4 := rfl
theorem be32_length (n : Nat) : (be32 n).length = 4 := by simp [be32, le32]

theorem rdLe32_le32 (n : Nat) (rest : Bytes) (h : n < 4294967296) : rdLe32 (le32 n ++ rest) = n := by
  simp only [rdLe32, rd8, le32, List.cons_append, List.nil_append, List.getD_cons_zero, List.getD_cons_succ]
  simp only [UInt8.toNat_ofNat']
  omega

theorem rdBe32_be32 (n : Nat) (h : n < 4294967296) : rdBe32 (be32 n) = n := by
  simp only [rdBe32, rd8, be32, le32, List.reverse_cons, List.reverse_nil, List.nil_append, List.cons_append,
    List.getD_cons_zero, List.getD_cons_succ]
  simp only [UInt8.toNat_ofNat']
  omega

theorem record_length (crc : Bytes → Nat) (net : Nat) (d : Bytes) :
    (record crc net d).length = d.length + 12 := by
  simp [record, le32_length, be32_length]; omega

/-! ### files -/

theorem fileAt_setFile_same : ∀ (fs : Files) (i : Nat) (x : Option Bytes), fileAt (setFile fs i x) i = x
  | [], 0, x => by simp [setFile, fileAt]
  | [], n + 1, x => by
    have := fileAt_setFile_same [] n x
    simpa [setFile, fileAt] using this
  | _ :: fs, 0, x => by simp [setFile, fileAt]
  | f :: fs, n + 1, x => by
    have := fileAt_setFile_same fs n x
    simpa [setFile, fileAt] using this

theorem fileAt_setFile_other : ∀ (fs : Files) (i j : Nat) (x : Option Bytes), i ≠ j →
    fileAt (setFile fs i x) j = fileAt fs j
  | [], 0, j, x, h => by
    cases j with
    | zero => exact absurd rfl h
    | succ j => simp [setFile, fileAt]
  | [], n + 1, j, x, h => by
    cases j with
    | zero => simp [setFile, fileAt]
    | succ j =>
      have := fileAt_setFile_other [] n j x (by omega)
      simpa [setFile, fileAt] using this
  | _ :: fs, 0, j, x, h => by
    cases j with
    | zero => exact absurd rfl h
    | succ j => simp [setFile, fileAt]
  | f :: fs, n + 1, j, x, h => by
    cases j with
    | zero => simp [setFile, fileAt]
    | succ j =>
      have := fileAt_setFile_other fs n j x (by omega)
      simpa [setFile, fileAt] using this

theorem writeAt_end (f d : Bytes) : writeAt f f.length d = f ++ d := by
  simp [writeAt]

/-! ### records in files -/

/-- the bytes of the record of block `d` sit at `loc` -/
def RecAt (crc : Bytes → Nat) (net : Nat) (fs : Files) (loc : Loc) (d : Bytes) : Prop :=
  ∃ f, fileAt fs loc.file = some f ∧ loc.len = d.length + 12 ∧ loc.off + loc.len ≤ f.length ∧
    loc.off + loc.len < 4294967296 ∧ (f.drop loc.off).take loc.len = record crc net d

theorem readBlock_of_RecAt (crc : Bytes → Nat) (hcrc : ∀ b, crc b < 4294967296) (s : Store) (loc : Loc)
    (d : Bytes) (hnet : s.net < 4294967296) (h : RecAt crc s.net s.files loc d) :
    readBlock crc s loc = .ok d := by
  obtain ⟨f, hf, hlen, hfit, hlt, hrec⟩ := h
  have hdl : d.length < 4294967296 := by omega
  simp only [readBlock, hf, readAt]
  have hne : loc.len ≠ 0 := by omega
  simp only [hne, if_false, hfit, if_true, hrec]
  have hn : (record crc s.net d).length = d.length + 12 := record_length crc s.net d
  rw [hn]
  have e1 : d.length + 12 - 4 = (le32 s.net ++ le32 (u32 d.length) ++ d).length := by
    simp [le32_length]; omega
  have htake : (record crc s.net d).take (d.length + 12 - 4) = le32 s.net ++ le32 (u32 d.length) ++ d := by
    rw [e1]; simp only [record]; exact List.take_left' rfl
  have hdrop : (record crc s.net d).drop (d.length + 12 - 4) = be32 (crc (le32 s.net ++ le32 (u32 d.length) ++ d)) := by
    rw [e1]; simp only [record]; exact List.drop_left' rfl
  rw [htake, hdrop, rdBe32_be32 _ (hcrc _)]
  have hnet' : rdLe32 (record crc s.net d) = s.net := by
    simp only [record, List.append_assoc]
    exact rdLe32_le32 _ _ hnet
  simp only [ne_eq, not_true_eq_false, if_false, hnet']
  congr 1

theorem readRegion_of_RecAt (crc : Bytes → Nat) (s : Store) (loc : Loc) (d : Bytes) (off n : Nat)
    (h : RecAt crc s.net s.files loc d) (hb : off + n ≤ d.length) :
    readRegion s loc off n = .ok ((d.drop off).take n) := by
  obtain ⟨f, hf, hlen, hfit, hlt, hrec⟩ := h
  have hu : u32 (loc.off + 8 + off) = loc.off + 8 + off := by
    simp only [u32]; apply Nat.mod_eq_of_lt; omega
  simp only [readRegion, hf, hu, readAt]
  by_cases hn : n = 0
  · subst hn; simp
  · simp only [hn, if_false]
    have hfit' : loc.off + 8 + off + n ≤ f.length := by omega
    simp only [hfit', if_true]
    -- the region lies inside the record, inside its block part
    have h1 : (f.drop (loc.off + 8 + off)).take n = (((f.drop loc.off).take loc.len).drop (8 + off)).take n := by
      rw [List.drop_take, List.drop_drop, List.take_take]
      rw [show loc.off + 8 + off = loc.off + (8 + off) by omega]
      congr 1
      omega
    rw [h1, hrec]
    simp only [record, List.append_assoc]
    have h8 : (le32 s.net ++ (le32 (u32 d.length) ++ (d ++ be32 (crc (le32 s.net ++ (le32 (u32 d.length) ++ d)))))).drop (8 + off)
        = (d ++ be32 (crc (le32 s.net ++ (le32 (u32 d.length) ++ d)))).drop off := by
      rw [← List.append_assoc, List.drop_append]
      simp [le32_length]
    rw [h8, List.drop_append_of_le_length (by omega), List.take_append_of_le_length (by simp; omega)]

/-- `loc` lies in the part of the files that is already written -/
def Before (s : Store) (loc : Loc) : Prop :=
  loc.file < s.curFile ∨ (loc.file = s.curFile ∧ loc.off + loc.len ≤ s.curOff)

/-- cursor / directory consistency -/
structure WF (s : Store) : Prop where
  net_lt : s.net < 4294967296
  cur : match fileAt s.files s.curFile with
        | some f => f.length = s.curOff
        | none => s.curOff = 0
  above : ∀ i, s.curFile < i → fileAt s.files i = none
  off_lt : s.curOff < 4294967296

theorem writeBlock_spec (crc : Bytes → Nat) (s : Store) (d : Bytes) (hw : WF s)
    (hd : d.length + 12 < 4294967296) (hfile : s.curFile + 1 < 4294967296) :
    let r := writeBlock crc s d
    WF r.1 ∧ RecAt crc s.net r.1.files r.2 d ∧ Before r.1 r.2 ∧
    r.1.index = s.index ∧ r.1.net = s.net ∧ r.1.max = s.max ∧ r.1.pending = s.pending ∧
    r.1.writeLoc = s.writeLoc ∧
    s.curFile ≤ r.1.curFile ∧ r.1.curFile ≤ s.curFile + 1 ∧
    (∀ loc0 d0, RecAt crc s.net s.files loc0 d0 → Before s loc0 →
        RecAt crc s.net r.1.files loc0 d0 ∧ Before r.1 loc0) := by
  have hrl := record_length crc s.net d
  have hfull : u32 (u32 d.length + 12) = d.length + 12 := by
    simp only [u32]
    rw [Nat.mod_eq_of_lt (a := d.length) (by omega), Nat.mod_eq_of_lt hd]
  by_cases hroll : u32 (s.curOff + u32 (u32 d.length + 12)) < s.curOff ∨ u32 (s.curOff + u32 (u32 d.length + 12)) > s.max
  · -- rollover: the record starts a new file
    have hnone : fileAt s.files (s.curFile + 1) = none := hw.above _ (by omega)
    have hu : u32 (s.curFile + 1) = s.curFile + 1 := by simp only [u32]; exact Nat.mod_eq_of_lt hfile
    unfold writeBlock
    simp only [hfull]
    rw [hfull] at hroll
    simp only [hroll, if_true, hu]
    have hwf : writeFile s.files (s.curFile + 1) 0 (record crc s.net d)
        = setFile s.files (s.curFile + 1) (some (record crc s.net d)) := by
      simp [writeFile, hnone, writeAt]
    rw [hwf]
    have hu2 : u32 (0 + (record crc s.net d).length) = d.length + 12 := by
      simp only [u32, hrl, Nat.zero_add]; exact Nat.mod_eq_of_lt hd
    rw [hu2]
    refine ⟨⟨hw.net_lt, ?_, ?_, hd⟩, ?_, ?_, by first | rfl | trivial, by first | rfl | trivial, by first | rfl | trivial, by first | rfl | trivial, by first | rfl | trivial, by simp, by simp, ?_⟩
    · simp only [fileAt_setFile_same]; exact hrl
    · intro i hi
      rw [fileAt_setFile_other _ _ _ _ (by simp at hi; omega)]
      exact hw.above i (by simp at hi; omega)
    · exact ⟨record crc s.net d, by simp [fileAt_setFile_same], by simp, by simp [hrl], by simpa using hd,
        by simp [← hrl]⟩
    · right; simp
    · intro loc0 d0 ⟨f, hf, h2, h3, h4, h5⟩ hb
      have hlf : loc0.file ≤ s.curFile := by rcases hb with h | h <;> omega
      refine ⟨⟨f, ?_, h2, h3, h4, h5⟩, ?_⟩
      · rw [fileAt_setFile_other _ _ _ _ (by omega)]; exact hf
      · left; simp; omega
  · -- no rollover: append to the current file
    unfold writeBlock
    simp only [hfull]
    rw [hfull] at hroll
    simp only [hroll, if_false]
    have hsum : s.curOff + (d.length + 12) < 4294967296 ∧ s.curOff + (d.length + 12) ≤ s.max := by
      have hlt := hw.off_lt
      simp only [u32] at hroll
      by_cases hwrap : s.curOff + (d.length + 12) < 4294967296
      · rw [Nat.mod_eq_of_lt hwrap] at hroll; omega
      · exfalso
        apply hroll; left
        have : (s.curOff + (d.length + 12)) % 4294967296 = s.curOff + (d.length + 12) - 4294967296 := by
          omega
        omega
    have hu2 : u32 (s.curOff + (record crc s.net d).length) = s.curOff + (d.length + 12) := by
      simp only [u32, hrl]; exact Nat.mod_eq_of_lt hsum.1
    rw [hu2]
    -- the file before the write
    have hcur := hw.cur
    have hfile' : ∃ f0 : Bytes, (fileAt s.files s.curFile).getD [] = f0 ∧ f0.length = s.curOff ∧
        (∀ f, fileAt s.files s.curFile = some f → f = f0) := by
      cases hfa : fileAt s.files s.curFile with
      | none => rw [hfa] at hcur; exact ⟨[], rfl, by simp [hcur], by intro f h; cases h⟩
      | some f => rw [hfa] at hcur; exact ⟨f, rfl, hcur, by intro f' h; cases h; rfl⟩
    obtain ⟨f0, hf0, hl0, huniq⟩ := hfile'
    have hwf : writeFile s.files s.curFile s.curOff (record crc s.net d)
        = setFile s.files s.curFile (some (f0 ++ record crc s.net d)) := by
      simp only [writeFile, hf0]; rw [← hl0, writeAt_end]
    rw [hwf]
    refine ⟨⟨hw.net_lt, ?_, ?_, hsum.1⟩, ?_, ?_, by first | rfl | trivial, by first | rfl | trivial, by first | rfl | trivial, by first | rfl | trivial, by first | rfl | trivial, by simp, by simp, ?_⟩
    · simp only [fileAt_setFile_same, List.length_append, hl0, hrl]
    · intro i hi
      rw [fileAt_setFile_other _ _ _ _ (by simp at hi; omega)]
      exact hw.above i (by simpa using hi)
    · refine ⟨f0 ++ record crc s.net d, by simp [fileAt_setFile_same], by simp, by simp [hl0, hrl], by
        simpa using hsum.1, ?_⟩
      simp only []
      rw [← hl0, List.drop_left', ← hrl, List.take_length]
      rfl
    · right; simp
    · intro loc0 d0 ⟨f, hf, h2, h3, h4, h5⟩ hb
      rcases hb with hb | ⟨hb1, hb2⟩
      · refine ⟨⟨f, ?_, h2, h3, h4, h5⟩, Or.inl (by simpa using hb)⟩
        rw [fileAt_setFile_other _ _ _ _ (by omega)]; exact hf
      · have hff : f = f0 := huniq f (hb1 ▸ hf)
        subst hff
        refine ⟨⟨f ++ record crc s.net d, ?_, h2, ?_, h4, ?_⟩, Or.inr ⟨by simpa using hb1, by simp; omega⟩⟩
        · rw [hb1]; simp [fileAt_setFile_same]
        · simp; omega
        · rw [← h5]
          rw [List.drop_append_of_le_length (by omega), List.take_append_of_le_length (by simp; omega)]

end ElaVerif.BlockStore
