/-!
  Snapshot of the access/guard lists the C03 models and the round-4 sweep were written against
  (same shape as `ElaVerif/Gen/C03.lean`, which is regenerated from the working tree on every run).
  `Props/C03.lean` proves the regenerated lists equal these.  To accept a reviewed source change,
  re-copy the corresponding list from Gen after checking that every new index/slice/division/assertion
  is guarded.
-/
namespace ElaVerif.C03Expected

/-- core/contract/common.go : IsStandard -/
def isStandard : List String := [
  "guard len(code) != 35",
  "idx code[0]",
  "idx code[34]"
]

/-- core/contract/common.go : IsSchnorr -/
def isSchnorr : List String := [
  "guard len(code) != 35",
  "idx code[0]",
  "guard int(code[1])+2 != len(code)",
  "idx code[1]"
]

/-- core/contract/common.go : IsMultiSig -/
def isMultiSig : List String := [
  "guard len(code) < 37",
  "idx code[i]",
  "idx code[i]",
  "idx code[i]",
  "idx code[i]",
  "idx code[i]",
  "idx code[i]",
  "slice code[i:]",
  "idx code[i]",
  "for code[i] == 33",
  "idx code[i]",
  "guard len(code) <= i",
  "idx code[i]",
  "guard len(code) <= i",
  "idx code[i]",
  "slice code[i:]",
  "idx code[i]",
  "guard len(code) <= i",
  "idx code[i]",
  "guard len(code) != i"
]

/-- blockchain/validation.go : RunPrograms -/
def runPrograms : List String := [
  "guard len(programHashes) != len(programs)",
  "idx programHashes[i]",
  "slice data[:]",
  "guard err != nil",
  "slice data[:]",
  "guard err != nil",
  "guard err != nil",
  "guard err != nil"
]

/-- blockchain/validation.go : CheckStandardSignature -/
def checkStandardSignature : List String := [
  "guard len(program.Parameter) != crypto.SignatureScriptLength",
  "slice program.Code[1 : len(program.Code)-1]",
  "guard err != nil",
  "slice program.Parameter[1:]"
]

/-- blockchain/validation.go : checkSchnorrSignatures -/
def checkSchnorrSignatures : List String := [
  "guard len(program.Code) < 2 || len(program.Parameter) < 64",
  "slice publicKey[:]",
  "slice program.Code[2:]",
  "slice signature[:]",
  "slice program.Parameter[:64]"
]

/-- blockchain/validation.go : checkCrossChainSignatures -/
def checkCrossChainSignatures : List String := [
  "guard len(code) < 2",
  "idx code[len(code)-2]",
  "idx code[0]",
  "guard err != nil"
]

/-- crypto/crypto.go : CheckMultiSigSignatures -/
def checkMultiSigSignatures : List String := [
  "guard len(code) < 2",
  "idx code[len(code)-2]",
  "idx code[0]",
  "guard err != nil"
]

/-- crypto/crypto.go : VerifyMultisigSignatures -/
def verifyMultisigSignatures : List String := [
  "guard len(publicKeys) != n",
  "guard len(signatures)%SignatureScriptLength != 0",
  "div len(signatures) % SignatureScriptLength",
  "guard len(signatures)/SignatureScriptLength < m",
  "div len(signatures) / SignatureScriptLength",
  "guard len(signatures)/SignatureScriptLength > n",
  "div len(signatures) / SignatureScriptLength",
  "for i < len(signatures)",
  "slice signatures[i : i+SignatureScriptLength][1:]",
  "slice signatures[i : i+SignatureScriptLength]",
  "slice publicKey[1:]",
  "guard err != nil",
  "guard err == nil",
  "idx verified[hash]",
  "idx verified[hash]",
  "guard len(verified) < m"
]

/-- crypto/common.go : ParseMultisigScript -/
def parseMultisigScript : List String := [
  "guard len(code) < MinMultiSignCodeLength || code[len(code)-1] != common.MULTISIG",
  "idx code[len(code)-1]"
]

/-- crypto/common.go : ParseCrossChainScript -/
def parseCrossChainScript : List String := [
  "guard len(code) < MinMultiSignCodeLength || code[len(code)-1] != common.CROSSCHAIN",
  "idx code[len(code)-1]"
]

/-- crypto/common.go : parsePublicKeys -/
def parsePublicKeys : List String := [
  "slice code[:len(code)-1]",
  "slice code[1:]",
  "slice code[:len(code)-1]",
  "guard len(code)%(PublicKeyScriptLength-1) != 0",
  "div len(code) % (PublicKeyScriptLength - 1)",
  "for i < len(code)",
  "slice code[i : i+PublicKeyScriptLength-1]"
]

/-- auxpow/auxpow.go : AuxPow.Check -/
def auxPowCheck : List String := [
  "guard len(ap.ParCoinbaseTx.TxIn) == 0",
  "idx ap.ParCoinbaseTx.TxIn[0]",
  "slice scriptStr[headerIndex+2:]",
  "guard headerIndex+len(pchMergedMiningHeaderStr) != rootHashIndex",
  "guard len(scriptStr)-rootHashIndex < 8",
  "slice script[rootHashIndex/2 : rootHashIndex/2+4]",
  "guard len(script) < rootHashIndex/2+8",
  "slice script[rootHashIndex/2+4 : rootHashIndex/2+8]"
]

/-- auxpow/auxpow.go : GetExpectedIndex -/
def getExpectedIndex : List String := [
  "guard h < 0 || h >= 32",
  "div rand % (1 << uint32(h))"
]

/-- auxpow/auxpow.go : GetMerkleRoot -/
def getMerkleRoot : List String := [
  "slice sha[:32]",
  "slice it[:]",
  "slice sha[32:]",
  "slice hash[:]",
  "slice sha[:]",
  "slice sha[:32]",
  "slice hash[:]",
  "slice sha[32:]",
  "slice it[:]",
  "slice sha[:]"
]

/-- blockchain/blockvalidator.go : BlockChain.checkCoinbaseTransactionContext -/
def checkCoinbaseTransactionContext : List String := [
  "idx coinbase.Outputs()[0]",
  "idx coinbase.Outputs()[1]",
  "guard len(coinbase.Outputs()) != 3",
  "idx coinbase.Outputs()[2]",
  "idx coinbase.Outputs()[2]",
  "idx coinbase.Outputs()[0]",
  "idx coinbase.Outputs()[0]",
  "idx coinbase.Outputs()[2]",
  "idx coinbase.Outputs()[0]",
  "idx coinbase.Outputs()[1]",
  "guard err != nil"
]

/-- blockchain/blockvalidator.go : CheckCoinbaseArbitratorsReward -/
def checkCoinbaseArbitratorsReward : List String := [
  "guard len(rewards) != len(coinbase.Outputs())-2",
  "for i < len(coinbase.Outputs())",
  "idx rewards[coinbase.Outputs()[i].ProgramHash]",
  "idx coinbase.Outputs()[i]",
  "idx coinbase.Outputs()[i]"
]

/-- core/transaction/coinbasetransaction.go : CoinBaseTransaction.CheckTransactionOutput -/
def coinbaseCheckTransactionOutput : List String := [
  "guard len(t.Outputs()) > math.MaxUint16",
  "guard len(t.Outputs()) < 2",
  "idx t.Outputs()[0]",
  "idx t.Outputs()[0]",
  "idx t.Outputs()[1]",
  "guard len(t.Outputs()) == 2 && foundationReward < common.Fixed64(float64(totalReward)*0.3/0.65)"
]

/-- core/transaction/withdrawfromsidechaintransaction.go : checkSchnorrWithdrawFromSidechain -/
def checkSchnorrWithdrawFromSidechain : List String := [
  "guard int(index) >= len(arbiters)",
  "idx signerIndexes[index]",
  "idx signerIndexes[index]",
  "idx arbiters[index]",
  "for i < len(pxArr)",
  "idx pxArr[i]",
  "idx pyArr[i]",
  "guard err != nil",
  "guard err != nil"
]

/-- blockchain/blockvalidator.go : BlockChain.CheckBlockSanity -/
def checkBlockSanity : List String := [
  "guard !header.AuxPow.Check(&hash, AuxPowChainID)",
  "guard CheckProofOfWork(&header, b.chainParams.PowConfiguration.PowLimit) != nil",
  "guard !tempTime.Equal(time.Unix(tempTime.Unix(), 0))",
  "guard tempTime.After(maxTimestamp)",
  "guard numTx == 0",
  "guard uint32(numTx) > pact.MaxTxPerBlock",
  "guard headerSize > int(pact.MaxBlockHeaderSize)",
  "guard blockSize > int(pact.MaxBlockContextSize+pact.MaxBlockHeaderSize)",
  "guard !transactions[0].IsCoinBaseTx()",
  "idx transactions[0]",
  "slice transactions[1:]",
  "guard tx.IsCoinBaseTx()",
  "guard exists",
  "idx existingTxIDs[txID]",
  "idx existingTxIDs[txID]",
  "guard err != nil",
  "guard exists",
  "idx existingTxInputs[referKey]",
  "idx existingTxInputs[referKey]",
  "guard err != nil",
  "guard err != nil",
  "guard !header.MerkleRoot.IsEqual(calcTransactionsRoot)"
]

/-- core/transaction/nexttrundposinfotransaction.go : isNextArbitratorsSame -/
def isNextArbitratorsSame : List String := [
  "guard len(nextTurnDPOSInfo.CRPublicKeys)+len(nextTurnDPOSInfo.DPOSPublicKeys) != len(nextArbitrators)",
  "guard crindex >= len(nextTurnDPOSInfo.CRPublicKeys)",
  "idx nextTurnDPOSInfo.CRPublicKeys[crindex]",
  "idx nextTurnDPOSInfo.CRPublicKeys[crindex]",
  "guard dposIndex >= len(nextTurnDPOSInfo.DPOSPublicKeys)",
  "idx nextTurnDPOSInfo.DPOSPublicKeys[dposIndex]"
]

/-- core/transaction/nexttrundposinfotransaction.go : isNextArbitratorsSameV1 -/
def isNextArbitratorsSameV1 : List String := [
  "guard len(nextTurnDPOSInfo.DPOSPublicKeys) != len(nextArbitrators)",
  "idx nextTurnDPOSInfo.DPOSPublicKeys[i]",
  "idx nextTurnDPOSInfo.DPOSPublicKeys[i]",
  "guard len(nextTurnDPOSInfo.CRPublicKeys) < len(nextCRCArbitrators)",
  "idx nextTurnDPOSInfo.CRPublicKeys[i]",
  "idx nextTurnDPOSInfo.CRPublicKeys[i]"
]

/-- blockchain/blockchain.go : BlockChain.maybeAcceptBlock -/
def maybeAcceptBlock : List String := [
  "guard err != nil",
  "guard prevNode != nil",
  "guard block.Header.Height != blockHeight",
  "guard prevNode == nil && b.BestChain != nil",
  "guard err != nil",
  "guard prevNode != nil",
  "guard err != nil",
  "guard inMainChain && !reorganized",
  "guard block.Height >= b.chainParams.CRCOnlyDPOSHeight",
  "guard confirm != nil",
  "guard block.Height == b.chainParams.CRCOnlyDPOSHeight-1"
]

/-- blockchain/blockchain.go : BlockChain.connectBestChain -/
def connectBestChain : List String := [
  "guard b.BestChain == nil || (node.Parent.Hash.IsEqual(*b.BestChain.Hash))",
  "guard err != nil",
  "guard err != nil",
  "guard node.Parent != nil",
  "idx b.blockCache[*node.Hash]",
  "idx b.confirmCache[*node.Hash]",
  "for fork.Parent != nil",
  "guard err != nil"
]

/-- core/transaction/registercrtransaction.go : RegisterCRTransaction.SpecialContextCheck -/
def registerCRSpecialContextCheck : List String := [
  "guard err != nil",
  "guard err != nil",
  "guard cr != nil",
  "idx t.Programs()[0]",
  "guard err != nil",
  "slice code[2:]",
  "guard len(code) >= 2 && code[len(code)-1] == vm.CHECKSIG",
  "idx code[len(code)-1]",
  "slice code[1 : len(code)-1]",
  "guard code[len(code)-1] == vm.CHECKMULTISIG",
  "idx code[len(code)-1]",
  "guard err != nil",
  "guard err != nil",
  "guard err != nil"
]

/-- core/transaction/inactivearbitratorstransaction.go : checkCRCArbitratorsSignatures -/
def checkCRCArbitratorsSignaturesTx : List String := [
  "guard len(code) < 2",
  "idx code[len(code)-2]",
  "idx code[0]",
  "div float64(crcArbitratorsCount) * state.MajoritySignRatioNumerator / state.MajoritySignRatioDenominator",
  "guard err != nil",
  "slice pk[1:]"
]

/-- blockchain/txvalidator.go : checkCRCArbitratorsSignatures -/
def checkCRCArbitratorsSignaturesBc : List String := [
  "guard len(code) < 2",
  "idx code[len(code)-2]",
  "idx code[0]",
  "div float64(crcArbitratorsCount) * state.MajoritySignRatioNumerator / state.MajoritySignRatioDenominator",
  "guard err != nil",
  "slice pk[1:]"
]

/-- core/transaction/returndepositcointransaction.go : ReturnDepositCoinTransaction.SpecialContextCheck -/
def returnDepositSpecialContextCheck : List String := [
  "idx fromAddrMap[output.ProgramHash]",
  "guard len(fromAddrMap) != 1",
  "guard output.ProgramHash.IsEqual(programHash)",
  "guard contract.IsMultiSig(program.Code)",
  "slice program.Code[1 : len(program.Code)-1]",
  "guard p == nil",
  "guard inputValue-changeValue > availableAmount || outputValue >= availableAmount"
]

/-- per transaction type checker methods of core/transaction: (file : Recv.Method, accesses and guards in source order) -/
def txCheckers : List (String × List String) := [
  ("core/transaction/activateproducertransaction.go : ActivateProducerTransaction.CheckTransactionInput", ["guard len(t.Inputs()) != 0", "idx existingTxInputs[input.ReferKey()]", "idx existingTxInputs[input.ReferKey()]"]),
  ("core/transaction/activateproducertransaction.go : ActivateProducerTransaction.CheckTransactionOutput", ["guard len(t.Outputs()) > math.MaxUint16", "guard len(t.Outputs()) != 0"]),
  ("core/transaction/activateproducertransaction.go : ActivateProducerTransaction.CheckAttributeProgram", ["guard len(t.Programs()) != 0 || len(t.Attributes()) != 0"]),
  ("core/transaction/activateproducertransaction.go : ActivateProducerTransaction.SpecialContextCheck", ["guard err != nil", "guard crMember != nil && (crMember.MemberState == crstate.MemberInactive || crMember.MemberState == crstate.MemberIllegal)", "guard producer == nil || !bytes.Equal(producer.NodePublicKey(), activateProducer.NodePublicKey)", "guard err != nil", "guard err != nil"]),
  ("core/transaction/cancelproducertransaction.go : CancelProducerTransaction.SpecialContextCheck", ["guard err != nil"]),
  ("core/transaction/coinbasetransaction.go : CoinBaseTransaction.CheckTransactionInput", ["guard len(t.Inputs()) != 1", "idx t.Inputs()[0]", "idx t.Inputs()[0]", "idx t.Inputs()[0]"]),
  ("core/transaction/coinbasetransaction.go : CoinBaseTransaction.CheckTransactionOutput", ["guard len(t.Outputs()) > math.MaxUint16", "guard len(t.Outputs()) < 2", "idx t.Outputs()[0]", "idx t.Outputs()[0]", "idx t.Outputs()[1]", "guard len(t.Outputs()) == 2 && foundationReward < common.Fixed64(float64(totalReward)*0.3/0.65)"]),
  ("core/transaction/coinbasetransaction.go : CoinBaseTransaction.CheckAttributeProgram", ["guard len(t.Programs()) != 0"]),
  ("core/transaction/coinbasetransaction.go : CoinBaseTransaction.SpecialContextCheck", ["idx a.outputs[0]", "idx a.outputs[0]", "idx a.outputs[0]"]),
  ("core/transaction/coinbasetransaction.go : CoinBaseTransaction.ContextCheck", ["guard err != nil", "guard err != nil"]),
  ("core/transaction/crassetsrectifytransaction.go : CRAssetsRectifyTransaction.CheckAttributeProgram", ["guard len(t.Programs()) != 0", "guard len(t.Attributes()) != 0"]),
  ("core/transaction/crassetsrectifytransaction.go : CRAssetsRectifyTransaction.SpecialContextCheck", ["guard len(t.Inputs()) > int(t.parameters.Config.CRConfiguration.MaxCRAssetsAddressUTXOCount)", "guard len(t.Inputs()) < int(t.parameters.Config.CRConfiguration.MinCRAssetsAddressUTXOCount)", "guard len(t.Outputs()) != 1", "idx t.Outputs()[0]", "idx t.Outputs()[0]"]),
  ("core/transaction/crcappropriationtransaction.go : CRCAppropriationTransaction.CheckTransactionOutput", ["guard len(t.Outputs()) > math.MaxUint16", "guard len(t.Outputs()) != 2", "idx t.Outputs()[0]", "idx t.Outputs()[1]", "guard err != nil", "guard err != nil"]),
  ("core/transaction/crcappropriationtransaction.go : CRCAppropriationTransaction.CheckAttributeProgram", ["guard len(t.Programs()) != 0", "guard len(t.Attributes()) != 0"]),
  ("core/transaction/crcappropriationtransaction.go : CRCAppropriationTransaction.SpecialContextCheck", ["idx t.Outputs()[0]", "idx t.Outputs()[0]"]),
  ("core/transaction/crcouncilmemberclaimnodetransaction.go : CRCouncilMemberClaimNodeTransaction.SpecialContextCheck", ["idx comm.ClaimedDPoSKeys[hex.EncodeToString(manager.NodePublicKey)]", "idx comm.NextClaimedDPoSKeys[hex.EncodeToString(manager.NodePublicKey)]", "guard crMember == nil", "guard len(crMember.DPOSPublicKey) != 0", "guard err != nil", "guard err != nil"]),
  ("core/transaction/crcproposalrealwithdrawtransaction.go : CRCProposalRealWithdrawTransaction.CheckAttributeProgram", ["guard len(t.Programs()) != 0", "guard len(t.Attributes()) != 0"]),
  ("core/transaction/crcproposalrealwithdrawtransaction.go : CRCProposalRealWithdrawTransaction.SpecialContextCheck", ["guard txsCount != len(t.Outputs()) && txsCount != len(t.Outputs())-1", "guard txsCount != len(t.Outputs())", "idx t.Outputs()[len(t.Outputs())-1]", "idx txs[hash]", "idx t.Outputs()[i]", "idx txsMap[hash]", "idx txsMap[hash]"]),
  ("core/transaction/crcproposalresulttransaction.go : CRCProposalResultTransaction.CheckTransactionInput", ["guard len(t.Inputs()) != 0"]),
  ("core/transaction/crcproposalresulttransaction.go : CRCProposalResultTransaction.CheckTransactionOutput", ["guard len(t.Outputs()) > math.MaxUint16", "guard len(t.Outputs()) != 0"]),
  ("core/transaction/crcproposalresulttransaction.go : CRCProposalResultTransaction.CheckAttributeProgram", ["guard len(t.Programs()) != 0 || len(t.Attributes()) != 0"]),
  ("core/transaction/crcproposalresulttransaction.go : CRCProposalResultTransaction.SpecialContextCheck", ["idx targetResults[r.ProposalHash]", "guard len(p.ProposalResults) != len(targetResults)", "idx targetResults[r.ProposalHash]"]),
  ("core/transaction/crcproposalreviewtransaction.go : CRCProposalReviewTransaction.SpecialContextCheck", ["guard proposalState == nil", "guard crMember == nil", "guard len(crcProposalReview.OpinionData) >= payload.MaxOpinionDataSize", "guard err != nil", "guard err != nil"]),
  ("core/transaction/crcproposaltrackingtransaction.go : CRCProposalTrackingTransaction.SpecialContextCheck", ["guard proposalState == nil", "guard len(cptPayload.MessageData) >= payload.MaxMessageDataSize", "guard len(cptPayload.SecretaryGeneralOpinionData) >= payload.MaxSecretaryGeneralOpinionDataSize", "guard err != nil", "guard err != nil", "guard err != nil", "guard err != nil", "guard err != nil", "guard err != nil"]),
  ("core/transaction/crcproposaltransaction.go : CRCProposalTransaction.SpecialContextCheck", ["guard len(proposal.CategoryData) > blockchain.MaxCategoryDataStringLength", "guard len(proposal.DraftData) >= payload.MaxProposalDataSize", "guard len(proposal.Budgets) > blockchain.MaxBudgetsCount", "guard crMember == nil", "guard err != nil", "guard err != nil", "guard err != nil", "guard err != nil", "guard err != nil", "guard err != nil", "guard err != nil", "guard err != nil"]),
  ("core/transaction/crcproposalwithdraw.go : CRCProposalWithdrawTransaction.CheckAttributeProgram", ["guard len(t.Programs()) != 0 && t.parameters.BlockHeight < t.parameters.Config.CRConfiguration.CRCProposalWithdrawPayloadV1Height", "guard len(t.Programs()) == 0", "guard p.Code == nil", "guard len(p.Code) < program.MinProgramCodeSize", "guard p.Parameter == nil"]),
  ("core/transaction/crcproposalwithdraw.go : CRCProposalWithdrawTransaction.SpecialContextCheck", ["guard proposalState == nil", "idx t.Outputs()[0]", "guard len(t.Outputs()) > 1", "idx t.Outputs()[1]", "guard len(t.Outputs()) > 2", "idx t.Outputs()[0]", "guard err != nil", "guard err != nil", "guard err != nil"]),
  ("core/transaction/createnfttransaction.go : CreateNFTTransaction.CheckAttributeProgram", ["guard len(t.Programs()) != 1", "guard p.Code == nil", "guard len(p.Code) < program.MinProgramCodeSize", "guard p.Parameter == nil"]),
  ("core/transaction/createnfttransaction.go : CreateNFTTransaction.SpecialContextCheck", ["idx voteInfo.Info[0]", "idx voteInfo.Info[0]", "idx t.programs[0]", "guard err != nil", "idx state.NFTIDInfoHashMap[nftID]", "idx state.DposV2VoteRights[*stakeProgramHash]", "guard ucv != nil", "idx crState.UsedCRVotes[*stakeProgramHash]", "guard ucv != nil", "idx crState.UsedCRImpeachmentVotes[*stakeProgramHash]", "guard ucv != nil", "idx crState.UsedCRCProposalVotes[*stakeProgramHash]", "guard udv != nil", "idx state.UsedDposVotes[*stakeProgramHash]", "idx detailedVotes.Info[0]", "idx detailedVotes.Info[0]"]),
  ("core/transaction/dposv2claimrewardrealwithdrawtransaction.go : DposV2ClaimRewardRealWithdrawTransaction.CheckAttributeProgram", ["guard len(t.Programs()) != 0", "guard len(t.Attributes()) != 0"]),
  ("core/transaction/dposv2claimrewardrealwithdrawtransaction.go : DposV2ClaimRewardRealWithdrawTransaction.SpecialContextCheck", ["guard txsCount != len(t.Outputs()) && txsCount != len(t.Outputs())-1", "idx txs[hash]", "idx t.Outputs()[i]", "idx txsMap[hash]", "idx txsMap[hash]"]),
  ("core/transaction/dposv2claimrewardtransaction.go : DPoSV2ClaimRewardTransaction.CheckAttributeProgram", ["guard len(t.Programs()) != 1", "guard p.Code == nil", "guard len(p.Code) < program.MinProgramCodeSize", "guard p.Parameter == nil"]),
  ("core/transaction/dposv2claimrewardtransaction.go : DPoSV2ClaimRewardTransaction.SpecialContextCheck", ["idx t.Programs()[0]", "guard err != nil", "idx t.parameters.BlockChain.GetState().DPoSV2RewardInfo[addr]", "guard err != nil", "guard err != nil"]),
  ("core/transaction/exchangevotes.go : ExchangeVotesTransaction.HeightVersionCheck", ["guard blockHeight < chainParams.MultiExchangeVotesStartHeight && len(t.programs) > 1"]),
  ("core/transaction/exchangevotes.go : ExchangeVotesTransaction.CheckAttributeProgram", ["guard len(t.Programs()) != 1", "guard len(t.Programs()) < 1", "guard p.Code == nil", "guard len(p.Code) < program2.MinProgramCodeSize", "guard p.Parameter == nil"]),
  ("core/transaction/illegalblocktransaction.go : IllegalBlockTransaction.CheckTransactionInput", ["guard len(t.Inputs()) != 0"]),
  ("core/transaction/illegalblocktransaction.go : IllegalBlockTransaction.CheckTransactionOutput", ["guard len(t.Outputs()) > math.MaxUint16", "guard len(t.Outputs()) != 0"]),
  ("core/transaction/illegalblocktransaction.go : IllegalBlockTransaction.CheckAttributeProgram", ["guard len(t.Programs()) != 0", "guard len(t.Attributes()) != 0"]),
  ("core/transaction/illegalblocktransaction.go : IllegalBlockTransaction.SpecialContextCheck", ["guard err != nil"]),
  ("core/transaction/illegalproposaltransaction.go : IllegalProposalTransaction.CheckTransactionInput", ["guard len(t.Inputs()) != 0"]),
  ("core/transaction/illegalproposaltransaction.go : IllegalProposalTransaction.CheckTransactionOutput", ["guard len(t.Outputs()) > math.MaxUint16", "guard len(t.Outputs()) != 0"]),
  ("core/transaction/illegalproposaltransaction.go : IllegalProposalTransaction.CheckAttributeProgram", ["guard len(t.Programs()) != 0 || len(t.Attributes()) != 0"]),
  ("core/transaction/illegalproposaltransaction.go : IllegalProposalTransaction.SpecialContextCheck", ["guard err != nil"]),
  ("core/transaction/illegalsidechaintransaction.go : IllegalSideChainTransaction.CheckTransactionInput", ["guard len(t.Inputs()) != 0"]),
  ("core/transaction/illegalsidechaintransaction.go : IllegalSideChainTransaction.CheckTransactionOutput", ["guard len(t.Outputs()) > math.MaxUint16", "guard len(t.Outputs()) != 0"]),
  ("core/transaction/illegalsidechaintransaction.go : IllegalSideChainTransaction.CheckAttributeProgram", ["guard len(t.Programs()) != 0 || len(t.Attributes()) != 0"]),
  ("core/transaction/illegalsidechaintransaction.go : IllegalSideChainTransaction.SpecialContextCheck", ["guard err != nil"]),
  ("core/transaction/illegalvotetransaction.go : IllegalVoteTransaction.CheckTransactionInput", ["guard len(t.Inputs()) != 0"]),
  ("core/transaction/illegalvotetransaction.go : IllegalVoteTransaction.CheckTransactionOutput", ["guard len(t.Outputs()) > math.MaxUint16", "guard len(t.Outputs()) != 0"]),
  ("core/transaction/illegalvotetransaction.go : IllegalVoteTransaction.CheckAttributeProgram", ["guard len(t.Programs()) != 0 || len(t.Attributes()) != 0"]),
  ("core/transaction/illegalvotetransaction.go : IllegalVoteTransaction.SpecialContextCheck", ["guard err != nil", "assert t.payload.(*payload.DPOSIllegalVotes)"]),
  ("core/transaction/inactivearbitratorstransaction.go : InactiveArbitratorsTransaction.CheckTransactionInput", ["guard len(t.Inputs()) != 0"]),
  ("core/transaction/inactivearbitratorstransaction.go : InactiveArbitratorsTransaction.CheckTransactionOutput", ["guard len(t.Outputs()) > math.MaxUint16", "guard len(t.Outputs()) != 0"]),
  ("core/transaction/inactivearbitratorstransaction.go : InactiveArbitratorsTransaction.CheckAttributeProgram", ["guard len(t.Programs()) != 1", "guard len(t.Attributes()) != 1", "guard len(t.Programs()) == 0", "guard program.Code == nil", "guard program.Parameter == nil"]),
  ("core/transaction/inactivearbitratorstransaction.go : InactiveArbitratorsTransaction.SpecialContextCheck", ["guard err != nil"]),
  ("core/transaction/nexttrundposinfotransaction.go : NextTurnDPOSInfoTransaction.CheckTransactionInput", ["guard len(t.Inputs()) != 0"]),
  ("core/transaction/nexttrundposinfotransaction.go : NextTurnDPOSInfoTransaction.CheckTransactionOutput", ["guard len(t.Outputs()) > math.MaxUint16", "guard len(t.Outputs()) != 0"]),
  ("core/transaction/nexttrundposinfotransaction.go : NextTurnDPOSInfoTransaction.CheckAttributeProgram", ["guard len(t.Programs()) != 0 || len(t.Attributes()) != 0"]),
  ("core/transaction/nexttrundposinfotransaction.go : NextTurnDPOSInfoTransaction.SpecialContextCheck", ["guard t.parameters.BlockHeight+uint32(conf.DPoSConfiguration.NormalArbitratorsCount+len(conf.DPoSConfiguration.CRCArbiters)) >= blockchain.DefaultLedger.Arbitrators.GetDPoSV2ActiveHeight()"]),
  ("core/transaction/nftdestroytransaction.go : NFTDestroyTransactionFromSideChain.CheckTransactionInput", ["guard len(t.Inputs()) != 0"]),
  ("core/transaction/nftdestroytransaction.go : NFTDestroyTransactionFromSideChain.CheckTransactionOutput", ["guard len(t.Outputs()) != 0"]),
  ("core/transaction/nftdestroytransaction.go : NFTDestroyTransactionFromSideChain.CheckAttributeProgram", ["guard len(t.Programs()) != 1 || len(t.Attributes()) != 1", "guard len(t.Programs()) == 0", "guard p.Code == nil", "guard len(p.Code) < program.MinProgramCodeSize", "guard p.Parameter == nil"]),
  ("core/transaction/nftdestroytransaction.go : NFTDestroyTransactionFromSideChain.SpecialContextCheck", ["guard len(canDestroyIDs) != len(nftDestroyPayload.IDs)", "guard err != nil"]),
  ("core/transaction/recordsponsortransaction.go : RecordSponsorTransaction.CheckTransactionInput", ["guard len(t.Inputs()) != 0"]),
  ("core/transaction/recordsponsortransaction.go : RecordSponsorTransaction.CheckTransactionOutput", ["guard len(t.Outputs()) != 0"]),
  ("core/transaction/recordsponsortransaction.go : RecordSponsorTransaction.CheckAttributeProgram", ["guard len(t.Programs()) != 0", "guard len(t.Attributes()) != 1"]),
  ("core/transaction/registercrtransaction.go : RegisterCRTransaction.SpecialContextCheck", ["guard err != nil", "guard err != nil", "guard cr != nil", "idx t.Programs()[0]", "guard err != nil", "slice code[2:]", "guard len(code) >= 2 && code[len(code)-1] == vm.CHECKSIG", "idx code[len(code)-1]", "slice code[1 : len(code)-1]", "guard code[len(code)-1] == vm.CHECKMULTISIG", "idx code[len(code)-1]", "guard err != nil", "guard err != nil", "guard err != nil"]),
  ("core/transaction/registerproducertransaction.go : RegisterProducerTransaction.SpecialContextCheck", ["guard multiSignOwner && len(info.OwnerKey) == crypto.NegativeBigLength", "guard err != nil", "guard err != nil", "guard err != nil", "guard err != nil", "guard err != nil", "guard err != nil", "guard len(t.Programs()) != 1", "idx t.Programs()[0]", "slice t.Programs()[0].Code[2:]", "idx t.Programs()[0]", "idx t.Programs()[0]", "idx t.Programs()[0]", "idx t.Programs()[0]", "idx code[len(code)-2]", "guard err != nil"]),
  ("core/transaction/returncrdepositcointransaction.go : ReturnCRDepositCoinTransaction.CheckAttributeProgram", ["guard len(t.Programs()) != 1", "guard len(t.Programs()) == 0", "guard p.Code == nil", "guard len(p.Code) < program.MinProgramCodeSize", "guard p.Parameter == nil"]),
  ("core/transaction/returncrdepositcointransaction.go : ReturnCRDepositCoinTransaction.SpecialContextCheck", ["idx fromAddrMap[output.ProgramHash]", "guard len(fromAddrMap) != 1", "guard err != nil"]),
  ("core/transaction/returndepositcointransaction.go : ReturnDepositCoinTransaction.CheckAttributeProgram", ["guard len(t.Programs()) != 1", "guard len(t.Programs()) == 0", "guard p.Code == nil", "guard len(p.Code) < program.MinProgramCodeSize", "guard p.Parameter == nil"]),
  ("core/transaction/returndepositcointransaction.go : ReturnDepositCoinTransaction.SpecialContextCheck", ["idx fromAddrMap[output.ProgramHash]", "guard len(fromAddrMap) != 1", "slice program.Code[1 : len(program.Code)-1]", "guard p == nil"]),
  ("core/transaction/returnsidechaindepositcointransaction.go : ReturnSideChainDepositCoinTransaction.CheckTransactionOutput", ["guard len(t.Outputs()) > math.MaxUint16", "guard len(t.Outputs()) < 1", "guard err != nil", "guard err != nil"]),
  ("core/transaction/returnsidechaindepositcointransaction.go : ReturnSideChainDepositCoinTransaction.SpecialContextCheck", ["guard err != nil", "guard err != nil", "guard len(tx.Inputs()) == 0", "idx tx.Inputs()[0]", "guard err != nil", "guard int(tx.Inputs()[0].Previous.Index) >= len(refTx.Outputs())", "idx tx.Inputs()[0]", "idx refTx.Outputs()[tx.Inputs()[0].Previous.Index]", "idx tx.Inputs()[0]", "guard err != nil", "idx tx.Outputs()[idx]", "idx tx.Outputs()[idx]"]),
  ("core/transaction/returnvotes.go : ReturnVotesTransaction.CheckAttributeProgram", ["guard len(t.Programs()) != 1", "guard t.Programs()[0].Code == nil", "idx t.Programs()[0]", "guard len(t.Programs()[0].Code) < program.MinProgramCodeSize", "idx t.Programs()[0]", "guard t.Programs()[0].Parameter == nil", "idx t.Programs()[0]"]),
  ("core/transaction/returnvotes.go : ReturnVotesTransaction.SpecialContextCheck", ["idx t.Programs()[0]", "guard err != nil", "idx state.DposV2VoteRights[*stakeProgramHash]", "idx state.UsedDposV2Votes[*stakeProgramHash]", "guard err != nil"]),
  ("core/transaction/reverttodpostransaction.go : RevertToDPOSTransaction.CheckTransactionInput", ["guard len(t.Inputs()) != 0"]),
  ("core/transaction/reverttodpostransaction.go : RevertToDPOSTransaction.CheckTransactionOutput", ["guard len(t.Outputs()) > math.MaxUint16", "guard len(t.Outputs()) != 0"]),
  ("core/transaction/reverttodpostransaction.go : RevertToDPOSTransaction.CheckAttributeProgram", ["guard len(t.Programs()) != 1", "guard len(t.Attributes()) != 1", "guard len(t.Programs()) == 0", "guard p.Code == nil", "guard len(p.Code) < program.MinProgramCodeSize", "guard p.Parameter == nil"]),
  ("core/transaction/reverttodpostransaction.go : RevertToDPOSTransaction.SpecialContextCheck", ["guard err != nil", "idx t.Programs()[0]"]),
  ("core/transaction/reverttopowtransaction.go : RevertToPOWTransaction.CheckTransactionInput", ["guard len(t.Inputs()) != 0"]),
  ("core/transaction/reverttopowtransaction.go : RevertToPOWTransaction.CheckTransactionOutput", ["guard len(t.Outputs()) > math.MaxUint16", "guard len(t.Outputs()) != 0"]),
  ("core/transaction/reverttopowtransaction.go : RevertToPOWTransaction.CheckAttributeProgram", ["guard len(t.Programs()) != 0 || len(t.Attributes()) != 0"]),
  ("core/transaction/sidechainpowtransaction.go : SideChainPOWTransaction.CheckTransactionInput", ["guard len(t.Inputs()) != 0", "guard len(t.Inputs()) <= 0", "idx existingTxInputs[input.ReferKey()]", "idx existingTxInputs[input.ReferKey()]"]),
  ("core/transaction/sidechainpowtransaction.go : SideChainPOWTransaction.CheckTransactionOutput", ["guard len(t.Outputs()) > math.MaxUint16", "guard len(t.Outputs()) != 1", "idx t.Outputs()[0]", "idx t.Outputs()[0]", "guard len(t.Outputs()) < 1", "guard err != nil", "guard err != nil"]),
  ("core/transaction/sidechainpowtransaction.go : SideChainPOWTransaction.CheckAttributeProgram", ["guard len(t.Programs()) != 0 || len(t.Attributes()) != 0", "guard len(t.Programs()) == 0", "guard p.Code == nil", "guard len(p.Code) < program.MinProgramCodeSize", "guard p.Parameter == nil"]),
  ("core/transaction/sidechainpowtransaction.go : SideChainPOWTransaction.SpecialContextCheck", ["guard arbitrator == nil", "guard err != nil", "guard err != nil", "slice buf.Bytes()[0:68]", "guard err != nil"]),
  ("core/transaction/transactionchecker.go : DefaultChecker.SanityCheck", ["guard err != nil", "guard err != nil", "guard err != nil", "guard err != nil", "guard err != nil", "guard err != nil", "guard err != nil", "guard err != nil", "guard err != nil", "guard err != nil"]),
  ("core/transaction/transactionchecker.go : DefaultChecker.ContextCheck", ["guard err != nil", "guard err != nil", "guard err != nil", "guard err != nil", "guard err != nil", "guard err != nil", "guard cerr != nil", "guard err != nil", "guard err != nil", "guard err != nil", "guard err != nil", "guard err != nil", "guard err != nil", "guard err != nil"]),
  ("core/transaction/transactionchecker.go : DefaultChecker.CheckTransactionInput", ["guard len(txn.Inputs()) <= 0", "idx existingTxInputs[input.ReferKey()]", "idx existingTxInputs[input.ReferKey()]"]),
  ("core/transaction/transactionchecker.go : DefaultChecker.CheckTransactionOutput", ["guard len(txn.Outputs()) > math.MaxUint16", "guard len(txn.Outputs()) < 1", "guard err != nil", "guard err != nil"]),
  ("core/transaction/transactionchecker.go : DefaultChecker.CheckAttributeProgram", ["guard len(tx.Programs()) == 0", "guard p.Code == nil", "guard len(p.Code) < program.MinProgramCodeSize", "guard p.Parameter == nil"]),
  ("core/transaction/transactionchecker.go : DefaultChecker.CheckTransactionFee", ["div fee * 1000 / common.Fixed64(len(buf.Bytes()))"]),
  ("core/transaction/transferassettransaction.go : TransferAssetTransaction.CheckTransactionOutput", ["guard len(t.Outputs()) > math.MaxUint16", "guard len(t.Outputs()) < 1", "guard err != nil", "guard err != nil"]),
  ("core/transaction/transfercrosschainassettransaction.go : TransferCrossChainAssetTransaction.CheckTransactionOutput", ["guard len(t.Outputs()) > math.MaxUint16", "guard len(t.Outputs()) < 1", "guard err != nil", "guard err != nil"]),
  ("core/transaction/transfercrosschainassettransaction.go : TransferCrossChainAssetTransaction.SpecialContextCheck", ["guard err != nil"]),
  ("core/transaction/unregistercrtransaction.go : UnregisterCRTransaction.SpecialContextCheck", ["guard cr == nil", "guard err != nil", "guard err != nil", "idx t.Programs()[0]"]),
  ("core/transaction/updatecrtransaction.go : UpdateCRTransaction.SpecialContextCheck", ["guard err != nil", "guard err != nil", "idx t.Programs()[0]", "guard err != nil", "guard err != nil", "guard cr == nil", "guard err != nil", "idx t.Programs()[0]"]),
  ("core/transaction/updateproducertransaction.go : UpdateProducerTransaction.SpecialContextCheck", ["guard multiSignOwner && len(info.OwnerKey) == crypto.NegativeBigLength", "guard err != nil", "guard err != nil", "guard err != nil", "guard err != nil", "guard err != nil", "guard err != nil", "guard len(t.Programs()) != 1", "idx t.Programs()[0]", "slice t.Programs()[0].Code[2:]", "idx t.Programs()[0]", "idx t.Programs()[0]", "idx t.Programs()[0]", "guard producer == nil", "guard err != nil", "guard err != nil", "guard producer != nil && !bytes.Equal(info.OwnerKey, producer.OwnerPublicKey())"]),
  ("core/transaction/updateversiontransaction.go : UpdateVersionTransaction.CheckTransactionInput", ["guard len(t.Inputs()) != 0"]),
  ("core/transaction/updateversiontransaction.go : UpdateVersionTransaction.CheckTransactionOutput", ["guard len(t.Outputs()) > math.MaxUint16", "guard len(t.Outputs()) != 0"]),
  ("core/transaction/updateversiontransaction.go : UpdateVersionTransaction.CheckAttributeProgram", ["guard len(t.Programs()) != 1", "guard len(t.Attributes()) != 1", "guard len(t.Programs()) == 0", "guard p.Code == nil", "guard len(p.Code) < program.MinProgramCodeSize", "guard p.Parameter == nil"]),
  ("core/transaction/updateversiontransaction.go : UpdateVersionTransaction.SpecialContextCheck", ["guard err != nil", "idx t.Programs()[0]"]),
  ("core/transaction/votesrealwithdrawtx.go : VotesRealWithdrawTransaction.CheckAttributeProgram", ["guard len(t.Programs()) != 0", "guard len(t.Attributes()) != 0"]),
  ("core/transaction/votesrealwithdrawtx.go : VotesRealWithdrawTransaction.SpecialContextCheck", ["guard txsCount != len(t.Outputs()) && txsCount != len(t.Outputs())-1", "idx txs[realReturnVotes.ReturnVotesTXHash]", "idx t.Outputs()[i]", "idx txsMap[realReturnVotes.ReturnVotesTXHash]", "idx txsMap[realReturnVotes.ReturnVotesTXHash]"]),
  ("core/transaction/voting.go : VotingTransaction.CheckTransactionPayload", ["assert t.Payload().(*payload.Voting)"]),
  ("core/transaction/voting.go : VotingTransaction.CheckAttributeProgram", ["guard len(t.Programs()) != 1", "guard t.Programs()[0].Code == nil", "idx t.Programs()[0]", "guard len(t.Programs()[0].Code) < program.MinProgramCodeSize", "idx t.Programs()[0]", "guard t.Programs()[0].Parameter == nil", "idx t.Programs()[0]"]),
  ("core/transaction/voting.go : VotingTransaction.SpecialContextCheck", ["idx t.Programs()[0]", "guard err != nil", "idx voteRights[*stakeProgramHash]", "idx state.UsedDposV2Votes[*stakeProgramHash]", "assert t.Payload().(*payload.Voting)", "guard len(pld.Contents) == 0", "guard err != nil", "guard err != nil", "guard err != nil", "guard err != nil", "guard err != nil", "guard len(pld.RenewalContents) == 0", "guard producer == nil", "guard err != nil", "guard len(vote.Info) != 1 || vote.Info[0].Votes != content.VotesInfo.Votes", "idx vote.Info[0]", "idx vote.Info[0]", "idx vote.Info[0]"]),
  ("core/transaction/withdrawfromsidechaintransaction.go : WithdrawFromSideChainTransaction.CheckTransactionOutput", ["guard len(t.Outputs()) > math.MaxUint16", "guard len(t.Outputs()) < 1", "guard err != nil", "guard err != nil"]),
  ("core/transaction/withdrawfromsidechaintransaction.go : WithdrawFromSideChainTransaction.CheckTransactionPayload", ["idx existingHashs[hash]", "idx existingHashs[hash]"]),
  ("core/transaction/withdrawfromsidechaintransaction.go : WithdrawFromSideChainTransaction.SpecialContextCheck", ["guard err != nil"])
]

/-- block context, confirm and illegal-evidence validators of package blockchain -/
def chainCheckers : List (String × List String) := [
  ("blockchain/blockvalidator.go : BlockChain.CheckBlockSanity", ["guard CheckProofOfWork(&header, b.chainParams.PowConfiguration.PowLimit) != nil", "idx transactions[0]", "slice transactions[1:]", "idx existingTxIDs[txID]", "idx existingTxIDs[txID]", "guard err != nil", "idx existingTxInputs[referKey]", "idx existingTxInputs[referKey]", "guard err != nil", "guard err != nil"]),
  ("blockchain/blockvalidator.go : CheckDuplicateTx", ["assert txn.Payload().(*payload.WithdrawFromSideChain)", "idx existingSideTxs[hash]", "idx existingSideTxs[hash]", "idx existingProducer[producer]", "idx existingProducer[producer]", "idx existingProducerNode[producerNode]", "idx existingProducerNode[producerNode]", "idx existingProducer[producer]", "idx existingProducer[producer]", "idx existingProducerNode[BytesToHexString(producerPayload.NodePublicKey)]", "idx existingProducerNode[producerNode]", "idx existingProducer[producer]", "idx existingProducer[producer]", "idx existingCR[crPayload.CID]", "idx existingCR[crPayload.CID]", "idx existingCR[crPayload.CID]", "idx existingCR[crPayload.CID]", "idx existingCR[unregisterCR.CID]", "idx existingCR[unregisterCR.CID]"]),
  ("blockchain/blockvalidator.go : BlockChain.checkTxsContext", ["for i < len(block.Transactions)", "idx block.Transactions[i]", "guard errCode != nil", "idx block.Transactions[i]", "idx block.Transactions[i]", "idx block.Transactions[i]", "idx block.Transactions[0]", "guard err != nil", "guard err != nil", "guard e != nil"]),
  ("blockchain/blockvalidator.go : BlockChain.CheckBlockContext", ["guard prevNode == nil", "guard err != nil", "slice block.Transactions[1:]", "guard err != nil", "idx b.blockCache[*prevNode.Hash]", "idx b.confirmCache[*prevNode.Hash]", "guard lastBlock.Confirm == nil && recordSponsorExist", "guard lastBlock.Confirm != nil && !recordSponsorExist", "guard err != nil", "guard err != nil", "guard err != nil", "guard err != nil"]),
  ("blockchain/blockvalidator.go : BlockChain.CheckTransactions", ["guard err != nil"]),
  ("blockchain/blockvalidator.go : GetTxFee", ["guard err != nil", "idx feeMap[assetId]"]),
  ("blockchain/blockvalidator.go : GetTxFeeMap", ["idx inputs[output.AssetID]", "idx inputs[output.AssetID]", "idx inputs[output.AssetID]", "idx outputs[v.AssetID]", "idx outputs[v.AssetID]", "idx outputs[v.AssetID]", "idx inputs[outputAssetid]", "idx feeMap[outputAssetid]", "idx feeMap[outputAssetid]", "idx feeMap[inputAssetId]", "idx feeMap[inputAssetId]"]),
  ("blockchain/blockvalidator.go : BlockChain.checkCoinbaseTransactionContext", ["idx coinbase.Outputs()[0]", "idx coinbase.Outputs()[1]", "guard len(coinbase.Outputs()) != 3", "idx coinbase.Outputs()[2]", "idx coinbase.Outputs()[2]", "idx coinbase.Outputs()[0]", "idx coinbase.Outputs()[0]", "idx coinbase.Outputs()[2]", "idx coinbase.Outputs()[0]", "idx coinbase.Outputs()[1]", "guard err != nil"]),
  ("blockchain/blockvalidator.go : CheckCoinbaseArbitratorsReward", ["guard len(rewards) != len(coinbase.Outputs())-2", "for i < len(coinbase.Outputs())", "idx rewards[coinbase.Outputs()[i].ProgramHash]", "idx coinbase.Outputs()[i]", "idx coinbase.Outputs()[i]"]),
  ("blockchain/confirmvalidator.go : ConfirmSanityCheck", ["guard err != nil", "guard err != nil"]),
  ("blockchain/confirmvalidator.go : IllegalConfirmContextCheck", ["idx signers[common.BytesToHexString(vote.Signer)]", "guard len(signers) <= DefaultLedger.Arbitrators.GetArbitersMajorityCount()", "guard err != nil", "guard err != nil"]),
  ("blockchain/confirmvalidator.go : ConfirmContextCheck", ["idx signers[common.BytesToHexString(vote.Signer)]", "guard len(signers) <= DefaultLedger.Arbitrators.GetArbitersMajorityCount()", "guard err != nil", "guard err != nil"]),
  ("blockchain/confirmvalidator.go : checkBlockWithConfirmation", ["guard err != nil", "guard e != nil"]),
  ("blockchain/confirmvalidator.go : PreProcessSpecialTx", ["guard err != nil", "guard err != nil", "assert tx.Payload().(*payload.InactiveArbitrators)", "guard len(inactivePayloads) != 0", "guard err != nil"]),
  ("blockchain/confirmvalidator.go : ProposalCheck", ["guard err != nil", "guard err != nil"]),
  ("blockchain/confirmvalidator.go : ProposalCheckByHeight", ["guard err != nil", "guard err != nil"]),
  ("blockchain/confirmvalidator.go : ProposalSanityCheck", ["guard err != nil", "guard err != nil"]),
  ("blockchain/confirmvalidator.go : IllegalProposalContextCheck", ["guard err != nil"]),
  ("blockchain/confirmvalidator.go : VoteCheck", ["guard err != nil", "guard err != nil"]),
  ("blockchain/confirmvalidator.go : VoteCheckByHeight", ["guard err != nil", "guard err != nil"]),
  ("blockchain/confirmvalidator.go : VoteSanityCheck", ["guard err != nil", "guard err != nil"]),
  ("blockchain/confirmvalidator.go : IllegalVoteContextCheck", ["guard err != nil"]),
  ("blockchain/txvalidator.go : BlockChain.CheckTransactionContext", ["guard contextErr != nil"]),
  ("blockchain/txvalidator.go : BlockChain.CheckVoteOutputs", ["idx programHashes[output.ProgramHash]", "idx programHashes[checkProhash]", "guard err != nil", "guard err != nil", "guard err != nil", "guard err != nil", "guard err != nil"]),
  ("blockchain/txvalidator.go : BlockChain.checkCRImpeachmentContent", ["idx crMembersMap[common.BytesToHexString(cv.Candidate)]"]),
  ("blockchain/txvalidator.go : BlockChain.checkVoteProducerContent", ["idx pds[common.BytesToHexString(cv.Candidate)]"]),
  ("blockchain/txvalidator.go : BlockChain.checkVoteDposV2Content", ["idx pds[common.BytesToHexString(cv.Candidate)]", "guard len(content.CandidateVotes) > outputpayload.MaxDposV2ProducerPerTransaction"]),
  ("blockchain/txvalidator.go : BlockChain.checkVoteCRContent", ["guard len(content.CandidateVotes) > outputpayload.MaxVoteProducersPerTransaction", "guard err != nil", "idx crs[*cid]"]),
  ("blockchain/txvalidator.go : BlockChain.checkVoteCRCProposalContent", ["guard err != nil", "guard proposal == nil || proposal.Status != crstate.CRAgreed"]),
  ("blockchain/txvalidator.go : getCRMembersMap", ["idx crMaps[c.Info.CID.String()]"]),
  ("blockchain/txvalidator.go : CheckTransactionInput", ["guard len(txn.Inputs()) != 1", "idx txn.Inputs()[0]", "idx txn.Inputs()[0]", "idx txn.Inputs()[0]", "guard len(txn.Inputs()) != 0", "guard len(txn.Inputs()) <= 0", "idx existingTxInputs[input.ReferKey()]", "idx existingTxInputs[input.ReferKey()]"]),
  ("blockchain/txvalidator.go : BlockChain.CheckTransactionOutput", ["guard len(txn.Outputs()) > math.MaxUint16", "guard len(txn.Outputs()) < 2", "idx txn.Outputs()[0]", "idx txn.Outputs()[0]", "idx txn.Outputs()[1]", "guard len(txn.Outputs()) == 2 && foundationReward < common.Fixed64(float64(totalReward)*0.3/0.65)", "guard len(txn.Outputs()) != 0", "guard len(txn.Outputs()) != 2", "idx txn.Outputs()[0]", "idx txn.Outputs()[1]", "guard len(txn.Outputs()) != 1", "idx txn.Outputs()[0]", "idx txn.Outputs()[0]", "guard len(txn.Outputs()) < 1", "guard err != nil", "guard err != nil"]),
  ("blockchain/txvalidator.go : CheckOutputProgramHash", ["idx programHash[0]", "guard err != nil", "guard err != nil"]),
  ("blockchain/txvalidator.go : BlockChain.CheckTransactionFee", ["div fee * 1000 / common.Fixed64(len(buf.Bytes()))"]),
  ("blockchain/txvalidator.go : checkTransactionSignature", ["guard err != nil"]),
  ("blockchain/txvalidator.go : CheckAmountPrecise", ["div amount.IntValue() % int64(math.Pow(10, float64(8-precision)))"]),
  ("blockchain/txvalidator.go : CheckDuplicateSidechainTx", ["assert txn.Payload().(*payload.WithdrawFromSideChain)", "idx existingHashs[hash]", "idx existingHashs[hash]"]),
  ("blockchain/txvalidator.go : CheckSideChainPowConsensus", ["guard arbitrator == nil", "guard err != nil", "guard err != nil", "slice buf.Bytes()[0:68]", "guard err != nil"]),
  ("blockchain/txvalidator.go : GetDIDFromCode", ["slice newCode[:len(newCode)-1]", "guard err != nil"]),
  ("blockchain/txvalidator.go : getCode", ["guard err != nil", "guard err != nil"]),
  ("blockchain/txvalidator.go : GetDiDFromPublicKey", ["guard err != nil"]),
  ("blockchain/txvalidator.go : CheckReturnVotesTransactionSignature", ["guard err != nil", "guard err != nil", "guard err != nil"]),
  ("blockchain/txvalidator.go : CheckCRTransactionSignature", ["guard err != nil", "guard err != nil", "guard err != nil"]),
  ("blockchain/txvalidator.go : CheckPayloadSignature", ["guard err != nil"]),
  ("blockchain/txvalidator.go : CheckRevertToDPOSTransaction", ["guard len(txn.Programs()) == 0", "idx txn.Programs()[0]"]),
  ("blockchain/txvalidator.go : CheckSidechainIllegalEvidence", ["guard err != nil", "guard err != nil", "guard len(p.Signs) <= int(DefaultLedger.Arbitrators.GetArbitersMajorityCount())"]),
  ("blockchain/txvalidator.go : CheckInactiveArbitrators", ["guard err != nil", "idx txn.Programs()[0]"]),
  ("blockchain/txvalidator.go : checkArbitratorsSignatures", ["guard len(code) < 2", "idx code[len(code)-2]", "idx code[0]", "div float64(DefaultLedger.Arbitrators.GetArbitersCount()) * state.MajoritySignRatioNumerator / state.MajoritySignRatioDenominator", "guard err != nil", "slice pk[1:]"]),
  ("blockchain/txvalidator.go : checkCRCArbitratorsSignatures", ["guard len(code) < 2", "idx code[len(code)-2]", "idx code[0]", "div float64(crcArbitratorsCount) * state.MajoritySignRatioNumerator / state.MajoritySignRatioDenominator", "guard err != nil", "slice pk[1:]"]),
  ("blockchain/txvalidator.go : CheckDPOSIllegalProposals", ["guard err != nil", "guard err != nil", "guard err != nil", "guard err != nil"]),
  ("blockchain/txvalidator.go : CheckDPOSIllegalVotes", ["guard err != nil", "guard err != nil", "guard err != nil", "guard err != nil", "guard err != nil", "guard err != nil"]),
  ("blockchain/txvalidator.go : CheckDPOSIllegalBlocks", ["guard err != nil", "guard err != nil", "guard err != nil"]),
  ("blockchain/txvalidator.go : checkDPOSElaIllegalBlockSigners", ["guard len(signers) != len(confirm.Votes) || len(compareSigners) != len(compareConfirm.Votes)", "idx arbitratorsSet[pk]", "idx arbitratorsSet[common.BytesToHexString(v)]", "idx arbitratorsSet[common.BytesToHexString(v)]", "idx confirmSigners[common.BytesToHexString(v)]", "idx compareConfirmSigners[common.BytesToHexString(v)]"]),
  ("blockchain/txvalidator.go : checkDPOSElaIllegalBlockConfirms", ["guard err != nil", "guard err != nil", "guard err != nil", "guard err != nil", "guard err != nil", "guard err != nil"]),
  ("blockchain/txvalidator.go : checkDPOSElaIllegalBlockHeaders", ["guard err != nil", "guard err != nil"]),
  ("blockchain/txvalidator.go : getConfirmSigners", ["idx result[common.BytesToHexString(v.Signer)]"]),
  ("blockchain/txvalidator.go : CheckStringField", ["guard (!allowEmpty && len(rawStr) == 0) || len(rawStr) > MaxStringLength"]),
  ("blockchain/txvalidator.go : ValidateProposalEvidence", ["guard err != nil"]),
  ("blockchain/txvalidator.go : ValidateVoteEvidence", ["guard err != nil"])
]


end ElaVerif.C03Expected
