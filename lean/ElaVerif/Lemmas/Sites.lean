import ElaVerif.Model.History
import ElaVerif.Lemmas.History
/-!
Generic theorem behind C21 / C22: a block made of instances of *well-paired* sites — every
location the execute closure may write is restored by the rollback closure to the value captured
on the pre-block state — is inverted by the forward-order rollback of `utils.History`.
-/
namespace ElaVerif.History
variable {L V : Type} [DecidableEq L]

/-- an instance of a well-paired `Append` site on an abstract store `L → V`:
    the execute closure writes only inside `W` (frame condition) -/
structure SiteChange (L V : Type) where
  W : List L
  exec : (L → V) → (L → V)
  frame : ∀ s l, l ∉ W → exec s l = s l

/-- the rollback closure: every location of `W` gets the value captured before the block -/
def restore (pre : L → V) (W : List L) (s : L → V) : L → V := fun l => if l ∈ W then pre l else s l

def SiteChange.toChange (pre : L → V) (sc : SiteChange L V) : Change (L → V) :=
  ⟨sc.exec, restore pre sc.W⟩

theorem undo_sites (pre : L → V) : ∀ (scs : List (SiteChange L V)) (s : L → V) (l : L),
    applyUndo (scs.map (SiteChange.toChange pre)) s l
      = if ∃ sc ∈ scs, l ∈ sc.W then pre l else s l := by
  intro scs
  induction scs with
  | nil => intro s l; simp [applyUndo]
  | cons sc scs ih =>
    intro s l
    simp only [List.map_cons, applyUndo, List.foldl_cons] at ih ⊢
    rw [ih]
    by_cases h1 : ∃ sc' ∈ scs, l ∈ sc'.W
    · have : ∃ sc' ∈ sc :: scs, l ∈ sc'.W := by
        obtain ⟨x, hx, hl⟩ := h1; exact ⟨x, List.mem_cons_of_mem _ hx, hl⟩
      simp [h1, this]
    · by_cases h2 : l ∈ sc.W
      · have : ∃ sc' ∈ sc :: scs, l ∈ sc'.W := ⟨sc, by simp, h2⟩
        simp [h1, this, SiteChange.toChange, restore, h2]
      · have : ¬ ∃ sc' ∈ sc :: scs, l ∈ sc'.W := by
          intro ⟨x, hx, hl⟩
          rcases List.mem_cons.mp hx with rfl | hx
          · exact h2 hl
          · exact h1 ⟨x, hx, hl⟩
        simp [h1, this, SiteChange.toChange, restore, h2]

theorem exec_sites_frame (pre : L → V) : ∀ (scs : List (SiteChange L V)) (s : L → V) (l : L),
    (¬ ∃ sc ∈ scs, l ∈ sc.W) → applyExec (scs.map (SiteChange.toChange pre)) s l = s l := by
  intro scs
  induction scs with
  | nil => intro s l _; simp [applyExec]
  | cons sc scs ih =>
    intro s l h
    simp only [List.map_cons, applyExec, List.foldl_cons] at ih ⊢
    rw [ih]
    · exact sc.frame s l (fun hl => h ⟨sc, by simp, hl⟩)
    · intro ⟨x, hx, hl⟩; exact h ⟨x, List.mem_cons_of_mem _ hx, hl⟩

/-- a block of well-paired site instances capturing the pre-block state is inverted -/
theorem sites_block_inv (h : Nat) (pre : L → V) (scs : List (SiteChange L V)) :
    Inv ⟨h, scs.map (SiteChange.toChange pre)⟩ pre := by
  unfold Inv HeightChanges.rollback HeightChanges.commit
  funext l
  simp only
  rw [undo_sites]
  by_cases h1 : ∃ sc ∈ scs, l ∈ sc.W
  · simp [h1]
  · simp only [h1, if_false]; exact exec_sites_frame pre scs pre l h1

end ElaVerif.History
