import ElaVerif.Model.AuxPow
import ElaVerif.Lemmas.Merkle
/-!
Helper lemmas for the aux-pow model (C10).
-/
namespace ElaVerif.AuxPow
open ElaVerif.Merkle

/-! ### `strings.Index` -/

theorem indexOf_some {needle : List Nat} : ∀ (s : List Nat) (i : Nat), indexOf needle s = some i →
    needle <+: s.drop i ∧ ∀ j < i, ¬ needle <+: s.drop j
  | [], i, h => by
      unfold indexOf at h
      by_cases hn : needle.isEmpty = true
      · simp only [hn, if_true, Option.some.injEq] at h
        subst h
        have : needle = [] := List.isEmpty_iff.mp hn
        subst this
        exact ⟨by simp, by intro j hj; omega⟩
      · simp [hn] at h
  | b :: t, i, h => by
      unfold indexOf at h
      by_cases hp : needle.isPrefixOf (b :: t) = true
      · simp only [hp, if_true, Option.some.injEq] at h
        subst h
        exact ⟨by simpa using List.isPrefixOf_iff_prefix.mp hp, by intro j hj; omega⟩
      · rw [if_neg hp] at h
        cases hr : indexOf needle t with
        | none => simp [hr] at h
        | some k =>
          simp only [hr, Option.map_some, Option.some.injEq] at h
          subst h
          obtain ⟨h1, h2⟩ := indexOf_some t k hr
          refine ⟨by simpa using h1, ?_⟩
          intro j hj
          cases j with
          | zero =>
            intro hh
            exact hp (List.isPrefixOf_iff_prefix.mpr (by simpa using hh))
          | succ j => simpa using h2 j (by omega)

theorem indexOf_none {needle : List Nat} (hne : needle ≠ []) : ∀ (s : List Nat), indexOf needle s = none →
    ∀ j, ¬ needle <+: s.drop j
  | [], _, j => by
      intro hh
      simp only [List.drop_nil, List.prefix_nil] at hh
      exact hne hh
  | b :: t, h, j => by
      unfold indexOf at h
      by_cases hp : needle.isPrefixOf (b :: t) = true
      · simp [hp] at h
      · rw [if_neg hp] at h
        cases hr : indexOf needle t with
        | some k => simp [hr] at h
        | none =>
          cases j with
          | zero =>
            intro hh
            exact hp (List.isPrefixOf_iff_prefix.mpr (by simpa using hh))
          | succ j => simpa using indexOf_none hne t hr j

/-! ### hex encoding -/

theorem toNibbles_length : ∀ bs : Bytes, (toNibbles bs).length = 2 * bs.length
  | [] => rfl
  | _ :: bs => by simp only [toNibbles, List.length_cons, toNibbles_length bs]; omega

theorem toNibbles_drop : ∀ (k : Nat) (bs : Bytes), (toNibbles bs).drop (2 * k) = toNibbles (bs.drop k)
  | 0, _ => rfl
  | k + 1, [] => by simp [toNibbles]
  | k + 1, b :: bs => by
      have : 2 * (k + 1) = (2 * k + 1) + 1 := by omega
      rw [this]
      simp only [toNibbles, List.drop_succ_cons]
      exact toNibbles_drop k bs

theorem byte_of_nibbles (a b : UInt8) (h1 : a.toNat / 16 = b.toNat / 16) (h2 : a.toNat % 16 = b.toNat % 16) :
    a = b := by
  apply UInt8.toNat_inj.mp
  omega

/-- a hex string that starts with the hex form of `a` comes from bytes that start with `a`. -/
theorem prefix_of_toNibbles_prefix : ∀ (a b : Bytes), toNibbles a <+: toNibbles b → a <+: b
  | [], _, _ => List.nil_prefix
  | x :: a, [], h => by simp [toNibbles] at h
  | x :: a, y :: b, h => by
      simp only [toNibbles] at h
      rw [List.cons_prefix_cons, List.cons_prefix_cons] at h
      obtain ⟨h1, h2, h3⟩ := h
      rw [List.cons_prefix_cons]
      exact ⟨byte_of_nibbles x y h1 h2, prefix_of_toNibbles_prefix a b h3⟩

theorem toNibbles_inj : ∀ (a b : Bytes), toNibbles a = toNibbles b → a = b
  | [], [], _ => rfl
  | [], _ :: _, h => by simp [toNibbles] at h
  | _ :: _, [], h => by simp [toNibbles] at h
  | x :: a, y :: b, h => by
      simp only [toNibbles, List.cons.injEq] at h
      rw [byte_of_nibbles x y h.1 h.2.1, toNibbles_inj a b h.2.2]

/-- two prefixes of the same list with the same length are equal -/
theorem prefix_eq_of_length {β : Type} {a b l : List β} (ha : a <+: l) (hb : b <+: l)
    (hl : a.length = b.length) : a = b := by
  have ha' := List.prefix_iff_eq_take.mp ha
  have hb' := List.prefix_iff_eq_take.mp hb
  rw [ha', hb', hl]

/-! ### little-endian reads -/

theorem le32_some (script : Bytes) (off : Nat) (h : off + 4 ≤ script.length) :
    ∃ v, le32 script off = some v := by
  unfold le32
  have hl : (script.drop off).length ≥ 4 := by simp only [List.length_drop]; omega
  match hd : script.drop off, hl with
  | a :: b :: c :: d :: _, _ => exact ⟨_, rfl⟩
  | [], hl => simp at hl
  | [_], hl => simp at hl
  | [_, _], hl => simp at hl
  | [_, _, _], hl => simp at hl

/-! ### branch evaluation -/

theorem branchFold_inj {α : Type} {H : α → α → α} (hinj : Injective2 H) :
    ∀ (br : List α) (idx : Int) (x y : α), branchFold H x br idx = branchFold H y br idx → x = y
  | [], _, _, _, h => h
  | it :: rest, idx, x, y, h => by
      unfold branchFold at h
      have := branchFold_inj hinj rest (idx >>> 1) _ _ h
      by_cases hb : idx % 2 = 1
      · simp only [hb, if_true] at this
        exact (hinj _ _ _ _ this).2
      · simp only [hb, if_false] at this
        exact (hinj _ _ _ _ this).1

/-! ### the marker does not overlap itself at distance one -/

theorem marker_no_overlap_one (s : List Nat) (h : marker <+: s) : ¬ marker <+: s.drop 1 := by
  intro h'
  obtain ⟨t, rfl⟩ := h
  simp [marker] at h'

end ElaVerif.AuxPow
