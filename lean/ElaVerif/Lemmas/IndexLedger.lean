import ElaVerif.Model.Node
import ElaVerif.Lemmas.IndexCongr
/-!
  Last link of C14 for two of the three views: the *direct build* of the persistent-index model
  (`Index.Direct`) answers `GetUnspent` and `GetTransaction` like the UTXO-set ledger obtained by replaying
  the same blocks (`Node.applyBlock`). (The per-address view needs a tx-index/ledger consistency invariant
  on top and is tied by execution only.)
-/
namespace ElaVerif.Index
open ElaVerif.Node ElaVerif.C13

/-- erasing distinct members of a duplicate-free list = filtering them out -/
theorem foldl_erase_eq_filter (I l : List Nat) (hl : l.Nodup) :
    I.foldl (fun l i => l.erase i) l = l.filter (fun x => !I.contains x) := by
  induction I generalizing l with
  | nil => exact (List.filter_eq_self.mpr (by simp)).symm
  | cons i r ih =>
    simp only [List.foldl_cons]
    rw [hl.erase_eq_filter, ih _ (hl.filter _), List.filter_filter]
    congr 1
    funext x
    simp only [List.contains_cons, Bool.not_or, bne_iff_ne, ne_eq]
    by_cases h : x = i
    · subst h; simp
    · have : (x == i) = false := by simp [h]
      simp [h, this, Bool.and_comm]

theorem foldl_swapRemove_perm_filter (I l l' : List Nat) (h : l.Perm l') (hl : l'.Nodup) :
    (I.foldl swapRemove l).Perm (l'.filter (fun x => !I.contains x)) := by
  rw [← foldl_erase_eq_filter I l' hl]
  exact foldl_swapRemove_perm I l l' h

/-- indexes the block creates for transaction id `k` in the ledger -/
def newIdx (b : Block) (k : Nat) : List Nat := ((newEntries b).filter (·.txid == k)).map (·.idx)

theorem unspentOf_applyBlock (L : Ledger) (b : Block) (k : Nat) :
    unspentOf (applyBlock L b) k =
      (unspentOf L k).filter (fun i => !(blockIns b).contains (k, i)) ++ newIdx b k := by
  unfold unspentOf applyBlock newIdx
  simp only [List.filter_append, List.map_append]
  congr 1
  rw [List.filter_filter, List.filter_map, List.filter_filter]
  congr 1
  apply List.filter_congr
  intro e _
  by_cases h : e.txid = k
  · subst h; simp [Function.comp]
  · have : (e.txid == k) = false := by simp [h]
    simp [this]

theorem outsIdx_map_fst (outs : List Out) : (outsIdx outs).map (·.1) = List.range outs.length := by
  unfold outsIdx
  rw [List.map_fst_zip]
  simp

theorem newIdx_tx (tx : Tx) (bh k : Nat) :
    (((outsIdx tx.outs).map fun p => (⟨tx.id, p.1, p.2.addr, p.2.value, bh, tx.kind == .coinbase⟩ : UEntry)).filter
        (·.txid == k)).map (·.idx) =
      if tx.id = k then List.range tx.outs.length else [] := by
  by_cases h : tx.id = k
  · rw [if_pos h]
    rw [List.filter_eq_self.mpr (by intro e he; obtain ⟨p, _, rfl⟩ := List.mem_map.mp he; simp [h])]
    rw [List.map_map]
    have : ((fun e : UEntry => e.idx) ∘ fun p : Nat × Out =>
        (⟨tx.id, p.1, p.2.addr, p.2.value, bh, tx.kind == .coinbase⟩ : UEntry)) = (·.1) := by funext p; rfl
    rw [this, outsIdx_map_fst]
  · rw [if_neg h]
    rw [List.filter_eq_nil_iff.mpr (by intro e he; obtain ⟨p, _, rfl⟩ := List.mem_map.mp he; simp [h])]
    rfl

/-- with distinct transaction ids, the ledger's new indexes for `k` are all outputs of the transaction
    with id `k`, if the block has one -/
theorem newIdx_spec (b : Block) (k : Nat) (hnd : (b.txs.map (·.id)).Nodup) :
    newIdx b k = match b.txs.find? (·.id == k) with
      | some tx => List.range tx.outs.length
      | none => [] := by
  unfold newIdx newEntries
  generalize b.txs = txs at hnd
  induction txs with
  | nil => rfl
  | cons tx r ih =>
    simp only [List.map_cons, List.nodup_cons] at hnd
    simp only [List.flatMap_cons, List.filter_append, List.map_append, newIdx_tx, List.find?_cons]
    by_cases h : tx.id = k
    · subst h
      have hne : ∀ t ∈ r, t.id ≠ tx.id := fun t ht e => hnd.1 (by rw [← e]; exact List.mem_map.mpr ⟨t, ht, rfl⟩)
      have hnone : r.find? (·.id == tx.id) = none := List.find?_eq_none.mpr (fun t ht => by simp [hne t ht])
      have := ih hnd.2
      rw [hnone] at this
      simp only [List.map_eq_nil_iff] at this
      simp [this]
    · have hb : (tx.id == k) = false := by simp [h]
      simp only [h, if_false, hb, List.nil_append]
      exact ih hnd.2

theorem find?_id_of_mem (txs : List Tx) (tx0 : Tx) (h : tx0 ∈ txs) (hnd : (txs.map (·.id)).Nodup) :
    txs.find? (·.id == tx0.id) = some tx0 := by
  induction txs with
  | nil => cases h
  | cons t r ih =>
    simp only [List.map_cons, List.nodup_cons] at hnd
    rw [List.find?_cons]
    rcases List.mem_cons.mp h with e | hm
    · subst e; simp
    · have : t.id ≠ tx0.id := fun e => hnd.1 (e ▸ List.mem_map.mpr ⟨tx0, hm, rfl⟩)
      have hb : (t.id == tx0.id) = false := by simp [this]
      rw [hb]
      exact ih hm hnd.2

/-- the unspent index and the ledger answer `GetUnspent` alike, and no ledger outpoint occurs twice -/
structure AbsU (s : State) (L : Ledger) : Prop where
  unspent : ∀ t, (getUnspent s t).Perm (unspentOf L t)
  nodup : ∀ t, (unspentOf L t).Nodup

theorem absU_connect {d d1 : State} {L : Ledger} {b : Block} (hv : ValidOn d b)
    (hreg0 : ∀ tx ∈ b.txs, tx.kind = .registerAsset → tx.outs = [])
    (hc : connect d b = .ok d1) (ha : AbsU d L) : AbsU d1 (applyBlock L b) := by
  obtain ⟨_, _, _, hunv, _, _, _, _, _⟩ := connect_vals hv hc
  have hfilt : ∀ k, (unspentOf L k).filter (fun i => !(blockIns b).contains (k, i)) =
      (unspentOf L k).filter (fun x => !(insAt b k).contains x) := by
    intro k
    apply List.filter_congr
    intro i _
    have : (blockIns b).contains (k, i) = (insAt b k).contains i := by
      rw [Bool.eq_iff_iff]
      simp only [List.contains_eq_mem, decide_eq_true_eq]
      exact (mem_insAt (b := b) (k := k) (i := i)).symm
    rw [this]
  have hkey : ∀ k, (k ∈ createIds b → ∃ tx0 ∈ b.txs, creates tx0 = true ∧ tx0.id = k ∧
        getUnspent d1 k = List.range tx0.outs.length ∧ unspentOf L k = [] ∧ newIdx b k = List.range tx0.outs.length) ∧
      (k ∉ createIds b → newIdx b k = []) := by
    intro k
    constructor
    · intro hk
      obtain ⟨tx0, htx, hcr, rfl⟩ := mem_createIds.mp hk
      refine ⟨tx0, htx, hcr, rfl, connect_created_val hv hc tx0 htx hcr, ?_, ?_⟩
      · have := ha.unspent tx0.id
        rw [(hv.ids_fresh tx0 htx).2] at this
        exact this.symm.eq_nil
      · rw [newIdx_spec b _ hv.ids_nodup, find?_id_of_mem b.txs tx0 htx hv.ids_nodup]
    · intro hk
      rw [newIdx_spec b k hv.ids_nodup]
      cases hf : b.txs.find? (·.id == k) with
      | none => rfl
      | some tx =>
        have hmem := List.mem_of_find?_eq_some hf
        have hid : tx.id = k := by simpa using List.find?_some hf
        simp only
        have : tx.outs = [] := by
          by_cases hr : tx.kind = .registerAsset
          · exact hreg0 tx hmem hr
          · cases ho : tx.outs with
            | nil => rfl
            | cons a r =>
              exact absurd (mem_createIds.mpr ⟨tx, hmem, by simp [creates, hr, ho], hid⟩) hk
        rw [this]; rfl
  refine ⟨fun k => ?_, fun k => ?_⟩
  · rw [unspentOf_applyBlock, hfilt]
    by_cases hk : k ∈ createIds b
    · obtain ⟨tx0, _, _, _, h1, h2, h3⟩ := (hkey k).1 hk
      rw [h1, h2, h3]; simp
    · rw [(hkey k).2 hk, List.append_nil, hunv k, if_neg hk]
      exact foldl_swapRemove_perm_filter _ _ _ (ha.unspent k) (ha.nodup k)
  · rw [unspentOf_applyBlock]
    by_cases hk : k ∈ createIds b
    · obtain ⟨tx0, _, _, _, _, h2, h3⟩ := (hkey k).1 hk
      rw [h2, h3]; simpa using List.nodup_range
    · rw [(hkey k).2 hk, List.append_nil]
      exact (ha.nodup k).filter _

/-- the direct build answers `GetUnspent` like the replayed ledger -/
theorem direct_absU {s0 d : State} {L0 : Ledger} {st : List Block} (h : Direct s0 st d) (ha : AbsU s0 L0)
    (hreg0 : ∀ b ∈ st, ∀ tx ∈ b.txs, tx.kind = .registerAsset → tx.outs = []) :
    AbsU d (st.reverse.foldl applyBlock L0) := by
  induction h with
  | nil => exact ha
  | cons hd hv hc ih =>
    rw [List.reverse_cons, List.foldl_append]
    exact absU_connect hv (hreg0 _ (List.mem_cons_self ..)) hc
      (ih (fun b hb => hreg0 b (List.mem_cons_of_mem _ hb)))

/-! ### transaction lookup -/

theorem get_txConnect_height (txs : List Tx) (bh : Nat) (m : Map Nat (Nat × List Out)) (k : Nat)
    (hk : k ∈ txs.map (·.id)) :
    ((txs.foldl (fun m tx => m.put tx.id (bh, tx.outs)) m).get k).map (·.1) = some bh := by
  induction txs generalizing m with
  | nil => cases hk
  | cons tx r ih =>
    simp only [List.foldl_cons]
    by_cases hr : k ∈ r.map (·.id)
    · exact ih _ hr
    · rw [get_txConnect_not_mem r bh _ k hr, Map.get_put]
      have : tx.id = k := by
        simp only [List.map_cons, List.mem_cons] at hk
        rcases hk with h | h
        · exact h.symm
        · exact absurd h hr
      simp [this]

/-- the tx index and the ledger answer `GetTransaction` (height) alike -/
def AbsT (s : State) (L : Ledger) : Prop := ∀ t, (s.txs.get t).map (·.1) = txHeight L t

theorem txHeight_applyBlock (L : Ledger) (b : Block) (t : Nat) :
    txHeight (applyBlock L b) t =
      match txHeight L t with
      | some h => some h
      | none => if t ∈ b.txs.map (·.id) then some b.height else none := by
  unfold txHeight applyBlock
  simp only [List.find?_append]
  cases hf : L.txs.find? (·.1 == t) with
  | some p => simp
  | none =>
    simp only [Option.none_or, Option.map_none]
    by_cases hm : t ∈ b.txs.map (·.id)
    · rw [if_pos hm]
      obtain ⟨tx, htx, rfl⟩ := List.mem_map.mp hm
      cases hg : (b.txs.map fun tx => (tx.id, b.height)).find? (·.1 == tx.id) with
      | none =>
        have := List.find?_eq_none.mp hg (tx.id, b.height) (List.mem_map.mpr ⟨tx, htx, rfl⟩)
        simp at this
      | some p =>
        have hp := List.mem_of_find?_eq_some hg
        obtain ⟨tx', _, rfl⟩ := List.mem_map.mp hp
        rfl
    · rw [if_neg hm]
      have : (b.txs.map fun tx => (tx.id, b.height)).find? (·.1 == t) = none := by
        apply List.find?_eq_none.mpr
        intro p hp
        obtain ⟨tx', htx', rfl⟩ := List.mem_map.mp hp
        have : tx'.id ≠ t := fun e => hm (e ▸ List.mem_map.mpr ⟨tx', htx', rfl⟩)
        simp [this]
      rw [this]; rfl

theorem absT_connect {d d1 : State} {L : Ledger} {b : Block} (hv : ValidOn d b)
    (hc : connect d b = .ok d1) (ha : AbsT d L) : AbsT d1 (applyBlock L b) := by
  obtain ⟨_, _, htxs, _⟩ := connect_vals hv hc
  intro t
  rw [htxs, txHeight_applyBlock, ← ha t]
  by_cases hm : t ∈ b.txs.map (·.id)
  · obtain ⟨tx, htx, rfl⟩ := List.mem_map.mp hm
    have hfresh := (hv.ids_fresh tx htx).1
    unfold txConnect
    rw [get_txConnect_height b.txs b.height d.txs tx.id hm, hfresh]
    simp [hm]
  · unfold txConnect
    rw [get_txConnect_not_mem b.txs b.height d.txs t hm]
    cases d.txs.get t with
    | none => simp [hm]
    | some p => simp

theorem direct_absT {s0 d : State} {L0 : Ledger} {st : List Block} (h : Direct s0 st d) (ha : AbsT s0 L0) :
    AbsT d (st.reverse.foldl applyBlock L0) := by
  induction h with
  | nil => exact ha
  | cons hd hv hc ih =>
    rw [List.reverse_cons, List.foldl_append]
    exact absT_connect hv hc ih

end ElaVerif.Index
