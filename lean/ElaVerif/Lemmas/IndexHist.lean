import ElaVerif.Model.Index
import ElaVerif.Lemmas.Index
/-!
  Value specifications of the two list indexes for an *arbitrary* pre-state (not only the state a
  connect has just produced), and their invariance under reordering of the stored lists. Used to lift
  `C13_inverse` over whole histories (C14).
-/
namespace ElaVerif.Index

/-- `UnspentIndex.DisconnectBlock` on any index in which every entry the block created is present -/
theorem unspentDisconnect_val (b : Block) (un1 : Map Nat (List Nat))
    (hreg : ∀ tx ∈ b.txs, tx.kind = .registerAsset → tx.ins = [])
    (hnd : (b.txs.map (·.id)).Nodup)
    (hcval : ∀ id ∈ createIds b, (un1.get id).getD [] ≠ [])
    (hdisj : ∀ p ∈ allIns b, p.1 ∉ createIds b) :
    ∃ un2, unspentDisconnect b un1 = .ok un2 ∧
      ∀ k, (un2.get k).getD [] = if k ∈ createIds b then [] else (un1.get k).getD [] ++ insAt b k := by
  have hrm : dRemoves (blockDOps b) = createIds b := dRemoves_blockDOps b
  have hrs : dRestores (blockDOps b) = allIns b := dRestores_blockDOps b hreg
  have hcnd : (createIds b).Nodup := by
    unfold createIds
    exact List.Nodup.sublist ((List.filter_sublist (l := b.txs)).map _) hnd
  obtain ⟨db', u', hf, hdb, hu⟩ := dfold_ok (blockDOps b) un1 []
    (hrm ▸ hcnd) (by rw [hrm]; exact hcval) (by rw [hrs, hrm]; exact hdisj)
  rw [hrm] at hdb
  rw [hrs] at hu
  have hnt' : ∀ k, u'.find? k ≠ some none := by
    intro k; rw [hu]; exact foldl_kstep_ne_tomb _ _ _ _ (by simp)
  have hfilt : ∀ k, ((allIns b).map uRestore).filter (fun op => op.key = k) =
      ((allIns b).filter (fun p => p.1 = k)).map uRestore := by
    intro k; rw [List.filter_map]; rfl
  have hval' : ∀ k, cval (u'.find? k) ((un1.get k).getD []) = (un1.get k).getD [] ++ insAt b k := by
    intro k
    rw [hu, foldl_kstep_filter]
    have := foldl_kstep_same ((un1.get k).getD []) k
      (((allIns b).map uRestore).filter (fun op => op.key = k)) (Map.find? [] k)
      (fun op ho => by simpa using (List.mem_filter.mp ho).2)
      (Or.inl (fun op ho => by
        obtain ⟨p, _, rfl⟩ := List.mem_map.mp (List.mem_filter.mp ho).1
        rfl))
    rw [this, hfilt, applyOps_uRestore]
    rfl
  have hnokey : ∀ k, insAt b k = [] → u'.find? k = none := by
    intro k hk
    rw [hu]
    rw [foldl_kstep_no_key]
    · rfl
    · intro op hop e
      obtain ⟨p, hp, rfl⟩ := List.mem_map.mp hop
      have : p.2 ∈ insAt b k := mem_insAt.mpr (by
        have h1 : p.1 = k := e
        have : p = (k, p.2) := Prod.ext h1 rfl
        rw [← this]; exact hp)
      rw [hk] at this
      cases this
  have hdisc : uFlushErr db' u' = false := by
    unfold uFlushErr
    rw [List.any_eq_false]
    intro k hk hboth
    have hk' := (Map.mem_keys _ k).mp hk
    have hb : ((u'.get k).getD [] = []) ∧ ((db'.get k).getD [] = []) := by simpa using hboth
    have h1 : (u'.get k).getD [] = cval (u'.find? k) ((un1.get k).getD []) := by
      unfold Map.get cval
      cases hfk : u'.find? k with
      | none => exact absurd hfk hk'
      | some v => rfl
    rw [h1, hval'] at hb
    have : insAt b k = [] := (List.append_eq_nil_iff.mp hb.1).2
    exact hk' (hnokey k this)
  have hd1 : unspentDisconnect b un1 = .ok (flush true db' u') := by
    unfold unspentDisconnect
    rw [hf]
    simp [Res.bind, hdisc]
  refine ⟨_, hd1, ?_⟩
  intro k
  rw [getD_flush _ _ _ _ (hnt' k), hdb]
  by_cases hk : k ∈ createIds b
  · rw [if_pos hk, if_pos hk]
    have : insAt b k = [] := by
      apply List.eq_nil_iff_forall_not_mem.mpr
      intro i hi
      exact hdisj _ (mem_insAt.mp hi) hk
    rw [hnokey _ this]
    rfl
  · rw [if_neg hk, if_neg hk, hval']

/-- entries the block pays to address `a` (its own bucket `(a, height)`), in block order -/
def addsAt (ref : Nat × Nat → Nat × Out) (b : Block) (κ : Nat × Nat) : List AOp :=
  (b.txs.flatMap (pureConnOps ref b.height)).filter fun op => op.key = κ
def discAt (ref : Nat × Nat → Nat × Out) (b : Block) (κ : Nat × Nat) : List AOp :=
  (b.txs.flatMap (pureDiscOps ref b.height)).filter fun op => op.key = κ

/-- `UtxoIndex.ConnectBlock`, value of every bucket, for any state in which the inputs resolve -/
theorem utxoConnect_val (s : State) (b : Block) (ref : Nat × Nat → Nat × Out)
    (hrefs : ∀ p ∈ allIns b, resolve (fetchTxConn s b) p = .ok (ref p)) :
    ∃ ut1, utxoConnect s b = .ok ut1 ∧
      ∀ κ, (ut1.get κ).getD [] = applyOps (addsAt ref b κ) ((s.utxo.get κ).getD []) := by
  have hc : utxoConnect s b =
      .ok (flush false s.utxo (batch s.utxo (b.txs.flatMap (pureConnOps ref b.height)))) := by
    unfold utxoConnect
    rw [Res.mapM_ok (pureConnOps ref b.height) _ (fun tx htx =>
      txAConnOps_ok ref b.height _ tx (fun p hp => hrefs p (mem_allIns_of_txIns htx hp)))]
    simp [Res.bind, List.flatMap_def]
  refine ⟨_, hc, ?_⟩
  intro κ
  have hnt1 : (batch s.utxo (b.txs.flatMap (pureConnOps ref b.height))).find? κ ≠ some none := by
    unfold batch; exact find?_foldl_bstep_ne_tomb _ _ _ _ (by simp)
  rw [getD_flush _ _ _ _ hnt1]
  exact cval_batch _ _ _ (Or.inl (fun op ho _ => readDb_pureConnOps ref b.height b.txs op ho))

/-- `UtxoIndex.DisconnectBlock`, value of every bucket, for any state in which the inputs resolve to
    earlier heights -/
theorem utxoDisconnect_val (s1 : State) (b : Block) (ref : Nat × Nat → Nat × Out)
    (hrefs : ∀ p ∈ allIns b, resolve s1.txs.get p = .ok (ref p))
    (hh : ∀ p ∈ allIns b, (ref p).1 ≠ b.height) :
    ∃ ut2, utxoDisconnect s1 b = .ok ut2 ∧
      ∀ κ, (ut2.get κ).getD [] =
        if κ.2 = b.height then (if discAt ref b κ = [] then (s1.utxo.get κ).getD [] else [])
        else (s1.utxo.get κ).getD [] ++
          ((((b.txs.flatMap txIns).filter fun p => refKey ref p = κ).map (toRIn ref)).filter fun j => j.2 ≠ 0).map rEntry := by
  have hd : utxoDisconnect s1 b = .ok (flush false s1.utxo (batch s1.utxo (b.txs.flatMap (pureDiscOps ref b.height)))) := by
    unfold utxoDisconnect
    rw [Res.mapM_ok (pureDiscOps ref b.height) _ (fun tx htx =>
      txADiscOps_ok ref b.height _ tx (fun p hp => hrefs p (mem_allIns_of_txIns htx hp)))]
    simp [Res.bind, List.flatMap_def]
  refine ⟨_, hd, ?_⟩
  intro κ
  have hnt2 : (batch s1.utxo (b.txs.flatMap (pureDiscOps ref b.height))).find? κ ≠ some none := by
    unfold batch; exact find?_foldl_bstep_ne_tomb _ _ _ _ (by simp)
  rw [getD_flush _ _ _ _ hnt2]
  by_cases hκ : κ.2 = b.height
  · rw [if_pos hκ]
    unfold batch
    rw [find?_foldl_bstep, foldl_kstep_filter]
    by_cases hcl : discAt ref b κ = []
    · rw [if_pos hcl]
      unfold discAt at hcl
      rw [hcl]
      simp [cval]
    · rw [if_neg hcl]
      have hall : ∀ op ∈ discAt ref b κ, ∀ x, op.f x = [] := by
        intro op hop x
        unfold discAt at hop
        have hk' : op.key = κ := by simpa using (List.mem_filter.mp hop).2
        obtain ⟨tx, htx, h⟩ := List.mem_flatMap.mp (List.mem_filter.mp hop).1
        unfold pureDiscOps at h
        rcases List.mem_append.mp h with h | h
        · obtain ⟨o, _, rfl⟩ := List.mem_map.mp h; rfl
        · obtain ⟨l, hl, hol⟩ := List.mem_flatten.mp h
          obtain ⟨p, hp, rfl⟩ := List.mem_map.mp hl
          by_cases hz : (ref p).2.value = 0
          · simp [hz] at hol
          · simp only [hz, if_false, List.mem_singleton] at hol
            subst hol
            have h1 : (ref p).1 = κ.2 := by rw [← hk']; rfl
            exact absurd (h1.trans hκ) (hh p (mem_allIns_of_txIns htx hp))
      exact cval_foldl_kstep_const _ _ _ _ hcl (fun op ho => by
        simpa using (List.mem_filter.mp ho).2) hall
  · rw [if_neg hκ]
    have hro : ∀ op ∈ b.txs.flatMap (pureDiscOps ref b.height), op.key = κ → op.readDb = true := by
      intro op hop hk
      obtain ⟨tx, _, h⟩ := List.mem_flatMap.mp hop
      unfold pureDiscOps at h
      rcases List.mem_append.mp h with h | h
      · obtain ⟨o, _, rfl⟩ := List.mem_map.mp h
        exact absurd (by rw [← hk]; rfl) hκ
      · obtain ⟨l, hl, hol⟩ := List.mem_flatten.mp h
        obtain ⟨p, _, rfl⟩ := List.mem_map.mp hl
        by_cases hz : (ref p).2.value = 0
        · simp [hz] at hol
        · simp only [hz, if_false, List.mem_singleton] at hol
          subst hol; rfl
    rw [cval_batch _ _ _ (Or.inl hro), applyOps_disc_filter ref b.height b.txs κ hκ]

end ElaVerif.Index
