import Mathlib.Tactic.Linarith
import Mathlib.Tactic.NormNum
import Mathlib.Tactic.Positivity
import Mathlib.Algebra.Order.Floor.Ring
import Mathlib.Data.Rat.Floor
import Mathlib.Tactic.FieldSimp
/-!
  FloatModel — the standard model of binary64 rounding over ℚ, and what it implies for the two
  places where the node computes money with floats:

  * C11: `Fixed64(math.Ceil(float64(total) * 0.3))` and `… * 0.35`   (coinbase shares)
  * C27: `Fixed64(math.Floor(float64(reward)*0.25 / float64(N)))`,
         `Fixed64(math.Floor(float64(votes) * ((float64(reward) - float64(reward)*0.25) / float64(totalVotes))))`

  `fl : ℚ → ℚ` is an ARBITRARY rounding operator; the only hypothesis is the standard model
  `|fl x − x| ≤ 2⁻⁵³·|x|` (IEEE-754 round-to-nearest satisfies it in the normal range; that Go's
  float64 `*`, `/`, `-` are such roundings of the exact result is the trusted part).  Integers below
  2⁵³ convert exactly, `math.Ceil`/`math.Floor` and the conversion back are exact in range.
  The constants are the exact binary64 values of the literals (tied to the compiler by regenerated
  `math.Float64bits` values, lemmas in Props/C11.lean).
-/
namespace ElaVerif.FloatModel

/-- unit roundoff of binary64 -/
def u : ℚ := 1 / 2 ^ 53

def StdModel (fl : ℚ → ℚ) : Prop := ∀ x, |fl x - x| ≤ u * |x|

theorem u_pos : 0 < u := by unfold u; positivity

theorem fl_lower {fl : ℚ → ℚ} (h : StdModel fl) {x : ℚ} (hx : 0 ≤ x) : x - u * x ≤ fl x := by
  have := (abs_le.mp (h x)).1
  rw [abs_of_nonneg hx] at this
  linarith

theorem fl_upper {fl : ℚ → ℚ} (h : StdModel fl) {x : ℚ} (hx : 0 ≤ x) : fl x ≤ x + u * x := by
  have := (abs_le.mp (h x)).2
  rw [abs_of_nonneg hx] at this
  linarith

theorem fl_nonneg {fl : ℚ → ℚ} (h : StdModel fl) {x : ℚ} (hx : 0 ≤ x) : 0 ≤ fl x := by
  have h1 := fl_lower h hx
  have : u * x ≤ x := by
    have : u ≤ 1 := by unfold u; norm_num
    nlinarith
  linarith

/-- binary64 value of the literal `0.3`  (0x3FD3333333333333) -/
def c30 : ℚ := 5404319552844595 / 2 ^ 54
/-- binary64 value of the literal `0.35` (0x3FD6666666666666) -/
def c35 : ℚ := 6305039478318694 / 2 ^ 54

/-- `Fixed64(math.Ceil(float64(t) * c))` for `0 ≤ t < 2⁵³` -/
def ceilShare (fl : ℚ → ℚ) (c : ℚ) (t : ℤ) : ℤ := ⌈fl ((t : ℚ) * c)⌉

/-- the 30 % share is never below 30 % and less than 1.1 sela above it (totals below 2⁵⁰) -/
theorem share30_bounds (fl : ℚ → ℚ) (h : StdModel fl) (t : ℤ) (h0 : 0 ≤ t) (h1 : t < 2 ^ 50) :
    3 * t ≤ 10 * ceilShare fl c30 t ∧ 10 * ceilShare fl c30 t ≤ 3 * t + 10 := by
  have t0 : (0 : ℚ) ≤ (t : ℚ) := by exact_mod_cast h0
  have t1 : (t : ℚ) < 2 ^ 50 := by exact_mod_cast h1
  have hx : (0 : ℚ) ≤ (t : ℚ) * c30 := by unfold c30; positivity
  have lo := fl_lower h hx
  have hi := fl_upper h hx
  have c1 := Int.le_ceil (fl ((t : ℚ) * c30))
  have c2 := Int.ceil_lt_add_one (fl ((t : ℚ) * c30))
  unfold ceilShare
  set cs : ℤ := ⌈fl ((t : ℚ) * c30)⌉ with hcs
  unfold c30 u at *
  constructor
  · have : ((3 * t - 1 : ℤ) : ℚ) < ((10 * cs : ℤ) : ℚ) := by
      push_cast
      norm_num at *
      linarith
    have := Int.cast_lt.mp this
    omega
  · have : ((10 * cs : ℤ) : ℚ) < ((3 * t + 11 : ℤ) : ℚ) := by
      push_cast
      norm_num at *
      linarith
    have := Int.cast_lt.mp this
    omega

/-- the 35 % share is within 1.07 sela of 35 % (it can be below: the binary64 `0.35` is smaller
    than 35 %) -/
theorem share35_bounds (fl : ℚ → ℚ) (h : StdModel fl) (t : ℤ) (h0 : 0 ≤ t) (h1 : t < 2 ^ 50) :
    35 * t - 6 ≤ 100 * ceilShare fl c35 t ∧ 100 * ceilShare fl c35 t ≤ 35 * t + 106 := by
  have t0 : (0 : ℚ) ≤ (t : ℚ) := by exact_mod_cast h0
  have t1 : (t : ℚ) < 2 ^ 50 := by exact_mod_cast h1
  have hx : (0 : ℚ) ≤ (t : ℚ) * c35 := by unfold c35; positivity
  have lo := fl_lower h hx
  have hi := fl_upper h hx
  have c1 := Int.le_ceil (fl ((t : ℚ) * c35))
  have c2 := Int.ceil_lt_add_one (fl ((t : ℚ) * c35))
  unfold ceilShare
  set cs : ℤ := ⌈fl ((t : ℚ) * c35)⌉ with hcs
  unfold c35 u at *
  constructor
  · have : ((35 * t - 7 : ℤ) : ℚ) < ((100 * cs : ℤ) : ℚ) := by
      push_cast
      norm_num at *
      linarith
    have := Int.cast_lt.mp this
    omega
  · have : ((100 * cs : ℤ) : ℚ) < ((35 * t + 107 : ℤ) : ℚ) := by
      push_cast
      norm_num at *
      linarith
    have := Int.cast_lt.mp this
    omega

/-! ### C27: the quantities of distributeWithNormalArbitratorsV* -/

/-- `float64(reward) * 0.25` -/
def tbcQ (fl : ℚ → ℚ) (R : ℤ) : ℚ := fl ((R : ℚ) * (1 / 4))
/-- `float64(reward) - totalBlockConfirmReward` -/
def ttpQ (fl : ℚ → ℚ) (R : ℤ) : ℚ := fl ((R : ℚ) - tbcQ fl R)
/-- `Fixed64(math.Floor(totalBlockConfirmReward / float64(N)))` -/
def ibcQ (fl : ℚ → ℚ) (R N : ℤ) : ℤ := ⌊fl (tbcQ fl R / (N : ℚ))⌋
/-- `totalTopProducersReward / float64(totalVotes)` -/
def rpvQ (fl : ℚ → ℚ) (R T : ℤ) : ℚ := fl (ttpQ fl R / (T : ℚ))
/-- `Fixed64(math.Floor(float64(votes) * rewardPerVote))` -/
def shareQ (fl : ℚ → ℚ) (R T v : ℤ) : ℤ := ⌊fl ((v : ℚ) * rpvQ fl R T)⌋

section
variable {fl : ℚ → ℚ} (h : StdModel fl) {R N T : ℤ} (hR0 : 0 ≤ R) (hN : 0 < N) (hT : 0 < T)
include h hR0

theorem tbc_bounds : (R : ℚ) / 4 - u * ((R : ℚ) / 4) ≤ tbcQ fl R ∧ tbcQ fl R ≤ (R : ℚ) / 4 + u * ((R : ℚ) / 4) := by
  have r0 : (0 : ℚ) ≤ (R : ℚ) := by exact_mod_cast hR0
  have hx : (0 : ℚ) ≤ (R : ℚ) * (1 / 4) := by positivity
  have lo := fl_lower h hx
  have hi := fl_upper h hx
  unfold tbcQ
  constructor <;> linarith

theorem tbc_nonneg : 0 ≤ tbcQ fl R := by
  have r0 : (0 : ℚ) ≤ (R : ℚ) := by exact_mod_cast hR0
  exact fl_nonneg h (by positivity)

theorem rest_nonneg : 0 ≤ (R : ℚ) - tbcQ fl R := by
  have r0 : (0 : ℚ) ≤ (R : ℚ) := by exact_mod_cast hR0
  have := (tbc_bounds h hR0).2
  unfold u at this
  norm_num at this
  linarith

theorem ttp_nonneg : 0 ≤ ttpQ fl R := fl_nonneg h (rest_nonneg h hR0)

theorem ttp_upper : ttpQ fl R ≤ ((R : ℚ) - tbcQ fl R) + u * ((R : ℚ) - tbcQ fl R) :=
  fl_upper h (rest_nonneg h hR0)

include hN in
theorem ibc_nonneg : 0 ≤ ibcQ fl R N := by
  unfold ibcQ
  apply Int.floor_nonneg.mpr
  have n0 : (0 : ℚ) < (N : ℚ) := by exact_mod_cast hN
  exact fl_nonneg h (div_nonneg (tbc_nonneg h hR0) n0.le)

include hN in
/-- `n` block-confirm parts, `n ≤ N` seats, never exceed the (rounded) quarter -/
theorem ibc_total (n : ℤ) (hn0 : 0 ≤ n) (hn : n ≤ N) :
    ((n * ibcQ fl R N : ℤ) : ℚ) ≤ tbcQ fl R + u * tbcQ fl R := by
  have n0 : (0 : ℚ) < (N : ℚ) := by exact_mod_cast hN
  have hq : (0 : ℚ) ≤ tbcQ fl R / (N : ℚ) := div_nonneg (tbc_nonneg h hR0) n0.le
  have h1 : ((ibcQ fl R N : ℤ) : ℚ) ≤ tbcQ fl R / N + u * (tbcQ fl R / N) := by
    unfold ibcQ
    exact le_trans (Int.floor_le _) (fl_upper h hq)
  have hi0 : (0 : ℚ) ≤ ((ibcQ fl R N : ℤ) : ℚ) := by exact_mod_cast ibc_nonneg h hR0 hN
  have hnN : (n : ℚ) ≤ (N : ℚ) := by exact_mod_cast hn
  have s1 : (n : ℚ) * (ibcQ fl R N : ℚ) ≤ (N : ℚ) * (ibcQ fl R N : ℚ) := mul_le_mul_of_nonneg_right hnN hi0
  have s2 : (N : ℚ) * (ibcQ fl R N : ℚ) ≤ (N : ℚ) * (tbcQ fl R / N + u * (tbcQ fl R / N)) :=
    mul_le_mul_of_nonneg_left h1 n0.le
  have s3 : (N : ℚ) * (tbcQ fl R / N + u * (tbcQ fl R / N)) = tbcQ fl R + u * tbcQ fl R := by
    field_simp
  push_cast
  linarith

include hT in
theorem rpv_nonneg : 0 ≤ rpvQ fl R T := by
  have t0 : (0 : ℚ) < (T : ℚ) := by exact_mod_cast hT
  exact fl_nonneg h (div_nonneg (ttp_nonneg h hR0) t0.le)

include hT in
theorem rpv_total : (T : ℚ) * rpvQ fl R T ≤ ttpQ fl R + u * ttpQ fl R := by
  have t0 : (0 : ℚ) < (T : ℚ) := by exact_mod_cast hT
  have hq : (0 : ℚ) ≤ ttpQ fl R / (T : ℚ) := div_nonneg (ttp_nonneg h hR0) t0.le
  have h1 : rpvQ fl R T ≤ ttpQ fl R / T + u * (ttpQ fl R / T) := fl_upper h hq
  have s2 := mul_le_mul_of_nonneg_left h1 t0.le
  have s3 : (T : ℚ) * (ttpQ fl R / T + u * (ttpQ fl R / T)) = ttpQ fl R + u * ttpQ fl R := by
    field_simp
  linarith

include hT in
theorem share_nonneg (v : ℤ) (hv : 0 ≤ v) : 0 ≤ shareQ fl R T v := by
  unfold shareQ
  apply Int.floor_nonneg.mpr
  have v0 : (0 : ℚ) ≤ (v : ℚ) := by exact_mod_cast hv
  exact fl_nonneg h (mul_nonneg v0 (rpv_nonneg h hR0 hT))

include hT in
theorem share_upper (v : ℤ) (hv : 0 ≤ v) :
    ((shareQ fl R T v : ℤ) : ℚ) ≤ (v : ℚ) * (rpvQ fl R T + u * rpvQ fl R T) := by
  have v0 : (0 : ℚ) ≤ (v : ℚ) := by exact_mod_cast hv
  have hx : (0 : ℚ) ≤ (v : ℚ) * rpvQ fl R T := mul_nonneg v0 (rpv_nonneg h hR0 hT)
  unfold shareQ
  have := le_trans (Int.floor_le _) (fl_upper h hx)
  linarith

include hT in
/-- all vote shares together -/
theorem shares_total (vs : List ℤ) (hv : ∀ v ∈ vs, 0 ≤ v) :
    (((vs.map (shareQ fl R T)).sum : ℤ) : ℚ) ≤ ((vs.sum : ℤ) : ℚ) * (rpvQ fl R T + u * rpvQ fl R T) := by
  induction vs with
  | nil => simp
  | cons v vs ih =>
    have h1 := share_upper h hR0 hT v (hv v (by simp))
    have h2 := ih (fun w hw => hv w (by simp [hw]))
    simp only [List.map_cons, List.sum_cons]
    push_cast
    push_cast at h2
    linarith

include hN hT in
/-- **The payments of one distribution never add up to more than the reward** (rewards below 2⁵¹
    sela, at most `N` block-confirm parts, votes that add up to at most the snapshot total):
    the `change < 0` error of distributeDPOSReward cannot occur on a consistent vote snapshot. -/
theorem distribution_sum_le (hR1 : R < 2 ^ 51) (n : ℤ) (hn0 : 0 ≤ n) (hn : n ≤ N)
    (vs : List ℤ) (hv : ∀ v ∈ vs, 0 ≤ v) (hsum : vs.sum ≤ T) :
    n * ibcQ fl R N + (vs.map (shareQ fl R T)).sum ≤ R := by
  have r0 : (0 : ℚ) ≤ (R : ℚ) := by exact_mod_cast hR0
  have r1 : (R : ℚ) < 2 ^ 51 := by exact_mod_cast hR1
  have a := ibc_total h hR0 hN n hn0 hn
  have b := shares_total h hR0 hT vs hv
  have rp := rpv_nonneg h hR0 hT
  have hs : ((vs.sum : ℤ) : ℚ) ≤ (T : ℚ) := by exact_mod_cast hsum
  have c : ((vs.sum : ℤ) : ℚ) * (rpvQ fl R T + u * rpvQ fl R T) ≤ (T : ℚ) * (rpvQ fl R T + u * rpvQ fl R T) := by
    apply mul_le_mul_of_nonneg_right hs
    have := u_pos
    nlinarith
  have d := rpv_total h hR0 hT
  have e := ttp_upper h hR0
  have f := (tbc_bounds h hR0).1
  have g := tbc_nonneg h hR0
  have key : ((n * ibcQ fl R N + (vs.map (shareQ fl R T)).sum : ℤ) : ℚ) < ((R + 1 : ℤ) : ℚ) := by
    push_cast
    push_cast at a
    have c' : ((vs.sum : ℤ) : ℚ) * (rpvQ fl R T + u * rpvQ fl R T) ≤ (1 + u) * ((T : ℚ) * rpvQ fl R T) := by
      have : (T : ℚ) * (rpvQ fl R T + u * rpvQ fl R T) = (1 + u) * ((T : ℚ) * rpvQ fl R T) := by ring
      linarith
    unfold u at *
    norm_num at *
    linarith
  have := Int.cast_lt.mp key
  omega

end

/-! ### C27: the DPoS 2.0 per-block split (getDPoSV2RewardsV2) -/

/-- `Fixed64(N / totalNI * float64(votesReward))` (non-negative operands: truncation = floor) -/
def v2ShareQ (fl : ℚ → ℚ) (N NI V : ℤ) : ℤ := ⌊fl (fl ((N : ℚ) / (NI : ℚ)) * (V : ℚ))⌋

theorem v2Share_nonneg {fl : ℚ → ℚ} (h : StdModel fl) {N NI V : ℤ} (hN : 0 ≤ N) (hNI : 0 < NI) (hV : 0 ≤ V) :
    0 ≤ v2ShareQ fl N NI V := by
  unfold v2ShareQ
  apply Int.floor_nonneg.mpr
  have n0 : (0 : ℚ) ≤ (N : ℚ) := by exact_mod_cast hN
  have i0 : (0 : ℚ) < (NI : ℚ) := by exact_mod_cast hNI
  have v0 : (0 : ℚ) ≤ (V : ℚ) := by exact_mod_cast hV
  exact fl_nonneg h (mul_nonneg (fl_nonneg h (div_nonneg n0 i0.le)) v0)

theorem v2Share_upper {fl : ℚ → ℚ} (h : StdModel fl) {N NI V : ℤ} (hN : 0 ≤ N) (hNI : 0 < NI) (hV : 0 ≤ V) :
    ((v2ShareQ fl N NI V : ℤ) : ℚ) ≤ (N : ℚ) * ((V : ℚ) * (1 + u) * (1 + u) / (NI : ℚ)) := by
  have n0 : (0 : ℚ) ≤ (N : ℚ) := by exact_mod_cast hN
  have i0 : (0 : ℚ) < (NI : ℚ) := by exact_mod_cast hNI
  have v0 : (0 : ℚ) ≤ (V : ℚ) := by exact_mod_cast hV
  have hq0 : (0 : ℚ) ≤ (N : ℚ) / NI := div_nonneg n0 i0.le
  have hq := fl_upper h hq0
  have hfq0 := fl_nonneg h hq0
  have hp := fl_upper h (mul_nonneg hfq0 v0)
  have hfl := Int.floor_le (fl (fl ((N : ℚ) / (NI : ℚ)) * (V : ℚ)))
  have hu := u_pos
  have s1 : fl ((N : ℚ) / NI) * V ≤ ((N : ℚ) / NI + u * ((N : ℚ) / NI)) * V := mul_le_mul_of_nonneg_right hq v0
  have e : (N : ℚ) * ((V : ℚ) * (1 + u) * (1 + u) / (NI : ℚ)) = ((N : ℚ) / NI + u * ((N : ℚ) / NI)) * V * (1 + u) := by
    field_simp
  unfold v2ShareQ
  rw [e]
  have s2 : fl ((N : ℚ) / NI) * V * (1 + u) ≤ ((N : ℚ) / NI + u * ((N : ℚ) / NI)) * V * (1 + u) :=
    mul_le_mul_of_nonneg_right s1 (by linarith)
  linarith

theorem v2Shares_total {fl : ℚ → ℚ} (h : StdModel fl) {NI V : ℤ} (hNI : 0 < NI) (hV : 0 ≤ V)
    (Ns : List ℤ) (hN : ∀ n ∈ Ns, 0 ≤ n) :
    (((Ns.map (fun n => v2ShareQ fl n NI V)).sum : ℤ) : ℚ) ≤ ((Ns.sum : ℤ) : ℚ) * ((V : ℚ) * (1 + u) * (1 + u) / (NI : ℚ)) := by
  induction Ns with
  | nil => simp
  | cons n ns ih =>
    have h1 := v2Share_upper h (hN n (by simp)) hNI hV
    have h2 := ih (fun m hm => hN m (by simp [hm]))
    simp only [List.map_cons, List.sum_cons]
    push_cast
    linarith

/-- **the voters' shares of one block never exceed the block's reward** (they are parts of
    `reward*3/4`; two roundings per share cannot lift three quarters above the whole) -/
theorem v2_shares_le_reward {fl : ℚ → ℚ} (h : StdModel fl) (R : ℤ) (hR : 0 ≤ R)
    (Ns : List ℤ) (hN : ∀ n ∈ Ns, 0 ≤ n) (hpos : 0 < Ns.sum) :
    (Ns.map (fun n => v2ShareQ fl n Ns.sum (R * 3 / 4))).sum ≤ R := by
  have hV0 : 0 ≤ R * 3 / 4 := Int.ediv_nonneg (by omega) (by omega)
  have hV1 : (R * 3 / 4 : ℤ) * 4 ≤ R * 3 := Int.ediv_mul_le _ (by omega)
  have t := v2Shares_total h hpos hV0 Ns hN
  have i0 : (0 : ℚ) < ((Ns.sum : ℤ) : ℚ) := by exact_mod_cast hpos
  have e : ((Ns.sum : ℤ) : ℚ) * (((R * 3 / 4 : ℤ) : ℚ) * (1 + u) * (1 + u) / ((Ns.sum : ℤ) : ℚ)) =
      ((R * 3 / 4 : ℤ) : ℚ) * (1 + u) * (1 + u) := by field_simp
  rw [e] at t
  have v1 : (((R * 3 / 4 : ℤ) : ℚ)) * 4 ≤ (R : ℚ) * 3 := by exact_mod_cast hV1
  have v0 : (0 : ℚ) ≤ ((R * 3 / 4 : ℤ) : ℚ) := by exact_mod_cast hV0
  have r0 : (0 : ℚ) ≤ (R : ℚ) := by exact_mod_cast hR
  have key : (((Ns.map (fun n => v2ShareQ fl n Ns.sum (R * 3 / 4))).sum : ℤ) : ℚ) ≤ ((R : ℤ) : ℚ) := by
    have hb : ((R * 3 / 4 : ℤ) : ℚ) * (1 + u) * (1 + u) ≤ (R : ℚ) := by
      unfold u
      norm_num
      nlinarith
    linarith
  exact_mod_cast key

end ElaVerif.FloatModel
