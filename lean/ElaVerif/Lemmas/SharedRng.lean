import ElaVerif.Model.SharedRng
/-! helper lemmas for C24: the insertion sort behind `checkpointOrder` -/
namespace ElaVerif.SharedRng

theorem insert_perm (x : String × Nat) : ∀ l, (insertByPrio x l).Perm (x :: l)
  | [] => List.Perm.refl _
  | y :: ys => by
    unfold insertByPrio
    split
    · exact List.Perm.refl _
    · exact ((insert_perm x ys).cons y).trans (List.Perm.swap x y ys)

theorem sort_perm : ∀ l : List (String × Nat), (l.foldr insertByPrio []).Perm l
  | [] => List.Perm.refl _
  | x :: xs => by
    simp only [List.foldr_cons]
    exact (insert_perm x _).trans ((sort_perm xs).cons x)

theorem insert_sorted (x : String × Nat) : ∀ l : List (String × Nat),
    l.Pairwise (fun a b => a.2 < b.2) → (∀ y ∈ l, y.2 ≠ x.2) →
    (insertByPrio x l).Pairwise (fun a b => a.2 < b.2)
  | [], _, _ => by simp [insertByPrio]
  | y :: ys, hs, hne => by
    unfold insertByPrio
    have hs' := List.pairwise_cons.1 hs
    split
    · rename_i hlt
      refine List.pairwise_cons.2 ⟨?_, hs⟩
      intro z hz
      rcases List.mem_cons.1 hz with rfl | hz
      · exact hlt
      · exact Nat.lt_trans hlt (hs'.1 z hz)
    · rename_i hnlt
      have hyx : y.2 < x.2 := by
        have := hne y (List.mem_cons_self)
        omega
      refine List.pairwise_cons.2 ⟨?_, insert_sorted x ys hs'.2 (fun z hz => hne z (List.mem_cons_of_mem _ hz))⟩
      intro z hz
      rcases List.mem_cons.1 ((insert_perm x ys).subset hz) with rfl | hz
      · exact hyx
      · exact hs'.1 z hz

theorem sort_sorted : ∀ l : List (String × Nat), (l.map (·.2)).Nodup →
    (l.foldr insertByPrio []).Pairwise (fun a b => a.2 < b.2)
  | [], _ => by simp
  | x :: xs, hn => by
    simp only [List.foldr_cons]
    simp only [List.map_cons, List.nodup_cons] at hn
    apply insert_sorted x _ (sort_sorted xs hn.2)
    intro y hy heq
    apply hn.1
    have := (sort_perm xs).subset hy
    exact List.mem_map.2 ⟨y, this, heq⟩

end ElaVerif.SharedRng
