import ElaVerif.Model.WalletCodec
import ElaVerif.Lemmas.Digits
import ElaVerif.Lemmas.WalletCodec
/-! The keystore's private-key slot is a fixed-width big-endian codec (property C37). Core Lean only. -/
namespace ElaVerif.WalletCodec
open ElaVerif.Digits ElaVerif.Script

theorem map_ofNat_toNat (ds : List Nat) (h : ∀ d ∈ ds, d < 256) : (ds.map UInt8.ofNat).map (·.toNat) = ds := by
  induction ds with
  | nil => rfl
  | cons x xs ih =>
    have hx := h x (by simp)
    simp only [List.map_cons, List.map_map] at *
    rw [ih (fun d hd => h d (by simp [hd]))]
    congr 1
    simp [UInt8.toNat_ofNat', Nat.mod_eq_of_lt hx]

/-- `SetBytes(D.Bytes()) = D` -/
theorem bytesToNat_natToBytes (d : Nat) : bytesToNat (natToBytes d) = d := by
  unfold bytesToNat natToBytes
  rw [map_ofNat_toNat _ (digits_lt 256 (by omega) d)]
  exact ofDigits_digits 256 (by omega) d

theorem natToBytes_length (d : Nat) (h : d < 2 ^ 256) : (natToBytes d).length ≤ 32 := by
  unfold natToBytes
  rw [List.length_map]
  exact digits_length_le 256 (by omega) d 32 (by
    have : (256 : Nat) ^ 32 = 2 ^ 256 := by decide
    omega)

/-- leading zero bytes do not change the number -/
theorem bytesToNat_pad (k : Nat) (b : Bytes) : bytesToNat (List.replicate k 0 ++ b) = bytesToNat b := by
  unfold bytesToNat
  rw [List.map_append, ofDigits_append]
  have : (List.replicate k (0 : UInt8)).map (·.toNat) = List.replicate k 0 := by simp
  rw [this, ofDigits_zeros]
  simp

/-- the slot always has 32 bytes and denotes the same number as the key bytes, for every key of at most 32 bytes -/
theorem storeKey_spec (priv : Bytes) (h : priv.length ≤ 32) :
    (storeKey false priv).length = 32 ∧ loadScalar (storeKey false priv) = bytesToNat priv := by
  unfold storeKey loadScalar
  simp only [Bool.false_eq_true, if_false]
  refine ⟨by simp; omega, bytesToNat_pad _ _⟩

/-- **keystore round trip**: every scalar below 2^256, written as `D.Bytes()` (no leading zeros,
    so possibly shorter than 32 bytes), comes back from the 32-byte slot unchanged. -/
theorem keystore_roundtrip (d : Nat) (h : d < 2 ^ 256) :
    (storeKey false (natToBytes d)).length = 32 ∧ loadScalar (storeKey false (natToBytes d)) = d := by
  have := storeKey_spec (natToBytes d) (natToBytes_length d h)
  rw [bytesToNat_natToBytes] at this
  exact this

end ElaVerif.WalletCodec
