import ElaVerif.Model.Wire
/-
  Generic theorems about wire schemas, by (mutual structural) induction on the schema:

  * `decode_encode`  – round trip: a well-formed value is read back, followed by whatever follows;
  * `decode_sound`   – everything the reader accepts is a well-formed value, and for canonical
                       schemas the consumed bytes are exactly the writer's output;
  * `decode_minSize` – a successful read consumes at least `minSize` bytes;
  * `alloc_bound`    – the allocation meter of a `bounded` schema is at most
                       `dens · |input| + slack` on every input.
-/
namespace ElaVerif.Wire
open ElaVerif.Bytes

/-! ### round trip -/

theorem repeatDec_encodeAll (f : Bytes → R Val) (g : Val → Bytes) (p : Val → Bool) (ovh : Nat)
    (hf : ∀ v rest, p v = true → (f (g v ++ rest)).res = some (v, rest)) :
    ∀ (vs : List Val) (rest : Bytes), allWith p vs = true →
      (repeatDec f ovh vs.length (encodeAllWith g vs ++ rest)).res = some (vs, rest) := by
  intro vs
  induction vs with
  | nil => intro rest _; simp [repeatDec, encodeAllWith, R.ok]
  | cons v vs ih =>
    intro rest h
    simp only [allWith, Bool.and_eq_true] at h
    simp only [List.length_cons, repeatDec, encodeAllWith, List.append_assoc, hf v _ h.1, ih rest h.2]

theorem decCount_enc (cw n : Nat) (rest : Bytes)
    (h : n < (if cw = 0 then 2 ^ 64 else 256 ^ cw)) :
    decCount cw (encCount cw n ++ rest) = some (n, rest) := by
  unfold decCount encCount
  split
  · rename_i h0; simp only [h0, if_true] at h; exact decVarUint_enc n rest h
  · rename_i h0; simp only [h0, if_false] at h; exact readLE_enc cw n rest h

mutual
  theorem decode_encode : (ty : Ty) → (v : Val) → (rest : Bytes) → wf ty v = true →
      (decodeA ty (encode ty v ++ rest)).res = some (v, rest)
    | .uint k, v, rest, h => by
      cases v <;> simp [wf] at h
      rename_i n
      simp [encode, decodeA, readLE_enc k n rest h, R.ofOpt, R.ok]
    | .bool, v, rest, h => by
      cases v <;> simp [wf] at h
      rename_i b
      cases b
      · have := readLE_enc 1 0 rest (by decide)
        simp only [leEnc] at this
        simp [encode, decodeA, R.ofOpt, R.ok]
        simpa using this ▸ rfl
      · have := readLE_enc 1 1 rest (by decide)
        simp only [leEnc] at this
        simp [encode, decodeA, R.ofOpt, R.ok]
        simpa using this ▸ rfl
    | .bool1, v, rest, h => by
      cases v <;> simp [wf] at h
      rename_i b
      cases b
      · have := readLE_enc 1 0 rest (by decide)
        simp only [leEnc] at this
        simp [encode, decodeA, R.ofOpt, R.ok]
        simpa using this ▸ rfl
      · have := readLE_enc 1 1 rest (by decide)
        simp only [leEnc] at this
        simp [encode, decodeA, R.ofOpt, R.ok]
        simpa using this ▸ rfl
    | .fixed n, v, rest, h => by
      cases v <;> simp [wf] at h
      rename_i bs
      subst h
      simp [encode, decodeA, take?_append, R.ofOpt, R.ok]
    | .varUint, v, rest, h => by
      cases v <;> simp [wf] at h
      rename_i n
      simp [encode, decodeA, decVarUint_enc n rest h, R.ofOpt, R.ok]
    | .varBytes max, v, rest, h => by
      cases v <;> simp [wf] at h
      rename_i bs
      have h1 : ¬ max < bs.length := by omega
      simp [encode, decodeA, decVarUint_enc bs.length (bs ++ rest) h.2, h1, take?_append, R.ok]
    | .pad1, v, rest, h => by
      cases v <;> simp [wf] at h
      simp [encode, decodeA, R.ok]
    | .fail, v, rest, h => by
      cases v <;> simp [wf] at h
    | .struct fs, v, rest, h => by
      cases v <;> simp [wf] at h
      rename_i vs
      simp [encode, decodeA, R.map, decodeFields_encode fs vs rest h]
    | .list cw lim pre ovh e, v, rest, h => by
      cases v <;> simp [wf] at h
      rename_i vs
      obtain ⟨⟨h1, h2⟩, h3⟩ := h
      have ih := fun v rest h => decode_encode e v rest h
      have hr := repeatDec_encodeAll (decodeA e) (encode e) (wf e) ovh ih vs rest h3
      have hc := decCount_enc cw vs.length (encodeAllWith (encode e) vs ++ rest) h2
      simp [encode, decodeA, hc, h1, R.map, R.charge, hr]
    | .listI ovh e, v, rest, h => by
      cases v <;> simp [wf] at h
      rename_i vs
      obtain ⟨h2, h3⟩ := h
      have ih := fun v rest h => decode_encode e v rest h
      have hr := repeatDec_encodeAll (decodeA e) (encode e) (wf e) ovh ih vs rest h3
      have hc := decVarUint_enc vs.length (encodeAllWith (encode e) vs ++ rest) (by omega)
      have hn : ¬ 2 ^ 63 ≤ vs.length := by omega
      simp [encode, decodeA, hc, hn, R.map, hr]
    | .tagged tw cs d, v, rest, h => by
      cases v <;> simp [wf] at h
      rename_i t v
      obtain ⟨h1, h2⟩ := h
      have hc := decodeCases_encode cs t v rest
      simp only [encode, decodeA, List.append_assoc, readLE_enc tw t _ h1]
      cases hw : wfCases cs t v with
      | none =>
        obtain ⟨e1, e2⟩ := hc.2 hw
        simp only [hw] at h2
        simp [e1, e2, R.map, decode_encode d v rest h2]
      | some b =>
        simp only [hw] at h2
        subst h2
        obtain ⟨enc, r, e1, e2, e3⟩ := hc.1 hw
        simp [e1, e2, R.map, e3]
  theorem decodeFields_encode : (fs : List Ty) → (vs : List Val) → (rest : Bytes) →
      wfFields fs vs = true →
      (decodeFields fs (encodeFields fs vs ++ rest)).res = some (vs, rest)
    | [], vs, rest, h => by
      cases vs <;> simp [wfFields] at h
      simp [encodeFields, decodeFields, R.ok]
    | t :: ts, vs, rest, h => by
      cases vs with
      | nil => simp [wfFields] at h
      | cons v vs =>
        simp only [wfFields, Bool.and_eq_true] at h
        simp only [encodeFields, decodeFields, List.append_assoc, decode_encode t v _ h.1,
          decodeFields_encode ts vs rest h.2]
  theorem decodeCases_encode : (cs : List (Nat × Ty)) → (t : Nat) → (v : Val) → (rest : Bytes) →
      (wfCases cs t v = some true →
        ∃ enc r, encodeCases cs t v = some enc ∧ decodeCases cs t (enc ++ rest) = some r ∧
          r.res = some (v, rest)) ∧
      (wfCases cs t v = none →
        encodeCases cs t v = none ∧ ∀ bs, decodeCases cs t bs = none)
    | [], t, v, rest => by
      simp [wfCases, encodeCases, decodeCases]
    | (k, ty) :: cs, t, v, rest => by
      simp only [wfCases, encodeCases, decodeCases]
      by_cases hk : k = t
      · simp only [hk, if_true]
        refine ⟨fun h => ?_, fun h => by simp at h⟩
        simp only [Option.some.injEq] at h
        exact ⟨_, _, rfl, rfl, decode_encode ty v rest h⟩
      · simp only [hk, if_false]
        exact decodeCases_encode cs t v rest
end

/-! ### soundness of the reader: accepted ⇒ well-formed, and canonical where declared -/

theorem R.map_res_some {α β} {f : α → β} {r : R α} {w : β} {rest : Bytes}
    (h : (r.map f).res = some (w, rest)) : ∃ v, r.res = some (v, rest) ∧ w = f v := by
  unfold R.map at h
  simp only at h
  split at h
  · rename_i v rest' hr
    simp only [Option.some.injEq, Prod.mk.injEq] at h
    exact ⟨v, by rw [hr, h.2], h.1.symm⟩
  · simp at h

theorem R.ofOpt_res_some {α β} {f : α → β} {o : Option (α × Bytes)} {w : β} {rest : Bytes}
    (h : (R.ofOpt f o).res = some (w, rest)) : ∃ v, o = some (v, rest) ∧ w = f v := by
  cases o with
  | none => simp [R.ofOpt, R.fail] at h
  | some p =>
    obtain ⟨v, r⟩ := p
    simp only [R.ofOpt, R.ok, Option.some.injEq, Prod.mk.injEq] at h
    exact ⟨v, by rw [h.2], h.1.symm⟩

theorem repeatDec_sound (f : Bytes → R Val) (g : Val → Bytes) (p : Val → Bool) (c : Prop) (ovh : Nat)
    (hf : ∀ bs v rest, (f bs).res = some (v, rest) → p v = true ∧ (c → bs = g v ++ rest)) :
    ∀ (n : Nat) (bs : Bytes) (vs : List Val) (rest : Bytes),
      (repeatDec f ovh n bs).res = some (vs, rest) →
      vs.length = n ∧ allWith p vs = true ∧ (c → bs = encodeAllWith g vs ++ rest) := by
  intro n
  induction n with
  | zero =>
    intro bs vs rest h
    simp only [repeatDec, R.ok, Option.some.injEq, Prod.mk.injEq] at h
    obtain ⟨rfl, rfl⟩ := h
    simp [allWith, encodeAllWith]
  | succ n ih =>
    intro bs vs rest h
    simp only [repeatDec] at h
    split at h
    · simp [R.fail] at h
    · rename_i v r1 h1
      simp only at h
      split at h
      · rename_i vs' rest' h2
        simp only [Option.some.injEq, Prod.mk.injEq] at h
        obtain ⟨rfl, rfl⟩ := h
        obtain ⟨a1, a2⟩ := hf _ _ _ h1
        obtain ⟨b1, b2, b3⟩ := ih _ _ _ h2
        refine ⟨by simp [b1], by simp [allWith, a1, b2], fun hc => ?_⟩
        rw [a2 hc, b3 hc]; simp [encodeAllWith]
      · simp at h

theorem decCount_some {cw : Nat} {bs r : Bytes} {n : Nat} (h : decCount cw bs = some (n, r)) :
    bs = encCount cw n ++ r ∧ n < (if cw = 0 then 2 ^ 64 else 256 ^ cw) := by
  unfold decCount at h
  unfold encCount
  split at h
  · rename_i h0; simp only [h0, if_true]; exact decVarUint_some h
  · rename_i h0; simp only [h0, if_false]; exact readLE_some h

mutual
  theorem decode_sound : (ty : Ty) → (bs : Bytes) → (v : Val) → (rest : Bytes) →
      (decodeA ty bs).res = some (v, rest) →
      wf ty v = true ∧ (canon ty = true → bs = encode ty v ++ rest)
    | .uint k, bs, v, rest, h => by
      simp only [decodeA] at h
      obtain ⟨n, h1, rfl⟩ := R.ofOpt_res_some h
      obtain ⟨a, b⟩ := readLE_some h1
      simp [wf, encode, b, a]
    | .bool, bs, v, rest, h => by
      simp only [decodeA] at h
      obtain ⟨n, _, rfl⟩ := R.ofOpt_res_some h
      simp [wf, canon]
    | .bool1, bs, v, rest, h => by
      simp only [decodeA] at h
      obtain ⟨n, _, rfl⟩ := R.ofOpt_res_some h
      simp [wf, canon]
    | .fixed n, bs, v, rest, h => by
      simp only [decodeA] at h
      obtain ⟨a, h1, rfl⟩ := R.ofOpt_res_some h
      obtain ⟨e1, e2⟩ := take?_some h1
      simp [wf, encode, e1, e2]
    | .varUint, bs, v, rest, h => by
      simp only [decodeA] at h
      obtain ⟨n, h1, rfl⟩ := R.ofOpt_res_some h
      obtain ⟨a, b⟩ := decVarUint_some h1
      simp [wf, encode, b, a]
    | .varBytes max, bs, v, rest, h => by
      simp only [decodeA] at h
      split at h
      · simp [R.fail] at h
      · rename_i n r hv
        split at h
        · simp [R.fail] at h
        · rename_i hmax
          split at h
          · rename_i a r' ht
            simp only [R.ok, Option.some.injEq, Prod.mk.injEq] at h
            obtain ⟨rfl, rfl⟩ := h
            obtain ⟨e1, e2⟩ := decVarUint_some hv
            obtain ⟨e3, e4⟩ := take?_some ht
            refine ⟨?_, fun _ => ?_⟩
            · simp only [wf, Bool.and_eq_true, decide_eq_true_eq]; omega
            · simp only [encode, e4, e1, e3, List.append_assoc]
          · simp [R.fail] at h
    | .pad1, bs, v, rest, h => by
      simp only [decodeA, R.ok, Option.some.injEq, Prod.mk.injEq] at h
      obtain ⟨rfl, rfl⟩ := h
      simp [wf, canon]
    | .fail, bs, v, rest, h => by
      simp [decodeA, R.fail] at h
    | .struct fs, bs, v, rest, h => by
      simp only [decodeA] at h
      obtain ⟨vs, h1, rfl⟩ := R.map_res_some h
      have := decodeFields_sound fs bs vs rest h1
      simpa [wf, canon, encode] using this
    | .list cw lim pre ovh e, bs, v, rest, h => by
      simp only [decodeA] at h
      split at h
      · simp [R.fail] at h
      · rename_i n r hc
        split at h
        · simp [R.fail] at h
        · rename_i hlim
          simp only [R.charge] at h
          obtain ⟨vs, h1, rfl⟩ := R.map_res_some h
          have ih := fun bs v rest h => decode_sound e bs v rest h
          obtain ⟨b1, b2, b3⟩ :=
            repeatDec_sound (decodeA e) (encode e) (wf e) (canon e = true) ovh ih n r vs rest h1
          obtain ⟨c1, c2⟩ := decCount_some hc
          subst b1
          refine ⟨?_, fun hcan => ?_⟩
          · simp only [wf, Bool.and_eq_true, Bool.not_eq_true', decide_eq_true_eq]
            exact ⟨⟨by simpa using hlim, c2⟩, b2⟩
          · simp only [canon] at hcan
            simp only [encode, c1, b3 hcan, List.append_assoc]
    | .listI ovh e, bs, v, rest, h => by
      simp only [decodeA] at h
      split at h
      · simp [R.fail] at h
      · rename_i n r hc
        split at h
        · simp only [R.ok, Option.some.injEq, Prod.mk.injEq] at h
          obtain ⟨rfl, rfl⟩ := h
          exact ⟨by simp [wf, allWith], fun hcan => by simp [canon] at hcan⟩
        · rename_i hn
          obtain ⟨vs, h1, rfl⟩ := R.map_res_some h
          have ih := fun bs v rest h => decode_sound e bs v rest h
          obtain ⟨b1, b2, _⟩ :=
            repeatDec_sound (decodeA e) (encode e) (wf e) (canon e = true) ovh ih n r vs rest h1
          subst b1
          refine ⟨?_, fun hcan => by simp [canon] at hcan⟩
          simp only [wf, Bool.and_eq_true, decide_eq_true_eq]
          exact ⟨by omega, b2⟩
    | .tagged tw cs d, bs, v, rest, h => by
      simp only [decodeA] at h
      split at h
      · simp [R.fail] at h
      · rename_i t r ht
        obtain ⟨v', h1, rfl⟩ := R.map_res_some h
        obtain ⟨e1, e2⟩ := readLE_some ht
        have hcs := decodeCases_sound cs t r
        cases hd : decodeCases cs t r with
        | none =>
          simp only [hd] at h1
          obtain ⟨a1, a2⟩ := decode_sound d r v' rest h1
          obtain ⟨b1, b2⟩ := hcs.2 hd v'
          refine ⟨by simp [wf, e2, b1, a1], fun hcan => ?_⟩
          simp only [canon, Bool.and_eq_true] at hcan
          simp only [encode, b2, e1, a2 hcan.2, List.append_assoc]
        | some x =>
          simp only [hd] at h1
          obtain ⟨b1, enc, b2, b3⟩ := hcs.1 x hd v' rest h1
          refine ⟨by simp [wf, e2, b1], fun hcan => ?_⟩
          simp only [canon, Bool.and_eq_true] at hcan
          simp only [encode, b2, e1, b3 hcan.1, List.append_assoc]
  theorem decodeFields_sound : (fs : List Ty) → (bs : Bytes) → (vs : List Val) → (rest : Bytes) →
      (decodeFields fs bs).res = some (vs, rest) →
      wfFields fs vs = true ∧ (canonFields fs = true → bs = encodeFields fs vs ++ rest)
    | [], bs, vs, rest, h => by
      simp only [decodeFields, R.ok, Option.some.injEq, Prod.mk.injEq] at h
      obtain ⟨rfl, rfl⟩ := h
      simp [wfFields, encodeFields]
    | t :: ts, bs, vs, rest, h => by
      simp only [decodeFields] at h
      split at h
      · simp [R.fail] at h
      · rename_i v r1 h1
        simp only at h
        split at h
        · rename_i vs' rest' h2
          simp only [Option.some.injEq, Prod.mk.injEq] at h
          obtain ⟨rfl, rfl⟩ := h
          obtain ⟨a1, a2⟩ := decode_sound t bs v r1 h1
          obtain ⟨b1, b2⟩ := decodeFields_sound ts r1 vs' rest' h2
          refine ⟨by simp [wfFields, a1, b1], fun hcan => ?_⟩
          simp only [canonFields, Bool.and_eq_true] at hcan
          rw [a2 hcan.1, b2 hcan.2]; simp [encodeFields]
        · simp at h
  theorem decodeCases_sound : (cs : List (Nat × Ty)) → (t : Nat) → (bs : Bytes) →
      (∀ x, decodeCases cs t bs = some x → ∀ v rest, x.res = some (v, rest) →
        wfCases cs t v = some true ∧
        ∃ enc, encodeCases cs t v = some enc ∧ (canonCases cs = true → bs = enc ++ rest)) ∧
      (decodeCases cs t bs = none → ∀ v, wfCases cs t v = none ∧ encodeCases cs t v = none)
    | [], t, bs => by
      simp [decodeCases, wfCases, encodeCases]
    | (k, ty) :: cs, t, bs => by
      simp only [decodeCases, wfCases, encodeCases, canonCases]
      by_cases hk : k = t
      · simp only [hk, if_true]
        refine ⟨fun x hx v rest hr => ?_, fun h => by simp at h⟩
        simp only [Option.some.injEq] at hx
        subst hx
        obtain ⟨a1, a2⟩ := decode_sound ty bs v rest hr
        refine ⟨by simp [a1], _, rfl, fun hcan => ?_⟩
        simp only [Bool.and_eq_true] at hcan
        exact a2 hcan.1
      · simp only [hk, if_false]
        obtain ⟨i1, i2⟩ := decodeCases_sound cs t bs
        refine ⟨fun x hx v rest hr => ?_, i2⟩
        obtain ⟨a1, enc, a2, a3⟩ := i1 x hx v rest hr
        refine ⟨a1, enc, a2, fun hcan => ?_⟩
        simp only [Bool.and_eq_true] at hcan
        exact a3 hcan.2
end


/-! ### allocation bound -/

/-- `r` is the metered result of reading `bs`: a successful read consumed `c ≥ m` bytes and
    allocated at most `D·c`; a failing read allocated at most `D·|bs| + S`. -/
def Good {α} (D m S : Nat) (bs : Bytes) (r : R α) : Prop :=
  (∀ v rest, r.res = some (v, rest) → ∃ c, bs.length = c + rest.length ∧ m ≤ c ∧ r.alloc ≤ D * c) ∧
  (r.res = none → r.alloc ≤ D * bs.length + S)

theorem Good.mono {α} {D m S m' S' : Nat} {bs : Bytes} {r : R α} (h : Good D m S bs r)
    (hm : m' ≤ m) (hS : S ≤ S') : Good D m' S' bs r := by
  refine ⟨fun v rest hr => ?_, fun hn => ?_⟩
  · obtain ⟨c, a, b, d⟩ := h.1 v rest hr
    exact ⟨c, a, by omega, d⟩
  · have := h.2 hn; omega

theorem Good.fail {α} (D m S : Nat) (bs : Bytes) : Good D m S bs (R.fail : R α) := by
  refine ⟨fun v rest hr => by simp [R.fail] at hr, fun _ => by simp [R.fail]⟩

theorem Good.map {α β} {D m S : Nat} {bs : Bytes} {r : R α} (f : α → β) (h : Good D m S bs r) :
    Good D m S bs (r.map f) := by
  refine ⟨fun w rest hr => ?_, fun hn => ?_⟩
  · obtain ⟨v, h1, _⟩ := R.map_res_some hr
    exact h.1 v rest h1
  · have : r.res = none := by
      cases hrr : r.res with
      | none => rfl
      | some p => simp [R.map, hrr] at hn
    exact h.2 this

theorem Good.pre {α} {D m S tw : Nat} {bs r : Bytes} {x : R α} (h : Good D m S r x)
    (hl : bs.length = tw + r.length) : Good D (tw + m) S bs x := by
  refine ⟨fun v rest hr => ?_, fun hn => ?_⟩
  · obtain ⟨c, a1, a2, a3⟩ := h.1 v rest hr
    refine ⟨tw + c, by omega, by omega, ?_⟩
    have : D * c ≤ D * (tw + c) := Nat.mul_le_mul_left _ (by omega)
    omega
  · have a := h.2 hn
    have : D * r.length ≤ D * bs.length := Nat.mul_le_mul_left _ (by omega)
    omega

/-- a leaf that allocates nothing and consumes exactly what `o` says -/
theorem Good.ofOpt {α β} (D m S : Nat) (bs : Bytes) (f : α → β) (o : Option (α × Bytes))
    (ho : ∀ v rest, o = some (v, rest) → ∃ c, bs.length = c + rest.length ∧ m ≤ c) :
    Good D m S bs (R.ofOpt f o) := by
  refine ⟨fun w rest hr => ?_, fun _ => ?_⟩
  · obtain ⟨v, h1, _⟩ := R.ofOpt_res_some hr
    obtain ⟨c, a, b⟩ := ho v rest h1
    refine ⟨c, a, b, ?_⟩
    cases o with
    | none => simp at h1
    | some p => simp [R.ofOpt, R.ok]
  · cases o with
    | none => simp [R.ofOpt, R.fail]
    | some p => simp [R.ofOpt, R.ok]

theorem take?_length {n : Nat} {bs a r : Bytes} (h : take? n bs = some (a, r)) :
    bs.length = n + r.length := by
  obtain ⟨e1, e2⟩ := take?_some h
  rw [e1, List.length_append, e2]

theorem decCount_length {cw : Nat} {bs r : Bytes} {n : Nat} (h : decCount cw bs = some (n, r)) :
    ∃ c, bs.length = c + r.length ∧ (if cw = 0 then 1 else cw) ≤ c := by
  unfold decCount at h
  split at h
  · rename_i h0
    have := decVarUint_length h
    exact ⟨bs.length - r.length, by omega, by simp only [h0, if_true]; omega⟩
  · rename_i h0
    have := readLE_length h
    exact ⟨cw, this, by simp [h0]⟩

theorem bufCost_le (n : Nat) : bufCost n ≤ 36 * n := by
  unfold bufCost
  split
  · omega
  · have : n / 2 ≤ n := Nat.div_le_self n 2
    omega

theorem bufCost_mono {n m : Nat} (h : n ≤ m) : bufCost n ≤ bufCost m := by
  unfold bufCost
  have : n / 2 ≤ m / 2 := Nat.div_le_div_right h
  split <;> split <;> omega

theorem mul_step {a ovh De D c : Nat} (ha : a ≤ De * c) (hc : 1 ≤ c) (hD : ovh + De ≤ D) :
    a + ovh ≤ D * c := by
  have h1 : ovh ≤ ovh * c := Nat.le_mul_of_pos_right ovh hc
  have h2 : (De + ovh) * c ≤ D * c := Nat.mul_le_mul_right c (by omega)
  rw [Nat.add_mul] at h2
  omega

theorem repeatDec_good {α : Type} (f : Bytes → R α) (ovh De me Se D : Nat) (hme : 1 ≤ me)
    (hD : ovh + De ≤ D) (hf : ∀ bs, Good De me Se bs (f bs)) :
    ∀ (n : Nat) (bs : Bytes), Good D n Se bs (repeatDec f ovh n bs) := by
  intro n
  induction n with
  | zero =>
    intro bs
    refine ⟨fun v rest hr => ?_, fun hn => by simp [repeatDec, R.ok] at hn⟩
    simp only [repeatDec, R.ok, Option.some.injEq, Prod.mk.injEq] at hr
    exact ⟨0, by simp [hr.2], Nat.le_refl _, by simp [repeatDec, R.ok]⟩
  | succ n ih =>
    intro bs
    have h1 := hf bs
    simp only [repeatDec]
    cases hr1 : (f bs).res with
    | none =>
      simp only
      refine ⟨fun v rest hr => by simp [R.fail] at hr, fun _ => ?_⟩
      have := h1.2 hr1
      have h2 : De * bs.length ≤ D * bs.length := Nat.mul_le_mul_right _ (by omega)
      simp only [R.fail]; omega
    | some p =>
      obtain ⟨v, rest1⟩ := p
      simp only
      obtain ⟨c1, a1, a2, a3⟩ := h1.1 v rest1 hr1
      have h2 := ih rest1
      have hstep : (f bs).alloc + ovh ≤ D * c1 := mul_step a3 (by omega) hD
      refine ⟨fun vs rest hr => ?_, fun hn => ?_⟩
      · simp only at hr
        split at hr
        · rename_i vs' rest' hr2
          simp only [Option.some.injEq, Prod.mk.injEq] at hr
          obtain ⟨_, rfl⟩ := hr
          obtain ⟨c2, b1, b2, b3⟩ := h2.1 vs' rest' hr2
          refine ⟨c1 + c2, by omega, by omega, ?_⟩
          simp only [Nat.mul_add]; omega
        · simp at hr
      · simp only at hn
        have hn2 : (repeatDec f ovh n rest1).res = none := by
          cases hrr : (repeatDec f ovh n rest1).res with
          | none => rfl
          | some q => simp [hrr] at hn
        have := h2.2 hn2
        simp only [a1, Nat.mul_add]; omega

mutual
  theorem alloc_good : (ty : Ty) → (D : Nat) → (bs : Bytes) → bounded ty = true → dens ty ≤ D →
      Good D (minSize ty) (slack ty) bs (decodeA ty bs)
    | .uint k, D, bs, _, _ => by
      simp only [decodeA, minSize, slack]
      exact Good.ofOpt _ _ _ _ _ _ fun v rest h => ⟨k, readLE_length h, Nat.le_refl _⟩
    | .bool, D, bs, _, _ => by
      simp only [decodeA, minSize, slack]
      exact Good.ofOpt _ _ _ _ _ _ fun v rest h => ⟨1, readLE_length h, Nat.le_refl _⟩
    | .bool1, D, bs, _, _ => by
      simp only [decodeA, minSize, slack]
      exact Good.ofOpt _ _ _ _ _ _ fun v rest h => ⟨1, readLE_length h, Nat.le_refl _⟩
    | .fixed n, D, bs, _, _ => by
      simp only [decodeA, minSize, slack]
      exact Good.ofOpt _ _ _ _ _ _ fun v rest h => ⟨n, take?_length h, Nat.le_refl _⟩
    | .varUint, D, bs, _, _ => by
      simp only [decodeA, minSize, slack]
      exact Good.ofOpt _ _ _ _ _ _ fun v rest h =>
        ⟨bs.length - rest.length, by have := decVarUint_length h; omega,
          by have := decVarUint_length h; omega⟩
    | .varBytes max, D, bs, _, hD => by
      simp only [dens] at hD
      simp only [decodeA, minSize, slack]
      split
      · exact Good.fail _ _ _ _
      · rename_i n r hv
        have hl := decVarUint_length hv
        split
        · exact Good.fail _ _ _ _
        · rename_i hmax
          split
          · rename_i a r' ht
            have hl2 := take?_length ht
            refine ⟨fun v rest hr => ?_, fun hn => by simp [R.ok] at hn⟩
            simp only [R.ok, Option.some.injEq, Prod.mk.injEq] at hr
            obtain ⟨_, rfl⟩ := hr
            refine ⟨bs.length - r'.length, by omega, by omega, ?_⟩
            simp only [R.ok]
            have h1 : bufCost n ≤ 36 * n := bufCost_le n
            have h2 : 36 * n ≤ 36 * (bs.length - r'.length) := Nat.mul_le_mul_left _ (by omega)
            have h3 : 36 * (bs.length - r'.length) ≤ D * (bs.length - r'.length) :=
              Nat.mul_le_mul_right _ hD
            omega
          · refine ⟨fun v rest hr => by simp [R.fail] at hr, fun _ => ?_⟩
            have := bufCost_mono (Nat.le_of_not_lt hmax)
            simp only [R.fail]; omega
    | .pad1, D, bs, _, _ => by
      simp only [decodeA, minSize, slack]
      refine ⟨fun v rest hr => ?_, fun hn => by simp [R.ok] at hn⟩
      simp only [R.ok, Option.some.injEq, Prod.mk.injEq] at hr
      obtain ⟨_, rfl⟩ := hr
      refine ⟨bs.length - (bs.drop 1).length, ?_, Nat.zero_le _, by simp [R.ok]⟩
      simp only [List.length_drop]; omega
    | .fail, D, bs, _, _ => by
      simp only [decodeA]
      exact Good.fail _ _ _ _
    | .struct fs, D, bs, hb, hD => by
      simp only [bounded] at hb
      simp only [dens] at hD
      simp only [decodeA, minSize, slack]
      exact (allocFields_good fs D bs hb hD).map _
    | .list cw lim pre ovh e, D, bs, hb, hD => by
      simp only [bounded, Bool.and_eq_true, decide_eq_true_eq, Bool.or_eq_true, beq_iff_eq] at hb
      obtain ⟨⟨hb1, hb2⟩, hb3⟩ := hb
      simp only [dens] at hD
      simp only [decodeA, minSize, slack]
      cases hc : decCount cw bs with
      | none => exact Good.fail _ _ _ _
      | some p =>
        obtain ⟨n, r⟩ := p
        simp only
        obtain ⟨cc, hc1, hc2⟩ := decCount_length hc
        by_cases hlim : overLimit lim n = true
        · simp only [hlim, if_true]
          exact Good.fail _ _ _ _
        · have hlf : overLimit lim n = false := by simpa using hlim
          simp only [hlf, Bool.false_eq_true, if_false]
          have ihe := fun bs => alloc_good e (dens e) bs hb3 (Nat.le_refl _)
          have hrep := repeatDec_good (decodeA e) ovh (dens e) (minSize e) (slack e) (ovh + dens e)
            hb1 (Nat.le_refl _) ihe n r
          refine ⟨fun v rest hr => ?_, fun hn => ?_⟩
          · simp only [R.charge] at hr
            obtain ⟨vs, h1, _⟩ := R.map_res_some hr
            obtain ⟨c, a1, a2, a3⟩ := hrep.1 vs rest h1
            refine ⟨cc + c, by omega, by omega, ?_⟩
            simp only [R.charge, R.map]
            have e1 : pre * n ≤ pre * c := Nat.mul_le_mul_left _ a2
            have e2 : (pre + (ovh + dens e)) * c ≤ D * c := Nat.mul_le_mul_right _ (by omega)
            have e3 : D * c ≤ D * (cc + c) := Nat.mul_le_mul_left _ (by omega)
            rw [Nat.add_mul] at e2
            omega
          · simp only [R.charge, R.map] at hn
            have hn2 : (repeatDec (decodeA e) ovh n r).res = none := by
              cases hrr : (repeatDec (decodeA e) ovh n r).res with
              | none => rfl
              | some q => simp [hrr] at hn
            have a := hrep.2 hn2
            simp only [R.charge, R.map]
            have e1 : pre * n ≤ pre * lim.getD 0 := by
              rcases hb2 with h0 | h1
              · simp [h0]
              · cases lim with
                | none => simp at h1
                | some L =>
                  simp only [overLimit, decide_eq_true_eq] at hlim
                  exact Nat.mul_le_mul_left _ (by simp only [Option.getD_some]; omega)
            have e2 : (ovh + dens e) * r.length ≤ D * r.length := Nat.mul_le_mul_right _ (by omega)
            have e3 : D * r.length ≤ D * bs.length := Nat.mul_le_mul_left _ (by omega)
            omega
    | .listI ovh e, D, bs, hb, hD => by
      simp only [bounded, Bool.and_eq_true, decide_eq_true_eq] at hb
      obtain ⟨hb1, hb3⟩ := hb
      simp only [dens] at hD
      simp only [decodeA, minSize, slack]
      cases hc : decVarUint bs with
      | none => exact Good.fail _ _ _ _
      | some p =>
        obtain ⟨n, r⟩ := p
        simp only
        have hl := decVarUint_length hc
        by_cases hn : 2 ^ 63 ≤ n
        · simp only [hn, if_true]
          refine ⟨fun v rest hr => ?_, fun hnone => by simp [R.ok] at hnone⟩
          simp only [R.ok, Option.some.injEq, Prod.mk.injEq] at hr
          obtain ⟨_, rfl⟩ := hr
          exact ⟨bs.length - r.length, by omega, by omega, by simp [R.ok]⟩
        · simp only [hn, if_false]
          have ihe := fun bs => alloc_good e (dens e) bs hb3 (Nat.le_refl _)
          have hrep := repeatDec_good (decodeA e) ovh (dens e) (minSize e) (slack e) (ovh + dens e)
            hb1 (Nat.le_refl _) ihe n r
          have hm := hrep.map Val.list
          refine ⟨fun v rest hr => ?_, fun hnone => ?_⟩
          · obtain ⟨c, a1, a2, a3⟩ := hm.1 v rest hr
            refine ⟨(bs.length - r.length) + c, by omega, by omega, ?_⟩
            have e2 : (ovh + dens e) * c ≤ D * c := Nat.mul_le_mul_right _ (by omega)
            have e3 : D * c ≤ D * ((bs.length - r.length) + c) := Nat.mul_le_mul_left _ (by omega)
            omega
          · have a := hm.2 hnone
            have e2 : (ovh + dens e) * r.length ≤ D * r.length := Nat.mul_le_mul_right _ (by omega)
            have e3 : D * r.length ≤ D * bs.length := Nat.mul_le_mul_left _ (by omega)
            omega
    | .tagged tw cs d, D, bs, hb, hD => by
      simp only [bounded, Bool.and_eq_true] at hb
      simp only [dens] at hD
      simp only [decodeA, minSize, slack]
      cases ht : readLE tw bs with
      | none => exact Good.fail _ _ _ _
      | some p =>
        obtain ⟨t, r⟩ := p
        simp only
        have hl := readLE_length ht
        cases hd : decodeCases cs t r with
        | none =>
          simp only
          exact (((alloc_good d D r hb.2 (by omega)).mono (Nat.min_le_right _ _)
            (Nat.le_max_right _ _)).map _).pre hl
        | some x =>
          simp only
          exact (((allocCases_good cs D t r hb.1 (by omega) x hd).mono (Nat.min_le_left _ _)
            (Nat.le_max_left _ _)).map _).pre hl
  theorem allocFields_good : (fs : List Ty) → (D : Nat) → (bs : Bytes) → boundedFields fs = true →
      densFields fs ≤ D → Good D (minSizeFields fs) (slackFields fs) bs (decodeFields fs bs)
    | [], D, bs, _, _ => by
      simp only [decodeFields, minSizeFields, slackFields]
      refine ⟨fun v rest hr => ?_, fun hn => by simp [R.ok] at hn⟩
      simp only [R.ok, Option.some.injEq, Prod.mk.injEq] at hr
      exact ⟨0, by simp [hr.2], Nat.le_refl _, by simp [R.ok]⟩
    | t :: ts, D, bs, hb, hD => by
      simp only [boundedFields, Bool.and_eq_true] at hb
      simp only [densFields] at hD
      have h1 := alloc_good t D bs hb.1 (by omega)
      simp only [decodeFields, minSizeFields, slackFields]
      cases hr1 : (decodeA t bs).res with
      | none =>
        simp only
        refine ⟨fun v rest hr => by simp [R.fail] at hr, fun _ => ?_⟩
        have := h1.2 hr1
        simp only [R.fail]; omega
      | some p =>
        obtain ⟨v, rest1⟩ := p
        simp only
        obtain ⟨c1, a1, a2, a3⟩ := h1.1 v rest1 hr1
        have h2 := allocFields_good ts D rest1 hb.2 (by omega)
        refine ⟨fun vs rest hr => ?_, fun hn => ?_⟩
        · simp only at hr
          split at hr
          · rename_i vs' rest' hr2
            simp only [Option.some.injEq, Prod.mk.injEq] at hr
            obtain ⟨_, rfl⟩ := hr
            obtain ⟨c2, b1, b2, b3⟩ := h2.1 vs' rest' hr2
            refine ⟨c1 + c2, by omega, by omega, ?_⟩
            simp only [Nat.mul_add]; omega
          · simp at hr
        · simp only at hn
          have hn2 : (decodeFields ts rest1).res = none := by
            cases hrr : (decodeFields ts rest1).res with
            | none => rfl
            | some q => simp [hrr] at hn
          have := h2.2 hn2
          simp only [a1, Nat.mul_add]; omega
  theorem allocCases_good : (cs : List (Nat × Ty)) → (D t : Nat) → (bs : Bytes) →
      boundedCases cs = true → densCases cs ≤ D → ∀ x, decodeCases cs t bs = some x →
      Good D (minSizeCases cs) (slackCases cs) bs x
    | [], D, t, bs, _, _ => by
      simp [decodeCases]
    | (k, ty) :: cs, D, t, bs, hb, hD => by
      simp only [boundedCases, Bool.and_eq_true] at hb
      simp only [densCases] at hD
      simp only [decodeCases, minSizeCases, slackCases]
      intro x hx
      by_cases hk : k = t
      · simp only [hk, if_true, Option.some.injEq] at hx
        subst hx
        exact (alloc_good ty D bs hb.1 (by omega)).mono (Nat.min_le_left _ _) (Nat.le_max_left _ _)
      · simp only [hk, if_false] at hx
        exact (allocCases_good cs D t bs hb.2 (by omega) x hx).mono (Nat.min_le_right _ _)
          (Nat.le_max_right _ _)
end

/-- The allocation bound in closed form. -/
theorem alloc_bound (ty : Ty) (bs : Bytes) (hb : bounded ty = true) :
    (decodeA ty bs).alloc ≤ dens ty * bs.length + slack ty := by
  have h := alloc_good ty (dens ty) bs hb (Nat.le_refl _)
  cases hr : (decodeA ty bs).res with
  | none => exact h.2 hr
  | some p =>
    obtain ⟨v, rest⟩ := p
    obtain ⟨c, a1, _, a3⟩ := h.1 v rest hr
    have : dens ty * c ≤ dens ty * bs.length := Nat.mul_le_mul_left _ (by omega)
    omega

/-- A successful read consumes at least `minSize` bytes and never yields more than it was given. -/
theorem decode_minSize (ty : Ty) (bs : Bytes) (v : Val) (rest : Bytes) (hb : bounded ty = true)
    (h : (decodeA ty bs).res = some (v, rest)) : rest.length + minSize ty ≤ bs.length := by
  obtain ⟨c, a1, a2, _⟩ := (alloc_good ty (dens ty) bs hb (Nat.le_refl _)).1 v rest h
  omega

end ElaVerif.Wire
