import ElaVerif.Lemmas.WireTokens
/-
  Above the largest version-guard constant a token stream no longer depends on the version:
  if every guard constant of a stream (and of every stream it calls) is below `K`, evaluating the
  guards at any `v ≥ K` gives what evaluating them at `K` gives.  With this the token tie, checked by
  `decide` for the versions `0 … K`, holds for every version.
-/
namespace ElaVerif.WireTokens

theorem guardsBelow_tail {K : Nat} {t : Tok} {ts : List Tok} (h : guardsBelow K (t :: ts) = true) :
    guardsBelow K ts = true := by
  cases t <;> simp_all [guardsBelow]

theorem guardsBelow_drop {K : Nat} : ∀ (n : Nat) (ts : List Tok), guardsBelow K ts = true →
    guardsBelow K (ts.drop n) = true
  | 0, ts, h => by simpa using h
  | n + 1, [], _ => by simp [guardsBelow]
  | n + 1, t :: ts, h => by
    simp only [List.drop_succ_cons]
    exact guardsBelow_drop n ts (guardsBelow_tail h)

theorem flat_const {K v : Nat} (hv : K ≤ v) : ∀ (f : Nat) (ts : List Tok), guardsBelow K ts = true →
    flat v f ts = flat K f ts := by
  intro f
  induction f with
  | zero => intro ts _; rfl
  | succ f ih =>
    intro ts h
    cases ts with
    | nil => rfl
    | cons t ts =>
      have ht := guardsBelow_tail h
      cases t with
      | ifge k n =>
        have hk : k < K := by
          have h' := h
          simp only [guardsBelow, Bool.and_eq_true, decide_eq_true_eq] at h'
          exact h'.1
        have h1 : k ≤ v := by omega
        have h2 : k ≤ K := by omega
        simp only [flat, h1, h2, if_true]
        exact ih ts ht
      | iflt k n =>
        have hk : k < K := by
          have h' := h
          simp only [guardsBelow, Bool.and_eq_true, decide_eq_true_eq] at h'
          exact h'.1
        have h1 : ¬ v < k := by omega
        have h2 : ¬ K < k := by omega
        simp only [flat, h1, h2, if_false]
        have hl := guardsBelow_drop n ts ht
        generalize ts.drop n = l at hl ⊢
        cases l with
        | nil => exact ih [] hl
        | cons t rest =>
          cases t <;> first
            | exact ih _ (guardsBelow_tail hl)
            | exact ih _ hl
      | ifeq k n =>
        have hk : k < K := by
          have h' := h
          simp only [guardsBelow, Bool.and_eq_true, decide_eq_true_eq] at h'
          exact h'.1
        have h1 : ¬ v = k := by omega
        have h2 : ¬ K = k := by omega
        simp only [flat, h1, h2, if_false]
        have hl := guardsBelow_drop n ts ht
        generalize ts.drop n = l at hl ⊢
        cases l with
        | nil => exact ih [] hl
        | cons t rest =>
          cases t <;> first
            | exact ih _ (guardsBelow_tail hl)
            | exact ih _ hl
      | ifne k n =>
        have hk : k < K := by
          have h' := h
          simp only [guardsBelow, Bool.and_eq_true, decide_eq_true_eq] at h'
          exact h'.1
        have h1 : v ≠ k := by omega
        have h2 : K ≠ k := by omega
        simp only [flat, h1, h2, ne_eq, not_false_eq_true, if_true]
        exact ih ts ht
      | els n =>
        simp only [flat]
        exact ih _ (guardsBelow_drop n ts ht)
      | raw n => simp only [flat]; rw [ih ts ht]
      | bool => simp only [flat]; rw [ih ts ht]
      | varuint => simp only [flat]; rw [ih ts ht]
      | vb m => simp only [flat]; rw [ih ts ht]
      | pad1 => simp only [flat]; rw [ih ts ht]
      | loop => simp only [flat]; rw [ih ts ht]
      | close => simp only [flat]; rw [ih ts ht]
      | call c => simp only [flat]; rw [ih ts ht]
      | dyn c => simp only [flat]; rw [ih ts ht]
      | mk c => simp only [flat]; rw [ih ts ht]
      | other c => simp only [flat]; rw [ih ts ht]

theorem lookup_mem {tbl : List (String × List Tok)} {n : String} {body : List Tok}
    (h : lookup tbl n = some body) : (n, body) ∈ tbl := by
  induction tbl with
  | nil => simp [lookup] at h
  | cons e rest ih =>
    obtain ⟨k, ts⟩ := e
    simp only [lookup] at h
    by_cases hk : k = n
    · simp only [hk, if_true, Option.some.injEq] at h
      subst h; subst hk; exact List.mem_cons_self
    · simp only [hk, if_false] at h
      exact List.mem_cons_of_mem _ (ih h)

theorem expand_const {K v : Nat} (hv : K ≤ v) (tbl : List (String × List Tok))
    (htbl : ∀ e ∈ tbl, guardsBelow K e.2 = true) : ∀ (f : Nat) (ts : List Tok),
    expand tbl v f ts = expand tbl K f ts := by
  intro f
  induction f with
  | zero => intro ts; rfl
  | succ f ih =>
    intro ts
    cases ts with
    | nil => rfl
    | cons t ts =>
      cases t with
      | call n =>
        simp only [expand]
        rw [ih ts]
        cases hl : lookup tbl n with
        | none => rfl
        | some body =>
          simp only
          rw [flat_const hv _ body (htbl _ (lookup_mem hl)), ih]
      | raw n => simp only [expand]; rw [ih ts]
      | bool => simp only [expand]; rw [ih ts]
      | varuint => simp only [expand]; rw [ih ts]
      | vb m => simp only [expand]; rw [ih ts]
      | pad1 => simp only [expand]; rw [ih ts]
      | loop => simp only [expand]; rw [ih ts]
      | close => simp only [expand]; rw [ih ts]
      | ifge k n => simp only [expand]; rw [ih ts]
      | iflt k n => simp only [expand]; rw [ih ts]
      | ifeq k n => simp only [expand]; rw [ih ts]
      | ifne k n => simp only [expand]; rw [ih ts]
      | els n => simp only [expand]; rw [ih ts]
      | dyn c => simp only [expand]; rw [ih ts]
      | mk c => simp only [expand]; rw [ih ts]
      | other c => simp only [expand]; rw [ih ts]

/-- reader and writer tokens of a stream are the same at every version `v ≥ K` as at `K`, provided all
    guard constants of all streams of the table are below `K` -/
theorem tokens_const {K v : Nat} (hv : K ≤ v) (ss : List Stream)
    (hg : ∀ s ∈ ss, guardsBelow K s.ser = true ∧ guardsBelow K s.de = true) (s : Stream) (hs : s ∈ ss) :
    deToks ss s v = deToks ss s K ∧ serToks ss s v = serToks ss s K := by
  have hde : ∀ e ∈ deTable ss, guardsBelow K e.2 = true := by
    intro e he
    simp only [deTable, List.mem_map] at he
    obtain ⟨s', hs', rfl⟩ := he
    exact (hg s' hs').2
  have hser : ∀ e ∈ serTable ss, guardsBelow K e.2 = true := by
    intro e he
    simp only [serTable, List.mem_map] at he
    obtain ⟨s', hs', rfl⟩ := he
    exact (hg s' hs').1
  unfold deToks serToks
  rw [flat_const hv _ s.de (hg s hs).2, flat_const hv _ s.ser (hg s hs).1,
    expand_const hv _ hde, expand_const hv _ hser]
  exact ⟨rfl, rfl⟩

end ElaVerif.WireTokens
