import ElaVerif.Model.History
/-!
Helper lemmas for the history model (C20, reused by C21 / C22).
-/
namespace ElaVerif.History
variable {σ : Type}

/-! ### folds -/

theorem applyExec_append (a b : List (Change σ)) (s : σ) :
    applyExec (a ++ b) s = applyExec b (applyExec a s) := by
  simp [applyExec, List.foldl_append]

theorem commitAll_append (a b : List (HeightChanges σ)) (s : σ) :
    commitAll (a ++ b) s = commitAll b (commitAll a s) := by
  simp [commitAll, List.foldl_append]

theorem commitAll_nil (s : σ) : commitAll ([] : List (HeightChanges σ)) s = s := rfl

theorem commitAll_single (b : HeightChanges σ) (s : σ) : commitAll [b] s = b.commit s := rfl

theorem run_append (a b : List (HeightChanges σ)) (s0 : σ) :
    run (a ++ b) s0 = commitAll b (run a s0) := commitAll_append a b s0

theorem run_snoc (a : List (HeightChanges σ)) (b : HeightChanges σ) (s0 : σ) :
    run (a ++ [b]) s0 = b.commit (run a s0) := by
  rw [run_append]; rfl

/-! ### the block-level inverse hypothesis -/

/-- The forward-order undo of a height inverts its forward-order execute at state `s`. -/
def Inv (b : HeightChanges σ) (s : σ) : Prop := b.rollback (b.commit s) = s

/-- Every block of the chain above height `h` satisfies `Inv` at the state it was committed on. -/
def InvAbove (h : Nat) (chain : List (HeightChanges σ)) (s0 : σ) : Prop :=
  ∀ pre b post, chain = pre ++ b :: post → h < b.height → Inv b (run pre s0)

/-- rolling back a run of entries (highest first) that was committed on top of `base`. -/
theorem rollback_rev_run (s0 : σ) (base : List (HeightChanges σ)) :
    ∀ r : List (HeightChanges σ),
      (∀ pre b post, r.reverse = pre ++ b :: post → Inv b (run (base ++ pre) s0)) →
      r.foldl (fun s hc => hc.rollback s) (run (base ++ r.reverse) s0) = run base s0 := by
  intro r
  induction r with
  | nil => intro _; simp
  | cons b r ih =>
    intro hinv
    have hb : Inv b (run (base ++ r.reverse) s0) := by
      apply hinv r.reverse b []
      simp
    simp only [List.reverse_cons, List.foldl_cons]
    rw [← List.append_assoc, run_snoc, hb]
    apply ih
    intro pre b' post hsplit
    apply hinv pre b' (post ++ [b])
    simp [hsplit]

theorem rollbackAllRev_run (s0 : σ) (base hi : List (HeightChanges σ))
    (hinv : ∀ pre b post, hi = pre ++ b :: post → Inv b (run (base ++ pre) s0)) :
    rollbackAllRev hi (run (base ++ hi) s0) = run base s0 := by
  have := rollback_rev_run s0 base hi.reverse (by simpa using hinv)
  simpa [rollbackAllRev] using this

/-! ### sorted heights -/

def Sorted (l : List (HeightChanges σ)) : Prop := (heights l).Pairwise (· < ·)

theorem sorted_append {a b : List (HeightChanges σ)} (h : Sorted (a ++ b)) :
    Sorted a ∧ Sorted b ∧ ∀ x ∈ a, ∀ y ∈ b, x.height < y.height := by
  unfold Sorted heights at *
  rw [List.map_append, List.pairwise_append] at h
  refine ⟨h.1, h.2.1, ?_⟩
  intro x hx y hy
  exact h.2.2 _ (List.mem_map_of_mem hx) _ (List.mem_map_of_mem hy)

theorem distinctCount_sorted : ∀ l : List Nat, l.Pairwise (· < ·) → distinctCount l = l.length := by
  intro l
  induction l with
  | nil => intro _; rfl
  | cons x xs ih =>
    intro h
    rw [List.pairwise_cons] at h
    have hmem : x ∉ xs := fun hc => by have := h.1 x hc; omega
    simp [distinctCount, hmem, ih h.2]

theorem firstHeightCount_sorted (c : HeightChanges σ) (l : List (HeightChanges σ)) (h : Sorted (c :: l)) :
    firstHeightCount (c :: l) = 1 := by
  unfold Sorted heights at h
  rw [List.map_cons, List.pairwise_cons] at h
  have : l.countP (fun x => x.height == c.height) = 0 := by
    rw [List.countP_eq_zero]
    intro x hx
    have := h.1 x.height (List.mem_map_of_mem hx)
    simp; omega
  simp [firstHeightCount, List.countP_cons, this]

/-- split a sorted list at a height -/
theorem sorted_split (h : Nat) : ∀ l : List (HeightChanges σ), Sorted l →
    ∃ lo hi, l = lo ++ hi ∧ (∀ b ∈ lo, b.height ≤ h) ∧ (∀ b ∈ hi, h < b.height) := by
  intro l
  induction l with
  | nil => intro _; exact ⟨[], [], rfl, by simp, by simp⟩
  | cons c l ih =>
    intro hs
    have hs' : Sorted l := by
      unfold Sorted heights at *; rw [List.map_cons, List.pairwise_cons] at hs; exact hs.2
    by_cases hc : c.height ≤ h
    · obtain ⟨lo, hi, e, h1, h2⟩ := ih hs'
      refine ⟨c :: lo, hi, by simp [e], ?_, h2⟩
      intro b hb
      rcases List.mem_cons.mp hb with rfl | hb
      · exact hc
      · exact h1 b hb
    · refine ⟨[], c :: l, rfl, by simp, ?_⟩
      intro b hb
      unfold Sorted heights at hs; rw [List.map_cons, List.pairwise_cons] at hs
      rcases List.mem_cons.mp hb with rfl | hb
      · omega
      · have := hs.1 b.height (List.mem_map_of_mem hb); omega

theorem filter_le_split (h : Nat) (lo hi : List (HeightChanges σ))
    (h1 : ∀ b ∈ lo, b.height ≤ h) (h2 : ∀ b ∈ hi, h < b.height) :
    upTo h (lo ++ hi) = lo := by
  unfold upTo
  rw [List.filter_append]
  have a : lo.filter (fun b => decide (b.height ≤ h)) = lo := by
    rw [List.filter_eq_self]; intro b hb; simpa using h1 b hb
  have b : hi.filter (fun b => decide (b.height ≤ h)) = [] := by
    rw [List.filter_eq_nil_iff]; intro b hb; have := h2 b hb; simp; omega
  simp [a, b]

theorem filter_gt_split (h : Nat) (lo hi : List (HeightChanges σ))
    (h1 : ∀ b ∈ lo, b.height ≤ h) (h2 : ∀ b ∈ hi, h < b.height) :
    (lo ++ hi).filter (fun b => decide (h < b.height)) = hi := by
  rw [List.filter_append]
  have a : lo.filter (fun b => decide (h < b.height)) = [] := by
    rw [List.filter_eq_nil_iff]; intro b hb; have := h1 b hb; simp; omega
  have b : hi.filter (fun b => decide (h < b.height)) = hi := by
    rw [List.filter_eq_self]; intro b hb; simpa using h2 b hb
  simp [a, b]

theorem takeWhile_le_split (h : Nat) (lo hi : List (HeightChanges σ))
    (h1 : ∀ b ∈ lo, b.height ≤ h) (h2 : ∀ b ∈ hi, h < b.height) :
    (lo ++ hi).takeWhile (fun b => decide (b.height ≤ h)) = lo := by
  induction lo with
  | nil =>
    cases hi with
    | nil => rfl
    | cons c hi =>
      have := h2 c (by simp)
      simp [List.takeWhile_cons]; omega
  | cons c lo ih =>
    have hc := h1 c (by simp)
    simp only [List.cons_append, List.takeWhile_cons, hc, decide_true, if_true]
    rw [ih (fun b hb => h1 b (by simp [hb]))]

theorem foldl_rollback_gt_split (h : Nat) (lo hi : List (HeightChanges σ)) (s : σ)
    (h1 : ∀ b ∈ lo, b.height ≤ h) (h2 : ∀ b ∈ hi, h < b.height) :
    (lo ++ hi).reverse.foldl (fun s hc => if hc.height > h then hc.rollback s else s) s
      = rollbackAllRev hi s := by
  rw [List.reverse_append, List.foldl_append]
  have a : ∀ (l : List (HeightChanges σ)) (s : σ), (∀ b ∈ l, h < b.height) →
      l.foldl (fun s hc => if hc.height > h then hc.rollback s else s) s
        = l.foldl (fun s hc => hc.rollback s) s := by
    intro l
    induction l with
    | nil => intro s _; rfl
    | cons c l ih =>
      intro s hl
      have hc := hl c (by simp)
      simp only [List.foldl_cons, gt_iff_lt, hc, if_true]
      exact ih _ (fun b hb => hl b (by simp [hb]))
  have b : ∀ (l : List (HeightChanges σ)) (s : σ), (∀ b ∈ l, b.height ≤ h) →
      l.foldl (fun s hc => if hc.height > h then hc.rollback s else s) s = s := by
    intro l
    induction l with
    | nil => intro s _; rfl
    | cons c l ih =>
      intro s hl
      have hc := hl c (by simp)
      have : ¬ (c.height > h) := by omega
      simp only [List.foldl_cons, this, if_false]
      exact ih _ (fun b hb => hl b (by simp [hb]))
  rw [a hi.reverse s (by intro b hb; exact h2 b (by simpa using hb))]
  rw [b lo.reverse _ (by intro b hb; exact h1 b (by simpa using hb))]
  rfl

/-- strictly increasing heights above `lb` and at most `N`: there are at most `N - lb` of them -/
theorem sorted_length_le : ∀ (l : List (HeightChanges σ)) (lb N : Nat), Sorted l →
    (∀ b ∈ l, lb < b.height) → (∀ b ∈ l, b.height ≤ N) → l = [] ∨ lb + l.length ≤ N := by
  intro l
  induction l with
  | nil => intro _ _ _ _ _; left; rfl
  | cons c l ih =>
    intro lb N hs hlb hN
    right
    have hs2 := hs
    unfold Sorted heights at hs2; rw [List.map_cons, List.pairwise_cons] at hs2
    have hs' : Sorted l := hs2.2
    have hc1 := hlb c (by simp)
    have hc2 := hN c (by simp)
    rcases ih c.height N hs' (fun b hb => hs2.1 b.height (List.mem_map_of_mem hb))
        (fun b hb => hN b (by simp [hb])) with rfl | h
    · simp; omega
    · simp; omega

/-! ### `Append`s of one block -/

theorem appendAll_cached (H : History σ) (s : σ) (h : Nat) (hh : h ≠ 0) (pre : List (Change σ))
    (hc : H.cached = some ⟨h, pre⟩) (ht : H.temp = []) :
    ∀ cs : List (Change σ), appendAll H s h cs = (.ok, { H with cached := some ⟨h, pre ++ cs⟩ }, s) := by
  intro cs
  induction cs generalizing H pre with
  | nil =>
    simp only [appendAll, List.append_nil]
    cases H; simp_all
  | cons c cs ih =>
    have step : append H s h c = (.ok, { H with cached := some ⟨h, pre ++ [c]⟩ }, s) := by
      cases H; simp_all [append]
    simp only [appendAll, step]
    rw [ih { H with cached := some ⟨h, pre ++ [c]⟩ } (pre ++ [c]) rfl ht]
    simp

/-- From a history with nothing pending, appending the changes of block `b` (height above the
    history's) succeeds and leaves exactly `b` cached (nothing if the block is empty). -/
theorem appendAll_block (H : History σ) (s : σ) (b : HeightChanges σ)
    (hc : H.cached = none) (ht : H.temp = []) (hh : H.height < b.height) :
    appendAll H s b.height b.changes =
      (.ok, { H with cached := if b.changes = [] then none else some b }, s) := by
  cases hb : b.changes with
  | nil =>
    simp only [appendAll, if_true]
    cases H; simp_all
  | cons c cs =>
    have hne : b.height ≠ 0 := by omega
    have step : append H s b.height c = (.ok, { H with cached := some ⟨b.height, [c]⟩ }, s) := by
      cases H; simp_all [append]; omega
    simp only [appendAll, step]
    rw [appendAll_cached { H with cached := some ⟨b.height, [c]⟩ } s b.height hne [c] rfl ht]
    cases b; simp_all

/-! ### the refinement invariant -/

/-- `(H, s)` represents the logical chain `chain` built on `s0`: nothing pending, the stored
    entries are the newest blocks of the chain, the caller's state is the replay of the chain,
    `seekHeight` is either fresh (`= height`) or stale-high (left behind by `RollbackTo`). -/
structure Good (cap : Nat) (H : History σ) (s : σ) (chain : List (HeightChanges σ)) (s0 : σ) : Prop where
  cap_pos : 1 ≤ cap
  cap_eq : H.capacity = cap
  cached : H.cached = none
  temp : H.temp = []
  suffix : H.changes <:+ chain
  sorted : Sorted chain
  pos : ∀ b ∈ chain, 0 < b.height
  height_ge : ∀ b ∈ chain, b.height ≤ H.height
  state : s = run chain s0
  seek : H.seekHeight = H.height ∨ H.height < H.seekHeight
  bound : H.height < 2147483648 ∧ H.seekHeight < 2147483648 ∧ cap < 2147483648
  len : H.changes.length ≤ cap

theorem good_new (cap : Nat) (h1 : 1 ≤ cap) (h2 : cap < 2147483648) (s0 : σ) :
    Good cap (newHistory cap) s0 [] s0 := by
  refine ⟨h1, rfl, rfl, rfl, ?_, ?_, ?_, ?_, rfl, Or.inl rfl, ?_, ?_⟩ <;> simp [newHistory, Sorted, heights]
  omega

theorem Good.sorted_changes {cap : Nat} {H : History σ} {s : σ} {chain : List (HeightChanges σ)} {s0 : σ}
    (g : Good cap H s chain s0) : Sorted H.changes := by
  obtain ⟨pre, e⟩ := g.suffix
  have := g.sorted; rw [← e] at this
  exact (sorted_append this).2.1

/-- the redo loop at the start of `Commit` does nothing when `seekHeight` is fresh or stale-high -/
theorem Good.commit_seek_noop {cap : Nat} {H : History σ} {s : σ} {chain : List (HeightChanges σ)} {s0 : σ}
    (g : Good cap H s chain s0) :
    (if sub32 H.height H.seekHeight ≤ H.changes.length
      then commitAll (H.changes.drop (H.changes.length - sub32 H.height H.seekHeight)) s else s) = s := by
  have hb := g.bound; have hl := g.len
  rcases g.seek with h | h
  · have : sub32 H.height H.seekHeight = 0 := by unfold sub32; rw [h]; omega
    simp [this, commitAll_nil]
  · have : ¬ (sub32 H.height H.seekHeight ≤ H.changes.length) := by unfold sub32; omega
    simp [this]

theorem commit_normal (H : History σ) (s : σ) (h : Nat) (ht : H.temp = []) :
    commit H s h =
      ({ H with height := h, seekHeight := h, cached := none,
                changes := (if distinctCount (heights H.changes) ≥ H.capacity
                  then H.changes.drop (firstHeightCount H.changes) else H.changes) ++ [H.cached.getD ⟨h, []⟩] },
       (H.cached.getD ⟨h, []⟩).commit
         (if sub32 H.height H.seekHeight ≤ H.changes.length
           then commitAll (H.changes.drop (H.changes.length - sub32 H.height H.seekHeight)) s else s)) := by
  unfold commit
  simp only [ht, List.isEmpty_nil]
  cases H.cached <;> simp

/-- the result of `Commit` on a good history with block `b` cached -/
def afterBlock (H : History σ) (b : HeightChanges σ) : History σ :=
  { H with height := b.height, seekHeight := b.height, cached := none,
           changes := (if H.changes.length ≥ H.capacity then H.changes.drop 1 else H.changes) ++ [b] }

/-- the redo loop at the start of `Commit` -/
def redo (H : History σ) (s : σ) : σ :=
  if sub32 H.height H.seekHeight ≤ H.changes.length
    then commitAll (H.changes.drop (H.changes.length - sub32 H.height H.seekHeight)) s else s

theorem processBlock_eq (H : History σ) (s : σ) (b : HeightChanges σ)
    (hc : H.cached = none) (ht : H.temp = []) (hh : H.height < b.height)
    (hsc : Sorted H.changes) (hcap : 1 ≤ H.capacity) :
    processBlock H s b = (.ok, afterBlock H b, b.commit (redo H s)) := by
  have hdist : distinctCount (heights H.changes) = H.changes.length := by
    rw [distinctCount_sorted _ hsc]; simp [heights]
  have hfirst : H.changes.length ≥ H.capacity → firstHeightCount H.changes = 1 := by
    intro hge
    cases hc : H.changes with
    | nil => simp [hc] at hge; omega
    | cons c l => rw [hc] at hsc; exact firstHeightCount_sorted c l hsc
  have hhc : (if b.changes = [] then none else some b : Option (HeightChanges σ)).getD ⟨b.height, []⟩ = b := by
    by_cases hbc : b.changes = []
    · cases b; simp_all
    · simp [hbc]
  unfold processBlock
  rw [appendAll_block H s b hc ht hh]
  simp only []
  rw [commit_normal { H with cached := if b.changes = [] then none else some b } s b.height ht]
  simp only [hhc, hdist]
  unfold afterBlock redo
  by_cases hge : H.changes.length ≥ H.capacity
  · simp [hge, hfirst hge]
  · simp [hge]

theorem processBlock_good {cap : Nat} {H : History σ} {s : σ} {chain : List (HeightChanges σ)} {s0 : σ}
    (g : Good cap H s chain s0) (b : HeightChanges σ) (hh : H.height < b.height) (hb : b.height < 2147483648) :
    processBlock H s b = (.ok, afterBlock H b, b.commit s) ∧
    Good cap (afterBlock H b) (b.commit s) (chain ++ [b]) s0 ∧
    (afterBlock H b).seekHeight = (afterBlock H b).height := by
  have hproc : processBlock H s b = (.ok, afterBlock H b, b.commit s) := by
    have := processBlock_eq H s b g.cached g.temp hh g.sorted_changes (by have := g.cap_pos; have := g.cap_eq; omega)
    rw [this]; unfold redo; rw [g.commit_seek_noop]
  refine ⟨hproc, ?_, rfl⟩
  obtain ⟨pre, e⟩ := g.suffix
  have hsorted : Sorted (chain ++ [b]) := by
    unfold Sorted heights
    rw [List.map_append, List.pairwise_append]
    refine ⟨g.sorted, by simp, ?_⟩
    intro x hx y hy
    obtain ⟨bx, hbx, rfl⟩ := List.mem_map.mp hx
    have := g.height_ge bx hbx
    simp at hy; omega
  refine ⟨g.cap_pos, g.cap_eq, rfl, g.temp, ?_, hsorted, ?_, ?_, ?_, Or.inl rfl, ?_, ?_⟩
  · -- suffix
    unfold afterBlock
    by_cases hge : H.changes.length ≥ H.capacity
    · simp only [hge, if_true]
      refine ⟨pre ++ H.changes.take 1, ?_⟩
      rw [← e]
      have : H.changes.take 1 ++ H.changes.drop 1 = H.changes := List.take_append_drop 1 _
      calc pre ++ List.take 1 H.changes ++ (List.drop 1 H.changes ++ [b])
          = pre ++ (List.take 1 H.changes ++ List.drop 1 H.changes) ++ [b] := by simp [List.append_assoc]
        _ = pre ++ H.changes ++ [b] := by rw [this]
    · simp only [hge, if_false]
      exact ⟨pre, by rw [← e]; simp⟩
  · intro x hx
    rcases List.mem_append.mp hx with hx | hx
    · exact g.pos x hx
    · simp at hx; subst hx; omega
  · intro x hx
    rcases List.mem_append.mp hx with hx | hx
    · have := g.height_ge x hx; simp [afterBlock]; omega
    · simp at hx; subst hx; simp [afterBlock]
  · rw [run_snoc, g.state]
  · obtain ⟨_, _, b3⟩ := g.bound; exact ⟨hb, hb, b3⟩
  · have := g.len; have := g.cap_eq
    unfold afterBlock
    by_cases hge : H.changes.length ≥ H.capacity
    · simp only [hge, if_true, List.length_append, List.length_drop, List.length_singleton]
      have := g.cap_pos; omega
    · simp only [hge, if_false, List.length_append, List.length_singleton]; omega

/-- number of chain blocks above a height -/
def depth (h : Nat) (chain : List (HeightChanges σ)) : Nat :=
  (chain.filter (fun b => decide (h < b.height))).length

/-- decomposition used by rollback and seek: within capacity, the stored entries are
    `lo ++ hi` with `hi` exactly the chain blocks above `h`. -/
theorem Good.split_at {cap : Nat} {H : History σ} {s : σ} {chain : List (HeightChanges σ)} {s0 : σ}
    (g : Good cap H s chain s0) (h : Nat) (hd : depth h chain ≤ H.changes.length) :
    ∃ pre lo hi, chain = pre ++ lo ++ hi ∧ H.changes = lo ++ hi ∧
      (∀ b ∈ pre ++ lo, b.height ≤ h) ∧ (∀ b ∈ hi, h < b.height) ∧ hi.length = depth h chain := by
  obtain ⟨clo, chi, e, h1, h2⟩ := sorted_split h chain g.sorted
  have hdep : depth h chain = chi.length := by
    unfold depth; rw [e, filter_gt_split h clo chi h1 h2]
  have hsuf : chi <:+ H.changes :=
    List.suffix_of_suffix_length_le ⟨clo, e.symm⟩ g.suffix (by omega)
  obtain ⟨lo, elo⟩ := hsuf
  obtain ⟨pre, epre⟩ := g.suffix
  have : clo = pre ++ lo := by
    have : clo ++ chi = (pre ++ lo) ++ chi := by rw [← e, ← epre, ← elo, List.append_assoc]
    exact List.append_cancel_right this
  refine ⟨pre, lo, chi, by rw [← this, e], elo.symm, ?_, h2, hdep.symm⟩
  rw [← this]; exact h1

theorem rollbackTo_good {cap : Nat} {H : History σ} {s : σ} {chain : List (HeightChanges σ)} {s0 : σ}
    (g : Good cap H s chain s0) (h : Nat) (hlt : h < H.height)
    (hd : depth h chain ≤ H.changes.length) (hinv : InvAbove h chain s0) :
    Good cap (rollbackTo H s h).1 (rollbackTo H s h).2 (upTo h chain) s0 ∧
    (rollbackTo H s h).1.height = h ∧
    (rollbackTo H s h).1.changes.length + depth h chain = H.changes.length := by
  obtain ⟨pre, lo, hi, ec, eH, h1, h2, hlen⟩ := g.split_at h hd
  have hnot : ¬ (h ≥ H.height) := by omega
  have h1lo : ∀ b ∈ lo, b.height ≤ h := fun b hb => h1 b (by simp [hb])
  have hup : upTo h chain = pre ++ lo := by rw [ec]; exact filter_le_split h (pre ++ lo) hi h1 h2
  have hstate : rollbackAllRev hi s = run (pre ++ lo) s0 := by
    rw [g.state, ec]
    apply rollbackAllRev_run
    intro p b q hsplit
    have hb : h < b.height := h2 b (by rw [hsplit]; simp)
    exact hinv (pre ++ lo ++ p) b q (by rw [ec, hsplit]; simp) hb
  have hr : rollbackTo H s h =
      ({ H with temp := [], changes := lo, height := h }, run (pre ++ lo) s0) := by
    unfold rollbackTo
    simp only [hnot, if_false, g.temp, List.isEmpty_nil, if_true]
    rw [eH, foldl_rollback_gt_split h lo hi s h1lo h2, takeWhile_le_split h lo hi h1lo h2, hstate]
  rw [hr]
  refine ⟨⟨g.cap_pos, g.cap_eq, g.cached, rfl, ?_, ?_, ?_, ?_, ?_, ?_, ?_, ?_⟩, rfl, ?_⟩
  · rw [hup]; exact ⟨pre, rfl⟩
  · have := g.sorted; rw [ec] at this; rw [hup]; exact (sorted_append this).1
  · intro b hb; rw [hup] at hb; exact g.pos b (by rw [ec]; exact List.mem_append_left _ hb)
  · intro b hb; rw [hup] at hb; exact h1 b hb
  · rw [hup]
  · right; rcases g.seek with e | e <;> simp <;> omega
  · have := g.bound; simp; omega
  · have := g.len; rw [eH] at this; simp at this ⊢; omega
  · rw [eH, ← hlen]; simp

/-! ### seeking -/

/-- `SeekTo v` precondition: `seekHeight` fresh, and the index arithmetic of `SeekTo` agrees with
    the heights (true when heights are consecutive), within the stored entries. -/
structure Seekable (H : History σ) (chain : List (HeightChanges σ)) (v : Nat) : Prop where
  fresh : H.seekHeight = H.height
  lt : v < H.height
  agree : H.height - v = depth v chain
  within : depth v chain ≤ H.changes.length

theorem Good.length_le_height {cap : Nat} {H : History σ} {s : σ} {chain : List (HeightChanges σ)} {s0 : σ}
    (g : Good cap H s chain s0) : H.changes.length ≤ H.height := by
  obtain ⟨pre, e⟩ := g.suffix
  have hin : ∀ b ∈ H.changes, b ∈ chain := fun b hb => by rw [← e]; exact List.mem_append_right _ hb
  rcases sorted_length_le H.changes 0 H.height g.sorted_changes
      (fun b hb => g.pos b (hin b hb)) (fun b hb => g.height_ge b (hin b hb)) with h | h
  · simp [h]
  · omega

theorem Good.limit_ok {cap : Nat} {H : History σ} {s : σ} {chain : List (HeightChanges σ)} {s0 : σ}
    (g : Good cap H s chain s0) (sk : Nat) :
    sub32 H.height (distinctCount (heights ({ H with seekHeight := sk } : History σ).changes))
      = H.height - H.changes.length := by
  have hdist : distinctCount (heights H.changes) = H.changes.length := by
    rw [distinctCount_sorted _ g.sorted_changes]; simp [heights]
  have := g.length_le_height; have := g.bound
  simp only [hdist]; unfold sub32; omega

theorem drop_split (lo hi : List (HeightChanges σ)) (k : Nat) (hk : k = hi.length) :
    (lo ++ hi).drop ((lo ++ hi).length - k) = hi := by
  subst hk
  have : (lo ++ hi).length - hi.length = lo.length := by simp
  rw [this]; simp

theorem seekTo_good {cap : Nat} {H : History σ} {s : σ} {chain : List (HeightChanges σ)} {s0 : σ}
    (g : Good cap H s chain s0) (v : Nat) (sk : Seekable H chain v) (hinv : InvAbove v chain s0) :
    seekTo H s v = (.ok, { H with seekHeight := v }, run (upTo v chain) s0) := by
  obtain ⟨pre, lo, hi, ec, eH, h1, h2, hlen⟩ := g.split_at v sk.within
  have hup : upTo v chain = pre ++ lo := by rw [ec]; exact filter_le_split v (pre ++ lo) hi h1 h2
  have hstate : rollbackAllRev hi s = run (pre ++ lo) s0 := by
    rw [g.state, ec]
    apply rollbackAllRev_run
    intro p b q hsplit
    have hb : v < b.height := h2 b (by rw [hsplit]; simp)
    exact hinv (pre ++ lo ++ p) b q (by rw [ec, hsplit]; simp) hb
  have hlim := g.limit_ok H.seekHeight
  have hlim' : sub32 H.height (distinctCount (heights H.changes)) = H.height - H.changes.length := by
    simpa using hlim
  have hk : H.height - v = hi.length := by rw [hlen]; exact sk.agree
  have hw := sk.within; have hlt := sk.lt; have hf := sk.fresh
  unfold seekTo
  simp only [hlim']
  have c1 : ¬ (v < H.height - H.changes.length) := by omega
  have c2 : v ≤ H.seekHeight := by omega
  have c3 : H.seekHeight - v ≤ H.changes.length := by omega
  simp only [c1, if_false, c2, if_true, c3]
  rw [hf, eH, drop_split lo hi _ hk, hstate, hup]

theorem seekBack_good {cap : Nat} {H : History σ} {s : σ} {chain : List (HeightChanges σ)} {s0 : σ}
    (g : Good cap H s chain s0) (v : Nat) (sk : Seekable H chain v) :
    seekTo { H with seekHeight := v } (run (upTo v chain) s0) H.height = (.ok, H, s) := by
  obtain ⟨pre, lo, hi, ec, eH, h1, h2, hlen⟩ := g.split_at v sk.within
  have hup : upTo v chain = pre ++ lo := by rw [ec]; exact filter_le_split v (pre ++ lo) hi h1 h2
  have hlim := g.limit_ok v
  have hk : H.height - v = hi.length := by rw [hlen]; exact sk.agree
  have hw := sk.within; have hlt := sk.lt; have hf := sk.fresh
  unfold seekTo
  simp only [hlim]
  have c1 : ¬ (H.height < H.height - H.changes.length) := by omega
  have c2 : ¬ (H.height ≤ v) := by omega
  have c3 : H.height - v ≤ H.changes.length := by omega
  simp only [c1, if_false, c2, c3, if_true]
  have hs : commitAll ((lo ++ hi).drop ((lo ++ hi).length - (H.height - v))) (run (pre ++ lo) s0) = s := by
    rw [drop_split lo hi _ hk, g.state, ec, run_append (pre ++ lo) hi]
  rw [eH, hup, hs]
  cases H; simp_all

/-- committing the next block from a seeked state is the same as never having seeked -/
theorem seek_then_block {cap : Nat} {H : History σ} {s : σ} {chain : List (HeightChanges σ)} {s0 : σ}
    (g : Good cap H s chain s0) (v : Nat) (sk : Seekable H chain v)
    (b : HeightChanges σ) (hh : H.height < b.height) :
    processBlock { H with seekHeight := v } (run (upTo v chain) s0) b = processBlock H s b := by
  obtain ⟨pre, lo, hi, ec, eH, h1, h2, hlen⟩ := g.split_at v sk.within
  have hup : upTo v chain = pre ++ lo := by rw [ec]; exact filter_le_split v (pre ++ lo) hi h1 h2
  have hk : H.height - v = hi.length := by rw [hlen]; exact sk.agree
  have hw := sk.within; have hlt := sk.lt; have hf := sk.fresh; have hb := g.bound
  have hcap : 1 ≤ H.capacity := by have := g.cap_pos; have := g.cap_eq; omega
  rw [processBlock_eq H s b g.cached g.temp hh g.sorted_changes hcap]
  rw [processBlock_eq { H with seekHeight := v } _ b g.cached g.temp hh g.sorted_changes hcap]
  have r1 : redo H s = s := by unfold redo; exact g.commit_seek_noop
  have r2 : redo { H with seekHeight := v } (run (upTo v chain) s0) = s := by
    unfold redo
    have hs32 : sub32 H.height v = H.height - v := by unfold sub32; omega
    simp only [hs32]
    have c3 : H.height - v ≤ H.changes.length := by omega
    simp only [c3, if_true]
    rw [eH, drop_split lo hi _ hk, hup, g.state, ec, run_append (pre ++ lo) hi]
  rw [r1, r2]
  rfl

theorem Good.set_seek {cap : Nat} {H : History σ} {s : σ} {chain : List (HeightChanges σ)} {s0 : σ}
    (g : Good cap H s chain s0) :
    Good cap { H with seekHeight := H.height } s chain s0 :=
  { g with seek := Or.inl rfl, bound := ⟨g.bound.1, g.bound.1, g.bound.2.2⟩ }

/-- `SeekTo v; RollbackSeekTo v` = truncating the chain at `v` -/
theorem rbseek_good {cap : Nat} {H : History σ} {s : σ} {chain : List (HeightChanges σ)} {s0 : σ}
    (g : Good cap H s chain s0) (v : Nat) (sk : Seekable H chain v) (hinv : InvAbove v chain s0) :
    Good cap (rollbackSeekTo { H with seekHeight := v } (run (upTo v chain) s0) v).1
             (rollbackSeekTo { H with seekHeight := v } (run (upTo v chain) s0) v).2 (upTo v chain) s0 ∧
    (rollbackSeekTo { H with seekHeight := v } (run (upTo v chain) s0) v).1.seekHeight = v ∧
    (rollbackSeekTo { H with seekHeight := v } (run (upTo v chain) s0) v).1.height = v := by
  have hlt := sk.lt
  obtain ⟨gr, hh, _⟩ := rollbackTo_good g v hlt sk.within hinv
  have hnot : ¬ (v ≥ H.height) := by omega
  have e : rollbackSeekTo { H with seekHeight := v } (run (upTo v chain) s0) v
      = ({ (rollbackTo H s v).1 with seekHeight := (rollbackTo H s v).1.height }, (rollbackTo H s v).2) := by
    have hs : (rollbackTo H s v).2 = run (upTo v chain) s0 := gr.state
    rw [hs, hh]
    unfold rollbackSeekTo rollbackTo
    simp [hnot]
  rw [e]
  exact ⟨gr.set_seek, hh, hh⟩

/-! ### temporary changes -/

theorem append_temp (H : History σ) (s : σ) (c : Change σ) :
    append H s 0 c = (.ok, { H with temp := H.temp ++ [c] }, s) := by
  simp [append]

theorem commit_temp (H : History σ) (s : σ) (h : Nat) (ht : H.temp ≠ []) :
    commit H s h = (H, applyExec H.temp s) := by
  unfold commit
  have : H.temp.isEmpty = false := by cases hh : H.temp <;> simp_all
  simp [this]

/-- after the temporary changes were executed once, the next block's first `Append` undoes them:
    processing the block is the same as if they had never been recorded. -/
theorem temp_then_block (H : History σ) (s : σ) (ts : List (Change σ)) (b : HeightChanges σ)
    (ht : H.temp = []) (hne : b.changes ≠ []) (hb : b.height ≠ 0)
    (hinv : applyUndo ts (applyExec ts s) = s) :
    processBlock { H with temp := ts } (applyExec ts s) b = processBlock H s b := by
  cases hcs : b.changes with
  | nil => exact absurd hcs hne
  | cons c cs =>
    have e : append { H with temp := ts } (applyExec ts s) b.height c = append H s b.height c := by
      cases hts : ts with
      | nil => subst hts; simp [applyExec] at *; cases H; simp_all
      | cons t ts' =>
        unfold append
        simp only [hb, if_false, ht, List.isEmpty_nil, List.isEmpty_cons, if_true]
        rw [← hts, hinv]
        simp
    unfold processBlock
    rw [hcs]
    simp only [appendAll, e]

/-- the first `Append` after temporary changes were executed undoes them, whatever is cached:
    it behaves exactly like the same `Append` on the history that never saw them
    (this is the line of `Append` that runs `tempChanges` rollbacks unconditionally). -/
theorem temp_then_append (H : History σ) (s : σ) (ts : List (Change σ)) (h : Nat) (c : Change σ)
    (ht : H.temp = []) (hb : h ≠ 0) (hinv : applyUndo ts (applyExec ts s) = s) :
    append { H with temp := ts } (applyExec ts s) h c = append H s h c := by
  cases hts : ts with
  | nil => subst hts; simp [applyExec] at *; cases H; simp_all
  | cons t ts' =>
    unfold append
    simp only [hb, if_false, ht, List.isEmpty_nil, List.isEmpty_cons, if_true]
    rw [← hts, hinv]
    simp

/-- `RollbackSeekTo v` keeps exactly the entries of height `≤ v` (the entry of the target height stays) -/
theorem rollbackSeekTo_changes (H : History σ) (s : σ) (v : Nat) (hlt : v < H.height) :
    (rollbackSeekTo H s v).1.changes = H.changes.takeWhile (fun hc => hc.height ≤ v) ∧
    (rollbackSeekTo H s v).1.height = v ∧ (rollbackSeekTo H s v).2 = s := by
  have : ¬ (v ≥ H.height) := by omega
  simp [rollbackSeekTo, this]

theorem temp_then_rollback (H : History σ) (s : σ) (ts : List (Change σ)) (h : Nat)
    (ht : H.temp = []) (hlt : h < H.height)
    (hinv : applyUndo ts (applyExec ts s) = s) :
    rollbackTo { H with temp := ts } (applyExec ts s) h = rollbackTo H s h := by
  have hnot : ¬ (h ≥ H.height) := by omega
  cases hts : ts with
  | nil => subst hts; simp [applyExec] at *; cases H; simp_all
  | cons t ts' =>
    unfold rollbackTo
    simp only [hnot, if_false, ht, List.isEmpty_nil, List.isEmpty_cons, if_true]
    rw [← hts, hinv]
    simp

/-! ## Operation lists: blocks and rollbacks -/

inductive Op (σ : Type)
  | block (b : HeightChanges σ)
  | rollback (h : Nat)

/-- specification state: the logical chain, the best height, how many heights must still be stored -/
structure Spec (σ : Type) where
  chain : List (HeightChanges σ) := []
  tip : Nat := 0
  retained : Nat := 0

def specStep (cap : Nat) (sp : Spec σ) : Op σ → Spec σ
  | .block b => ⟨sp.chain ++ [b], b.height, min (sp.retained + 1) cap⟩
  | .rollback h => if h < sp.tip then ⟨upTo h sp.chain, h, sp.retained - depth h sp.chain⟩ else sp

/-- what the caller must respect (all stated on the specification side) -/
def Pre (s0 : σ) (sp : Spec σ) : Op σ → Prop
  | .block b => sp.tip < b.height ∧ b.height < 2147483648
  | .rollback h => h < sp.tip → depth h sp.chain ≤ sp.retained ∧ InvAbove h sp.chain s0

def Disciplined (cap : Nat) (s0 : σ) : Spec σ → List (Op σ) → Prop
  | _, [] => True
  | sp, op :: ops => Pre s0 sp op ∧ Disciplined cap s0 (specStep cap sp op) ops

/-- the implementation model; `none` = a panic or an error -/
def stepModel : Option (History σ × σ) → Op σ → Option (History σ × σ)
  | none, _ => none
  | some (H, s), .block b =>
    match processBlock H s b with
    | (.ok, H', s') => some (H', s')
    | _ => none
  | some (H, s), .rollback h => some (rollbackTo H s h)

def runModel (cap : Nat) (s0 : σ) (ops : List (Op σ)) : Option (History σ × σ) :=
  ops.foldl stepModel (some (newHistory cap, s0))

theorem refines_aux (cap : Nat) (s0 : σ) :
    ∀ (ops : List (Op σ)) (H : History σ) (s : σ) (sp : Spec σ),
      Good cap H s sp.chain s0 → H.height = sp.tip → H.changes.length = sp.retained →
      Disciplined cap s0 sp ops →
      ∃ H' s', ops.foldl stepModel (some (H, s)) = some (H', s') ∧
        s' = run (ops.foldl (specStep cap) sp).chain s0 ∧
        H'.height = (ops.foldl (specStep cap) sp).tip ∧
        H'.changes.length = (ops.foldl (specStep cap) sp).retained ∧
        (ops.foldl (specStep cap) sp).retained ≤ cap := by
  intro ops
  induction ops with
  | nil =>
    intro H s sp g _ hr _
    exact ⟨H, s, rfl, g.state, by assumption, hr, by show sp.retained ≤ cap; rw [← hr]; exact g.len⟩
  | cons op ops ih =>
    intro H s sp g ht hr hd
    obtain ⟨hpre, hrest⟩ := hd
    cases op with
    | block b =>
      obtain ⟨h1, h2⟩ := hpre
      obtain ⟨hp, g', _⟩ := processBlock_good g b (by omega) h2
      simp only [List.foldl_cons, stepModel, hp]
      apply ih (afterBlock H b) (b.commit s) (specStep cap sp (.block b)) g' rfl ?_ hrest
      have hl := g.len; have hc := g.cap_eq
      simp only [specStep, afterBlock]
      by_cases hge : H.changes.length ≥ H.capacity
      · simp only [hge, if_true, List.length_append, List.length_drop, List.length_singleton]
        have := g.cap_pos; omega
      · simp only [hge, if_false, List.length_append, List.length_singleton]; omega
    | rollback h =>
      simp only [List.foldl_cons, stepModel]
      by_cases hlt : h < sp.tip
      · obtain ⟨hdep, hinv⟩ := hpre hlt
        obtain ⟨g', hh, hlen⟩ := rollbackTo_good g h (by omega) (by omega) hinv
        have e : specStep cap sp (.rollback h) = ⟨upTo h sp.chain, h, sp.retained - depth h sp.chain⟩ := by
          simp [specStep, hlt]
        have hl2 : (rollbackTo H s h).1.changes.length = sp.retained - depth h sp.chain := by omega
        rw [e] at hrest ⊢
        exact ih _ _ _ g' hh hl2 hrest
      · have e : specStep cap sp (.rollback h) = sp := by simp [specStep, hlt]
        have e2 : rollbackTo H s h = (H, s) := by
          have : h ≥ H.height := by omega
          simp [rollbackTo, this]
        rw [e] at hrest ⊢; rw [e2]
        exact ih H s sp g ht hr hrest


/-! ### closure classes over the integer map -/

open IntMap

/-- descriptors of the two classes: `m[k] = v` undone by the pre-block value, `m[k] += d` -/
inductive Cls
  | set (k : Nat) (v : Int)
  | add (k : Nat) (d : Int)

/-- the closure pair a descriptor stands for, with captures taken on the pre-block state `s` -/
def toChange (s : St) : Cls → Change St
  | .set k v => setA k v (s.m k)
  | .add k d => IntMap.add k d

def isAdd (k : Nat) : Cls → Bool
  | .add k' _ => k' == k
  | _ => false

def isSet (k : Nat) : Cls → Bool
  | .set k' _ => k' == k
  | _ => false

/-- no delta on a location after an absolute write to it (in append order) -/
def okOrder : List Cls → Bool
  | [] => true
  | .set k _ :: rest => !(rest.any (isAdd k)) && okOrder rest
  | .add _ _ :: rest => okOrder rest

def sumAdd (k : Nat) : List Cls → Int
  | [] => 0
  | .add k' d :: rest => (if k' = k then d else 0) + sumAdd k rest
  | .set _ _ :: rest => sumAdd k rest

theorem sumAdd_zero (k : Nat) : ∀ cs : List Cls, cs.any (isAdd k) = false → sumAdd k cs = 0 := by
  intro cs
  induction cs with
  | nil => intro _; rfl
  | cons c cs ih =>
    intro h
    simp only [List.any_cons, Bool.or_eq_false_iff] at h
    cases c with
    | set k' v => simp [sumAdd, ih h.2]
    | add k' d =>
      have : ¬ k' = k := by simpa [isAdd] using h.1
      simp [sumAdd, this, ih h.2]

theorem undo_key (s : St) (k : Nat) : ∀ (cs : List Cls) (t : St), okOrder cs = true →
    (applyUndo (cs.map (toChange s)) t).m k =
      if cs.any (isSet k) then s.m k else t.m k - sumAdd k cs := by
  intro cs
  induction cs with
  | nil => intro t _; simp [applyUndo, sumAdd]
  | cons c cs ih =>
    intro t hok
    cases c with
    | set k' v =>
      simp only [okOrder, Bool.and_eq_true, Bool.not_eq_true'] at hok
      simp only [List.map_cons, applyUndo, List.foldl_cons] at ih ⊢
      rw [ih _ hok.2]
      by_cases hk : k' = k
      · subst hk
        by_cases hs : cs.any (isSet k') = true
        · simp [hs, isSet]
        · simp only [Bool.not_eq_true] at hs
          simp [hs, isSet, toChange, setA, upd, sumAdd, sumAdd_zero k' cs hok.1]
      · have hne : (k' == k) = false := by simpa using hk
        have hkk : ¬ k = k' := fun h => hk h.symm
        by_cases hs : cs.any (isSet k) = true
        · simp [hs, isSet, hne]
        · simp only [Bool.not_eq_true] at hs
          simp [hs, isSet, hne, toChange, setA, upd, sumAdd, hkk]
    | add k' d =>
      simp only [okOrder] at hok
      simp only [List.map_cons, applyUndo, List.foldl_cons] at ih ⊢
      rw [ih _ hok]
      by_cases hk : k' = k
      · subst hk
        by_cases hs : cs.any (isSet k') = true
        · simp [hs, isSet]
        · simp only [Bool.not_eq_true] at hs
          simp [hs, isSet, toChange, IntMap.add, upd, sumAdd]; omega
      · have hne : (k' == k) = false := by simpa using hk
        have hkk : ¬ k = k' := fun h => hk h.symm
        by_cases hs : cs.any (isSet k) = true
        · simp [hs, isSet, hne]
        · simp only [Bool.not_eq_true] at hs
          simp [hs, isSet, hne, toChange, IntMap.add, upd, sumAdd, hkk, hk]

theorem exec_key (s : St) (k : Nat) : ∀ (cs : List Cls) (t : St), cs.any (isSet k) = false →
    (applyExec (cs.map (toChange s)) t).m k = t.m k + sumAdd k cs := by
  intro cs
  induction cs with
  | nil => intro t _; simp [applyExec, sumAdd]
  | cons c cs ih =>
    intro t h
    simp only [List.any_cons, Bool.or_eq_false_iff] at h
    simp only [List.map_cons, applyExec, List.foldl_cons] at ih ⊢
    rw [ih _ h.2]
    cases c with
    | set k' v =>
      have : ¬ k' = k := by simpa [isSet] using h.1
      simp [toChange, setA, upd, sumAdd]
      intro h'; exact absurd h'.symm this
    | add k' d =>
      by_cases hk : k' = k
      · subst hk; simp [toChange, IntMap.add, upd, sumAdd]; omega
      · simp [toChange, IntMap.add, upd, sumAdd, hk]
        intro h'; exact absurd h'.symm hk

theorem cell_exec (s : St) : ∀ (cs : List Cls) (t : St),
    (applyExec (cs.map (toChange s)) t).cell = t.cell := by
  intro cs
  induction cs with
  | nil => intro t; rfl
  | cons c cs ih =>
    intro t
    simp only [List.map_cons, applyExec, List.foldl_cons] at ih ⊢
    rw [ih]; cases c <;> rfl

theorem cell_undo (s : St) : ∀ (cs : List Cls) (t : St),
    (applyUndo (cs.map (toChange s)) t).cell = t.cell := by
  intro cs
  induction cs with
  | nil => intro t; rfl
  | cons c cs ih =>
    intro t
    simp only [List.map_cons, applyUndo, List.foldl_cons] at ih ⊢
    rw [ih]; cases c <;> rfl


end ElaVerif.History
