import Driver.Loop
import ElaVerif.Model.CCPolicy
open ElaVerif.CCPolicy Driver

def fmtVerdict : Verdict → String
  | .ok => "ok"
  | .frozen => "err frozen"
  | .badWithdrawVer => "err wver"
  | .notBridgeTx => "err nottype"
  | .notLegacyReturn => "err notlegacy"
  | .mixedReturn => "err mixed"

/-- "-" or comma separated decimal code points -/
def runes? (s : String) : Option (List Nat) :=
  if s = "-" then some [] else (s.splitOn ",").mapM nat?

def optNat? (s : String) : Option (Option Nat) :=
  if s = "-" then some none else (nat? s).map some

def stepC31 : List String → String
  | ["pol", ty, ver, h, f, r, ps] =>
      match nat? ty, nat? ver, nat? h, nat? f, nat? r, hexBytes? ps with
      | some ty, some ver, some h, some f, some r, some ps =>
          fmtVerdict (ccPolicy ty ver (ps.map (·.toNat)) h f r)
      | _, _, _, _, _, _ => "bad-op"
  | ["net", name, f, r] =>
      match runes? name, nat? f, nat? r with
      | some name, some f, some r =>
          let H := enforceHeights name ⟨f, r⟩
          s!"{H.freeze} {H.restrict}"
      | _, _, _ => "bad-op"
  | ["cfg", name, f, r] =>
      match runes? name, optNat? f, optNat? r with
      | some name, some f, some r =>
          let H := setupHeights name ⟨f, r⟩
          s!"{H.freeze} {H.restrict}"
      | _, _, _ => "bad-op"
  | _ => "bad-op"

def main : IO Unit := runPure stepC31
