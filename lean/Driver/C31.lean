import Driver.Loop
import ElaVerif.Model.PolicyCtx
import ElaVerif.Model.CCPolicy
open ElaVerif.CCPolicy Driver

def fmtVerdict : Verdict → String
  | .ok => "ok"
  | .frozen => "err frozen"
  | .badWithdrawVer => "err wver"
  | .notBridgeTx => "err nottype"
  | .notLegacyReturn => "err notlegacy"
  | .mixedReturn => "err mixed"

/-- "-" or comma separated decimal code points -/
def runes? (s : String) : Option (List Nat) :=
  if s = "-" then some [] else (s.splitOn ",").mapM nat?

def optNat? (s : String) : Option (Option Nat) :=
  if s = "-" then some none else (nat? s).map some

def ctxEntry? (s : String) : Option ElaVerif.Frozen.Entry :=
  match s.splitOn ":" with
  | [l, st] => match l.toList, Driver.nat? st with
    | [c], some st => some ⟨if c = 'n' then none else some c.toNat, st⟩
    | _, _ => none
  | _ => none

def ctxLetters (s : String) : List Nat := if s = "-" then [] else s.toList.map Char.toNat

def fmtCtx : ElaVerif.PolicyCtx.Res → String
  | .passed => "passed"
  | .cc .ok => "passed"
  | .cc .frozen => "cc frozen"
  | .cc .badWithdrawVer => "cc wver"
  | .cc .notBridgeTx => "cc nottype"
  | .cc .notLegacyReturn => "cc notlegacy"
  | .cc .mixedReturn => "cc mixed"
  | .fz .ok => "passed"
  | .fz (.spend i) => s!"fz spend {i}"
  | .fz (.receive i) => s!"fz receive {i}"

def stepCtx : List String → Option String
  | [op, ty, ver, h, f, r, es, ins, outs] =>
      if op ≠ "ctx" ∧ op ≠ "ctxpow" then none else
      match Driver.nat? ty, Driver.nat? ver, Driver.nat? h, Driver.nat? f, Driver.nat? r,
            (if es = "-" then some [] else (es.splitOn ",").mapM ctxEntry?) with
      | some ty, some ver, some h, some f, some r, some es =>
          some (fmtCtx (ElaVerif.PolicyCtx.contextPolicies ty ver h f r es (ctxLetters ins) (ctxLetters outs)))
      | _, _, _, _, _, _ => some "bad-op"
  | ["e2e", path, h, f, r, es, ins, outs] =>
      -- the node's real paths (mempool admission, block validation, RPC): a signed TransferAsset (in = A) or an
      -- unsigned spend of a cross-chain output (in = X); block validation only says "rejected"
      match Driver.nat? h, Driver.nat? f, Driver.nat? r,
            (if es = "-" then some [] else (es.splitOn ",").mapM ctxEntry?) with
      | some h, some f, some r, some es =>
          let res := ElaVerif.PolicyCtx.contextPolicies 2 0 h f r es (ctxLetters ins) (ctxLetters outs)
          if path = "block" ∨ path = "seen" ∨ path = "reorg" then
            some (if res = .passed then "passed" else "rejected")
          else some (fmtCtx res)
      | _, _, _, _ => some "bad-op"
  | _ => none

def stepC31 : List String → String
  | ["pol", ty, ver, h, f, r, ps] =>
      match nat? ty, nat? ver, nat? h, nat? f, nat? r, hexBytes? ps with
      | some ty, some ver, some h, some f, some r, some ps =>
          fmtVerdict (ccPolicy ty ver (ps.map (·.toNat)) h f r)
      | _, _, _, _, _, _ => "bad-op"
  | ["net", name, f, r] =>
      match runes? name, nat? f, nat? r with
      | some name, some f, some r =>
          let H := enforceHeights name ⟨f, r⟩
          s!"{H.freeze} {H.restrict}"
      | _, _, _ => "bad-op"
  | ["cfg", name, f, r] =>
      match runes? name, optNat? f, optNat? r with
      | some name, some f, some r =>
          let H := setupHeights name ⟨f, r⟩
          s!"{H.freeze} {H.restrict}"
      | _, _, _ => "bad-op"
  | _ => "bad-op"

def main : IO Unit := runPure (fun t => (stepCtx t).getD (stepC31 t))
