import Driver.Loop
import ElaVerif.Model.P2PFrame
import ElaVerif.Model.Sha256
import ElaVerif.Model.P2PMsg
import ElaVerif.Model.P2PCodec
import ElaVerif.Gen.C35
open ElaVerif.P2PFrame Driver

namespace C35Drv

def strBytes (s : String) : Bytes := s.toUTF8.toList

def tableOf (es : List ElaVerif.Gen.C35.Entry) : List (Bytes × Nat) :=
  es.map fun e => (e.caseBytes, e.max)

/-- the command switches of a network stack, base switch first (first match wins). -/
def stack? : String → Option (List (Bytes × Nat))
  | "elanet" => some (tableOf (ElaVerif.Gen.C35.p2pPeer ++ ElaVerif.Gen.C35.elanetServer))
  | "dpos" => some (tableOf (ElaVerif.Gen.C35.dposPeer ++ ElaVerif.Gen.C35.dposNetwork))
  | "checkaddr" => some (tableOf ElaVerif.Gen.C35.checkAddr)
  | "spv" => some (tableOf ElaVerif.Gen.C35.writeOnly)
  | _ => none

def H : Bytes → Bytes := ElaVerif.Sha256.sha256d

def errStr : Err → String
  | .shortHeader => "short-header"
  | .invalidHeader => "invalid-header"
  | .unmatchedMagic => "magic"
  | .unhandled => "unhandled"
  | .sizeExceeded => "size"
  | .shortPayload => "short-payload"
  | .invalidPayload => "checksum"
  | .deserialize => "deserialize"

def cmdStr (c : Bytes) : String := String.ofList (c.map fun b => Char.ofNat b.toNat)

/-- allocation class: the harness measures the real allocation (runtime.MemStats) and
    reports whether it reached 3 MB; the generator keeps accepted declared lengths away
    from the threshold (≤ 64 KiB or ≥ 8 MB). -/
def allocClass (n : Nat) : String := if n ≥ 3000000 then "big" else "small"

def fmtOut (o : Out Bytes) : String :=
  match o.res with
  | .ok (c, _) => s!"ok {cmdStr c} {o.consumed} {allocClass o.alloc}"
  | .error e => s!"err {errStr e} {o.consumed} {allocClass o.alloc}"

/-- the per-command codec: modelled for the fixed-layout main-net messages
    (`ElaVerif.P2PMsg.accepts`), otherwise the oracle value carried by the op (`dflag`). -/
def decodeFlag (st flag : String) : Bytes → Bytes → Option Bytes :=
  fun c p =>
    let modelled := if st = "dpos" then ElaVerif.P2PMsg.acceptsDpos (cmdStr c) p else ElaVerif.P2PMsg.accepts (cmdStr c) p
    match modelled with
    | some ok => if ok then some p else none
    | none => if flag = "1" then some p else none

/-- value-level codec: the layout table of `Model/P2PCodec.lean`; `none` = command without a model -/
def codec (st : String) (c : Bytes) (p : Bytes) : Option (Option ElaVerif.P2PCodec.Msg) :=
  (ElaVerif.P2PCodec.layoutOfStr st (cmdStr c)).map fun l => ElaVerif.P2PCodec.decodeMsg l p

def reencode (st : String) (c : Bytes) (m : ElaVerif.P2PCodec.Msg) : Bytes :=
  match ElaVerif.P2PCodec.layoutOfStr st (cmdStr c), m with
  | some l, m => ElaVerif.P2PCodec.encodeMsg l m
  | none, _ => []

/-- decoder used by `read`/`corrupt`: the value-level codec where there is one, then the accept
    models of `P2PMsg`, then the oracle flag.  Both models must agree with the real decoder. -/
def decodeAny (st flag : String) : Bytes → Bytes → Option Bytes :=
  fun c p =>
    match codec st c p with
    | some r => r.map fun _ => p
    | none => decodeFlag st flag c p

def rtStep (st magic cmd payload : String) : String :=
    -- a real message of command `cmd` whose serialization is `payload`, written then read back
    match stack? st, nat? magic, hexBytes? payload with
    | some t, some m, some p =>
      match writeMessage H m (strBytes cmd) ((lookup t (strBytes cmd)).getD 0) p with
      | .ok f =>
        match ElaVerif.P2PCodec.layoutOfStr st cmd with
        | some l =>
          -- decode to a value and print its re-encoding: must equal the real message's re-serialization
          match (readMessage H t (fun _ q => ElaVerif.P2PCodec.decodeMsg l q) m f).res with
          | .ok (c, v) => s!"ok {cmdStr c} {toHex (ElaVerif.P2PCodec.encodeMsg l v)}"
          | .error e => s!"err {errStr e}"
        | none =>
          match (readMessage H t (fun _ q => some q) m f).res with
          | .ok (c, q) => s!"ok {cmdStr c} {toHex q}"
          | .error e => s!"err {errStr e}"
      | .error .sizeExceeded => "werr size"
      | .error .panic => "panic"
    | _, _, _ => "bad-op"

def step : List String → String
  | ["read", st, magic, dflag, stream] =>
    match stack? st, nat? magic, hexBytes? stream with
    | some t, some m, some s => fmtOut (readMessage H t (decodeAny st dflag) m s)
    | _, _, _ => "bad-op"
  | ["corrupt", st, magic, dflag, frame, pos, nb] =>
    match stack? st, nat? magic, hexBytes? frame, nat? pos, nat? nb with
    | some t, some m, some s, some p, some b =>
      fmtOut (readMessage H t (decodeAny st dflag) m (s.set p (UInt8.ofNat b)))
    | _, _, _, _, _ => "bad-op"
  | ["hdr", buf] =>
    match hexBytes? buf with
    | some b =>
      if b.length ≠ 24 then "bad-op" else
      match Header.deserialize b with
      | some h => s!"ok {h.magic} {toHex h.cmd} {h.length} {toHex h.checksum} {toHex h.getCMD} {toHex h.serialize}"
      | none => "err"
    | none => "bad-op"
  | ["build", magic, cmd, body] =>
    match nat? magic, hexBytes? cmd, hexBytes? body with
    | some m, some c, some b =>
      match buildHeader H m c b with
      | some h => toHex h.serialize
      | none => "panic"
    | _, _, _ => "bad-op"
  | ["write", magic, cmd, payload] =>
    match nat? magic, hexBytes? cmd, hexBytes? payload with
    | some m, some c, some p =>
      match writeMessage H m c (2 ^ 32 - 1) p with
      | .ok f => toHex f
      | .error .sizeExceeded => "err size"
      | .error .panic => "panic"
    | _, _, _ => "bad-op"
  | ["wlimit", n] =>
    match nat? n with
    | some n => if payloadTooBig n then "err size" else "ok"
    | none => "bad-op"
  | "wseq" :: magic :: seq :: n :: rest =>
    -- blocks handed to WriteMessage one after the other: the wire must carry, frame by frame, the
    -- serialization of the block sent (the send cache is an optimisation the model does not have)
    match nat? magic, nat? n with
    | some m, some n =>
      let rec pays : Nat → List String → Option (List Bytes)
        | 0, [] => some []
        | 0, _ :: _ => none
        | k + 1, _desc :: p :: more => match hexBytes? p, pays k more with
          | some b, some bs => some (b :: bs)
          | _, _ => none
        | _ + 1, _ => none
      match pays n rest with
      | some ps =>
        let idxs := (seq.splitOn ".").filterMap nat?
        let blockMax := (lookup ((stack? "elanet").getD []) (strBytes "block")).getD 0
        match writeStream H m (idxs.map fun i => (strBytes "block", blockMax, ps.getD i [])) with
        | some w => toHex w
        | none => "err"
      | none => "bad-op"
    | _, _ => "bad-op"
  | ["rt", st, magic, cmd, payload] => rtStep st magic cmd payload
  | "addrenc" :: n :: rest =>
    match nat? n with
    | some n =>
      let rec go : Nat → List String → Option (List ElaVerif.P2PCodec.NetAddr)
        | 0, [] => some []
        | 0, _ :: _ => none
        | k + 1, ts :: sv :: ip :: port :: more =>
          match nat? ts, nat? sv, hexBytes? ip, nat? port, go k more with
          | some ts, some sv, some ip, some port, some as => some (⟨ts, sv, ip, port⟩ :: as)
          | _, _, _, _, _ => none
        | _ + 1, _ => none
      match go n rest with
      | some as => toHex (ElaVerif.Wire.encode ElaVerif.WireSchemas.addrMsg (ElaVerif.P2PCodec.addrVal as))
      | none => "bad-op"
    | none => "bad-op"
  | ["rtx", st, magic, cmd, _seed, _idx, payload] => rtStep st magic cmd payload
  | ["readc", st, magic, dflag, _chunk, stream] =>
    -- how the connection cuts the stream into Reads is invisible to the reader
    match stack? st, nat? magic, hexBytes? stream with
    | some t, some m, some s => fmtOut (readMessage H t (decodeAny st dflag) m s)
    | _, _, _ => "bad-op"
  | ["rtc", st, magic, cmd, _seed, payload] => rtStep st magic cmd payload
  | ["mrt", st, magic, _seed, _n, _mode, payload] => rtStep st magic "merkleblock" payload
  | _ => "bad-op"

end C35Drv

def main : IO Unit := runPure C35Drv.step
