import Driver.Loop
import ElaVerif.Model.RunPrograms
/-
  Shared by Driver/C03.lean and Driver/C05.lean: parsing of the `run` op
  (see harness/cmd/c03/run.go for the format) and evaluation of the RunPrograms
  model with the oracle tables carried in the op line.  Core Lean only.
-/
namespace Driver.RunOp
open ElaVerif.Script ElaVerif.RunPrograms Driver

def errName : Err → String
  | .count => "count" | .hashMismatch => "hashMismatch" | .schnorr => "schnorr"
  | .sigLen => "sigLen" | .decode => "decode" | .verify => "verify"
  | .msCode => "msCode" | .msParse => "msParse" | .msParseLen => "msParseLen"
  | .msKeyCount => "msKeyCount" | .msSigLen => "msSigLen" | .msNotEnough => "msNotEnough"
  | .msTooMany => "msTooMany" | .msDup => "msDup" | .msMatched => "msMatched"
  | .unknownType => "unknownType" | .scriptAttr => "scriptAttr"

def fmtRes : Res → String
  | .panic => "panic"
  | .val (.ok ()) => "ok"
  | .val (.error e) => "err " ++ errName e

structure Parsed where
  hs : List PH
  ps : List Program
  ch : List (Bytes × Bytes)                 -- code ↦ code hash
  vt : List (Bytes × Bytes × String)        -- (key, sig) ↦ e|0|1
  st : List (Bytes × Bytes × String)        -- (pk33, sig64) ↦ 0|1

def takeN {α : Type} (f : List String → Option (α × List String)) : Nat → List String → Option (List α × List String)
  | 0, ts => some ([], ts)
  | n + 1, ts => do
    let (a, ts) ← f ts
    let (as, ts) ← takeN f n ts
    pure (a :: as, ts)

def pHash : List String → Option (PH × List String)
  | p :: h :: ts => do
    let pf ← hexNat? p
    let hb ← hexBytes? h
    pure (⟨pf, hb⟩, ts)
  | _ => none

def pProg : List String → Option ((Program × Bytes) × List String)
  | c :: p :: h :: ts => do
    let cb ← hexBytes? c
    let pb ← hexBytes? p
    let hb ← hexBytes? h
    pure ((⟨cb, pb⟩, hb), ts)
  | _ => none

def pCell : List String → Option ((Bytes × Bytes × String) × List String)
  | a :: b :: c :: ts => do
    let ab ← hexBytes? a
    let bb ← hexBytes? b
    pure ((ab, bb, c), ts)
  | _ => none

def pCount : List String → Option (Nat × List String)
  | n :: ts => do let k ← n.toNat?; pure (k, ts)
  | _ => none

/-- tokens after the op name -/
def parse (ts : List String) : Option Parsed :=
  match ts with
  | _data :: ts => do
    let (nh, ts) ← pCount ts
    let (hs, ts) ← takeN pHash nh ts
    let (np, ts) ← pCount ts
    let (pc, ts) ← takeN pProg np ts
    let (nv, ts) ← pCount ts
    let (vt, ts) ← takeN pCell nv ts
    let (ns, ts) ← pCount ts
    let (st, _) ← takeN pCell ns ts
    pure ⟨hs, pc.map (·.1), pc.map (fun x => (x.1.code, x.2)), vt, st⟩
  | [] => none

def cell (tbl : List (Bytes × Bytes × String)) (a b : Bytes) : Option String :=
  (tbl.find? (fun c => c.1 == a && c.2.1 == b)).map (·.2.2)

def oracles (p : Parsed) : Oracles Unit where
  decodeOk k := match p.vt.find? (fun c => c.1 == k) with
    | some c => c.2.2 != "e"
    | none => false
  verify k _ s := cell p.vt k s == some "1"
  schnorr k _ s := cell p.st k s == some "1"
  codeHash c := match p.ch.find? (fun x => x.1 == c) with
    | some x => x.2
    | none => []

def evalRun (fx : Fix) (ts : List String) : String :=
  match parse ts with
  | some p => fmtRes (runPrograms fx (oracles p) () p.hs p.ps)
  | none => "bad-op"

end Driver.RunOp
