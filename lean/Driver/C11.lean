import Driver.Loop
import ElaVerif.Model.Reward
import ElaVerif.Model.ConsensusMode
open ElaVerif.Fixed64 ElaVerif.Reward Driver

/-- Go/amd64 `int64(f)` (CVTTSD2SI): NaN and out-of-range give 0x8000000000000000 -/
def goInt64 (f : Float) : Int :=
  if f.isNaN || f >= 9223372036854775808.0 || f < -9223372036854775808.0 then -9223372036854775808
  else f.toInt64.toInt

/-- `Fixed64(math.Ceil(float64(t) * c))` with hardware floats -/
def ceilMul (c : Float) (t : Fixed64) : Fixed64 :=
  ofInt (goInt64 (Float.ceil ((Int64.ofInt (toInt t)).toFloat * c)))

def cr30 : Fixed64 → Fixed64 := ceilMul 0.3
def dp35 : Fixed64 → Fixed64 := ceilMul 0.35

/-- the Go expression of newRewardPerBlock evaluated with hardware floats:
    `float64(newInflationPerYear) / float64(blocksPerYear) / math.Pow(2, k)` -/
def floatReward (k : Nat) : Int :=
  goInt64 (Float.ofNat 80000000000000 / Float.ofNat 262800 / Float.scaleB 1.0 (Int.ofNat k))

def mainBase : Nat := 304414003

/-- `Fixed64(float64(t) * c)` (truncating conversion) -/
def truncMul (c : Float) (t : Fixed64) : Fixed64 :=
  ofInt (goInt64 ((Int64.ofInt (toInt t)).toFloat * c))

/-- "<utxo> <fee>" pairs of a `gen` op: the fees of the transfers the pool accepts
    (MinTransactionFee ≤ fee ≤ the spent 1000 ELA) -/
def genFees : List String → List Int
  | _ :: fee :: rest =>
    -- a trailing "s" marks an old-format SideChainPow: it pays its fee like a transfer
    match int? (String.ofList (fee.toList.filter (· != 's'))) with
    | some f => if 100 ≤ f ∧ f ≤ 100000000000 then f :: genFees rest else genFees rest
    | none => genFees rest
  | _ => []

def parseAddr (s : String) : Addr :=
  match s with
  | "cr" => .crAssets
  | "des" => .destroy
  | "stk" => .stakeReward
  | "spl" => .other 1000002
  | "min" => .other 1000000
  | "fnd" => .other 1000001
  | _ => .other ((s.drop 1).toNat?.getD 999999)

def fmtAddr : Addr → String
  | .crAssets => "cr" | .destroy => "des" | .stakeReward => "stk"
  | .other 1000000 => "min" | .other 1000001 => "fnd" | .other 1000002 => "spl" | .other n => "o" ++ toString n

def parseOuts : Nat → List String → Option (List Out)
  | 0, _ => some []
  | n + 1, v :: a :: rest =>
    match int? v, parseOuts n rest with
    | some v, some os => some (⟨ofInt v, parseAddr a⟩ :: os)
    | _, _ => none
  | _, _ => none

def fmtRes : CbRes → String
  | .ok => "ok"
  | .panic => "panic"
  | .legacy => "legacy"
  | .err .crValue => "err cr-value"
  | .err .minerValue => "err miner-value"
  | .err .count => "err count"
  | .err .dposValue => "err dpos-value"
  | .err .dposAddr => "err dpos-addr"
  | .err .crAddr => "err cr-addr"

def fmtOuts (os : List Out) : String :=
  toString os.length ++ String.join (os.map (fun o => " " ++ toString (toInt o.value) ++ " " ++ fmtAddr o.addr))

/-- the steps of an `rvt` op on the consensus-mode model -/
def runSteps : List String → ElaVerif.ConsensusMode.St → ElaVerif.ConsensusMode.St
  | [], s => s
  | "e" :: rest, s => runSteps rest (ElaVerif.ConsensusMode.connect s .plain)
  | "p" :: rest, s => runSteps rest (ElaVerif.ConsensusMode.connect s .revertToPow)
  | r :: rest, s => runSteps rest (ElaVerif.ConsensusMode.rollback ((r.drop 1).toNat?.getD 0) s)

def stepCore : List String → String
  | ["rew", newH, halvH, interval, old, h] =>
    match nat? newH, nat? halvH, nat? interval, int? old, nat? h with
    | some newH, some halvH, some interval, some old, some h =>
      let p : Params := ⟨newH, halvH, interval, old, mainBase⟩
      match blockReward p h with
      | none => "panic"
      | some r =>
        let fl : Int := if h < newH then old else
          match factor p h with
          | some f => floatReward (halvings f)
          | none => 0
        toString r ++ " " ++ toString fl
    | _, _, _, _, _ => "bad-op"
  | "cb" :: h :: active :: pow :: fees :: reward :: dposReward :: n :: rest =>
    match nat? h, nat? active, int? fees, int? reward, int? dposReward, nat? n with
    | some h, some active, some fees, some reward, some dposReward, some n =>
      match parseOuts n rest with
      | some outs => fmtRes (coinbaseCheck cr30 dp35 active h (pow == "1") (ofInt fees) (ofInt reward) (ofInt dposReward) outs)
      | none => "bad-op"
    | _, _, _, _, _, _ => "bad-op"
  | "blk" :: h :: active :: pow :: crh :: reward :: n :: rest =>
    match nat? h, nat? active, nat? crh, int? reward, nat? n with
    | some h, some active, some crh, some reward, some n =>
      match parseOuts n rest with
      | some outs =>
        -- a block holding only its coinbase: no fees, GetBlockDPOSReward = the DPoS share of the subsidy
        let r := ofInt reward
        match blockVerdict crh h (coinbaseCheck cr30 dp35 active h (pow == "1") 0 r (dp35 (0 + r)) outs) with
        | .ok => "ok"
        | .err _ => "err"
        | .panic => "panic"
        | .legacy => "legacy"
      | none => "bad-op"
    | _, _, _, _, _ => "bad-op"
  | "gen" :: _ntx :: rest =>
    let fs := genFees rest
    let fees : Fixed64 := ofInt (fs.foldl (· + ·) 0)
    let reward : Fixed64 := ofInt 502283105      -- regnet block 2: the pre-2023 subsidy
    let total := fees + reward
    let outs := assignLegacy (truncMul 0.3) (truncMul 0.35) total (.other 1000001) (.other 1000000) (.other 1000001)
    toString fs.length ++ " " ++ fmtOuts outs ++ " | " ++
      (if coinbaseLegacyCheck fees reward outs then "ok" else "err") ++ " | " ++
      toString (toInt fees) ++ " " ++ toString (toInt (dp35 total))
  | ["asg", h, active, pow, fees, reward] =>
    match nat? h, nat? active, int? fees, int? reward with
    | some h, some active, some fees, some reward =>
      if !isV2 active h then "legacy" else
      let total := ofInt fees + ofInt reward
      let outs := assignV2 cr30 dp35 (pow == "1") total .crAssets (.other 1000000)
      fmtOuts outs ++ " | " ++
        fmtRes (coinbaseCheck cr30 dp35 active h (pow == "1") (ofInt fees) (ofInt reward) (dp35 total) outs)
    | _, _, _, _ => "bad-op"
  | _ => "bad-op"

/-- `cbn <net> …` / `asgn <net> …` = the same rule under the reward addresses of a network preset
    (the model's addresses are the fixed ones the property names) -/
def stepC11 : List String → String
  | "cbn" :: _net :: rest => stepCore ("cb" :: rest)
  | "asgn" :: _net :: rest => stepCore ("asg" :: rest)
  | "rvt" :: k :: rest =>
    match nat? k with
    | some k =>
      let s := runSteps (rest.take k) ⟨false, []⟩
      match rest.drop k with
      | h :: active :: tail =>
        (if s.pow then "pow " else "dpos ") ++ stepCore ("cb" :: h :: active :: (if s.pow then "1" else "0") :: tail)
      | _ => "bad-op"
    | none => "bad-op"
  | t => stepCore t

def main : IO Unit := runPure stepC11
