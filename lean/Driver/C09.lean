import Driver.Loop
import ElaVerif.Model.Compact
open ElaVerif.Compact Driver

def fmtPow : Option PowErr → String
  | none => "ok"
  | some .badTarget => "err bad-target"
  | some .highTarget => "err high-target"
  | some .highHash => "err high-hash"

def parseNodes (s : String) : Option (List Node) :=
  (s.splitOn ",").foldr (fun x acc => match x.splitOn ":", acc with
    | [t, b], some l => match nat? t, hexNat? b with
      | some t, some b => some (⟨t, b⟩ :: l)
      | _, _ => none
    | _, _ => none) (some [])

def parseNodeSteps (xs : List String) : Option (List (Nat × Int)) :=
  xs.foldr (fun x acc => match x.splitOn "/", acc with
    | [d, k], some l => match nat? d, int? k with
      | some d, some k => some ((d, k) :: l)
      | _, _ => none
    | _, _ => none) (some [])

def fmtWalk : WalkOut → String
  | .ok b => natToHex b
  | .err => "err"
  | .panic => "panic"

def stepC09 : List String → String
  | ["walk", adj, ts, per, lim, limBits, tipHeight, nodes] =>
      match int? adj, int? ts, int? per, int? lim, hexNat? limBits, nat? tipHeight, parseNodes nodes with
      | some adj, some ts, some per, some lim, some lb, some h, some ns =>
        fmtWalk (calcNextChain ⟨adj, ts, per, lim, lb⟩ h ns)
      | _, _, _, _, _, _, _ => "bad-op"
  | ["hashps", tipHeight, nodes] => match nat? tipHeight, parseNodes nodes with
      | some h, some ns => toString (networkHashPS h ns)
      | _, _ => "bad-op"
  | ["curdiff", limBits, bits] => match hexNat? limBits, hexNat? bits with
      | some lb, some b => match currentDifficulty lb b with
        | some d => toString d
        | none => "panic"
      | _, _ => "bad-op"
  | "node" :: genesis :: steps => match parseNodes genesis, parseNodeSteps steps with
      | some [g], some steps =>
        let p : PowParams := ⟨4, 10, 1, 2 ^ 255 - 1, 0x2000ffff⟩
        let (outs, chain) := nodeRun p [g] steps []
        let tipBits := match chain.getLast? with | some t => t.bits | none => 0
        " ".intercalate (outs.map (fun x => natToHex x.1 ++ ":" ++ (if x.2 then "1" else "0"))) ++
          " d=" ++ (match currentDifficulty p.limitBits tipBits with | some d => toString d | none => "panic") ++
          " h=" ++ toString (networkHashPS (chain.length - 1) chain)
      | _, _ => "bad-op"
  | ["c2b", c] => match hexNat? c with
      | some c => if c < 2 ^ 32 then toString (compactToBig c) else "bad-op"
      | none => "bad-op"
  | ["b2c", n] => match int? n with
      | some n => natToHex (bigToCompact n)
      | none => "bad-op"
  | ["rt", c] => match hexNat? c with
      | some c => if c < 2 ^ 32 then
          natToHex (bigToCompact (compactToBig c)) ++ (if Canonical c then " canon" else " non")
        else "bad-op"
      | none => "bad-op"
  | "pow" :: bits :: limit :: h :: _ => match hexNat? bits, int? limit, int? h with
      | some b, some l, some h => fmtPow (checkPoW b l h)
      | _, _, _ => "bad-op"
  | ["retarget", adj, ts, per, lim, limBits, bits, ph, fts, pts] =>
      match int? adj, int? ts, int? per, int? lim, hexNat? limBits, hexNat? bits, nat? ph, nat? fts, nat? pts with
      | some adj, some ts, some per, some lim, some lb, some b, some ph, some fts, some pts =>
          match calcNext ⟨adj, ts, per, lim, lb⟩ ph b fts pts with
          | some r => natToHex r
          | none => "err"
      | _, _, _, _, _, _, _, _, _ => "bad-op"
  | ["work", bits] => match hexNat? bits with
      | some b => toString (calcWork b)
      | none => "bad-op"
  | _ => "bad-op"

def main : IO Unit := runPure stepC09
