import Driver.Loop
import ElaVerif.Model.Compact
open ElaVerif.Compact Driver

def fmtPow : Option PowErr → String
  | none => "ok"
  | some .badTarget => "err bad-target"
  | some .highTarget => "err high-target"
  | some .highHash => "err high-hash"

def stepC09 : List String → String
  | ["c2b", c] => match hexNat? c with
      | some c => if c < 2 ^ 32 then toString (compactToBig c) else "bad-op"
      | none => "bad-op"
  | ["b2c", n] => match int? n with
      | some n => natToHex (bigToCompact n)
      | none => "bad-op"
  | ["rt", c] => match hexNat? c with
      | some c => if c < 2 ^ 32 then
          natToHex (bigToCompact (compactToBig c)) ++ (if Canonical c then " canon" else " non")
        else "bad-op"
      | none => "bad-op"
  | "pow" :: bits :: limit :: h :: _ => match hexNat? bits, int? limit, int? h with
      | some b, some l, some h => fmtPow (checkPoW b l h)
      | _, _, _ => "bad-op"
  | ["retarget", adj, ts, per, lim, limBits, bits, ph, fts, pts] =>
      match int? adj, int? ts, int? per, int? lim, hexNat? limBits, hexNat? bits, nat? ph, nat? fts, nat? pts with
      | some adj, some ts, some per, some lim, some lb, some b, some ph, some fts, some pts =>
          match calcNext ⟨adj, ts, per, lim, lb⟩ ph b fts pts with
          | some r => natToHex r
          | none => "err"
      | _, _, _, _, _, _, _, _, _ => "bad-op"
  | ["work", bits] => match hexNat? bits with
      | some b => toString (calcWork b)
      | none => "bad-op"
  | _ => "bad-op"

def main : IO Unit := runPure stepC09
