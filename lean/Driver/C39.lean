import Driver.Loop
import ElaVerif.Model.Bloom
import ElaVerif.Model.Murmur3
import ElaVerif.Model.TxFilter
open ElaVerif.Bloom ElaVerif.Murmur3 Driver

namespace C39Drv

def mm : Murmur := murmur3

def u32? (s : String) : Option UInt32 := (nat? s).map UInt32.ofNat

def hex8 (x : UInt32) : String :=
  let s := natToHex x.toNat
  String.ofList (List.replicate (8 - s.length) '0') ++ s

def filter? (bits hf tw types : String) : Option Filter :=
  match hexBytes? bits, u32? hf, u32? tw, hexBytes? types with
  | some b, some h, some t, some ty => some ⟨b, h, t, ty⟩
  | _, _, _, _ => none

def boolStr (b : Bool) : String := if b then "true" else "false"

/-- take `n` hex tokens -/
def takeHex : Nat → List String → Option (List (List UInt8) × List String)
  | 0, rest => some ([], rest)
  | _ + 1, [] => none
  | n + 1, t :: rest =>
    match hexBytes? t, takeHex n rest with
    | some b, some (bs, r) => some (b :: bs, r)
    | _, _ => none

def outpoint? (s : String) : Option OutPoint :=
  match s.splitOn ":" with
  | [a, b] => match hexBytes? a, nat? b with
    | some t, some i => some ⟨t, i⟩
    | _, _ => none
  | _ => none

def takeOps : Nat → List String → Option (List OutPoint × List String)
  | 0, rest => some ([], rest)
  | _ + 1, [] => none
  | n + 1, t :: rest =>
    match outpoint? t, takeOps n rest with
    | some b, some (bs, r) => some (b :: bs, r)
    | _, _ => none

def bit01 : Option Bool → Char
  | some true => '1'
  | some false => '0'
  | none => 'p'

def step : List String → String
  | ["murmur", seed, data] =>
    match hexNat? seed, hexBytes? data with
    | some s, some d => hex8 (murmur3 (UInt32.ofNat s) d)
    | _, _ => "bad-op"
  | ["match", bits, hf, tw, data] =>
    match filter? bits hf tw "-", hexBytes? data with
    | some f, some d => match «matches» mm f d with
      | some r => boolStr r
      | none => "panic"
    | _, _ => "bad-op"
  | ["add", bits, hf, tw, data] =>
    match filter? bits hf tw "-", hexBytes? data with
    | some f, some d => match add mm f d with
      | some g => match «matches» mm g d with
        | some r => toHex g.bits ++ " " ++ boolStr r
        | none => "panic"
      | none => "panic"
    | _, _ => "bad-op"
  | ["matchop", bits, hf, tw, txid, idx] =>
    match filter? bits hf tw "-", hexBytes? txid, nat? idx with
    | some f, some t, some i => match matchesOutPoint mm f ⟨t, i⟩ with
      | some r => boolStr r
      | none => "panic"
    | _, _, _ => "bad-op"
  | ["addop", bits, hf, tw, txid, idx] =>
    match filter? bits hf tw "-", hexBytes? txid, nat? idx with
    | some f, some t, some i => match addOutPoint mm f ⟨t, i⟩ with
      | some g => match matchesOutPoint mm g ⟨t, i⟩ with
        | some r => toHex g.bits ++ " " ++ boolStr r
        | none => "panic"
      | none => "panic"
    | _, _, _ => "bad-op"
  | "addall" :: bits :: hf :: tw :: n :: rest =>
    match filter? bits hf tw "-", nat? n with
    | some f, some n =>
      match takeHex n rest with
      | some (ds, m :: rest2) =>
        match nat? m with
        | some m => match takeHex m rest2 with
          | some (qs, []) =>
            match addAll mm f ds with
            | some g => toHex g.bits ++ " " ++ String.ofList ((ds ++ qs).map (fun d => bit01 («matches» mm g d)))
            | none => "panic"
          | _ => "bad-op"
        | none => "bad-op"
      | _ => "bad-op"
    | _, _ => "bad-op"
  | "tx" :: bits :: hf :: tw :: types :: hsh :: ty :: _lock :: nout :: rest =>
    match filter? bits hf tw types, hexBytes? hsh, nat? ty, nat? nout with
    | some f, some h, some ty, some nout =>
      match takeHex nout rest with
      | some (outs, nin :: rest2) =>
        match nat? nin with
        | some nin => match takeOps nin rest2 with
          | some (ins, []) =>
            match matchTxAndUpdate mm f ⟨h, UInt8.ofNat ty, outs, ins⟩ with
            | some (r, g) => boolStr r ++ " " ++ toHex g.bits
            | none => "panic"
          | _ => "bad-op"
        | none => "bad-op"
      | _ => "bad-op"
    | _, _, _, _ => "bad-op"
  | "txf2" :: typ :: wire :: n :: rest =>
    match nat? typ, hexBytes? wire, nat? n with
    | some typ, some w, some n =>
      match takeHex n rest with
      | some (adds, ty :: ptype :: h1 :: _lock1 :: m :: rest2) =>
        match nat? ty, nat? ptype, hexBytes? h1, nat? m with
        | some ty, some ptype, some h1, some m =>
          match takeHex m rest2 with
          | some (outs, q :: rest3) =>
            match nat? q with
            | some q =>
              match takeOps q rest3 with
              | some (ins, [h2, _lock2, k, vref, mode]) =>
                match hexBytes? h2, nat? k, ElaVerif.TxFilter.load typ w with
                | some h2, some k, some (ft, f) =>
                  match addAll mm f adds with
                  | none => "panic"
                  | some g =>
                    let facts : ElaVerif.TxFilter.TxFacts := ⟨ty, 9, false, ptype, vref == "1" && !ins.isEmpty⟩
                    let mt (c : Bool) := if c then ElaVerif.TxFilter.matchConfirmed mm ft else ElaVerif.TxFilter.matchUnconfirmed mm ft
                    match mt (mode.startsWith "c") g ⟨h1, UInt8.ofNat ty, outs, ins⟩ facts with
                    | none => "panic"
                    | some (b1, g1) =>
                      match mt (mode.endsWith "c") g1 ⟨h2, 2, [], [⟨h1, k⟩]⟩ ⟨2, 9, false, 0, false⟩ with
                      | none => "panic"
                      | some (b2, _) => boolStr b1 ++ " " ++ boolStr b2
                | some _, some _, none => "err"
                | _, _, _ => "bad-op"
              | _ => "bad-op"
            | none => "bad-op"
          | _ => "bad-op"
        | _, _, _, _ => "bad-op"
      | _ => "bad-op"
    | _, _, _ => "bad-op"
  | "txf" :: typ :: wire :: conf :: n :: rest =>
    -- filter.New(newFilter).Load(TxFilterLoad{typ, wire}); Add...; MatchConfirmed / MatchUnconfirmed
    match nat? typ, hexBytes? wire, nat? n with
    | some typ, some w, some n =>
      match takeHex n rest with
      | some (adds, ty :: ver :: vote :: ptype :: hsh :: _lock :: m :: rest2) =>
        match nat? ty, nat? ver, nat? vote, nat? ptype, hexBytes? hsh, nat? m with
        | some ty, some ver, some vote, some ptype, some h, some m =>
          match takeHex m rest2 with
          | some (outs, []) =>
            match ElaVerif.TxFilter.load typ w with
            | none => "err"
            | some (ft, f) =>
              match addAll mm f adds with
              | none => "panic"
              | some g =>
                -- a vote output (program hash of 21 zero bytes) follows the listed outputs
                let outs' := if vote = 0 then outs else outs ++ [List.replicate 21 0]
                let tx : Tx := ⟨h, UInt8.ofNat ty, outs', []⟩
                let facts : ElaVerif.TxFilter.TxFacts := ⟨ty, ver, vote == 1, ptype, false⟩
                let r := if conf = "1" then ElaVerif.TxFilter.matchConfirmed mm ft g tx facts
                         else ElaVerif.TxFilter.matchUnconfirmed mm ft g tx facts
                match r with
                | some (b, _) => boolStr b
                | none => "panic"
          | _ => "bad-op"
        | _, _, _, _, _, _ => "bad-op"
      | _ => "bad-op"
    | _, _, _ => "bad-op"
  | ["reload", bitsA, hfA, twA, bitsB, hfB, twB, data] =>
    match filter? bitsA hfA twA "-", filter? bitsB hfB twB "-", hexBytes? data with
    | some a, some b, some d =>
      let f := reload a b
      match «matches» mm f d, add mm f d with
      | some before, some g => match «matches» mm g d with
        | some after => boolStr before ++ " " ++ toHex g.bits ++ " " ++ boolStr after
        | none => "panic"
      | _, _ => "panic"
    | _, _, _ => "bad-op"
  | ["ser", bits, hf, tw, flags, types] =>
    match filter? bits hf tw types, nat? flags with
    | some f, some fl => match serializeFilterLoad f (UInt8.ofNat fl) with
      | some b => toHex b
      | none => "err"
    | _, _ => "bad-op"
  | ["load", wire] =>
    match hexBytes? wire with
    | some b => match loadFilter b with
      | some f => s!"ok {toHex f.bits} {f.hashFuncs.toNat} {f.tweak.toNat} {toHex f.txTypes}"
      | none => "err"
    | none => "bad-op"
  | "peer" :: wire :: n :: rest =>
    -- TxFilter.Load(wire); Add(d) for each d; then MatchUnconfirmed on one-output transactions
    match hexBytes? wire, nat? n with
    | some b, some n =>
      match takeHex n rest with
      | some (ds, m :: rest2) =>
        match nat? m, loadFilter b with
        | some m, some f =>
          match addAll mm f ds with
          | none => "panic"
          | some g =>
            let rec go : Nat → List String → Filter → List Char → Option (List Char)
              | 0, [], _, acc => some acc.reverse
              | 0, _ :: _, _, _ => none
              | k + 1, h :: ph :: _lock :: more, g, acc =>
                match hexBytes? h, hexBytes? ph with
                | some h, some ph =>
                  match matchTxAndUpdate mm g ⟨h, 2, [ph], []⟩ with
                  | some (r, g') => go k more g' ((if r then '1' else '0') :: acc)
                  | none => some ('p' :: acc).reverse
                | _, _ => none
              | _ + 1, _, _, _ => none
            match go m rest2 g [] with
            | some cs => "ok " ++ String.ofList cs
            | none => "bad-op"
        | some _, none => "err"
        | none, _ => "bad-op"
      | _ => "bad-op"
    | _, _ => "bad-op"
  | _ => "bad-op"

end C39Drv

def main : IO Unit := runPure C39Drv.step
