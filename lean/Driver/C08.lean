import Driver.Loop
import ElaVerif.Model.Sha256
import ElaVerif.Model.PartialMerkle
open ElaVerif.Merkle ElaVerif.PMT Driver

def hashPair08 (a b : List UInt8) : List UInt8 := ElaVerif.Sha256.sha256d (a ++ b)

def chunks08 : Nat → List UInt8 → List (List UInt8)
  | 0, _ => []
  | _, [] => []
  | fuel + 1, bs => bs.take 32 :: chunks08 fuel (bs.drop 32)

def parseHashes08 (s : String) : Option (List (List UInt8)) :=
  match hexBytes? s with
  | some bs => if bs.length % 32 = 0 then some (chunks08 (bs.length / 32) bs) else none
  | none => none

def parseBits (s : String) : Option (List Bool) :=
  if s == "-" then some [] else
  s.toList.foldr (fun c acc => match acc with
    | none => none
    | some l => if c == '1' then some (true :: l) else if c == '0' then some (false :: l) else none) (some [])

def catHex (hs : List (List UInt8)) : String := toHex hs.flatten

def fmtErr08 : PErr → String
  | .noTx => "err no-tx"
  | .noFlags => "err no-flags"
  | .noHashes => "err no-hashes"
  | .noBits => "err no-bits"
  | .dup => "err dup"
  | .leftNil => "err left-nil"
  | .invalidLeaf => "err invalid-leaf"
  | .rootMismatch => "err root-mismatch"
  | .fuel => "fuel"
  | .txNotFound => "err tx-not-found"
  | .nodeMissing => "err node-missing"
  | .tooMany => "err too-many"

def allSome : List (Option (List UInt8)) → Option (List (List UInt8))
  | [] => some []
  | none :: _ => none
  | some x :: r => (allSome r).map (x :: ·)

/-- the merkle block the node would serve: (numTx, root, flags, hashes); `none` = Go panic -/
def buildBlock (txs : List (List UInt8)) (matched : List Bool) :
    Option (List UInt8 × List UInt8 × List (List UInt8)) :=
  let n := txs.length
  let h := treeHeight n
  let (bits, hs) := build hashPair08 txs matched h 0
  match allSome hs, calcHash hashPair08 txs (treeDepth n) 0 with
  | some hs, some root => some (root, packFlags (bits.length + 1) bits, hs)
  | _, _ => none

/-- `pact.MaxTxPerBlock` (default; the boundary ops 10000 / 10001 tie it to the code) -/
def maxTx : Nat := 10000

def fuelFor (n hashes : Nat) : Nat := 8 * n + 4 * hashes + 64

def fmtCheck : PRes (List (List UInt8) × List (Nat × List UInt8)) → String
  | .ok (ids, _) => "ok " ++ catHex ids
  | .err e => fmtErr08 e
  | .panic => "panic"

/-- branch, index and what `auxpow.GetMerkleRoot` makes of them for this txid -/
def fmtBranch (txid : List UInt8) : PRes (List (List UInt8) × Nat) → String
  | .ok (bs, ix) => "ok " ++ toString ix ++ " " ++ catHex bs ++ " eval=" ++
      toHex (branchRoot hashPair08 (List.replicate 32 0) txid bs ix)
  | .err e => fmtErr08 e
  | .panic => "panic"

def stepC08 : List String → String
  | ["build", txs, m] =>
    match parseHashes08 txs, parseBits m with
    | some txs, some m =>
      if txs.length ≠ m.length ∨ txs.isEmpty then "bad-op" else
      match buildBlock txs m with
      | some (root, flags, hs) => s!"{txs.length} {toHex root} {toHex flags} {catHex hs}"
      | none => "panic"
    | _, _ => "bad-op"
  | "check" :: n :: root :: flags :: hashes :: _ =>
    match nat? n, hexBytes? root, hexBytes? flags, parseHashes08 hashes with
    | some n, some root, some flags, some hs =>
      fmtCheck (machine (goOps n) hashPair08 maxTx n root (unpackFlags flags) hs (fuelFor n hs.length))
    | _, _, _, _ => "bad-op"
  | "padded" :: n :: root :: flags :: hashes :: _ =>
    match nat? n, hexBytes? root, hexBytes? flags, parseHashes08 hashes with
    | some n, some root, some flags, some hs =>
      fmtCheck (machine (goOps n) hashPair08 maxTx n root (unpackFlags flags) hs (fuelFor n hs.length))
    | _, _, _, _ => "bad-op"
  | "spec" :: n :: root :: flags :: hashes :: _ =>   -- the recursive specification, same output format
    match nat? n, hexBytes? root, hexBytes? flags, parseHashes08 hashes with
    | some n, some root, some flags, some hs =>
      match extractTop hashPair08 maxTx n root (unpackFlags flags) hs with
      | .ok (ids, _) => "ok " ++ catHex ids
      | .err e => fmtErr08 e
      | .panic => "panic"
    | _, _, _, _ => "bad-op"
  | "branch" :: n :: root :: flags :: hashes :: txid :: _ =>
    match nat? n, hexBytes? root, hexBytes? flags, parseHashes08 hashes, hexBytes? txid with
    | some n, some root, some flags, some hs, some txid =>
      fmtBranch txid (branchOf hashPair08 maxTx n root (unpackFlags flags) hs txid (fuelFor n hs.length))
    | _, _, _, _, _ => "bad-op"
  | ["nmb", _raws, _elements, _tweak, _ppm, _added, txs, m] =>
    match parseHashes08 txs, parseBits m with
    | some txs, some m =>
      if txs.length ≠ m.length ∨ txs.isEmpty then "bad-op" else
      match buildBlock txs m with
      | some (_, flags, hs) => s!"{txs.length} {toHex flags} {catHex hs} rec=ok"
      | none => "panic"
    | _, _ => "bad-op"
  | ["roundtrip", txs, m] =>
    match parseHashes08 txs, parseBits m with
    | some txs, some m =>
      if txs.length ≠ m.length ∨ txs.isEmpty then "bad-op" else
      match buildBlock txs m with
      | some (root, flags, hs) =>
        fmtCheck (machine (goOps txs.length) hashPair08 maxTx txs.length root (unpackFlags flags) hs (fuelFor txs.length hs.length))
      | none => "panic"
    | _, _ => "bad-op"
  | ["branchrt", txs, m, i] =>
    match parseHashes08 txs, parseBits m, nat? i with
    | some txs, some m, some i =>
      if txs.length ≠ m.length ∨ txs.isEmpty then "bad-op" else
      match buildBlock txs m, txs[i]? with
      | some (root, flags, hs), some txid =>
        fmtBranch txid (branchOf hashPair08 maxTx txs.length root (unpackFlags flags) hs txid (fuelFor txs.length hs.length))
      | _, _ => "panic"
    | _, _, _ => "bad-op"
  | _ => "bad-op"

def main : IO Unit := runPure stepC08
