import Driver.Loop
import ElaVerif.Model.Proposal
open ElaVerif.Proposal Driver
open ElaVerif.Deposit (get)

structure DS where
  P : Params := ⟨0, 0, 0, 0, 0, 100⟩
  h : Nat := 0
  s : State := ⟨0, 0, 0, []⟩
  q : List (Option Tx) := []   -- queued txs of the open block (reversed); `none` = a tx the model ignores (fund)
  acc : Int := 0
  known : List Nat := []
  pendingW : List Nat := []   -- numbers of the v1 withdrawals waiting for their real payment
  newW : List Nat := []       -- v1 withdrawals accepted in the open block
  nextW : Nat := 0
  qRW : List (List Nat) := [] -- accepted real-withdraw lists of the open block
  closes : List (Nat × Nat) := []   -- CloseProposal proposals: (id, target id)
  chg : Bool := false               -- a committee change recomputes the used amount at the end of this block

def insSorted {α : Type} (x : Nat × α) : List (Nat × α) → List (Nat × α)
  | [] => [x]
  | y :: t => if x.1 ≤ y.1 then x :: y :: t else y :: insSorted x t

def sortK {α : Type} (l : List (Nat × α)) : List (Nat × α) := l.foldr insSorted []

def stCode : Status → Nat
  | .registered => 0 | .crAgreed => 1 | .voterAgreed => 2 | .finished => 3
  | .crCanceled => 4 | .voterCanceled => 5 | .terminated => 6 | .aborted => 7

def stageList (bs : List BEntry) (f : BEntry → Bool) : String :=
  let l := sortK ((bs.filter f).map (fun b => (b.stage, b.amount)))
  if l.isEmpty then "-" else ",".intercalate (l.map (fun p => s!"{p.1}={p.2}"))

def dump (d : DS) : String :=
  let ps := (sortK d.s.props).foldl (fun acc (p : Nat × Prop') =>
    acc ++ s!" {p.1}:{stCode p.2.status}:{stageList p.2.budgets (·.w)}:{stageList p.2.budgets (·.wn)}:{p.2.paid}") ""
  let w := (sortK (d.pendingW.map (fun i => (i, ())))).foldl (fun acc p => acc ++ s!" {p.1}") ""
  s!"h={d.h} C {d.s.stage}:{d.s.used} P{ps} W{w}"

def budget? (s : String) : Option BEntry :=
  match s.splitOn ":" with
  | [t, st, a] => do
    let ty ← (match t with | "0" => some BType.imprest | "1" => some .normal | "2" => some .final | _ => none)
    pure { typ := ty, stage := (← nat? st), amount := (← int? a) }
  | _ => none

def budgets? (s : String) : Option (List BEntry) :=
  if s = "-" then some [] else
  (s.splitOn ",").foldr (fun x acc => match budget? x, acc with
    | some v, some l => some (v :: l)
    | _, _ => none) (some [])

def kind? : String → Option TKind
  | "p" => some .progress | "t" => some .terminated | "f" => some .finalized
  | "c" => some .common | "r" => some .rejected | _ => none

def stOf (s : State) (id : Nat) : Option Status := (get id s.props).map (·.status)

def endOf (d : DS) (q : List Tx) : DS × String :=
  let s1 := q.foldl (applyTx d.h d.s) d.s
  let s2 := endBlock d.P d.h s1
  -- close proposals that went CRAgreed -> (VoterAgreed in the budget machine =) Finished in this block
  let closing := d.closes.filter (fun ct => stOf s1 ct.1 == some .crAgreed && stOf s2 ct.1 == some .voterAgreed)
  let s3 := closePhase s2 (sortK closing)
  let s4 := if d.chg then { s3 with used := resetUsed s3 } else s3
  let pend := applyRealWd d.pendingW (d.qRW.foldl (· ++ ·) []) ++ d.newW.reverse
  let d' := { d with s := s4, q := [], acc := 0, chg := false, pendingW := pend, newW := [], qRW := [] }
  (d', dump d')

def stepC29 (d : DS) (toks : List String) : DS × String :=
  match toks with
  | ["reset"] => ({}, "ok")
  | ["reset", stage, used0, crP, pubP, agree, fee, thr] =>
    match int? stage, int? used0, nat? crP, nat? pubP, nat? agree, int? fee, int? thr with
    | some a, some b, some c, some e, some f, some g, some t =>
      ({ P := ⟨c, e, f, g, t, 100⟩, s := ⟨a, b, b, []⟩ }, "ok")
    | _, _, _, _, _, _, _ => (d, "bad-op")
  | ["reset", stage, used0, crP, pubP, agree, fee, thr, usedNow] =>   -- CommitteeUsedAmount (snapshot) ≠ CRCCommitteeUsedAmount
    match int? stage, int? used0, nat? crP, nat? pubP, nat? agree, int? fee, int? thr, int? usedNow with
    | some a, some b, some c, some e, some f, some g, some t, some u =>
      ({ P := ⟨c, e, f, g, t, 100⟩, s := ⟨a, u, b, []⟩ }, "ok")
    | _, _, _, _, _, _, _, _ => (d, "bad-op")
  | ["chg"] => ({ d with chg := true }, "queued")
  | ["redo"] => (d, "queued")   -- disconnecting and re-connecting the same block changes nothing
  | ["close", id, target] =>
    match nat? id, nat? target with
    | some id, some tg =>
      -- checkCloseProposal: the target exists and is VoterAgreed (pre-block); a close proposal has no budgets
      (match get tg d.s.props with
       | none => (d, "reject noprop")
       | some t =>
         if t.status ≠ .voterAgreed then (d, "reject status") else
         ({ d with q := some (.propose id []) :: d.q, known := id :: d.known, closes := (id, tg) :: d.closes }, "accept"))
    | _, _ => (d, "bad-op")
  | ["realwd", idxs, _, _] =>
    match (idxs.splitOn ",").foldr (fun x acc => match nat? x, acc with
        | some i, some l => some (i :: l)
        | _, _ => none) (some []) with
    | some l =>
      (match checkRealWd d.pendingW [] l with
       | some e => (d, "reject " ++ e)
       | none => ({ d with q := none :: d.q, qRW := l :: d.qRW }, "accept"))
    | none => (d, "bad-op")
  | ["fund", _] => ({ d with q := none :: d.q }, "queued")
  | ["begin", h] => match nat? h with
    | some h => ({ d with h := h, q := [], acc := 0, newW := [], qRW := [] }, "ok")
    | none => (d, "bad-op")
  | ["end"] => endOf d (d.q.reverse.filterMap id)
  | ["end", perm] =>
    let q := d.q.reverse
    if perm = "-" then endOf d (q.filterMap id) else
    match (perm.splitOn ",").foldr (fun x acc => match nat? x, acc with
        | some i, some l => (match q[i]? with | some tx => some (tx :: l) | none => none)
        | _, _ => none) (some []) with
    | some q' => endOf d (q'.filterMap id)
    | none => (d, "bad-op")
  | ["propose", id, bs, "elip"] =>
    -- ELIP: `checkNormalOrELIPProposal` first demands exactly two budgets and no normal payment, then the same checks
    match nat? id, budgets? bs with
    | some id, some bs =>
      if bs.length ≠ 2 ∨ bs.any (fun b => b.typ = .normal) then (d, "reject elip") else
      match check d.P d.s d.acc (.propose id bs) with
      | some e => (d, "reject " ++ e)
      | none => ({ d with q := some (.propose id bs) :: d.q, acc := d.acc + total bs, known := id :: d.known }, "accept")
    | _, _ => (d, "bad-op")
  | ["propose", id, bs] =>
    match nat? id, budgets? bs with
    | some id, some bs =>
      match check d.P d.s d.acc (.propose id bs) with
      | some e => (d, "reject " ++ e)
      | none => ({ d with q := some (.propose id bs) :: d.q, acc := d.acc + total bs, known := id :: d.known }, "accept")
    | _, _ => (d, "bad-op")
  | ["review", id, m, r] =>
    match nat? id, nat? m with
    | some id, some m => if id ∈ d.known then ({ d with q := some (.review id m (r == "a")) :: d.q }, "queued") else (d, "noprop")
    | _, _ => (d, "bad-op")
  | ["rejvotes", id, a] =>
    match nat? id, int? a with
    | some id, some a =>
      -- the harness writes VotersRejectAmount into the live state at once (it is not a transaction)
      if id ∈ d.known then ({ d with s := applyTx d.h d.s d.s (.rejvotes id a) }, "queued") else (d, "noprop")
    | _, _ => (d, "bad-op")
  | ["track", id, k, st] =>
    match nat? id, kind? k, nat? st with
    | some id, some k, some st =>
      match check d.P d.s d.acc (.track id k st) with
      | some e => (d, "reject " ++ e)
      | none => ({ d with q := some (.track id k st) :: d.q }, "accept")
    | _, _, _ => (d, "bad-op")
  | ["withdraw", id, a] =>
    match nat? id, int? a with
    | some id, some a =>
      match check d.P d.s d.acc (.withdraw id a) with
      | some e => (d, "reject " ++ e)
      | none => ({ d with q := some (.withdraw id a) :: d.q, newW := d.nextW :: d.newW, nextW := d.nextW + 1 }, "accept")
    | _, _ => (d, "bad-op")
  | ["withdraw0", id, inp, out0, out1, toC, _] =>
    match nat? id, int? inp, int? out0 with
    | some id, some inp, some out0 =>
      let o1 : Option (Option (Int × Bool)) :=
        if out1 = "-" then some none else (int? out1).map (fun v => some (v, toC == "1"))
      match o1 with
      | none => (d, "bad-op")
      | some o1 =>
        match check d.P d.s d.acc (.withdraw0 id inp out0 o1) with
        | some e => (d, "reject " ++ e)
        | none => ({ d with q := some (.withdraw0 id inp out0 o1) :: d.q }, "accept")
    | _, _, _ => (d, "bad-op")
  | _ => (d, "bad-op")

def main : IO Unit := run stepC29 {}
