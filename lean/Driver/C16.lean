import Driver.Loop
import ElaVerif.Model.Ffldb
open ElaVerif.Ffldb ElaVerif.OrdMap Driver

structure St where
  db : DB := {}
  writeRow : Bytes := []
  txs : Array Tx := #[]
  curs : Array (Nat × FullCursor) := #[]
  opened : Bool := false

def fuel : Nat := 100000

def optHex : Option Bytes → String
  | none => "nil"
  | some b => toHex b

def fmtErr : Err → String
  | .bucketNotFound => "err bucketnotfound"
  | .bucketExists => "err bucketexists"
  | .bucketNameRequired => "err namerequired"
  | .keyRequired => "err keyrequired"
  | .txNotWritable => "err notwritable"
  | .txClosed => "err txclosed"
  | .incompatibleValue => "err incompatible"

def parsePath (s : String) : Option (List Bytes) :=
  if s = "." then some [] else (s.splitOn "/").mapM hexBytes?

def fmtMove {δ π : Type} [ItOps δ] [ItOps π] (r : Cursor δ π × Bool) : String :=
  toString r.2 ++ " " ++ optHex r.1.key ++ " " ++ optHex r.1.value

/-- after a mutation of transaction `i`: `notifyActiveIters` -/
def notify (s : St) (i : Nat) (t : Tx) : St :=
  { s with txs := s.txs.set! i t,
           curs := s.curs.map fun (j, c) => if j = i then (j, { c with pend := ItOps.refresh c.pend t.pkeys }) else (j, c) }

def withTx (s : St) (tx path : String) (f : Nat → Tx → Bytes → St × String) : St × String :=
  match tx.toNat?, parsePath path with
  | some i, some p =>
    match s.txs[i]? with
    | some t =>
      if t.closed then (s, "err txclosed") else
      match resolve t p metaID with
      | some id => f i t id
      | none => (s, "nobucket")
    | none => (s, "bad-op")
  | _, _ => (s, "bad-op")

def unitRes (s : St) (i : Nat) (r : Tx × Except Err Unit) : St × String :=
  match r.2 with
  | .ok _ => (notify s i r.1, "ok")
  | .error e => (s, fmtErr e)

def step (s : St) (toks : List String) : St × String :=
  match toks with
  | ["reset"] => ({}, "ok")
  | ["open", maxSize, mode, row] =>
    match maxSize.toNat?, hexBytes? row with
    | some m, some row =>
      ({ db := { ldb := initLdb row, maxSize := m, flushAlways := mode == "always" }, writeRow := row, opened := true }, "ok")
    | _, _ => (s, "bad-op")
  | ["begin", mode] =>
    let t : Tx := { writable := mode == "rw" || mode == "rwm", snap := s.db.snapshot }
    ({ s with txs := s.txs.push t }, toString s.txs.size)
  | ["commit", tx] =>
    match tx.toNat? with
    | some i =>
      match s.txs[i]? with
      | some t =>
        if t.closed then (s, "err txclosed")
        else if !t.writable then ({ s with txs := s.txs.set! i { t with closed := true } }, "err notwritable")
        else
          let t := t.putKey (bucketizedKey metaID writeLocKey) s.writeRow
          ({ s with db := s.db.commitTx t, txs := s.txs.set! i { t with closed := true } }, "ok")
      | none => (s, "bad-op")
    | none => (s, "bad-op")
  | [op, tx] =>
    if op != "rollback" && op != "fail" then (s, "bad-op") else
    match tx.toNat? with
    | some i =>
      match s.txs[i]? with
      | some t =>
        if t.closed then (s, "err txclosed")
        else ({ s with txs := s.txs.set! i { t with closed := true } }, "ok")
      | none => (s, "bad-op")
    | none => (s, "bad-op")
  | ["put", tx, path, k, v] =>
    match hexBytes? k, hexBytes? v with
    | some k, some v => withTx s tx path fun i t id => unitRes s i (bucketPut t id k v)
    | _, _ => (s, "bad-op")
  | ["del", tx, path, k] =>
    match hexBytes? k with
    | some k => withTx s tx path fun i t id => unitRes s i (bucketDelete t id k)
    | none => (s, "bad-op")
  | ["get", tx, path, k] =>
    match hexBytes? k with
    | some k => withTx s tx path fun _ t id => (s, optHex (bucketGet t id k))
    | none => (s, "bad-op")
  | ["mkb", tx, path, name] =>
    match hexBytes? name with
    | some n => withTx s tx path fun i t id =>
        let r := createBucket t id n
        match r.2 with
        | .ok _ => (notify s i r.1, "ok")
        | .error e => (s, fmtErr e)
    | none => (s, "bad-op")
  | ["mkbi", tx, path, name] =>
    match hexBytes? name with
    | some n => withTx s tx path fun i t id =>
        let r := createBucketIfNotExists t id n
        match r.2 with
        | .ok _ => (notify s i r.1, "ok")
        | .error e => (s, fmtErr e)
    | none => (s, "bad-op")
  | ["rmb", tx, path, name] =>
    match hexBytes? name with
    | some n => withTx s tx path fun i t id => unitRes s i (deleteBucket t id n)
    | none => (s, "bad-op")
  | ["hasb", tx, path, name] =>
    match hexBytes? name with
    | some n => withTx s tx path fun _ t id => (s, toString (childBucket t id n).isSome)
    | none => (s, "bad-op")
  | ["each", tx, path] =>
    withTx s tx path fun _ t id =>
      let l := walk t fuel (newKeyCursor t id id)
      (s, if l.isEmpty then "empty" else ",".intercalate (l.map fun e => optHex e.1 ++ "=" ++ optHex e.2))
  | ["eachb", tx, path] =>
    withTx s tx path fun _ t id =>
      let l := walk t fuel (newKeyCursor t id (bidx ++ id))
      (s, if l.isEmpty then "empty" else ",".intercalate (l.map fun e => optHex e.1))
  | ["cur", "new", tx, path] =>
    withTx s tx path fun i t id =>
      ({ s with curs := s.curs.push (i, newFullCursor t id) }, toString s.curs.size)
  | "cur" :: id :: rest =>
    match id.toNat?.bind (fun j => s.curs[j]?.map fun c => (j, c)) with
    | none => (s, "bad-op")
    | some (j, (i, c)) =>
      match s.txs[i]? with
      | none => (s, "bad-op")
      | some t =>
        if t.closed then (s, "err txclosed") else
        let upd (r : FullCursor × Bool) : St × String := ({ s with curs := s.curs.set! j (i, r.1) }, fmtMove r)
        match rest with
        | ["first"] => upd (c.first t fuel)
        | ["last"] => upd (c.last t fuel)
        | ["next"] => upd (c.next t fuel)
        | ["prev"] => upd (c.prev t fuel)
        | ["seek", k] => match hexBytes? k with
          | some k => upd (c.seek t fuel k)
          | none => (s, "bad-op")
        | ["key"] => (s, optHex c.key)
        | ["value"] => (s, optHex c.value)
        | ["delete"] =>
          if !t.writable then (s, "err notwritable") else
          match c.rawKey with
          | none => (s, "err incompatible")
          | some k =>
            if hasPrefix bidx k then (s, "err incompatible")
            else (notify s i (t.deleteKey k), "ok")
        | _ => (s, "bad-op")
  | ["flush"] => ({ s with db := s.db.flush }, "ok")
  | ["stats"] =>
    (s, toString s.db.ckeys.length ++ " " ++ toString s.db.cremoves.length ++ " " ++
      toString (mapSize s.db.ckeys + mapSize s.db.cremoves))
  | ["reopen"] => ({ s with db := s.db.reopen, txs := #[], curs := #[] }, "ok")
  | _ => (s, "bad-op")

def main : IO Unit := Driver.run step {}
