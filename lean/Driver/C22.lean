import Driver.Loop
import ElaVerif.Model.History
open ElaVerif.History Driver

/-!
Driver for C22 (same bookkeeping model as C21): the bookkeeping of the state's `utils.History` predicted by the C20
model over a unit state (every block is one `Append…; Commit`), and the verdict the generic theorem
predicts for a rollback compared with a direct build: `same`.
-/

def st22 (H : History Unit) : String :=
  s!"h={H.height} n={distinctCount (heights H.changes)}"

def step22 (H : History Unit) : List String → History Unit × String
  | "reset" :: _ => let H' : History Unit := newHistory 720; (H', st22 H')
  | "blk" :: h :: _ => match nat? h with
      | some h => let r := processBlock H () ⟨h, []⟩; (r.2.1, st22 r.2.1)
      | none => (H, "bad-op")
  | "special" :: _ => (H, "ok")
  | ["rb", k] => match nat? k with
      | some k => let r := rollbackTo H () k; (r.1, st22 r.1)
      | none => (H, "bad-op")
  | _ => (H, "bad-op")

def main : IO Unit := Driver.run step22 (newHistory 720)
