import Driver.Loop
import ElaVerif.Model.Caches
open ElaVerif.Caches Driver

structure St where
  udb : TxDb := []
  u : Utxo := Utxo.empty 3
  idb : IdxDb := []
  i : Idx := ⟨[], 5, 10000, false⟩
  bdb : BlockDb := []
  b : BlockCache := ⟨[], []⟩
  s : SendCache := SendCache.empty
  x : UIdx := ⟨[], [], ⟨[], 5, 10000, false⟩⟩
  xblocks : List (Nat × List BTx) := []

def csv (s : String) : List String := if s = "-" then [] else s.splitOn ","
def joinC (xs : List String) : String := if xs.isEmpty then "-" else ",".intercalate xs
def nats? (s : String) : Option (List Nat) := (csv s).mapM nat?

def parseIn (s : String) : Option In :=
  match s.splitOn ":" with
  | [a, b, c] => do some ⟨← nat? a, ← nat? b, ← nat? c⟩
  | _ => none

def fmtIn (k : In) : String := s!"{k.tx}:{k.idx}:{k.seq}"
def fmtU (u : Utxo) : String := s!"fifo={joinC (u.inputs.map fmtIn)} nref={u.ref.length} ntx={u.txc.length}"
def fmtB (b : BlockCache) : String :=
  s!"fifo={joinC (b.fifo.map toString)} keys={joinC ((b.map.map (·.1)).mergeSort (fun a c => a ≤ c) |>.map toString)}"
def b2s (c : Bool) : String := if c then "1" else "0"
def fmtS (s : SendCache) : String :=
  let fifo := (s.hashes.zip s.confirms).map fun hc => s!"{hc.1}:{b2s hc.2}"
  let outer := (s.outer.mergeSort (fun a c => a.1 ≤ c.1)).map fun e =>
    s!"{e.1}:" ++ "+".intercalate ((e.2.map (fun p => b2s p.1)).mergeSort (fun a c => a ≤ c))
  s!"fifo={joinC fifo} outer={joinC outer}"

/-- `h:nout:cacheable:coinbase:r.i+r.i` -/
def parseBTx (s : String) : Option BTx :=
  match s.splitOn ":" with
  | [h, n, c, cb, ins] => do
      let ins ← (if ins = "-" then [] else ins.splitOn "+").mapM fun x => match x.splitOn "." with
        | [r, i] => do some (← nat? r, ← nat? i)
        | _ => none
      some ⟨← nat? h, ← nat? n, (← nat? c) == 1, (← nat? cb) == 1, ins⟩
  | _ => none

def step (st : St) : List String → St × String
  | ["reset"] => ({}, "ok")
  | ["u.reset", m, mf] => match nat? m with
      | some m =>
        -- NewUTXOCache: with MemoryFirst the limit becomes memoryFirstReferenceSize
        let m := if mf = "1" then 5000 else m
        ({ st with udb := [], u := Utxo.empty m }, s!"ok max={m}")
      | none => (st, "bad-op")
  | ["u.put", id, outs] => match nat? id, nats? outs with
      | some id, some outs => ({ st with udb := setKey st.udb id outs }, "ok")
      | _, _ => (st, "bad-op")
  | ["u.del", id] => match nat? id with
      | some id => ({ st with udb := dropKey st.udb id }, "ok")
      | none => (st, "bad-op")
  | ["u.clean"] => ({ st with u := cleanCache st.u }, "ok " ++ fmtU (cleanCache st.u))
  | ["u.cleantx"] => ({ st with u := cleanTxCache st.u }, "ok " ++ fmtU (cleanTxCache st.u))
  | ["u.ref", ins] => match (csv ins).mapM parseIn with
      | some ins =>
        let (r, u) := getTxReference st.udb [] st.u ins
        let rs := match r with
          | .ok vs => "ok " ++ joinC (vs.map toString)
          | .error .notFound => "err notfound"
          | .error .range => "err range"
        ({ st with u := u }, rs ++ " " ++ fmtU u)
      | none => (st, "bad-op")
  | ["u.tx", id] => match nat? id with
      | some id =>
        let (r, u) := getTransaction st.udb st.u [] id
        let rs := match r with
          | some outs => "ok " ++ joinC (outs.map toString)
          | none => "err notfound"
        ({ st with u := u }, rs ++ " " ++ fmtU u)
      | none => (st, "bad-op")
  | ["i.reset", vol, mf] => match nat? vol, nat? mf with
      | some v, some mf => ({ st with idb := [], i := ⟨[], v, 10000, mf == 1⟩ }, "ok")
      | _, _ => (st, "bad-op")
  | ["i.connect", height, txs, spent] =>
      -- txs: id:payload:cacheable,...
      let parse (s : String) : Option (Nat × Nat × Bool) := match s.splitOn ":" with
        | [a, b, c] => do some (← nat? a, ← nat? b, (← nat? c) == 1)
        | _ => none
      match nat? height, (csv txs).mapM parse, nats? spent with
      | some h, some txs, some spent =>
        let (db, i) := Idx.connect st.idb st.i [] h txs spent
        ({ st with idb := db, i := i }, s!"ok len={i.txns.length}")
      | _, _, _ => (st, "bad-op")
  | ["i.fill", frm, count, height] => match nat? frm, nat? count, nat? height with
      | some f, some c, some h =>
        let txs := (List.range c).map fun k => (f + k, f + k, true)
        let st2 := txs.foldl (Idx.connectTx h) (st.idb, st.i)
        ({ st with idb := st2.1, i := st2.2 }, s!"ok len={st2.2.txns.length}")
      | _, _, _ => (st, "bad-op")
  | ["i.disconnect", ids] => match nats? ids with
      | some ids =>
        let (db, i) := Idx.disconnect st.idb st.i ids
        ({ st with idb := db, i := i }, s!"ok len={i.txns.length}")
      | none => (st, "bad-op")
  | ["i.roundtrip"] => (st, s!"ok len={st.i.txns.length}")   -- Serialize / Deserialize keep the content
  | ["i.trim"] =>
      let i := st.i.trim []
      ({ st with i := i }, s!"ok len={i.txns.length}")
  | ["i.fetch", id] => match nat? id with
      | some id =>
        let r := match st.i.fetch st.idb id with
          | some (h, tx) => s!"ok {h} {tx}"
          | none => "err notfound"
        let c := match st.i.txns.lookup id with
          | some _ => "hit" | none => "miss"
        (st, r ++ " " ++ c)
      | none => (st, "bad-op")
  | ["i.fetchv", id] => match nat? id with   -- after a trim: only the value, not hit/miss
      | some id =>
        (st, match st.idb.lookup id with
          | some (h, tx) => s!"ok {h} {tx}"
          | none => "err notfound")
      | none => (st, "bad-op")
  | ["x.reset", vol, mf] => match nat? vol, nat? mf with
      | some v, some mf => ({ st with x := ⟨[], [], ⟨[], v, 10000, mf == 1⟩⟩, xblocks := [] }, "ok")
      | _, _ => (st, "bad-op")
  | ["x.connect", height, txs] => match nat? height, (txs.splitOn ";").mapM parseBTx with
      | some h, some txs =>
        let x := st.x.connectBlock [] h txs
        ({ st with x := x, xblocks := (h, txs) :: st.xblocks }, s!"ok len={x.cache.txns.length}")
      | _, _ => (st, "bad-op")
  | ["x.bulk", height, frm, count] =>   -- one block of `count` output-less transactions
      match nat? height, nat? frm, nat? count with
      | some h, some f, some c =>
        let txs := (List.range c).map fun k => (⟨f + k, 0, true, false, []⟩ : BTx)
        let x := st.x.connectBlock [] h txs
        ({ st with x := x, xblocks := (h, txs) :: st.xblocks }, s!"ok len={x.cache.txns.length}")
      | _, _, _ => (st, "bad-op")
  | ["x.fetchv", id] => match nat? id with   -- after a real trim: only the answer, not hit/miss
      | some id => (st, match st.x.txdb.lookup id with
          | some (h, _) => s!"ok {h}"
          | none => "err notfound")
      | none => (st, "bad-op")
  | ["x.disconnect", height] => match nat? height >>= fun h => st.xblocks.lookup h with
      | some txs =>
        let x := st.x.disconnectBlock txs
        ({ st with x := x }, s!"ok len={x.cache.txns.length}")
      | none => (st, "bad-op")
  | ["x.fetch", id] => match nat? id with
      | some id =>
        let r := match st.x.cache.fetch st.x.txdb id with
          | some (h, _) => s!"ok {h}"
          | none => "err notfound"
        let c := match st.x.cache.txns.lookup id with
          | some _ => "hit" | none => "miss"
        (st, r ++ " " ++ c)
      | none => (st, "bad-op")
  | ["b.reset"] => ({ st with bdb := [], b := ⟨[], []⟩ }, "ok")
  | ["b.store", id, c] => match nat? id, nat? c with
      | some id, some c => ({ st with bdb := storeBlock st.bdb id c }, "ok")
      | _, _ => (st, "bad-op")
  | ["b.get", id] => match nat? id with
      | some id =>
        let (r, b) := getBlock st.bdb st.b id
        let rs := match r with
          | some c => s!"ok {id} {c}"
          | none => "err notfound"
        ({ st with b := b }, rs ++ " " ++ fmtB b)
      | none => (st, "bad-op")
  | ["b.push", id] => match nat? id with   -- an InvTypeBlock request: the block is looked up, sent without its confirm
      | some id =>
        let (r, b) := getBlock st.bdb st.b id
        let rs := match r with
          | some _ => s!"ok {id} 0"
          | none => "err notfound"
        ({ st with b := b }, rs ++ " " ++ fmtB b)
      | none => (st, "bad-op")
  | ["b.get2", id] => match nat? id with   -- two concurrent misses for one hash
      | some id =>
        let (r, b) := getBlockRace st.bdb st.b id
        let rs := match r with
          | some c => s!"ok {id} {c}"
          | none => "err notfound"
        ({ st with b := b }, rs ++ " " ++ fmtB b)
      | none => (st, "bad-op")
  | ["svflow", fail] =>
      -- SaveBlock of a block with one new transaction, the save processors succeeding or not
      let u : UIdx := ⟨[], [], ⟨[], 100000, 10000, false⟩⟩
      let u1 := u.saveBlock [] 4 [⟨1, 1, true, false, []⟩] (fail != "1")
      let f := match u1.cache.fetch u1.txdb 1 with | some _ => "ok" | none => "err"
      (st, s!"saved={if fail = "1" then "err" else "ok"} fetch={f}")
  | ["rgflow", keep] =>
      -- node-level reorganisation: T is looked up through the reference cache, then the chain reorganises
      -- (reorganizeChain: CleanCache, then T is on the new branch or not), then the same lookup again
      let db0 : TxDb := [(1, [7])]
      let q : List In := [⟨1, 0, 0⟩]
      let r1 := getTxReference db0 [] (Utxo.empty 100000) q
      let db1 : TxDb := if keep = "1" then db0 else []
      let r2 := getTxReference db1 [] (cleanCache r1.2) q
      let f := fun (r : Except RefErr (List Nat)) => match r with | .ok _ => "ok" | .error _ => "err"
      (st, s!"before={f r1.1} after={f r2.1}")
  | ["s.reset"] => ({ st with s := SendCache.empty }, "ok")
  | ["s.write", id, variant] => match nat? id, nat? variant with
      | some id, some v =>
        let (sent, s) := writeBlock st.s id (v != 0) (id * 4 + v)
        ({ st with s := s }, s!"sent={sent % 4} " ++ fmtS s)
      | _, _ => (st, "bad-op")
  | _ => (st, "bad-op")

def main : IO Unit := Driver.run step ({} : St)
