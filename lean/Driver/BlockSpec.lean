import Driver.Loop
import ElaVerif.Model.Index
open ElaVerif.Index Driver

/-!
  Parser of the block specification shared by the chain-store and node harnesses
  (printed by harness/regnet Describe):
  <block> = id prev height ntx { txid kind pver nonce nin {t:i} nout {addr:value:W<h>|R<h>|-} nph {h} npd {hex} }
  ids and hashes are hex, heights / counts / values decimal.
-/
namespace BlockSpec


def splitC (s : String) : List String := s.splitOn ":"
def tail1 (s : String) : String := String.ofList (s.toList.drop 1)
def head1 (s : String) : Char := s.toList.headD ' '

def kindOf : String → Option Kind
  | "cb" => some .coinbase | "ra" => some .registerAsset | "wd" => some .withdraw
  | "rd" => some .returnDeposit | "pp" => some .proposal | "rv" => some .review
  | "tk" => some .tracking | "ot" => some .other | "sp" => some .other | "rc" => some .other | "xc" => some .other | "ca" => some .other | _ => none

def takeN {α} (f : List String → Option (α × List String)) : Nat → List String → Option (List α × List String)
  | 0, ts => some ([], ts)
  | n + 1, ts => do
    let (a, ts) ← f ts
    let (r, ts) ← takeN f n ts
    pure (a :: r, ts)

def pIn : List String → Option ((Nat × Nat) × List String)
  | t :: ts => match splitC t with
    | [a, b] => do pure ((← hexNat? a, ← nat? b), ts)
    | _ => none
  | [] => none

def pOut : List String → Option (Out × List String)
  | t :: ts => match splitC t with
    | [a, v, p] => do
      let a ← nat? a
      let v ← int? v
      if p = "-" then pure ({ addr := a, value := v }, ts)
      else if head1 p = 'W' then pure ({ addr := a, value := v, wd := some (← hexNat? (tail1 p)) }, ts)
      else if head1 p = 'R' then pure ({ addr := a, value := v, rd := some (← hexNat? (tail1 p)) }, ts)
      else none
    | _ => none
  | [] => none

def pHex : List String → Option (Nat × List String)
  | t :: ts => do pure (← hexNat? t, ts)
  | [] => none

def pStr : List String → Option (String × List String)
  | t :: ts => some (t, ts)
  | [] => none

def pCount : List String → Option (Nat × List String)
  | t :: ts => do pure (← nat? t, ts)
  | [] => none

def pTx : List String → Option (Tx × List String)
  | id :: kd :: pv :: _nonce :: ts => do
    let id ← hexNat? id
    let k ← kindOf kd
    let pv ← nat? pv
    let (n, ts) ← pCount ts
    let (ins, ts) ← takeN pIn n ts
    let (n, ts) ← pCount ts
    let (outs, ts) ← takeN pOut n ts
    let (n, ts) ← pCount ts
    let (phs, ts) ← takeN pHex n ts
    let (n, ts) ← pCount ts
    let (pds, ts) ← takeN pStr n ts
    -- a copied coinbase carries its lock time (8 hex digits); the model reads it as decimal
    let pds := if kd = "ca" then ["ca"] else pds
    let pds := if k == .coinbase then pds.map fun d => toString ((hexNat? d).getD 0) else pds
    pure ({ id := id, kind := k, pver := pv, ins := ins, outs := outs, phashes := phs, pdatas := pds }, ts)
  | _ => none

def pBlock : List String → Option Block
  | id :: prev :: h :: n :: ts => do
    let (txs, rest) ← takeN pTx (← nat? n) ts
    if rest ≠ [] then none
    pure { id := ← hexNat? id, prev := ← hexNat? prev, height := ← nat? h, txs := txs }
  | _ => none


end BlockSpec
