import Driver.Loop
import Driver.BlockSpec
import ElaVerif.Model.Node
open ElaVerif.Index ElaVerif.Node Driver BlockSpec

/-!
  Line protocol of the node harnesses (C06, C12, C14, C30; see harness/regnet/sim.go):
    reset
    init <reward> <maturity> <minFee> <guardFrom> <checkRewardFrom> <genesis block>
    deliver <block>        → main|side|orphan|err <tipHeight> <tipId>
    deliverc <block>       same as deliver (the real side passes a dummy confirmation, ignored in POW mode)
    deliverw <ts> <bits> <block>   same, with the header difficulty (work = CalcWork(bits))
    submit <tx>            → ok | err
    irr <lih> <dpos 0|1> <revertStart>     (C30: sets the DPoS state fields the guard reads)
    obs <q>*               u<txid> unspent indexes (sorted), a<addr> utxos of the address (sorted),
                           t<txid> height of the transaction, p pool (sorted ids), c tip, h chain ids
-/
namespace NodeSim

def insertBy {α} (lt : α → α → Bool) (x : α) : List α → List α
  | [] => [x]
  | y :: r => if lt x y then x :: y :: r else y :: insertBy lt x r
def sortBy {α} (lt : α → α → Bool) (l : List α) : List α := l.foldr (insertBy lt) []

def fmtList (l : List String) : String := if l.isEmpty then "-" else ",".intercalate l

def obs1 (s : NState) (q : String) : String :=
  let k := head1 q
  let L := s.ledger
  if k = 'p' then fmtList ((sortBy (· < ·) (s.pool.map (·.id))).map natToHex)
  else if k = 'c' then s!"{s.tip.height}:{natToHex s.tip.id}"
  else if k = 'h' then fmtList ((s.active.reverse.map (·.1.id)).map natToHex)
  else match hexNat? (tail1 q) with
  | none => "bad"
  | some x =>
    if k = 'u' then
      -- the unspent index keeps one list per transaction hash: a repeated hash (known finding
      -- C06-duplicate-coinbase) overwrites the entry, so repeated indexes are printed once
      fmtList ((sortBy (· < ·) (unspentOf L x).eraseDups).map toString)
    else if k = 'a' then
      let es := utxoOf L x
      let es := sortBy (fun (a b : UEntry) => a.txid < b.txid || (a.txid == b.txid && a.idx < b.idx)) es
      fmtList (es.map fun e => s!"{natToHex e.txid}:{e.idx}:{e.value}")
    else if k = 'b' then toString (balanceOf L x)
    else if k = 't' then
      match txHeight L x with
      | some h => toString h
      | none => "none"
    else "bad"

def replyStr : Reply → String
  | .main => "main" | .side => "side" | .orphan => "orphan" | .err => "err"

def blank : NState := initState { reward := 0, maturity := 0, minFee := 0 } { id := 0, prev := 0, height := 0, txs := [] }

def step (s : NState) : List String → NState × String
  | ["reset"] => (blank, "ok")
  | "init" :: r :: m :: f :: g :: c :: ts =>
    match int? r, nat? m, int? f, nat? g, nat? c, pBlock ts with
    | some r, some m, some f, some g, some c, some b =>
      (initState { reward := r, maturity := m, minFee := f, guardFrom := g, checkRewardFrom := c } b, "ok")
    | _, _, _, _, _, _ => (s, "bad-op")
  | "deliver" :: ts =>
    match pBlock ts with
    | some b =>
      let (s', r) := processBlock s b
      (s', s!"{replyStr r} {s'.tip.height} {natToHex s'.tip.id}")
    | none => (s, "bad-op")
  | "deliverc" :: ts =>
    match pBlock ts with
    | some b =>
      let (s', r) := processBlock s b
      (s', s!"{replyStr r} {s'.tip.height} {natToHex s'.tip.id}")
    | none => (s, "bad-op")
  | "deliverw" :: _ts :: bits :: ts =>
    match hexNat? bits, pBlock ts with
    | some bits, some b =>
      let (s', r) := processBlock s { b with bits := bits }
      (s', s!"{replyStr r} {s'.tip.height} {natToHex s'.tip.id}")
    | _, _ => (s, "bad-op")
  | ["restart"] =>
    let s' := restart s
    (s', s!"ok {s'.tip.height} {natToHex s'.tip.id}")
  | "submit" :: ts =>
    match pTx ts with
    | some (tx, []) =>
      let (s', ok) := submit s tx
      (s', if ok then "ok" else "err")
    | _ => (s, "bad-op")
  | ["reorgto", id] =>
    match hexNat? id with
    | some id =>
      let (s', ok) := reorgTo s id
      (s', s!"{if ok then "ok" else "err"} {s'.tip.height} {natToHex s'.tip.id}")
    | none => (s, "bad-op")
  | ["irr", l, d, rs] =>
    match nat? l, nat? d, nat? rs with
    | some l, some d, some rs => ({ s with lih := l, dpos := d != 0, revertStart := rs }, "ok")
    | _, _, _ => (s, "bad-op")
  | "obs" :: qs => (s, " ".intercalate (qs.map (obs1 s)))
  | _ => (s, "bad-op")

end NodeSim
