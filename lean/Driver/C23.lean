import Driver.Loop
import ElaVerif.Model.CheckpointDriver

def main : IO Unit := Driver.runPure ElaVerif.CheckpointDriver.step
