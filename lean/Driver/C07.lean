import Driver.Loop
import ElaVerif.Model.Sha256
import ElaVerif.Model.Merkle
open ElaVerif.Merkle Driver

/-- `ComputeParent`: double SHA-256 of the 64-byte concatenation. -/
def hashPair (a b : List UInt8) : List UInt8 := ElaVerif.Sha256.sha256d (a ++ b)

def chunks32 : Nat → List UInt8 → List (List UInt8)
  | 0, _ => []
  | _, [] => []
  | fuel + 1, bs => bs.take 32 :: chunks32 fuel (bs.drop 32)

def parseHashes (s : String) : Option (List (List UInt8)) :=
  match hexBytes? s with
  | some bs => if bs.length % 32 = 0 then some (chunks32 (bs.length / 32) bs) else none
  | none => none

def parseTx (s : String) : Option (Tx (List UInt8) String) :=
  match s.splitOn "," with
  | [id, cb, sane, ins] =>
    match hexBytes? id with
    | some idb =>
      some { id := idb, coinbase := cb == "1", sane := sane == "1",
             inputs := if ins == "-" then [] else ins.splitOn ";" }
    | none => none
  | _ => none

def parseTxs : List String → Option (List (Tx (List UInt8) String))
  | [] => some []
  | s :: rest => match parseTx s, parseTxs rest with
    | some t, some ts => some (t :: ts)
    | _, _ => none

def fmtErr : SanityErr → String
  | .noTx => "err no-tx"
  | .firstNotCoinbase => "err first-not-coinbase"
  | .secondCoinbase => "err second-coinbase"
  | .dupTx => "err dup-tx"
  | .txSanity => "err tx-sanity"
  | .dupInput => "err dup-input"
  | .dupSpecial => "err dup-special"
  | .rootFail => "err root-fail"
  | .badRoot => "err bad-root"

def stepC07 : List String → String
  | ["root", hs] => match parseHashes hs with
    | some l => match computeRoot hashPair l with
      | .ok r => "ok " ++ toHex r
      | .err => "err"
      | .panic => "panic"
    | none => "bad-op"
  | "sanity" :: _blk :: pre :: size :: special :: root :: txs =>
    match hexBytes? root, parseTxs txs with
    | some root, some txs =>
      -- order of CheckBlockSanity: header checks, "no transactions", size checks, transaction part
      if pre != "1" then "err pre"
      else if txs.isEmpty then "err no-tx"
      else if size != "1" then "err size"
      else match blockSanityTx hashPair root txs (special == "1") with
        | none => "ok"
        | some e => fmtErr e
    | _, _ => "bad-op"
  | "orphan" :: depth :: _k :: _mut :: pre :: size :: special :: root :: txs =>
    -- the block is delivered while its parent is unknown: ProcessBlock runs CheckBlockSanity BEFORE
    -- the orphan handling, so a block that fails it never reaches the orphan pool; an accepted one
    -- waits as an orphan and is connected when its ancestors arrive.
    match nat? depth, hexBytes? root, parseTxs txs with
    | some depth, some root, some txs =>
      let verdict :=
        if pre != "1" then "err pre"
        else if txs.isEmpty then "err no-tx"
        else if size != "1" then "err size"
        else match blockSanityTx hashPair root txs (special == "1") with
          | none => "ok"
          | some e => fmtErr e
      if verdict == "ok" then s!"first=orphan tip={depth} bound=1"
      else s!"first={verdict.replace " " ":"} tip={depth - 1} bound=1"
    | _, _, _ => "bad-op"
  | _ => "bad-op"

def main : IO Unit := runPure stepC07
