import Driver.Loop
import ElaVerif.Model.Sha256
import ElaVerif.Model.Merkle
open ElaVerif.Merkle Driver

/-- `ComputeParent`: double SHA-256 of the 64-byte concatenation. -/
def hashPair (a b : List UInt8) : List UInt8 := ElaVerif.Sha256.sha256d (a ++ b)

def chunks32 : Nat → List UInt8 → List (List UInt8)
  | 0, _ => []
  | _, [] => []
  | fuel + 1, bs => bs.take 32 :: chunks32 fuel (bs.drop 32)

def parseHashes (s : String) : Option (List (List UInt8)) :=
  match hexBytes? s with
  | some bs => if bs.length % 32 = 0 then some (chunks32 (bs.length / 32) bs) else none
  | none => none

def parseTx (s : String) : Option (Tx (List UInt8) String) :=
  match s.splitOn "," with
  | [id, cb, sane, ins] =>
    match hexBytes? id with
    | some idb =>
      some { id := idb, coinbase := cb == "1", sane := sane == "1",
             inputs := if ins == "-" then [] else ins.splitOn ";" }
    | none => none
  | _ => none

def parseTxs : List String → Option (List (Tx (List UInt8) String))
  | [] => some []
  | s :: rest => match parseTx s, parseTxs rest with
    | some t, some ts => some (t :: ts)
    | _, _ => none

def fmtErr : SanityErr → String
  | .noTx => "err no-tx"
  | .firstNotCoinbase => "err first-not-coinbase"
  | .secondCoinbase => "err second-coinbase"
  | .dupTx => "err dup-tx"
  | .txSanity => "err tx-sanity"
  | .dupInput => "err dup-input"
  | .dupSpecial => "err dup-special"
  | .rootFail => "err root-fail"
  | .badRoot => "err bad-root"

/-- pact.MaxTxPerBlock, MaxBlockHeaderSize, MaxBlockContextSize (defaults; boundary ops tie them) -/
def limits : Limits := ⟨10000, 1000000, 8000000⟩

/-- header part + size clauses + transaction part, in the order of `CheckBlockSanity`.
    `pre` ∈ ok | auxpow | pow | time (the first failing header check), `size` = hdrSize:blkSize. -/
def sanityVerdict (pre size special : String) (root : List UInt8) (txs : List (Tx (List UInt8) String)) : String :=
  if pre != "ok" then "err " ++ pre else
  match size.splitOn ":" with
  | [h, b] =>
    match nat? h, nat? b with
    | some h, some b =>
      match sizeChecks limits txs.length h b with
      | some .noTx => "err no-tx"
      | some .tooMany => "err too-many"
      | some .hdrBig => "err hdr-big"
      | some .blkBig => "err blk-big"
      | none =>
        match blockSanityTx hashPair root txs (special == "1") with
        | none => "ok"
        | some e => fmtErr e
    | _, _ => "bad-op"
  | _ => "bad-op"

def parseSp (s : String) : Option SpTx :=
  match s.splitOn ":" with
  | ["rs"] => some .sponsor
  | ["ot"] => some .other
  | ["ws", ok, hs] => some (.withdraw (ok == "1") (if hs == "-" then [] else hs.splitOn ";"))
  | ["rp", ok, o, n] => some (.regProducer (ok == "1") o n)
  | ["up", ok, o, n] => some (.updProducer (ok == "1") o n)
  | ["cp", ok, o] => some (.cancelProducer (ok == "1") o)
  | ["rc", ok, c] => some (.regCR (ok == "1") c)
  | ["uc", ok, c] => some (.updCR (ok == "1") c)
  | ["xc", ok, c] => some (.unregCR (ok == "1") c)
  | _ => none

def parseSps : List String → Option (List SpTx)
  | [] => some []
  | s :: r => match parseSp s, parseSps r with
    | some a, some b => some (a :: b)
    | _, _ => none

def fmtDup : DupErr → String
  | .dupSponsor => "err dup-sponsor"
  | .dupSide => "err dup-side"
  | .badRegProducer => "err bad-reg-producer"
  | .badUpdProducer => "err bad-upd-producer"
  | .badCancelProducer => "err bad-cancel-producer"
  | .dupProducer => "err dup-producer"
  | .dupNode => "err dup-node"
  | .badRegCR => "err bad-reg-cr"
  | .badUpdCR => "err bad-upd-cr"
  | .badUnregCR => "err bad-unreg-cr"
  | .dupCR => "err dup-cr"
  | .panic => "panic"

def stepC07 : List String → String
  | "duptx" :: txs => match parseSps txs with
    | some l => match checkDuplicateTx l {} with
      | none => "ok"
      | some e => fmtDup e
    | none => "bad-op"
  | ["root", hs] => match parseHashes hs with
    | some l => match computeRoot hashPair l with
      | .ok r => "ok " ++ toHex r
      | .err => "err"
      | .panic => "panic"
    | none => "bad-op"
  | "sanity" :: _blk :: pre :: size :: special :: root :: txs =>
    match hexBytes? root, parseTxs txs with
    | some root, some txs =>
      sanityVerdict pre size special root txs
    | _, _ => "bad-op"
  | ["mine", k] =>
    -- GenerateBlock puts the merkle root of the packed transactions (coinbase + pool) into the header:
    -- the block object and its wire copy are accepted and bound
    match nat? k with
    | some k => s!"obj=ok wire=ok bound=1 ntx={k + 1}"
    | none => "bad-op"
  | "pool" :: _good :: _mut :: pre :: size :: special :: root :: txs =>
    -- BlockPool: the first (accepted) block is pooled; the block+confirm message is checked by
    -- CheckBlockSanity before it may replace the pooled block, so the pool always holds a bound block
    match hexBytes? root, parseTxs txs with
    | some root, some txs =>
      let v := sanityVerdict pre size special root txs
      s!"s1=ok s2={v.replace " " ":"} bound=1"
    | _, _ => "bad-op"
  | "orphan" :: depth :: _k :: _mut :: pre :: size :: special :: root :: txs =>
    -- the block is delivered while its parent is unknown: ProcessBlock runs CheckBlockSanity BEFORE
    -- the orphan handling, so a block that fails it never reaches the orphan pool; an accepted one
    -- waits as an orphan and is connected when its ancestors arrive.
    match nat? depth, hexBytes? root, parseTxs txs with
    | some depth, some root, some txs =>
      let verdict := sanityVerdict pre size special root txs
      if verdict == "ok" then s!"first=orphan tip={depth} bound=1"
      else s!"first={verdict.replace " " ":"} tip={depth - 1} bound=1"
    | _, _, _ => "bad-op"
  | _ => "bad-op"

def main : IO Unit := runPure stepC07
