import Driver.Loop
import ElaVerif.Model.History
open ElaVerif.History ElaVerif.History.IntMap Driver

def fmtRes : Res → String
  | .ok => "ok" | .err => "err" | .panic => "panic"

def dump20 (d : Sys) : String :=
  let ms := (List.range 4).map (fun k => toString (d.s.m k))
  let cached := match d.H.cached with
    | none => "-"
    | some hc => s!"{hc.height}:{hc.changes.length}"
  let ents := d.H.changes.map (fun hc => s!"{hc.height}:{hc.changes.length}")
  fmtRes d.last ++ " " ++ " ".intercalate ms ++ s!" | {d.H.height} {d.H.seekHeight} {cached} {d.H.temp.length} |" ++
    (if ents.isEmpty then "" else " " ++ " ".intercalate ents)

def u32? (s : String) : Option Nat := match nat? s with
  | some n => if n < 4294967296 then some n else none
  | none => none

def parse20 : List String → Option IOp
  | ["app", h, kind, k, v] => match u32? h, nat? k, int? v with
      | some h, some k, some v => match kind with
          | "seta" => some (.app h .seta k v)
          | "sete" => some (.app h .sete k v)
          | "add" => some (.app h .add k v)
          | _ => none
      | _, _, _ => none
  | ["commit", h] => (u32? h).map .commit
  | ["seek", h] => (u32? h).map .seek
  | ["rbseek", h] => (u32? h).map .rbseek
  | ["rollback", h] => (u32? h).map .rollback
  | _ => none

def step20 (d : Sys) (toks : List String) : Sys × String :=
  match toks with
  | ["reset"] => let d' := Sys.init 0; (d', dump20 d')
  | ["reset", cap] => match nat? cap with
      | some c => let d' := Sys.init c; (d', dump20 d')
      | none => (d, "bad-op")
  | _ => match parse20 toks with
      | some op => let d' := stepOp d op; (d', dump20 d')
      | none => (d, "bad-op")

def main : IO Unit := Driver.run step20 (Sys.init 0)
