import Driver.NodeSim
open ElaVerif.Node ElaVerif.Index Driver BlockSpec

/-!
  C06 driver: the node protocol (NodeSim) plus the CRCAppropriation context check
    appr <0|1> <amount>     the committee's "appropriation needed" flag and amount
    ctx <height> <tx>       BlockChain.CheckTransactionContext of a CRCAppropriation (kind `ca`) at a height from
                            CRCommitteeStartHeight (regnet 442000) on → "ok" | "err <code>"
  The CR assets address of the harness node is account 4.
-/
structure S06 where
  node : NState
  appr : Option Int

def crAssetsAddr : Nat := 4
def crStart : Nat := 442000

def step06 (s : S06) : List String → S06 × String
  | ["appr", n, a] => match nat? n, int? a with
      | some n, some a => ({ s with appr := if n = 0 then none else some a }, "ok")
      | _, _ => (s, "bad-op")
  | "ctx" :: h :: ts => match nat? h, pTx ts with
      | some h, some (tx, []) =>
        if h < crStart || !isApprop tx then (s, "bad-op")
        else
          let c := ctxApprop s.node.ledger crAssetsAddr s.appr tx
          (s, if c = 0 then "ok" else s!"err {c}")
      | _, _ => (s, "bad-op")
  | ["reset"] =>
    let (n, out) := NodeSim.step s.node ["reset"]
    ({ node := n, appr := none }, out)
  | toks =>
    let (n, out) := NodeSim.step s.node toks
    ({ s with node := n }, out)

def main : IO Unit := Driver.run step06 { node := NodeSim.blank, appr := none }
