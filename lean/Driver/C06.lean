import Driver.NodeSim

def main : IO Unit := Driver.run NodeSim.step NodeSim.blank
