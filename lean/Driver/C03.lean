import Driver.Loop
import Driver.RunProgramsOp
import ElaVerif.Model.Script
import ElaVerif.Model.AuxPowTotal
import ElaVerif.Model.RunPrograms
import ElaVerif.Model.CoinbaseTotal
/-
  Line-protocol driver for C03: the models of the *repaired* functions
  (all guards on) answer the same ops the Go harness executes on the real code.
-/
open Driver ElaVerif.Script

def fmtB : R Bool → String
  | .val true => "true" | .val false => "false" | .panic => "panic"

def fmtAR {ε : Type} (acc rej : String) : R (Except ε Unit) → String
  | .val (.ok ()) => acc | .val (.error _) => rej | .panic => "panic"

def cbErrName : ElaVerif.CoinbaseTotal.Err → String
  | .crValue => "crValue" | .minerValue => "minerValue" | .count3 => "count3" | .dposValue => "dposValue"
  | .dposAddr => "dposAddr" | .crAddr => "crAddr" | .amount => "amount" | .countMatch => "countMatch"
  | .unknownAddr => "unknownAddr" | .badAmount => "badAmount" | .oldAmount => "oldAmount"

def fmtCb : Option ElaVerif.CoinbaseTotal.Err → String
  | none => "ok" | some e => "err " ++ cbErrName e

def pairs {α β : Type} (f : String → Option α) (g : String → Option β) : Nat → List String → Option (List (α × β) × List String)
  | 0, ts => some ([], ts)
  | n + 1, a :: b :: ts => do
    let x ← f a
    let y ← g b
    let (r, ts) ← pairs f g n ts
    pure ((x, y) :: r, ts)
  | _, _ => none

def parseCb (ts : List String) : Option (ElaVerif.CoinbaseTotal.Env × List ElaVerif.CoinbaseTotal.Out) :=
  match ts with
  | reg :: pow :: fee :: dpos :: br :: frc :: rcr :: rarb :: n :: rest => do
    let regime ← (match reg with
      | "v2" => some ElaVerif.CoinbaseTotal.Regime.v2 | "pub" => some .pub | "old" => some .old | _ => none)
    let fee ← int? fee; let dpos ← int? dpos; let br ← int? br; let frc ← int? frc
    let rcr ← int? rcr; let rarb ← int? rarb; let n ← nat? n
    let (outs, rest) ← pairs int? nat? n rest
    match rest with
    | k :: rest => do
      let k ← nat? k
      let (rw, _) ← pairs nat? int? k rest
      pure (⟨regime, pow == "1", fee, dpos, br, frc, rcr, rarb, rw⟩, outs.map (fun o => ⟨o.1, o.2⟩))
    | [] => none
  | _ => none

def natList : Nat → List String → Option (List Nat)
  | 0, _ => some []
  | n + 1, a :: ts => do let x ← nat? a; let r ← natList n ts; pure (x :: r)
  | _, _ => none

def stepC03 : List String → String
  | ["std", c] => match hexBytes? c with | some b => fmtB (isStandard b) | none => "bad-op"
  | ["sch", c] => match hexBytes? c with | some b => fmtB (isSchnorr b) | none => "bad-op"
  | ["ms", c] => match hexBytes? c with | some b => fmtB (isMultiSig true b) | none => "bad-op"
  | ["ct", c] => match hexBytes? c with
      | some b => (match getCodeType true b with | .val n => toString n | .panic => "panic")
      | none => "bad-op"
  | ["gei", nonce, chain, h] => match nat? nonce, int? chain, int? h with
      | some n, some c, some h => (match ElaVerif.AuxPowTotal.getExpectedIndex true n c h with
          | .val v => toString v | .panic => "panic")
      | _, _, _ => "bad-op"
  | ["apcheck", rootOk, nTxIn, script, rootRev, h, index, chain, _hash] =>
      match nat? nTxIn, hexBytes? script, hexBytes? rootRev, nat? h, int? index, int? chain with
      | some n, some s, some r, some h, some i, some c =>
          fmtB (ElaVerif.AuxPowTotal.check .all ⟨rootOk == "1", n, s, r, h, i, c⟩)
      | _, _, _, _, _, _ => "bad-op"
  | "run" :: ts => Driver.RunOp.evalRun .all ts
  | ["schn", c, p] => match hexBytes? c, hexBytes? p with
      | some c, some p => fmtAR "accept" "reject"
          (ElaVerif.RunPrograms.checkSchnorr .all (D := Unit) ⟨fun _ => false, fun _ _ _ => false, fun _ _ _ => false, fun _ => []⟩ ⟨c, p⟩ ())
      | _, _ => "bad-op"
  | ["cc", c, p] => match hexBytes? c, hexBytes? p with
      | some c, some p => fmtAR "accept" "reject"
          (ElaVerif.RunPrograms.checkCrossChain .all (D := Unit) ⟨fun _ => false, fun _ _ _ => false, fun _ _ _ => false, fun _ => []⟩ ⟨c, p⟩ ())
      | _, _ => "bad-op"
  | ["cms", c, p] => match hexBytes? c, hexBytes? p with
      | some c, some p => fmtAR "accept" "reject"
          (ElaVerif.RunPrograms.checkMultiSig .all (D := Unit) ⟨fun _ => false, fun _ _ _ => false, fun _ _ _ => false, fun _ => []⟩ ⟨c, p⟩ ())
      | _, _ => "bad-op"
  | "cb" :: ts => match parseCb ts with
      | some (e, outs) => (match ElaVerif.CoinbaseTotal.checkCtx e outs with
          | .val r => fmtCb r | .panic => "panic")
      | none => "bad-op"
  | "cbs" :: ts => match parseCb ts with
      | some (e, outs) => (match ElaVerif.CoinbaseTotal.sanityThenCtx e outs with
          | .val none => "sanity-reject" | .val (some r) => fmtCb r | .panic => "panic")
      | none => "bad-op"
  | "sw" :: validate :: nArb :: k :: ts => match nat? nArb, nat? k with
      | some nArb, some k => (match natList k ts with
          | some signers => (match ElaVerif.CoinbaseTotal.signerLoop true (validate == "1") nArb signers [] with
              | .val none => "loop-ok" | .val (some .badIndex) => "err badIndex" | .val (some .dup) => "err dup"
              | .panic => "panic")
          | none => "bad-op")
      | _, _ => "bad-op"
  | ["blk", aux, pow, ts, maxTx, flags] => match nat? maxTx with
      | some mx =>
        let txs := if flags = "-" then [] else flags.toList.map (· == '1')
        (match ElaVerif.CoinbaseTotal.blockSanityHead false ⟨aux == "1", pow == "1", ts == "1", mx, true, true, txs⟩ with
          | .val none => "later"
          | .val (some e) => "err " ++ (match e with
              | .auxpow => "auxpow" | .pow => "pow" | .time => "time" | .noTx => "notx" | .tooMany => "toomany"
              | .headerSize => "headersize" | .blockSize => "blocksize" | .firstNotCoinbase => "nocoinbase"
              | .secondCoinbase => "second-coinbase")
          | .panic => "panic")
      | none => "bad-op"
  | "rdc" :: addrCount :: np :: rest => match nat? addrCount, nat? np with
      | some ac, some np => (match pairs hexBytes? (fun s => some (s == "1")) np rest with
          | some (progs, _) => (match ElaVerif.CoinbaseTotal.returnDepositCheck false ac progs true with
              | .val none => "ok" | .val (some .sameAddr) => "err sameaddr" | .val (some .signer) => "err signer"
              | .val (some .overspend) => "err overspend" | .panic => "panic")
          | none => "bad-op")
      | _, _ => "bad-op"
  | "txs" :: _ => "nopanic"
  | "blkc" :: _ => "nopanic"
  | "cfm" :: _ => "nopanic"
  | "dpb" :: _ => "nopanic"
  | ["nta", cr, dp, next] =>
      let ids (x : String) : Option (List Nat) := if x == "-" then some [] else (x.splitOn ",").mapM nat?
      let arbs (x : String) : Option (List ElaVerif.CoinbaseTotal.NextArb) :=
        if x == "-" then some [] else (x.splitOn ";").mapM (fun e => match e.splitOn ":" with
          | [a, b, c] => (nat? a).map (fun i => ⟨i, b == "1", c == "1"⟩)
          | _ => none)
      (match ids cr, ids dp, arbs next with
        | some c, some d, some n => fmtB (ElaVerif.CoinbaseTotal.nextSame true c d n)
        | _, _, _ => "bad-op")
  | ["ntv", cr, dp, next, crc] =>
      let ids (x : String) : Option (List Nat) := if x == "-" then some [] else (x.splitOn ",").mapM nat?
      let prs (x : String) : Option (List (Nat × Bool)) :=
        if x == "-" then some [] else (x.splitOn ";").mapM (fun e => match e.splitOn ":" with
          | [a, b] => (nat? a).map (fun i => (i, b == "1"))
          | _ => none)
      (match ids cr, ids dp, prs next, prs crc with
        | some c, some d, some n, some k => fmtB (ElaVerif.CoinbaseTotal.nextSameV1 true c d n k)
        | _, _, _, _ => "bad-op")
  | ["pgen", _] => "rejected"
  | ["tcc", nOut, idx] => match nat? nOut, nat? idx with
      | some n, some i => (match ElaVerif.CoinbaseTotal.crossChainIndex true n i with
          | .val true => "err index" | .val false => "later" | .panic => "panic")
      | _, _ => "bad-op"
  | ["rtd", variant, np, c] => match nat? np, hexBytes? c with
      | some n, some b =>
        if variant == "tx" ∧ n = 0 then "reject-len" else
        (match (if variant == "tx" then ElaVerif.CoinbaseTotal.crcArbitersMN true b else ElaVerif.CoinbaseTotal.revertToDPOSCheck true n b) with
          | .val true => "later" | .val false => "reject-len" | .panic => "panic")
      | _, _ => "bad-op"
  | ["rcr", c] => match hexBytes? c with
      | some b => (match ElaVerif.CoinbaseTotal.registerCRKey true b with
          | .val none => "later" | .val (some .codeNil) => "err codenil" | .val (some .invalidCode) => "err invalidcode"
          | .panic => "panic")
      | none => "bad-op"
  | ["ina", _variant, c] => match hexBytes? c with
      | some b => (match ElaVerif.CoinbaseTotal.crcArbitersMN true b with
          | .val true => "later" | .val false => "reject-len" | .panic => "panic")
      | none => "bad-op"
  | _ => "bad-op"

def main : IO Unit := runPure stepC03
