import Driver.Loop
import ElaVerif.Model.Treap
open ElaVerif.Treap Driver

structure St where
  m : Treap := {}
  vers : Array Treap := #[{}]
  iters : Array Iter := #[]

def optBytes? (s : String) : Option (Option Bytes) :=
  if s = "nil" then some none else (hexBytes? s).map some

def fmtOpt : Option Bytes → String
  | none => "nil"
  | some b => toHex b

def fmtShape (t : Tree) : String :=
  let rec go : Tree → List String → List String
    | .nil, acc => "." :: acc
    | .node l k v p r, acc => (toHex k ++ ":" ++ toHex v ++ ":" ++ toString p) :: go l (go r acc)
  ",".intercalate (go t [])

/-- parse a preorder dump; returns the tree and the remaining tokens. -/
def parseShape : Nat → List String → Option (Tree × List String)
  | 0, _ => none
  | _ + 1, [] => none
  | fuel + 1, tok :: rest =>
    if tok = "." then some (.nil, rest) else
    match tok.splitOn ":" with
    | [k, v, p] =>
      match hexBytes? k, hexBytes? v, p.toInt? with
      | some k, some v, some p =>
        match parseShape fuel rest with
        | some (l, rest) =>
          match parseShape fuel rest with
          | some (r, rest) => some (.node l k v p r, rest)
          | none => none
        | none => none
      | _, _, _ => none
    | _ => none

def sumSizes (t : Tree) : Nat := (toList t).foldl (fun a e => a + nodeSize e.1 e.2) 0

def buildTreap (s : String) : Option Treap :=
  let toks := s.splitOn ","
  match parseShape (toks.length + 1) toks with
  | some (t, _) => some { root := t, count := size t, total := sumSizes t }
  | none => none

def fmtList (t : Tree) (n : Nat) : String :=
  let l := (toList t).take (max n 1)
  if l.isEmpty then "empty" else ",".intercalate (l.map fun e => toHex e.1 ++ "=" ++ toHex e.2)

def fmtPos (r : Iter × Bool) : String :=
  toString r.2 ++ " " ++ fmtOpt r.1.key ++ " " ++ fmtOpt r.1.value

def reseekAll (s : St) : St :=
  { s with iters := s.iters.map fun it => it.forceReseek s.m.root }

def step (s : St) : List String → St × String
  | ["reset"] => ({}, "ok")
  | ["mput", k, v, _seed, p] =>
    match hexBytes? k, optBytes? v, p.toInt? with
    | some k, some v, some p => ({ s with m := s.m.put k (v.getD []) p }, "ok")
    | _, _, _ => (s, "bad-op")
  | ["mdel", k] =>
    match hexBytes? k with
    | some k => ({ s with m := s.m.delete k }, "ok")
    | none => (s, "bad-op")
  | ["mget", k] => match hexBytes? k with
    | some k => (s, fmtOpt (get s.m.root k))
    | none => (s, "bad-op")
  | ["mhas", k] => match hexBytes? k with
    | some k => (s, toString (get s.m.root k).isSome)
    | none => (s, "bad-op")
  | ["mlen"] => (s, toString s.m.count)
  | ["msize"] => (s, toString s.m.total)
  | ["mshape"] => (s, fmtShape s.m.root)
  | ["mlist", n] => (s, fmtList s.m.root (n.toNat?.getD 0))
  | ["mclear"] => ({ s with m := {} }, "ok")
  | ["mbuild", d] => match buildTreap d with
    | some t => ({ s with m := t, iters := #[] }, "ok")
    | none => (s, "bad-op")
  | ["ibuild", d] => match buildTreap d with
    | some t => ({ s with vers := s.vers.push t }, toString s.vers.size)
    | none => (s, "bad-op")
  | ["iput", src, k, v, _seed, p] =>
    match src.toNat?, hexBytes? k, optBytes? v, p.toInt? with
    | some src, some k, some v, some p =>
      match s.vers[src]? with
      | some t => ({ s with vers := s.vers.push (t.put k (v.getD []) p) }, toString s.vers.size)
      | none => (s, "bad-op")
    | _, _, _, _ => (s, "bad-op")
  | ["idel", src, k] =>
    match src.toNat?, hexBytes? k with
    | some src, some k =>
      match s.vers[src]? with
      | some t => ({ s with vers := s.vers.push (t.delete k) }, toString s.vers.size)
      | none => (s, "bad-op")
    | _, _ => (s, "bad-op")
  | ["iget", ver, k] =>
    match ver.toNat?.bind (s.vers[·]?), hexBytes? k with
    | some t, some k => (s, fmtOpt (get t.root k))
    | _, _ => (s, "bad-op")
  | ["ihas", ver, k] =>
    match ver.toNat?.bind (s.vers[·]?), hexBytes? k with
    | some t, some k => (s, toString (get t.root k).isSome)
    | _, _ => (s, "bad-op")
  | ["ilen", ver] => match ver.toNat?.bind (s.vers[·]?) with
    | some t => (s, toString t.count)
    | none => (s, "bad-op")
  | ["isize", ver] => match ver.toNat?.bind (s.vers[·]?) with
    | some t => (s, toString t.total)
    | none => (s, "bad-op")
  | ["ishape", ver] => match ver.toNat?.bind (s.vers[·]?) with
    | some t => (s, fmtShape t.root)
    | none => (s, "bad-op")
  | ["ilist", ver, n] => match ver.toNat?.bind (s.vers[·]?) with
    | some t => (s, fmtList t.root (n.toNat?.getD 0))
    | none => (s, "bad-op")
  | ["it", "new", src, st, lim] =>
    match optBytes? st, optBytes? lim with
    | some st, some lim =>
      if src = "m" then
        ({ s with iters := s.iters.push { isMut := true, root := s.m.root, start := st, limit := lim } },
          toString s.iters.size)
      else match src.toNat?.bind (s.vers[·]?) with
        | some t => ({ s with iters := s.iters.push { isMut := false, root := t.root, start := st, limit := lim } },
            toString s.iters.size)
        | none => (s, "bad-op")
    | _, _ => (s, "bad-op")
  | ["it", "reseekall"] => (reseekAll s, "ok")
  | "it" :: id :: rest =>
    match id.toNat?.bind (fun i => (s.iters[i]?).map (fun it => (i, it))) with
    | none => (s, "bad-op")
    | some (i, it) =>
      let upd (r : Iter × Bool) : St × String := ({ s with iters := s.iters.set! i r.1 }, fmtPos r)
      match rest with
      | ["first"] => upd it.first
      | ["last"] => upd it.last
      | ["next"] => upd it.next
      | ["prev"] => upd it.prev
      | ["seek", k] => match hexBytes? k with
        | some k => upd (it.seekGE k)
        | none => (s, "bad-op")
      | ["key"] => (s, fmtOpt it.key)
      | ["value"] => (s, fmtOpt it.value)
      | ["valid"] => (s, toString it.valid)
      | ["reseek"] => ({ s with iters := s.iters.set! i (it.forceReseek s.m.root) }, "ok")
      | _ => (s, "bad-op")
  | _ => (s, "bad-op")

def main : IO Unit := Driver.run step {}
