import Driver.Loop
import Driver.BlockSpec
import ElaVerif.Model.Index
open ElaVerif.Index Driver

/-!
  Line protocol of C13 (see harness/cmd/c13/main.go):
    reset
    save     <block>      → ok | err | panic
    rollback <block>      → ok | err | panic
    obs <q>*              → one answer per query, space separated
    codec <idx>*          → the list after toByteArray / getUint16Array
    decode <byte>*        → getUint16Array of raw stored bytes (err on odd length)
  <block> = id prev height ntx { txid kind pver nonce nin {t:i} nout {addr:value:W<h>|R<h>|-} nph {h} npd {hex} }
  ids and hashes are hex, heights / counts / values decimal.
-/
namespace C13Drv
open BlockSpec

def fmtList (l : List String) : String := if l.isEmpty then "-" else ",".intercalate l

def obs1 (s : State) (q : String) : String :=
  let k := head1 q
  match hexNat? (tail1 q) with
  | none => "bad"
  | some x =>
    if k = 'u' then fmtList ((getUnspent s x).map toString)
    else if k = 'a' then fmtList ((getUTXO s x).map fun u => s!"{natToHex u.1}:{u.2.1}:{u.2.2}")
    else if k = 't' then match s.txs.get x with
      | some (h, outs) => s!"{h}/{outs.length}"
      | none => "none"
    else if k = 'x' then toString (s.tx3.get x).isSome
    else if k = 'r' then toString (s.retdep.get x).isSome
    else if k = 'd' then match s.drafts.get x with
      | some d => d
      | none => "none"
    else "bad"

structure St where
  s : State
  genesis : State

def apply (st : St) (r : Res State) : St × String :=
  match r with
  | .ok s => ({ st with s := s }, "ok")
  | .err => (st, "err")
  | .panic => (st, "panic")

def step (st : St) : List String → St × String
  | ["reset"] => ({ st with s := st.genesis }, "ok")
  -- configuration / storage-layer ops that must not change what the indexes answer: memory-first node,
  -- ffldb write-back cache policy (write-through vs cached commits) and an explicit cache flush
  | ["mode", _] => ({ st with s := st.genesis }, "ok")
  | ["fpol", _] => (st, "ok")
  | ["flush"] => (st, "ok")
  | "init" :: ts => match pBlock ts with
      | some b => match genesisState b with
          | .ok s => ({ s := s, genesis := s }, "ok")
          | _ => (st, "bad-genesis")
      | none => (st, "bad-op")
  | "save" :: ts => match pBlock ts with
      | some b => apply st (connect st.s b)
      | none => (st, "bad-op")
  | "savex" :: ts => match pBlock ts with
      | some b => apply st (connect st.s b)
      | none => (st, "bad-op")
  | "rollback" :: ts => match pBlock ts with
      | some b => apply st (disconnect st.s b)
      | none => (st, "bad-op")
  | "obs" :: qs => (st, " ".intercalate (qs.map (obs1 st.s)))
  | "codec" :: xs => match xs.mapM nat? with
      | some l => match u16dec (u16enc l) with
          | some r => (st, fmtList (r.map toString))
          | none => (st, "err")
      | none => (st, "bad-op")
  | "decode" :: xs => match xs.mapM nat? with
      | some l => match u16dec l with
          | some r => (st, fmtList (r.map toString))
          | none => (st, "err")
      | none => (st, "bad-op")
  | _ => (st, "bad-op")

end C13Drv

def main : IO Unit :=
  Driver.run C13Drv.step { s := { tip := 0, height := 0 }, genesis := { tip := 0, height := 0 } }
