import Driver.Loop
import ElaVerif.Model.Index
open ElaVerif.Index Driver

/-!
  Line protocol of C13 (see harness/cmd/c13/main.go):
    reset
    save     <block>      → ok | err | panic
    rollback <block>      → ok | err | panic
    obs <q>*              → one answer per query, space separated
  <block> = id prev height ntx { txid kind pver nonce nin {t:i} nout {addr:value:W<h>|R<h>|-} nph {h} npd {hex} }
  ids and hashes are hex, heights / counts / values decimal.
-/
namespace C13Drv

def splitC (s : String) : List String := s.splitOn ":"
def tail1 (s : String) : String := String.ofList (s.toList.drop 1)
def head1 (s : String) : Char := s.toList.headD ' '

def kindOf : String → Option Kind
  | "cb" => some .coinbase | "ra" => some .registerAsset | "wd" => some .withdraw
  | "rd" => some .returnDeposit | "pp" => some .proposal | "rv" => some .review
  | "tk" => some .tracking | "ot" => some .other | _ => none

def takeN {α} (f : List String → Option (α × List String)) : Nat → List String → Option (List α × List String)
  | 0, ts => some ([], ts)
  | n + 1, ts => do
    let (a, ts) ← f ts
    let (r, ts) ← takeN f n ts
    pure (a :: r, ts)

def pIn : List String → Option ((Nat × Nat) × List String)
  | t :: ts => match splitC t with
    | [a, b] => do pure ((← hexNat? a, ← nat? b), ts)
    | _ => none
  | [] => none

def pOut : List String → Option (Out × List String)
  | t :: ts => match splitC t with
    | [a, v, p] => do
      let a ← nat? a
      let v ← int? v
      if p = "-" then pure ({ addr := a, value := v }, ts)
      else if head1 p = 'W' then pure ({ addr := a, value := v, wd := some (← hexNat? (tail1 p)) }, ts)
      else if head1 p = 'R' then pure ({ addr := a, value := v, rd := some (← hexNat? (tail1 p)) }, ts)
      else none
    | _ => none
  | [] => none

def pHex : List String → Option (Nat × List String)
  | t :: ts => do pure (← hexNat? t, ts)
  | [] => none

def pStr : List String → Option (String × List String)
  | t :: ts => some (t, ts)
  | [] => none

def pCount : List String → Option (Nat × List String)
  | t :: ts => do pure (← nat? t, ts)
  | [] => none

def pTx : List String → Option (Tx × List String)
  | id :: k :: pv :: _nonce :: ts => do
    let id ← hexNat? id
    let k ← kindOf k
    let pv ← nat? pv
    let (n, ts) ← pCount ts
    let (ins, ts) ← takeN pIn n ts
    let (n, ts) ← pCount ts
    let (outs, ts) ← takeN pOut n ts
    let (n, ts) ← pCount ts
    let (phs, ts) ← takeN pHex n ts
    let (n, ts) ← pCount ts
    let (pds, ts) ← takeN pStr n ts
    pure ({ id := id, kind := k, pver := pv, ins := ins, outs := outs, phashes := phs, pdatas := pds }, ts)
  | _ => none

def pBlock : List String → Option Block
  | id :: prev :: h :: n :: ts => do
    let (txs, rest) ← takeN pTx (← nat? n) ts
    if rest ≠ [] then none
    pure { id := ← hexNat? id, prev := ← hexNat? prev, height := ← nat? h, txs := txs }
  | _ => none

def fmtList (l : List String) : String := if l.isEmpty then "-" else ",".intercalate l

def obs1 (s : State) (q : String) : String :=
  let k := head1 q
  match hexNat? (tail1 q) with
  | none => "bad"
  | some x =>
    if k = 'u' then fmtList ((getUnspent s x).map toString)
    else if k = 'a' then fmtList ((getUTXO s x).map fun u => s!"{natToHex u.1}:{u.2.1}:{u.2.2}")
    else if k = 't' then match s.txs.get x with
      | some (h, outs) => s!"{h}/{outs.length}"
      | none => "none"
    else if k = 'x' then toString (s.tx3.get x).isSome
    else if k = 'r' then toString (s.retdep.get x).isSome
    else if k = 'd' then match s.drafts.get x with
      | some d => d
      | none => "none"
    else "bad"

structure St where
  s : State
  genesis : State

def apply (st : St) (r : Res State) : St × String :=
  match r with
  | .ok s => ({ st with s := s }, "ok")
  | .err => (st, "err")
  | .panic => (st, "panic")

def step (st : St) : List String → St × String
  | ["reset"] => ({ st with s := st.genesis }, "ok")
  | "init" :: ts => match pBlock ts with
      | some b => match genesisState b with
          | .ok s => ({ s := s, genesis := s }, "ok")
          | _ => (st, "bad-genesis")
      | none => (st, "bad-op")
  | "save" :: ts => match pBlock ts with
      | some b => apply st (connect st.s b)
      | none => (st, "bad-op")
  | "savex" :: ts => match pBlock ts with
      | some b => apply st (connect st.s b)
      | none => (st, "bad-op")
  | "rollback" :: ts => match pBlock ts with
      | some b => apply st (disconnect st.s b)
      | none => (st, "bad-op")
  | "obs" :: qs => (st, " ".intercalate (qs.map (obs1 st.s)))
  | _ => (st, "bad-op")

end C13Drv

def main : IO Unit :=
  Driver.run C13Drv.step { s := { tip := 0, height := 0 }, genesis := { tip := 0, height := 0 } }
