import Driver.Loop
import ElaVerif.Model.Pool
open ElaVerif.Pool Driver

/-- the implementation's rate comparison: float64(fee)/float64(size) with `<` -/
def rateF (r : Rate) : Float := Float.ofInt r.1 / Float.ofNat r.2
def ltF (a b : Rate) : Bool := rateF a < rateF b

structure St where
  univ : List Tx := []
  pool : Pool := Pool.empty 20000000
  fl : FeeList := ⟨[], 0, 0⟩

def csv (s : String) : List String := if s = "-" then [] else s.splitOn ","

def parseField (s : String) : Option (String × List String) :=
  match s.splitOn "=" with
  | [k, v] => some (k, csv v)
  | _ => none

def parseTx : List String → Option Tx
  | id :: ty :: pver :: size :: fee :: nout :: budgets :: fields => do
    let id ← nat? id
    let ty ← nat? ty
    let pver ← nat? pver
    let size ← nat? size
    let fee ← int? fee
    let nout ← nat? nout
    let budgets ← (csv budgets).mapM int?
    let fields ← fields.mapM parseField
    some ⟨id, ty, pver, size, fee, nout, budgets, fields⟩
  | _ => none

def ids? (s : String) : Option (List Nat) := (csv s).mapM nat?

def lookupTxs (u : List Tx) (ids : List Nat) : Option (List Tx) :=
  ids.mapM fun i => u.find? (·.id == i)

def slotName (i : Nat) : String := (table[i]?.map (·.name)).getD ("slot" ++ toString i)
def slotPrefix (i : Nat) : String :=
  match table[i]?.map (·.kt) with
  | some "str" => "s:" | some "strArray" => "s:"
  | some "hash" => "h:" | some "hashArray" => "h:"
  | some "programHash" => "p:" | some "programHashArray" => "p:"
  | _ => "?:"

def joinC (xs : List String) : String := if xs.isEmpty then "-" else ",".intercalate xs

def fmtFees (l : List FeeItem) : String :=
  joinC (l.map fun it => s!"{it.id}:{(rateF it.rate).toBits}:{it.size}")

def leSlot (a b : SKey × Nat) : Bool :=
  a.1.1 < b.1.1 || (a.1.1 == b.1.1 && !(b.1.2 < a.1.2))

def fmtSnap (p : Pool) : String :=
  let txs := (p.txs.map (·.id)).mergeSort (fun a b => a ≤ b)
  let slots := p.slots.mergeSort leSlot
  s!"txs={joinC (txs.map toString)} fees={fmtFees p.fl.list} total={p.fl.total} max={p.fl.max} used={p.used} slots={joinC (slots.map fun e => s!"{slotName e.1.1}|{slotPrefix e.1.1}{e.1.2}|{e.2}")}"

def fmtUsed : Option Int → String
  | some u => s!" used={u}"
  | none => ""

def fmtAdd : AddRes → String
  | .ok => "ok" | .illegalSize => "illegal-size" | .excluded => "excluded" | .panic => "panic"

def fmtAppend (r : AppendRes) (seen : Option Int) : String :=
  match r with
  | .ok => "ok" ++ fmtUsed seen
  | .recordSponsor => "err record-sponsor"
  | .duplicate => "err duplicate"
  | .coinbase => "err coinbase"
  | .sanity => "err sanity"
  | .context => "err context" ++ fmtUsed seen
  | .conflict (.dup s) => s!"err conflict {slotName s}"
  | .conflict (.keyerr s) => s!"err keyerr {slotName s}"
  | .overCapacity => "err over-capacity"
  | .appendKeyErr s => s!"err append-key {slotName s}"
  | .feeErr r => s!"err fee {fmtAdd r}"

def bool? (s : String) : Option Bool := if s = "1" then some true else if s = "0" then some false else none

def step (s : St) : List String → St × String
  | ["reset", max] => match nat? max with
      | some m => ({ univ := [], pool := Pool.empty m, fl := ⟨[], 0, 0⟩ }, "ok")
      | none => (s, "bad-op")
  | ["reset"] => ({}, "ok")
  | "rcflow" :: _ => (s, "ok")   -- real-chain stream: verdicts come from the real node, judged by the oracle only
  | "tx" :: rest => match parseTx rest with
      | some t => ({ s with univ := t :: s.univ.filter (·.id != t.id) }, "ok")
      | none => (s, "bad-op")
  | ["append", id, sa, cx] => match nat? id >>= fun i => s.univ.find? (·.id == i), bool? sa, bool? cx with
      | some t, some sa, some cx =>
        let (r, p, seen) := append ltF s.pool t sa cx
        ({ s with pool := p }, fmtAppend r seen)
      | _, _, _ => (s, "bad-op")
  | ["clean", ids] => match ids? ids >>= lookupTxs s.univ with
      | some b => ({ s with pool := cleanSubmitted ltF s.pool b }, "ok")
      | none => (s, "bad-op")
  | ["recheck", ids] => match ids? ids with
      | some rej => ({ s with pool := checkAndClean ltF s.pool rej }, "ok")
      | none => (s, "bad-op")
  | ["remove", id] => match nat? id >>= fun i => s.univ.find? (·.id == i) with
      | some t => ({ s with pool := removeSpenders ltF s.pool t }, "ok")
      | none => (s, "bad-op")
  | ["snap"] => (s, fmtSnap s.pool)
  | ["flnew", max] => match nat? max with
      | some m => ({ s with fl := ⟨[], 0, m⟩ }, "ok")
      | none => (s, "bad-op")
  | ["fladd", id, size, fee] => match nat? id, nat? size, int? fee with
      | some id, some size, some fee =>
        let (r, fl, popped) := feeAdd ltF s.fl id (fee, size) size
        ({ s with fl := fl }, if r == .panic then "panic" else s!"{fmtAdd r} popped={joinC (popped.map toString)}")
      | _, _, _ => (s, "bad-op")
  | ["flrm", id, size, fee] => match nat? id, nat? size, int? fee with
      | some id, some size, some fee =>
        let (r, fl) := feeRemove ltF s.fl id size (fee, size)
        ({ s with fl := fl }, if r then "true" else "false")
      | _, _, _ => (s, "bad-op")
  | ["flsnap"] => (s, s!"fees={fmtFees s.fl.list} total={s.fl.total}")
  | _ => (s, "bad-op")

def main : IO Unit := Driver.run step ({} : St)
