import Driver.Loop
import ElaVerif.Model.SharedRng
open ElaVerif.SharedRng Driver

/-- env ops: comma separated `d<n>` (draw below n) / `s<seed>` (re-seed), "-" = none -/
def envOps? (s0 : String) : Option (List EnvOp) :=
  -- a leading `H` (goroutines hammering the global generator during the call) is more environment
  -- of the same kind: it does not change what the model answers
  let s := if s0.startsWith "H" then String.ofList (s0.toList.drop 1) else s0
  if s = "-" then some [] else
  (s.splitOn ",").mapM (fun t =>
    match t.toList with
    | 'd' :: r => (nat? (String.ofList r)).map EnvOp.draw
    | 's' :: r => (int? (String.ofList r)).map EnvOp.reseed
    | _ => none)

/-- The generator of the driver: a state is (seed, number of draws so far); the first draw of a
    freshly seeded state is the value Go computed on a fresh private source (`iso`, from the op
    line), later draws are irrelevant placeholders. -/
def oracleGen (s0 : Int) (iso : Nat) : Gen (Int × Nat) :=
  { seed := fun s => (s, 0),
    intn := fun g n => (if g.1 = s0 ∧ g.2 = 0 then iso else (g.1.toNat + g.2 + 7) % (n + 1), (g.1, g.2 + 1)) }

def stepC24 : List String → String
  | "cand" :: seed :: normal :: cands :: unclaimed :: voted :: iso :: env :: _ =>
      match (if seed = "none" then some none else (int? seed).map some), int? normal, int? cands, int? unclaimed, int? voted, nat? iso, envOps? env with
      | some seed?, some normal, some cands, some unclaimed, some voted, some iso, some env =>
          match candidateIndex (oracleGen (seed?.getD 0) iso) .local seed? voted unclaimed normal cands env (0, 0) with
          | .ok i => s!"ok {i}"
          | .error .noBlock => "err noblock"
          | .error .notEnough => "err notenough"
      | _, _, _, _, _, _, _ => "bad-op"
  | "sort" :: ps =>
      -- producers as votes:keyhex ; output: the keys in sorted order
      match ps.mapM (fun t => match t.splitOn ":" with
          | [v, k] => match int? v, hexBytes? k with
            | some v, some k => some (Producer.mk v (k.map (fun (b : UInt8) => b.toNat)))
            | _, _ => none
          | _ => none) with
      | some l =>
          let sorted := (l.toArray.qsort (fun a b => before a b)).toList
          " ".intercalate (sorted.map (fun (p : Producer) => toHex (p.key.map UInt8.ofNat)))
      | none => "bad-op"
  | _ => "bad-op"

def main : IO Unit := runPure stepC24
