import Driver.Loop
import ElaVerif.Model.SharedRng
open ElaVerif.SharedRng Driver

/-- env ops: comma separated `d<n>` (draw below n) / `s<seed>` (re-seed), "-" = none -/
def envOps? (s0 : String) : Option (List EnvOp) :=
  -- a leading `H` (goroutines hammering the global generator during the call) is more environment
  -- of the same kind: it does not change what the model answers
  let s := if s0.startsWith "H" then String.ofList (s0.toList.drop 1) else s0
  if s = "-" then some [] else
  (s.splitOn ",").mapM (fun t =>
    match t.toList with
    | 'd' :: r => (nat? (String.ofList r)).map EnvOp.draw
    | 's' :: r => (int? (String.ofList r)).map EnvOp.reseed
    | _ => none)

/-- The generator of the driver: a state is (seed, number of draws so far); the first draw of a
    freshly seeded state is the value Go computed on a fresh private source (`iso`, from the op
    line), later draws are irrelevant placeholders. -/
def oracleGen (s0 : Int) (iso : Nat) : Gen (Int × Nat) :=
  { seed := fun s => (s, 0),
    intn := fun g n => (if g.1 = s0 ∧ g.2 = 0 then iso else (g.1.toNat + g.2 + 7) % (n + 1), (g.1, g.2 + 1)) }

def hexOf (k : List Nat) : String := toHex (k.map UInt8.ofNat)

def bytesOf? (s : String) : Option (List Nat) := (hexBytes? s).map (·.map (fun (b : UInt8) => b.toNat))

/-- `votes:nodekey`, `rights:nodekey:ownerkey` or `rights:nodekey:ownerkey:records` (the rights of the
    records — Σ floor(votes·weight), computed and re-checked by the Go side — are the first field) -/
def prod? (t : String) : Option (Producer × List Nat) :=
  match t.splitOn ":" with
  | [v, k] => match int? v, bytesOf? k with
    | some v, some k => some (⟨v, k⟩, k)
    | _, _ => none
  | [v, k, o] => match int? v, bytesOf? k, bytesOf? o with
    | some v, some k, some o => some (⟨v, k⟩, o)
    | _, _, _ => none
  | [v, k, o, _stakes] => match int? v, bytesOf? k, bytesOf? o with
    | some v, some k, some o => some (⟨v, k⟩, o)
    | _, _, _ => none
  | _ => none

def sortProducers (l : List (Producer × List Nat)) : List (Producer × List Nat) :=
  (l.toArray.qsort (fun a b => before a.1 b.1)).toList

def natList? (s : String) : Option (List Nat) :=
  if s = "-" then some [] else (s.splitOn ",").mapM nat?

/-- generator whose draws after seeding with `s0` are the values Go drew from a fresh private
    source (from the op line) -/
def drawsGen (s0 : Int) (draws : List Nat) : Gen (Int × Nat) :=
  { seed := fun s => (s, 0),
    intn := fun g n => (if g.1 = s0 then draws.getD g.2 0 else (g.1.toNat + g.2 + 7) % (n + 1), (g.1, g.2 + 1)) }

def stepC24 : List String → String
  | "cand" :: seed :: normal :: cands :: unclaimed :: voted :: iso :: env :: _ =>
      match (if seed = "none" then some none else (int? seed).map some), int? normal, int? cands, int? unclaimed, int? voted, nat? iso, envOps? env with
      | some seed?, some normal, some cands, some unclaimed, some voted, some iso, some env =>
          match candidateIndex (oracleGen (seed?.getD 0) iso) .local seed? voted unclaimed normal cands env (0, 0) with
          | .ok i => s!"ok {i}"
          | .error .noBlock => "err noblock"
          | .error .notEnough => "err notenough"
      | _, _, _, _, _, _, _ => "bad-op"
  | "sort" :: _kind :: _reps :: ps =>
      -- producers as votes:nodekeyhex ; output: the node keys in sorted order
      match ps.mapM prod? with
      | some l => " ".intercalate ((sortProducers l).map (fun (p : Producer × List Nat) => hexOf p.1.key))
      | none => "bad-op"
  | ["crchange", a, b, o] =>
      match nat? a, nat? b, nat? o with
      | some a, some b, some o =>
          match ownerOf (syncRun ⟨[], [(a, o)]⟩ b o) b with
          | some x => "ownerB=02" ++ hexOf [x] ++ " inactive=true"
          | none => "ownerB=none inactive=false"
      | _, _, _ => "bad-op"
  | ["crmembers", _reps, dids] =>
      match (dids.splitOn ",").mapM bytesOf? with
      | some l => ",".intercalate ((l.toArray.qsort (fun a b => didLt a b)).toList.map hexOf)
      | none => "bad-op"
  | "snap" :: _ => "isolated"   -- a snapshot is a value: later changes of the live state cannot reach it
  | ["ckorder", _reps, pairs] =>
      match (pairs.splitOn ",").mapM (fun t => match t.splitOn ":" with
          | [k, p] => (nat? p).map (fun p => (k, p))
          | _ => none) with
      | some l => match checkpointOrder l with
          | some ks => ",".intercalate ks
          | none => "ambiguous"
      | none => "bad-op"
  | "wrand" :: seed :: normal :: cands :: period :: height :: unclaimed :: lastH :: lastO :: iso :: env :: _blk :: _tip :: ps =>
      match (if seed = "none" then some none else (int? seed).map some), int? normal, int? cands, nat? period, nat? height,
            int? unclaimed, nat? lastH, (if lastO = "-" then some [] else bytesOf? lastO), nat? iso, envOps? env, ps.mapM prod? with
      | some seed?, some normal, some cands, some period, some height, some unclaimed, some lastH, some lastO, some iso, some env, some l =>
          let owners := (sortProducers l).map (fun (p : Producer × List Nat) => p.2)
          match withRandom (oracleGen (seed?.getD 0) iso) .local seed? owners unclaimed normal cands period height ⟨lastH, lastO⟩ env (0, 0) with
          | .ok (res, last) => ",".intercalate (res.map hexOf) ++ s!" last={last.height}:" ++ (if last.owner.isEmpty then "-" else hexOf last.owner)
          | .error .noBlock => "err noblock"
          | .error .notEnough => "err notenough"
      | _, _, _, _, _, _, _, _, _, _, _ => "bad-op"
  | "randv2" :: seed :: normal :: crc :: unclaimed :: draws :: env :: _blk :: _tip :: ps =>
      match int? seed, nat? normal, nat? crc, nat? unclaimed, natList? draws, envOps? env, ps.mapM prod? with
      | some seed, some normal, some crc, some unclaimed, some draws, some env, some l =>
          let owners := ((sortProducers l).drop unclaimed).map (fun (p : Producer × List Nat) => p.2)
          let res := randomV2 (drawsGen seed draws) .local seed owners (normal + crc) env (0, 0)
          if res.isEmpty then "-" else ",".intercalate (res.map hexOf)
      | _, _, _, _, _, _, _ => "bad-op"
  | _ => "bad-op"

def main : IO Unit := runPure stepC24
