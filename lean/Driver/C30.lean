import Driver.NodeSim
import ElaVerif.Model.Irr
open ElaVerif.Irr Driver

/-!
  C30 driver: the node protocol (NodeSim) plus the last-irreversible-height stream
    lihnew <revertStart>                       fresh State
    lihset <lih> <dposStart> <dposWork> <dpos> writes the fields
    lihstep <height>                           tryUpdateLastIrreversibleHeight + History.Commit → "<lih> <dposStart>"
    lihback <height>                           History.RollbackTo → "<lih> <dposStart>"
    lihload                                    key frame Serialize → Deserialize, empty History → the four fields
-/
structure S30 where
  node : ElaVerif.Node.NState
  rs : Nat
  h : Hist

def step30 (s : S30) : List String → S30 × String
  | ["lihnew", rs] => match nat? rs with
      | some rs => ({ s with rs := rs, h := { st := { lih := 0, dposStart := 0, dposWork := 0, dpos := true } } }, "ok")
      | none => (s, "bad-op")
  | ["lihset", l, d, w, m] => match nat? l, nat? d, nat? w, nat? m with
      | some l, some d, some w, some m =>
        ({ s with h := { s.h with st := { lih := l, dposStart := d, dposWork := w, dpos := m != 0 } } }, "ok")
      | _, _, _, _ => (s, "bad-op")
  | ["lihstep", ht] => match nat? ht with
      | some ht =>
        let h' := step s.rs s.h ht
        ({ s with h := h' }, s!"{h'.st.lih} {h'.st.dposStart}")
      | none => (s, "bad-op")
  | ["lihback", ht] => match nat? ht with
      | some ht =>
        let h' := rollbackTo s.h ht
        ({ s with h := h' }, s!"{h'.st.lih} {h'.st.dposStart}")
      | none => (s, "bad-op")
  | ["lihload"] =>
    let h' := reload s.h
    ({ s with h := h' }, s!"{h'.st.lih} {h'.st.dposStart} {h'.st.dposWork} {if h'.st.dpos then 1 else 0}")
  | toks =>
    let (n, out) := NodeSim.step s.node toks
    ({ s with node := n }, out)

def main : IO Unit :=
  Driver.run step30 { node := NodeSim.blank, rs := 0, h := { st := { lih := 0, dposStart := 0, dposWork := 0, dpos := true } } }
