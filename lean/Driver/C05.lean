import Driver.Loop
import Driver.RunProgramsOp
/-
  Line-protocol driver for C05: the RunPrograms model (current code, all guards on)
  decides acceptance from the signature matrix carried in the op line.
-/
open Driver

def stepC05 : List String → String
  | "run" :: ts => Driver.RunOp.evalRun .all ts
  | "tamper" :: ts => Driver.RunOp.evalRun .all ts
  | _ => "bad-op"

def main : IO Unit := runPure stepC05
