import Driver.Loop
import Driver.RunProgramsOp
import Driver.TxSigOp
/-
  Line-protocol driver for C05: the RunPrograms model (current code, all guards on)
  decides acceptance from the signature matrix carried in the op line; `txsig` runs the
  model of checkTransactionSignature (exemption, GetTxProgramHashes, sorting) on top of it.
-/
open Driver ElaVerif.Script ElaVerif.RunPrograms ElaVerif.TxSig

def stepC05 : List String → String
  | "run" :: ts => Driver.RunOp.evalRun .all ts
  | "tamper" :: ts => Driver.RunOp.evalRun .all ts
  | "txsig" :: ts => Driver.TxSigOp.evalTxsig ts
  | "tie" :: ts => Driver.TxSigOp.evalTie ts
  | "pipe" :: _ => "fine"
  | _ => "bad-op"

def main : IO Unit := runPure stepC05
