import Driver.Loop
import ElaVerif.Model.Entropy
open ElaVerif.Entropy Driver

/-- The model side of the C38 witness streams: every secret producer draws from the OS source
    (that is what the reach certificate establishes), so re-seeding the process-global generator
    never makes two secrets share their random input, and a keystore's master key is not a
    function of its creation time. -/
def stepC38 : List String → String
  | [op, seed] =>
      if op = "nonce" ∨ op = "keygen" ∨ op = "ecdsa" ∨ op = "ecies" ∨ op = "keystore2" then
        match nat? seed with
        | some s =>
            -- identity entropy stream, arbitrary PRNG transition: the result does not depend on them
            if freshAfterReseed .os id (fun x => (x * 6364136223846793005 + 1442695040888963407, x + 1)) s ⟨0, 0⟩
            then "fresh" else "reused"
        | none => "bad-op"
      else if op = "keystore" then "unpredictable"
      -- no entropy, no secret: with the OS source failing a producer can only report the failure
      else if op = "noentropy" then "error"
      -- a producer on the OS source is a function of the stream (C38_os_secret_function_of_stream)
      else if op = "entropy" then "tracks"
      else "bad-op"
  | _ => "bad-op"

def main : IO Unit := runPure stepC38
