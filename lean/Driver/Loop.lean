/-
  Shared line-protocol loop for all drivers (core Lean only).
  One op per input line (space separated tokens) → one canonical output line.
  `partial` is confined to this IO loop; no theorem depends on it.
-/
namespace Driver

def tokens (line : String) : List String :=
  ((line.replace "\n" "").replace "\r" "" |>.splitOn " ").filter (· ≠ "")

partial def loop {σ : Type} (inp out : IO.FS.Stream)
    (step : σ → List String → σ × String) (s : σ) : IO Unit := do
  let line ← inp.getLine
  if line.isEmpty then
    out.flush
    return ()
  let toks := tokens line
  if toks.isEmpty then
    out.putStrLn ""
    loop inp out step s
  else
    let (s', o) := step s toks
    out.putStrLn o
    loop inp out step s'

def run {σ : Type} (step : σ → List String → σ × String) (init : σ) : IO Unit := do
  loop (← IO.getStdin) (← IO.getStdout) step init

/-- stateless variant -/
def runPure (f : List String → String) : IO Unit :=
  run (σ := Unit) (fun _ t => ((), f t)) ()

/-! small parsing helpers shared by drivers -/

def hexDigit? (c : Char) : Option Nat :=
  if '0' ≤ c ∧ c ≤ '9' then some (c.toNat - '0'.toNat)
  else if 'a' ≤ c ∧ c ≤ 'f' then some (c.toNat - 'a'.toNat + 10)
  else if 'A' ≤ c ∧ c ≤ 'F' then some (c.toNat - 'A'.toNat + 10)
  else none

/-- "-" denotes the empty byte string. -/
def hexBytes? (s : String) : Option (List UInt8) :=
  if s = "-" then some [] else
  let rec go : List Char → List UInt8 → Option (List UInt8)
    | [], acc => some acc.reverse
    | [_], _ => none
    | a :: b :: rest, acc =>
      match hexDigit? a, hexDigit? b with
      | some x, some y => go rest (UInt8.ofNat (x * 16 + y) :: acc)
      | _, _ => none
  go s.toList []

def hexNat? (s : String) : Option Nat :=
  if s.isEmpty then none else
  s.toList.foldl (fun acc c => match acc, hexDigit? c with
    | some a, some d => some (a * 16 + d)
    | _, _ => none) (some 0)

def nibble (n : Nat) : Char :=
  if n < 10 then Char.ofNat (n + '0'.toNat) else Char.ofNat (n - 10 + 'a'.toNat)

def toHex (bs : List UInt8) : String :=
  if bs.isEmpty then "-" else
  String.ofList (bs.foldr (fun b acc => nibble (b.toNat / 16) :: nibble (b.toNat % 16) :: acc) [])

def natToHex (n : Nat) : String :=
  if n = 0 then "0" else
  let rec go (fuel n : Nat) (acc : List Char) : List Char :=
    match fuel with
    | 0 => acc
    | fuel + 1 => if n = 0 then acc else go fuel (n / 16) (nibble (n % 16) :: acc)
  String.ofList (go (Nat.log2 n + 2) n [])

def int? (s : String) : Option Int := s.toInt?
def nat? (s : String) : Option Nat := s.toNat?

end Driver
