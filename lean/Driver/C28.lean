import Driver.Loop
import ElaVerif.Model.Deposit
import ElaVerif.Model.CRDeposit
open ElaVerif.Deposit Driver
open ElaVerif.CRDeposit (CRAcct CRTx CState)

structure DS where
  P : Params := ⟨0, 0, 0, 0, 0, 0⟩
  h : Nat := 0
  s : State := State.empty
  q : List Tx := []        -- accepted / queued transactions of the open block (reversed)
  crs : AMap CRAcct := []  -- CR candidates' deposit accounts
  cq : List CRTx := []
  vE : Nat := 100000000    -- CR VotingPeriod
  vM : Nat := 12           -- CR MemberCount
  lastVS : Nat := 0        -- Committee.LastVotingStartHeight
  renewed : List String := []  -- refer keys renewed in the open block

def insSorted {α : Type} (x : Nat × α) : List (Nat × α) → List (Nat × α)
  | [] => [x]
  | y :: t => if x.1 ≤ y.1 then x :: y :: t else y :: insSorted x t

def sortK {α : Type} (l : List (Nat × α)) : List (Nat × α) := l.foldr insSorted []

def b2n (b : Bool) : Nat := if b then 1 else 0

def stCode : PState → Nat
  | .pending => 0 | .active => 1 | .canceled => 3 | .illegal => 4 | .returned => 5

def csCode : CState → Nat
  | .pending => 0 | .active => 1 | .canceled => 2 | .returned => 3

def dump (d : DS) : String :=
  let a := (sortK d.s.accts).foldl (fun acc (p : Nat × Acct) =>
    acc ++ s!" {p.1}:{p.2.total}:{p.2.deposit}:{p.2.penalty}:{stCode p.2.st}:{b2n p.2.mP + 2 * b2n p.2.mA + 4 * b2n p.2.mL + 8 * b2n p.2.mC}") ""
  let t := (sortK d.s.stakes).foldl (fun acc (p : Nat × Stake) =>
    acc ++ s!" {p.1}:{p.2.rights}:{p.2.used}:{sumV p.2.live}") ""
  let r := (sortK d.crs).foldl (fun acc (p : Nat × CRAcct) =>
    acc ++ s!" {p.1}:{p.2.total}:{p.2.deposit}:{p.2.penalty}:" ++ (if p.2.gone then "-1" else toString (csCode p.2.st))
      ++ s!":{p.2.total}") ""   -- last field: the harness's ledger of tracked unspent deposit outputs (= total)
  s!"h={d.h} A{a} S{t} R{r}"

def ints? (s : String) : Option (List Int) :=
  (s.splitOn ",").foldr (fun x acc => match int? x, acc with
    | some v, some l => some (v :: l)
    | _, _ => none) (some [])

def parseTx : List String → Option Tx
  | ["reg", o, amount, lock, v2] => do pure (.reg (← nat? o) (← int? amount) (← int? lock) (v2 == "1"))
  | ["dep", o, v] => do pure (.dep (← nat? o) (← int? v))
  | ["cancel", o] => do pure (.cancel (← nat? o))
  | ["ret", o, inp, tinp, change, out, _] => do pure (.ret (← nat? o) (← int? inp) (← int? tinp) (← int? change) (← int? out))
  | ["pen", o, _, p] => do pure (.pen (← nat? o) (← int? p))
  | ["stake", k, v] => do pure (.stake (← nat? k) (← int? v))
  | ["vote", k, lock, vs, bad] => do
      let b ← if bad == "n" then some none else (nat? bad).map some
      pure (.vote (← nat? k) (← nat? lock) (← ints? vs) b)
  | ["retv", k, v] => do pure (.retv (← nat? k) (← int? v))
  | ["retv", k, v, _, _] => do pure (.retv (← nat? k) (← int? v))   -- payload version / other key do not matter
  | ["renew", k, _, oldLock, amount, born, newLock] => do
      pure (.renew (← nat? k) (← nat? oldLock) (← int? amount) (← nat? newLock) (← nat? born))
  | _ => none

def parseCR : List String → Option CRTx
  | ["crreg", o, amount] => do pure (.reg (← nat? o) (← int? amount))
  | ["crdep", o, v] => do pure (.dep (← nat? o) (← int? v))
  | ["crcancel", o] => do pure (.cancel (← nat? o))
  | ["crvote", o, v] => do pure (.vote (← nat? o) (← int? v))
  | ["crret", o, inp, tinp, change, out, _] => do pure (.ret (← nat? o) (← int? inp) (← int? tinp) (← int? change) (← int? out))
  | _ => none

/-- `ret` with a further output to another producer's deposit address: that output is not change (it counts as
    withdrawn in the check) and is a deposit to the other producer in the bookkeeping. -/
def parseRet2 : List String → Option (Tx × Tx)
  | ["ret", o, inp, tinp, change, out, _, o2, other] => do
      let ov ← int? other
      pure (.ret (← nat? o) (← int? inp) (← int? tinp) (← int? change) ((← int? out) + ov), .dep (← nat? o2) ov)
  | _ => none

def isEnv : Tx → Bool
  | .reg .. | .dep .. | .pen .. => true
  | _ => false

def stepC28 (d : DS) (toks : List String) : DS × String :=
  match toks with
  | ["reset", lockup, minDep, minFee, retvFee, minLock, maxLock, _] =>
    match nat? lockup, int? minDep, int? minFee, int? retvFee, nat? minLock, nat? maxLock with
    | some a, some b, some c, some e, some f, some g => ({ P := ⟨a, b, c, e, f, g⟩ }, "ok")
    | _, _, _, _, _, _ => (d, "bad-op")
  | ["reset", lockup, minDep, minFee, retvFee, minLock, maxLock, _, vE, vM] =>
    match nat? lockup, int? minDep, int? minFee, int? retvFee, nat? minLock, nat? maxLock, nat? vE, nat? vM with
    | some a, some b, some c, some e, some f, some g, some x, some y => ({ P := ⟨a, b, c, e, f, g⟩, vE := x, vM := y }, "ok")
    | _, _, _, _, _, _, _, _ => (d, "bad-op")
  | ["reset"] => ({}, "ok")
  | ["begin", h] => match nat? h with
    | some h => ({ d with h := h, q := [], cq := [], renewed := [] }, "ok")
    | none => (d, "bad-op")
  | ["end"] =>
    let s' := applyTxs d.P d.h d.s d.q.reverse
    let crs1 := ElaVerif.CRDeposit.applyTxs d.P d.h d.crs d.cq.reverse
    let (crs2, vs) := ElaVerif.CRDeposit.election d.P d.vE d.vM d.h d.lastVS crs1
    let d' := { d with s := s', q := [], crs := crs2, lastVS := vs, cq := [] }
    (d', dump d')
  | ["pool", _, _, _] => (d, "conflict")   -- one stake address, one slot key: the pool admits one of them at a time
  | ["redo"] => (d, "queued")   -- disconnecting and re-connecting the same block changes nothing
  | ["renew", k, key, oldLock, amount, born, newLock] =>
    match nat? k, nat? oldLock, int? amount, nat? newLock, nat? born with
    | some k, some ol, some am, some nl, some bo =>
      match check d.P d.h d.s (.renew k ol am nl bo) with
      | some e => (d, "reject " ++ e)
      | none =>
        -- a second renewal of the SAME detailed vote (same refer key) in one block finds nothing left to delete
        -- and only stores another renewed vote: queue it with an old lock time that matches no live vote
        if key ∈ d.renewed then ({ d with q := .renew k 0 am nl bo :: d.q }, "accept")
        else ({ d with q := .renew k ol am nl bo :: d.q, renewed := key :: d.renewed }, "accept")
    | _, _, _, _, _ => (d, "bad-op")
  | ["vote", k, lock, vs, bad, shape] =>
    -- Voting.Validate: a vote type may appear once; invalid candidate votes (<= 0) are refused there too
    match parseTx ["vote", k, lock, vs, bad] with
    | some tx =>
      let nD := (shape.toList.filter (· == 'D')).length
      let nP := (shape.toList.filter (· == 'P')).length
      let zero := match tx with | .vote _ _ vs _ => vs.any (· ≤ 0) | _ => false
      if zero then (d, "reject zero") else
      if nD > 1 ∨ nP > 1 then (d, "reject dup") else
      (match check d.P d.h d.s tx with
       | some e => (d, "reject " ++ e)
       | none => ({ d with q := tx :: d.q }, "accept"))
    | none => (d, "bad-op")
  | _ =>
    match parseCR toks with
    | some ctx =>
      (match ElaVerif.CRDeposit.check d.crs ctx with
       | some e => (d, "reject " ++ e)
       | none => ({ d with cq := ctx :: d.cq },
           match ctx with | .reg .. | .dep .. | .vote .. => "queued" | _ => "accept"))
    | none =>
    match parseRet2 toks with
    | some (r, dp) =>
      (match check d.P d.h d.s r with
       | some e => (d, "reject " ++ e)
       | none => ({ d with q := dp :: r :: d.q }, "accept"))
    | none =>
    match parseTx toks with
    | none => (d, "bad-op")
    | some tx =>
      match check d.P d.h d.s tx with
      | some e => (d, "reject " ++ e)
      | none => ({ d with q := tx :: d.q }, if isEnv tx then "queued" else "accept")

def main : IO Unit := run stepC28 {}
