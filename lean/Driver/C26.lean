import Driver.Loop
import ElaVerif.Model.ViewSched
open ElaVerif.ViewSched Driver

def fmtOut : Out → String
  | .ok o r => s!"ok {o} {r}"
  | .panic => "panic"
  | .nofuel => "model-out-of-fuel"

def fmtState (s : VState) : String := s!"{s.off},{s.start},{if s.duty then 1 else 0}"

/-- run a schedule, printing the state after every evaluation. -/
def runSched (step : VState → Int → Option VState) : VState → List Int → List String → Option (List String)
  | _, [], acc => some acc.reverse
  | s, t :: ts, acc => match step s t with
    | some s' => runSched step s' ts (fmtState s' :: acc)
    | none => none

def parseInts (xs : List String) : Option (List Int) :=
  xs.foldr (fun x acc => match int? x, acc with
    | some v, some l => some (v :: l)
    | _, _ => none) (some [])

/-- one step of a `cons` op: `c<time>` = Consensus.ChangeView (true), `t<time>` = Consensus.TryChangeView. -/
def parseStep (x : String) : Option (Bool × Int) :=
  match x.toList with
  | 'c' :: rest => (int? (String.ofList rest)).map (fun t => (true, t))
  | 't' :: rest => (int? (String.ofList rest)).map (fun t => (false, t))
  | _ => none

def parseSteps (xs : List String) : Option (List (Bool × Int)) :=
  xs.foldr (fun x acc => match parseStep x, acc with
    | some v, some l => some (v :: l)
    | _, _ => none) (some [])

def runCons (forkH height : Nat) (running : Bool) (tol : Int) (n me : Nat) :
    VState → List (Bool × Int) → List String → Option (List String)
  | _, [], acc => some acc.reverse
  | s, (isChange, t) :: xs, acc =>
    let r := if isChange then consChangeView forkH height tol n me s t
             else consTryChangeView forkH height running tol n me s t
    match r with
    | some s' => runCons forkH height running tol n me s' xs (fmtState s' :: acc)
    | none => none

def stepC26 : List String → String
  | "cons" :: forkH :: height :: running :: tol :: n :: me :: off :: steps =>
      match nat? forkH, nat? height, nat? running, int? tol, nat? n, nat? me, nat? off with
      | some f, some h, some r, some tol, some n, some me, some off =>
        match parseSteps steps with
        | some steps => match runCons f h (r != 0) tol n me ⟨off, 0, false⟩ steps [] with
          | some outs => " ".intercalate outs
          | none => "panic"
        | none => "bad-op"
      | _, _, _, _, _, _, _ => "bad-op"
  | ["v0", tol, d] => match int? tol, int? d with
      | some tol, some d => fmtOut (offsetV0 tol d)
      | _, _ => "bad-op"
  | ["v1", n, cur, d] => match nat? n, nat? cur, int? d with
      | some n, some cur, some d => fmtOut (offsetV1 n cur d)
      | _, _, _ => "bad-op"
  | "run" :: mode :: tol :: n :: me :: off :: ts =>
      match int? tol, nat? n, nat? me, nat? off, parseInts ts with
      | some tol, some n, some me, some off, some ts =>
        let step? : Option (VState → Int → Option VState) :=
          if mode = "cv0" then some (changeViewV0 tol n me)
          else if mode = "cv1" then some (changeViewV1 n me)
          else if mode = "try0" then some (tryChangeViewV0 tol n me)
          else if mode = "try1" then some (tryChangeViewV1 tol n me)
          else none
        match step? with
        | some step => match runSched step ⟨off, 0, false⟩ ts [] with
          | some outs => " ".intercalate outs
          | none => "panic"
        | none => "bad-op"
      | _, _, _, _, _ => "bad-op"
  | _ => "bad-op"

def main : IO Unit := runPure stepC26
