import Driver.Loop
import ElaVerif.Model.ViewSched
open ElaVerif.ViewSched Driver

def fmtOut : Out → String
  | .ok o r => s!"ok {o} {r}"
  | .panic => "panic"
  | .nofuel => "model-out-of-fuel"

def fmtState (s : VState) : String := s!"{s.off},{s.start},{if s.duty then 1 else 0}"

/-- run a schedule, printing the state after every evaluation. -/
def runSched (step : VState → Int → Option VState) : VState → List Int → List String → Option (List String)
  | _, [], acc => some acc.reverse
  | s, t :: ts, acc => match step s t with
    | some s' => runSched step s' ts (fmtState s' :: acc)
    | none => none

def parseInts (xs : List String) : Option (List Int) :=
  xs.foldr (fun x acc => match int? x, acc with
    | some v, some l => some (v :: l)
    | _, _ => none) (some [])

/-- one step of a `cons` op: `c<time>` Consensus.ChangeView, `t<time>` Consensus.TryChangeView,
    `o<time>` DPOSManager.OnChangeView, `r` a ResetView message arriving at the manager,
    `s` the consensus status sent over the wire and adopted again. -/
inductive ConsStep | change (t : Int) | try_ (t : Int) | timer (t : Int) | resetMsg | status

def parseStep (x : String) : Option ConsStep :=
  match x.toList with
  | ['r'] => some .resetMsg
  | ['s'] => some .status
  | 'c' :: rest => (int? (String.ofList rest)).map .change
  | 't' :: rest => (int? (String.ofList rest)).map .try_
  | 'o' :: rest => (int? (String.ofList rest)).map .timer
  | _ => none

def parseSteps (xs : List String) : Option (List ConsStep) :=
  xs.foldr (fun x acc => match parseStep x, acc with
    | some v, some l => some (v :: l)
    | _, _ => none) (some [])

/-- `resets` = number of ResetView messages broadcast so far. -/
def runCons (forkH height : Nat) (running : Bool) (tol : Int) (n me : Nat) :
    VState → Nat → List ConsStep → List String → Option (List String)
  | _, _, [], acc => some acc.reverse
  | s, resets, x :: xs, acc =>
    match x with
    | .change t => match consChangeView forkH height tol n me s t with
      | some s' => runCons forkH height running tol n me s' resets xs (fmtState s' :: acc)
      | none => none
    | .try_ t => match consTryChangeView forkH height running tol n me s t with
      | some s' => runCons forkH height running tol n me s' resets xs (fmtState s' :: acc)
      | none => none
    | .timer t => match mgrOnChangeView forkH height running tol n me s t with
      | some (s', b) =>
        let resets' := if b then resets + 1 else resets
        runCons forkH height running tol n me s' resets' xs ((fmtState s' ++ s!",r{resets'}") :: acc)
      | none => none
    | .status =>
      -- CollectConsensusStatus → wire → RecoverFromConsensusStatus: the view is carried unchanged
      runCons forkH height running tol n me s resets xs (fmtState s :: acc)
    | .resetMsg =>
      runCons forkH height running tol n me s resets xs
        ((if mgrForwardsResetView forkH height n me then "f1" else "f0") :: acc)

def stepC26 : List String → String
  | "cons" :: forkH :: height :: running :: tol :: n :: me :: off :: steps =>
      match nat? forkH, nat? height, nat? running, int? tol, nat? n, nat? me, nat? off with
      | some f, some h, some r, some tol, some n, some me, some off =>
        match parseSteps steps with
        | some steps => match runCons f h (r != 0) tol n me ⟨off, 0, false⟩ 0 steps [] with
          | some outs => " ".intercalate outs
          | none => "panic"
        | none => "bad-op"
      | _, _, _, _, _, _, _ => "bad-op"
  | ["v0", tol, d] => match int? tol, int? d with
      | some tol, some d => fmtOut (offsetV0 tol d)
      | _, _ => "bad-op"
  | ["v1", n, cur, d] => match nat? n, nat? cur, int? d with
      | some n, some cur, some d => fmtOut (offsetV1 n cur d)
      | _, _, _ => "bad-op"
  | "run" :: mode :: tol :: n :: me :: off :: ts =>
      match int? tol, nat? n, nat? me, nat? off, parseInts ts with
      | some tol, some n, some me, some off, some ts =>
        let step? : Option (VState → Int → Option VState) :=
          if mode = "cv0" then some (changeViewV0 tol n me)
          else if mode = "cv1" then some (changeViewV1 n me)
          else if mode = "try0" then some (tryChangeViewV0 tol n me)
          else if mode = "try1" then some (tryChangeViewV1 tol n me)
          else none
        match step? with
        | some step => match runSched step ⟨off, 0, false⟩ ts [] with
          | some outs => " ".intercalate outs
          | none => "panic"
        | none => "bad-op"
      | _, _, _, _, _ => "bad-op"
  | _ => "bad-op"

def main : IO Unit := runPure stepC26
