import Driver.Loop
import ElaVerif.Model.Crash
open ElaVerif.Crash ElaVerif.Crc32c Driver

abbrev S := Option St

def pairs : Nat → List String → Option (List (Bytes × Bytes) × List String)
  | 0, rest => some ([], rest)
  | n + 1, a :: b :: rest =>
    match hexBytes? a, hexBytes? b, pairs n rest with
    | some a, some b, some (l, r) => some ((a, b) :: l, r)
    | _, _, _ => none
  | _, _ => none

def kvPairs : Nat → List String → Option (List (Bytes × Option Bytes) × List String)
  | 0, rest => some ([], rest)
  | n + 1, a :: b :: rest =>
    match hexBytes? a, (if b = "del" then some none else (hexBytes? b).map some), kvPairs n rest with
    | some a, some b, some (l, r) => some ((a, b) :: l, r)
    | _, _, _ => none
  | _, _ => none

def fmtCursor (s : St) : String := toString s.fs.curFile ++ " " ++ toString s.fs.curOff

def afterCrash (s : St) : S × String :=
  match reopen (crash s) with
  | some s' => (some s', "crashed reopen ok " ++ fmtCursor s')
  | none => (none, "crashed reopen err")

def armOf (point skip torn : String) : Option Arm :=
  if point = "none" then none else some { point := point.replace "_" " ", skip := skip.toNat?.getD 0, torn := torn.toNat?.getD 0 }

def fmtFiles (fs : ElaVerif.BlockStore.Files) : String :=
  let rec go : ElaVerif.BlockStore.Files → Nat → List String
    | [], _ => []
    | none :: r, i => go r (i + 1)
    | some f :: r, i => (toString i ++ ":" ++ toString f.length) :: go r (i + 1)
  let l := go fs 0
  if l.isEmpty then "none" else ",".intercalate l

def step (st : S) (toks : List String) : S × String :=
  match toks with
  | ["reset"] => (none, "ok")
  | ["open", net, max, cmax, mode, row] =>
    match net.toNat?, max.toNat?, cmax.toNat?, hexBytes? row with
    | some net, some max, some cmax, some row =>
      (some { fs := { net := net, max := max },
              db := { ldb := ElaVerif.Ffldb.initLdb row, maxSize := cmax, flushAlways := mode == "always" } }, "ok")
    | _, _, _, _ => (st, "bad-op")
  | _ =>
  match st with
  | none => (st, "no-db")
  | some s =>
  match toks with
  | "tx" :: point :: skip :: torn :: nb :: rest =>
    match nb.toNat?.bind (fun n => pairs n rest) with
    | some (blocks, nk :: rest') =>
      match nk.toNat?.bind (fun n => kvPairs n rest') with
      | some (kvs, _) =>
        let (s', dead) := commit crc32c { s with fs := { s.fs with arm := armOf point skip torn } } blocks kvs
        if dead then afterCrash s' else (some { s' with fs := { s'.fs with arm := none } }, "ok " ++ fmtCursor s')
      | none => (st, "bad-op")
    | _ => (st, "bad-op")
  | ["flush", point, skip] =>
    let (s', dead) := flush { s with fs := { s.fs with arm := armOf point skip "0" } }
    if dead then afterCrash s' else (some { s' with fs := { s'.fs with arm := none } }, "ok")
  | ["crash"] => afterCrash s
  | ["knob", cmax, mode] =>
    match cmax.toNat? with
    | some m => (some { s with db := { s.db with maxSize := m, flushAlways := mode == "always" } }, "ok")
    | none => (st, "bad-op")
  | ["reopen"] =>
    match reopen s with
    | some s' => (some s', "ok " ++ fmtCursor s')
    | none => (none, "err")
  | "read" :: nh :: rest =>
    match nh.toNat? with
    | some n =>
      let hs := rest.take n
      let ks := (rest.drop (n + 1))
      let hp := hs.map fun h => match hexBytes? h with
        | some hb => (match fetch crc32c s hb with
            | some d => h ++ "=" ++ toString d.length ++ ":" ++ toHex (d.take 4)
            | none => h ++ "=miss")
        | none => "bad"
      let kp := ks.map fun k => match hexBytes? k with
        | some kb => k ++ "=" ++ (match getMeta s kb with | some v => toHex v | none => "nil")
        | none => "bad"
      (st, " ".intercalate (hp ++ kp))
    | none => (st, "bad-op")
  | ["files"] => (st, fmtFiles s.fs.files)
  | ["stats"] => (st, toString s.db.ckeys.length ++ " " ++ toString s.db.cremoves.length)
  | _ => (st, "bad-op")

def main : IO Unit := Driver.run step none
