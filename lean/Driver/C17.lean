import Driver.Loop
import ElaVerif.Model.Crash
open ElaVerif.Crash ElaVerif.Crc32c Driver

/-- driver state: the database (if open) and the crash point armed for the next reopen after a crash -/
structure DS where
  st : Option St := none
  reArm : Option Arm := none

abbrev S := DS

def pairs : Nat → List String → Option (List (Bytes × Bytes) × List String)
  | 0, rest => some ([], rest)
  | n + 1, a :: b :: rest =>
    match hexBytes? a, hexBytes? b, pairs n rest with
    | some a, some b, some (l, r) => some ((a, b) :: l, r)
    | _, _, _ => none
  | _, _ => none

def kvPairs : Nat → List String → Option (List (Bytes × Option Bytes) × List String)
  | 0, rest => some ([], rest)
  | n + 1, a :: b :: rest =>
    match hexBytes? a, (if b = "del" then some none else (hexBytes? b).map some), kvPairs n rest with
    | some a, some b, some (l, r) => some ((a, b) :: l, r)
    | _, _, _ => none
  | _, _ => none

def fmtCursor (s : St) : String := toString s.fs.curFile ++ " " ++ toString s.fs.curOff

/-- the process died: reopen (possibly dying again inside the reconciliation, then reopen again) -/
def afterCrash (d : DS) (s : St) : S × String :=
  let s1 := crash s
  match reopenArmed { s1 with fs := { s1.fs with arm := d.reArm } } with
  | none => ({}, "crashed reopen err")
  | some (s2, false) => ({ st := some { s2 with fs := { s2.fs with arm := none } } }, "crashed reopen ok " ++ fmtCursor s2)
  | some (s2, true) =>
    match reopen (crash s2) with
    | some s3 => ({ st := some s3 }, "crashed reopen-crashed reopen ok " ++ fmtCursor s3)
    | none => ({}, "crashed reopen-crashed reopen err")

def armOf (point skip torn : String) : Option Arm :=
  if point = "none" then none else some { point := point.replace "_" " ", skip := skip.toNat?.getD 0, torn := torn.toNat?.getD 0 }

def fmtFiles (fs : ElaVerif.BlockStore.Files) : String :=
  let rec go : ElaVerif.BlockStore.Files → Nat → List String
    | [], _ => []
    | none :: r, i => go r (i + 1)
    | some f :: r, i => (toString i ++ ":" ++ toString f.length) :: go r (i + 1)
  let l := go fs 0
  if l.isEmpty then "none" else ",".intercalate l

def step (d : S) (toks : List String) : S × String :=
  match toks with
  | ["reset"] => ({}, "ok")
  | ["open", net, max, cmax, mode, row] =>
    match net.toNat?, max.toNat?, cmax.toNat?, hexBytes? row with
    | some net, some max, some cmax, some row =>
      let s0 : St := { fs := { net := net, max := max },
                       db := { ldb := ElaVerif.Ffldb.initLdb row, maxSize := cmax, flushAlways := mode == "always" } }
      (({ st := some s0 } : DS), "ok")
    | _, _, _, _ => (d, "bad-op")
  | _ =>
  match d.st with
  | none => (d, "no-db")
  | some s =>
  match toks with
  | ["armreopen", point, skip] => ({ d with reArm := armOf point skip "0" }, "ok")
  | "tx" :: point :: skip :: torn :: nb :: rest =>
    match nb.toNat?.bind (fun n => pairs n rest) with
    | some (blocks, nk :: rest') =>
      match nk.toNat?.bind (fun n => kvPairs n rest') with
      | some (kvs, _) =>
        let (s', dead) := commit crc32c { s with fs := { s.fs with arm := armOf point skip torn } } blocks kvs
        if dead then afterCrash d s' else ({ d with st := some { s' with fs := { s'.fs with arm := none } } }, "ok " ++ fmtCursor s')
      | none => (d, "bad-op")
    | _ => (d, "bad-op")
  | ["flush", point, skip] =>
    let (s', dead) := flush { s with fs := { s.fs with arm := armOf point skip "0" } }
    if dead then afterCrash d s' else ({ d with st := some { s' with fs := { s'.fs with arm := none } } }, "ok")
  | ["crash"] => afterCrash d s
  | ["knob", cmax, mode] =>
    match cmax.toNat? with
    | some m => ({ d with st := some { s with db := { s.db with maxSize := m, flushAlways := mode == "always" } } }, "ok")
    | none => (d, "bad-op")
  | ["reopen"] =>
    match reopen s with
    | some s' => ({ d with st := some s' }, "ok " ++ fmtCursor s')
    | none => ({}, "err")
  | "read" :: nh :: rest =>
    match nh.toNat? with
    | some n =>
      let hs := rest.take n
      let ks := (rest.drop (n + 1))
      let hp := hs.map fun h => match hexBytes? h with
        | some hb => (match fetch crc32c s hb with
            | some dd => h ++ "=" ++ toString dd.length ++ ":" ++ toHex (dd.take 4)
            | none => h ++ "=miss")
        | none => "bad"
      let kp := ks.map fun k => match hexBytes? k with
        | some kb => k ++ "=" ++ (match getMeta s kb with | some v => toHex v | none => "nil")
        | none => "bad"
      (d, " ".intercalate (hp ++ kp))
    | none => (d, "bad-op")
  | ["files"] => (d, fmtFiles s.fs.files)
  | ["stats"] => (d, toString s.db.ckeys.length ++ " " ++ toString s.db.cremoves.length)
  | _ => (d, "bad-op")

def main : IO Unit := Driver.run step {}
