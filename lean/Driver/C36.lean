import Driver.Loop
import ElaVerif.Model.RpcAccess
open ElaVerif.RpcAccess Driver

def bytes? (s : String) : Option Bytes := (hexBytes? s).map (·.map (·.toNat))

def bytesList? (s : String) : Option (List Bytes) :=
  if s = "-" then some [] else (s.splitOn ",").mapM (fun t => if t = "e" then some [] else bytes? t)

def parsed? (s : String) : Option (Option ParsedIP) :=
  if s = "none" then some none else
  match s.splitOn ":" with
  | [k, c] => match bytes? c with
    | some c => if k = "L" then some (some ⟨true, c⟩) else if k = "N" then some (some ⟨false, c⟩) else none
    | none => none
  | _ => none

def fmtStatus : Status → String
  | .forbidden => "403"
  | .methodNotAllowed => "405"
  | .unsupportedMedia => "415"
  | .unauthorized => "401"
  | .served => "served"

def stepC36 : List String → String
  | "http" :: _srv :: _remote :: parsed :: wl :: user :: pass :: auth :: method :: _ctype :: media :: _ =>
      match parsed? parsed, bytesList? wl, bytes? user, bytes? pass, bytesList? auth, bytes? media with
      | some ip, some wl, some user, some pass, some auth, some media =>
          -- the digest is instantiated with the identity (SHA-256 is only compared for equality)
          fmtStatus (handle id wl user pass ⟨ip, method = "POST", media, auth⟩)
      | _, _, _, _, _, _ => "bad-op"
  | "gate" :: method :: level :: _ =>
      match bytes? level with
      | some l => if handlerRuns (expectedGate method) (String.ofList (l.map Char.ofNat)) then "ran" else "refused"
      | none => "bad-op"
  | _ => "bad-op"

def main : IO Unit := runPure stepC36
