import Driver.Loop
import Driver.RunProgramsOp
import ElaVerif.Model.TxSig
/-
  Shared by Driver/C05.lean and Driver/C37.lean: the `txsig` op format
  (harness/runop/txsig.go) evaluated on the checkTransactionSignature model.
-/
namespace Driver.TxSigOp
open Driver ElaVerif.Script ElaVerif.RunPrograms ElaVerif.TxSig

def pRefs : Nat → List String → Option (List PH × List String)
  | 0, ts => some ([], ts)
  | n + 1, p :: h :: ts => do
    let pf ← hexNat? p
    let hb ← hexBytes? h
    let (r, ts) ← pRefs n ts
    pure (⟨pf, hb⟩ :: r, ts)
  | _, _ => none

def pAttrs : Nat → List String → Option (List (Nat × Bytes) × List String)
  | 0, ts => some ([], ts)
  | n + 1, u :: d :: ts => do
    let us ← hexNat? u
    let db ← hexBytes? d
    let (r, ts) ← pAttrs n ts
    pure ((us, db) :: r, ts)
  | _, _ => none

def evalTxsigG (tie : Bool) : List String → String
  | variant :: ttype :: pver :: _lock :: nrefs :: rest =>
    match hexNat? ttype, nat? pver, nat? nrefs with
    | some tt, some pv, some nr =>
      (match pRefs nr rest with
      | some (refs, na :: rest) =>
        (match nat? na with
        | some na =>
          (match pAttrs na rest with
          | some (attrs, tail) =>
            (match Driver.RunOp.parse tail with
            | some p =>
              let scripts := (attrs.filter (fun a => a.1 == 0x20)).map (·.2)
              let v := if variant == "bc" then Variant.bc else Variant.tx
              if tie then
                let rs := (verdicts v .all (Driver.RunOp.oracles p) () ⟨tt, pv, refs, scripts, p.ps⟩).map Driver.RunOp.fmtRes
                let ds := rs.eraseDups
                String.intercalate "|" (ds.toArray.qsort (· < ·)).toList
              else Driver.RunOp.fmtRes (checkTxSig v .all (Driver.RunOp.oracles p) () ⟨tt, pv, refs, scripts, p.ps⟩)
            | none => "bad-op")
          | none => "bad-op")
        | none => "bad-op")
      | _ => "bad-op")
    | _, _, _ => "bad-op"
  | _ => "bad-op"

def evalTxsig : List String → String := evalTxsigG false
def evalTie : List String → String := evalTxsigG true

end Driver.TxSigOp
