import Driver.Loop
import ElaVerif.Model.BlockStore
open ElaVerif.BlockStore ElaVerif.Crc32c Driver

abbrev St := Option Store

def fmtErr : Err → String
  | .notFound => "err notfound"
  | .exists_ => "err exists"
  | .region => "err region"
  | .corrupt => "err corrupt"
  | .driver => "err driver"
  | .txClosed => "err txclosed"
  | .notWritable => "err notwritable"

def fmtRes : Except Err Bytes → String
  | .ok b => "ok " ++ toHex b
  | .error e => fmtErr e

def fmtFiles (fs : Files) : String :=
  let rec go : Files → Nat → List String
    | [], _ => []
    | none :: r, i => go r (i + 1)
    | some f :: r, i => (toString i ++ ":" ++ toString f.length) :: go r (i + 1)
  let l := go fs 0
  if l.isEmpty then "none" else ",".intercalate l

/-- parse `h off len` triples -/
def triples : List String → Option (List (Bytes × Nat × Nat))
  | [] => some []
  | h :: o :: n :: rest =>
    match hexBytes? h, o.toNat?, n.toNat?, triples rest with
    | some h, some o, some n, some t => some ((h, o, n) :: t)
    | _, _, _, _ => none
  | _ => none

def allOk (rs : List (Except Err Bytes)) : String :=
  match rs.find? (fun r => match r with | .error _ => true | .ok _ => false) with
  | some r => fmtRes r
  | none => "ok " ++ ",".intercalate (rs.map fun r => match r with | .ok b => toHex b | .error _ => "")

def step (st : St) (toks : List String) : St × String :=
  match toks with
  | ["reset"] => (none, "ok")
  | ["open", net, max] =>
    match net.toNat?, max.toNat? with
    | some net, some max => (some { net := net, max := max }, "ok 0 0")
    | _, _ => (st, "bad-op")
  -- chain-level stream (real ChainStore on a regnet node).  Signatures are re-made on every run, so
  -- no block bytes travel in op lines: the adapter reports structure only (lengths, offsets from the
  -- transaction index, ids of what the bytes deserialize to, "region = slice of the stored block")
  -- and the expected values are computed by the generator from the node's in-memory blocks
  | ["cnode"] => (st, "ok")
  | ["crestart"] => (st, "ok")
  | "cdeliver" :: _ => (st, "done")
  | ["cblock", id, len, ntx] => (st, len ++ " " ++ id ++ " " ++ ntx)
  | ["chdr", _] => (st, "84 true")
  | ["ctx", txid, bid, off, len] => (st, bid ++ " " ++ off ++ " " ++ len ++ " " ++ txid ++ " true")
  | ["cgettx", txid, ht] => (st, ht ++ " " ++ txid)
  | ["ctxmiss", _] => (st, "none")
  | _ =>
  match st with
  | none => (st, "no-db")
  | some s =>
  match toks with
  | ["begin"] => (some { s with pending := some [] }, "ok")
  | ["sb", h, d] =>
    match hexBytes? h, hexBytes? d with
    | some h, some d =>
      let (s', r) := storeBlock s h d
      (some s', match r with | .ok _ => "ok" | .error e => fmtErr e)
    | _, _ => (st, "bad-op")
  | ["commit"] =>
    let s' := commit crc32c s
    (some s', "ok " ++ toString s'.curFile ++ " " ++ toString s'.curOff)
  | ["ocommit"] =>
    let (s', failed) := commitObstructed crc32c s (s.curFile + 1)
    (some s', if failed then "err driver" else "ok " ++ toString s'.curFile ++ " " ++ toString s'.curOff)
  | ["rollback"] => (some (rollback s), "ok")
  | ["has", h] => match hexBytes? h with
    | some h => (st, toString (hasBlock s h))
    | none => (st, "bad-op")
  | ["fetch", h] => match hexBytes? h with
    | some h => (st, fmtRes (fetchBlock crc32c s h))
    | none => (st, "bad-op")
  | ["region", h, o, n] => match hexBytes? h, o.toNat?, n.toNat? with
    | some h, some o, some n => (st, fmtRes (fetchRegion s h o n))
    | _, _, _ => (st, "bad-op")
  | ["header", h] => match hexBytes? h with
    | some h => (st, fmtRes (fetchRegion s h 0 84))
    | none => (st, "bad-op")
  | ["loc", h] => match hexBytes? h with
    | some h => (st, match lookup h s.index with
        | some l => toString l.file ++ " " ++ toString l.off ++ " " ++ toString l.len
        | none => "none")
    | none => (st, "bad-op")
  | "regions" :: rest => match triples rest with
    | some ts => (st, allOk (ts.map fun (h, o, n) => fetchRegion s h o n))
    | none => (st, "bad-op")
  | "fetchs" :: rest => match rest.mapM hexBytes? with
    | some hs => (st, allOk (hs.map (fetchBlock crc32c s)))
    | none => (st, "bad-op")
  | "headers" :: rest => match rest.mapM hexBytes? with
    | some hs => (st, allOk (hs.map fun h => fetchRegion s h 0 84))
    | none => (st, "bad-op")
  | "hass" :: rest => match rest.mapM hexBytes? with
    | some hs => (st, ",".intercalate (hs.map fun h => toString (hasBlock s h)))
    | none => (st, "bad-op")
  | ["reopen"] =>
    match reopen s with
    | some s' => (some s', "ok " ++ toString s'.curFile ++ " " ++ toString s'.curOff)
    | none => (none, "err corrupt")
  | ["files"] => (st, fmtFiles s.files)
  | ["cursor"] => (st, toString s.curFile ++ " " ++ toString s.curOff)
  | ["poke", f, o, x] =>
    match f.toNat?, o.toNat?, x.toNat? with
    | some f, some o, some x =>
      match fileAt s.files f with
      | some b =>
        if o < b.length then
          (some { s with files := setFile s.files f (some (b.set o ((b.getD o 0) ^^^ UInt8.ofNat x))) }, "ok")
        else (st, "skip")
      | none => (st, "skip")
    | _, _, _ => (st, "bad-op")
  | _ => (st, "bad-op")

def main : IO Unit := Driver.run step none
