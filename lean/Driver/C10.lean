import Driver.Loop
import ElaVerif.Model.Sha256
import ElaVerif.Model.AuxPow
open ElaVerif.Merkle ElaVerif.AuxPow Driver

def hashPair10 (a b : List UInt8) : List UInt8 := ElaVerif.Sha256.sha256d (a ++ b)

def chunks32' : Nat → List UInt8 → List (List UInt8)
  | 0, _ => []
  | _, [] => []
  | fuel + 1, bs => bs.take 32 :: chunks32' fuel (bs.drop 32)

def parseHashes10 (s : String) : Option (List (List UInt8)) :=
  match hexBytes? s with
  | some bs => if bs.length % 32 = 0 then some (chunks32' (bs.length / 32) bs) else none
  | none => none

def fmtVerdict : Verdict → String
  | .accept => "accept"
  | .reject => "reject"
  | .panic => "panic"

def stepC10 : List String → String
  | ["check", hash, chain, cb, pb, pi, pr, ab, ai, script, _tx] =>
    match hexBytes? hash, int? chain, hexBytes? cb, parseHashes10 pb, int? pi, hexBytes? pr,
          parseHashes10 ab, int? ai with
    | some hash, some chain, some cb, some pb, some pi, some pr, some ab, some ai =>
      let sc : Option (Option (List UInt8)) :=
        if script == "none" then some none else (hexBytes? script).map some
      match sc with
      | some sc => fmtVerdict (check hashPair10 ⟨cb, pb, pi, pr, ab, ai, sc⟩ hash chain)
      | none => "bad-op"
    | _, _, _, _, _, _, _, _ => "bad-op"
  | ["checkw", hash, chain, cb, pb, pi, pr, ab, ai, script, _tx] =>
    -- through Serialize/Deserialize: `uint32(index)` on the way out, `int(uint32)` on the way in
    match hexBytes? hash, int? chain, hexBytes? cb, parseHashes10 pb, int? pi, hexBytes? pr,
          parseHashes10 ab, int? ai with
    | some hash, some chain, some cb, some pb, some pi, some pr, some ab, some ai =>
      let sc : Option (Option (List UInt8)) :=
        if script == "none" then some none else (hexBytes? script).map some
      match sc with
      | some sc => fmtVerdict (check hashPair10 ⟨cb, pb, pi % 2 ^ 32, pr, ab, ai % 2 ^ 32, sc⟩ hash chain)
      | none => "bad-op"
    | _, _, _, _, _, _, _, _ => "bad-op"
  | ["branch", h, br, idx] =>
    match hexBytes? h, parseHashes10 br, int? idx with
    | some h, some br, some idx => toHex (branchRoot hashPair10 zeroHash h br idx)
    | _, _, _ => "bad-op"
  | ["expidx", nonce, chain, h] =>
    match nat? nonce, int? chain, int? h with
    | some n, some c, some h =>
      toString (expectedIndex n c h)
    | _, _, _ => "bad-op"
  | _ => "bad-op"

/-- `checkseq`: the model has no state — the verdict is that of proof B through the wire format -/
def stepC10' : List String → String
  | "checkseq" :: _ha :: _ca :: _wa :: rest => stepC10 ("checkw" :: rest)
  | "codec" :: _ => "ok"
  | ["genaux", hash, chain] =>
    -- btcfaker.go: coinbase script = marker ++ hash ++ size 1 ++ nonce 0, no branches, indexes 0,
    -- parent root = the coinbase hash (an opaque token here)
    match hexBytes? hash, int? chain with
    | some h, some c =>
      let script : List UInt8 := [0xfa, 0xbe, 0x6d, 0x6d] ++ h ++ [1, 0, 0, 0] ++ [0, 0, 0, 0]
      let ap : AP := ⟨[0xcb], [], 0, [0xcb], [], 0, some script⟩
      let v := fmtVerdict (check hashPair10 ap h c) == "accept"
      let h3 := h.take 7 ++ (h.drop 7).take 1 |>.map id
      let h3 := h.take 7 ++ ((h.drop 7).take 1).map (fun b => b ^^^ 0x10) ++ h.drop 8
      let v3 := fmtVerdict (check hashPair10 ap h3 c) == "accept"
      s!"{v} {v} {v3} 0/0/0/0 {toHex script} true"
    | _, _ => "bad-op"
  | t => stepC10 t

def main : IO Unit := runPure stepC10'
