import Driver.Loop
import ElaVerif.Model.Distribute
open ElaVerif.Fixed64 ElaVerif.Distribute Driver

/-- Go/amd64 `int64(f)` (CVTTSD2SI): NaN and out-of-range give 0x8000000000000000 -/
def goInt64' (f : Float) : Int :=
  if f.isNaN || f >= 9223372036854775808.0 || f < -9223372036854775808.0 then -9223372036854775808
  else f.toInt64.toInt

def f64 (x : Fixed64) : Float := (Int64.ofInt (toInt x)).toFloat

/-- the two float quantities of distributeWithNormalArbitratorsV*, with hardware floats -/
def floatIbc (reward : Fixed64) (n : Nat) : Fixed64 :=
  ofInt (goInt64' (Float.floor (f64 reward * 0.25 / (Int64.ofInt (Int.ofNat n)).toFloat)))

def floatShare (reward total : Fixed64) (v : Fixed64) : Fixed64 :=
  let tbc := f64 reward * 0.25
  let ttp := f64 reward - tbc
  let rpv := ttp / f64 total
  ofInt (goInt64' (Float.floor (f64 v * rpv)))

def parseArbs : Nat → List String → Option (List Arb × List String)
  | 0, rest => some ([], rest)
  | n + 1, k :: v :: rest =>
    let kind? : Option Kind := match k with
      | "n" => some .normal | "c" => some .crcOwner | "d" => some .crcDestroy | "w" => some .crcNoKey | _ => none
    match kind?, int? v, parseArbs n rest with
    | some kd, some v, some (as, r) => some (⟨kd, ofInt v⟩ :: as, r)
    | _, _, _ => none
  | _, _ => none

def fmtGet (m : RMap) (k : Key) : String :=
  match m.get k with
  | some v => toString (toInt v)
  | none => "-"

/-- the address an arbiter is paid at, as a model key -/
def arbKey (era : Nat) (i : Nat) (a : Arb) : Key :=
  (payArb era 0 (fun _ => 0) i a).1

/-- the entries of a round reward in the fixed order destroy, CRC address, arbiters, candidates -/
def entryOrder (era : Nat) (arbs : List Arb) (nc : Nat) (m : RMap) : List Key :=
  let cand : List Key := [Key.destroy, Key.crc] ++ ((List.range arbs.length).zip arbs).map (fun (i, a) => arbKey era i a) ++
    (List.range nc).map Key.cand
  (cand.foldl (fun acc k => if acc.contains k then acc else acc ++ [k]) []).filter (fun k => (m.get k).isSome)

def sumMap (m : RMap) : Int := m.foldl (fun a e => a + toInt e.2) 0

/-- the steps of a `book` op -/
def bookSteps (dist : Fixed64 → Option (RMap × Fixed64)) (voting : Bool) :
    Nat → List String → Book → List String → Option (Book × List String × List String)
  | 0, rest, s, acc => some (s, acc.reverse, rest)
  | n + 1, kind :: fee :: rest, s, acc =>
    match int? fee with
    | none => none
    | some fee =>
      let b := ofInt (goInt64' (Float.ceil (f64 (ofInt fee + ofInt 152207001) * 0.35)))
      if kind == "a" then
        let s' := accumulate voting b s
        bookSteps dist voting n rest s' (("a:" ++ toString (toInt s'.acc)) :: acc)
      else if kind == "F" then
        -- the real forceChange on the synthetic Arbiters: the forced clearing is applied, the arbiter
        -- rotation after it fails (no producers / committee), so `forceChanged` is not set
        let s' := match clearing dist false b s with
          | none => s
          | some c => { c with forceChanged := s.forceChanged }
        bookSteps dist voting n rest s'
          (("F:err " ++ toString s'.forceChanged ++ " " ++ toString (toInt s'.acc) ++ " " ++ toString (toInt s'.change) ++ " " ++ toString (sumMap s'.rr) ++ " " ++
            toString s'.rr.length) :: acc)
      else
        match clearing dist (kind == "s") b s with
        | none => bookSteps dist voting n rest s ("c:err" :: acc)
        | some s' =>
          bookSteps dist voting n rest s'
            (("c:" ++ toString (toInt s'.acc) ++ " " ++ toString (toInt s'.change) ++ " " ++ toString (sumMap s'.rr) ++ " " ++
              toString s'.rr.length) :: acc)
  | _, _, _, _ => none

def stepBook : List String → String
  | era :: pow :: cfgCRC :: cfgNormal :: total :: na :: rest =>
    match nat? era, nat? cfgCRC, nat? cfgNormal, int? total, nat? na with
    | some era, some cfgCRC, some cfgNormal, some total, some na =>
      match parseArbs na rest with
      | some (arbs, nc :: crest) =>
        match nat? nc with
        | some nc =>
          let cvs := (crest.take nc).filterMap (fun s => (int? s).map ofInt)
          match crest.drop nc with
          | voting :: acc0 :: nsteps :: srest =>
            match int? acc0, nat? nsteps with
            | some acc0, some nsteps =>
              let dist : Fixed64 → Option (RMap × Fixed64) := fun pool =>
                let inp : Input := ⟨era, pow == "1", cfgCRC, cfgNormal, pool, arbs, cvs⟩
                distribute (floatIbc pool (arbitersCount inp)) (floatShare pool (ofInt total)) inp
              match bookSteps dist (voting == "1") nsteps srest ⟨ofInt acc0, [], 0, false⟩ [] with
              | some (s, outs, [cbk, cbdelta]) =>
                match int? cbk, int? cbdelta with
                | some cbk, some cbdelta =>
                  let order := entryOrder era arbs nc s.rr
                  let cbOuts : List (Key × Fixed64) := ((List.range order.length).zip order).map (fun (j, k) =>
                    let k' := if cbk == -2 && j + 1 == order.length && j > 0 then order.headD k else k
                    let v := (s.rr.get k').getD 0
                    (k', if (j : Int) == cbk then v + ofInt cbdelta else v))
                  " ; ".intercalate (outs ++ [if coinbaseRoundCheck s.rr cbOuts then "cb:ok" else "cb:err"])
                | _, _ => "bad-op"
              | _ => "bad-op"
            | _, _ => "bad-op"
          | _ => "bad-op"
        | none => "bad-op"
      | _ => "bad-op"
    | _, _, _, _, _ => "bad-op"
  | _ => "bad-op"

/-- "<k> (votes delta N)*" per voter → the float total of the N column -/
def parseVoters : Nat → List String → Option (List Float)
  | 0, _ => some []
  | n + 1, k :: rest =>
    match nat? k with
    | none => none
    | some k =>
      let toks := rest.take (3 * k)
      let ns : List Float := (List.range k).map (fun j => match int? (toks.getD (3 * j + 2) "0") with
        | some v => f64 (ofInt v) | none => 0)
      match parseVoters n (rest.drop (3 * k)) with
      | some more => some (ns.foldl (· + ·) 0 :: more)
      | none => none
  | _, _ => none

def stepV2 : List String → String
  | reward :: sponsor :: ncrc :: rest =>
    match int? reward, nat? ncrc with
    | some reward, some ncrc =>
      let crc := rest.take ncrc
      match rest.drop ncrc with
      | nv :: vrest =>
        match nat? nv with
        | some nv =>
          match parseVoters nv vrest with
          | some totals =>
            let R := ofInt reward
            -- node key of CRC arbiter i: the producer's node ("p…") or its own
            let onProd := fun (i : Nat) => (crc.getD i "").startsWith "p"
            let crcMatch : Option Nat :=
              if sponsor == "p" then (List.range ncrc).find? onProd
              else if sponsor == "x" then none
              else (sponsor.drop 1).toNat?.bind (fun i =>
                -- an arbiter standing on the producer's node shares its key with nobody else here
                if onProd i then (List.range ncrc).find? onProd else some i)
            let producerKnown := sponsor == "p" || (match (sponsor.drop 1).toNat? with | some i => onProd i | none => false)
            let V := BitVec.sdiv (R * 3) 4
            let totalNI := totals.foldl (· + ·) 0
            let shares : List (Nat × Fixed64) := ((List.range nv).zip totals).filterMap (fun (j, tn) =>
              if tn == 0 then none else some (j, ofInt (goInt64' (tn / totalNI * f64 V))))
            let m := v2Split R crcMatch producerKnown shares
            let get := fun (k : V2Key) => match m.find? (·.1 == k) with
              | some e => toString (toInt e.2) | none => "-"
            toString m.length ++ " P=" ++ get .owner ++
              String.join ((List.range ncrc).map (fun i => " C" ++ toString i ++ "=" ++ get (.crc i))) ++
              String.join ((List.range nv).map (fun j => " V" ++ toString j ++ "=" ++ get (.voter j)))
          | none => "bad-op"
        | none => "bad-op"
      | _ => "bad-op"
    | _, _ => "bad-op"
  | _ => "bad-op"

def stepC27 : List String → String
  | "v2split" :: rest => stepV2 rest
  | "book" :: rest => stepBook rest
  | "dist" :: era :: pow :: cfgCRC :: cfgNormal :: reward :: total :: na :: rest =>
    match nat? era, nat? cfgCRC, nat? cfgNormal, int? reward, int? total, nat? na with
    | some era, some cfgCRC, some cfgNormal, some reward, some total, some na =>
      match parseArbs na rest with
      | some (arbs, nc :: crest) =>
        match nat? nc with
        | some nc =>
          let cvs := (crest.take nc).filterMap (fun s => (int? s).map ofInt)
          if cvs.length != nc then "bad-op" else
          let inp : Input := ⟨era, pow == "1", cfgCRC, cfgNormal, ofInt reward, arbs, cvs⟩
          let ibc := floatIbc inp.reward (arbitersCount inp)
          let share := floatShare inp.reward (ofInt total)
          match distribute ibc share inp with
          | none => "err"
          | some (m, change) =>
            let aStr := String.join ((List.range arbs.length).zip arbs |>.map (fun (i, a) => " " ++ fmtGet m (arbKey era i a)))
            let kStr := String.join ((List.range nc).map (fun i => " " ++ fmtGet m (.cand i)))
            "ok " ++ toString (toInt change) ++ " " ++ toString m.length ++ " D=" ++ fmtGet m .destroy ++
              " C=" ++ fmtGet m .crc ++ " A" ++ aStr ++ " K" ++ kStr
        | none => "bad-op"
      | _ => "bad-op"
    | _, _, _, _, _, _ => "bad-op"
  | _ => "bad-op"

def main : IO Unit := runPure stepC27
