import Driver.Loop
import ElaVerif.Model.WireDriver
import ElaVerif.Model.P2PFrame
import ElaVerif.Gen.C02
import ElaVerif.Lemmas.WireTokens
/-
  C02 driver: the decoder ops of `Model/WireDriver.lean`, plus the message-level read path

    msg <stack> <magic> <hex stream> [alloc=<measured>]   →  <class> <consumed>

  `p2p.ReadMessage` with the stack's command switch and `CheckAndCreateMessage`, modelled by
  `P2PFrame.readMessage` (shared model of C35) over the per-command maxima regenerated into
  `Gen/C02.lean`.  class ∈ short-header | invalid-header | magic | unhandled | size | short-payload |
  checksum | body (the payload arrived and was handed to the message decoder).
  The allocation clause: the payload buffer is `declared length` bytes if the declared length is at
  most the command's maximum, nothing otherwise; the decoder may add `msgK` bytes per supplied byte.
-/
open ElaVerif.P2PFrame Driver

namespace C02Drv

def strBytes (s : String) : List UInt8 := s.toUTF8.toList

def stack? : String → Option (List (List UInt8 × Nat))
  | "elanet" => some (ElaVerif.Gen.C02.msgMax_elanet.map fun e => (strBytes e.1, e.2))
  | "dpos" => some (ElaVerif.Gen.C02.msgMax_dpos.map fun e => (strBytes e.1, e.2))
  | _ => none

def errStr : Err → String
  | .shortHeader => "short-header"
  | .invalidHeader => "invalid-header"
  | .unmatchedMagic => "magic"
  | .unhandled => "unhandled"
  | .sizeExceeded => "size"
  | .shortPayload => "short-payload"
  | .invalidPayload => "checksum"
  | .deserialize => "body"

/-- decoder allocation per supplied payload byte granted at message level -/
def msgK : Nat := 1100

def stepMsg (st magic hex : String) (extra : List String) : String :=
  match stack? st, nat? magic, ElaVerif.WireDriver.hexBytes? hex with
  | some t, some m, some s =>
    let o := readMessage ElaVerif.Sha256.sha256d t (fun _ p => some p) m s
    let cls := match o.res with | .ok _ => "body" | .error e => errStr e
    let out := s!"{cls} {o.consumed}"
    match ElaVerif.WireDriver.measured? extra with
    | some measured =>
      -- payload buffer (with allocator rounding) + decoder share + fixed overhead
      let meter := o.alloc + o.alloc / 4 + msgK * s.length + 65536
      if measured ≤ meter then out else out ++ s!" ALLOC {meter}"
    | none => out
  | _, _, _ => "bad-op"

/-- `dmsg <package.Type> <hex> …` → ok <consumed> <re-encoding> | err | unmodelled: the payload codec of a
    p2p / DPoS p2p message, decoded with the schema derived (`WireTokens.ofToks`) from the regenerated,
    fully inlined read-token stream of its `Deserialize` -/
def stepDmsg (name hex : String) (own : Bool) : String :=
  match ElaVerif.WireTokens.findStream ElaVerif.Gen.C02.msgStreams name, ElaVerif.WireDriver.hexBytes? hex with
  | some s, some bs =>
    let ty := ElaVerif.WireTokens.ofToks s.de
    if ElaVerif.WireTokens.hasFail ty then "unmodelled" else
    match (ElaVerif.Wire.decodeA ty bs).res with
    | some (v, rest) =>
      -- the re-encoding is compared only for bytes the real writer produced (some readers are not
      -- canonical: a vote's accept byte is read as "== 1")
      if own then s!"ok {bs.length - rest.length} {ElaVerif.WireDriver.toHex (ElaVerif.Wire.encode ty v)}"
      else s!"ok {bs.length - rest.length}"
    | none => "err"
  | _, _ => "bad-op"

def step : List String → String
  | ["dmsg", name, hex, "own"] => stepDmsg name hex true
  | "dmsg" :: name :: hex :: _ => stepDmsg name hex false
  | "msg" :: st :: magic :: hex :: extra => stepMsg st magic hex extra
  | t => ElaVerif.WireDriver.step t

end C02Drv

def main : IO Unit := Driver.runPure C02Drv.step
