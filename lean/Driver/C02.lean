import Driver.Loop
import ElaVerif.Model.WireDriver

def main : IO Unit := Driver.runPure ElaVerif.WireDriver.step
