import Driver.Loop
import ElaVerif.Model.Fee
open ElaVerif.Fixed64 ElaVerif.Fee Driver

/-- the revision of the Go code the driver is compared against (current tree) -/
def curRev : Rev := .fixed

/-- "<n> v1 … vn" at the head of a token list -/
def parseVec : List String → Option (List Fixed64 × List String)
  | [] => none
  | n :: rest =>
    match nat? n with
    | none => none
    | some n =>
      if rest.length < n then none else
      let vals := (rest.take n).map int?
      if vals.all Option.isSome then
        some (vals.filterMap (fun v => v.map ofInt), rest.drop n)
      else none

/-- "<m> id1 seq1 val1 … idm seqm valm": the inputs and the value of the previous output of each -/
def parseIns : List String → Option (List In × List Fixed64)
  | [] => none
  | m :: rest =>
    match nat? m with
    | none => none
    | some m =>
      let rec go : Nat → List String → Option (List In × List Fixed64)
        | 0, _ => some ([], [])
        | k + 1, id :: seq :: v :: tl =>
          match nat? id, nat? seq, int? v, go k tl with
          | some id, some seq, some v, some (is, vs) => some (⟨id, seq⟩ :: is, ofInt v :: vs)
          | _, _, _, _ => none
        | _, _ => none
      go m rest

def fmtSan : San → String
  | .ok => "ok" | .inn => "in" | .out => "out"

def fmtCtx : Ctx → String
  | .ok fee => "ok:" ++ toString (toInt fee)
  | .endd => "end"
  | .special => "special"
  | .balance => "balance"

def parseSpecial : String → Option Special
  | "ok" => some .ok | "alt" => some .alt | "rej" => some .rej | _ => none

/-- values of the eight outputs of the funding transaction of the `spend` stream -/
def fundVals : List Int := [100000000000, 1000000, 100000000000, 500000000, 1000000, 250000000000, 1, 100000000]

def fundVal (i : Nat) : Fixed64 := ofInt (fundVals.getD i 0)

/-- "<m> (idx seq)*" -/
def parsePairs : Nat → List String → Option (List In × List String)
  | 0, rest => some ([], rest)
  | k + 1, i :: q :: rest =>
    match nat? i, nat? q, parsePairs k rest with
    | some i, some q, some (is, r) => some (⟨i, q⟩ :: is, r)
    | _, _, _ => none
  | _, _ => none

/-- one transaction of a `spend` op: TransferAsset at height 2 of the regnet chain, references =
    the outputs of the funding transaction the inputs name -/
def spendOne (ins : List In) (outs : List Fixed64) : String :=
  let env : Env := { minFee := ofInt 100, afterNFT := false, multiExchange := false, rectifyFee := ofInt 10000 }
  let refs := refsOf fundVal ins
  let san := sanity curRev .plainOut env ins outs
  let ctx := context .plainOut env .ok outs refs
  let pool := if san != .ok then fmtSan san else
    match ctx with
    | .ok _ => "ok"
    | c => fmtCtx c
  fmtSan san ++ " " ++ fmtCtx ctx ++ " " ++ pool

def spendAll : Nat → List String → Option (List String)
  | 0, _ => some []
  | k + 1, m :: rest =>
    match nat? m with
    | some m =>
      match parsePairs m rest with
      | some (ins, rest2) =>
        match parseVec rest2 with
        | some (outs, rest3) =>
          match spendAll k rest3 with
          | some more => some (spendOne ins outs :: more)
          | none => none
        | none => none
      | none => none
    | none => none
  | _, _ => none

def stepC01 : List String → String
  | "spend" :: ntx :: rest =>
    match nat? ntx with
    | some ntx =>
      match spendAll ntx rest with
      | some parts => " ; ".intercalate parts
      | none => "bad-op"
    | none => "bad-op"
  | "fee" :: rest =>
    match parseVec rest with
    | some (outs, rest) =>
      match parseIns rest with
      | some (_, refs) =>
        let f := toString (toInt (txFee outs refs))
        f ++ " " ++ f
      | none => "bad-op"
    | none => "bad-op"
  | "orph" :: _order :: rest =>
    -- an empty parent and a child with at most one transfer, through ProcessBlock: the best chain
    -- grows by two blocks iff the child's transaction is acceptable (or there is none) — whatever
    -- the order of delivery
    match rest with
    | m :: rest' =>
      match nat? m with
      | some m =>
        match parsePairs m rest' with
        | some (ins, rest2) =>
          match parseVec rest2 with
          | some (outs, _) =>
            if m == 0 then "adv=2" else
            let env : Env := { minFee := ofInt 100, afterNFT := false, multiExchange := false, rectifyFee := ofInt 10000 }
            if accepts curRev .plainOut env .ok fundVal ins outs then "adv=2" else "adv=1"
          | none => "bad-op"
        | none => "bad-op"
      | none => "bad-op"
    | _ => "bad-op"
  | "flowx" :: kind :: flags :: minFee :: sp :: rest =>
    -- as `flow`, the last output being denominated in another asset than ELA
    match nat? kind, int? minFee, parseSpecial sp, parseVec rest with
    | some kind, some minFee, some sp, some (outs, rest) =>
      match parseIns rest, classOf kind with
      | some (ins, refs), some c =>
        let env : Env := { minFee := ofInt minFee, afterNFT := flags.contains 'a',
                           multiExchange := flags.contains 'm', rectifyFee := ofInt 10000 }
        let san0 := sanity curRev c env ins outs
        let san := if san0 == .inn then San.inn
                   else if requiresELA c env ins.length && !outs.isEmpty then San.out else san0
        if c == .coinbase then fmtSan san ++ " -"
        else if san != .ok then fmtSan san ++ " -"
        else fmtSan san ++ " " ++ fmtCtx (context c env sp outs refs)
      | _, _ => "bad-op"
    | _, _, _, _ => "bad-op"
  | "flow" :: kind :: flags :: minFee :: sp :: rest =>
    match nat? kind, int? minFee, parseSpecial sp, parseVec rest with
    | some kind, some minFee, some sp, some (outs, rest) =>
      match parseIns rest, classOf kind with
      | some (ins, refs), some c =>
        let env : Env := { minFee := ofInt minFee, afterNFT := flags.contains 'a',
                           multiExchange := flags.contains 'm', rectifyFee := ofInt 10000 }
        let san := sanity curRev c env ins outs
        if c == .coinbase then fmtSan san ++ " -"
        else if san != .ok then fmtSan san ++ " -"
        else fmtSan san ++ " " ++ fmtCtx (context c env sp outs refs)
      | _, _ => "bad-op"
    | _, _, _, _ => "bad-op"
  | "e2e" :: _mode :: rest =>
    match parseVec rest with
    | some (outs, r :: tail) =>
      match int? r with
      | some r =>
        -- the genesis output referenced once per listed Sequence
        let seqs : List Nat := match tail with
          | [] => [0]
          | _ :: ss => ss.filterMap nat?
        let ins : List In := seqs.map (fun q => ⟨0, q⟩)
        let refs := ins.map (fun _ => ofInt r)
        let env : Env := { minFee := ofInt 100, afterNFT := true, multiExchange := false, rectifyFee := ofInt 10000 }
        let san := sanity curRev .plainOut env ins outs
        let ctx := context .plainOut env .ok outs refs
        let pool := if san != .ok then fmtSan san else
          match ctx with
          | .ok _ => "ok"
          | c => fmtCtx c
        fmtSan san ++ " " ++ fmtCtx ctx ++ " " ++ pool
      | none => "bad-op"
    | _ => "bad-op"
  | "actcr" :: "1" :: rest =>
    match parseVec rest with
    | some (outs, tail) =>
      let ins : List In := if tail == ["noinput"] then [] else [⟨0, 0⟩]
      let refs : List Fixed64 := ins.map (fun _ => ofInt 3300000000000000)
      let env : Env := { minFee := ofInt 100, afterNFT := true, multiExchange := false, rectifyFee := ofInt 10000 }
      let san := sanity curRev .activate env ins outs
      let ctx := context .activate env .alt outs refs
      let c := if ctx.accepted then "ok" else fmtCtx ctx
      let pool := if san != .ok then fmtSan san else c
      fmtSan san ++ " " ++ c ++ " " ++ pool
    | none => "bad-op"
  | _ => "bad-op"

def main : IO Unit := runPure stepC01
