import Driver.Loop
import ElaVerif.Model.Fee
open ElaVerif.Fixed64 ElaVerif.Fee Driver

/-- the revision of the Go code the driver is compared against (current tree) -/
def curRev : Rev := .fixed

/-- "<n> v1 … vn" at the head of a token list -/
def parseVec : List String → Option (List Fixed64 × List String)
  | [] => none
  | n :: rest =>
    match nat? n with
    | none => none
    | some n =>
      if rest.length < n then none else
      let vals := (rest.take n).map int?
      if vals.all Option.isSome then
        some (vals.filterMap (fun v => v.map ofInt), rest.drop n)
      else none

def fmtSan : San → String
  | .ok => "ok" | .inn => "in" | .out => "out"

def fmtCtx : Ctx → String
  | .ok fee => "ok:" ++ toString (toInt fee)
  | .endd => "end"
  | .special => "special"
  | .balance => "balance"

def parseSpecial : String → Option Special
  | "ok" => some .ok | "alt" => some .alt | "rej" => some .rej | _ => none

def stepC01 : List String → String
  | "fee" :: rest =>
    match parseVec rest with
    | some (outs, rest) =>
      match parseVec rest with
      | some (refs, _) =>
        let f := toString (toInt (txFee outs refs))
        f ++ " " ++ f
      | none => "bad-op"
    | none => "bad-op"
  | "flow" :: kind :: flags :: minFee :: sp :: rest =>
    match nat? kind, int? minFee, parseSpecial sp, parseVec rest with
    | some kind, some minFee, some sp, some (outs, rest) =>
      match parseVec rest, classOf kind with
      | some (refs, _), some c =>
        let env : Env := { minFee := ofInt minFee, afterNFT := flags.contains 'a',
                           multiExchange := flags.contains 'm', rectifyFee := ofInt 10000 }
        let san := sanity curRev c env refs.length outs
        if c == .coinbase then fmtSan san ++ " -"
        else if san != .ok then fmtSan san ++ " -"
        else fmtSan san ++ " " ++ fmtCtx (context c env sp outs refs)
      | _, _ => "bad-op"
    | _, _, _, _ => "bad-op"
  | "e2e" :: _mode :: rest =>
    match parseVec rest with
    | some (outs, [r]) =>
      match int? r with
      | some r =>
        let refs := [ofInt r]
        let env : Env := { minFee := ofInt 100, afterNFT := true, multiExchange := false, rectifyFee := ofInt 10000 }
        let san := sanity curRev .plainOut env 1 outs
        let ctx := context .plainOut env .ok outs refs
        let pool := if san != .ok then fmtSan san else
          match ctx with
          | .ok _ => "ok"
          | c => fmtCtx c
        fmtSan san ++ " " ++ fmtCtx ctx ++ " " ++ pool
      | none => "bad-op"
    | _ => "bad-op"
  | "actcr" :: "1" :: rest =>
    match parseVec rest with
    | some (outs, tail) =>
      let refs : List Fixed64 := if tail == ["noinput"] then [] else [ofInt 3300000000000000]
      let env : Env := { minFee := ofInt 100, afterNFT := true, multiExchange := false, rectifyFee := ofInt 10000 }
      let san := sanity curRev .activate env refs.length outs
      let ctx := context .activate env .alt outs refs
      let c := if ctx.accepted then "ok" else fmtCtx ctx
      let pool := if san != .ok then fmtSan san else c
      fmtSan san ++ " " ++ c ++ " " ++ pool
    | none => "bad-op"
  | _ => "bad-op"

def main : IO Unit := runPure stepC01
