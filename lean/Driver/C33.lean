import Driver.Loop
import ElaVerif.Model.Withdraw
open ElaVerif.Withdraw Driver

def csvW (s : String) (sep : String := ",") : List String := if s = "-" then [] else s.splitOn sep
def natsW? (s : String) : Option (List Nat) := (csvW s).mapM nat?

def parseArbs (s : String) : Option (List Arb) :=
  (csvW s).mapM fun a => match a.splitOn ":" with
    | [k, n] => do some ⟨← nat? k, (← nat? n) == 1⟩
    | _ => none

/-- `M:<parseok>:<m>:<n>:<k1+k2+…>` | `S:<key>` | `X` -/
def parseProg (s : String) : Option Prog :=
  match s.splitOn ":" with
  | ["M", ok, m, n, keys] => do
      some ⟨(← nat? ok) == 1, ← int? m, ← int? n, ← (csvW keys "+").mapM nat?, false, 0⟩
  | ["S", k] => do some ⟨false, 0, 0, [], true, ← nat? k⟩
  | ["X"] => some ⟨false, 0, 0, [], false, 0⟩
  | _ => none

def field? (toks : List String) (name : String) : Option String :=
  toks.findSome? fun t => if t.startsWith (name ++ "=") then some (String.ofList (t.toList.drop (name.length + 1))) else none

def parseTx (toks : List String) : Option Tx := do
  let pver ← (← field? toks "pver").toNat?
  let ph ← natsW? (← field? toks "ph")
  let oh ← natsW? (← field? toks "oh")
  let sg ← natsW? (← field? toks "sg")
  let refs ← natsW? (← field? toks "refs")
  let progs ← (csvW (← field? toks "progs") ";").mapM parseProg
  some ⟨pver, ph, oh, sg, refs.map (· == 1), progs⟩

def fmtErr : Err → String
  | .onlySchnorr => "only-schnorr" | .dupHash => "dup-hash" | .inputs => "inputs" | .script => "script"
  | .total => "total" | .sign => "sign" | .multisig => "multisig" | .arbiters => "arbiters" | .count => "count"
  | .signersCount => "signers-count" | .signerIndex => "signer-index" | .dupSigner => "dup-signer"
  | .badKey => "bad-key" | .mismatch => "mismatch" | .notSchnorr => "not-schnorr"

/-- `v<pver>:<h1+h2+…>` — hashes go to the payload for version 0, to withdraw outputs otherwise -/
def parseFlowTx (s : String) : Option Tx :=
  match s.splitOn ":" with
  | [v, hs] => do
      let pver ← (String.ofList (v.toList.drop 1)).toNat?
      let hs ← (csvW hs "+").mapM nat?
      some (if pver = 0 then ⟨0, hs, [], [], [true], []⟩ else ⟨pver, [], hs, [], [true], []⟩)
  | _ => none

def parseFlow (toks : List String) : Option (List HStep) :=
  let groups := (" ".intercalate toks).splitOn " / "
  groups.mapM fun g => match g.splitOn " " with
    | "S" :: txs => do some (.save (← txs.mapM parseFlowTx))
    | ["R"] => some .rollback
    | _ => none

/-- fixed, otherwise valid single-hash withdrawals used to probe the index after a history -/
def probeCfg : Cfg := ⟨100, 10, 20, 30, 2, 2, 2⟩
def probeV1 (wd : List Nat) (x : Nat) : Bool :=
  specialCheck probeCfg ⟨[⟨5, true⟩, ⟨7, true⟩], [], [⟨5, true⟩, ⟨7, true⟩], 2, 1, wd⟩ 25
    ⟨1, [], [x], [], [true], [⟨true, 3, 2, [7, 5], false, 0⟩]⟩ == some .dupHash
def probeV0 (wd : List Nat) (x : Nat) : Bool :=
  specialCheck probeCfg ⟨[], [], [⟨5, true⟩, ⟨7, true⟩], 2, 1, wd⟩ 5
    ⟨0, [x], [], [], [true], [⟨true, 2, 2, [7, 5], false, 0⟩]⟩ == some .dupHash

def fmtSet (f : Nat → Bool) : String :=
  let xs := (List.range 9).filter (fun x => x ≥ 1 && f x)
  if xs.isEmpty then "-" else ",".intercalate (xs.map toString)

def stepC33 (toks : List String) : String :=
  match toks with
  | "mp" :: txs => match txs.mapM parseFlowTx with
    | some txs =>
      -- distinct transactions: the same hash list may occur twice (different nonces)
      let run := txs.foldl (fun (acc : (List Nat × List Tx) × List String) t =>
        let st := poolAdd acc.1 t
        (st, acc.2 ++ [if st.2.length = acc.1.2.length then "0" else "1"])) (([], []), [])
      s!"acc={",".intercalate run.2} dup={fmtSet (run.1.1.contains ·)}"
    | none => "bad-op"
  | ["maj", _, count] => match nat? count with
    | some c => s!"count={c} maj={realMajority c}"
    | none => "bad-op"
  | "sig" :: rest =>
    match field? rest "m" >>= String.toNat?, field? rest "n" >>= String.toNat?, field? rest "keys" >>= natsW?, field? rest "sigs" with
    | some m, some n, some keys, some sg =>
      -- <key>, <key>t (twin), <key>f (second signature) all verify under <key>; x under no key
      let sigs := (csvW sg).map fun tok =>
        if tok = "x" then none else (String.ofList (tok.toList.filter Char.isDigit)).toNat?
      if (verifyMultisig m n keys sigs).isSome then "ok" else "rej"
    | _, _, _, _ => "bad-op"
  | "wflow" :: rest => match parseFlow rest with
    | some steps =>
      let wd := (runHist ([], []) steps).1
      s!"dup={fmtSet (wd.contains ·)} v1={fmtSet (probeV1 wd)} v0={fmtSet (probeV0 wd)}"
    | none => "bad-op"
  | "chk" :: height :: rest =>
    match nat? height, field? rest "cfg" >>= natsW?, field? rest "arbs" >>= parseArbs, field? rest "crc" >>= parseArbs,
          field? rest "cross" >>= parseArbs, field? rest "cc" >>= String.toNat?, field? rest "maj" >>= String.toNat?,
          field? rest "wd" >>= natsW?, parseTx rest with
    | some h, some [a, b, c, d, e, f, g], some arbs, some crc, some cross, some cc, some maj, some wd, some t =>
      match specialCheck ⟨a, b, c, d, e, f, g⟩ ⟨arbs, crc, cross, cc, maj, wd⟩ h t with
      | none => "ok"
      | some e => "err " ++ fmtErr e
    | _, _, _, _, _, _, _, _, _ => "bad-op"
  | "pay" :: rest => match parseTx rest with
    | some t => if payloadCheck t then "ok" else "err dup"
    | none => "bad-op"
  | "blk" :: rest =>
    -- blk <tx> | <tx> | …   (each tx: pver= ph= oh= sg= refs= progs=)
    let groups := (" ".intercalate rest).splitOn " | "
    match groups.mapM (fun g => parseTx (g.splitOn " ")) with
    | some txs => if blockCheck txs then "ok" else "err dup"
    | none => "bad-op"
  | _ => "bad-op"

def main : IO Unit := Driver.runPure stepC33
