import Driver.Loop
import ElaVerif.Model.PolicyCtx
import ElaVerif.Model.Frozen
import ElaVerif.Model.CCPolicy
open ElaVerif.Frozen Driver

def fmtV : Verdict → String
  | .ok => "ok"
  | .spend i => s!"err spend {i}"
  | .receive i => s!"err receive {i}"

def letters (s : String) : List Nat := if s = "-" then [] else s.toList.map Char.toNat

/-- `L:start` with `L` a letter (hash id) or `n` (unresolved entry) -/
def entry? (s : String) : Option Entry :=
  match s.splitOn ":" with
  | [l, st] => match l.toList, nat? st with
    | [c], some st => some ⟨if c = 'n' then none else some c.toNat, st⟩
    | _, _ => none
  | _ => none

def entries? (s : String) : Option (List Entry) :=
  if s = "-" then some [] else (s.splitOn ",").mapM entry?

/-- strings are turned into numbers injectively (base 2^21 digits, each +1) -/
def strId (s : String) : Nat := s.toList.foldl (fun a c => a * 2097152 + c.toNat + 1) 0

structure CfgTok where
  addr : String
  start : Nat
  hash : String

def cfgTok? (s : String) : Option CfgTok :=
  match s.splitOn ":" with
  | [a, st, h] => (nat? st).map (fun st => ⟨a, st, h⟩)
  | _ => none

def exploitAddr : String := "EfduuvdDcAgif8njgXNJUfsBumQf9yYP72"
def exploitHash : String := "21f69ec3b64fbeb6f690d3c8e2798b802f0ce5e26e"

def runes? (s : String) : Option (List Nat) :=
  if s = "-" then some [] else (s.splitOn ",").mapM nat?

def ctxEntry? (s : String) : Option ElaVerif.Frozen.Entry :=
  match s.splitOn ":" with
  | [l, st] => match l.toList, Driver.nat? st with
    | [c], some st => some ⟨if c = 'n' then none else some c.toNat, st⟩
    | _, _ => none
  | _ => none

def ctxLetters (s : String) : List Nat := if s = "-" then [] else s.toList.map Char.toNat

def fmtCtx : ElaVerif.PolicyCtx.Res → String
  | .passed => "passed"
  | .cc .ok => "passed"
  | .cc .frozen => "cc frozen"
  | .cc .badWithdrawVer => "cc wver"
  | .cc .notBridgeTx => "cc nottype"
  | .cc .notLegacyReturn => "cc notlegacy"
  | .cc .mixedReturn => "cc mixed"
  | .fz .ok => "passed"
  | .fz (.spend i) => s!"fz spend {i}"
  | .fz (.receive i) => s!"fz receive {i}"

def stepCtx : List String → Option String
  | [op, ty, ver, h, f, r, es, ins, outs] =>
      if op ≠ "ctx" ∧ op ≠ "ctxpow" then none else
      match Driver.nat? ty, Driver.nat? ver, Driver.nat? h, Driver.nat? f, Driver.nat? r,
            (if es = "-" then some [] else (es.splitOn ",").mapM ctxEntry?) with
      | some ty, some ver, some h, some f, some r, some es =>
          some (fmtCtx (ElaVerif.PolicyCtx.contextPolicies ty ver h f r es (ctxLetters ins) (ctxLetters outs)))
      | _, _, _, _, _, _ => some "bad-op"
  | ["e2e", path, h, f, r, es, ins, outs] =>
      -- the node's real paths (mempool admission, block validation, RPC): a signed TransferAsset (in = A) or an
      -- unsigned spend of a cross-chain output (in = X); block validation only says "rejected"
      match Driver.nat? h, Driver.nat? f, Driver.nat? r,
            (if es = "-" then some [] else (es.splitOn ",").mapM ctxEntry?) with
      | some h, some f, some r, some es =>
          let res := ElaVerif.PolicyCtx.contextPolicies 2 0 h f r es (ctxLetters ins) (ctxLetters outs)
          if path = "block" ∨ path = "seen" ∨ path = "reorg" then
            some (if res = .passed then "passed" else "rejected")
          else some (fmtCtx res)
      | _, _, _, _ => some "bad-op"
  | _ => none

def stepC32 : List String → String
  | ["chk", h, es, ins, outs] =>
      match nat? h, entries? es with
      | some h, some es => fmtV (frozenCheck es (letters ins) (letters outs) h)
      | _, _ => "bad-op"
  | ["cfg", name, file] =>
      match runes? name, (if file = "-" then some none else ((file.splitOn ",").mapM cfgTok?).map some) with
      | some name, some toks =>
          let low := ElaVerif.CCPolicy.goLower name
          let isMain := ElaVerif.CCPolicy.isMainnetName name
          let isTR := ElaVerif.CCPolicy.testnetNames.contains low || ElaVerif.CCPolicy.regnetNames.contains low
          let all : List CfgTok := ⟨exploitAddr, 2256110, exploitHash⟩ :: (toks.getD [])
          let fileE := toks.map (·.map (fun t => (⟨strId t.addr, t.start, if t.hash = "nil" then none else some (strId t.hash)⟩ : CfgEntry)))
          let res := setupFrozen isMain isTR (strId exploitAddr) (strId exploitHash) fileE
          let show1 (c : CfgEntry) : String :=
            let a := ((all.find? (fun (t : CfgTok) => strId t.addr = c.addr)).map (fun (t : CfgTok) => t.addr)).getD "?"
            let h := match c.hash with
              | none => "nil"
              | some x => ((all.find? (fun (t : CfgTok) => strId t.hash = x)).map (fun (t : CfgTok) => t.hash)).getD "?"
            s!"{a}:{c.start}:{h}"
          if res.isEmpty then "empty" else ",".intercalate (res.map show1)
      | _, _ => "bad-op"
  | _ => "bad-op"

def main : IO Unit := runPure (fun t => (stepCtx t).getD (stepC32 t))
