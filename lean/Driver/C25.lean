import Driver.Loop
import ElaVerif.Model.Confirm
open ElaVerif.Confirm Driver

def fmtSanity : Option SanityErr → String
  | none => "ok"
  | some .badProposal => "bad-proposal"
  | some .rejectVote => "reject-vote"
  | some .wrongHash => "wrong-hash"
  | some .badVoteSig => "bad-vote"

def fmtContext : Option ContextErr → String
  | none => "ok"
  | some .noMajority => "no-majority"
  | some .sponsorNotArbiter => "sponsor-not-arbiter"
  | some .signerNotArbiter => "signer-not-arbiter"

def flag? (s : String) : Option Bool := if s = "1" then some true else if s = "0" then some false else none

def parseList {α : Type} (f : List String → Option α) (s : String) : Option (List α) :=
  if s = "-" then some [] else
  (s.splitOn ",").foldr (fun x acc => match f (x.splitOn ":"), acc with
    | some v, some l => some (v :: l)
    | _, _ => none) (some [])

def parseVote : List String → Option Vote
  | [s, a, h, g] => match nat? s, flag? a, flag? h, flag? g with
    | some s, some a, some h, some g => some ⟨s, a, h, g⟩
    | _, _, _, _ => none
  | _ => none

/-- arbiter kinds of the harness: o origin, p elected producer (DPoS arbiter member type),
    c / C CRC arbiter (C: claimed DPoS node key),
    d / D the same but deposed (`isNormal = false`). -/
def kind? (s : String) : Option Bool :=
  if s = "o" || s = "c" || s = "C" || s = "p" then some true
  else if s = "d" || s = "D" then some false else none

def parseArb : List String → Option Arb
  | [k, n] => match nat? k, kind? n with
    | some k, some n => some ⟨k, n⟩
    | _, _ => none
  | _ => none

def parseConfs : List String → Option (List Conf)
  | [] => some []
  | sp :: ss :: vs :: rest =>
    match nat? sp, flag? ss, parseList parseVote vs, parseConfs rest with
    | some sp, some ss, some vs, some l => some (⟨sp, ss, vs⟩ :: l)
    | _, _, _, _ => none
  | _ => none

def fmtPoolStep (x : Option SanityErr × Option Nat) : String :=
  (match x.1 with | none => "no-block" | e => fmtSanity e) ++ ":" ++
  (match x.2 with | none => "-" | some i => toString i)

/-- chain steps: `b`, `B/<sponsor>/<ssig>/<votes>`, `c/<sponsor>/<ssig>/<votes>`. -/
def parseCStep (x : String) : Option CStep :=
  if x = "b" then some .blk else
  match x.splitOn "/" with
  | [k, sp, ss, vs] =>
    match nat? sp, flag? ss, parseList parseVote vs with
    | some sp, some ss, some vs =>
      if k = "B" then some (.blkConf ⟨sp, ss, vs⟩) else if k = "c" then some (.conf ⟨sp, ss, vs⟩) else none
    | _, _, _ => none
  | _ => none

def parseCSteps (xs : List String) : Option (List CStep) :=
  xs.foldr (fun x acc => match parseCStep x, acc with
    | some v, some l => some (v :: l)
    | _, _ => none) (some [])

def fmtPC (st : PCState) : String :=
  (if st.connected then "1" else "0") ++ ":" ++ (match st.cached with | some (i, _) => toString i | none => "-")

/-- the `chain` op runs on a node with five normal origin arbiters, keys 0..4. -/
def chainArbs : List Arb := [⟨0, true⟩, ⟨1, true⟩, ⟨2, true⟩, ⟨3, true⟩, ⟨4, true⟩]

def fmtDispI (x : Option (Bool × Bool) × Nat) : String :=
  (match x.1 with
   | some (a, b) => (if a then "1" else "0") ++ (if b then "1" else "0")
   | none => "-") ++ ":" ++ toString x.2

/-- dispatcher items: a vote `s:a:h:g`, or `v` (view change) / `h` (height finished). -/
def parseDItems (s : String) : Option (List DItem) :=
  (s.splitOn ",").foldr (fun x acc => match acc with
    | none => none
    | some l =>
      if x = "v" || x = "h" then some (.clean :: l)
      else match parseVote (x.splitOn ":") with
        | some v => some (.vote v :: l)
        | none => none) (some [])

def stepC25 : List String → String
  | ["disp", arbs, votes, via] =>
      match parseList parseArb arbs, parseDItems votes with
      | some arbs, some xs =>
        if xs.isEmpty || !(via = "n" || via = "o" || via = "d") then "bad-op"
        else " ".intercalate ((dispRunI (via != "d") arbs [] xs).map fmtDispI)
      | _, _ => "bad-op"
  | ["disp", arbs, votes] =>
      match parseList parseArb arbs, parseDItems votes with
      | some arbs, some xs => if xs.isEmpty then "bad-op" else " ".intercalate ((dispRunI false arbs [] xs).map fmtDispI)
      | _, _ => "bad-op"
  | "chain" :: era :: steps =>
      match parseCSteps steps with
      | some steps =>
        if era = "d" || era = "p" then
          " ".intercalate ((chainRun (era = "d") chainArbs ⟨false, none, false⟩ 0 steps).map fmtPC)
        else "bad-op"
      | none => "bad-op"
  | ["maj", n, k] => match nat? n, nat? k with
      | some n, some k => s!"{majority n} {if hasMajority n k then 1 else 0}"
      | _, _ => "bad-op"
  | "pool" :: rest => match parseConfs rest with
      | some cs => if cs.isEmpty then "bad-op" else " ".intercalate ((poolRun none 0 cs).map fmtPoolStep)
      | none => "bad-op"
  -- the list of keys the node knows without them being current arbiters must not matter
  | ["confirm", arbs, _known, sponsor, ssig, votes] =>
      match parseList parseArb arbs, nat? sponsor, flag? ssig, parseList parseVote votes with
      | some arbs, some sp, some ss, some vs =>
        let c : Conf := ⟨sp, ss, vs⟩
        s!"{fmtSanity (sanity c)} {fmtContext (context arbs c)}"
      | _, _, _, _ => "bad-op"
  | _ => "bad-op"

def main : IO Unit := runPure stepC25
