import Driver.Loop
import Driver.RunProgramsOp
import Driver.TxSigOp
import ElaVerif.Model.WalletCodec
/-
  Line-protocol driver for C37: amount and address codecs (fixed code), the wallet's
  multisig script construction, and RunPrograms on wallet-signed transactions.
-/
open Driver ElaVerif.Script ElaVerif.WalletCodec

def asciiOf (b : List UInt8) : List Char := b.map (fun x => Char.ofNat x.toNat)

def fmtAddrErr : AddrErr → String
  | .len => "len" | .char => "char" | .short => "verify" | .verify => "verify"

def dummyKey (i : Nat) : Bytes := List.replicate 33 (UInt8.ofNat i)

def stepC37 : List String → String
  | ["amt", v] => match int? v with
      | some f =>
        let s := amountToString f
        (match stringToAmount true s with
          | some b => String.ofList s ++ " ok " ++ toString b
          | none => String.ofList s ++ " err")
      | none => "bad-op"
  | ["parse", h] => match hexBytes? h with
      | some b => (match stringToAmount true (asciiOf b) with
          | some v => "ok " ++ toString v
          | none => "err")
      | none => "bad-op"
  | ["addr", u, c] => match hexBytes? u, hexBytes? c with
      | some u, some c =>
        let a := toAddress (fun _ => c) u
        (match fromAddress true (fun _ => c) a with
          | .val (.ok b) => String.ofList a ++ " ok " ++ toHex b
          | .val (.error e) => String.ofList a ++ " err " ++ fmtAddrErr e
          | .panic => "panic")
      | _, _ => "bad-op"
  | ["fromaddr", s, c] => match hexBytes? s, (if c = "-" then some [] else hexBytes? c) with
      | some s, some c => (match fromAddress true (fun _ => c) (asciiOf s) with
          | .val (.ok b) => "ok " ++ toHex b
          | .val (.error e) => "err " ++ fmtAddrErr e
          | .panic => "panic")
      | _, _ => "bad-op"
  | ["wcan", m, n] => match nat? m, nat? n with
      | some m, some n => (match multiSigCode m ((List.range n).map dummyKey) with
          | none => "no-account"
          | some [] => "no-script"
          | some code => (match ElaVerif.RunPrograms.parseScript ElaVerif.RunPrograms.MULTISIG code with
              | .val (.ok _) => "can-sign " ++ toString code.length
              | .val (.error _) => "cannot-sign " ++ toString code.length
              | .panic => "panic"))
      | _, _ => "bad-op"
  | ["wks", priv, _lock] => match hexBytes? priv with
      | some k => if k.length ≤ 32 then toHex (storeKey false k) ++ " ok" else "bad-op"
      | none => "bad-op"
  | "wtx" :: ts => Driver.TxSigOp.evalTxsig ts
  | "wrun" :: ts => Driver.RunOp.evalRun .all ts
  | "wtamper" :: ts => Driver.RunOp.evalRun .all ts
  | _ => "bad-op"

def main : IO Unit := runPure stepC37
