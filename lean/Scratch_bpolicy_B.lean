set_option profiler true
set_option profiler.threshold 100
def loopA : Nat → Nat → Bool
  | 0, _ => true
  | n+1, acc => Nat.ble acc 100000 && loopA n (acc + 1)
theorem a : loopA 20000 0 = true := by decide +kernel
def allUpTo (p : Nat → Bool) : Nat → Bool
  | 0 => true
  | n+1 => p n && allUpTo p n
theorem b : allUpTo (fun i => Nat.ble i 30000) 20000 = true := by decide +kernel
theorem c : (List.range 2000).all (fun i => Nat.ble i 30000) = true := by decide +kernel
theorem d : (List.range 4000).all (fun i => Nat.ble i 30000) = true := by decide +kernel
