// Package wiretok flattens the bodies of Go Serialize / Deserialize methods into
// token streams (one token per primitive read or write, loops, guards on the
// `version` argument, calls into other types' methods) and prints them as Lean
// values of type `ElaVerif.WireTokens.Tok`.  It is purely syntactic (go/ast) plus
// a small field-type resolver over the struct declarations of the parsed
// packages; it never judges anything — the comparison with the schema's token
// sequence is a Lean lemma.
package wiretok

import (
	"fmt"
	"go/ast"
	"go/token"
	"regexp"
	"sort"
	"strconv"
	"strings"

	"elaverif/extract/ex"
)

// ---------------------------------------------------------------- packages

type Pkg struct {
	Dir     string
	Name    string
	Files   []*ex.File
	Structs map[string]*ast.StructType
	Named   map[string]ast.Expr // type X <expr> (non-struct)
	Consts  map[string]string   // const name -> literal / expression source
	Funcs   map[string]*ast.FuncDecl
	FileOf  map[string]*ex.File
	Imports map[string]string // local import name -> package dir (repo relative), per package (merged)
}

var pkgs = map[string]*Pkg{}

var iotaRe = regexp.MustCompile(`\biota\b`)

const modPrefix = "github.com/elastos/Elastos.ELA/"

func Load(dir string) *Pkg {
	if p, ok := pkgs[dir]; ok {
		return p
	}
	p := &Pkg{Dir: dir, Structs: map[string]*ast.StructType{}, Named: map[string]ast.Expr{}, Consts: map[string]string{},
		Funcs: map[string]*ast.FuncDecl{}, FileOf: map[string]*ex.File{}, Imports: map[string]string{}}
	pkgs[dir] = p
	p.Files = ex.ParseDir(dir)
	for _, f := range p.Files {
		p.Name = f.AST.Name.Name
		for _, im := range f.AST.Imports {
			path := strings.Trim(im.Path.Value, "\"")
			if !strings.HasPrefix(path, modPrefix) {
				continue
			}
			rel := strings.TrimPrefix(path, modPrefix)
			name := rel[strings.LastIndex(rel, "/")+1:]
			if im.Name != nil {
				name = im.Name.Name
			}
			p.Imports[name] = rel
		}
		for _, d := range f.AST.Decls {
			switch x := d.(type) {
			case *ast.FuncDecl:
				k := x.Name.Name
				if r := ex.RecvName(x); r != "" {
					k = r + "." + k
				}
				p.Funcs[k] = x
				p.FileOf[k] = f
			case *ast.GenDecl:
				var lastVal ast.Expr
				for specIdx, s := range x.Specs {
					switch sp := s.(type) {
					case *ast.TypeSpec:
						if st, ok := sp.Type.(*ast.StructType); ok {
							p.Structs[sp.Name.Name] = st
						} else {
							p.Named[sp.Name.Name] = sp.Type
						}
					case *ast.ValueSpec:
						// package-level variables with a literal initialiser (pact.MaxBlockContextSize …)
						// are taken at their initial value
						if x.Tok != token.CONST && x.Tok != token.VAR {
							continue
						}
						for i, n := range sp.Names {
							var v ast.Expr
							if i < len(sp.Values) {
								v = sp.Values[i]
								lastVal = v
							} else {
								v = lastVal
							}
							if v != nil {
								p.Consts[n.Name] = iotaRe.ReplaceAllString(f.Src(v), fmt.Sprint(specIdx))
							}
						}
					}
				}
			}
		}
	}
	return p
}

// ConstInt evaluates a constant given by name (possibly pkg-qualified) to an
// integer when its definition is a literal, a conversion of a literal, or a
// product/sum of literals; ok=false otherwise.
func (p *Pkg) ConstInt(src string) (int64, bool) {
	src = strings.TrimSpace(src)
	if v, err := strconv.ParseInt(src, 0, 64); err == nil {
		return v, true
	}
	// T(x)
	if i := strings.Index(src, "("); i > 0 && strings.HasSuffix(src, ")") && isIdent(src[:i]) {
		return p.ConstInt(src[i+1 : len(src)-1])
	}
	for _, op := range []string{"+", "*"} {
		if parts := strings.Split(src, op); len(parts) > 1 {
			acc := int64(0)
			if op == "*" {
				acc = 1
			}
			ok := true
			for _, q := range parts {
				v, k := p.ConstInt(q)
				if !k {
					ok = false
					break
				}
				if op == "*" {
					acc *= v
				} else {
					acc += v
				}
			}
			if ok {
				return acc, true
			}
		}
	}
	if i := strings.Index(src, "."); i > 0 && isIdent(src[:i]) && isIdent(src[i+1:]) {
		if dir, ok := p.Imports[src[:i]]; ok {
			return Load(dir).ConstInt(src[i+1:])
		}
		return 0, false
	}
	if isIdent(src) {
		if d, ok := p.Consts[src]; ok && d != src {
			return p.ConstInt(d)
		}
	}
	return 0, false
}

func isIdent(s string) bool {
	if s == "" {
		return false
	}
	for i, c := range s {
		if !(c == '_' || c >= 'a' && c <= 'z' || c >= 'A' && c <= 'Z' || (i > 0 && c >= '0' && c <= '9')) {
			return false
		}
	}
	return true
}

// ---------------------------------------------------------------- types

// a type is written as a string: "uint32", "[]T", "*T", "[32]byte", "pkgdir:T" for a named type of a package
type env map[string]string

func (p *Pkg) qual(name string) string { return p.Dir + ":" + name }

func (p *Pkg) typeExpr(e ast.Expr) string {
	switch x := e.(type) {
	case *ast.Ident:
		switch x.Name {
		case "byte", "uint8", "uint16", "uint32", "uint64", "int32", "int64", "int", "bool", "string":
			return x.Name
		}
		if _, ok := p.Structs[x.Name]; !ok {
			if _, ok := p.Named[x.Name]; !ok && p.Dir != "common" {
				// dot-imported common package
				c := Load("common")
				if _, ok := c.Named[x.Name]; ok {
					return c.qual(x.Name)
				}
				if _, ok := c.Structs[x.Name]; ok {
					return c.qual(x.Name)
				}
			}
		}
		return p.qual(x.Name)
	case *ast.StarExpr:
		return "*" + p.typeExpr(x.X)
	case *ast.ArrayType:
		if x.Len == nil {
			return "[]" + p.typeExpr(x.Elt)
		}
		n := "?"
		if v, ok := p.ConstInt(srcOf(x.Len)); ok {
			n = fmt.Sprint(v)
		}
		return "[" + n + "]" + p.typeExpr(x.Elt)
	case *ast.SelectorExpr:
		if id, ok := x.X.(*ast.Ident); ok {
			if dir, ok := p.Imports[id.Name]; ok {
				return dir + ":" + x.Sel.Name
			}
			if (id.Name == "io" && (x.Sel.Name == "Writer" || x.Sel.Name == "Reader")) || (id.Name == "bytes" && x.Sel.Name == "Buffer") {
				return "io"
			}
		}
	case *ast.MapType:
		return "map<" + p.typeExpr(x.Key) + ">" + p.typeExpr(x.Value)
	case *ast.InterfaceType:
		return "interface"
	}
	return "?"
}

func srcOf(e ast.Expr) string {
	switch x := e.(type) {
	case *ast.BasicLit:
		return x.Value
	case *ast.Ident:
		return x.Name
	case *ast.SelectorExpr:
		return srcOf(x.X) + "." + x.Sel.Name
	case *ast.BinaryExpr:
		return srcOf(x.X) + x.Op.String() + srcOf(x.Y)
	case *ast.ParenExpr:
		return srcOf(x.X)
	}
	return "?"
}

// mapParts splits "map<K>V".
func mapParts(t string) (k, v string, ok bool) {
	if !strings.HasPrefix(t, "map<") {
		return "", "", false
	}
	depth := 0
	for i := 3; i < len(t); i++ {
		switch t[i] {
		case '<':
			depth++
		case '>':
			depth--
			if depth == 0 {
				return t[4:i], t[i+1:], true
			}
		}
	}
	return "", "", false
}

func splitQual(t string) (dir, name string, ok bool) {
	i := strings.LastIndex(t, ":")
	if i < 0 {
		return "", "", false
	}
	return t[:i], t[i+1:], true
}

// underlying resolves named non-struct types to their definition.
func underlying(t string) string {
	for i := 0; i < 8; i++ {
		if strings.HasPrefix(t, "[") || strings.HasPrefix(t, "map<") || strings.HasPrefix(t, "*") {
			return t
		}
		dir, name, ok := splitQual(t)
		if !ok {
			return t
		}
		q := Load(dir)
		if _, isStruct := q.Structs[name]; isStruct {
			return t
		}
		d, ok := q.Named[name]
		if !ok {
			return t
		}
		t = q.typeExpr(d)
	}
	return t
}

func fieldType(t string, field string) string {
	t = strings.TrimPrefix(t, "*")
	if strings.HasPrefix(t, "[") || strings.HasPrefix(t, "map<") {
		return "?"
	}
	dir, name, ok := splitQual(t)
	if !ok {
		return "?"
	}
	q := Load(dir)
	st, ok := q.Structs[name]
	if !ok {
		return "?"
	}
	for _, f := range st.Fields.List {
		ft := q.typeExpr(f.Type)
		if len(f.Names) == 0 { // embedded
			_, en, _ := splitQual(strings.TrimPrefix(ft, "*"))
			if en == field {
				return ft
			}
			if r := fieldType(ft, field); r != "?" {
				return r
			}
			continue
		}
		for _, n := range f.Names {
			if n.Name == field {
				return ft
			}
		}
	}
	return "?"
}

func (p *Pkg) typeOf(en env, e ast.Expr) string {
	switch x := e.(type) {
	case *ast.Ident:
		if t, ok := en[x.Name]; ok {
			return t
		}
		return "?"
	case *ast.SelectorExpr:
		return fieldType(p.typeOf(en, x.X), x.Sel.Name)
	case *ast.UnaryExpr:
		if x.Op == token.AND {
			return p.typeOf(en, x.X)
		}
	case *ast.StarExpr:
		return strings.TrimPrefix(p.typeOf(en, x.X), "*")
	case *ast.ParenExpr:
		return p.typeOf(en, x.X)
	case *ast.IndexExpr:
		t := p.typeOf(en, x.X)
		if strings.HasPrefix(t, "[]") {
			return t[2:]
		}
		if _, vt, ok := mapParts(t); ok {
			return vt
		}
	case *ast.SliceExpr:
		return p.typeOf(en, x.X)
	case *ast.CallExpr:
		if id, ok := x.Fun.(*ast.Ident); ok {
			switch id.Name {
			case "byte", "uint8", "uint16", "uint32", "uint64", "int32", "int64":
				return id.Name
			case "new":
				if len(x.Args) == 1 {
					return "*" + p.typeExpr(x.Args[0])
				}
			}
			if _, ok := p.Named[id.Name]; ok {
				return p.qual(id.Name)
			}
		}
		// conversion to a named type of another package: common.Fixed64(0)
		if sel, ok := x.Fun.(*ast.SelectorExpr); ok && len(x.Args) == 1 {
			if id, ok := sel.X.(*ast.Ident); ok {
				if dir, ok := p.Imports[id.Name]; ok {
					if _, isNamed := Load(dir).Named[sel.Sel.Name]; isNamed {
						return dir + ":" + sel.Sel.Name
					}
				}
			}
		}
	case *ast.CompositeLit:
		if x.Type != nil {
			return p.typeExpr(x.Type)
		}
	}
	return "?"
}

// sizeOf returns the number of raw bytes of a fixed-size type, 0 if unknown.
func sizeOf(t string) int {
	t = underlying(strings.TrimPrefix(t, "*"))
	switch t {
	case "byte", "uint8":
		return 1
	case "uint16":
		return 2
	case "uint32", "int32":
		return 4
	case "uint64", "int64":
		return 8
	}
	if strings.HasPrefix(t, "[") && !strings.HasPrefix(t, "[]") {
		i := strings.Index(t, "]")
		n, err := strconv.Atoi(t[1:i])
		if err == nil {
			if s := sizeOf(t[i+1:]); s > 0 {
				return n * s
			}
		}
	}
	return 0
}

// ---------------------------------------------------------------- tokens

type Tok struct {
	K string // raw bool varuint vb pad1 loop close ifge iflt ifeq ifne els call dyn mk other
	N int64
	M int64
	S string
}

func (t Tok) Lean() string {
	switch t.K {
	case "raw":
		return fmt.Sprintf(".raw %d", t.N)
	case "vb":
		if t.N < 0 {
			return ".other \"unresolved var-bytes limit\""
		}
		return fmt.Sprintf(".vb %d", t.N)
	case "bool", "varuint", "pad1", "loop", "close":
		return "." + t.K
	case "ifge", "iflt", "ifeq", "ifne":
		return fmt.Sprintf(".%s %d %d", t.K, t.N, t.M)
	case "els":
		return fmt.Sprintf(".els %d", t.N)
	case "dyn":
		return fmt.Sprintf(".dyn %s", ex.LeanStr(strings.ToLower(t.S)))
	case "call", "mk", "other":
		return fmt.Sprintf(".%s %s", t.K, ex.LeanStr(t.S))
	}
	return ".other " + ex.LeanStr("?"+t.K)
}

type walker struct {
	p      *Pkg
	f      *ex.File
	recv   string // receiver type name ("" for functions)
	recvID string // receiver variable
	en     env
	read   bool
	depth  int
	verArg string // name of the version parameter ("" if none)
	verVal int64  // Deep mode: the constant passed for the version parameter, -1 if unknown
}

var serNames = map[string]bool{"Serialize": true, "SerializeUnsigned": true, "SerializeNoAux": true, "SerializeOthers": true, "SerializeUnsignedNormalOrELIP": true, "serializeContent": true}
var deNames = map[string]bool{"Deserialize": true, "DeserializeUnsigned": true, "DeserializeUnSigned": true, "DeserializeNoAux": true, "DeserializeOthers": true}

func isCodecMethod(n string) bool {
	return strings.HasPrefix(n, "Serialize") || strings.HasPrefix(n, "Deserialize") || n == "serializeContent"
}

func (w *walker) typeTok(t string) []Tok {
	u := underlying(strings.TrimPrefix(t, "*"))
	if u == "bool" {
		return []Tok{{K: "bool"}}
	}
	if s := sizeOf(u); s > 0 {
		return []Tok{{K: "raw", N: int64(s)}}
	}
	return []Tok{{K: "other", S: "type " + t}}
}

func (w *walker) limit(e ast.Expr) int64 {
	src := w.f.Src(e)
	// uint32(x)
	if v, ok := w.p.ConstInt(src); ok {
		return v
	}
	if id, ok := e.(*ast.Ident); ok {
		// local variable initialised from a constant: readLen := uint32(crypto.MaxMultiSignCodeLength)
		if d, ok := w.en["="+id.Name]; ok {
			if v, ok := w.p.ConstInt(d); ok {
				return v
			}
		}
	}
	if c, ok := e.(*ast.CallExpr); ok && len(c.Args) == 0 {
		return -1 // function-valued limit
	}
	return -2
}

// call translates one call expression; handled=false means "not a codec call".
func (w *walker) call(c *ast.CallExpr) (toks []Tok, handled bool) {
	fun := w.f.Src(c.Fun)
	base := fun
	if i := strings.LastIndex(fun, "."); i >= 0 {
		base = fun[i+1:]
	}
	isCommon := strings.HasPrefix(fun, "common.") || !strings.Contains(fun, ".")
	if isCommon {
		switch base {
		case "WriteUint8", "ReadUint8":
			return []Tok{{K: "raw", N: 1}}, true
		case "WriteUint16", "ReadUint16":
			return []Tok{{K: "raw", N: 2}}, true
		case "WriteUint32", "ReadUint32":
			return []Tok{{K: "raw", N: 4}}, true
		case "WriteUint64", "ReadUint64":
			return []Tok{{K: "raw", N: 8}}, true
		case "WriteVarUint", "ReadVarUint":
			return []Tok{{K: "varuint"}}, true
		case "WriteVarBytes", "WriteVarString":
			return []Tok{{K: "vb", N: 0}}, true
		case "ReadVarBytes":
			return []Tok{{K: "vb", N: w.limit(c.Args[1])}}, true
		case "ReadVarString":
			v, _ := Load("common").ConstInt("MaxVarStringLength")
			return []Tok{{K: "vb", N: v}}, true
		case "ReadBytes":
			if v, ok := w.p.ConstInt(w.f.Src(c.Args[1])); ok {
				return []Tok{{K: "raw", N: v}}, true
			}
			return []Tok{{K: "other", S: w.f.Src(c)}}, true
		case "WriteElement", "WriteElements", "ReadElement", "ReadElements":
			var res []Tok
			for _, a := range c.Args[1:] {
				res = append(res, w.typeTok(w.p.typeOf(w.en, a))...)
			}
			return res, true
		}
	}
	switch fun {
	case "w.Write", "buf.Write":
		if len(c.Args) == 1 {
			if cl, ok := c.Args[0].(*ast.CompositeLit); ok && len(cl.Elts) == 1 {
				// []byte{byte(x.Field)} is a one-byte field; []byte{byte(1)} a constant pad
				if _, isConst := w.p.ConstInt(w.f.Src(cl.Elts[0])); isConst {
					return []Tok{{K: "pad1"}}, true
				}
				return []Tok{{K: "raw", N: 1}}, true
			}
			if s := sizeOf(w.p.typeOf(w.en, c.Args[0])); s > 0 {
				return []Tok{{K: "raw", N: int64(s)}}, true
			}
			return []Tok{{K: "other", S: w.f.Src(c)}}, true
		}
	case "io.ReadFull":
		if s := sizeOf(w.p.typeOf(w.en, c.Args[1])); s > 0 {
			return []Tok{{K: "raw", N: int64(s)}}, true
		}
		return []Tok{{K: "other", S: w.f.Src(c)}}, true
	case "r.Read":
		if w.f.Src(c.Args[0]) == "make([]byte, 1)" {
			return []Tok{{K: "pad1"}}, true
		}
		// p := make([]byte, N); r.Read(p)
		if id, ok := c.Args[0].(*ast.Ident); ok {
			if d, ok := w.en["="+id.Name]; ok && strings.HasPrefix(d, "make([]byte, ") {
				if n, err := strconv.Atoi(strings.TrimSuffix(strings.TrimPrefix(d, "make([]byte, "), ")")); err == nil {
					return []Tok{{K: "raw", N: int64(n)}}, true
				}
			}
		}
		return []Tok{{K: "other", S: w.f.Src(c)}}, true
	case "make":
		if w.read {
			// recorded apart from the token stream (a reader-only allocation)
			curMakes = append(curMakes, w.f.Src(c))
			return nil, true
		}
		return nil, false
	}
	// package-level helper functions of the btc style: BtcWriteTxIn(w, ti)
	if id, ok := c.Fun.(*ast.Ident); ok {
		if fd, ok := w.p.Funcs[id.Name]; ok && fd.Recv == nil && (strings.HasPrefix(id.Name, "BtcWrite") || strings.HasPrefix(id.Name, "BtcRead")) {
			return w.inlineFunc(fd, c), true
		}
	}
	// helpers that are handed the reader / writer: other methods of the receiver, package-level
	// functions of this or another repository package — followed in Deep mode
	if Deep && w.hasIOArg(c) {
		if sel, ok := c.Fun.(*ast.SelectorExpr); ok {
			if id, ok := sel.X.(*ast.Ident); ok {
				if id.Name == w.recvID && !isCodecMethod(sel.Sel.Name) {
					if fd, ok := w.p.Funcs[w.recv+"."+sel.Sel.Name]; ok {
						return w.inlineIn(w.p, w.recv+"."+sel.Sel.Name, fd), true
					}
				}
				if dir, ok := w.p.Imports[id.Name]; ok {
					q := Load(dir)
					if fd, ok := q.Funcs[sel.Sel.Name]; ok && fd.Recv == nil {
						return w.inlineIn(q, sel.Sel.Name, fd), true
					}
				}
			}
		}
		if id, ok := c.Fun.(*ast.Ident); ok {
			if fd, ok := w.p.Funcs[id.Name]; ok && fd.Recv == nil {
				return w.inlineIn(w.p, id.Name, fd), true
			}
		}
	}
	// method calls X.Serialize…(w, …) / X.Deserialize…(r, …)
	if sel, ok := c.Fun.(*ast.SelectorExpr); ok && isCodecMethod(sel.Sel.Name) && len(c.Args) >= 1 {
		if !w.hasIOArg(c) {
			a0 := w.f.Src(c.Args[0])
			if a0 != "w" && a0 != "r" && a0 != "buf" && a0 != "reader" {
				return nil, false
			}
		}
		// on the receiver itself: inline the sibling method
		if id, ok := sel.X.(*ast.Ident); ok && id.Name == w.recvID {
			if fd, ok := w.p.Funcs[w.recv+"."+sel.Sel.Name]; ok {
				return w.inlineMethod(fd), true
			}
		}
		t := strings.TrimPrefix(w.p.typeOf(w.en, sel.X), "*")
		if s := sizeOf(t); s > 0 {
			return []Tok{{K: "raw", N: int64(s)}}, true
		}
		dir, name, ok := splitQual(t)
		if !ok || t == "interface" || strings.HasPrefix(t, "[") || strings.HasPrefix(t, "map<") {
			return []Tok{{K: "dyn", S: w.f.Src(sel.X)}}, true
		}
		q := Load(dir)
		if _, isStruct := q.Structs[name]; !isStruct {
			if _, isNamed := q.Named[name]; isNamed && underlying(t) == "interface" {
				return []Tok{{K: "dyn", S: name}}, true
			}
			return []Tok{{K: "dyn", S: name}}, true
		}
		if Deep {
			if fd, ok := q.Funcs[name+"."+sel.Sel.Name]; ok {
				return w.inlineIn(q, name+"."+sel.Sel.Name, fd, c.Args...), true
			}
		}
		// embedded struct of the receiver type defined elsewhere, or a field: call token
		kind := "call"
		// the version passed on is not this method's own version argument → dynamic version
		if len(c.Args) >= 2 {
			v := w.f.Src(c.Args[1])
			if v != w.verArg {
				kind = "dyn"
			}
		}
		suffix := ""
		if sel.Sel.Name != "Serialize" && sel.Sel.Name != "Deserialize" {
			suffix = "." + strings.TrimPrefix(strings.TrimPrefix(sel.Sel.Name, "Serialize"), "Deserialize")
		}
		return []Tok{{K: kind, S: name + suffix}}, true
	}
	return nil, false
}

// Deep makes the tokenizer inline every callee (other types' methods, helper functions) instead
// of emitting call tokens; guards stay in the stream.  Used for writer/reader symmetry of large types.
var Deep bool

// WalkCases makes a switch on a decoded field contribute a marker per case followed by the case
// body's tokens (instead of one opaque dynamic token).
var WalkCases bool

// NilGuards collects the writer-side `if x != nil` guards that were walked through.
var NilGuards []string

// CaseSel selects, for a switch whose tag has the given source text, the case to walk.
var CaseSel = map[string]string{}

// CaseLabels lists the case labels of every switch on tag (source text) reachable in dir's
// recv.method (sibling methods followed), in order of first appearance.
func CaseLabels(dir, recv, method, tag string) []string {
	p := Load(dir)
	seen := map[string]bool{}
	var res []string
	done := map[string]bool{}
	var visit func(m string)
	visit = func(m string) {
		if done[m] {
			return
		}
		done[m] = true
		fd, ok := p.Funcs[recv+"."+m]
		if !ok || fd.Body == nil {
			return
		}
		f := p.FileOf[recv+"."+m]
		ast.Inspect(fd.Body, func(n ast.Node) bool {
			switch x := n.(type) {
			case *ast.SwitchStmt:
				if x.Tag != nil && f.Src(x.Tag) == tag {
					for _, c := range x.Body.List {
						for _, e := range c.(*ast.CaseClause).List {
							if l := f.Src(e); !seen[l] {
								seen[l] = true
								res = append(res, l)
							}
						}
					}
				}
			case *ast.CallExpr:
				if sel, ok := x.Fun.(*ast.SelectorExpr); ok {
					if _, isM := p.Funcs[recv+"."+sel.Sel.Name]; isM {
						visit(sel.Sel.Name)
					}
				}
			}
			return true
		})
	}
	visit(method)
	return res
}

func (w *walker) hasIOArg(c *ast.CallExpr) bool {
	for _, a := range c.Args {
		if w.p.typeOf(w.en, a) == "io" {
			return true
		}
	}
	return false
}

func (w *walker) inlineIn(q *Pkg, key string, fd *ast.FuncDecl, args ...ast.Expr) []Tok {
	if w.depth > 8 {
		return []Tok{{K: "other", S: "depth"}}
	}
	w2 := newWalker(q, q.FileOf[key], fd, w.read)
	w2.depth = w.depth + 1
	// a constant (or this method's own folded version) passed for the callee's version parameter
	if w2.verArg != "" {
		i := 0
		for _, prm := range fd.Type.Params.List {
			for _, n := range prm.Names {
				if n.Name == w2.verArg && i < len(args) {
					if v, ok := w.p.ConstInt(w.f.Src(args[i])); ok {
						w2.verVal = v
					} else if w.f.Src(args[i]) == w.verArg {
						w2.verVal = w.verVal
					}
				}
				i++
			}
		}
	}
	return w2.block(fd.Body.List)
}

func (w *walker) inlineMethod(fd *ast.FuncDecl) []Tok {
	if w.depth > 6 {
		return []Tok{{K: "other", S: "depth"}}
	}
	w2 := newWalker(w.p, w.p.FileOf[w.recv+"."+fd.Name.Name], fd, w.read)
	w2.depth = w.depth + 1
	w2.verVal = w.verVal
	return w2.block(fd.Body.List)
}

func (w *walker) inlineFunc(fd *ast.FuncDecl, c *ast.CallExpr) []Tok {
	if w.depth > 6 {
		return []Tok{{K: "other", S: "depth"}}
	}
	w2 := newWalker(w.p, w.p.FileOf[fd.Name.Name], fd, w.read)
	w2.depth = w.depth + 1
	return w2.block(fd.Body.List)
}

func newWalker(p *Pkg, f *ex.File, fd *ast.FuncDecl, read bool) *walker {
	w := &walker{p: p, f: f, en: env{}, read: read, verVal: -1}
	if fd.Recv != nil && len(fd.Recv.List) > 0 {
		w.recv = ex.RecvName(fd)
		if len(fd.Recv.List[0].Names) > 0 {
			w.recvID = fd.Recv.List[0].Names[0].Name
			w.en[w.recvID] = p.qual(w.recv)
		}
	}
	for _, prm := range fd.Type.Params.List {
		t := p.typeExpr(prm.Type)
		for _, n := range prm.Names {
			w.en[n.Name] = t
			if n.Name == "version" || n.Name == "txVersion" {
				w.verArg = n.Name
			}
		}
	}
	return w
}

// calls collects the codec tokens of the call expressions inside a simple statement, in source order.
func (w *walker) calls(n ast.Node) []Tok {
	var res []Tok
	ast.Inspect(n, func(x ast.Node) bool {
		if _, ok := x.(*ast.FuncLit); ok {
			return false
		}
		c, ok := x.(*ast.CallExpr)
		if !ok {
			return true
		}
		t, handled := w.call(c)
		if handled {
			res = append(res, t...)
			return false
		}
		return true
	})
	return res
}

func (w *walker) mentionsVersion(e ast.Expr) bool {
	found := false
	ast.Inspect(e, func(x ast.Node) bool {
		if id, ok := x.(*ast.Ident); ok && w.verArg != "" && id.Name == w.verArg {
			found = true
		}
		return true
	})
	return found
}

func onlyReturns(b *ast.BlockStmt) bool {
	if b == nil {
		return false
	}
	for _, s := range b.List {
		if _, ok := s.(*ast.ReturnStmt); !ok {
			return false
		}
	}
	return true
}

func (w *walker) guard(cond ast.Expr) (Tok, bool) {
	be, ok := cond.(*ast.BinaryExpr)
	if !ok {
		return Tok{}, false
	}
	id, ok := be.X.(*ast.Ident)
	if !ok || id.Name != w.verArg {
		return Tok{}, false
	}
	v, ok := w.p.ConstInt(w.f.Src(be.Y))
	if !ok {
		return Tok{}, false
	}
	switch be.Op {
	case token.GEQ:
		return Tok{K: "ifge", N: v}, true
	case token.GTR:
		return Tok{K: "ifge", N: v + 1}, true
	case token.LSS:
		return Tok{K: "iflt", N: v}, true
	case token.LEQ:
		return Tok{K: "iflt", N: v + 1}, true
	case token.EQL:
		return Tok{K: "ifeq", N: v}, true
	case token.NEQ:
		return Tok{K: "ifne", N: v}, true
	}
	return Tok{}, false
}

func (w *walker) declare(s ast.Stmt) {
	switch x := s.(type) {
	case *ast.DeclStmt:
		if gd, ok := x.Decl.(*ast.GenDecl); ok {
			for _, sp := range gd.Specs {
				if vs, ok := sp.(*ast.ValueSpec); ok && vs.Type != nil {
					for _, n := range vs.Names {
						w.en[n.Name] = w.p.typeExpr(vs.Type)
					}
				}
			}
		}
	case *ast.AssignStmt:
		if x.Tok == token.DEFINE && len(x.Lhs) == 1 && len(x.Rhs) == 1 {
			if id, ok := x.Lhs[0].(*ast.Ident); ok {
				if t := w.p.typeOf(w.en, x.Rhs[0]); t != "?" {
					w.en[id.Name] = t
				}
				w.en["="+id.Name] = w.f.Src(x.Rhs[0])
			}
		}
	}
}

func (w *walker) block(list []ast.Stmt) []Tok {
	var res []Tok
	for i, s := range list {
		// early return on the version argument: `if version > X { …; return }` makes the rest of the
		// block the else branch
		if is, ok := s.(*ast.IfStmt); ok && is.Else == nil && is.Init == nil && w.verArg != "" && w.mentionsVersion(is.Cond) && len(is.Body.List) > 0 && i+1 < len(list) {
			if _, ret := is.Body.List[len(is.Body.List)-1].(*ast.ReturnStmt); ret {
				if _, isGuard := w.guard(is.Cond); isGuard {
					synth := &ast.IfStmt{Cond: is.Cond, Body: is.Body, Else: &ast.BlockStmt{List: list[i+1:]}}
					return append(res, w.stmt(synth)...)
				}
			}
		}
		res = append(res, w.stmt(s)...)
	}
	return res
}

func (w *walker) stmt(s ast.Stmt) []Tok {
	switch x := s.(type) {
	case *ast.BlockStmt:
		return w.block(x.List)
	case *ast.IfStmt:
		var res []Tok
		if x.Init != nil {
			w.declare(x.Init)
			res = append(res, w.calls(x.Init)...)
		}
		if w.mentionsVersion(x.Cond) {
			// a conjunction of guards is a nest of guards
			if be, ok := x.Cond.(*ast.BinaryExpr); ok && be.Op == token.LAND && x.Else == nil {
				if _, ok1 := w.guard(be.X); ok1 {
					if _, ok2 := w.guard(be.Y); ok2 {
						inner := &ast.IfStmt{Cond: be.Y, Body: x.Body}
						outer := &ast.IfStmt{Cond: be.X, Body: &ast.BlockStmt{List: []ast.Stmt{inner}}}
						return append(res, w.stmt(outer)...)
					}
				}
			}
			g, ok := w.guard(x.Cond)
			if !ok {
				res = append(res, Tok{K: "other", S: "if " + w.f.Src(x.Cond)})
				return append(res, w.block(x.Body.List)...)
			}
			if w.verVal >= 0 {
				taken := false
				switch g.K {
				case "ifge":
					taken = w.verVal >= g.N
				case "iflt":
					taken = w.verVal < g.N
				case "ifeq":
					taken = w.verVal == g.N
				case "ifne":
					taken = w.verVal != g.N
				}
				if taken {
					return append(res, w.block(x.Body.List)...)
				}
				if x.Else != nil {
					return append(res, w.stmt(x.Else)...)
				}
				return res
			}
			body := w.block(x.Body.List)
			g.M = int64(len(body))
			res = append(res, g)
			res = append(res, body...)
			if x.Else != nil {
				eb := w.stmt(x.Else)
				res = append(res, Tok{K: "els", N: int64(len(eb))})
				res = append(res, eb...)
			}
			return res
		}
		// calls inside the condition itself (if cv.Deserialize(r, version); err != nil is Init; rare otherwise)
		res = append(res, w.calls(x.Cond)...)
		if onlyReturns(x.Body) && x.Else == nil {
			return res // error / validity check
		}
		bt := w.block(x.Body.List)
		var et []Tok
		if x.Else != nil {
			et = w.stmt(x.Else)
		}
		if len(bt) == 0 && len(et) == 0 {
			return res
		}
		// `if x != nil { x.Serialize(w) }`: a writer-side nil guard; the body is taken as written and
		// the guard is recorded apart (the reader has no counterpart: a nil value is not round-trippable)
		if be, ok := x.Cond.(*ast.BinaryExpr); ok && be.Op == token.NEQ && w.f.Src(be.Y) == "nil" && x.Else == nil {
			NilGuards = append(NilGuards, w.f.Src(x.Cond))
			return append(res, bt...)
		}
		res = append(res, Tok{K: "other", S: "if " + w.f.Src(x.Cond)})
		res = append(res, bt...)
		return append(res, et...)
	case *ast.ForStmt:
		var res []Tok
		if x.Init != nil {
			w.declare(x.Init)
		}
		body := w.block(x.Body.List)
		res = append(res, Tok{K: "loop"})
		res = append(res, body...)
		return append(res, Tok{K: "close"})
	case *ast.RangeStmt:
		t := underlying(strings.TrimPrefix(w.p.typeOf(w.en, x.X), "*"))
		if strings.HasPrefix(t, "[]") {
			if id, ok := x.Value.(*ast.Ident); ok && x.Value != nil {
				w.en[id.Name] = t[2:]
			}
		}
		if kt, vt, ok := mapParts(t); ok {
			if id, ok := x.Key.(*ast.Ident); ok && x.Key != nil {
				w.en[id.Name] = kt
			}
			if id, ok := x.Value.(*ast.Ident); ok && x.Value != nil {
				w.en[id.Name] = vt
			}
		}
		body := w.block(x.Body.List)
		res := []Tok{{K: "loop"}}
		res = append(res, body...)
		return append(res, Tok{K: "close"})
	case *ast.SwitchStmt:
		if x.Tag != nil && w.mentionsVersion(x.Tag) {
			// switch version { case A: … case B: … default: … } → ifeq A n … els m ( ifeq B … )
			type cs struct {
				vals []int64
				body []Tok
				dflt bool
			}
			var all []cs
			for _, c := range x.Body.List {
				cc := c.(*ast.CaseClause)
				one := cs{body: w.block(cc.Body), dflt: cc.List == nil}
				for _, e := range cc.List {
					v, ok := w.p.ConstInt(w.f.Src(e))
					if !ok {
						return []Tok{{K: "other", S: "switch case " + w.f.Src(e)}}
					}
					one.vals = append(one.vals, v)
				}
				all = append(all, one)
			}
			var build func(i int) []Tok
			build = func(i int) []Tok {
				if i >= len(all) {
					return nil
				}
				c := all[i]
				if c.dflt {
					return c.body
				}
				if len(c.vals) != 1 {
					return []Tok{{K: "other", S: "multi-value case"}}
				}
				rest := build(i + 1)
				res := []Tok{{K: "ifeq", N: c.vals[0], M: int64(len(c.body))}}
				res = append(res, c.body...)
				if len(rest) > 0 {
					res = append(res, Tok{K: "els", N: int64(len(rest))})
					res = append(res, rest...)
				}
				return res
			}
			return build(0)
		}
		// switch on a decoded field: dispatch
		var res []Tok
		if x.Init != nil {
			res = append(res, w.calls(x.Init)...)
		}
		// dispatch on a decoded field, with a selected label: only that case (or default) is walked
		if sel, ok := CaseSel[w.f.Src(x.Tag)]; ok {
			var dflt *ast.CaseClause
			for _, c := range x.Body.List {
				cc := c.(*ast.CaseClause)
				if cc.List == nil {
					dflt = cc
				}
				for _, e := range cc.List {
					if w.f.Src(e) == sel {
						return append(res, w.block(cc.Body)...)
					}
				}
			}
			if dflt != nil {
				return append(res, w.block(dflt.Body)...)
			}
			return res
		}
		// dispatch on a decoded field
		if !WalkCases {
			res = append(res, Tok{K: "dyn", S: "switch " + w.f.Src(x.Tag)})
			return res
		}
		// every case: a marker with its labels, then the tokens of its body
		res = append(res, Tok{K: "other", S: "switch"})
		for _, c := range x.Body.List {
			cc := c.(*ast.CaseClause)
			var labels []string
			for _, e := range cc.List {
				labels = append(labels, w.f.Src(e))
			}
			if cc.List == nil {
				labels = []string{"default"}
			}
			res = append(res, Tok{K: "other", S: "case " + strings.Join(labels, ",")})
			res = append(res, w.block(cc.Body)...)
		}
		res = append(res, Tok{K: "other", S: "endswitch"})
		return res
	case *ast.ReturnStmt:
		return w.calls(x)
	default:
		w.declare(s)
		return w.calls(s)
	}
}

// Stream is the pair of token lists of one Go type; Makes lists the make(…)
// calls of the reader (with everything it inlines), as source text.
type Stream struct {
	Name  string
	Ser   []Tok
	De    []Tok
	Makes []string
}

var curMakes []string

// Method tokenizes dir's <recv>.<method> (read=true for Deserialize-side methods).
func Method(dir, recv, method string, read bool) []Tok {
	p, k := findMethod(dir, recv, method, 0)
	if p == nil {
		ex.Die("%s: %s.%s not found (also not promoted from an embedded struct)", dir, recv, method)
	}
	fd := p.Funcs[k]
	w := newWalker(p, p.FileOf[k], fd, read)
	return w.block(fd.Body.List)
}

// findMethod resolves recv.method, following embedded structs for promoted methods.
func findMethod(dir, recv, method string, depth int) (*Pkg, string) {
	p := Load(dir)
	k := method
	if recv != "" {
		k = recv + "." + method
	}
	if _, ok := p.Funcs[k]; ok {
		return p, k
	}
	if st, ok := p.Structs[recv]; ok && depth < 4 {
		for _, f := range st.Fields.List {
			if len(f.Names) != 0 {
				continue
			}
			d, n, ok := splitQual(strings.TrimPrefix(p.typeExpr(f.Type), "*"))
			if !ok {
				continue
			}
			if q, key := findMethod(d, n, method, depth+1); q != nil {
				return q, key
			}
		}
	}
	return nil, ""
}

func leanList(ts []Tok) string {
	q := make([]string, len(ts))
	for i, t := range ts {
		q[i] = t.Lean()
	}
	return "[" + strings.Join(q, ", ") + "]"
}

// Print emits `def <name> : List ElaVerif.WireTokens.Stream := […]`.
func Print(name string, ss []Stream) {
	sort.SliceStable(ss, func(i, j int) bool { return ss[i].Name < ss[j].Name })
	fmt.Printf("def %s : List ElaVerif.WireTokens.Stream := [\n", name)
	for i, s := range ss {
		sep := ","
		if i == len(ss)-1 {
			sep = ""
		}
		fmt.Printf("  { name := %s,\n    ser := %s,\n    de := %s }%s\n", ex.LeanStr(s.Name), leanList(s.Ser), leanList(s.De), sep)
	}
	fmt.Println("]")
}

// Pair builds the stream of a type from method names.
func Pair(name, dir, recv, ser, de string) Stream {
	s := Stream{Name: name, Ser: Method(dir, recv, ser, false)}
	curMakes = nil
	s.De = Method(dir, recv, de, true)
	s.Makes = curMakes
	return s
}

// ReadOnly builds a stream that has only a reader (function or method).
func ReadOnly(name, dir, recv, de string) Stream {
	curMakes = nil
	s := Stream{Name: name, De: Method(dir, recv, de, true)}
	s.Makes = curMakes
	return s
}

// PrintMakes emits `def <name> : List (String × List String)`: the make(…) calls of each reader.
func PrintMakes(name string, ss []Stream) {
	fmt.Printf("def %s : List (String × List String) := [\n", name)
	for i, s := range ss {
		sep := ","
		if i == len(ss)-1 {
			sep = ""
		}
		fmt.Printf("  (%s, %s)%s\n", ex.LeanStr(s.Name), ex.StrList(s.Makes), sep)
	}
	fmt.Println("]")
}

// ---------------------------------------------------------------- field coverage

// StructFields lists the field names of a struct type (embedded fields by their type name).
func StructFields(dir, name string) []string {
	p := Load(dir)
	st, ok := p.Structs[name]
	if !ok {
		ex.Die("%s: struct %s not found", dir, name)
	}
	var res []string
	for _, f := range st.Fields.List {
		if len(f.Names) == 0 {
			_, en, _ := splitQual(strings.TrimPrefix(p.typeExpr(f.Type), "*"))
			res = append(res, en)
			continue
		}
		for _, n := range f.Names {
			res = append(res, n.Name)
		}
	}
	sort.Strings(res)
	return res
}

// FieldMentions lists the fields of the receiver that <recv>.<method> mentions, following calls
// to other methods of the same receiver (recv.helper(…)).
func FieldMentions(dir, recv, method string) []string {
	p := Load(dir)
	fields := map[string]bool{}
	for _, f := range StructFields(dir, recv) {
		fields[f] = true
	}
	seen := map[string]bool{}
	found := map[string]bool{}
	var visit func(m string)
	visit = func(m string) {
		if seen[m] {
			return
		}
		seen[m] = true
		fd, ok := p.Funcs[recv+"."+m]
		if !ok || fd.Body == nil || len(fd.Recv.List[0].Names) == 0 {
			return
		}
		id := fd.Recv.List[0].Names[0].Name
		ast.Inspect(fd.Body, func(n ast.Node) bool {
			sel, ok := n.(*ast.SelectorExpr)
			if !ok {
				return true
			}
			x, ok := sel.X.(*ast.Ident)
			if !ok || x.Name != id {
				return true
			}
			if fields[sel.Sel.Name] {
				found[sel.Sel.Name] = true
			} else if _, isMethod := p.Funcs[recv+"."+sel.Sel.Name]; isMethod {
				visit(sel.Sel.Name)
			}
			return true
		})
	}
	visit(method)
	var res []string
	for f := range found {
		res = append(res, f)
	}
	sort.Strings(res)
	return res
}
