// Facts for C31: constants of the cross-chain UTXO emergency policy, the case
// lists of the switches that decide it, which transaction types bypass the
// default context check, and the order of the configuration steps.
package main

import (
	"fmt"
	"os"
	"path/filepath"
	"regexp"
	"reflect"
	"go/ast"
	"go/token"
	"sort"
	"strings"

	"elaverif/extract/ex"
	"elaverif/extract/exg"

	"github.com/elastos/Elastos.ELA/common/config"
	"github.com/elastos/Elastos.ELA/core/contract"
	"github.com/elastos/Elastos.ELA/core/transaction"
	common2 "github.com/elastos/Elastos.ELA/core/types/common"
	"github.com/elastos/Elastos.ELA/core/types/payload"
)

func natLists(xss [][]string) string {
	var parts []string
	for _, xs := range xss {
		parts = append(parts, "["+strings.Join(xs, ", ")+"]")
	}
	return "[" + strings.Join(parts, ", ") + "]"
}

func strLists(xss [][]string) string {
	var parts []string
	for _, xs := range xss {
		parts = append(parts, ex.StrList(xs))
	}
	return "[" + strings.Join(parts, ", ") + "]"
}

func main() {
	ex.Header("C31")
	pkgs := exg.Load(false, "./core/transaction", "./common/config/settings")
	tx := exg.Pkg(pkgs, "core/transaction")
	st := exg.Pkg(pkgs, "common/config/settings")

	ex.Comment("constants (common/config/config.go, core/contract, core/types)")
	ex.DefNat("mainnetFreeze", config.MainNetCrossChainUTXOFreezeHeight)
	ex.DefNat("mainnetRestrict", config.MainNetCrossChainUTXORestrictionHeight)
	ex.DefNat("disabledHeight", config.DisabledCrossChainUTXORestrictionHeight)
	ex.DefNat("prefixCrossChain", byte(contract.PrefixCrossChain))
	ex.DefNat("tyWithdraw", byte(common2.WithdrawFromSideChain))
	ex.DefNat("tyReturn", byte(common2.ReturnSideChainDepositCoin))
	ex.DefNat("legacyReturnVersion", payload.ReturnSideChainDepositCoinVersion)

	ex.Comment("heights in the built-in parameter sets: (freeze, restrict) of default, TestNet(), RegNet()")
	d, t, r := config.GetDefaultParams(), config.GetDefaultParams().TestNet(), config.GetDefaultParams().RegNet()
	fmt.Printf("def paramHeights : List (Nat × Nat) := [(%d, %d), (%d, %d), (%d, %d)]\n",
		d.CrossChainUTXOFreezeHeight, d.CrossChainUTXORestrictionHeight,
		t.CrossChainUTXOFreezeHeight, t.CrossChainUTXORestrictionHeight,
		r.CrossChainUTXOFreezeHeight, r.CrossChainUTXORestrictionHeight)

	ex.Comment("checkTransactionCrossChainUTXO: case values of `switch txn.PayloadVersion()` (one list per clause, [] = default)")
	fd := exg.FuncDecl(tx, "checkTransactionCrossChainUTXO")
	src := func(n ast.Node) string { return exg.Src(tx, n) }
	fmt.Printf("def policyVersionCases : List (List Nat) := %s\n", natLists(exg.SwitchCases(tx, fd, "txn.PayloadVersion()", src)))

	ex.Comment("comparisons of txn.PayloadVersion() with a constant outside the switch: (operator, value)")
	var cmps []string
	ast.Inspect(fd, func(x ast.Node) bool {
		if b, ok := x.(*ast.BinaryExpr); ok && (b.Op == token.NEQ || b.Op == token.EQL) && src(b.X) == "txn.PayloadVersion()" {
			if v, ok := exg.ConstString(tx, b.Y); ok {
				cmps = append(cmps, fmt.Sprintf("(%s, %s)", ex.LeanStr(b.Op.String()), v))
			}
		}
		return true
	})
	fmt.Printf("def versionComparisons : List (String × Nat) := [%s]\n", strings.Join(cmps, ", "))

	ex.Comment("the condition of every `if` of checkTransactionCrossChainUTXO, in source order")
	var conds []string
	ast.Inspect(fd, func(x ast.Node) bool {
		if s, ok := x.(*ast.IfStmt); ok {
			conds = append(conds, src(s.Cond))
		}
		return true
	})
	ex.DefStrList("policyConds", conds)

	ex.Comment("for every tx type GetTransaction can build: (type, IsWithdrawFromSideChainTx, IsReturnSideChainDepositCoinTx)")
	var rows []string
	for i := 0; i < 256; i++ {
		txn, err := transaction.GetTransaction(common2.TxType(i))
		if err != nil || txn == nil {
			continue
		}
		txn.SetTxType(common2.TxType(i))
		rows = append(rows, fmt.Sprintf("(%d, %v, %v)", i, txn.IsWithdrawFromSideChainTx(), txn.IsReturnSideChainDepositCoinTx()))
	}
	fmt.Printf("def typeTable : List (Nat × Bool × Bool) := [%s]\n", strings.Join(rows, ", "))

	ex.Comment("receiver types in core/transaction that declare their own ContextCheck")
	var recv []string
	for _, f := range tx.Syntax {
		for _, dcl := range f.Decls {
			if fd, ok := dcl.(*ast.FuncDecl); ok && fd.Name.Name == "ContextCheck" && fd.Recv != nil {
				recv = append(recv, ex.RecvName(fd))
			}
		}
	}
	sort.Strings(recv)
	ex.DefStrList("contextCheckReceivers", recv)

	ex.Comment("DefaultChecker.ContextCheck: statically resolved callees in source order")
	ex.DefStrList("defaultContextCheckCalls", exg.StaticCalls(tx, exg.FuncDecl(tx, "DefaultChecker.ContextCheck")))

	ex.Comment("settings: the switch of enforceCrossChainUTXORestrictionHeights and what each clause assigns")
	ssrc := func(n ast.Node) string { return exg.Src(st, n) }
	en := exg.FuncDecl(st, "enforceCrossChainUTXORestrictionHeights")
	fmt.Printf("def enforceCases : List (List String) := %s\n", strLists(exg.SwitchCases(st, en, "strings.ToLower(configuration.ActiveNet)", ssrc)))
	var clauses []string
	ast.Inspect(en, func(x ast.Node) bool {
		cc, ok := x.(*ast.CaseClause)
		if !ok {
			return true
		}
		var as []string
		for _, s := range cc.Body {
			if a, ok := s.(*ast.AssignStmt); ok && len(a.Lhs) == 1 && len(a.Rhs) == 1 {
				if v, ok := exg.ConstString(st, a.Rhs[0]); ok {
					as = append(as, fmt.Sprintf("(%s, %s)", ex.LeanStr(ssrc(a.Lhs[0])), v))
				}
			}
		}
		clauses = append(clauses, "["+strings.Join(as, ", ")+"]")
		return true
	})
	fmt.Printf("def enforceAssigns : List (List (String × Nat)) := [%s]\n", strings.Join(clauses, ", "))

	ex.Comment("SetupConfig: network switch and the order of its statically resolved calls")
	sc := exg.FuncDecl(st, "Settings.SetupConfig")
	fmt.Printf("def setupNetCases : List (List String) := %s\n", strLists(exg.SwitchCases(st, sc, "strings.ToLower(conf.ActiveNet)", ssrc)))
	ex.DefStrList("setupConfigCalls", exg.StaticCalls(st, sc))
	ex.Comment("the argument expressions of the helper's call in DefaultChecker.ContextCheck (which height, which configuration fields)")
	{
		var args []string
		ast.Inspect(exg.FuncDecl(tx, "DefaultChecker.ContextCheck"), func(x ast.Node) bool {
			if c, ok := x.(*ast.CallExpr); ok && exg.CalleeName(tx, c) == "core/transaction.checkTransactionCrossChainUTXO" {
				for _, a := range c.Args {
					args = append(args, exg.Src(tx, a))
				}
			}
			return true
		})
		ex.DefStrList("policyCallArgs", args)
	}
	ex.Comment("who runs the context check: every call of BlockChain.CheckTransactionContext (caller, height argument) in the node, every call of the ContextCheck method, and how CheckTransactionContext builds the parameters")
	{
		all := exg.Load(false, "./blockchain", "./mempool", "./pow", "./servers", "./elanet/...", "./core/...", "./dpos/...", "./cr/...")
		var rows []string
		for _, cs := range exg.CallSites(all, "(*blockchain.BlockChain).CheckTransactionContext") {
			rows = append(rows, fmt.Sprintf("(%s, %s)", ex.LeanStr(cs.Caller), ex.LeanStr(cs.Args[0])))
		}
		sort.Strings(rows)
		fmt.Printf("def contextCallSites : List (String × String) := [%s]\n", strings.Join(rows, ", "))
		var callers []string
		for _, cs := range exg.CallSites(all, "method:ContextCheck") {
			callers = append(callers, cs.Caller+" "+strings.Join(cs.Args, ","))
		}
		sort.Strings(callers)
		ex.DefStrList("contextCheckCallers", callers)
		var para []string
		for _, cs := range exg.CallSites(all, "src:functions.GetTransactionParameters") {
			if cs.Caller == "blockchain.BlockChain.CheckTransactionContext" {
				para = cs.Args
			}
		}
		ex.DefStrList("contextParameters", para)
	}
	ex.Comment("struct tags of the policy fields of config.Configuration (a `screw:` tag would make the field a command line flag)")
	{
		var rows []string
		t := reflect.TypeOf(config.Configuration{})
		for _, f := range []string{"CrossChainUTXOFreezeHeight", "CrossChainUTXORestrictionHeight", "FrozenAddresses", "ActiveNet"} {
			sf, ok := t.FieldByName(f)
			if !ok {
				rows = append(rows, fmt.Sprintf("(%s, %s)", ex.LeanStr(f), ex.LeanStr("MISSING")))
				continue
			}
			rows = append(rows, fmt.Sprintf("(%s, %s)", ex.LeanStr(f), ex.LeanStr(string(sf.Tag))))
		}
		fmt.Printf("def policyFieldTags : List (String × String) := [%s]\n", strings.Join(rows, ", "))
	}
	ex.Comment("what the operator documentation (docs/config.json.md) says: numeric literals after these keys, and the frozen address")
	{
		doc, err := os.ReadFile(filepath.Join(*ex.Repo, "docs", "config.json.md"))
		if err != nil {
			ex.Die("docs/config.json.md: %v", err)
		}
		var rows []string
		for _, key := range []string{"CrossChainUTXOFreezeHeight", "CrossChainUTXORestrictionHeight", "DisableStartHeight"} {
			for _, m := range regexp.MustCompile(`"`+key+`"\s*:\s*([0-9]+)`).FindAllStringSubmatch(string(doc), -1) {
				rows = append(rows, fmt.Sprintf("(%s, %s)", ex.LeanStr(key), m[1]))
			}
		}
		fmt.Printf("def docLiterals : List (String × Nat) := [%s]\n", strings.Join(rows, ", "))
		var addrs []string
		for _, m := range regexp.MustCompile(`"Address"\s*:\s*"([^"]+)"`).FindAllStringSubmatch(string(doc), -1) {
			addrs = append(addrs, m[1])
		}
		ex.DefStrList("docFrozenAddresses", addrs)
	}
	ex.Footer("C31")
}
