// Facts for C15: cache size constants, which functions that disconnect blocks
// clean the UTXO cache, how UnspentIndex drives its TxCache, and whether
// anything besides GetBlock touches the decoded block cache.
package main

import (
	"fmt"
	"go/ast"
	"go/token"
	"os"
	"path/filepath"
	"sort"
	"strconv"
	"strings"

	"elaverif/extract/ex"
)

func constInt(f *ex.File, name string) uint64 {
	for _, d := range f.AST.Decls {
		gd, ok := d.(*ast.GenDecl)
		if !ok || gd.Tok != token.CONST {
			continue
		}
		for _, s := range gd.Specs {
			vs := s.(*ast.ValueSpec)
			for i, n := range vs.Names {
				if n.Name == name && i < len(vs.Values) {
					if bl, ok := vs.Values[i].(*ast.BasicLit); ok {
						v, err := strconv.ParseUint(bl.Value, 0, 64)
						if err == nil {
							return v
						}
					}
				}
			}
		}
	}
	ex.Die("%s: constant %s not found", f.Path, name)
	return 0
}

type condCall struct {
	name  string
	conds []string
}

// txCacheCalls lists the idx.TxCache.* calls of a function in source order, each with the chain of
// enclosing loop ranges and if-conditions (so a call that moves under a condition changes the fact).
func txCacheCalls(f *ex.File, fn string) []condCall {
	var out []condCall
	var walk func(n ast.Node, stack []string)
	walkList := func(list []ast.Stmt, stack []string) {
		for _, st := range list {
			walk(st, stack)
		}
	}
	walk = func(n ast.Node, stack []string) {
		switch x := n.(type) {
		case nil:
			return
		case *ast.BlockStmt:
			walkList(x.List, stack)
		case *ast.IfStmt:
			if x.Init != nil {
				walk(x.Init, stack)
			}
			walk(x.Body, append(append([]string(nil), stack...), f.Src(x.Cond)))
			if x.Else != nil {
				walk(x.Else, append(append([]string(nil), stack...), "!("+f.Src(x.Cond)+")"))
			}
		case *ast.RangeStmt:
			walk(x.Body, append(append([]string(nil), stack...), "range "+f.Src(x.X)))
		case *ast.ForStmt:
			c := "for"
			if x.Cond != nil {
				c = "for " + f.Src(x.Cond)
			}
			walk(x.Body, append(append([]string(nil), stack...), c))
		default:
			ast.Inspect(n, func(y ast.Node) bool {
				switch z := y.(type) {
				case *ast.BlockStmt, *ast.IfStmt, *ast.RangeStmt, *ast.ForStmt:
					if y != n {
						walk(y, stack)
						return false
					}
				case *ast.CallExpr:
					if c := f.Src(z.Fun); strings.HasPrefix(c, "idx.TxCache.") {
						out = append(out, condCall{strings.TrimPrefix(c, "idx.TxCache."), append([]string(nil), stack...)})
					}
				}
				return true
			})
		}
	}
	walk(f.MustFunc(fn).Body, nil)
	return out
}

func defCondCalls(name string, cs []condCall) {
	var parts []string
	for _, c := range cs {
		parts = append(parts, fmt.Sprintf("(%s, %s)", ex.LeanStr(c.name), ex.StrList(c.conds)))
	}
	fmt.Printf("def %s : List (String × List String) := [%s]\n", name, strings.Join(parts, ", "))
}

func plainNames(cs []condCall) []string {
	var r []string
	for _, c := range cs {
		r = append(r, c.name)
	}
	return r
}

// evictCond: source of the condition of the first if statement whose body calls delete(<prefix>…
func evictCond(f *ex.File, fn, prefix string) string {
	res := ""
	ast.Inspect(f.MustFunc(fn).Body, func(n ast.Node) bool {
		is, ok := n.(*ast.IfStmt)
		if !ok || res != "" {
			return res == ""
		}
		for _, st := range is.Body.List {
			if es, ok := st.(*ast.ExprStmt); ok {
				if c, ok := es.X.(*ast.CallExpr); ok && f.Src(c.Fun) == "delete" && len(c.Args) > 0 && strings.HasPrefix(f.Src(c.Args[0]), prefix) {
					res = f.Src(is.Cond)
					return false
				}
			}
		}
		return true
	})
	if res == "" {
		ex.Die("%s: no eviction condition found in %s", f.Path, fn)
	}
	return res
}

// returnGuards: conditions of the top-level `if cond { return }` statements of a function, in order
func returnGuards(f *ex.File, fn string) []string {
	var out []string
	for _, st := range f.MustFunc(fn).Body.List {
		if is, ok := st.(*ast.IfStmt); ok && len(is.Body.List) == 1 {
			if _, ok := is.Body.List[0].(*ast.ReturnStmt); ok {
				out = append(out, f.Src(is.Cond))
			}
		}
	}
	return out
}

// callersOf lists "<file>:<function>" for every call of a function or method with that name in the
// repository's non-test Go files.
func callersOf(name string) []string {
	var out []string
	filepath.Walk(*ex.Repo, func(path string, info os.FileInfo, err error) error {
		if err != nil {
			return nil
		}
		if info.IsDir() {
			if b := info.Name(); strings.HasPrefix(b, ".") && path != *ex.Repo || b == "vendor" || b == "node_modules" {
				return filepath.SkipDir
			}
			return nil
		}
		if !strings.HasSuffix(path, ".go") || strings.HasSuffix(path, "_test.go") {
			return nil
		}
		rel, _ := filepath.Rel(*ex.Repo, path)
		f := ex.Parse(rel)
		for _, d := range f.AST.Decls {
			fd, ok := d.(*ast.FuncDecl)
			if !ok || fd.Body == nil {
				continue
			}
			for _, c := range f.Calls(fd.Body) {
				if c == name || strings.HasSuffix(c, "."+name) {
					out = append(out, rel+":"+fd.Name.Name)
				}
			}
		}
		return nil
	})
	sort.Strings(out)
	return out
}

// cacheEntryWriters: "<file>:<function>:<lhs>" for every assignment whose left-hand side is a field path
// rooted at a variable that was assigned from ChainStoreFFLDB.GetBlock / BlockChain.GetDposBlockByHash
// (both hand out the shared entry of the decoded block cache), in the repository's non-test Go files.
func cacheEntryWriters() []string {
	var out []string
	isSource := func(f *ex.File, e ast.Expr) bool {
		c, ok := e.(*ast.CallExpr)
		if !ok {
			return false
		}
		src := f.Src(c.Fun)
		return strings.HasSuffix(src, ".GetDposBlockByHash") || strings.HasSuffix(src, "GetFFLDB().GetBlock") ||
			strings.HasSuffix(src, "fflDB.GetBlock")
	}
	root := func(e ast.Expr) (string, bool) {
		depth := 0
		for {
			switch x := e.(type) {
			case *ast.SelectorExpr:
				e = x.X
				depth++
			case *ast.IndexExpr:
				e = x.X
			case *ast.StarExpr:
				e = x.X
			case *ast.ParenExpr:
				e = x.X
			case *ast.Ident:
				return x.Name, depth > 0
			default:
				return "", false
			}
		}
	}
	filepath.Walk(*ex.Repo, func(path string, info os.FileInfo, err error) error {
		if err != nil {
			return nil
		}
		if info.IsDir() {
			if b := info.Name(); strings.HasPrefix(b, ".") && path != *ex.Repo || b == "vendor" || b == "node_modules" {
				return filepath.SkipDir
			}
			return nil
		}
		if !strings.HasSuffix(path, ".go") || strings.HasSuffix(path, "_test.go") {
			return nil
		}
		rel, _ := filepath.Rel(*ex.Repo, path)
		f := ex.Parse(rel)
		for _, d := range f.AST.Decls {
			fd, ok := d.(*ast.FuncDecl)
			if !ok || fd.Body == nil {
				continue
			}
			tracked := map[string]bool{}
			ast.Inspect(fd.Body, func(n ast.Node) bool {
				as, ok := n.(*ast.AssignStmt)
				if !ok {
					return true
				}
				if len(as.Rhs) == 1 && isSource(f, as.Rhs[0]) {
					if id, ok := as.Lhs[0].(*ast.Ident); ok && id.Name != "_" {
						tracked[id.Name] = true
					}
				}
				return true
			})
			if len(tracked) == 0 {
				continue
			}
			ast.Inspect(fd.Body, func(n ast.Node) bool {
				switch st := n.(type) {
				case *ast.AssignStmt:
					for _, l := range st.Lhs {
						if name, isPath := root(l); isPath && tracked[name] {
							out = append(out, rel+":"+fd.Name.Name+":"+f.Src(l))
						}
					}
				case *ast.IncDecStmt:
					if name, isPath := root(st.X); isPath && tracked[name] {
						out = append(out, rel+":"+fd.Name.Name+":"+f.Src(st.X))
					}
				}
				return true
			})
		}
		return nil
	})
	sort.Strings(out)
	return out
}

func main() {
	ex.Header("C15")
	cs := ex.Parse("blockchain/chainstoreffldb.go")
	pm := ex.Parse("p2p/message.go")
	ex.DefNat("memoryFirstReferenceSize", constInt(ex.Parse("blockchain/utxocache.go"), "memoryFirstReferenceSize"))
	ex.DefNat("blocksCacheSizeStore", constInt(cs, "BlocksCacheSize"))
	ex.DefNat("blocksCacheSizeP2P", constInt(pm, "BlocksCacheSize"))

	bc := ex.Parse("blockchain/blockchain.go")
	type row struct {
		name  string
		clean bool
	}
	var rows []row
	for _, d := range bc.AST.Decls {
		fd, ok := d.(*ast.FuncDecl)
		if !ok || fd.Body == nil {
			continue
		}
		disc, clean := false, false
		for _, c := range bc.Calls(fd.Body) {
			if c == "b.disconnectBlock" || c == "b.disconnectBlock2" {
				disc = true
			}
			if c == "b.UTXOCache.CleanCache" {
				clean = true
			}
		}
		if disc {
			rows = append(rows, row{fd.Name.Name, clean})
		}
	}
	sort.Slice(rows, func(i, j int) bool { return rows[i].name < rows[j].name })
	var parts []string
	for _, r := range rows {
		parts = append(parts, fmt.Sprintf("(%s, %v)", ex.LeanStr(r.name), r.clean))
	}
	fmt.Println("/-- functions of blockchain.go that disconnect blocks, and whether they call UTXOCache.CleanCache -/")
	fmt.Printf("def disconnectCallers : List (String × Bool) := [%s]\n", strings.Join(parts, ", "))

	ui := ex.Parse("blockchain/indexers/unspentindex.go")
	defCondCalls("txCacheCallsConnect", txCacheCalls(ui, "UnspentIndex.ConnectBlock"))
	defCondCalls("txCacheCallsDisconnect", txCacheCalls(ui, "UnspentIndex.DisconnectBlock"))
	ex.DefStrList("txCacheCallsFetch", plainNames(txCacheCalls(ui, "UnspentIndex.FetchTx")))

	// functions of chainstoreffldb.go other than GetBlock / the constructor that mention the block cache
	n := 0
	for _, d := range cs.AST.Decls {
		fd, ok := d.(*ast.FuncDecl)
		if !ok || fd.Body == nil || fd.Name.Name == "GetBlock" || fd.Name.Name == "NewChainStoreFFLDB" {
			continue
		}
		src := cs.Src(fd.Body)
		if strings.Contains(src, "blocksCache") || strings.Contains(src, "blockHashesCache") {
			n++
		}
	}
	ex.DefNat("blockCacheInvalidations", n)
	// the order of the steps inside the database transaction of SaveBlock that updates state and indexes
	var steps []string
	for _, c := range cs.Calls(cs.MustFunc("ChainStoreFFLDB.SaveBlock").Body) {
		switch c {
		case "dbPutBestState", "dbPutBlockIndex", "processor", "c.indexManager.ConnectBlock":
			steps = append(steps, c)
		}
	}
	ex.DefStrList("saveBlockSteps", steps)
	// who calls the two reorganisation entry points that do NOT clean the UTXO cache (whole repo, non-test files)
	ex.DefStrList("reorganizeChain2Callers", callersOf("reorganizeChain2"))
	ex.DefStrList("exportedReorganizeChain2Callers", callersOf("ReorganizeChain2"))
	// functions that write through the pointer they got from the decoded block cache
	ex.DefStrList("blockCacheEntryWriters", cacheEntryWriters())
	// the condition under which GetBlock / WriteMessage evict (the if whose body deletes from the cache map)
	ex.DefStr("blockCacheEvictCond", evictCond(cs, "ChainStoreFFLDB.GetBlock", "c.blocksCache"))
	ex.DefStr("sendCacheEvictCond", evictCond(pm, "WriteMessage", "blocksCache"))
	// the early-return guards of the TxCache operations
	tc := ex.Parse("blockchain/indexers/txcache.go")
	ex.DefStrList("setTxnGuards", returnGuards(tc, "TxCache.setTxn"))
	ex.DefStrList("deleteTxnGuards", returnGuards(tc, "TxCache.deleteTxn"))
	ex.DefStrList("trimGuards", returnGuards(tc, "TxCache.trim"))
	ex.Footer("C15")
}
