// Facts for C15: cache size constants, which functions that disconnect blocks
// clean the UTXO cache, how UnspentIndex drives its TxCache, and whether
// anything besides GetBlock touches the decoded block cache.
package main

import (
	"fmt"
	"go/ast"
	"go/token"
	"sort"
	"strconv"
	"strings"

	"elaverif/extract/ex"
)

func constInt(f *ex.File, name string) uint64 {
	for _, d := range f.AST.Decls {
		gd, ok := d.(*ast.GenDecl)
		if !ok || gd.Tok != token.CONST {
			continue
		}
		for _, s := range gd.Specs {
			vs := s.(*ast.ValueSpec)
			for i, n := range vs.Names {
				if n.Name == name && i < len(vs.Values) {
					if bl, ok := vs.Values[i].(*ast.BasicLit); ok {
						v, err := strconv.ParseUint(bl.Value, 0, 64)
						if err == nil {
							return v
						}
					}
				}
			}
		}
	}
	ex.Die("%s: constant %s not found", f.Path, name)
	return 0
}

func txCacheCalls(f *ex.File, fn string) []string {
	var out []string
	for _, c := range f.Calls(f.MustFunc(fn).Body) {
		if strings.HasPrefix(c, "idx.TxCache.") {
			out = append(out, strings.TrimPrefix(c, "idx.TxCache."))
		}
	}
	return out
}

func main() {
	ex.Header("C15")
	cs := ex.Parse("blockchain/chainstoreffldb.go")
	pm := ex.Parse("p2p/message.go")
	ex.DefNat("blocksCacheSizeStore", constInt(cs, "BlocksCacheSize"))
	ex.DefNat("blocksCacheSizeP2P", constInt(pm, "BlocksCacheSize"))

	bc := ex.Parse("blockchain/blockchain.go")
	type row struct {
		name  string
		clean bool
	}
	var rows []row
	for _, d := range bc.AST.Decls {
		fd, ok := d.(*ast.FuncDecl)
		if !ok || fd.Body == nil {
			continue
		}
		disc, clean := false, false
		for _, c := range bc.Calls(fd.Body) {
			if c == "b.disconnectBlock" || c == "b.disconnectBlock2" {
				disc = true
			}
			if c == "b.UTXOCache.CleanCache" {
				clean = true
			}
		}
		if disc {
			rows = append(rows, row{fd.Name.Name, clean})
		}
	}
	sort.Slice(rows, func(i, j int) bool { return rows[i].name < rows[j].name })
	var parts []string
	for _, r := range rows {
		parts = append(parts, fmt.Sprintf("(%s, %v)", ex.LeanStr(r.name), r.clean))
	}
	fmt.Println("/-- functions of blockchain.go that disconnect blocks, and whether they call UTXOCache.CleanCache -/")
	fmt.Printf("def disconnectCallers : List (String × Bool) := [%s]\n", strings.Join(parts, ", "))

	ui := ex.Parse("blockchain/indexers/unspentindex.go")
	ex.DefStrList("txCacheCallsConnect", txCacheCalls(ui, "UnspentIndex.ConnectBlock"))
	ex.DefStrList("txCacheCallsDisconnect", txCacheCalls(ui, "UnspentIndex.DisconnectBlock"))
	ex.DefStrList("txCacheCallsFetch", txCacheCalls(ui, "UnspentIndex.FetchTx"))

	// functions of chainstoreffldb.go other than GetBlock / the constructor that mention the block cache
	n := 0
	for _, d := range cs.AST.Decls {
		fd, ok := d.(*ast.FuncDecl)
		if !ok || fd.Body == nil || fd.Name.Name == "GetBlock" || fd.Name.Name == "NewChainStoreFFLDB" {
			continue
		}
		src := cs.Src(fd.Body)
		if strings.Contains(src, "blocksCache") || strings.Contains(src, "blockHashesCache") {
			n++
		}
	}
	ex.DefNat("blockCacheInvalidations", n)
	ex.Footer("C15")
}
