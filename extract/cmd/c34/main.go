// Facts for C34: the conflict-slot table of the mempool, read from the AST of
// mempool/conflictmanager.go (slot order, slot name constants resolved to their
// string values, key type, and for every slot the (tx type value, key function
// name) pairs in source order), plus the pool capacity constant.
package main

import (
	"fmt"
	"go/ast"
	"go/token"
	"strconv"
	"strings"

	"elaverif/extract/ex"

	common2 "github.com/elastos/Elastos.ELA/core/types/common"
	"github.com/elastos/Elastos.ELA/core/types/payload"
)

func constStrings(f *ex.File) map[string]string {
	m := map[string]string{}
	for _, d := range f.AST.Decls {
		gd, ok := d.(*ast.GenDecl)
		if !ok || gd.Tok != token.CONST {
			continue
		}
		for _, s := range gd.Specs {
			vs := s.(*ast.ValueSpec)
			for i, n := range vs.Names {
				if i < len(vs.Values) {
					if bl, ok := vs.Values[i].(*ast.BasicLit); ok && bl.Kind == token.STRING {
						v, _ := strconv.Unquote(bl.Value)
						m[n.Name] = v
					}
				}
			}
		}
	}
	return m
}

// constInts collects `Name Type = <int literal>` constants.
func constInts(f *ex.File, into map[string]uint64) {
	for _, d := range f.AST.Decls {
		gd, ok := d.(*ast.GenDecl)
		if !ok || gd.Tok != token.CONST {
			continue
		}
		for _, s := range gd.Specs {
			vs := s.(*ast.ValueSpec)
			for i, n := range vs.Names {
				if i < len(vs.Values) {
					if bl, ok := vs.Values[i].(*ast.BasicLit); ok && bl.Kind == token.INT {
						v, err := strconv.ParseUint(bl.Value, 0, 64)
						if err == nil {
							into[n.Name] = v
						}
					}
				}
			}
		}
	}
}

func kv(f *ex.File, cl *ast.CompositeLit) map[string]ast.Expr {
	m := map[string]ast.Expr{}
	for _, e := range cl.Elts {
		if p, ok := e.(*ast.KeyValueExpr); ok {
			m[f.Src(p.Key)] = p.Value
		}
	}
	return m
}

func main() {
	ex.Header("C34")
	cm := ex.Parse("mempool/conflictmanager.go")
	cs := ex.Parse("mempool/conflictslot.go")
	names := constStrings(cm)
	txTypes := map[string]uint64{}
	constInts(ex.Parse("core/types/common/transaction.go"), txTypes)
	slotConsts := map[string]uint64{}
	constInts(cs, slotConsts) // allType = 0xff
	fd := cm.MustFunc("newConflictManager")
	var slots *ast.CompositeLit
	ast.Inspect(fd, func(n ast.Node) bool {
		if cl, ok := n.(*ast.CompositeLit); ok && slots == nil {
			if strings.HasPrefix(cm.Src(cl.Type), "[]*conflict") {
				slots = cl
				return false
			}
		}
		return true
	})
	if slots == nil {
		ex.Die("slot list literal not found in newConflictManager")
	}
	fmt.Println("/-- (slot name, key type, [(tx type value, key function)]) in source order -/")
	fmt.Println("def slotTable : List (String × String × List (Nat × String)) := [")
	for i, e := range slots.Elts {
		cl, ok := e.(*ast.CompositeLit)
		if !ok {
			ex.Die("slot element %d is not a composite literal", i)
		}
		m := kv(cm, cl)
		nameExpr := cm.Src(m["name"])
		name, ok := names[nameExpr]
		if !ok {
			if bl, isLit := m["name"].(*ast.BasicLit); isLit {
				name, _ = strconv.Unquote(bl.Value)
			} else {
				ex.Die("slot %d: cannot resolve name %s", i, nameExpr)
			}
		}
		call, ok := m["slot"].(*ast.CallExpr)
		if !ok || cm.Src(call.Fun) != "newConflictSlot" || len(call.Args) < 1 {
			ex.Die("slot %s: not a newConflictSlot call", name)
		}
		kt := cm.Src(call.Args[0])
		var pairs []string
		for _, a := range call.Args[1:] {
			pcl, ok := a.(*ast.CompositeLit)
			if !ok {
				ex.Die("slot %s: pair is not a literal", name)
			}
			pm := kv(cm, pcl)
			tsrc := cm.Src(pm["Type"])
			short := tsrc
			if j := strings.LastIndex(tsrc, "."); j >= 0 {
				short = tsrc[j+1:]
			}
			v, ok := txTypes[short]
			if !ok {
				v, ok = slotConsts[short]
			}
			if !ok {
				ex.Die("slot %s: unknown tx type %s", name, tsrc)
			}
			pairs = append(pairs, fmt.Sprintf("(%d, %s)", v, ex.LeanStr(cm.Src(pm["Func"]))))
		}
		sep := ","
		if i == len(slots.Elts)-1 {
			sep = ""
		}
		fmt.Printf("  (%s, %s, [%s])%s\n", ex.LeanStr(name), ex.LeanStr(kt), strings.Join(pairs, ", "), sep)
	}
	fmt.Println("]")
	// capacity constant
	pact := map[string]uint64{}
	constInts(ex.Parse("elanet/pact/protocol.go"), pact)
	if v, ok := pact["MaxTxPoolSize"]; ok {
		ex.DefNat("maxTxPoolSize", v)
	} else {
		ex.Die("MaxTxPoolSize not found")
	}
	// the values of the constants the pool code compares against
	fmt.Printf("/-- tx type values the pool code branches on: CoinBase, TransferAsset, SideChainPow, CancelProducer, UpdateProducer, UpdateVersion, NextTurnDPOSInfo, UnregisterCR, UpdateCR, CRCProposal, CRCAppropriation, CRAssetsRectify, RecordSponsor -/\n")
	fmt.Printf("def txTypes : List Nat := [%d, %d, %d, %d, %d, %d, %d, %d, %d, %d, %d, %d, %d]\n",
		common2.CoinBase, common2.TransferAsset, common2.SideChainPow, common2.CancelProducer, common2.UpdateProducer,
		common2.UpdateVersion, common2.NextTurnDPOSInfo, common2.UnregisterCR, common2.UpdateCR, common2.CRCProposal,
		common2.CRCAppropriation, common2.CRAssetsRectify, common2.RecordSponsor)
	fmt.Printf("/-- proposal types the key functions branch on: SecretaryGeneral, ChangeProposalOwner, CloseProposal, RegisterSideChain, ReserveCustomID, ReceiveCustomID, ChangeCustomIDFee -/\n")
	fmt.Printf("def proposalTypes : List Nat := [%d, %d, %d, %d, %d, %d, %d]\n", payload.SecretaryGeneral, payload.ChangeProposalOwner,
		payload.CloseProposal, payload.RegisterSideChain, payload.ReserveCustomID, payload.ReceiveCustomID, payload.ChangeCustomIDFee)
	// the order of the pool-relevant steps inside the functions the model mirrors
	tp := ex.Parse("mempool/txpool.go")
	ex.DefStrList("appendSteps", steps(tp.Calls(tp.MustFunc("TxPool.appendToTxPool").Body)))
	ex.DefStrList("doRemoveSteps", steps(tp.Calls(tp.MustFunc("TxPool.doRemoveTransaction").Body)))
	ex.DefStrList("doAddSteps", steps(tp.Calls(tp.MustFunc("TxPool.doAddTransaction").Body)))
	ex.DefStrList("cleanSubmittedSteps", steps(tp.Calls(tp.MustFunc("TxPool.CleanSubmittedTransactions").Body)))
	ex.DefStrList("checkAndCleanSteps", steps(tp.Calls(tp.MustFunc("TxPool.checkAndCleanAllTransactions").Body)))
	ex.Footer("C34")
}

// steps keeps the calls that read or change pool state or ask the chain for a verdict.
func steps(xs []string) []string {
	keep := map[string]bool{
		"mp.removeCRAppropriationConflictTransactions": true, "chain.CheckTransactionSanity": true,
		"chain.CheckTransactionContext": true, "mp.verifyTransactionWithTxnPool": true, "mp.txFees.OverSize": true,
		"mp.AppendTx": true, "mp.doAddTransaction": true, "mp.removeTx": true, "mp.txFees.AddTx": true,
		"mp.dealAddProposalTx": true, "mp.dealDelProposalTx": true, "mp.txFees.RemoveTx": true, "delete": true,
		"mp.cleanTransactions": true, "mp.cleanSideChainPowTx": true, "mp.cleanCanceledProducerAndCR": true,
		"mp.doRemoveTransaction": true, "tx.IsCRCProposalTx": true, "tx.IsCoinBaseTx": true, "tx.IsRecordSponorTx": true,
		"tx.IsCRCAppropriationTx": true,
	}
	var out []string
	for _, x := range xs {
		if keep[x] {
			out = append(out, x)
		}
	}
	return out
}
