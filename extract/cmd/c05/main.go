// Facts for C05: which (transaction type, payload version) pairs the two
// checkTransactionSignature functions accept WITHOUT looking at the programs.
// Obtained by calling the real functions (build tag verif hooks) on a transaction
// of every type × payload version 0..7 that spends one standard-prefixed output
// and carries one program with foreign, unsigned code; plus the source text of
// the exemption condition.  No verdict is printed: Props/C05.lean compares the
// tables with the reviewed ones.
package main

import (
	"fmt"
	"go/ast"
	"os"
	"strings"

	"elaverif/extract/ex"

	"github.com/elastos/Elastos.ELA/blockchain"
	"github.com/elastos/Elastos.ELA/common"
	elalog "github.com/elastos/Elastos.ELA/common/log"
	"github.com/elastos/Elastos.ELA/core/contract/program"
	"github.com/elastos/Elastos.ELA/core/transaction"
	ctypes "github.com/elastos/Elastos.ELA/core/types/common"
	"github.com/elastos/Elastos.ELA/core/types/functions"
	"github.com/elastos/Elastos.ELA/core/types/interfaces"
	"github.com/elastos/Elastos.ELA/core/types/outputpayload"
)

const maxVersion = 7

func accepted(bc bool, t, v int) (res string) {
	defer func() {
		if e := recover(); e != nil {
			res = "panic"
		}
	}()
	pl, err := interfaces.GetPayload(ctypes.TxType(t), byte(v))
	if err != nil || pl == nil {
		return "nopayload"
	}
	var ph common.Uint168
	ph[0] = 0x21
	ph[5] = 9
	in := &ctypes.Input{Sequence: 1}
	refs := map[*ctypes.Input]ctypes.Output{in: {ProgramHash: ph, Payload: &outputpayload.DefaultOutput{}}}
	tx := functions.CreateTransaction(ctypes.TxVersion09, ctypes.TxType(t), byte(v), pl, []*ctypes.Attribute{}, []*ctypes.Input{in},
		[]*ctypes.Output{}, 0, []*program.Program{{Code: make([]byte, 30), Parameter: []byte{}}})
	if bc {
		err = blockchain.VerifC05CheckTransactionSignature(tx, refs)
	} else {
		err = transaction.VerifC05CheckTransactionSignature(tx, refs)
	}
	if err == nil {
		return "accept"
	}
	return "reject"
}

func exemptCond(f *ex.File) string {
	fd := f.MustFunc("checkTransactionSignature")
	for _, st := range fd.Body.List {
		if is, ok := st.(*ast.IfStmt); ok {
			if len(is.Body.List) == 1 {
				if r, ok := is.Body.List[0].(*ast.ReturnStmt); ok && len(r.Results) == 1 && f.Src(r.Results[0]) == "nil" {
					return f.Src(is.Cond)
				}
			}
		}
	}
	return "<no `if … { return nil }` found>"
}

func main() {
	ex.Header("C05")
	logDir, _ := os.MkdirTemp("", "elaverif-x05")
	defer os.RemoveAll(logDir)
	elalog.NewDefault(logDir, 255, 0, 0)
	functions.GetTransactionByTxType = transaction.GetTransaction
	functions.GetTransactionByBytes = transaction.GetTransactionByBytes
	functions.CreateTransaction = transaction.CreateTransaction
	functions.GetTransactionParameters = transaction.GetTransactionparameters
	var types []string
	var tx, bc, odd []string
	for t := 0; t < 256; t++ {
		if _, err := transaction.GetTransaction(ctypes.TxType(t)); err != nil {
			continue
		}
		types = append(types, fmt.Sprint(t))
		for v := 0; v <= maxVersion; v++ {
			a, b := accepted(false, t, v), accepted(true, t, v)
			if a == "accept" {
				tx = append(tx, fmt.Sprintf("(%d, %d)", t, v))
			}
			if b == "accept" {
				bc = append(bc, fmt.Sprintf("(%d, %d)", t, v))
			}
			if (a != "accept" && a != "reject") || (b != "accept" && b != "reject") {
				odd = append(odd, fmt.Sprintf("(%d, %d)", t, v))
			}
		}
	}
	ex.DefNat("maxVersion", maxVersion)
	fmt.Printf("/-- transaction types `transaction.GetTransaction` knows -/\ndef txTypes : List Nat := [%s]\n\n", strings.Join(types, ", "))
	fmt.Printf("/-- (type, payload version) accepted with a foreign unsigned program by core/transaction checkTransactionSignature -/\ndef exemptTx : List (Nat × Nat) := [%s]\n\n", strings.Join(tx, ", "))
	fmt.Printf("/-- the same for blockchain.checkTransactionSignature -/\ndef exemptBc : List (Nat × Nat) := [%s]\n\n", strings.Join(bc, ", "))
	fmt.Printf("/-- (type, version) on which the probe neither accepted nor rejected (no payload / panic) -/\ndef probeOdd : List (Nat × Nat) := [%s]\n\n", strings.Join(odd, ", "))
	ex.DefStr("exemptCondTx", exemptCond(ex.Parse("core/transaction/transactionchecker.go")))
	ex.DefStr("exemptCondBc", exemptCond(ex.Parse("blockchain/txvalidator.go")))
	ex.Footer("C05")
}
