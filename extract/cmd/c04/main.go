// Facts for C04: the size limits the decoders enforce, the type tables of
// GetTransaction / GetPayload / getOutputPayload / IsValidAttributeType, and the
// flattened read / write token streams of every covered Serialize/Deserialize pair.
package main

import (
	"fmt"
	"go/ast"
	"sort"
	"strings"

	"elaverif/extract/ex"
	"elaverif/extract/wiretok"

	"github.com/elastos/Elastos.ELA/auxpow"
	"github.com/elastos/Elastos.ELA/common"
	"github.com/elastos/Elastos.ELA/core/contract/program"
	ctypes "github.com/elastos/Elastos.ELA/core/types/common"
	"github.com/elastos/Elastos.ELA/core/types/outputpayload"
	"github.com/elastos/Elastos.ELA/core/types/payload"
	"github.com/elastos/Elastos.ELA/crypto"
	"github.com/elastos/Elastos.ELA/elanet/pact"
)

// caseValues lists the integer values of all case labels of the first switch in a function.
func caseValues(dir, fn string) []int64 {
	p := wiretok.Load(dir)
	fd, ok := p.Funcs[fn]
	if !ok {
		ex.Die("%s: %s not found", dir, fn)
	}
	var vals []int64
	seen := false
	ast.Inspect(fd, func(n ast.Node) bool {
		sw, ok := n.(*ast.SwitchStmt)
		if !ok || seen {
			return true
		}
		seen = true
		for _, c := range sw.Body.List {
			for _, e := range c.(*ast.CaseClause).List {
				v, ok := p.ConstInt(p.FileOf[fn].Src(e))
				if !ok {
					ex.Die("%s.%s: case label %s is not a constant", dir, fn, p.FileOf[fn].Src(e))
				}
				vals = append(vals, v)
			}
		}
		return false
	})
	sort.Slice(vals, func(i, j int) bool { return vals[i] < vals[j] })
	return vals
}

// payloadTypeNames lists the payload struct types GetPayload instantiates (new(payload.X)), sorted, unique.
func payloadTypeNames() []string {
	p := wiretok.Load("core/types/interfaces")
	fd := p.Funcs["GetPayload"]
	if fd == nil {
		ex.Die("GetPayload not found")
	}
	seen := map[string]bool{}
	var res []string
	ast.Inspect(fd, func(n ast.Node) bool {
		c, ok := n.(*ast.CallExpr)
		if !ok {
			return true
		}
		if id, ok := c.Fun.(*ast.Ident); ok && id.Name == "new" && len(c.Args) == 1 {
			if sel, ok := c.Args[0].(*ast.SelectorExpr); ok && !seen[sel.Sel.Name] {
				seen[sel.Sel.Name] = true
				res = append(res, sel.Sel.Name)
			}
		}
		return true
	})
	sort.Strings(res)
	return res
}

func natList(name string, vs []int64) {
	q := make([]string, len(vs))
	for i, v := range vs {
		q[i] = fmt.Sprint(v)
	}
	fmt.Printf("def %s : List Nat := [%s]\n", name, strings.Join(q, ", "))
}

func main() {
	ex.Header("C04", "ElaVerif.Lemmas.WireTokens")
	op := wiretok.Load("core/types/outputpayload")
	sideID, ok := op.ConstInt("maxSideProducerIDSize")
	if !ok {
		ex.Die("maxSideProducerIDSize not found")
	}
	ex.Comment("limits: MaxVarStringLength, MaxPayloadDataSize, MaxMultiSignCodeLength, MaxSignatureScriptLength, SignatureLength,")
	ex.Comment("NegativeBigLength, COMPRESSEDLEN, MaxProgramParamSize, MaxProgramCodeSize, MaxTargetDataSize, maxSideProducerIDSize,")
	ex.Comment("auxpow.MaxScriptSize, pact.MaxBlockContextSize, pact.MaxBlockHeaderSize, MaxOpinionDataSize, MaxProposalDataSize, TxVersion09")
	natList("limits", []int64{common.MaxVarStringLength, payload.MaxPayloadDataSize, crypto.MaxMultiSignCodeLength,
		crypto.MaxSignatureScriptLength, crypto.SignatureLength, crypto.NegativeBigLength, crypto.COMPRESSEDLEN,
		program.MaxProgramParamSize, program.MaxProgramCodeSize, int64(outputpayload.MaxTargetDataSize), sideID,
		auxpow.MaxScriptSize, int64(pact.MaxBlockContextSize), int64(pact.MaxBlockHeaderSize), payload.MaxOpinionDataSize,
		payload.MaxProposalDataSize, int64(ctypes.TxVersion09)})
	natList("txTypes", caseValues("core/transaction", "GetTransaction"))
	natList("payloadTypes", caseValues("core/types/interfaces", "GetPayload"))
	natList("attributeUsages", caseValues("core/types/common", "IsValidAttributeType"))
	natList("outputTypes", caseValues("core/types/common", "getOutputPayload"))
	fmt.Println()

	P := "core/types/payload"
	O := "core/types/outputpayload"
	C := "core/types/common"
	ss := []wiretok.Stream{
		wiretok.Pair("Attribute", C, "Attribute", "Serialize", "Deserialize"),
		wiretok.Pair("Input", C, "Input", "Serialize", "Deserialize"),
		wiretok.Pair("Output", C, "Output", "Serialize", "Deserialize"),
		wiretok.Pair("Header", C, "Header", "Serialize", "Deserialize"),
		wiretok.Pair("Program", "core/contract/program", "Program", "Serialize", "Deserialize"),
		wiretok.Pair("AuxPow", "auxpow", "AuxPow", "Serialize", "Deserialize"),
		wiretok.Pair("BtcTx", "auxpow", "BtcTx", "Serialize", "Deserialize"),
		wiretok.Pair("BtcHeader", "auxpow", "BtcHeader", "Serialize", "Deserialize"),
		wiretok.Pair("CandidateVotes", O, "CandidateVotes", "Serialize", "Deserialize"),
		wiretok.Pair("VoteContent", O, "VoteContent", "Serialize", "Deserialize"),
		wiretok.Pair("VoteOutput", O, "VoteOutput", "Serialize", "Deserialize"),
		wiretok.Pair("Mapping", O, "Mapping", "Serialize", "Deserialize"),
		wiretok.Pair("CrossChainOutput", O, "CrossChainOutput", "Serialize", "Deserialize"),
		wiretok.Pair("Withdraw", O, "Withdraw", "Serialize", "Deserialize"),
		wiretok.Pair("ReturnSideChainDeposit", O, "ReturnSideChainDeposit", "Serialize", "Deserialize"),
		wiretok.Pair("ExchangeVotesOutput", O, "ExchangeVotesOutput", "Serialize", "Deserialize"),
		wiretok.Pair("DefaultOutput", O, "DefaultOutput", "Serialize", "Deserialize"),
		wiretok.Pair("CoinBase", P, "CoinBase", "Serialize", "Deserialize"),
		wiretok.Pair("TransferAsset", P, "TransferAsset", "Serialize", "Deserialize"),
		wiretok.Pair("ProducerInfo", P, "ProducerInfo", "Serialize", "Deserialize"),
		wiretok.Pair("InactiveArbitrators", P, "InactiveArbitrators", "Serialize", "Deserialize"),
		wiretok.Pair("NextTurnDPOSInfo", P, "NextTurnDPOSInfo", "Serialize", "Deserialize"),
		wiretok.Pair("DPOSIllegalBlocks", P, "DPOSIllegalBlocks", "Serialize", "Deserialize"),
		wiretok.Pair("BlockEvidence.Unsigned", P, "BlockEvidence", "SerializeUnsigned", "DeserializeUnsigned"),
		wiretok.Pair("BlockEvidence.Others", P, "BlockEvidence", "SerializeOthers", "DeserializeOthers"),
		wiretok.Pair("Voting", P, "Voting", "Serialize", "Deserialize"),
		wiretok.Pair("VotesContent", P, "VotesContent", "Serialize", "Deserialize"),
		wiretok.Pair("VotesWithLockTime", P, "VotesWithLockTime", "Serialize", "Deserialize"),
		wiretok.Pair("RenewalVotesContent", P, "RenewalVotesContent", "Serialize", "Deserialize"),
		wiretok.Pair("CRCProposalReview", P, "CRCProposalReview", "Serialize", "Deserialize"),
		wiretok.Pair("Record", P, "Record", "Serialize", "Deserialize"),
		wiretok.Pair("SideChainPow", P, "SideChainPow", "Serialize", "Deserialize"),
		wiretok.Pair("ProcessProducer", P, "ProcessProducer", "Serialize", "Deserialize"),
		wiretok.Pair("ReturnDepositCoin", P, "ReturnDepositCoin", "Serialize", "Deserialize"),
		wiretok.Pair("ActivateProducer", P, "ActivateProducer", "Serialize", "Deserialize"),
		wiretok.Pair("UpdateVersion", P, "UpdateVersion", "Serialize", "Deserialize"),
		wiretok.Pair("CRCAppropriation", P, "CRCAppropriation", "Serialize", "Deserialize"),
		wiretok.Pair("CRCProposalWithdraw", P, "CRCProposalWithdraw", "Serialize", "Deserialize"),
		wiretok.Pair("CRCProposalRealWithdraw", P, "CRCProposalRealWithdraw", "Serialize", "Deserialize"),
		wiretok.Pair("CRAssetsRectify", P, "CRAssetsRectify", "Serialize", "Deserialize"),
		wiretok.Pair("CRCouncilMemberClaimNode", P, "CRCouncilMemberClaimNode", "Serialize", "Deserialize"),
		wiretok.Pair("RevertToPOW", P, "RevertToPOW", "Serialize", "Deserialize"),
		wiretok.Pair("RevertToDPOS", P, "RevertToDPOS", "Serialize", "Deserialize"),
		wiretok.Pair("DPoSV2ClaimReward", P, "DPoSV2ClaimReward", "Serialize", "Deserialize"),
		wiretok.Pair("DposV2ClaimRewardRealWithdraw", P, "DposV2ClaimRewardRealWithdraw", "Serialize", "Deserialize"),
		wiretok.Pair("ExchangeVotes", P, "ExchangeVotes", "Serialize", "Deserialize"),
		wiretok.Pair("ReturnVotes", P, "ReturnVotes", "Serialize", "Deserialize"),
		wiretok.Pair("RecordSponsor", P, "RecordSponsor", "Serialize", "Deserialize"),
		wiretok.Pair("DPOSProposal", P, "DPOSProposal", "Serialize", "Deserialize"),
		wiretok.Pair("DPOSProposalVote", P, "DPOSProposalVote", "Serialize", "Deserialize"),
		wiretok.Pair("Confirm", P, "Confirm", "Serialize", "Deserialize"),
		wiretok.ReadOnly("TxHead", "core/transaction", "", "GetTransactionByBytes"),
		wiretok.Pair("TxUnsigned", "core/transaction", "BaseTransaction", "SerializeUnsigned", "DeserializeUnsigned"),
		wiretok.Pair("Tx", "core/transaction", "BaseTransaction", "Serialize", "Deserialize"),
		wiretok.Pair("Block", "core/types", "Block", "Serialize", "Deserialize"),
	}
	wiretok.Print("streams", ss)
	wiretok.PrintMakes("makes", ss)

	// every payload type GetPayload can return, every output payload type, the transaction and the
	// block: writer and reader fully inlined (helpers, nested types, every case of a dispatch on a
	// decoded field) — for the writer/reader mirror lemma, which needs no schema
	wiretok.Deep = true
	wiretok.WalkCases = true
	var ms []wiretok.Stream
	for _, n := range payloadTypeNames() {
		if n == "CRCProposal" {
			// the reader reads the proposal type before dispatching, the writer writes it inside the
			// dispatched method: one stream pair per proposal type (and one for "any other type")
			labels := append(wiretok.CaseLabels(P, n, "Deserialize", "p.ProposalType"), "<other>")
			for _, l := range labels {
				wiretok.CaseSel["p.ProposalType"] = l
				ms = append(ms, wiretok.Pair(n+"/"+l, P, n, "Serialize", "Deserialize"))
			}
			delete(wiretok.CaseSel, "p.ProposalType")
			continue
		}
		ms = append(ms, wiretok.Pair(n, P, n, "Serialize", "Deserialize"))
	}
	for _, n := range []string{"DefaultOutput", "VoteOutput", "Mapping", "CrossChainOutput", "Withdraw", "ReturnSideChainDeposit", "ExchangeVotesOutput"} {
		ms = append(ms, wiretok.Pair("output."+n, O, n, "Serialize", "Deserialize"))
	}
	ms = append(ms, wiretok.Pair("Confirm", P, "Confirm", "Serialize", "Deserialize"))
	ms = append(ms, wiretok.Pair("Header", C, "Header", "Serialize", "Deserialize"))
	ms = append(ms, wiretok.Pair("Attribute", C, "Attribute", "Serialize", "Deserialize"))
	ms = append(ms, wiretok.Pair("Input", C, "Input", "Serialize", "Deserialize"))
	ms = append(ms, wiretok.Pair("Output", C, "Output", "Serialize", "Deserialize"))
	ms = append(ms, wiretok.Pair("Program", "core/contract/program", "Program", "Serialize", "Deserialize"))
	wiretok.Print("mirrorStreams", ms)
	seenG := map[string]bool{}
	var guards []string
	for _, gd := range wiretok.NilGuards {
		if !seenG[gd] {
			seenG[gd] = true
			guards = append(guards, gd)
		}
	}
	sort.Strings(guards)
	ex.DefStrList("nilGuards", guards)
	ex.Footer("C04")
}
