// Facts for C24: the reference graph of the module (exg/graph.go), the nodes of
// the consensus packages as seeds, a candidate closed set; and how each random
// selection site in dpos/state obtains its generator.
package main

import (
	"fmt"
	"go/ast"
	"go/types"
	"os"
	"sort"
	"strings"

	"elaverif/extract/ex"
	"elaverif/extract/exg"

	"golang.org/x/tools/go/packages"
)

var consensusPkgs = map[string]bool{"dpos/state": true, "dpos/manager": true, "cr/state": true}

var boundaryPrefixes = []string{"database", "p2p", "dpos/p2p", "elanet", "pow", "servers", "cmd", "utils/http", "utils/signal", "benchmark", "test"}

func boundary(pkg string) bool {
	for _, b := range boundaryPrefixes {
		if pkg == b || strings.HasPrefix(pkg, b+"/") {
			return true
		}
	}
	return false
}

func main() {
	ex.Header("C24")
	pkgs := exg.Load(true, "./...")
	g := exg.BuildGraph(pkgs, *ex.Repo)
	// Storage, network and mining are the *environment* of the consensus code: their nodes are leaves.
	g.MakeLeaves(func(n exg.Node) bool { return boundary(n.Pkg) })
	var seeds []int
	for i, n := range g.Nodes {
		if consensusPkgs[n.Pkg] {
			seeds = append(seeds, i)
		}
	}
	ex.Comment("packages (and their sub-packages) whose nodes are leaves: the environment of the consensus code")
	ex.DefStrList("boundaryPackages", boundaryPrefixes)
	exg.EmitCert(g, seeds)
	ex.Comment("every node of a seedable-generator package that occurs anywhere in the module graph: (id, encoded name)")
	exg.EmitNamed("randNodes", g, func(n exg.Node) bool { return exg.Sensitive[n.Pkg] })
	reach := g.Reach(seeds)
	for i, n := range g.Nodes {
		if reach[i] && (exg.Sensitive[n.Pkg] || n.Name == "time.Now") {
			var names []string
			for _, x := range g.Path(seeds, i) {
				names = append(names, g.Nodes[x].Name)
			}
			ex.Comment("REACHED %s via %s", n.Name, strings.Join(names, " -> "))
		}
	}

	// selection sites: every function of dpos/state that mentions math/rand, with what it mentions
	ex.Comment("functions of the consensus packages that mention math/rand: which of its objects (source order), and whether the function mentions package time")
	var rows []string
	for _, p := range []string{"dpos/state", "dpos/manager", "cr/state"} {
		pk := exg.Pkg(pkgs, p)
		for _, f := range pk.Syntax {
			for _, d := range f.Decls {
				fd, ok := d.(*ast.FuncDecl)
				if !ok || fd.Body == nil {
					continue
				}
				var uses []string
				clock := false
				ast.Inspect(fd.Body, func(x ast.Node) bool {
					if id, ok := x.(*ast.Ident); ok {
						obj := pk.TypesInfo.Uses[id]
						if obj == nil || obj.Pkg() == nil {
							return true
						}
						if exg.Sensitive[obj.Pkg().Path()] {
							if fn, ok := obj.(*types.Func); ok {
								uses = append(uses, exg.FuncName(fn))
							} else {
								uses = append(uses, obj.Pkg().Path()+"."+obj.Name())
							}
						}
						if obj.Pkg().Path() == "time" {
							clock = true
						}
					}
					return true
				})
				if len(uses) > 0 {
					name := fd.Name.Name
					if r := ex.RecvName(fd); r != "" {
						name = r + "." + name
					}
					rows = append(rows, fmt.Sprintf("(%s, %s, %v)", ex.LeanStr(p+"."+name), ex.StrList(uses), clock))
				}
			}
		}
	}
	sort.Strings(rows)
	fmt.Printf("def randSites : List (String × List String × Bool) := [%s]\n", strings.Join(rows, ",\n  "))
	ex.Comment("every events.Notify call of the consensus-relevant packages: (function, event, started with `go`?)")
	var notifies []string
	packages.Visit(pkgs, nil, func(pk *packages.Package) {
		rel := strings.TrimPrefix(strings.TrimPrefix(pk.PkgPath, exg.Module), "/")
		if !(consensusPkgs[rel] || rel == "blockchain" || rel == "core/checkpoint" || rel == "mempool") {
			return
		}
		for _, f := range pk.Syntax {
			for _, d := range f.Decls {
				fd, ok := d.(*ast.FuncDecl)
				if !ok || fd.Body == nil {
					continue
				}
				name := fd.Name.Name
				if r := ex.RecvName(fd); r != "" {
					name = r + "." + name
				}
				async := map[*ast.CallExpr]bool{}
				ast.Inspect(fd.Body, func(x ast.Node) bool {
					if g, ok := x.(*ast.GoStmt); ok {
						async[g.Call] = true
						// a literal started with `go`: everything inside runs asynchronously
						if lit, ok := g.Call.Fun.(*ast.FuncLit); ok {
							ast.Inspect(lit.Body, func(y ast.Node) bool {
								if c, ok := y.(*ast.CallExpr); ok {
									async[c] = true
								}
								return true
							})
						}
					}
					return true
				})
				ast.Inspect(fd.Body, func(x ast.Node) bool {
					if c, ok := x.(*ast.CallExpr); ok && exg.CalleeName(pk, c) == "events.Notify" && len(c.Args) == 2 {
						notifies = append(notifies, fmt.Sprintf("(%s, %s, %v)", ex.LeanStr(rel+"."+name), ex.LeanStr(exg.Src(pk, c.Args[0])), async[c]))
					}
					return true
				})
			}
		}
	})
	sort.Strings(notifies)
	fmt.Printf("def notifySites : List (String × String × Bool) := [\n  %s]\n", strings.Join(notifies, ",\n  "))

	ex.Comment("what every Priority() method of a checkpoint implementation returns (package.Type, value)")
	var prios []string
	packages.Visit(pkgs, nil, func(pk *packages.Package) {
		if !strings.HasPrefix(pk.PkgPath, exg.Module) {
			return
		}
		for _, f := range pk.Syntax {
			for _, d := range f.Decls {
				fd, ok := d.(*ast.FuncDecl)
				if !ok || fd.Body == nil || fd.Name.Name != "Priority" || fd.Recv == nil || len(fd.Body.List) != 1 {
					continue
				}
				ret, ok := fd.Body.List[0].(*ast.ReturnStmt)
				if !ok || len(ret.Results) != 1 {
					continue
				}
				if tv, ok := pk.TypesInfo.Types[ret.Results[0]]; ok && tv.Type.String() == exg.Module+"/core/checkpoint.Priority" {
					v, _ := exg.ConstString(pk, ret.Results[0])
					prios = append(prios, fmt.Sprintf("(%s, %s)", ex.LeanStr(strings.TrimPrefix(pk.PkgPath, exg.Module+"/")+"."+ex.RecvName(fd)), v))
				}
			}
		}
	})
	sort.Strings(prios)
	fmt.Printf("def checkpointPriorities : List (String × Nat) := [%s]\n", strings.Join(prios, ", "))

	ex.Comment("EVERY function of the module that mentions a seedable-generator package: (package, function, in a boundary package?, the statements that mention it)")
	var allSites []string
	packages.Visit(pkgs, nil, func(pk *packages.Package) {
		if !strings.HasPrefix(pk.PkgPath, exg.Module) {
			return
		}
		rel := strings.TrimPrefix(strings.TrimPrefix(pk.PkgPath, exg.Module), "/")
		for _, f := range pk.Syntax {
			for _, d := range f.Decls {
				fd, ok := d.(*ast.FuncDecl)
				if !ok || fd.Body == nil {
					continue
				}
				var stmts []string
				var visit func(n ast.Node)
				mentions := func(n ast.Node) bool {
					found := false
					ast.Inspect(n, func(x ast.Node) bool {
						if id, ok := x.(*ast.Ident); ok {
							if obj := pk.TypesInfo.Uses[id]; obj != nil && obj.Pkg() != nil && exg.Sensitive[obj.Pkg().Path()] {
								found = true
							}
						}
						return !found
					})
					return found
				}
				visit = func(n ast.Node) {
					ast.Inspect(n, func(x ast.Node) bool {
						switch st := x.(type) {
						case *ast.AssignStmt, *ast.ExprStmt, *ast.ReturnStmt, *ast.GoStmt, *ast.DeferStmt, *ast.ValueSpec:
							if mentions(st) {
								stmts = append(stmts, exg.Src(pk, st))
								return false
							}
						}
						return true
					})
				}
				visit(fd.Body)
				if len(stmts) > 0 {
					name := fd.Name.Name
					if r := ex.RecvName(fd); r != "" {
						name = r + "." + name
					}
					for i := range stmts {
						if len(stmts[i]) > 120 {
							stmts[i] = stmts[i][:120] + "…"
						}
					}
					allSites = append(allSites, fmt.Sprintf("(%s, %s, %v, %s)", ex.LeanStr(rel), ex.LeanStr(name), boundary(rel), ex.StrList(stmts)))
				}
			}
		}
	})
	sort.Strings(allSites)
	fmt.Printf("def allRandSites : List (String × String × Bool × List String) := [\n  %s]\n", strings.Join(allSites, ",\n  "))

	ex.Comment("the `less` functions handed to sort.Slice by getSortedProducers / getSortedProducersDposV2 (source text)")
	ds := exg.Pkg(pkgs, "dpos/state")
	for _, fn := range []string{"getSortedProducers", "getSortedProducersDposV2"} {
		fd := exg.FuncDecl(ds, "Arbiters."+fn)
		var lits []string
		ast.Inspect(fd.Body, func(x ast.Node) bool {
			if c, ok := x.(*ast.CallExpr); ok && exg.CalleeName(ds, c) == "sort.Slice" && len(c.Args) == 2 {
				lits = append(lits, exg.Src(ds, c.Args[1]))
			}
			return true
		})
		ex.DefStrList(fn+"Less", lits)
	}
	if os.Getenv("EXG_NAMES") != "" {
		exg.EmitNames(g, reach)
	}
	ex.Footer("C24")
}
