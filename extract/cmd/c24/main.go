// Facts for C24: the reference graph of the module (exg/graph.go), the nodes of
// the consensus packages as seeds, a candidate closed set; and how each random
// selection site in dpos/state obtains its generator.
package main

import (
	"fmt"
	"go/ast"
	"os"
	"sort"
	"strings"

	"elaverif/extract/ex"
	"elaverif/extract/exg"
)

var consensusPkgs = map[string]bool{"dpos/state": true, "dpos/manager": true, "cr/state": true}

func main() {
	ex.Header("C24")
	pkgs := exg.Load(true, "./...")
	g := exg.BuildGraph(pkgs, *ex.Repo)
	var seeds []int
	for i, n := range g.Nodes {
		if consensusPkgs[n.Pkg] {
			seeds = append(seeds, i)
		}
	}
	exg.EmitCert(g, seeds)
	reach := g.Reach(seeds)
	for i, n := range g.Nodes {
		if reach[i] && (exg.Sensitive[n.Pkg] || n.Name == "time.Now") {
			var names []string
			for _, x := range g.Path(seeds, i) {
				names = append(names, g.Nodes[x].Name)
			}
			ex.Comment("REACHED %s via %s", n.Name, strings.Join(names, " -> "))
		}
	}

	// selection sites: every function of dpos/state that mentions math/rand, with what it mentions
	ex.Comment("functions of the consensus packages that mention math/rand, and which of its objects (source order)")
	var rows []string
	for _, p := range []string{"dpos/state", "dpos/manager", "cr/state"} {
		pk := exg.Pkg(pkgs, p)
		for _, f := range pk.Syntax {
			for _, d := range f.Decls {
				fd, ok := d.(*ast.FuncDecl)
				if !ok || fd.Body == nil {
					continue
				}
				var uses []string
				ast.Inspect(fd.Body, func(x ast.Node) bool {
					if id, ok := x.(*ast.Ident); ok {
						if obj := pk.TypesInfo.Uses[id]; obj != nil && obj.Pkg() != nil && exg.Sensitive[obj.Pkg().Path()] {
							uses = append(uses, obj.Pkg().Path()+"."+obj.Name())
						}
					}
					return true
				})
				if len(uses) > 0 {
					name := fd.Name.Name
					if r := ex.RecvName(fd); r != "" {
						name = r + "." + name
					}
					rows = append(rows, fmt.Sprintf("(%s, %s)", ex.LeanStr(p+"."+name), ex.StrList(uses)))
				}
			}
		}
	}
	sort.Strings(rows)
	fmt.Printf("def randSites : List (String × List String) := [%s]\n", strings.Join(rows, ",\n  "))
	if os.Getenv("EXG_NAMES") != "" {
		exg.EmitNames(g, reach)
	}
	ex.Footer("C24")
}
