// Facts for C09: proof-of-work parameters of the three built-in networks, as
// the node's own config package computes them.
package main

import (
	"fmt"
	"time"

	"elaverif/extract/ex"

	"github.com/elastos/Elastos.ELA/common/config"
)

func emit(name string, p *config.Configuration) {
	pc := p.PowConfiguration
	fmt.Printf("def %s : ElaVerif.Compact.PowParams :=\n  { adj := %d, targetSpan := %d, perBlock := %d,\n    limit := %s,\n    limitBits := 0x%x }\n",
		name, pc.AdjustmentFactor, int64(pc.TargetTimespan/time.Second), int64(pc.TargetTimePerBlock/time.Second), pc.PowLimit.String(), pc.PowLimitBits)
}

func main() {
	ex.Header("C09", "ElaVerif.Model.Compact")
	emit("mainnet", config.GetDefaultParams())
	emit("testnet", config.GetDefaultParams().TestNet())
	emit("regnet", config.GetDefaultParams().RegNet())
	emit("instant", config.GetDefaultParams().InstantBlock())
	ex.Footer("C09")
}
