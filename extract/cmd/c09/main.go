// Facts for C09: proof-of-work parameters of the three built-in networks, as
// the node's own config package computes them.
package main

import (
	"fmt"
	"go/ast"
	"time"

	"elaverif/extract/ex"

	"github.com/elastos/Elastos.ELA/common/config"
)

func emit(name string, p *config.Configuration) {
	pc := p.PowConfiguration
	fmt.Printf("def %s : ElaVerif.Compact.PowParams :=\n  { adj := %d, targetSpan := %d, perBlock := %d,\n    limit := %s,\n    limitBits := 0x%x }\n",
		name, pc.AdjustmentFactor, int64(pc.TargetTimespan/time.Second), int64(pc.TargetTimePerBlock/time.Second), pc.PowLimit.String(), pc.PowLimitBits)
}

func main() {
	ex.Header("C09", "ElaVerif.Model.Compact")
	emit("mainnet", config.GetDefaultParams())
	emit("testnet", config.GetDefaultParams().TestNet())
	emit("regnet", config.GetDefaultParams().RegNet())
	emit("instant", config.GetDefaultParams().InstantBlock())

	// How blockchain.New derives the retarget window from the parameters (the
	// harness hook VerifRetarget and the model's PowParams.cfg repeat this
	// derivation; the tie lemma fails if New starts computing it differently).
	f := ex.Parse("blockchain/blockchain.go")
	fd := f.MustFunc("New")
	want := map[string]bool{"minRetargetTimespan": true, "maxRetargetTimespan": true, "blocksPerRetarget": true}
	var facts []string
	ast.Inspect(fd, func(n ast.Node) bool {
		switch x := n.(type) {
		case *ast.KeyValueExpr:
			if id, ok := x.Key.(*ast.Ident); ok && want[id.Name] {
				facts = append(facts, id.Name+" := "+f.Src(x.Value))
			}
		case *ast.AssignStmt:
			if len(x.Lhs) == 1 && len(x.Rhs) == 1 {
				if id, ok := x.Lhs[0].(*ast.Ident); ok && (id.Name == "targetTimespan" || id.Name == "targetTimePerBlock" || id.Name == "adjustmentFactor") {
					facts = append(facts, id.Name+" := "+f.Src(x.Rhs[0]))
				}
			}
		}
		return true
	})
	ex.DefStrList("newDerivation", facts)
	ex.Footer("C09")
}
