// Facts for C33: payload version constants, which branches of the withdrawal
// context check ask the store whether a side-chain tx hash was already
// withdrawn, and whether the Schnorr signer-index bound test is unconditional.
package main

import (
	"fmt"
	"go/ast"
	"strings"

	"elaverif/extract/ex"

	"github.com/elastos/Elastos.ELA/core/types/payload"
)

func main() {
	ex.Header("C33")
	fmt.Printf("def versions : List Nat := [%d, %d, %d]\n", payload.WithdrawFromSideChainVersion,
		payload.WithdrawFromSideChainVersionV1, payload.WithdrawFromSideChainVersionV2)
	f := ex.Parse("core/transaction/withdrawfromsidechaintransaction.go")
	var parts []string
	for _, fn := range []string{"WithdrawFromSideChainTransaction.checkWithdrawFromSideChainTransactionV0",
		"WithdrawFromSideChainTransaction.checkWithdrawFromSideChainTransactionV1",
		"WithdrawFromSideChainTransaction.checkWithdrawFromSideChainTransactionV2",
		"checkSchnorrWithdrawFromSidechain"} {
		n := 0
		for _, c := range f.Calls(f.MustFunc(fn).Body) {
			if strings.HasSuffix(c, ".IsSidechainTxHashDuplicate") {
				n++
			}
		}
		short := fn
		if i := strings.LastIndex(fn, "."); i >= 0 {
			short = fn[i+1:]
		}
		parts = append(parts, fmt.Sprintf("(%s, %d)", ex.LeanStr(short), n))
	}
	fmt.Println("/-- (function, number of store lookups for an already withdrawn side-chain tx hash) -/")
	fmt.Printf("def storeLookups : List (String × Nat) := [%s]\n", strings.Join(parts, ", "))
	// is `if int(index) >= len(arbiters)` a direct statement of the loop over pld.Signers?
	uncond := false
	ast.Inspect(f.MustFunc("checkSchnorrWithdrawFromSidechain").Body, func(n ast.Node) bool {
		rs, ok := n.(*ast.RangeStmt)
		if !ok || !strings.Contains(f.Src(rs.X), "Signers") {
			return true
		}
		for _, st := range rs.Body.List {
			if is, ok := st.(*ast.IfStmt); ok && strings.Contains(f.Src(is.Cond), "len(arbiters)") {
				uncond = true
			}
		}
		return false
	})
	ex.DefBool("signerBoundCheckUnconditional", uncond)
	ex.Footer("C33")
}
