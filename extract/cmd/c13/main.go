// Facts for C13: which transaction types (and payload versions) have a save
// processor and which have a rollback processor, and the order in which the
// index manager runs its indexes. Printed as tables; Lean decides.
package main

import (
	"fmt"
	"go/ast"
	"sort"
	"strings"

	"elaverif/extract/ex"

	"github.com/elastos/Elastos.ELA/core/types/payload"
)

// versionsOf lists, for one GetSaveProcessor/GetRollbackProcessor method, the
// payload-version constants under which it returns a processor closure
// ("*" = unconditionally). A branch counts when its body returns a func literal.
func versionsOf(f *ex.File, fd *ast.FuncDecl) []string {
	var res []string
	returnsFunc := func(n ast.Node) bool {
		found := false
		ast.Inspect(n, func(x ast.Node) bool {
			if r, ok := x.(*ast.ReturnStmt); ok && len(r.Results) > 0 {
				if _, ok := r.Results[0].(*ast.FuncLit); ok {
					found = true
				}
			}
			return !found
		})
		return found
	}
	condConsts := func(c ast.Expr) []string {
		var cs []string
		ast.Inspect(c, func(x ast.Node) bool {
			if b, ok := x.(*ast.BinaryExpr); ok && b.Op.String() == "==" {
				if strings.Contains(f.Src(b.X), "PayloadVersion()") {
					cs = append(cs, strings.TrimPrefix(f.Src(b.Y), "payload."))
				}
			}
			return true
		})
		return cs
	}
	for _, st := range fd.Body.List {
		switch s := st.(type) {
		case *ast.ReturnStmt:
			if len(s.Results) > 0 {
				if _, ok := s.Results[0].(*ast.FuncLit); ok {
					res = append(res, "*")
				}
			}
		case *ast.IfStmt:
			for cur := s; cur != nil; {
				if returnsFunc(cur.Body) {
					cs := condConsts(cur.Cond)
					if len(cs) == 0 {
						cs = []string{"?" + f.Src(cur.Cond)}
					}
					res = append(res, cs...)
				}
				switch e := cur.Else.(type) {
				case *ast.IfStmt:
					cur = e
				case *ast.BlockStmt:
					if returnsFunc(e) {
						res = append(res, "else")
					}
					cur = nil
				default:
					cur = nil
				}
			}
		}
	}
	return res
}

func main() {
	ex.Header("C13")
	files := ex.ParseDir("core/transaction")
	type row struct {
		recv string
		vers []string
	}
	tables := map[string][]row{}
	for _, f := range files {
		for _, d := range f.AST.Decls {
			fd, ok := d.(*ast.FuncDecl)
			if !ok || (fd.Name.Name != "GetSaveProcessor" && fd.Name.Name != "GetRollbackProcessor") {
				continue
			}
			r := ex.RecvName(fd)
			if r == "DefaultProcessor" {
				continue
			}
			tables[fd.Name.Name] = append(tables[fd.Name.Name], row{r, versionsOf(f, fd)})
		}
	}
	for _, name := range []string{"GetSaveProcessor", "GetRollbackProcessor"} {
		rows := tables[name]
		sort.Slice(rows, func(i, j int) bool { return rows[i].recv < rows[j].recv })
		def := "saveTable"
		if name == "GetRollbackProcessor" {
			def = "rollbackTable"
		}
		ex.Comment("receivers that override %s, with the payload versions under which a processor is returned", name)
		fmt.Printf("def %s : List (String × List String) := [", def)
		for i, r := range rows {
			if i > 0 {
				fmt.Print(",")
			}
			fmt.Printf("\n  (%s, %s)", ex.LeanStr(r.recv), ex.StrList(r.vers))
		}
		fmt.Println("]")
	}
	fmt.Printf("def versionValues : List (String × Nat) := [(\"WithdrawFromSideChainVersion\", %d), (\"WithdrawFromSideChainVersionV1\", %d), (\"WithdrawFromSideChainVersionV2\", %d)]\n",
		payload.WithdrawFromSideChainVersion, payload.WithdrawFromSideChainVersionV1, payload.WithdrawFromSideChainVersionV2)

	// order of the indexes inside one SaveBlock / RollbackBlock transaction
	m := ex.Parse("blockchain/indexers/manager.go")
	nm := m.MustFunc("NewManager")
	var order []string
	ast.Inspect(nm, func(x ast.Node) bool {
		if c, ok := x.(*ast.CallExpr); ok && m.Src(c.Fun) == "append" && len(c.Args) > 1 && m.Src(c.Args[0]) == "enabledIndexes" {
			for _, a := range c.Args[1:] {
				order = append(order, m.Src(a))
			}
		}
		return true
	})
	ex.DefStrList("indexOrder", order)
	ex.Footer("C13")
}
