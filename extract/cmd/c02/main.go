// Facts for C02: the make(…) calls of every covered reader (with what it inlines),
// the count maxima of the pre-sizing p2p readers, and the flattened read / write
// token streams (same tokenizer as C04).
package main

import (
	"fmt"
	"go/ast"
	"regexp"
	"sort"
	"strings"

	"elaverif/extract/ex"
	"elaverif/extract/wiretok"

	"github.com/elastos/Elastos.ELA/core/types"
	dmsg "github.com/elastos/Elastos.ELA/dpos/p2p/msg"
	"github.com/elastos/Elastos.ELA/p2p"
	"github.com/elastos/Elastos.ELA/p2p/msg"

)

// caseValues lists the integer values of all case labels of the first switch in a function.
func caseValues(dir, fn string) []int64 {
	p := wiretok.Load(dir)
	fd, ok := p.Funcs[fn]
	if !ok {
		ex.Die("%s: %s not found", dir, fn)
	}
	var vals []int64
	seen := false
	ast.Inspect(fd, func(n ast.Node) bool {
		sw, ok := n.(*ast.SwitchStmt)
		if !ok || seen {
			return true
		}
		seen = true
		for _, c := range sw.Body.List {
			for _, e := range c.(*ast.CaseClause).List {
				v, ok := p.ConstInt(p.FileOf[fn].Src(e))
				if !ok {
					ex.Die("%s.%s: case label %s is not a constant", dir, fn, p.FileOf[fn].Src(e))
				}
				vals = append(vals, v)
			}
		}
		return false
	})
	sort.Slice(vals, func(i, j int) bool { return vals[i] < vals[j] })
	return vals
}

var constLen = regexp.MustCompile(`^make\(.*, [0-9]+\)$`)

// msgTypes: the message type constructed for each command by the peer stacks (base switch of
// p2p/peer resp. dpos/p2p/peer, then elanet/server.go resp. dpos/network.go)
var msgTypes = map[string]map[string]func() p2p.Message{
	"elanet": {
		"version": func() p2p.Message { return &msg.Version{} }, "verack": func() p2p.Message { return &msg.VerAck{} },
		"getaddr": func() p2p.Message { return &msg.GetAddr{} }, "addr": func() p2p.Message { return &msg.Addr{} },
		"ping": func() p2p.Message { return &msg.Ping{} }, "pong": func() p2p.Message { return &msg.Pong{} },
		"mempool": func() p2p.Message { return &msg.MemPool{} }, "tx": func() p2p.Message { return &msg.Tx{} },
		"block": func() p2p.Message { return msg.NewBlock(&types.DposBlock{}) }, "inv": func() p2p.Message { return &msg.Inv{} },
		"notfound": func() p2p.Message { return &msg.NotFound{} }, "getdata": func() p2p.Message { return &msg.GetData{} },
		"getblocks": func() p2p.Message { return &msg.GetBlocks{} }, "filteradd": func() p2p.Message { return &msg.FilterAdd{} },
		"filterclear": func() p2p.Message { return &msg.FilterClear{} }, "filterload": func() p2p.Message { return &msg.FilterLoad{} },
		"txfilter": func() p2p.Message { return &msg.TxFilterLoad{} }, "reject": func() p2p.Message { return &msg.Reject{} },
		"daddr": func() p2p.Message { return &msg.DAddr{} },
	},
	"dpos": {
		"version": func() p2p.Message { return &dmsg.Version{} }, "verack": func() p2p.Message { return &dmsg.VerAck{} },
		"addr": func() p2p.Message { return &dmsg.Addr{} }, "ping": func() p2p.Message { return &dmsg.Ping{} },
		"pong":  func() p2p.Message { return &dmsg.Pong{} },
		"block": func() p2p.Message { return msg.NewBlock(&types.Block{}) }, "tx": func() p2p.Message { return &msg.Tx{} },
		"acc_vote": func() p2p.Message { return &dmsg.Vote{Command: dmsg.CmdAcceptVote} },
		"rej_vote": func() p2p.Message { return &dmsg.Vote{Command: dmsg.CmdRejectVote} },
		"proposal": func() p2p.Message { return &dmsg.Proposal{} }, "inv": func() p2p.Message { return &dmsg.Inventory{} },
		"getblock": func() p2p.Message { return &dmsg.GetBlock{} }, "get_blc": func() p2p.Message { return &dmsg.GetBlocks{} },
		"res_blc": func() p2p.Message { return &dmsg.ResponseBlocks{} }, "req_con": func() p2p.Message { return &dmsg.RequestConsensus{} },
		"res_con": func() p2p.Message { return &dmsg.ResponseConsensus{} }, "req_pro": func() p2p.Message { return &dmsg.RequestProposal{} },
		"ill_pro": func() p2p.Message { return &dmsg.IllegalProposals{} }, "ill_vote": func() p2p.Message { return &dmsg.IllegalVotes{} },
		"side_ill":    func() p2p.Message { return &dmsg.SidechainIllegalData{} },
		"ina_ars":     func() p2p.Message { return &dmsg.ResponseInactiveArbitrators{} },
		"rev_to_dpos": func() p2p.Message { return &dmsg.ResponseRevertToDPOS{} }, "reset_view": func() p2p.Message { return &dmsg.ResetView{} },
	},
}

func natList(name string, vs []int64) {
	q := make([]string, len(vs))
	for i, v := range vs {
		q[i] = fmt.Sprint(v)
	}
	fmt.Printf("def %s : List Nat := [%s]\n", name, strings.Join(q, ", "))
}

func main() {
	ex.Header("C02", "ElaVerif.Lemmas.WireTokens")
	m := wiretok.Load("p2p/msg")
	var lims []int64
	for _, n := range []string{"MaxInvPerMsg", "MaxBlockLocatorsPerMsg", "MaxAddrPerMsg", "pact.MaxTxPerBlock"} {
		v, ok := m.ConstInt(n)
		if !ok {
			ex.Die("p2p/msg: %s is not a constant", n)
		}
		lims = append(lims, v)
	}
	natList("p2pLimits", lims)

	// message level: MaxLength() of the message type behind every command of the two peer stacks
	// (asked of the real types), the overall payload limit, and the text of the length guard of
	// CheckAndCreateMessage / CheckAndCreateTxMessage
	ex.DefNat("maxMessagePayload", p2p.MaxMessagePayload)
	for _, st := range []string{"elanet", "dpos"} {
		var names []string
		for c := range msgTypes[st] {
			names = append(names, c)
		}
		sort.Strings(names)
		fmt.Printf("def msgMax_%s : List (String × Nat) := [", st)
		for i, c := range names {
			if i > 0 {
				fmt.Printf(", ")
			}
			fmt.Printf("(%s, %d)", ex.LeanStr(c), msgTypes[st][c]().MaxLength())
		}
		fmt.Println("]")
	}
	pf := ex.Parse("p2p/peer/peer.go")
	var guards []string
	for _, fn := range []string{"CheckAndCreateMessage", "CheckAndCreateTxMessage"} {
		fd := pf.MustFunc(fn)
		for _, st := range fd.Body.List {
			if is, ok := st.(*ast.IfStmt); ok {
				guards = append(guards, fn+": if "+pf.Src(is.Cond))
				break
			}
		}
		// everything up to the first make( … hdr.Length …): is the guard before it?
		seenGuard, ok := false, false
		for _, st := range fd.Body.List {
			if _, isIf := st.(*ast.IfStmt); isIf && !seenGuard {
				seenGuard = true
				continue
			}
			if strings.Contains(pf.Src(st), "make([]byte, hdr.Length)") {
				ok = seenGuard
				break
			}
		}
		guards = append(guards, fmt.Sprintf("%s: guard-before-make %v", fn, ok))
	}
	ex.DefStrList("msgGuards", guards)

	// payload codecs of the p2p / DPoS p2p messages, fully inlined (writer/reader mirror, derived schemas)
	wiretok.Deep = true
	wiretok.WalkCases = true
	var mstreams []wiretok.Stream
	for _, mt := range []struct{ dir, typ string }{
		{"p2p/msg", "Version"}, {"p2p/msg", "Addr"}, {"p2p/msg", "Ping"}, {"p2p/msg", "Pong"}, {"p2p/msg", "Inv"},
		{"p2p/msg", "GetBlocks"}, {"p2p/msg", "FilterAdd"}, {"p2p/msg", "FilterLoad"}, {"p2p/msg", "TxFilterLoad"},
		{"p2p/msg", "Reject"}, {"p2p/msg", "DAddr"}, {"p2p/msg", "MerkleBlock"},
		{"dpos/p2p/msg", "Version"}, {"dpos/p2p/msg", "VerAck"}, {"dpos/p2p/msg", "Addr"}, {"dpos/p2p/msg", "Ping"},
		{"dpos/p2p/msg", "Pong"}, {"dpos/p2p/msg", "Vote"}, {"dpos/p2p/msg", "Proposal"}, {"dpos/p2p/msg", "Inventory"},
		{"dpos/p2p/msg", "GetBlock"}, {"dpos/p2p/msg", "GetBlocks"}, {"dpos/p2p/msg", "ResponseBlocks"},
		{"dpos/p2p/msg", "RequestConsensus"}, {"dpos/p2p/msg", "ResponseConsensus"}, {"dpos/p2p/msg", "RequestProposal"},
		{"dpos/p2p/msg", "IllegalProposals"}, {"dpos/p2p/msg", "IllegalVotes"}, {"dpos/p2p/msg", "SidechainIllegalData"},
		{"dpos/p2p/msg", "ResponseInactiveArbitrators"}, {"dpos/p2p/msg", "ResponseRevertToDPOS"}, {"dpos/p2p/msg", "ResetView"},
	} {
		mstreams = append(mstreams, wiretok.Pair(mt.dir+"."+mt.typ, mt.dir, mt.typ, "Serialize", "Deserialize"))
	}
	wiretok.Print("msgStreams", mstreams)
	wiretok.PrintMakes("msgMakes", mstreams)
	var msized []string
	for _, st := range mstreams {
		for _, mk := range st.Makes {
			if strings.Contains(mk, ",") && !constLen.MatchString(mk) {
				msized = append(msized, st.Name+": "+mk)
			}
		}
	}
	ex.DefStrList("msgSizedMakes", msized)
	wiretok.Deep = false
	wiretok.WalkCases = false
	// for each pre-sizing p2p reader: every make(…) whose size mentions the wire count, paired with
	// "was an `if count > <Max> { return … }` statement seen before it?"
	fmt.Printf("def p2pCountMakes : List (String × String × Bool) := [")
	first := true
	for _, rn := range []string{"Inv", "GetBlocks", "Addr", "MerkleBlock"} {
		fd := m.Funcs[rn+".Deserialize"]
		if fd == nil {
			ex.Die("p2p/msg: %s.Deserialize not found", rn)
		}
		f := m.FileOf[rn+".Deserialize"]
		// variables compared with a constant maximum by an `if v > Max { …; return }` seen so far
		guarded := map[string]bool{}
		for _, st := range fd.Body.List {
			if is, ok := st.(*ast.IfStmt); ok {
				if be, ok := is.Cond.(*ast.BinaryExpr); ok && be.Op.String() == ">" {
					if id, isId := be.X.(*ast.Ident); isId && len(is.Body.List) > 0 {
						_, isConst := m.ConstInt(f.Src(be.Y))
						_, ret := is.Body.List[len(is.Body.List)-1].(*ast.ReturnStmt)
						if isConst && ret {
							guarded[id.Name] = true
						}
					}
				}
			}
			ast.Inspect(st, func(n ast.Node) bool {
				c, ok := n.(*ast.CallExpr)
				if ok && f.Src(c.Fun) == "make" && len(c.Args) >= 2 {
					sz, isId := c.Args[len(c.Args)-1].(*ast.Ident)
					if !isId {
						return true
					}
					if !first {
						fmt.Printf(", ")
					}
					first = false
					// guarded = the size variable itself was checked against a maximum before this make
					fmt.Printf("(%s, %s, %v)", ex.LeanStr(rn), ex.LeanStr(f.Src(c)), guarded[sz.Name])
				}
				return true
			})
		}
	}
	fmt.Println("]")
	fmt.Println()

	P := "core/types/payload"
	O := "core/types/outputpayload"
	C := "core/types/common"
	ss := []wiretok.Stream{
		wiretok.Pair("Attribute", C, "Attribute", "Serialize", "Deserialize"),
		wiretok.Pair("Input", C, "Input", "Serialize", "Deserialize"),
		wiretok.Pair("Output", C, "Output", "Serialize", "Deserialize"),
		wiretok.Pair("Header", C, "Header", "Serialize", "Deserialize"),
		wiretok.Pair("Program", "core/contract/program", "Program", "Serialize", "Deserialize"),
		wiretok.Pair("AuxPow", "auxpow", "AuxPow", "Serialize", "Deserialize"),
		wiretok.Pair("BtcTx", "auxpow", "BtcTx", "Serialize", "Deserialize"),
		wiretok.Pair("BtcHeader", "auxpow", "BtcHeader", "Serialize", "Deserialize"),
		wiretok.Pair("CandidateVotes", O, "CandidateVotes", "Serialize", "Deserialize"),
		wiretok.Pair("VoteContent", O, "VoteContent", "Serialize", "Deserialize"),
		wiretok.Pair("VoteOutput", O, "VoteOutput", "Serialize", "Deserialize"),
		wiretok.Pair("Mapping", O, "Mapping", "Serialize", "Deserialize"),
		wiretok.Pair("CrossChainOutput", O, "CrossChainOutput", "Serialize", "Deserialize"),
		wiretok.Pair("Withdraw", O, "Withdraw", "Serialize", "Deserialize"),
		wiretok.Pair("ReturnSideChainDeposit", O, "ReturnSideChainDeposit", "Serialize", "Deserialize"),
		wiretok.Pair("ExchangeVotesOutput", O, "ExchangeVotesOutput", "Serialize", "Deserialize"),
		wiretok.Pair("DefaultOutput", O, "DefaultOutput", "Serialize", "Deserialize"),
		wiretok.Pair("CoinBase", P, "CoinBase", "Serialize", "Deserialize"),
		wiretok.Pair("TransferAsset", P, "TransferAsset", "Serialize", "Deserialize"),
		wiretok.Pair("ProducerInfo", P, "ProducerInfo", "Serialize", "Deserialize"),
		wiretok.Pair("InactiveArbitrators", P, "InactiveArbitrators", "Serialize", "Deserialize"),
		wiretok.Pair("NextTurnDPOSInfo", P, "NextTurnDPOSInfo", "Serialize", "Deserialize"),
		wiretok.Pair("DPOSIllegalBlocks", P, "DPOSIllegalBlocks", "Serialize", "Deserialize"),
		wiretok.Pair("BlockEvidence.Unsigned", P, "BlockEvidence", "SerializeUnsigned", "DeserializeUnsigned"),
		wiretok.Pair("BlockEvidence.Others", P, "BlockEvidence", "SerializeOthers", "DeserializeOthers"),
		wiretok.Pair("Voting", P, "Voting", "Serialize", "Deserialize"),
		wiretok.Pair("VotesContent", P, "VotesContent", "Serialize", "Deserialize"),
		wiretok.Pair("VotesWithLockTime", P, "VotesWithLockTime", "Serialize", "Deserialize"),
		wiretok.Pair("RenewalVotesContent", P, "RenewalVotesContent", "Serialize", "Deserialize"),
		wiretok.Pair("CRCProposalReview", P, "CRCProposalReview", "Serialize", "Deserialize"),
		wiretok.Pair("Record", P, "Record", "Serialize", "Deserialize"),
		wiretok.Pair("SideChainPow", P, "SideChainPow", "Serialize", "Deserialize"),
		wiretok.Pair("ProcessProducer", P, "ProcessProducer", "Serialize", "Deserialize"),
		wiretok.Pair("ReturnDepositCoin", P, "ReturnDepositCoin", "Serialize", "Deserialize"),
		wiretok.Pair("ActivateProducer", P, "ActivateProducer", "Serialize", "Deserialize"),
		wiretok.Pair("UpdateVersion", P, "UpdateVersion", "Serialize", "Deserialize"),
		wiretok.Pair("CRCAppropriation", P, "CRCAppropriation", "Serialize", "Deserialize"),
		wiretok.Pair("CRCProposalWithdraw", P, "CRCProposalWithdraw", "Serialize", "Deserialize"),
		wiretok.Pair("CRCProposalRealWithdraw", P, "CRCProposalRealWithdraw", "Serialize", "Deserialize"),
		wiretok.Pair("CRAssetsRectify", P, "CRAssetsRectify", "Serialize", "Deserialize"),
		wiretok.Pair("CRCouncilMemberClaimNode", P, "CRCouncilMemberClaimNode", "Serialize", "Deserialize"),
		wiretok.Pair("RevertToPOW", P, "RevertToPOW", "Serialize", "Deserialize"),
		wiretok.Pair("RevertToDPOS", P, "RevertToDPOS", "Serialize", "Deserialize"),
		wiretok.Pair("DPoSV2ClaimReward", P, "DPoSV2ClaimReward", "Serialize", "Deserialize"),
		wiretok.Pair("DposV2ClaimRewardRealWithdraw", P, "DposV2ClaimRewardRealWithdraw", "Serialize", "Deserialize"),
		wiretok.Pair("ExchangeVotes", P, "ExchangeVotes", "Serialize", "Deserialize"),
		wiretok.Pair("ReturnVotes", P, "ReturnVotes", "Serialize", "Deserialize"),
		wiretok.Pair("RecordSponsor", P, "RecordSponsor", "Serialize", "Deserialize"),
		wiretok.Pair("DPOSProposal", P, "DPOSProposal", "Serialize", "Deserialize"),
		wiretok.Pair("DPOSProposalVote", P, "DPOSProposalVote", "Serialize", "Deserialize"),
		wiretok.Pair("Confirm", P, "Confirm", "Serialize", "Deserialize"),
		wiretok.ReadOnly("TxHead", "core/transaction", "", "GetTransactionByBytes"),
		wiretok.Pair("TxUnsigned", "core/transaction", "BaseTransaction", "SerializeUnsigned", "DeserializeUnsigned"),
		wiretok.Pair("Tx", "core/transaction", "BaseTransaction", "Serialize", "Deserialize"),
		wiretok.Pair("Block", "core/types", "Block", "Serialize", "Deserialize"),
	}
	wiretok.Print("streams", ss)
	wiretok.PrintMakes("makes", ss)
	// the make(…) calls whose length argument is an integer literal
	seen := map[string]bool{}
	var consts []string
	for _, st := range ss {
		for _, mk := range st.Makes {
			if !seen[mk] && constLen.MatchString(mk) {
				seen[mk] = true
				consts = append(consts, mk)
			}
		}
	}
	ex.DefStrList("constMakes", consts)
	// decoders of on-disk rows that take the row as a byte slice: every place where the slice
	// parameter is indexed or sliced directly (instead of being read through a bytes.Reader, which
	// answers a short row with an error)
	fmt.Println("def rawIndexing : List (String × List String) := [")
	rows := [][2]string{{"blockchain", "DeserializeBlockRow"}}
	for i, rw := range rows {
		bp := wiretok.Load(rw[0])
		fd, ok := bp.Funcs[rw[1]]
		if !ok {
			ex.Die("%s.%s not found", rw[0], rw[1])
		}
		bf := bp.FileOf[rw[1]]
		params := map[string]bool{}
		for _, fl := range fd.Type.Params.List {
			if at, ok := fl.Type.(*ast.ArrayType); ok && at.Len == nil && bf.Src(at.Elt) == "byte" {
				for _, n := range fl.Names {
					params[n.Name] = true
				}
			}
		}
		if len(params) == 0 {
			ex.Die("%s.%s has no []byte parameter", rw[0], rw[1])
		}
		var hits []string
		ast.Inspect(fd.Body, func(n ast.Node) bool {
			switch x := n.(type) {
			case *ast.IndexExpr:
				if id, ok := x.X.(*ast.Ident); ok && params[id.Name] {
					hits = append(hits, bf.Src(x))
				}
			case *ast.SliceExpr:
				if id, ok := x.X.(*ast.Ident); ok && params[id.Name] {
					hits = append(hits, bf.Src(x))
				}
			}
			return true
		})
		sep := ","
		if i == len(rows)-1 {
			sep = ""
		}
		fmt.Printf("  (%s, %s)%s\n", ex.LeanStr(rw[0]+"."+rw[1]), ex.StrList(hits), sep)
	}
	fmt.Println("]")
	ex.Footer("C02")
}
