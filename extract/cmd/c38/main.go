// Facts for C38: the reference graph of the module (see exg/graph.go), the
// functions of the key-handling packages as seeds, and a candidate closed set.
package main

import (
	"fmt"
	"os"
	"strings"

	"elaverif/extract/ex"
	"elaverif/extract/exg"
)

func main() {
	ex.Header("C38")
	pkgs := exg.Load(true, "./...")
	g := exg.BuildGraph(pkgs, *ex.Repo)
	var seeds []int
	var walletFns []string
	for i, n := range g.Nodes {
		switch n.Pkg {
		case "crypto", "crypto/ecies", "account", "dpos/account":
			// every node of the key-handling packages (functions, literals, variables, fields)
			seeds = append(seeds, i)
		case "cmd/wallet":
			if (n.Kind == "func" || n.Kind == "lit") && n.File == "cmd/wallet/account.go" {
				seeds = append(seeds, i)
				walletFns = append(walletFns, fmt.Sprint(i))
			}
		}
	}
	exg.EmitCert(g, seeds)
	ex.Comment("functions and literals declared in cmd/wallet/account.go (the wallet's account commands)")
	fmt.Printf("def walletAccountFns : List Nat := [%s]\n\n", strings.Join(walletFns, ", "))
	reach := g.Reach(seeds)
	// diagnostics: a path to every reached node of a sensitive package
	for i, n := range g.Nodes {
		if reach[i] && exg.Sensitive[n.Pkg] {
			var names []string
			for _, x := range g.Path(seeds, i) {
				names = append(names, g.Nodes[x].Name)
			}
			ex.Comment("REACHED %s via %s", n.Name, strings.Join(names, " -> "))
		}
	}
	if os.Getenv("EXG_NAMES") != "" {
		exg.EmitNames(g, reach)
	}
	ex.Footer("C38")
}
