// Facts for C28/C29: which mempool conflict slots exist (mempool/conflictmanager.go) and which transaction types
// blockchain.CheckDuplicateTx has a per-block rule for.  The guard hypotheses of the C28 / C29 theorems ("at most
// one … per block") are enforced for POOLED transactions by these slots and are NOT enforced for blocks: that is
// read off the two tables by lemmas in Props (closed by `decide`).  The extractor only prints what the source says.
package main

import (
	"fmt"
	"go/ast"
	"strings"

	"elaverif/extract/ex"
)

const prop = "C28"

func sel(e ast.Expr) string { // common2.ReturnDepositCoin -> ReturnDepositCoin ; ident -> name
	switch x := e.(type) {
	case *ast.SelectorExpr:
		return x.Sel.Name
	case *ast.Ident:
		return x.Name
	}
	return "?"
}

func main() {
	ex.Header(prop)
	f := ex.Parse("mempool/conflictmanager.go")
	fmt.Println("/-- conflict slots of the transaction pool: (slot, [(tx type, key function)]) -/")
	fmt.Println("def slots : List (String × List (String × String)) := [")
	first := true
	ast.Inspect(f.AST, func(n ast.Node) bool {
		cl, ok := n.(*ast.CompositeLit)
		if !ok {
			return true
		}
		var name string
		var pairs []string
		for _, el := range cl.Elts {
			kv, ok := el.(*ast.KeyValueExpr)
			if !ok {
				return true
			}
			k, ok := kv.Key.(*ast.Ident)
			if !ok {
				return true
			}
			switch k.Name {
			case "name":
				name = sel(kv.Value)
			case "slot":
				call, ok := kv.Value.(*ast.CallExpr)
				if !ok {
					return true
				}
				for _, a := range call.Args {
					pl, ok := a.(*ast.CompositeLit)
					if !ok {
						continue
					}
					ty, fn := "?", "?"
					for _, pe := range pl.Elts {
						pkv, ok := pe.(*ast.KeyValueExpr)
						if !ok {
							continue
						}
						switch sel(pkv.Key) {
						case "Type":
							ty = sel(pkv.Value)
						case "Func":
							fn = sel(pkv.Value)
						}
					}
					pairs = append(pairs, fmt.Sprintf("(%s, %s)", ex.LeanStr(ty), ex.LeanStr(fn)))
				}
			}
		}
		if name != "" && pairs != nil {
			if !first {
				fmt.Println(",")
			}
			first = false
			fmt.Printf("  (%s, [%s])", ex.LeanStr(name), strings.Join(pairs, ", "))
			return false
		}
		return true
	})
	fmt.Println("]")
	fmt.Println()

	// per-block duplicate rules: the tx types named in the case clauses of CheckDuplicateTx
	b := ex.Parse("blockchain/blockvalidator.go")
	fd := b.MustFunc("CheckDuplicateTx")
	var cases []string
	ast.Inspect(fd, func(n ast.Node) bool {
		if cc, ok := n.(*ast.CaseClause); ok {
			for _, e := range cc.List {
				if s, ok := e.(*ast.SelectorExpr); ok {
					cases = append(cases, s.Sel.Name)
				}
			}
		}
		return true
	})
	ex.Comment("transaction types for which blockchain.CheckDuplicateTx (block sanity) has a rule")
	ex.DefStrList("blockDupCases", cases)
	// how checkTxsContext validates the txs of a block: one CheckTransactionContext per tx against the chain state,
	// the only value threaded through the loop is proposalsUsedAmount (RecordCRCProposalAmount)
	ex.Comment("calls made by blockchain.checkTxsContext")
	ex.DefStrList("checkTxsContextCalls", b.Calls(b.MustFunc("BlockChain.checkTxsContext")))
	ex.Footer(prop)
}
