// Facts for C11: the issuance schedule parameters of the built-in networks as the node's own
// config package computes them, the reward at halving factor 1 (the integer part of the float
// quotient newInflationPerYear / blocksPerYear, obtained by calling GetBlockReward on a copy of the
// configuration whose halving never starts), and the call structure of the coinbase rule.
package main

import (
	"fmt"
	"go/ast"
	"math"
	"strings"

	"elaverif/extract/ex"

	"github.com/elastos/Elastos.ELA/common/config"
)

func emit(name string, p *config.Configuration) {
	c := *p
	c.NewELAIssuanceHeight = 0
	c.HalvingRewardHeight = math.MaxUint32
	base := int64(c.GetBlockReward(0))
	fmt.Printf("def %s : ElaVerif.Reward.Params :=\n  { newIssuanceHeight := %d, halvingHeight := %d, halvingInterval := %d, oldReward := %d, base := %d }\n",
		name, p.NewELAIssuanceHeight, p.HalvingRewardHeight, p.HalvingRewardInterval, int64(p.PowConfiguration.RewardPerBlock), base)
}

func main() {
	ex.Header("C11", "ElaVerif.Model.Reward")
	emit("mainnet", config.GetDefaultParams())
	emit("testnet", config.GetDefaultParams().TestNet())
	emit("regnet", config.GetDefaultParams().RegNet())
	ex.DefInt("afterBurnIssuance", config.AfterBurnIssuanceAmount)
	ex.DefInt("originIssuance", config.OriginIssuanceAmount)
	cfg := ex.Parse("common/config/config.go")
	ex.DefStr("newRewardExpr", cfg.Src(cfg.MustFunc("Configuration.newRewardPerBlock").Body.List[len(cfg.MustFunc("Configuration.newRewardPerBlock").Body.List)-1]))
	bv := ex.Parse("blockchain/blockvalidator.go")
	var lits []string
	for _, l := range bv.Lits(bv.MustFunc("BlockChain.checkCoinbaseTransactionContext").Body) {
		if !strings.HasPrefix(l, "\"") {
			lits = append(lits, l)
		}
	}
	ex.DefStrList("coinbaseCheckNumbers", lits)
	ps := ex.Parse("pow/service.go")
	var lits2 []string
	for _, l := range ps.Lits(ps.MustFunc("Service.AssignCoinbaseTxRewards").Body) {
		if !strings.HasPrefix(l, "\"") {
			lits2 = append(lits2, l)
		}
	}
	ex.DefStrList("assignNumbers", lits2)
	var callers []string
	for _, c := range bv.Calls(bv.MustFunc("BlockChain.checkTxsContext").Body) {
		if strings.Contains(c, "checkCoinbaseTransactionContext") || strings.Contains(c, "GetBlockDPOSReward") || c == "GetTxFee" {
			callers = append(callers, c)
		}
	}
	ex.DefStrList("checkTxsContextCalls", callers)
	// how checkTxsContext treats a failing coinbase check (it is swallowed below CheckRewardHeight)
	ast.Inspect(bv.MustFunc("BlockChain.checkTxsContext").Body, func(n ast.Node) bool {
		if is, ok := n.(*ast.IfStmt); ok && strings.Contains(bv.Src(is.Cond), "CheckRewardHeight") {
			ex.DefStr("coinbaseErrorHandling", bv.Src(is))
			return false
		}
		return true
	})
	fmt.Printf("def checkRewardHeights : List (Nat × Nat) := [(%d, %d), (%d, %d), (%d, %d)]  -- (CheckRewardHeight, DPoSV2StartHeight) mainnet, testnet, regnet\n",
		config.GetDefaultParams().CheckRewardHeight, config.GetDefaultParams().DPoSV2StartHeight,
		config.GetDefaultParams().TestNet().CheckRewardHeight, config.GetDefaultParams().TestNet().DPoSV2StartHeight,
		config.GetDefaultParams().RegNet().CheckRewardHeight, config.GetDefaultParams().RegNet().DPoSV2StartHeight)
	// the binary64 values the compiler gives the share literals (Lemmas/FloatModel.lean: c30, c35)
	ex.DefNat("bits030", math.Float64bits(0.3))
	ex.DefNat("bits035", math.Float64bits(0.35))
	ex.DefNat("bits025", math.Float64bits(0.25))
	// the fixed reward addresses of every built-in network preset (coinbase rule: CR share -> CR assets
	// address, DPoS share -> stake REWARD address, POW mode -> destroy address)
	addr := func(h interface{ ToAddress() (string, error) }) string {
		if h == nil {
			return "nil"
		}
		a, err := h.ToAddress()
		if err != nil {
			return "err"
		}
		return a
	}
	fmt.Println("structure NetAddrs where\n  net : String\n  dposV2Reward : String\n  crAssets : String\n  destroy : String\n  stakePool : String\n  deriving DecidableEq, Repr")
	fmt.Println("def netAddrs : List NetAddrs := [")
	nets := []struct {
		n string
		p *config.Configuration
	}{{"mainnet", config.GetDefaultParams()}, {"testnet", config.GetDefaultParams().TestNet()}, {"regnet", config.GetDefaultParams().RegNet()}}
	for i, n := range nets {
		sep := ","
		if i == len(nets)-1 {
			sep = ""
		}
		fmt.Printf("  { net := %s, dposV2Reward := %s, crAssets := %s, destroy := %s, stakePool := %s }%s\n", ex.LeanStr(n.n),
			ex.LeanStr(addr(n.p.DPoSConfiguration.DPoSV2RewardAccumulateProgramHash)), ex.LeanStr(addr(n.p.CRConfiguration.CRAssetsProgramHash)),
			ex.LeanStr(addr(n.p.DestroyELAProgramHash)), ex.LeanStr(addr(n.p.StakePoolProgramHash)), sep)
	}
	fmt.Println("]")
	ex.DefStr("stakeRewardAddress", addr(config.StakeRewardProgramHash))
	ex.DefStr("stakePoolAddress", addr(config.StakePoolProgramHash))
	ex.DefStr("crAssetsAddress", addr(config.CRAssetsProgramHash))
	ex.DefStr("destroyAddress", addr(config.DestroyELAProgramHash))
	ex.DefStr("dposRewardExpr", bv.Src(bv.MustFunc("BlockChain.GetBlockDPOSReward").Body))
	ex.Footer("C11")
}
