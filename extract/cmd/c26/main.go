// Facts for C26: the constants and the offsetSeconds formulas of
// dpos/manager/view.go:calculateOffsetTimeV1, as written in the source now.
package main

import (
	"go/ast"
	"go/token"

	"elaverif/extract/ex"
)

func main() {
	ex.Header("C26")
	f := ex.Parse("dpos/manager/view.go")
	consts := map[string]string{}
	for _, d := range f.AST.Decls {
		gd, ok := d.(*ast.GenDecl)
		if !ok || gd.Tok != token.CONST {
			continue
		}
		for _, sp := range gd.Specs {
			vs := sp.(*ast.ValueSpec)
			for i, n := range vs.Names {
				if i < len(vs.Values) {
					consts[n.Name] = f.Src(vs.Values[i])
				}
			}
		}
	}
	ex.DefStr("changeViewAddStep", consts["ChangeViewAddStep"])
	ex.DefStr("changeViewMulStep", consts["ChangeViewMulStep"])

	// every assignment to offsetSeconds in calculateOffsetTimeV1, in source order
	fd := f.MustFunc("view.calculateOffsetTimeV1")
	var assigns []string
	ast.Inspect(fd, func(n ast.Node) bool {
		if a, ok := n.(*ast.AssignStmt); ok && len(a.Lhs) == 1 && len(a.Rhs) == 1 {
			if id, ok := a.Lhs[0].(*ast.Ident); ok && id.Name == "offsetSeconds" {
				assigns = append(assigns, f.Src(a.Rhs[0]))
			}
		}
		return true
	})
	ex.DefStrList("v1OffsetSeconds", assigns)
	ex.Footer("C26")
}
