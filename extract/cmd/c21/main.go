// Facts for C21: every `History.Append(height, execute, rollback)` call site in
// dpos/state with the syntactic write-sets of its two closures.
//
// Printed per site: file, line, enclosing function, ordinal inside that function,
// whether both closures are function literals, the writes of the execute closure
// and of the rollback closure (location text, kind, right-hand side text), the
// calls made as statements by either closure, and the `x := expr` captures that
// are in scope when Append is called (how a rollback gets its "old" value).
// Nothing is judged here; the lemmas in ElaVerif/Props/C21.lean decide.
//
// (extract/cmd/c22/main.go is the same program pointed at cr/state.)
package main

import (
	"fmt"
	"go/ast"
	"go/token"
	"hash/fnv"
	"sort"
	"strings"

	"elaverif/extract/ex"
)

const prop = "C21"

var dirs = []string{"dpos/state"}

// snapshot structs (their fields are the state a rollback has to restore) and the entry points from
// which block processing starts
var snapStructs = []string{"StateKeyFrame", "Producer"}
var roots = []string{"ProcessBlock", "ProcessSpecialTxPayload"}

type write struct{ loc, kind, rhs string }

type site struct {
	file     string
	line     int
	fn       string
	idx      int
	recv     string // text of the receiver of .Append (which History object)
	lit      bool
	doW, unW []write
	doC, unC []string
	caps     [][2]string
	sig      uint64 // FNV-1a of the printed source of both closures (a fingerprint, not a judgement)
}

func isHistoryAppend(f *ex.File, c *ast.CallExpr) (string, bool) {
	sel, ok := c.Fun.(*ast.SelectorExpr)
	if !ok || sel.Sel.Name != "Append" || len(c.Args) != 3 {
		return "", false
	}
	r := f.Src(sel.X)
	if strings.HasSuffix(r, "History") || strings.HasSuffix(r, "history") {
		return r, true
	}
	return "", false
}

// closure walks the body of a function literal and records writes and statement calls.
func closure(f *ex.File, fl *ast.FuncLit) (ws []write, calls []string) {
	ast.Inspect(fl.Body, func(n ast.Node) bool {
		switch x := n.(type) {
		case *ast.FuncLit:
			return x == fl // do not descend into nested literals (none expected)
		case *ast.AssignStmt:
			if x.Tok == token.DEFINE {
				return true
			}
			kind := map[token.Token]string{token.ASSIGN: "assign", token.ADD_ASSIGN: "add", token.SUB_ASSIGN: "sub"}[x.Tok]
			if kind == "" {
				kind = "op" + x.Tok.String()
			}
			for i, l := range x.Lhs {
				rhs := ""
				if i < len(x.Rhs) {
					rhs = f.Src(x.Rhs[i])
				} else if len(x.Rhs) == 1 {
					rhs = f.Src(x.Rhs[0])
				}
				if id, ok := l.(*ast.Ident); ok && id.Name == "_" {
					continue
				}
				ws = append(ws, write{f.Src(l), kind, rhs})
			}
		case *ast.IncDecStmt:
			k := "inc"
			if x.Tok == token.DEC {
				k = "dec"
			}
			ws = append(ws, write{f.Src(x.X), k, "1"})
		case *ast.ExprStmt:
			if c, ok := x.X.(*ast.CallExpr); ok {
				callee := f.Src(c.Fun)
				if callee == "delete" && len(c.Args) == 2 {
					ws = append(ws, write{f.Src(c.Args[0]) + "[" + f.Src(c.Args[1]) + "]", "delete", ""})
				} else {
					calls = append(calls, callee)
				}
			}
		}
		return true
	})
	return
}

// captures lists `ident := expr` definitions textually before pos inside fn.
func captures(f *ex.File, body *ast.BlockStmt, pos token.Pos) [][2]string {
	var res [][2]string
	ast.Inspect(body, func(n ast.Node) bool {
		if n == nil {
			return true
		}
		if n.Pos() >= pos {
			return false
		}
		if a, ok := n.(*ast.AssignStmt); ok && a.Tok == token.DEFINE && len(a.Lhs) == len(a.Rhs) {
			for i, l := range a.Lhs {
				if id, ok := l.(*ast.Ident); ok && id.Name != "_" {
					res = append(res, [2]string{id.Name, f.Src(a.Rhs[i])})
				}
			}
		}
		return true
	})
	return res
}

// codes prints a string as the list of its character codes: the Lean kernel cannot evaluate
// String functions, but it evaluates list prefix / equality on List Nat.
func codes(x string) string {
	var b []string
	for _, r := range x {
		b = append(b, fmt.Sprint(int(r)))
	}
	return "[" + strings.Join(b, ",") + "]"
}

// capIdent: the identifier a right-hand side consists of, for the shapes `x`, `*x`, `&x`, `f(x)`.
func capIdent(rhs string) string {
	r := strings.TrimLeft(rhs, "*&")
	if i := strings.LastIndex(r, "("); i >= 0 && strings.HasSuffix(r, ")") {
		r = r[i+1 : len(r)-1]
	}
	for _, c := range r {
		if !(c == '_' || c >= '0' && c <= '9' || c >= 'a' && c <= 'z' || c >= 'A' && c <= 'Z') {
			return ""
		}
	}
	return r
}

// fieldOf: last selector component of a location, `[]` appended for an indexed location.
func fieldOf(loc string) string {
	base := loc
	idx := ""
	if i := strings.Index(loc, "["); i >= 0 {
		base, idx = loc[:i], "[]"
	}
	if j := strings.LastIndex(base, "."); j >= 0 {
		base = base[j+1:]
	}
	return base + idx
}

func nw(ws []write) string {
	var b []string
	for _, w := range ws {
		b = append(b, fmt.Sprintf("⟨%s, %s, %s, %s, %s⟩", codes(w.loc), codes(w.kind), codes(w.rhs), codes(capIdent(w.rhs)), codes(fieldOf(w.loc))))
	}
	return "[" + strings.Join(b, ", ") + "]"
}

func ncs(xs []string) string {
	var b []string
	for _, x := range xs {
		b = append(b, codes(x))
	}
	return "[" + strings.Join(b, ", ") + "]"
}

func lw(ws []write) string {
	var b []string
	for _, w := range ws {
		b = append(b, fmt.Sprintf("⟨%s, %s, %s⟩", ex.LeanStr(w.loc), ex.LeanStr(w.kind), ex.LeanStr(w.rhs)))
	}
	return "[" + strings.Join(b, ", ") + "]"
}

// outside prints, as facts, the assignments to fields of the snapshot structs that are performed
// OUTSIDE every History.Append closure by functions reachable from the block-processing entry points
// through calls that are themselves outside Append closures (name-based call resolution inside the
// package: an over-approximation).  Writes whose root is a local built from a composite literal in the
// same function (a fresh object) are skipped.
func outside() {
	type fn struct {
		f  *ex.File
		fd *ast.FuncDecl
	}
	byName := map[string][]fn{}
	fields := map[string]bool{}
	var files []*ex.File
	for _, d := range dirs {
		files = append(files, ex.ParseDir(d)...)
	}
	for _, f := range files {
		for _, d := range f.AST.Decls {
			switch x := d.(type) {
			case *ast.FuncDecl:
				if x.Body != nil {
					byName[x.Name.Name] = append(byName[x.Name.Name], fn{f, x})
				}
			case *ast.GenDecl:
				for _, sp := range x.Specs {
					ts, ok := sp.(*ast.TypeSpec)
					if !ok {
						continue
					}
					st, ok := ts.Type.(*ast.StructType)
					if !ok {
						continue
					}
					for _, want := range snapStructs {
						if ts.Name.Name == want {
							for _, fl := range st.Fields.List {
								for _, n := range fl.Names {
									fields[n.Name] = true
								}
							}
						}
					}
				}
			}
		}
	}
	// positions covered by Append closures, per function
	inClosure := func(f *ex.File, fd *ast.FuncDecl) func(token.Pos) bool {
		var spans [][2]token.Pos
		ast.Inspect(fd.Body, func(n ast.Node) bool {
			if c, ok := n.(*ast.CallExpr); ok {
				if _, ok := isHistoryAppend(f, c); ok {
					for _, a := range c.Args[1:] {
						spans = append(spans, [2]token.Pos{a.Pos(), a.End()})
					}
				}
			}
			return true
		})
		return func(p token.Pos) bool {
			for _, s := range spans {
				if p >= s[0] && p < s[1] {
					return true
				}
			}
			return false
		}
	}
	visited := map[string]bool{}
	var order []string
	var queue []string
	for _, r := range roots {
		if !visited[r] {
			visited[r] = true
			queue = append(queue, r)
		}
	}
	type hit struct{ fn, field, where, stmt string }
	var hits []hit
	for len(queue) > 0 {
		name := queue[0]
		queue = queue[1:]
		order = append(order, name)
		for _, x := range byName[name] {
			f, fd := x.f, x.fd
			inside := inClosure(f, fd)
			full := fd.Name.Name
			if r := ex.RecvName(fd); r != "" {
				full = r + "." + full
			}
			// locals built from composite literals
			fresh := map[string]bool{}
			ast.Inspect(fd.Body, func(n ast.Node) bool {
				if a, ok := n.(*ast.AssignStmt); ok && a.Tok == token.DEFINE && len(a.Lhs) == len(a.Rhs) {
					for i, l := range a.Lhs {
						id, ok := l.(*ast.Ident)
						if !ok {
							continue
						}
						r := a.Rhs[i]
						if u, ok := r.(*ast.UnaryExpr); ok {
							r = u.X
						}
						if _, ok := r.(*ast.CompositeLit); ok {
							fresh[id.Name] = true
						}
					}
				}
				return true
			})
			rootOf := func(e ast.Expr) string {
				for {
					switch y := e.(type) {
					case *ast.SelectorExpr:
						e = y.X
					case *ast.IndexExpr:
						e = y.X
					case *ast.StarExpr:
						e = y.X
					case *ast.ParenExpr:
						e = y.X
					case *ast.Ident:
						return y.Name
					default:
						return ""
					}
				}
			}
			fieldName := func(e ast.Expr) string {
				for {
					switch y := e.(type) {
					case *ast.IndexExpr:
						e = y.X
					case *ast.ParenExpr:
						e = y.X
					case *ast.StarExpr:
						e = y.X
					case *ast.SelectorExpr:
						return y.Sel.Name
					default:
						return ""
					}
				}
			}
			note := func(lhs ast.Expr, st ast.Node) {
				if inside(st.Pos()) {
					return
				}
				fnm := fieldName(lhs)
				if fnm == "" || !fields[fnm] || fresh[rootOf(lhs)] {
					return
				}
				hits = append(hits, hit{full, fnm, fmt.Sprintf("%s:%d", f.Path, f.Line(st)), f.Src(st)})
			}
			ast.Inspect(fd.Body, func(n ast.Node) bool {
				switch y := n.(type) {
				case *ast.AssignStmt:
					if y.Tok != token.DEFINE {
						for _, l := range y.Lhs {
							note(l, y)
						}
					}
				case *ast.IncDecStmt:
					note(y.X, y)
				case *ast.CallExpr:
					if id, ok := y.Fun.(*ast.Ident); ok && id.Name == "delete" && len(y.Args) == 2 {
						note(y.Args[0], y)
					}
					if inside(y.Pos()) {
						return true // calls made by closures run under the history: not followed
					}
					callee := ""
					switch c := y.Fun.(type) {
					case *ast.Ident:
						callee = c.Name
					case *ast.SelectorExpr:
						callee = c.Sel.Name
					}
					if callee == "Deserialize" || callee == "Serialize" || callee == "DeserializeUnsigned" || callee == "SerializeUnsigned" {
						callee = "" // (de)serialisers of payloads share their name with the key frames' own: not followed
					}
					if callee != "" && len(byName[callee]) > 0 && !visited[callee] {
						visited[callee] = true
						queue = append(queue, callee)
					}
				}
				return true
			})
		}
	}
	sort.Slice(hits, func(i, j int) bool {
		if hits[i].fn != hits[j].fn {
			return hits[i].fn < hits[j].fn
		}
		return hits[i].field < hits[j].field
	})
	var items []string
	seen := map[string]bool{}
	fmt.Printf("\n-- writes to snapshot fields outside Append closures, in code reachable from %s (%d functions walked)\n", strings.Join(roots, ", "), len(order))
	for _, h := range hits {
		st := h.stmt
		if len(st) > 110 {
			st = st[:110] + "…"
		}
		fmt.Printf("--   %s  %s  .%s   %s\n", h.where, h.fn, h.field, st)
		k := h.fn + "|" + h.field
		if !seen[k] {
			seen[k] = true
			items = append(items, fmt.Sprintf("(%s, %s)", codes(h.fn), codes(h.field)))
		}
	}
	fmt.Printf("def outsideWrites : List (Txt × Txt) := [%s]\n", strings.Join(items, ",\n  "))
}

// arbOrder prints the order of the RollbackTo calls inside Arbiters.RollbackTo and of the two processing steps of
// Arbiters.ProcessBlock (facts; the lemma in Props/C21.lean states what the order has to be).
func arbOrder() {
	var ro, po []string
	for _, f := range ex.ParseDir("dpos/state") {
		for _, d := range f.AST.Decls {
			fd, ok := d.(*ast.FuncDecl)
			if !ok || fd.Body == nil || ex.RecvName(fd) != "Arbiters" {
				continue
			}
			if fd.Name.Name == "RollbackTo" || fd.Name.Name == "ProcessBlock" {
				ast.Inspect(fd.Body, func(n ast.Node) bool {
					c, ok := n.(*ast.CallExpr)
					if !ok {
						return true
					}
					sel, ok := c.Fun.(*ast.SelectorExpr)
					if !ok {
						return true
					}
					if fd.Name.Name == "RollbackTo" && sel.Sel.Name == "RollbackTo" {
						ro = append(ro, f.Src(sel.X))
					}
					if fd.Name.Name == "ProcessBlock" && (sel.Sel.Name == "ProcessBlock" || sel.Sel.Name == "IncreaseChainHeight") {
						po = append(po, f.Src(c.Fun))
					}
					return true
				})
			}
		}
	}
	fmt.Printf("\n-- Arbiters.ProcessBlock steps: %s\n", strings.Join(po, ", "))
	fmt.Printf("def arbProcessOrder : List Txt := %s\n", ncs(po))
	fmt.Printf("-- Arbiters.RollbackTo calls: %s\n", strings.Join(ro, ", "))
	fmt.Printf("def arbRollbackOrder : List Txt := %s\n", ncs(ro))
}

func main() {
	ex.Header(prop, "ElaVerif.Model.Sites")
	var sites []site
	for _, d := range dirs {
		for _, f := range ex.ParseDir(d) {
			for _, decl := range f.AST.Decls {
				fd, ok := decl.(*ast.FuncDecl)
				if !ok || fd.Body == nil {
					continue
				}
				name := fd.Name.Name
				if r := ex.RecvName(fd); r != "" {
					name = r + "." + name
				}
				idx := 0
				ast.Inspect(fd.Body, func(n ast.Node) bool {
					c, ok := n.(*ast.CallExpr)
					if !ok {
						return true
					}
					recv, ok := isHistoryAppend(f, c)
					if !ok {
						return true
					}
					s := site{file: f.Path, line: f.Line(c), fn: name, idx: idx, recv: recv, lit: true}
					idx++
					do, ok1 := c.Args[1].(*ast.FuncLit)
					un, ok2 := c.Args[2].(*ast.FuncLit)
					if !ok1 || !ok2 {
						s.lit = false
					}
					if ok1 {
						s.doW, s.doC = closure(f, do)
					}
					if ok2 {
						s.unW, s.unC = closure(f, un)
					}
					hs := fnv.New64a()
					hs.Write([]byte(f.Src(c.Args[1]) + "\x00" + f.Src(c.Args[2])))
					s.sig = hs.Sum64() % 1000000007
					all := captures(f, fd.Body, c.Pos())
					// keep only captures a rollback closure mentions
					if ok2 {
						txt := f.Src(un)
						for _, cp := range all {
							if strings.Contains(txt, cp[0]) {
								s.caps = append(s.caps, cp)
							}
						}
					}
					sites = append(sites, s)
					return true
				})
			}
		}
	}
	sort.SliceStable(sites, func(i, j int) bool {
		if sites[i].file != sites[j].file {
			return sites[i].file < sites[j].file
		}
		return sites[i].line < sites[j].line
	})
	fmt.Printf("open ElaVerif.Sites\n\n")
	var names []string
	for i, s := range sites {
		n := fmt.Sprintf("s%d", i)
		names = append(names, n)
		var caps []string
		for _, c := range s.caps {
			caps = append(caps, fmt.Sprintf("(%s, %s)", ex.LeanStr(c[0]), ex.LeanStr(c[1])))
		}
		fmt.Printf("-- %s:%d  %s #%d  on %s\n", s.file, s.line, s.fn, s.idx, s.recv)
		fmt.Printf("def %s : Site :=\n  { file := %s, line := %d, fn := %s, idx := %d, recv := %s, lit := %v,\n    doW := %s,\n    undoW := %s,\n    doCalls := %s, undoCalls := %s,\n    caps := [%s] }\n",
			n, ex.LeanStr(s.file), s.line, ex.LeanStr(s.fn), s.idx, ex.LeanStr(s.recv), s.lit,
			lw(s.doW), lw(s.unW), ex.StrList(s.doC), ex.StrList(s.unC), strings.Join(caps, ", "))
	}
	fmt.Printf("\ndef sites : List Site := [%s]\n", strings.Join(names, ", "))
	// the same table with every text as a list of character codes (what the lemmas decide over)
	var nn []string
	for i, s := range sites {
		var caps []string
		for _, c := range s.caps {
			caps = append(caps, fmt.Sprintf("(%s, %s)", codes(c[0]), codes(c[1])))
		}
		fmt.Printf("def n%d : NSite := ⟨%d, %d, %s, %v, %s, %s, %s, %s, [%s]⟩\n", i, i, s.sig, codes(s.recv), s.lit, nw(s.doW), nw(s.unW), ncs(s.doC), ncs(s.unC), strings.Join(caps, ", "))
		nn = append(nn, fmt.Sprintf("n%d", i))
	}
	fmt.Printf("\ndef nsites : List NSite := [%s]\n", strings.Join(nn, ", "))
	outside()
	arbOrder()
	ex.Footer(prop)
}
