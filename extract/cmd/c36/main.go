// Facts for C36: the JSON-RPC registration table (method → handler), each
// handler's service-level gate (level constant, and whether the gate is the
// first statement) and the functions it statically calls (transitively through
// helpers of package servers); the order of the checks in both Handle functions.
package main

import (
	"fmt"
	"go/ast"
	"go/token"
	"go/types"
	"math/big"
	"sort"
	"strconv"
	"strings"

	"elaverif/extract/ex"
	"elaverif/extract/exg"

	"github.com/elastos/Elastos.ELA/common/config"
	"golang.org/x/tools/go/packages"
)

// gate finds `if rtn := checkRPCServiceLevel(<const>); rtn != nil { return rtn }`
// among the top-level statements of a body: (statement index, level value).
func gate(p *packages.Package, fd *ast.FuncDecl) (int, string) {
	for i, st := range fd.Body.List {
		ifs, ok := st.(*ast.IfStmt)
		if !ok || ifs.Init == nil {
			continue
		}
		as, ok := ifs.Init.(*ast.AssignStmt)
		if !ok || len(as.Rhs) != 1 {
			continue
		}
		call, ok := as.Rhs[0].(*ast.CallExpr)
		if !ok || exg.CalleeName(p, call) != "servers.checkRPCServiceLevel" || len(call.Args) != 1 {
			continue
		}
		// the body must return the refusal
		if len(ifs.Body.List) != 1 {
			continue
		}
		if _, ok := ifs.Body.List[0].(*ast.ReturnStmt); !ok {
			continue
		}
		if be, ok := ifs.Cond.(*ast.BinaryExpr); !ok || be.Op != token.NEQ {
			continue
		}
		v, ok := exg.ConstString(p, call.Args[0])
		if !ok {
			v = "255"
		}
		return i, v
	}
	return -1, ""
}

// enc encodes a name as the number whose big-endian bytes are the name.
func enc(s string) string {
	if s == "" {
		return "0"
	}
	return "0x" + new(big.Int).SetBytes([]byte(s)).Text(16)
}

func encList(xs []string) string {
	var e []string
	for _, x := range xs {
		e = append(e, enc(x))
	}
	return "[" + strings.Join(e, ", ") + "]"
}

func main() {
	ex.Header("C36")
	pkgs := exg.Load(false, "./servers", "./servers/httpjsonrpc", "./utils/http/jsonrpc", "./servers/httprestful", "./servers/httpwebsocket")
	sv := exg.Pkg(pkgs, "servers")
	hj := exg.Pkg(pkgs, "servers/httpjsonrpc")
	uj := exg.Pkg(pkgs, "utils/http/jsonrpc")
	hr := exg.Pkg(pkgs, "servers/httprestful")
	hw := exg.Pkg(pkgs, "servers/httpwebsocket")

	ex.Comment("service levels (common/config): name ↦ value, and what RPCServiceLevelFromString maps names to")
	names := []string{"ConfigurationPermitted", "MiningPermitted", "TransactionPermitted", "WalletPermitted", "QueryOnly", "", "queryonly", "Unknown"}
	var rows []string
	for _, n := range names {
		rows = append(rows, fmt.Sprintf("(%s, %d)", ex.LeanStr(n), config.RPCServiceLevelFromString(n)))
	}
	fmt.Printf("def levelFromString : List (String × Nat) := [%s]\n", strings.Join(rows, ", "))
	fmt.Printf("def levelValues : List Nat := [%d, %d, %d, %d, %d]\n", config.ConfigurationPermitted, config.MiningPermitted, config.TransactionPermitted, config.WalletPermitted, config.QueryOnly)

	// functions of package servers by name, and their same-package static call closure
	decls := map[string]*ast.FuncDecl{}
	for _, f := range sv.Syntax {
		for _, d := range f.Decls {
			if fd, ok := d.(*ast.FuncDecl); ok && fd.Recv == nil && fd.Body != nil {
				decls["servers."+fd.Name.Name] = fd
			}
		}
	}
	var closure func(name string, seen map[string]bool, out map[string]bool)
	closure = func(name string, seen map[string]bool, out map[string]bool) {
		if seen[name] {
			return
		}
		seen[name] = true
		fd := decls[name]
		if fd == nil {
			return
		}
		ast.Inspect(fd.Body, func(x ast.Node) bool {
			switch e := x.(type) {
			case *ast.CallExpr:
				if c := exg.CalleeName(sv, e); c != "" {
					out[c] = true
					if _, ok := decls[c]; ok {
						closure(c, seen, out)
					}
				}
			case *ast.Ident: // function values of the same package passed around
				if fn, ok := sv.TypesInfo.Uses[e].(*types.Func); ok {
					if c := exg.FuncName(fn); decls[c] != nil {
						out[c] = true
						closure(c, seen, out)
					}
				}
			}
			return true
		})
	}

	ex.Comment("httpjsonrpc.StartRPCServer: mainMux[method] = handler, with the handler's gate and call closure")
	fmt.Printf("/-! Names are encoded as numbers (the bytes of the name, big-endian: `RpcAccess.enc`) because the\n    kernel compares numbers fast and strings slowly; the readable name is in the comment of each row. -/\n")
	fmt.Printf("structure Row where\n  method : Nat\n  handler : Nat\n  /-- first argument of checkRPCServiceLevel, if the handler has the refusal `if` -/\n  gate : Option Nat\n  /-- index of that `if` among the handler's top-level statements -/\n  gateAt : Nat\n  /-- functions outside the standard library the handler statically reaches through helpers of package servers -/\n  calls : List Nat\n  deriving DecidableEq, Repr\n\n")
	mkRow := func(m, h string) string {
		g, at := "none", 0
		calls := map[string]bool{}
		if fd := decls[h]; fd != nil {
			if i, v := gate(sv, fd); i >= 0 {
				g, at = "(some "+v+")", i
			}
			closure(h, map[string]bool{}, calls)
		}
		var cs []string
		for c := range calls {
			// keep module functions/methods and third-party ones; drop the standard library
			if strings.Contains(c, ".") && !strings.Contains(strings.SplitN(strings.TrimLeft(c, "(*"), ".", 2)[0], "/") &&
				!strings.HasPrefix(c, "servers.") && !strings.HasPrefix(c, "(") {
				continue // std package function such as fmt.Sprint, strconv.Itoa
			}
			cs = append(cs, c)
		}
		sort.Strings(cs)
		var encs []string
		for _, c := range cs {
			encs = append(encs, enc(c))
		}
		return fmt.Sprintf("  -- %s -> %s; calls %s\n  { method := %s, handler := %s, gate := %s, gateAt := %d,\n    calls := [%s] }", m, h, strings.Join(cs, ", "), enc(m), enc(h), g, at, strings.Join(encs, ", "))
	}
	// name → handler entries of a map composite literal (REST: Action{name:, handler:}; websocket: handler directly)
	frontTable := func(p *packages.Package, fn string) []string {
		var rows []string
		ast.Inspect(exg.FuncDecl(p, fn), func(x ast.Node) bool {
			cl, ok := x.(*ast.CompositeLit)
			if !ok {
				return true
			}
			if _, isMap := p.TypesInfo.Types[cl].Type.Underlying().(*types.Map); !isMap {
				return true
			}
			for _, el := range cl.Elts {
				kv, ok := el.(*ast.KeyValueExpr)
				if !ok {
					continue
				}
				key, _ := exg.ConstString(p, kv.Key)
				var hexpr ast.Expr = kv.Value
				if inner, ok := kv.Value.(*ast.CompositeLit); ok {
					for _, f := range inner.Elts {
						if fkv, ok := f.(*ast.KeyValueExpr); ok && exg.Src(p, fkv.Key) == "handler" {
							hexpr = fkv.Value
						}
					}
				}
				var id *ast.Ident
				switch r := hexpr.(type) {
				case *ast.Ident:
					id = r
				case *ast.SelectorExpr:
					id = r.Sel
				}
				h := "?" + exg.Src(p, hexpr)
				if id != nil {
					if f, ok := p.TypesInfo.Uses[id].(*types.Func); ok {
						h = exg.FuncName(f)
					}
				}
				rows = append(rows, mkRow(key, h))
			}
			return false
		})
		return rows
	}
	start := exg.FuncDecl(hj, "StartRPCServer")
	var tbl []string
	ast.Inspect(start.Body, func(x ast.Node) bool {
		as, ok := x.(*ast.AssignStmt)
		if !ok || len(as.Lhs) != 1 || len(as.Rhs) != 1 {
			return true
		}
		ix, ok := as.Lhs[0].(*ast.IndexExpr)
		if !ok || exg.Src(hj, ix.X) != "mainMux" {
			return true
		}
		m, ok := exg.ConstString(hj, ix.Index)
		if !ok {
			ex.Die("non-constant method name %s", exg.Src(hj, ix.Index))
		}
		var id *ast.Ident
		switch r := as.Rhs[0].(type) {
		case *ast.Ident:
			id = r
		case *ast.SelectorExpr:
			id = r.Sel
		}
		h := "?" + exg.Src(hj, as.Rhs[0])
		if id != nil {
			if fn, ok := hj.TypesInfo.Uses[id].(*types.Func); ok {
				h = exg.FuncName(fn)
			}
		}
		tbl = append(tbl, mkRow(m, h))
		return true
	})
	fmt.Printf("def rpcTable : List Row := [\n%s\n]\n\n", strings.Join(tbl, ",\n"))

	ex.Comment("the other front ends call the same handlers: REST routes (GET and POST maps) and websocket actions")
	fmt.Printf("def restTable : List Row := [\n%s\n]\n\n", strings.Join(frontTable(hr, "restServer.initializeMethod"), ",\n"))
	fmt.Printf("def wsTable : List Row := [\n%s\n]\n\n", strings.Join(frontTable(hw, "Server.initMethods"), ",\n"))

	ex.Comment("method sets of the p2p server interfaces the handlers can reach (names as in the call lists)")
	var ifaceMethods []string
	for _, ip := range sv.Types.Imports() {
		for _, want := range [][2]string{{exg.Module + "/p2p/server", "IServer"}, {exg.Module + "/elanet", "Server"}} {
			if ip.Path() != want[0] {
				continue
			}
			if tn, ok := ip.Scope().Lookup(want[1]).(*types.TypeName); ok {
				if it, ok := tn.Type().Underlying().(*types.Interface); ok {
					for i := 0; i < it.NumMethods(); i++ {
						ifaceMethods = append(ifaceMethods, exg.FuncName(it.Method(i)))
					}
				}
			}
		}
	}
	sort.Strings(ifaceMethods)
	ex.Comment("%s", strings.Join(ifaceMethods, ", "))
	fmt.Printf("def p2pServerMethods : List Nat := %s\n\n", encList(ifaceMethods))

	ex.Comment("order of the statically resolved calls in the two request handlers")
	hc, sc := exg.StaticCalls(hj, exg.FuncDecl(hj, "Handle")), exg.StaticCalls(uj, exg.FuncDecl(uj, "Server.ServeHTTP"))
	ex.Comment("%s", strings.Join(hc, ", "))
	fmt.Printf("def handleCalls : List Nat := %s\n", encList(hc))
	ex.Comment("%s", strings.Join(sc, ", "))
	fmt.Printf("def serveHTTPCalls : List Nat := %s\n", encList(sc))
	_ = strconv.Itoa
	ex.Footer("C36")
}
